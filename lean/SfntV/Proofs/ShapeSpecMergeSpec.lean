/-
C06, contextual lookups whose nested lookups may merge glyphs (ligature substitution) or adjust
a pair: facts about the reference semantics on buffers of the shape `Form`.
-/
import SfntV.Proofs.ShapeSpecMergeBase
import SfntV.Proofs.ShapeSpecInsSpec
namespace SfntV.C06
open SfntV
open SfntV.Spec.Shape (TG gl CtxMatch tagWindow inputPositions windowEnd)

/-! ## (S3) one or two glyphs replaced by glyphs with the same tags -/

theorem replace1_eq (ts : List TG) (j jj : Nat) (c' : TG) :
    ts.take j ++ (c' :: (ts.drop (j + 1)).take jj) ++ ts.drop (j + 1 + jj) =
      ts.take j ++ [c'] ++ ts.drop (j + 1) := by
  have e : ts.drop (j + 1 + jj) = (ts.drop (j + 1)).drop jj := by rw [List.drop_drop]
  rw [e]
  simp only [List.append_assoc, List.cons_append, List.nil_append, List.take_append_drop]

theorem replace2_eq (ts : List TG) (j jj : Nat) (c' s' : TG) (hj : j < ts.length) :
    ts.take j ++ (c' :: (ts.drop (j + 1)).take jj ++ [s']) ++ ts.drop (j + 1 + jj + 1) =
      (ts.take j ++ [c'] ++ ts.drop (j + 1)).take (j + 1 + jj) ++ [s'] ++
        (ts.take j ++ [c'] ++ ts.drop (j + 1)).drop (j + 1 + jj + 1) := by
  have hl : (ts.take j ++ [c']).length = j + 1 := by
    simp only [List.length_append, List.length_take, List.length_cons, List.length_nil]; omega
  have e1 : j + 1 + jj = (ts.take j ++ [c']).length + jj := by rw [hl]
  have e2 : j + 1 + jj + 1 = (ts.take j ++ [c']).length + (jj + 1) := by rw [hl]; omega
  have e3 : ts.drop (j + 1 + jj + 1) = (ts.drop (j + 1)).drop (jj + 1) := by
    rw [List.drop_drop]; congr 1
  conv => rhs; rw [e2, List.drop_length_add_append, e1, List.take_length_add_append]
  rw [e3]
  simp only [List.append_assoc, List.cons_append, List.nil_append]

theorem form_replace1 {a : Nat} {P A D ts : List TG} (h : Form a P A D ts) (j jj : Nat) (cur c' : TG)
    (hj : ts[j]? = some cur) (ha : a ≤ j) (hlt : j < a + A.length) (hc : c'.inp = cur.inp ∧ c'.win = cur.win) :
    ∃ A', Form a P A' D (ts.take j ++ (c' :: (ts.drop (j + 1)).take jj) ++ ts.drop (j + 1 + jj)) ∧
      A'.length = A.length ∧
      inputPositions 0 (ts.take j ++ (c' :: (ts.drop (j + 1)).take jj) ++ ts.drop (j + 1 + jj)) =
        inputPositions 0 ts := by
  rw [replace1_eq]
  have hf := (form_replace h j cur [c'] hj ha hlt (by
    intro x hx
    simp only [List.mem_cons, List.not_mem_nil, or_false] at hx
    subst hx; exact hc)).1
  refine ⟨_, hf, ?_, ?_⟩
  · simp only [List.length_append, List.length_take, List.length_drop, List.length_cons, List.length_nil]
    omega
  · exact inputPositions_congr 0 _ _ (tagsOf_replace ts j cur c' hj hc.1 hc.2)

theorem form_replace2 {a : Nat} {P A D ts : List TG} (h : Form a P A D ts) (j jj : Nat) (cur second c' s' : TG)
    (hj : ts[j]? = some cur) (ha : a ≤ j) (hjj : ts[j + 1 + jj]? = some second) (hlt : j + 1 + jj < a + A.length)
    (hc : c'.inp = cur.inp ∧ c'.win = cur.win) (hs : s'.inp = second.inp ∧ s'.win = second.win) :
    ∃ A', Form a P A' D (ts.take j ++ (c' :: (ts.drop (j + 1)).take jj ++ [s']) ++ ts.drop (j + 1 + jj + 1)) ∧
      A'.length = A.length ∧
      inputPositions 0 (ts.take j ++ (c' :: (ts.drop (j + 1)).take jj ++ [s']) ++ ts.drop (j + 1 + jj + 1)) =
        inputPositions 0 ts := by
  have hjl : j < ts.length := (List.getElem?_eq_some_iff.mp hj).1
  rw [replace2_eq ts j jj c' s' hjl]
  have hf1 := (form_replace h j cur [c'] hj ha (by omega) (by
    intro x hx
    simp only [List.mem_cons, List.not_mem_nil, or_false] at hx
    subst hx; exact hc)).1
  have hl1 : (A.take (j - a) ++ [c'] ++ A.drop (j - a + 1)).length = A.length := by
    simp only [List.length_append, List.length_take, List.length_drop, List.length_cons, List.length_nil]
    omega
  have hl : (ts.take j ++ [c']).length = j + 1 := by
    simp only [List.length_append, List.length_take, List.length_cons, List.length_nil]; omega
  have hjj1 : (ts.take j ++ [c'] ++ ts.drop (j + 1))[j + 1 + jj]? = some second := by
    rw [List.getElem?_append_right (by rw [hl]; omega), hl, List.getElem?_drop, ← hjj]
    congr 1; omega
  have hf2 := (form_replace hf1 (j + 1 + jj) second [s'] hjj1 (by omega) (by rw [hl1]; exact hlt) (by
    intro x hx
    simp only [List.mem_cons, List.not_mem_nil, or_false] at hx
    subst hx; exact hs)).1
  refine ⟨_, hf2, ?_, ?_⟩
  · rw [← hl1]
    generalize (A.take (j - a) ++ [c'] ++ A.drop (j - a + 1)) = A1 at hl1
    simp only [List.length_append, List.length_take, List.length_drop, List.length_cons, List.length_nil]
    omega
  · rw [inputPositions_congr 0 _ _ (tagsOf_replace _ (j + 1 + jj) second s' hjj1 hs.1 hs.2)]
    exact inputPositions_congr 0 _ _ (tagsOf_replace ts j cur c' hj hc.1 hc.2)

/-! ## (S1) a ligature inside the window -/

theorem form_merge {a : Nat} {P A D ts : List TG} (h : Form a P A D ts) (kp : Nat → Bool) (j used : Nat)
    (cur lig : TG) (hj : ts[j]? = some cur) (ha : a ≤ j) (hu : j + 1 + used ≤ a + A.length)
    (hl : lig.inp = cur.inp ∧ lig.win = cur.win) :
    Form a P (A.take (j - a) ++ (lig :: ((A.drop (j - a + 1)).take used).filter (fun t => !kp t.g.gid)) ++
        A.drop (j - a + 1 + used)) D
      (ts.take j ++ (lig :: ((ts.drop (j + 1)).take used).filter (fun t => !kp t.g.gid)) ++ ts.drop (j + 1 + used))
    ∧ A[j - a]? = some cur ∧ (ts.drop (j + 1)).take used = (A.drop (j - a + 1)).take used := by
  have hlen := h.len
  have hA : A[j - a]? = some cur := by
    rw [h.eq, List.append_assoc, List.getElem?_append_right (by omega), hlen,
      List.getElem?_append_left (by omega)] at hj
    exact hj
  have hcur := h.tagged cur (List.mem_of_getElem? hA)
  have e0 : j = P.length + (j - a) := by omega
  have e1 : j + 1 = P.length + (j - a + 1) := by omega
  have e2 : j + 1 + used = P.length + (j - a + 1 + used) := by omega
  have htake : ts.take j = P ++ A.take (j - a) := by
    conv => lhs; rw [h.eq, List.append_assoc, e0, List.take_length_add_append]
    rw [List.take_append_of_le_length (by omega)]
  have hdrop1 : ts.drop (j + 1) = A.drop (j - a + 1) ++ D := by
    rw [h.eq, List.append_assoc, e1, List.drop_length_add_append, List.drop_append_of_le_length (by omega)]
  have hdrop2 : ts.drop (j + 1 + used) = A.drop (j - a + 1 + used) ++ D := by
    rw [h.eq, List.append_assoc, e2, List.drop_length_add_append, List.drop_append_of_le_length (by omega)]
  have hreg : (ts.drop (j + 1)).take used = (A.drop (j - a + 1)).take used := by
    rw [hdrop1, List.take_append_of_le_length (by simp only [List.length_drop]; omega)]
  refine ⟨⟨?_, hlen, h.cleanP, ?_, h.cleanD⟩, hA, hreg⟩
  · rw [hreg, htake, hdrop2]
    simp only [List.append_assoc, List.cons_append]
  · intro x hx
    simp only [List.mem_append, List.mem_cons] at hx
    rcases hx with (hx | hx | hx) | hx
    · exact h.tagged x (List.mem_of_mem_take hx)
    · subst hx
      exact ⟨by rw [hl.2]; exact hcur.1, by rw [hl.1]; exact hcur.2⟩
    · exact h.tagged x (List.mem_of_mem_drop (List.mem_of_mem_take (List.mem_filter.mp hx).1))
    · exact h.tagged x (List.mem_of_mem_drop hx)

/-! ## (S2) the input positions after a ligature -/

theorem mergePos_append (l1 l2 cs : List Nat) : mergePos (l1 ++ l2) cs = mergePos l1 cs ++ mergePos l2 cs := by
  simp only [mergePos, List.filter_append, List.map_append]

theorem mergePos_nil_cs (cs : List Nat) : mergePos [] cs = [] := rfl

theorem mergePos_cons_pos (p : Nat) (l cs : List Nat) (h : cs.contains p = true) :
    mergePos (p :: l) cs = mergePos l cs := by
  simp only [mergePos, List.filter_cons, h, Bool.not_true, Bool.false_eq_true, if_false]

theorem mergePos_cons_neg (p : Nat) (l cs : List Nat) (h : cs.contains p = false) :
    mergePos (p :: l) cs = (p - (cs.filter (· < p)).length) :: mergePos l cs := by
  simp only [mergePos, List.filter_cons, h, Bool.not_false, if_true, List.map_cons]

theorem mergePos_eq_map (l cs : List Nat) (c : Nat)
    (h : ∀ p ∈ l, cs.contains p = false ∧ (cs.filter (· < p)).length = c) :
    mergePos l cs = l.map (· - c) := by
  induction l with
  | nil => rfl
  | cons p l ih =>
    obtain ⟨h1, h2⟩ := h p List.mem_cons_self
    rw [mergePos_cons_neg p l cs h1, h2, ih (fun q hq => h q (List.mem_cons_of_mem _ hq))]
    rfl

/-- in a strictly increasing list, the number of elements below `k + 1` -/
theorem count_lt_succ : ∀ (cs : List Nat), cs.Pairwise (· < ·) → ∀ k,
    (cs.filter (· < k + 1)).length = (cs.filter (· < k)).length + (if cs.contains k then 1 else 0) := by
  intro cs
  induction cs with
  | nil => intro _ k; rfl
  | cons c cs ih =>
    intro hp k
    have hp' := List.pairwise_cons.mp hp
    have ih' := ih hp'.2 k
    rcases Nat.lt_trichotomy c k with hck | hck | hck
    · have h1 : decide (c < k + 1) = true := by simp only [decide_eq_true_eq]; omega
      have h2 : decide (c < k) = true := by simp only [decide_eq_true_eq]; omega
      have h3 : (k == c) = false := by simp only [beq_eq_false_iff_ne, ne_eq]; omega
      simp only [List.filter_cons, h1, h2, if_true, List.length_cons, List.contains_cons, h3, Bool.false_or, ih']
      omega
    · subst hck
      have h1 : decide (c < c + 1) = true := by simp only [decide_eq_true_eq]; omega
      have h2 : decide (c < c) = false := by simp only [decide_eq_false_iff_not]; omega
      have h4 : cs.contains c = false := by
        cases hc : cs.contains c with
        | false => rfl
        | true =>
          have hm : c ∈ cs := by simpa using hc
          have := hp'.1 c hm
          omega
      rw [h4] at ih'
      simp only [List.filter_cons, h1, h2, if_true, List.length_cons, List.contains_cons, BEq.rfl, Bool.true_or,
        ih', Bool.false_eq_true, if_false]
    · have h1 : decide (c < k + 1) = false := by simp only [decide_eq_false_iff_not]; omega
      have h2 : decide (c < k) = false := by simp only [decide_eq_false_iff_not]; omega
      have h3 : (k == c) = false := by simp only [beq_eq_false_iff_ne, ne_eq]; omega
      simp only [List.filter_cons, h1, h2, Bool.false_eq_true, if_false, List.contains_cons, h3, Bool.false_or, ih']

/-- the matched region: a glyph at absolute position `k + r` is deleted exactly when `k + r ∈ cs` -/
theorem merge_mid (kp : Nat → Bool) (cs : List Nat) (hcs : cs.Pairwise (· < ·)) : ∀ (R : List TG) (k n : Nat),
    (∀ r t, R[r]? = some t → (kp t.g.gid = true ↔ k + r ∈ cs)) → (cs.filter (· < k)).length = n → n ≤ k →
    mergePos (ipk 0 R k) cs = ipk 0 (R.filter fun t => !kp t.g.gid) (k - n) ∧
    (R.filter fun t => !kp t.g.gid).length + (cs.filter (· < k + R.length)).length = R.length + n := by
  intro R
  induction R with
  | nil =>
    intro k n _ hn _
    refine ⟨rfl, ?_⟩
    simp only [List.filter_nil, List.length_nil, Nat.add_zero, Nat.zero_add, hn]
  | cons t R ih =>
    intro k n hk hn hnk
    have hk0 := hk 0 t (by simp)
    have hk' : ∀ r t', R[r]? = some t' → (kp t'.g.gid = true ↔ k + 1 + r ∈ cs) := by
      intro r t' hr
      have := hk (r + 1) t' (by rw [List.getElem?_cons_succ]; exact hr)
      have e : k + 1 + r = k + (r + 1) := by omega
      rw [e]; exact this
    have hcnt := count_lt_succ cs hcs k
    have elen : k + (t :: R).length = k + 1 + R.length := by simp only [List.length_cons]; omega
    rw [elen]
    cases hkt : kp t.g.gid with
    | true =>
      have hmem : k ∈ cs := by simpa using hk0.mp hkt
      have hc : cs.contains k = true := by simpa using hmem
      rw [hc, hn] at hcnt
      simp only [if_true] at hcnt
      obtain ⟨i1, i2⟩ := ih (k + 1) (n + 1) hk' hcnt (by omega)
      have hf : ((t :: R).filter fun t => !kp t.g.gid) = R.filter fun t => !kp t.g.gid := by
        simp only [List.filter_cons, hkt, Bool.not_true, Bool.false_eq_true, if_false]
      have e : k + 1 - (n + 1) = k - n := by omega
      rw [hf, ← e, ← i1]
      refine ⟨?_, ?_⟩
      · rw [ipk_cons]
        cases t.hasInp 0 with
        | false => rfl
        | true => simp only [if_true]; exact mergePos_cons_pos k _ cs hc
      · rw [i2]; simp only [List.length_cons]; omega
    | false =>
      have hnm : ¬ k ∈ cs := by
        intro hm
        have := hk0.mpr (by simpa using hm)
        rw [hkt] at this; cases this
      have hc : cs.contains k = false := by
        cases hc : cs.contains k with
        | false => rfl
        | true => exact absurd (by simpa using hc) hnm
      rw [hc, hn] at hcnt
      simp only [Bool.false_eq_true, if_false, Nat.add_zero] at hcnt
      obtain ⟨i1, i2⟩ := ih (k + 1) n hk' hcnt (by omega)
      have hf : ((t :: R).filter fun t => !kp t.g.gid) = t :: R.filter fun t => !kp t.g.gid := by
        simp only [List.filter_cons, hkt, Bool.not_false, if_true]
      have e : k + 1 - n = k - n + 1 := by omega
      rw [hf]
      refine ⟨?_, ?_⟩
      · rw [ipk_cons, ipk_cons, ← e, ← i1]
        cases t.hasInp 0 with
        | false => rfl
        | true =>
          simp only [if_true]
          rw [mergePos_cons_neg k _ cs hc, hn]
      · simp only [List.length_cons]; omega

theorem ip_merge (A : List TG) (kp : Nat → Bool) (i used : Nat) (cur lig : TG) (offs : List Nat)
    (hi : A[i]? = some cur) (hinp : cur.hasInp 0 = true) (hl : lig.inp = cur.inp ∧ lig.win = cur.win)
    (hu : i + 1 + used ≤ A.length) (hoffs : offs.Pairwise (· < ·)) (hob : ∀ o ∈ offs, o < used)
    (hk : ∀ r, r < used → ∀ t, (A.drop (i + 1))[r]? = some t → (kp t.g.gid = true ↔ r ∈ offs)) :
    inputPositions 0 (A.take i ++ (lig :: ((A.drop (i + 1)).take used).filter (fun t => !kp t.g.gid)) ++
        A.drop (i + 1 + used))
      = mergePos (inputPositions 0 A) (offs.map (· + (i + 1)))
    ∧ (A.take i ++ (lig :: ((A.drop (i + 1)).take used).filter (fun t => !kp t.g.gid)) ++
        A.drop (i + 1 + used)).length + offs.length = A.length := by
  generalize hcs : offs.map (· + (i + 1)) = cs
  generalize hR : (A.drop (i + 1)).take used = R
  generalize hT : A.drop (i + 1 + used) = T
  have hcsm : ∀ c, c ∈ cs ↔ ∃ o ∈ offs, o + (i + 1) = c := by
    intro c; rw [← hcs]; exact List.mem_map
  have hcsp : cs.Pairwise (· < ·) := by
    rw [← hcs]
    exact List.Pairwise.map _ (fun x y hxy => by omega) hoffs
  have hlt : (A.take i).length = i := by simp only [List.length_take]; omega
  have hRl : R.length = used := by rw [← hR]; simp only [List.length_take, List.length_drop]; omega
  have hTl : T.length = A.length - (i + 1 + used) := by rw [← hT]; simp only [List.length_drop]
  have hligi : lig.hasInp 0 = true := by simp only [TG.hasInp, hl.1]; exact hinp
  have hA : A = A.take i ++ [cur] ++ R ++ T := by
    conv => lhs; rw [split_at A i cur hi]
    have e : A.drop (i + 1 + used) = (A.drop (i + 1)).drop used := by rw [List.drop_drop]
    rw [← hR, ← hT, e, List.append_assoc _ (List.take used _), List.take_append_drop]
  -- all deleted positions lie in `[i + 1, i + 1 + used)`
  have hcsb : ∀ c ∈ cs, i + 1 ≤ c ∧ c < i + 1 + used := by
    intro c hc
    obtain ⟨o, ho, hoc⟩ := (hcsm c).mp hc
    have := hob o ho
    omega
  have hnot : ∀ p, (p < i + 1 ∨ i + 1 + used ≤ p) → cs.contains p = false := by
    intro p hp
    cases hc : cs.contains p with
    | false => rfl
    | true =>
      have := hcsb p (by simpa using hc)
      omega
  have hlow : ∀ p, p ≤ i + 1 → (cs.filter (· < p)).length = 0 := by
    intro p hp
    rw [List.length_eq_zero_iff, List.filter_eq_nil_iff]
    intro c hc
    have := hcsb c hc
    simp only [decide_eq_true_eq]; omega
  have hhigh : ∀ p, i + 1 + used ≤ p → (cs.filter (· < p)).length = offs.length := by
    intro p hp
    have : cs.filter (· < p) = cs := by
      rw [List.filter_eq_self]
      intro c hc
      have := hcsb c hc
      simp only [decide_eq_true_eq]; omega
    rw [this, ← hcs, List.length_map]
  -- the region
  have hkR : ∀ r t, R[r]? = some t → (kp t.g.gid = true ↔ i + 1 + r ∈ cs) := by
    intro r t hr
    rw [← hR, List.getElem?_take] at hr
    split at hr
    · rename_i hru
      rw [hk r hru t hr, hcsm]
      constructor
      · intro ho; exact ⟨r, ho, by omega⟩
      · rintro ⟨o, ho, hoe⟩
        have : o = r := by omega
        rw [← this]; exact ho
    · cases hr
  obtain ⟨m1, m2⟩ := merge_mid kp cs hcsp R (i + 1) 0 hkR (hlow (i + 1) (Nat.le_refl _)) (Nat.zero_le _)
  rw [hRl, hhigh (i + 1 + used) (Nat.le_refl _), Nat.add_zero] at m2
  rw [Nat.sub_zero] at m1
  generalize hF : (R.filter fun t => !kp t.g.gid) = F at m1 m2
  refine ⟨?_, ?_⟩
  · have hold : ipk 0 A 0 = ipk 0 (A.take i) 0 ++ [i] ++ ipk 0 R (i + 1) ++ ipk 0 T (i + 1 + used) := by
      conv => lhs; rw [hA]
      rw [ipk_append, ipk_append, ipk_append, ipk_cons, hinp]
      simp only [if_true, ipk_nil, List.length_append, hlt, hRl, List.length_cons, List.length_nil, Nat.zero_add]
    have hnew : ipk 0 (A.take i ++ (lig :: F) ++ T) 0 =
        ipk 0 (A.take i) 0 ++ [i] ++ ipk 0 F (i + 1) ++ ipk 0 T (i + 1 + F.length) := by
      rw [ipk_append, ipk_append, ipk_cons, hligi]
      simp only [if_true, List.length_append, hlt, List.length_cons, Nat.zero_add, List.append_assoc,
        List.cons_append, List.nil_append]
      congr 4; omega
    rw [inputPositions_eq_ipk, inputPositions_eq_ipk, hnew, hold, mergePos_append, mergePos_append,
      mergePos_append, m1]
    have p1 : mergePos (ipk 0 (A.take i) 0) cs = ipk 0 (A.take i) 0 := by
      rw [mergePos_eq_map _ cs 0]
      · simp
      · intro p hp
        have := ((ipk_bounds 0 (A.take i) 0).2 p hp).2
        rw [hlt] at this
        exact ⟨hnot p (by omega), hlow p (by omega)⟩
    have p2 : mergePos [i] cs = [i] := by
      rw [mergePos_cons_neg i [] cs (hnot i (by omega)), hlow i (by omega)]
      rfl
    have p3 : mergePos (ipk 0 T (i + 1 + used)) cs = ipk 0 T (i + 1 + F.length) := by
      rw [mergePos_eq_map _ cs offs.length]
      · have e : i + 1 + used = i + 1 + F.length + offs.length := by omega
        rw [e, ipk_shift, List.map_map]
        refine (List.map_congr_left (fun x _ => ?_)).trans (List.map_id _)
        show x + offs.length - offs.length = id x
        simp only [id]; omega
      · intro p hp
        have := ((ipk_bounds 0 T (i + 1 + used)).2 p hp).1
        exact ⟨hnot p (by omega), hhigh p (by omega)⟩
    rw [p1, p2, p3]
  · simp only [List.length_append, List.length_cons, hlt, hTl]
    omega

end SfntV.C06
