/-
`Info.readGo`: `gtab.Read` with the model of the Go reader `readLookupList` (6000-entry budget, two-pass
extension resolution) and the codec as subtable reader; on encoder output within the budget it accepts
and agrees with `Info.read` (which uses the specification reader): decode ∘ encode = nf for the model of
`gtab.Read` itself.
-/
import SfntV.Proofs.OtlInfoAdapter
import SfntV.Proofs.OtlLookupAccept

namespace SfntV.Otl.InfoA
open SfntV SfntV.Otl

variable {σ : Type} (C : SubCodec σ)

/-- the subtable reader handed to `readLookupList`: the codec's decoder at a position of the list -/
def leafOf (bL : Bytes) : Nat → Nat → Outcome σ := fun tp p => C.dec tp (bL.drop p)

def ofRead (l : LL.ReadLookup σ) : VLookup σ := ⟨l.type, l.flags, l.mfs, l.subs⟩

/-- `gtab.Read` with the Go lookup-list reader -/
def Info.readGo (extType : Nat) (b : Bytes) : Outcome (Info σ) :=
  match Gtab.readHeader b with
  | .ok none => .ok ⟨[], [], []⟩
  | .ok (some (so, fo, lo)) =>
    match SL.readSized b.length (b.drop so) with
    | .ok sl =>
      match FL.read (b.drop fo) with
      | .ok fl =>
        match LL.readLLWith (leafOf C (b.drop lo)) (b.drop lo) extType with
        | .ok ls => .ok ⟨sl, fl, ls.map ofRead⟩
        | .err e => .err e
        | .panic s => .panic s
      | .err e => .err e
      | .panic s => .panic s
    | .err e => .err e
    | .panic s => .panic s
  | .err e => .err e
  | .panic s => .panic s

theorem liftSubs_eq_decSubs (tp : Nat) (bL : Bytes) : ∀ (ps : List Nat),
    LL.liftSubs (leafOf C bL) tp ps = decSubs C tp bL ps
  | [] => rfl
  | p :: ps => by
    simp only [LL.liftSubs, decSubs, leafOf, liftSubs_eq_decSubs tp bL ps]
    rfl

/-- decoding what the specification reader found = lifting what the Go reader (positions) returned -/
theorem lift_of_dec (bL : Bytes) : ∀ (ps : List (LL.ReadLookup Nat)) (vls : List (VLookup σ)),
    (∀ l ∈ ps, (l.flags / 16 % 2 == 1) = false → l.mfs = 0) →
    decLookups C bL (ps.map LL.toSpec) = .ok vls →
    ∃ ls, LL.liftLookups (leafOf C bL) ps = .ok ls ∧ ls.map ofRead = vls
  | [], vls, _, h => by
    simp only [List.map_nil, decLookups, Outcome.ok.injEq] at h
    subst h
    exact ⟨[], rfl, rfl⟩
  | l :: ps, vls, hz, h => by
    simp only [List.map_cons, decLookups, LL.toSpec] at h
    simp only [LL.liftLookups, liftSubs_eq_decSubs]
    cases h1 : decSubs C l.type bL l.subs with
    | ok vs =>
      rw [h1] at h
      simp only at h ⊢
      cases h2 : decLookups C bL (ps.map LL.toSpec) with
      | ok r =>
        rw [h2] at h
        simp only [Outcome.ok.injEq] at h
        subst h
        obtain ⟨ls', hl', hm'⟩ := lift_of_dec bL ps r (fun l' hl' => hz l' (by simp [hl'])) h2
        refine ⟨_, by rw [hl'], ?_⟩
        simp only [List.map_cons, ofRead, hm', List.cons.injEq, and_true]
        congr 1
        by_cases hf : (l.flags / 16 % 2 == 1) = true
        · simp [hf]
        · have hf' : (l.flags / 16 % 2 == 1) = false := by simpa using hf
          simp [hf', hz l (by simp) hf']
      | err e => rw [h2] at h; simp at h
      | panic s => rw [h2] at h; simp at h
    | err e => rw [h1] at h; simp at h
    | panic s => rw [h1] at h; simp at h

/-- the reader's budget as a clause of the domain: lookups + subtables ≤ 6000 -/
def BudgetOk (I : Info σ) : Prop := I.lookups.length + (I.lookups.map (·.subs.length)).sum ≤ 6000

/-- **`Info` round trip with the model of `gtab.Read` itself** -/
theorem info_roundtrip_go (extType : Nat) (I : Info σ) (hI : InfoOk C extType I) (hB : BudgetOk I) (b : Bytes)
    (hb : Info.encode C I = .ok b) : Info.readGo C extType b = .ok (Info.nf C I) := by
  obtain ⟨fo, lo, sls, h1, hsl, hfl, hspec, hdec, hlen, hsum⟩ := info_parts C extType I hI b hb
  have hbud : LL.budgetOk sls := by unfold LL.budgetOk; unfold BudgetOk at hB; omega
  obtain ⟨ps, hps, hmap, hmz⟩ := LL.readLL_accept (b.drop lo) extType sls hspec hbud
  rw [← hmap] at hdec
  obtain ⟨ls, hlift, hof⟩ := lift_of_dec C (b.drop lo) ps _ hmz hdec
  have hgo := LL.readLLWith_accept (leafOf C (b.drop lo)) (b.drop lo) extType sls hspec hbud ps hps ls hlift
  unfold Info.readGo
  rw [h1]
  simp only [hsl, hfl, hgo, hof, Info.nf]

/-- … so on encoder output within the budget the two readers agree -/
theorem readGo_eq_read (extType : Nat) (I : Info σ) (hI : InfoOk C extType I) (hB : BudgetOk I) (b : Bytes)
    (hb : Info.encode C I = .ok b) : Info.readGo C extType b = Info.read C extType b := by
  rw [info_roundtrip_go C extType I hI hB b hb, info_roundtrip C extType I hI b hb]

/-- decoder in the shape of the file-level model, through the model of `gtab.Read` itself -/
def decTokGo {α : Type} (extType : Nat) (tok : Bytes → α) (b : Bytes) : Outcome α :=
  match Info.readGo C extType b with
  | .ok _ => .ok (tok b)
  | .err e => .err e
  | .panic s => .panic s

theorem decTokGo_encode {α : Type} (extType : Nat) (tok : Bytes → α) (I : Info σ) (hI : InfoOk C extType I)
    (hB : BudgetOk I) (b : Bytes) (hb : Info.encode C I = .ok b) :
    b ≠ [] ∧ decTokGo C extType tok b = .ok (tok b) := by
  refine ⟨(decTok_encode C extType tok I hI b hb).1, ?_⟩
  simp only [decTokGo, info_roundtrip_go C extType I hI hB b hb]

end SfntV.Otl.InfoA
