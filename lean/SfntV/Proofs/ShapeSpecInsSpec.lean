/-
C06, contextual lookups whose nested lookups may insert glyphs: facts about the reference
semantics (`inputPositions`, `windowEnd`, the window split) on buffers of the shape `Form`.
-/
import SfntV.Proofs.ShapeSpecInsBase
namespace SfntV.C06
open SfntV
open SfntV.Spec.Shape (TG gl CtxMatch tagWindow inputPositions windowEnd)

/-! ## the positions of the input glyphs, counted from `k` -/

def ipk (d : Nat) (l : List TG) (k : Nat) : List Nat :=
  (l.zipIdx k).filterMap (fun (p : TG × Nat) => if p.1.hasInp d then some p.2 else none)

theorem inputPositions_eq_ipk (d : Nat) (ts : List TG) : inputPositions d ts = ipk d ts 0 := rfl

@[simp] theorem ipk_nil (d k : Nat) : ipk d [] k = [] := rfl

theorem ipk_cons (d : Nat) (t : TG) (l : List TG) (k : Nat) :
    ipk d (t :: l) k = if t.hasInp d then k :: ipk d l (k + 1) else ipk d l (k + 1) := by
  unfold ipk
  simp only [List.zipIdx_cons, List.filterMap_cons]
  cases t.hasInp d <;> simp

theorem ipk_append (d : Nat) (l1 l2 : List TG) (k : Nat) :
    ipk d (l1 ++ l2) k = ipk d l1 k ++ ipk d l2 (k + l1.length) := by
  unfold ipk
  rw [List.zipIdx_append, List.filterMap_append]

theorem ipk_clean (d : Nat) (l : List TG) (k : Nat) (h : AllClean l) : ipk d l k = [] :=
  ip_clean d l k h

theorem ipk_shift (d : Nat) : ∀ (l : List TG) (k c : Nat), ipk d l (k + c) = (ipk d l k).map (· + c) := by
  intro l
  induction l with
  | nil => intro k c; rfl
  | cons t l ih =>
    intro k c
    have e : k + c + 1 = k + 1 + c := by omega
    rw [ipk_cons, ipk_cons, e, ih (k + 1) c]
    cases t.hasInp d <;> simp

theorem ipk_bounds (d : Nat) : ∀ (l : List TG) (k : Nat),
    (ipk d l k).Pairwise (· < ·) ∧ ∀ p ∈ ipk d l k, k ≤ p ∧ p < k + l.length := by
  intro l
  induction l with
  | nil => intro k; exact ⟨List.Pairwise.nil, fun p hp => by cases hp⟩
  | cons t l ih =>
    intro k
    obtain ⟨h1, h2⟩ := ih (k + 1)
    have hb : ∀ p ∈ ipk d l (k + 1), k ≤ p ∧ p < k + (t :: l).length := by
      intro p hp
      have := h2 p hp
      simp only [List.length_cons]
      omega
    rw [ipk_cons]
    cases t.hasInp d with
    | false => exact ⟨h1, hb⟩
    | true =>
      simp only [if_true]
      refine ⟨List.pairwise_cons.mpr ⟨?_, h1⟩, ?_⟩
      · intro p hp
        have := h2 p hp
        omega
      · intro p hp
        rcases List.mem_cons.mp hp with hp | hp
        · subst hp; simp only [List.length_cons]; omega
        · exact hb p hp

theorem ipk_get (d : Nat) : ∀ (l : List TG) (k p : Nat), p ∈ ipk d l k →
    ∃ t, l[p - k]? = some t ∧ t.hasInp d = true := by
  intro l
  induction l with
  | nil => intro k p hp; cases hp
  | cons t l ih =>
    intro k p hp
    rw [ipk_cons] at hp
    have hrest : p ∈ ipk d l (k + 1) → ∃ t', (t :: l)[p - k]? = some t' ∧ t'.hasInp d = true := by
      intro hp'
      obtain ⟨t', h1, h2⟩ := ih (k + 1) p hp'
      have hb := ((ipk_bounds d l (k + 1)).2 p hp').1
      have e : p - k = (p - (k + 1)) + 1 := by omega
      exact ⟨t', by rw [e, List.getElem?_cons_succ]; exact h1, h2⟩
    cases ht : t.hasInp d with
    | false =>
      rw [ht] at hp
      exact hrest hp
    | true =>
      rw [ht] at hp
      simp only [if_true] at hp
      rcases List.mem_cons.mp hp with hp | hp
      · subst hp
        exact ⟨t, by simp, ht⟩
      · exact hrest hp

/-! ## (G6) -/

theorem inputPositions_sorted (d : Nat) (ts : List TG) :
    (inputPositions d ts).Pairwise (· < ·) ∧ ∀ p ∈ inputPositions d ts, p < ts.length := by
  rw [inputPositions_eq_ipk]
  obtain ⟨h1, h2⟩ := ipk_bounds d ts 0
  refine ⟨h1, ?_⟩
  intro p hp
  have := h2 p hp
  omega

theorem inputPositions_get (d : Nat) (ts : List TG) (p : Nat) (hp : p ∈ inputPositions d ts) :
    ∃ t, ts[p]? = some t ∧ t.hasInp d = true := by
  rw [inputPositions_eq_ipk] at hp
  exact ipk_get d ts 0 p hp

/-! ## (G1) -/

theorem form_inputPositions {a : Nat} {P A D ts : List TG} (h : Form a P A D ts) :
    inputPositions 0 ts = (inputPositions 0 A).map (· + a) := by
  rw [inputPositions_eq_ipk, inputPositions_eq_ipk, h.eq, ipk_append, ipk_append,
    ipk_clean 0 P 0 h.cleanP, ipk_clean 0 D _ h.cleanD, List.nil_append, List.append_nil, h.len,
    ipk_shift]

/-! ## (G2) -/

theorem form_windowEnd {a : Nat} {P A D ts : List TG} (h : Form a P A D ts) (hne : A ≠ []) :
    windowEnd 0 ts = a + A.length := by
  unfold windowEnd
  rw [h.eq, List.reverse_append, List.reverse_append]
  have hdr : ∀ t ∈ D.reverse, (!t.hasWin 0) = true := by
    intro t ht
    rw [(h.cleanD t (List.mem_reverse.mp ht)).hasWin 0]; rfl
  rw [List.takeWhile_append_of_pos hdr]
  have hstop : ((A.reverse ++ P.reverse).takeWhile fun t => !t.hasWin 0) = [] := by
    have hT : ∀ x ∈ A.reverse, Tagged0 x := fun x hx => h.tagged x (List.mem_reverse.mp hx)
    have hne' : A.reverse ≠ [] := by simpa using hne
    cases hr : A.reverse with
    | nil => exact absurd hr hne'
    | cons x r =>
      rw [hr] at hT
      rw [List.cons_append, List.takeWhile_cons_of_neg]
      rw [(hT x List.mem_cons_self).hasWin]; decide
  rw [hstop, List.append_nil, List.length_reverse]
  simp only [List.length_append, h.len]
  omega

/-! ## (G3) -/

theorem form_split {a : Nat} {P A D ts : List TG} (h : Form a P A D ts) :
    (ts.drop a).takeWhile (TG.hasWin 0) = A ∧ (ts.drop a).dropWhile (TG.hasWin 0) = D ∧
    AllClean (A.map (TG.untag 0)) ∧ ts.take a = P := by
  have hd : ts.drop a = A ++ D := by
    rw [h.eq, List.append_assoc]
    exact List.drop_left' h.len
  have ht : ts.take a = P := by
    rw [h.eq, List.append_assoc]
    exact List.take_left' h.len
  refine ⟨?_, ?_, ?_, ht⟩
  · rw [hd, List.takeWhile_append_of_pos (fun x hx => (h.tagged x hx).hasWin),
      takeWhile_hasWin_clean 0 D h.cleanD, List.append_nil]
  · rw [hd, List.dropWhile_append_of_pos (fun x hx => (h.tagged x hx).hasWin),
      dropWhile_hasWin_clean 0 D h.cleanD]
  · intro y hy
    obtain ⟨x, hx, hxy⟩ := List.mem_map.mp hy
    rw [← hxy]
    exact (h.tagged x hx).untag

/-! ## (G7) -/

theorem form_init (pre post : List TG) (cur : TG) (m : CtxMatch) (hpre : AllClean pre) (hcur : Clean cur)
    (hpost : AllClean post) (hw : m.wlen ≤ post.length) :
    Form pre.length pre.reverse (tagWindow 0 m cur post) (post.drop m.wlen)
      (pre.reverse ++ tagWindow 0 m cur post ++ post.drop m.wlen)
    ∧ tagWindow 0 m cur post ≠ [] ∧ (tagWindow 0 m cur post).length = 1 + m.wlen := by
  refine ⟨⟨rfl, List.length_reverse, ?_, ?_, ?_⟩, ?_, ?_⟩
  · exact fun t ht => hpre t (List.mem_reverse.mp ht)
  · rw [tagWindow_eq]
    exact window_tagged post cur m hcur hpost
  · exact fun t ht => hpost t (List.mem_of_mem_drop ht)
  · rw [tagWindow_eq]; exact List.cons_ne_nil _ _
  · rw [tagWindow_eq]; exact window_length post cur m hw

/-! ## (G4) -/

theorem replace_mid (P A D dn : List TG) (i : Nat) (hi : i < A.length) :
    (P ++ A ++ D).take (P.length + i) ++ dn ++ (P ++ A ++ D).drop (P.length + i + 1) =
      P ++ (A.take i ++ dn ++ A.drop (i + 1)) ++ D := by
  rw [List.append_assoc P A D, List.take_length_add_append, Nat.add_assoc, List.drop_length_add_append,
    List.take_append_of_le_length (by omega), List.drop_append_of_le_length (by omega)]
  simp only [List.append_assoc]

theorem form_replace {a : Nat} {P A D ts : List TG} (h : Form a P A D ts) (j : Nat) (cur : TG) (dn : List TG)
    (hj : ts[j]? = some cur) (ha : a ≤ j) (hlt : j < a + A.length)
    (hdn : ∀ x ∈ dn, x.inp = cur.inp ∧ x.win = cur.win) :
    Form a P (A.take (j - a) ++ dn ++ A.drop (j - a + 1)) D (ts.take j ++ dn ++ ts.drop (j + 1))
    ∧ A[j - a]? = some cur := by
  have hlen := h.len
  have hA : A[j - a]? = some cur := by
    rw [h.eq, List.append_assoc, List.getElem?_append_right (by omega), hlen,
      List.getElem?_append_left (by omega)] at hj
    exact hj
  have hcur := h.tagged cur (List.mem_of_getElem? hA)
  have hje : j = P.length + (j - a) := by omega
  refine ⟨⟨?_, hlen, h.cleanP, ?_, h.cleanD⟩, hA⟩
  · rw [h.eq]
    conv => lhs; rw [hje]
    exact replace_mid P A D dn (j - a) (by omega)
  · intro x hx
    simp only [List.mem_append] at hx
    rcases hx with (hx | hx) | hx
    · exact h.tagged x (List.mem_of_mem_take hx)
    · obtain ⟨h1, h2⟩ := hdn x hx
      exact ⟨by rw [h2]; exact hcur.1, by rw [h1]; exact hcur.2⟩
    · exact h.tagged x (List.mem_of_mem_drop hx)

/-! ## (G5) -/

theorem flatMap_eq_map {f : Nat → List Nat} {g : Nat → Nat} : ∀ (l : List Nat), (∀ p ∈ l, f p = [g p]) →
    l.flatMap f = l.map g := by
  intro l
  induction l with
  | nil => intro _; rfl
  | cons x l ih =>
    intro h
    rw [List.flatMap_cons, h x List.mem_cons_self, ih (fun p hp => h p (List.mem_cons_of_mem _ hp))]
    rfl

theorem ipk_all (d : Nat) : ∀ (l : List TG) (k : Nat), (∀ x ∈ l, x.hasInp d = true) →
    ipk d l k = List.range' k l.length := by
  intro l
  induction l with
  | nil => intro k _; rfl
  | cons t l ih =>
    intro k h
    rw [ipk_cons, h t List.mem_cons_self, ih (k + 1) (fun x hx => h x (List.mem_cons_of_mem _ hx))]
    simp only [if_true, List.length_cons, List.range'_succ]

theorem ip_replace (A : List TG) (i : Nat) (cur : TG) (dn : List TG) (hi : A[i]? = some cur)
    (hinp : cur.hasInp 0 = true) (hne : dn ≠ []) (hdn : ∀ x ∈ dn, x.inp = cur.inp ∧ x.win = cur.win) :
    inputPositions 0 (A.take i ++ dn ++ A.drop (i + 1)) = expand (inputPositions 0 A) i dn.length := by
  have hk : 1 ≤ dn.length := by
    cases dn with
    | nil => exact absurd rfl hne
    | cons x l => simp
  have hiA : i < A.length := by
    have := List.getElem?_eq_some_iff.mp hi
    exact this.1
  have hlt : (A.take i).length = i := by simp only [List.length_take]; omega
  have hall : ∀ x ∈ dn, x.hasInp 0 = true := by
    intro x hx
    have := (hdn x hx).1
    simp only [TG.hasInp, this]
    exact hinp
  have hsplit := split_at A i cur hi
  have hold : ipk 0 A 0 = ipk 0 (A.take i) 0 ++ [i] ++ ipk 0 (A.drop (i + 1)) (i + 1) := by
    conv => lhs; rw [hsplit]
    rw [ipk_append, ipk_append, ipk_cons, hinp]
    simp only [if_true, ipk_nil, List.length_append, hlt, List.length_cons, List.length_nil, Nat.zero_add]
  have hnew : ipk 0 (A.take i ++ dn ++ A.drop (i + 1)) 0 =
      ipk 0 (A.take i) 0 ++ List.range' i dn.length ++ ipk 0 (A.drop (i + 1)) (i + dn.length) := by
    rw [ipk_append, ipk_append, ipk_all 0 dn _ hall]
    simp only [List.length_append, hlt, Nat.zero_add]
  rw [inputPositions_eq_ipk, inputPositions_eq_ipk, hnew, hold]
  unfold expand
  rw [List.flatMap_append, List.flatMap_append]
  have h1 : (ipk 0 (A.take i) 0).flatMap
      (fun p => if p < i then [p] else if p = i then List.range' i dn.length else [p + (dn.length - 1)]) =
      ipk 0 (A.take i) 0 := by
    rw [flatMap_eq_map (g := id)]
    · simp
    · intro p hp
      have := ((ipk_bounds 0 (A.take i) 0).2 p hp).2
      rw [hlt] at this
      rw [if_pos (by omega)]
      rfl
  have h2 : [i].flatMap
      (fun p => if p < i then [p] else if p = i then List.range' i dn.length else [p + (dn.length - 1)]) =
      List.range' i dn.length := by
    simp
  have h3 : (ipk 0 (A.drop (i + 1)) (i + 1)).flatMap
      (fun p => if p < i then [p] else if p = i then List.range' i dn.length else [p + (dn.length - 1)]) =
      ipk 0 (A.drop (i + 1)) (i + dn.length) := by
    rw [flatMap_eq_map (g := (· + (dn.length - 1)))]
    · rw [← ipk_shift]
      congr 1
      omega
    · intro p hp
      have := ((ipk_bounds 0 (A.drop (i + 1)) (i + 1)).2 p hp).1
      rw [if_neg (by omega), if_neg (by omega)]
  rw [h1, h2, h3]

end SfntV.C06
