/-
C12 — the exact-arithmetic `bestRationalApproximation` (Model/Caret.lean) returns a fraction in
lowest terms unchanged: the search over denominators 1, 2, … keeps the first denominator that
reaches distance 0, and no smaller denominator can (coprimality).
-/
import SfntV.Model.Caret

namespace SfntV.Caret

/-- every remembered candidate lies at a positive distance -/
def PosInv (best : Best) : Prop := ∀ bn bd n m, best = some (bn, bd, n, m) → 0 < bn ∧ 0 < bd

theorem roundMul_exact (a b p q : Nat) (hb : 0 < b) (h : a * q = p * b) : roundMul a b q = p := by
  unfold roundMul
  have e : 2 * a * q = 2 * (p * b) := by rw [Nat.mul_assoc, h]
  rw [e]
  apply Nat.div_eq_of_lt_le
  · have : p * (2 * b) = 2 * (p * b) := by rw [Nat.mul_left_comm]
    omega
  · have : (p + 1) * (2 * b) = 2 * (p * b) + 2 * b := by
      rw [Nat.add_mul, Nat.one_mul, Nat.mul_left_comm]
    omega

/-- no denominator below `q` reproduces `p/q` exactly when `p/q` is in lowest terms -/
theorem no_exact_before (p q g d num : Nat) (hg : 0 < g) (hc : Nat.Coprime q p) (hd : 0 < d)
    (hdq : d < q) : (p * g) * d ≠ num * (q * g) := by
  intro h
  have h1 : (p * d) * g = (num * q) * g := by
    rw [Nat.mul_right_comm, h, Nat.mul_assoc]
  have h2 : p * d = num * q := Nat.eq_of_mul_eq_mul_right hg h1
  have h3 : q ∣ p * d := ⟨num, by rw [h2, Nat.mul_comm]⟩
  have h4 : q ∣ d := hc.dvd_of_dvd_mul_left h3
  have := Nat.le_of_dvd hd h4
  omega

theorem step_pos (a b d : Nat) (best : Best) (hb : 0 < b) (hd : 0 < d)
    (hne : ∀ num, a * d ≠ num * b) (hinv : PosInv best) : PosInv (step a b d best) := by
  unfold step
  simp only
  split
  · exact hinv
  · have hdn : 0 < (if a * d ≥ roundMul a b d * b then a * d - roundMul a b d * b
        else roundMul a b d * b - a * d) := by
      have := hne (roundMul a b d)
      split <;> omega
    have hdd : 0 < b * d := Nat.mul_pos hb hd
    generalize (if a * d ≥ roundMul a b d * b then a * d - roundMul a b d * b
        else roundMul a b d * b - a * d) = dn at hdn ⊢
    cases best with
    | none =>
      intro bn bd n m h
      simp only [Option.some.injEq, Prod.mk.injEq] at h
      obtain ⟨h1, h2, _, _⟩ := h
      rw [← h1, ← h2]; exact ⟨hdn, hdd⟩
    | some v =>
      obtain ⟨bn0, bd0, n0, m0⟩ := v
      show PosInv (if _ then _ else _)
      split
      · intro bn bd n m h
        simp only [Option.some.injEq, Prod.mk.injEq] at h
        obtain ⟨h1, h2, _, _⟩ := h
        rw [← h1, ← h2]; exact ⟨hdn, hdd⟩
      · exact hinv

theorem loop_pos (a b q : Nat) (hb : 0 < b) (hne : ∀ d num, 0 < d → d < q → a * d ≠ num * b) :
    ∀ (fuel d : Nat) (best : Best), 0 < d → d + fuel ≤ q → PosInv best →
      PosInv (loop a b fuel d best) := by
  intro fuel
  induction fuel with
  | zero => intro d best _ _ h; exact h
  | succ f ih =>
    intro d best hd hle hinv
    simp only [loop]
    apply ih (d + 1) _ (by omega) (by omega)
    exact step_pos a b d best hb hd (fun num => hne d num hd (by omega)) hinv

theorem step_zero (a b d bd p q : Nat) : step a b d (some (0, bd, p, q)) = some (0, bd, p, q) := by
  unfold step
  simp only
  split
  · rfl
  · simp

theorem loop_zero (a b bd p q : Nat) : ∀ (fuel d : Nat),
    loop a b fuel d (some (0, bd, p, q)) = some (0, bd, p, q) := by
  intro fuel
  induction fuel with
  | zero => intro _; rfl
  | succ f ih => intro d; simp only [loop, step_zero, ih]

theorem loop_add (a b : Nat) : ∀ (f1 f2 d : Nat) (best : Best),
    loop a b (f1 + f2) d best = loop a b f2 (d + f1) (loop a b f1 d best) := by
  intro f1
  induction f1 with
  | zero => intro f2 d best; simp [loop]
  | succ f ih =>
    intro f2 d best
    have : f + 1 + f2 = (f + f2) + 1 := by omega
    rw [this]
    simp only [loop, ih]
    congr 1; omega

/-- the step at the exact denominator installs `(p, q)` at distance 0 -/
theorem step_exact (a b p q : Nat) (best : Best) (hb : 0 < b) (hq : 0 < q) (h : a * q = p * b)
    (hp : p ≤ N) (hinv : PosInv best) : step a b q best = some (0, b * q, p, q) := by
  unfold step
  simp only [roundMul_exact a b p q hb h]
  have : ¬ (p > N) := by omega
  simp only [this, if_false, h, Nat.le_refl, ge_iff_le, if_true, Nat.sub_self]
  cases best with
  | none => rfl
  | some v =>
    obtain ⟨bn0, bd0, n0, m0⟩ := v
    obtain ⟨h1, _⟩ := hinv bn0 bd0 n0 m0 rfl
    have : 0 < bn0 * (b * q) := Nat.mul_pos h1 (Nat.mul_pos hb hq)
    simp [this]

/-- the search returns `p/q` when started on `a/b = p/q` with `p/q` in lowest terms -/
theorem loop_finds (p q g M : Nat) (hg : 0 < g) (hq : 0 < q) (hc : Nat.Coprime q p) (hp : p ≤ N)
    (hM : q ≤ M) : loop (p * g) (q * g) M 1 none = some (0, (q * g) * q, p, q) := by
  have hb : 0 < q * g := Nat.mul_pos hq hg
  have hsplit : M = (q - 1) + (1 + (M - q)) := by omega
  rw [hsplit, loop_add, loop_add]
  have h1 : PosInv (loop (p * g) (q * g) (q - 1) 1 none) := by
    apply loop_pos (p * g) (q * g) q hb _ (q - 1) 1 none (by omega) (by omega)
    · intro bn bd n m h; cases h
    · intro d num hd hdq; exact no_exact_before p q g d num hg hc hd hdq
  have hd : 1 + (q - 1) = q := by omega
  rw [hd]
  simp only [loop]
  have hex : p * g * q = p * (q * g) := by rw [Nat.mul_assoc, Nat.mul_comm g q]
  rw [step_exact (p * g) (q * g) p q _ hb hq hex hp h1, loop_zero]

/-- `bestRationalApproximation (p·g / q·g) = (p, q)` for `p/q` in lowest terms, `p, q·g ≤ N` -/
theorem bestRat_reduces (p q g : Nat) (hg : 0 < g) (hq : 0 < q) (hc : Nat.Coprime q p)
    (ha : p * g ≤ N) (hb : q * g ≤ N) : bestRat (p * g) (q * g) = (p, q) := by
  have hN : N = 32767 := rfl
  have hp : p ≤ N := Nat.le_trans (Nat.le_mul_of_pos_right p hg) ha
  have hqN : q ≤ N := Nat.le_trans (Nat.le_mul_of_pos_right q hg) hb
  unfold bestRat
  by_cases h1 : 2 * N * (p * g) < q * g
  · -- only possible for p = 0, and then q = 1
    rw [if_pos h1]
    have hp0 : p = 0 := by
      cases p with
      | zero => rfl
      | succ p' =>
        exfalso
        have h3 : (p' + 1) * g ≥ 1 := Nat.mul_pos (by omega) hg
        have h4 : 2 * N * ((p' + 1) * g) ≥ 2 * N * 1 := Nat.mul_le_mul_left _ h3
        rw [hN] at h1 h4 hb; omega
    subst hp0
    have : q = 1 := by simpa [Nat.Coprime] using hc
    rw [this]
  · rw [if_neg h1]
    by_cases h2 : 2 * (p * g) > (2 * N - 1) * (q * g)
    · -- only possible for q·g = 1 and p = N
      rw [if_pos h2]
      have hqg : q * g = 1 := by
        cases hqg : q * g with
        | zero => exact absurd hqg (Nat.ne_of_gt (Nat.mul_pos hq hg))
        | succ k =>
          cases k with
          | zero => rfl
          | succ k' =>
            exfalso
            rw [hqg] at h2
            have h3 : (2 * N - 1) * (k' + 1 + 1) ≥ (2 * N - 1) * 2 := Nat.mul_le_mul_left _ (by omega)
            rw [hN] at h2 h3 ha; omega
      have hq1 : q = 1 := Nat.eq_one_of_mul_eq_one_right hqg
      have hg1' : g = 1 := by rw [hq1] at hqg; omega
      subst hq1 hg1'
      have : p = N := by rw [hN] at h2 ha ⊢; omega
      rw [this]
    · rw [if_neg h2]
      have hM : q ≤ (if p * g > q * g then ((2 * N + 1) * (q * g)) / (2 * (p * g)) else N) := by
        split
        · rename_i hgt
          have hpos : 0 < 2 * (p * g) := by omega
          rw [Nat.le_div_iff_mul_le hpos]
          -- q * (2 * (p g)) = 2 p (q g) ≤ (2N+1) (q g)
          have e : q * (2 * (p * g)) = (2 * p) * (q * g) := by
            rw [Nat.mul_left_comm q 2, Nat.mul_left_comm q p, Nat.mul_assoc]
          rw [e]
          exact Nat.mul_le_mul_right _ (by omega)
        · exact hqN
      simp only [loop_finds p q g _ hg hq hc hp hM]

/-! ## the signed layer: `fromAngle ∘ toAngle` -/

theorem fromDir_vertical' (s : Int) : fromDir s 0 = if s ≥ 0 then (1, 0) else (-1, 0) := by
  have hsq : 0 ≤ s * s := by
    rcases Int.le_total 0 s with h | h
    · exact Int.mul_nonneg h h
    · have := Int.mul_nonneg (Int.neg_nonneg_of_nonpos h) (Int.neg_nonneg_of_nonpos h)
      rwa [Int.neg_mul_neg] at this
  simp [fromDir, hsq]

theorem not_near_vertical (s c : Int) (hc0 : c ≠ 0) (hs : s.natAbs ≤ 32767) (_hc : c.natAbs ≤ 32767) :
    ¬ (c * c * 65534 * 65534 ≤ s * s + c * c) := by
  have h1 : s * s = ((s.natAbs * s.natAbs : Nat) : Int) := Int.natAbs_mul_self.symm
  have h2 : c * c = ((c.natAbs * c.natAbs : Nat) : Int) := Int.natAbs_mul_self.symm
  have h3 : s.natAbs * s.natAbs ≤ 32767 * 32767 := Nat.mul_self_le_mul_self hs
  have h4 : 1 * 1 ≤ c.natAbs * c.natAbs := Nat.mul_self_le_mul_self (by omega)
  rw [h1, h2]
  generalize s.natAbs * s.natAbs = X at *
  generalize c.natAbs * c.natAbs = Y at *
  omega

theorem fromDir_of_bestRat (s c p q : Int) (hs : s.natAbs ≤ 32767) (hcb : c.natAbs ≤ 32767)
    (hb : bestRat s.natAbs c.natAbs = (p.natAbs, q.natAbs))
    (sp1 : 0 < s ↔ 0 < p) (sp2 : s < 0 ↔ p < 0) (sq1 : 0 < c ↔ 0 < q) (sq2 : c < 0 ↔ q < 0)
    (hq0 : q ≠ 0) (htie : ¬ (p = 0 ∧ q < 0)) : fromDir s c = (p, q) := by
  have hc0 : c ≠ 0 := by omega
  unfold fromDir
  rw [if_neg (not_near_vertical s c hc0 hs hcb), hb]
  simp only
  rcases Int.lt_trichotomy p 0 with hp | hp | hp
  · -- p < 0
    have hs' : s < 0 := sp2.2 hp
    rcases Int.lt_trichotomy q 0 with hq | hq | hq
    · have hc' : c < 0 := sq2.2 hq
      have hneg : ¬ ((s < 0 ∧ c > 0) ∨ (s > 0 ∧ c < 0)) := by omega
      simp only [hneg, if_false, false_and]
      have hpr : s * (p.natAbs : Int) < 0 := Int.mul_neg_of_neg_of_pos hs' (by omega)
      simp only [hpr, if_true]
      refine Prod.ext ?_ ?_ <;> simp only <;> omega
    · exact absurd hq hq0
    · have hc' : c > 0 := sq1.2 hq
      have hneg : (s < 0 ∧ c > 0) ∨ (s > 0 ∧ c < 0) := Or.inl ⟨hs', hc'⟩
      have hp0 : ¬ (p.natAbs = 0) := by omega
      simp only [hneg, if_true, hp0, false_and, and_false, if_false]
      have hpr : ¬ (s * (-(p.natAbs : Int)) < 0) := by
        have := Int.mul_pos_of_neg_of_neg hs' (show -(p.natAbs : Int) < 0 by omega)
        omega
      simp only [hpr, if_false]
      refine Prod.ext ?_ ?_ <;> simp only <;> omega
  · -- p = 0
    subst hp
    have hs0 : s = 0 := by omega
    subst hs0
    have hq' : 0 < q := by omega
    simp only [if_false, false_and, or_self, Int.natAbs_zero, Int.zero_mul, Int.lt_irrefl]
    refine Prod.ext ?_ ?_ <;> simp only <;> omega
  · -- p > 0
    have hs' : 0 < s := sp1.2 hp
    rcases Int.lt_trichotomy q 0 with hq | hq | hq
    · have hc' : c < 0 := sq2.2 hq
      have hneg : (s < 0 ∧ c > 0) ∨ (s > 0 ∧ c < 0) := Or.inr ⟨hs', hc'⟩
      have hp0 : ¬ (p.natAbs = 0) := by omega
      simp only [hneg, if_true, hp0, false_and, and_false, if_false]
      have hpr : s * (-(p.natAbs : Int)) < 0 :=
        Int.mul_neg_of_pos_of_neg hs' (by omega)
      simp only [hpr, if_true]
      refine Prod.ext ?_ ?_ <;> simp only <;> omega
    · exact absurd hq hq0
    · have hc' : c > 0 := sq1.2 hq
      have hneg : ¬ ((s < 0 ∧ c > 0) ∨ (s > 0 ∧ c < 0)) := by omega
      simp only [hneg, if_false, false_and]
      have hpr : ¬ (s * (p.natAbs : Int) < 0) := by
        have := Int.mul_pos hs' (show (0 : Int) < (p.natAbs : Int) by omega)
        omega
      simp only [hpr, if_false]
      refine Prod.ext ?_ ?_ <;> simp only <;> omega

/-- **Caret slope survives Decode∘Encode.**  For `p/q` in lowest terms (`Int.gcd p q = 1`; the
vertical carets are `(±1, 0)`, the horizontal one `(0, 1)`) and every multiplier `k ≥ 1` with
`|k·p|, |k·q| ≤ 32767`, the exact-arithmetic `fromAngle (toAngle (k·p) (k·q))` is exactly `(p, q)`.
`k = 1`: a pair in lowest terms is returned unchanged.  Excluded: the tie `p = 0, q < 0`. -/
theorem norm_reduces (p q : Int) (k : Nat) (hk : 0 < k) (hc : Int.gcd p q = 1)
    (hp : ((k : Int) * p).natAbs ≤ 32767) (hq : ((k : Int) * q).natAbs ≤ 32767)
    (htie : ¬ (p = 0 ∧ q < 0)) : norm ((k : Int) * p) ((k : Int) * q) = (p, q) := by
  have hkp : (0 : Int) < (k : Int) := by omega
  have ea : ((k : Int) * p).natAbs = p.natAbs * k := by
    rw [Int.natAbs_mul, Int.natAbs_natCast, Nat.mul_comm]
  have eb : ((k : Int) * q).natAbs = q.natAbs * k := by
    rw [Int.natAbs_mul, Int.natAbs_natCast, Nat.mul_comm]
  have sgn : ∀ x : Int, (0 < (k : Int) * x ↔ 0 < x) ∧ ((k : Int) * x < 0 ↔ x < 0) := by
    intro x
    rcases Int.lt_trichotomy x 0 with h | h | h
    · have := Int.mul_neg_of_pos_of_neg hkp h; constructor <;> constructor <;> intro _ <;> omega
    · subst h; simp
    · have := Int.mul_pos hkp h; constructor <;> constructor <;> intro _ <;> omega
  have hr : (k : Int) * p ≠ -32768 := by omega
  have hu : (k : Int) * q ≠ -32768 := by omega
  by_cases hq0 : q = 0
  · subst hq0
    have hp1 : p.natAbs = 1 := by simpa [Int.gcd] using hc
    have hpz : (k : Int) * p ≠ 0 := by
      have := sgn p; omega
    have htd : toDir ((k : Int) * p) ((k : Int) * 0) = ((k : Int) * p, 0) := by
      simp [toDir, hr, hpz]
    simp only [norm, htd, fromDir_vertical']
    have := sgn p
    split <;> refine Prod.ext ?_ ?_ <;> simp only <;> omega
  · have hqz : (k : Int) * q ≠ 0 := by
      have := sgn q; omega
    have htd : toDir ((k : Int) * p) ((k : Int) * q) = ((k : Int) * p, (k : Int) * q) := by
      simp [toDir, hr, hu, hqz]
    simp only [norm, htd]
    have hcop : Nat.Coprime q.natAbs p.natAbs := by
      unfold Nat.Coprime; rw [Nat.gcd_comm]; exact hc
    have hqpos : 0 < q.natAbs := by omega
    have hbest := bestRat_reduces p.natAbs q.natAbs k hk hqpos hcop
      (by rw [← ea]; exact hp) (by rw [← eb]; exact hq)
    apply fromDir_of_bestRat _ _ p q hp hq (by rw [ea, eb]; exact hbest)
      (sgn p).1 (sgn p).2 (sgn q).1 (sgn q).2 hq0 htie

/-- `-32768` behaves like `-32767` (`toAngle` clamps it) -/
theorem norm_clamp (rise run : Int) :
    norm (-32768) run = norm (-32767) run ∧ norm rise (-32768) = norm rise (-32767) := by
  constructor <;> simp [norm, toDir]

end SfntV.Caret
