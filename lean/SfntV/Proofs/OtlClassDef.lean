/-
Lemmas about the class-definition-table model (C08).
-/
import SfntV.Model.OtlClassDef
import SfntV.Proofs.OtlBase

namespace SfntV.Otl.ClassDef
open SfntV SfntV.Otl

/-! ### the segment loop -/

theorem step_none (cls i : Nat) :
    step cls i none = (none, if cls ≠ 0 then some (i, cls) else none) := rfl

theorem step_some_ne {cls c : Nat} (i s : Nat) (h : cls ≠ c) :
    step cls i (some (s, c)) = (some (s, c), if cls ≠ 0 then some (i, cls) else none) := by
  simp [step, h]

theorem step_some_eq (c i s : Nat) : step c i (some (s, c)) = (none, some (s, c)) := by
  simp [step]

/-- invariant of the loop state before iteration `i` -/
def StInv (f : Nat → Nat) (i : Nat) : Option (Nat × Nat) → Prop
  | none => True
  | some (s, c) => c ≠ 0 ∧ s < i ∧ ∀ g, s ≤ g → g < i → f g = c

def stStart (i : Nat) : Option (Nat × Nat) → Nat
  | none => i
  | some (s, _) => s

/-- every emitted segment is a run of one non-zero class of `f` -/
def Sound (f : Nat → Nat) (segs : List (Nat × Nat × Nat)) : Prop :=
  ∀ r ∈ segs, r.2.2 ≠ 0 ∧ r.1 ≤ r.2.1 ∧ ∀ g, r.1 ≤ g → g ≤ r.2.1 → f g = r.2.2

/-- the segments are in increasing order, separated, and start at or after `b` -/
def sepFrom : Nat → List (Nat × Nat × Nat) → Prop
  | _, [] => True
  | b, r :: rest => b ≤ r.1 ∧ r.1 ≤ r.2.1 ∧ sepFrom (r.2.1 + 1) rest

theorem sepFrom_mono : ∀ (segs : List (Nat × Nat × Nat)) (b b' : Nat), b ≤ b' → sepFrom b' segs → sepFrom b segs
  | [], _, _, _, _ => trivial
  | _ :: _, _, _, hb, h => ⟨Nat.le_trans hb h.1, h.2⟩

theorem emit_spec (f : Nat → Nat) (hi : Nat) : ∀ (k i : Nat) (st : Option (Nat × Nat)),
    i + k = hi + 1 → StInv f i st →
    Sound f (emitLoop f hi (List.range' i k) st) ∧
    (∀ g, stStart i st ≤ g → g ≤ hi → f g ≠ 0 →
      ∃ r ∈ emitLoop f hi (List.range' i k) st, r.1 ≤ g ∧ g ≤ r.2.1) ∧
    sepFrom (stStart i st) (emitLoop f hi (List.range' i k) st) ∧
    (∀ r ∈ emitLoop f hi (List.range' i k) st, r.2.1 ≤ hi)
  | 0, i, st, hik, hinv => by
    cases st with
    | none =>
      simp only [List.range'_zero, emitLoop, Sound, sepFrom, stStart]
      refine ⟨by simp, ?_, trivial, by simp⟩
      intro g h1 h2; omega
    | some p =>
      obtain ⟨s, c⟩ := p
      obtain ⟨hc, hs, hf⟩ := hinv
      simp only [List.range'_zero, emitLoop, Sound, sepFrom, stStart, List.mem_singleton]
      refine ⟨?_, ?_, ⟨Nat.le_refl _, by omega, trivial⟩, ?_⟩
      · rintro r rfl
        exact ⟨hc, by dsimp only; omega, fun g h1 h2 => hf g h1 (by dsimp only at h2; omega)⟩
      · intro g h1 h2 _
        exact ⟨_, rfl, h1, h2⟩
      · rintro r rfl; exact Nat.le_refl _
  | k + 1, i, st, hik, hinv => by
    rw [List.range'_succ]
    simp only [emitLoop]
    cases st with
    | none =>
      rw [step_none]
      by_cases hz : f i ≠ 0
      · rw [if_pos hz]; simp only [List.nil_append]
        have ih := emit_spec f hi k (i + 1) (some (i, f i)) (by omega)
          ⟨hz, by omega, fun g h1 h2 => congrArg f (by omega)⟩
        simp only [stStart] at ih ⊢
        exact ih
      · rw [if_neg hz]; simp only [List.nil_append]
        have ih := emit_spec f hi k (i + 1) none (by omega) trivial
        simp only [stStart] at ih ⊢
        refine ⟨ih.1, ?_, sepFrom_mono _ _ _ (by omega) ih.2.2.1, ih.2.2.2⟩
        intro g h1 h2 h3
        by_cases hgi : g = i
        · subst hgi; exact absurd h3 hz
        · exact ih.2.1 g (by omega) h2 h3
    | some p =>
      obtain ⟨s, c⟩ := p
      obtain ⟨hc, hs, hf⟩ := hinv
      by_cases hne : f i ≠ c
      · rw [step_some_ne i s hne]
        simp only [List.cons_append, List.nil_append, stStart]
        -- the closed segment
        have hclosed : (s, i - 1, c).2.2 ≠ 0 ∧ (s, i - 1, c).1 ≤ (s, i - 1, c).2.1 ∧
            ∀ g, (s, i - 1, c).1 ≤ g → g ≤ (s, i - 1, c).2.1 → f g = (s, i - 1, c).2.2 :=
          ⟨hc, by dsimp only; omega, fun g h1 h2 => hf g h1 (by dsimp only at h2; omega)⟩
        by_cases hz : f i ≠ 0
        · rw [if_pos hz]
          have ih := emit_spec f hi k (i + 1) (some (i, f i)) (by omega)
            ⟨hz, by omega, fun g h1 h2 => congrArg f (by omega)⟩
          simp only [stStart] at ih
          refine ⟨?_, ?_, ⟨Nat.le_refl _, by show s ≤ i - 1; omega, ?_⟩, ?_⟩
          · intro r hr
            rw [List.mem_cons] at hr
            rcases hr with rfl | hr
            · exact hclosed
            · exact ih.1 r hr
          · intro g h1 h2 h3
            by_cases hgi : g < i
            · exact ⟨_, List.mem_cons_self, h1, by show g ≤ i - 1; omega⟩
            · obtain ⟨r, hr, h⟩ := ih.2.1 g (by omega) h2 h3
              exact ⟨r, List.mem_cons_of_mem _ hr, h⟩
          · exact sepFrom_mono _ _ _ (by show i - 1 + 1 ≤ _; omega) ih.2.2.1
          · intro r hr
            rw [List.mem_cons] at hr
            rcases hr with rfl | hr
            · show i - 1 ≤ hi; omega
            · exact ih.2.2.2 r hr
        · rw [if_neg hz]
          have ih := emit_spec f hi k (i + 1) none (by omega) trivial
          simp only [stStart] at ih
          refine ⟨?_, ?_, ⟨Nat.le_refl _, by show s ≤ i - 1; omega, ?_⟩, ?_⟩
          · intro r hr
            rw [List.mem_cons] at hr
            rcases hr with rfl | hr
            · exact hclosed
            · exact ih.1 r hr
          · intro g h1 h2 h3
            by_cases hgi : g < i
            · exact ⟨_, List.mem_cons_self, h1, by show g ≤ i - 1; omega⟩
            · by_cases hgi' : g = i
              · subst hgi'; exact absurd h3 hz
              · obtain ⟨r, hr, h⟩ := ih.2.1 g (by omega) h2 h3
                exact ⟨r, List.mem_cons_of_mem _ hr, h⟩
          · exact sepFrom_mono _ _ _ (by show i - 1 + 1 ≤ _; omega) ih.2.2.1
          · intro r hr
            rw [List.mem_cons] at hr
            rcases hr with rfl | hr
            · show i - 1 ≤ hi; omega
            · exact ih.2.2.2 r hr
      · have he : f i = c := by omega
        rw [he, step_some_eq]
        simp only [List.nil_append, stStart]
        have ih := emit_spec f hi k (i + 1) (some (s, c)) (by omega)
          ⟨hc, by omega, fun g h1 h2 => by
            by_cases hgi : g = i
            · rw [hgi, he]
            · exact hf g h1 (by omega)⟩
        simp only [stStart] at ih
        exact ih

/-! ### the counting loop -/

theorem step_count (cls i : Nat) (st : Option (Nat × Nat)) :
    (if (step cls i st).1.isSome then 1 else 0) + (if (step cls i st).2.isSome then 1 else 0)
      ≤ 1 + (if st.isSome then 1 else 0) := by
  cases st with
  | none => rw [step_none]; simp only [Option.isSome_none]; split <;> split <;> simp_all
  | some p =>
    simp only [Option.isSome_some, if_true]
    split <;> split <;> omega

theorem countLoop_le (f : Nat → Nat) (f1 : Nat) : ∀ (l : List Nat) (c : Nat) (st : Option (Nat × Nat)),
    countLoop f f1 l c st ≤ c + l.length + (if st.isSome then 1 else 0)
  | [], c, st => by simp [countLoop]
  | i :: is, c, st => by
    simp only [countLoop]
    split
    · have ih := countLoop_le f f1 is (c + if (step (f i) i st).1.isSome then 1 else 0) (step (f i) i st).2
      have hs := step_count (f i) i st
      simp only [List.length_cons]
      omega
    · simp only [List.length_cons]; omega

theorem countLoop_ge (f : Nat → Nat) (f1 : Nat) : ∀ (l : List Nat) (c : Nat) (st : Option (Nat × Nat)),
    c ≤ countLoop f f1 l c st
  | [], c, st => by simp [countLoop]
  | i :: is, c, st => by
    simp only [countLoop]
    split
    · have := countLoop_ge f f1 is (c + if (step (f i) i st).1.isSome then 1 else 0) (step (f i) i st).2
      omega
    · omega

/-- when format 2 is the smaller one, the early exit of the counting loop was not taken and the
count is the number of records `Append` emits -/
theorem countLoop_eq_emit (f : Nat → Nat) (f1 hi : Nat) : ∀ (l : List Nat) (c : Nat) (st : Option (Nat × Nat)),
    4 + 6 * countLoop f f1 l c st < f1 →
    countLoop f f1 l c st = c + (emitLoop f hi l st).length
  | [], c, st, _ => by
    cases st with
    | none => simp [countLoop, emitLoop]
    | some p => simp [countLoop, emitLoop]
  | i :: is, c, st, h => by
    simp only [countLoop] at h ⊢
    split at h
    · rename_i hg
      rw [if_pos hg]
      have ih := countLoop_eq_emit f f1 hi is _ _ h
      rw [ih]
      simp only [emitLoop, List.length_append]
      cases (step (f i) i st).1 <;> simp <;> omega
    · rename_i hg
      exfalso
      omega

/-! ### reading the emitted segments back -/

/-- what `read2` returns for a list of segments (newest first) -/
def entriesOf : List (Nat × Nat × Nat) → List (Nat × Nat)
  | [] => []
  | r :: rest => entriesOf rest ++
      (if r.2.2 ≠ 0 then (List.range' r.1 (r.2.1 + 1 - r.1)).map (fun g => (g, r.2.2)) else [])

theorem read2_segs (tail : List Nat) : ∀ (segs : List (Nat × Nat × Nat)) (i prevEnd : Nat),
    sepFrom (if i = 0 then 0 else prevEnd + 1) segs →
    (∀ r ∈ segs, r.1 < 65536 ∧ r.2.1 < 65536 ∧ r.2.2 < 65536) →
    read2 segs.length (segs.flatMap recWords ++ tail) i prevEnd = .ok (entriesOf segs)
  | [], _, _, _, _ => rfl
  | r :: rest, i, prevEnd, hsep, hlt => by
    obtain ⟨s, e, c⟩ := r
    obtain ⟨h1, h2, h3⟩ := hlt (s, e, c) (by simp)
    dsimp only at h1 h2 h3
    obtain ⟨hb, hse, hrest⟩ := hsep
    dsimp only at hb hse hrest
    simp only [List.length_cons, List.flatMap_cons, recWords, List.cons_append, List.nil_append]
    rw [w16_of_lt h1, w16_of_lt h2, w16_of_lt h3]
    simp only [read2]
    have hcond : ¬ (i > 0 ∧ s ≤ prevEnd) := by
      intro ⟨hi0, hsp⟩
      rw [if_neg (by omega)] at hb
      omega
    rw [if_neg hcond, if_neg (by omega)]
    rw [read2_segs tail rest (i + 1) e (by rw [if_neg (by omega)]; exact hrest)
      (fun r hr => hlt r (by simp [hr]))]
    simp [entriesOf]

theorem mem_entriesOf : ∀ (segs : List (Nat × Nat × Nat)) (p : Nat × Nat),
    p ∈ entriesOf segs ↔ ∃ r ∈ segs, r.2.2 ≠ 0 ∧ p.2 = r.2.2 ∧ r.1 ≤ p.1 ∧ p.1 ≤ r.2.1
  | [], p => by simp [entriesOf]
  | r :: rest, p => by
    simp only [entriesOf, List.mem_append, mem_entriesOf rest p, List.mem_cons, exists_eq_or_imp]
    constructor
    · rintro (h | h)
      · exact Or.inr h
      · left
        split at h
        · rename_i hc
          rw [List.mem_map] at h
          obtain ⟨g, hg, rfl⟩ := h
          rw [List.mem_range'] at hg
          obtain ⟨j, hj, rfl⟩ := hg
          refine ⟨hc, rfl, ?_, ?_⟩ <;> dsimp only <;> omega
        · simp at h
    · rintro (⟨hc, h2, h3, h4⟩ | h)
      · right
        rw [if_pos hc, List.mem_map]
        refine ⟨p.1, ?_, by rw [← h2]⟩
        rw [List.mem_range']
        exact ⟨p.1 - r.1, by omega, by omega⟩
      · exact Or.inl h

theorem classOf_eq (es : List (Nat × Nat)) (F : Nat → Nat) (g : Nat)
    (hs : ∀ p ∈ es, p.2 = F p.1) (hc : F g ≠ 0 → ∃ p ∈ es, p.1 = g) : classOf es g = F g := by
  unfold classOf
  cases h : es.find? (·.1 == g) with
  | none =>
    dsimp only
    rw [List.find?_eq_none] at h
    by_cases hz : F g = 0
    · exact hz.symm
    · obtain ⟨p, hp, hpg⟩ := hc hz
      exact absurd (by simp [hpg]) (h p hp)
  | some p =>
    dsimp only
    have hp := List.mem_of_find?_eq_some h
    have hg := List.find?_some h
    simp only [beq_iff_eq] at hg
    rw [hs p hp, hg]

/-- first segment containing `g`: what the specification reads from the records -/
def segFind : List (Nat × Nat × Nat) → Nat → Nat
  | [], _ => 0
  | r :: rest, g => if r.1 ≤ g ∧ g ≤ r.2.1 then r.2.2 else segFind rest g

theorem specRanges_segs (tail : List Nat) (g : Nat) : ∀ (segs : List (Nat × Nat × Nat)),
    (∀ r ∈ segs, r.1 < 65536 ∧ r.2.1 < 65536 ∧ r.2.2 < 65536) →
    specRanges segs.length (segs.flatMap recWords ++ tail) g = some (segFind segs g)
  | [], _ => rfl
  | r :: rest, hlt => by
    obtain ⟨s, e, c⟩ := r
    obtain ⟨h1, h2, h3⟩ := hlt (s, e, c) (by simp)
    dsimp only at h1 h2 h3
    simp only [List.length_cons, List.flatMap_cons, recWords, List.cons_append, List.nil_append]
    rw [w16_of_lt h1, w16_of_lt h2, w16_of_lt h3]
    simp only [specRanges, segFind]
    split
    · rfl
    · exact specRanges_segs tail g rest (fun r hr => hlt r (by simp [hr]))

theorem segFind_eq (f : Nat → Nat) (g : Nat) : ∀ (segs : List (Nat × Nat × Nat)),
    Sound f segs → (f g ≠ 0 → ∃ r ∈ segs, r.1 ≤ g ∧ g ≤ r.2.1) → segFind segs g = f g
  | [], _, hc => by
    simp only [segFind]
    by_cases hz : f g = 0
    · exact hz.symm
    · obtain ⟨r, hr, _⟩ := hc hz
      simp at hr
  | r :: rest, hs, hc => by
    simp only [segFind]
    split
    · rename_i hin
      exact ((hs r (by simp)).2.2 g hin.1 hin.2).symm
    · rename_i hout
      apply segFind_eq f g rest (fun r' hr' => hs r' (by simp [hr']))
      intro hz
      obtain ⟨r', hr', h⟩ := hc hz
      rw [List.mem_cons] at hr'
      rcases hr' with rfl | hr'
      · exact absurd h hout
      · exact ⟨r', hr', h⟩

/-! ### assembly -/

/-- The domain: a non-empty table seen as `(f, lo, hi)` — `lo`/`hi` the smallest/largest key, all
ids and classes 16-bit values, class 0 outside `[lo, hi]`. -/
structure Dom (f : Nat → Nat) (lo hi : Nat) : Prop where
  lohi : lo ≤ hi
  hi_lt : hi < 65536
  cls_lt : ∀ g, f g < 65536
  outside : ∀ g, g < lo ∨ hi < g → f g = 0

theorem format2Size_le (f : Nat → Nat) (lo hi : Nat) :
    format2Size f lo hi ≤ 4 + 6 * (hi - lo + 1) := by
  unfold format2Size
  have := countLoop_le f (format1Size lo hi) (List.range' lo (hi - lo + 1)) 0 none
  simp only [List.length_range', Option.isSome_none] at this
  simp at this
  omega

theorem flatMap_recWords_length (l : List (Nat × Nat × Nat)) :
    (l.flatMap recWords).length = 3 * l.length := by
  induction l with
  | nil => rfl
  | cons a l ih => simp only [List.flatMap_cons, List.length_append, ih, recWords, List.length_cons,
      List.length_nil]; omega

theorem flatMap_recWords_lt (l : List (Nat × Nat × Nat)) : ∀ w ∈ l.flatMap recWords, w < 65536 := by
  intro w hw
  rw [List.mem_flatMap] at hw
  obtain ⟨r, _, hr⟩ := hw
  simp only [recWords, List.mem_cons, List.not_mem_nil, or_false] at hr
  rcases hr with rfl | rfl | rfl <;> exact w16_lt _

/-- the three shapes of the words `Append` writes -/
inductive Shape (f : Nat → Nat) (lo hi : Nat) : List Nat → Prop
  | fmt1 (h : hi - lo + 1 ≤ 0xFFFF) (hf : format1Size lo hi ≤ format2Size f lo hi) :
      Shape f lo hi (1 :: lo :: (hi - lo + 1) :: (List.range (hi - lo + 1)).map fun i => f (lo + i))
  | fmt2 (hf : format2Size f lo hi < format1Size lo hi)
      (hn : (emitLoop f hi (List.range' lo (hi - lo + 1)) none).length ≤ 0xFFFF)
      (hc : format2Size f lo hi = 4 + 6 * (emitLoop f hi (List.range' lo (hi - lo + 1)) none).length) :
      Shape f lo hi (2 :: (emitLoop f hi (List.range' lo (hi - lo + 1)) none).length ::
        (emitLoop f hi (List.range' lo (hi - lo + 1)) none).flatMap recWords)

theorem appendWF_shape (f : Nat → Nat) (lo hi : Nat) (d : Dom f lo hi) (ws : List Nat)
    (h : appendWF false f lo hi = .ok ws) : Shape f lo hi ws := by
  unfold appendWF at h
  simp only [Bool.false_eq_true, if_false] at h
  split at h
  · rename_i hf
    have h2 := format2Size_le f lo hi
    have hcnt : hi - lo + 1 ≤ 0xFFFF := by
      apply Classical.byContradiction
      intro hgt
      have : format1Size lo hi = maxInt := by simp [format1Size]; omega
      rw [this] at hf
      have := d.hi_lt
      simp only [maxInt] at hf
      omega
    simp only [Outcome.ok.injEq] at h
    subst h
    rw [w16_of_lt (by omega : hi - lo + 1 < 65536)]
    have e : ((List.range (hi - lo + 1)).map fun i => f (w16 (lo + i))) =
        (List.range (hi - lo + 1)).map fun i => f (lo + i) := by
      apply List.map_congr_left
      intro i hi'
      rw [List.mem_range] at hi'
      rw [w16_of_lt (by have := d.hi_lt; have := d.lohi; omega)]
    rw [e]
    exact Shape.fmt1 hcnt hf
  · rename_i hf
    have hf' : format2Size f lo hi < format1Size lo hi := by omega
    have hc : format2Size f lo hi = 4 + 6 * (emitLoop f hi (List.range' lo (hi - lo + 1)) none).length := by
      unfold format2Size at hf' ⊢
      rw [countLoop_eq_emit f _ hi _ 0 none hf']
      omega
    have e : (format2Size f lo hi - 4) / 6 = (emitLoop f hi (List.range' lo (hi - lo + 1)) none).length := by
      omega
    rw [e] at h
    split at h
    · simp at h
    · rename_i hn
      simp only [Outcome.ok.injEq] at h
      subst h
      rw [w16_of_lt (by omega)]
      exact Shape.fmt2 hf' (by omega) hc

theorem shape_lt (f : Nat → Nat) (lo hi : Nat) (d : Dom f lo hi) (ws : List Nat)
    (h : Shape f lo hi ws) : ∀ w ∈ ws, w < 65536 := by
  have := d.hi_lt
  have := d.lohi
  cases h with
  | fmt1 hc hf =>
    intro w hw
    simp only [List.mem_cons, List.mem_map] at hw
    rcases hw with rfl | rfl | rfl | ⟨i, _, rfl⟩
    · decide
    · omega
    · omega
    · exact d.cls_lt _
  | fmt2 hf hn hc =>
    intro w hw
    simp only [List.mem_cons] at hw
    rcases hw with rfl | rfl | hw
    · decide
    · omega
    · exact flatMap_recWords_lt _ w hw

theorem shape_length (f : Nat → Nat) (lo hi : Nat) (ws : List Nat) (h : Shape f lo hi ws) :
    2 * ws.length = appendLenF false f lo hi := by
  unfold appendLenF
  simp only [Bool.false_eq_true, if_false]
  cases h with
  | fmt1 hc hf =>
    have : format1Size lo hi = 6 + 2 * (hi - lo + 1) := by simp [format1Size]; omega
    simp only [List.length_cons, List.length_map, List.length_range]
    split <;> omega
  | fmt2 hf hn hc =>
    simp only [List.length_cons, flatMap_recWords_length]
    rw [if_neg (by omega)]
    omega

/-- model reader and specification on the emitted words -/
theorem shape_read (f : Nat → Nat) (lo hi : Nat) (d : Dom f lo hi) (ws : List Nat)
    (h : Shape f lo hi ws) :
    ∃ es, readW ws = .ok es ∧ ∀ g, classOf es g = f g ∧ specClass ws g = some (f g) := by
  have hhi := d.hi_lt
  have hlohi := d.lohi
  cases h with
  | fmt1 hc hf =>
    refine ⟨(((((List.range (hi - lo + 1)).map fun i => f (lo + i)).take (hi - lo + 1)).zipIdx lo).filter
      (fun p => p.1 != 0)).map (fun p => (p.2, p.1)), ?_, ?_⟩
    · simp only [readW]
      rw [if_neg (by omega), if_pos (by simp)]
    · intro g
      have hget : ∀ j, j < hi - lo + 1 →
          ((List.range (hi - lo + 1)).map fun i => f (lo + i))[j]? = some (f (lo + j)) := by
        intro j hj
        rw [List.getElem?_map, List.getElem?_range hj]; rfl
      constructor
      · apply classOf_eq
        · intro p hp
          simp only [List.mem_map, List.mem_filter] at hp
          obtain ⟨q, ⟨hq, _⟩, rfl⟩ := hp
          rw [List.take_of_length_le (by simp)] at hq
          rw [List.mem_zipIdx_iff_le_and_getElem?_sub] at hq
          obtain ⟨h1, h2⟩ := hq
          have hj : q.2 - lo < hi - lo + 1 := by
            apply Classical.byContradiction
            intro hge
            rw [List.getElem?_eq_none (by simp; omega)] at h2
            simp at h2
          rw [hget _ hj] at h2
          simp only [Option.some.injEq] at h2
          dsimp only
          rw [← h2]
          congr 1
          omega
        · intro hz
          have hin : lo ≤ g ∧ g ≤ hi := by
            apply Classical.byContradiction
            intro hout
            exact hz (d.outside g (by omega))
          refine ⟨(g, f g), ?_, rfl⟩
          simp only [List.mem_map, List.mem_filter]
          refine ⟨(f g, g), ⟨?_, by simpa using hz⟩, rfl⟩
          rw [List.take_of_length_le (by simp)]
          rw [List.mem_zipIdx_iff_le_and_getElem?_sub]
          refine ⟨hin.1, ?_⟩
          dsimp only
          rw [hget _ (by omega)]
          congr 2
          omega
      · simp only [specClass]
        rw [if_pos (by simp)]
        congr 1
        split
        · rename_i hin
          rw [List.getD_eq_getElem?_getD, hget _ (by omega)]
          simp only [Option.getD_some]
          congr 1
          omega
        · rename_i hout
          exact (d.outside g (by omega)).symm
  | fmt2 hf hn hc =>
    have hspec := emit_spec f hi (hi - lo + 1) lo none (by omega) trivial
    simp only [stStart] at hspec
    obtain ⟨hsound, hcompl, hsep, hle⟩ := hspec
    have hlt : ∀ r ∈ emitLoop f hi (List.range' lo (hi - lo + 1)) none,
        r.1 < 65536 ∧ r.2.1 < 65536 ∧ r.2.2 < 65536 := by
      intro r hr
      have h1 := hle r hr
      have h2 := (hsound r hr).2.1
      have h3 := (hsound r hr).2.2 r.1 (Nat.le_refl _) h2
      refine ⟨by omega, by omega, ?_⟩
      rw [← h3]
      exact d.cls_lt _
    have hcompl' : ∀ g, f g ≠ 0 →
        ∃ r ∈ emitLoop f hi (List.range' lo (hi - lo + 1)) none, r.1 ≤ g ∧ g ≤ r.2.1 := by
      intro g hz
      have hin : lo ≤ g ∧ g ≤ hi := by
        apply Classical.byContradiction
        intro hout
        exact hz (d.outside g (by omega))
      exact hcompl g hin.1 hin.2 hz
    refine ⟨entriesOf (emitLoop f hi (List.range' lo (hi - lo + 1)) none), ?_, ?_⟩
    · simp only [readW]
      have := read2_segs [] _ 0 0 (by simpa using sepFrom_mono _ 0 lo (Nat.zero_le _) hsep) hlt
      rw [List.append_nil] at this
      exact this
    · intro g
      constructor
      · apply classOf_eq
        · intro p hp
          rw [mem_entriesOf] at hp
          obtain ⟨r, hr, _, h2, h3, h4⟩ := hp
          rw [h2]
          exact ((hsound r hr).2.2 p.1 h3 h4).symm
        · intro hz
          obtain ⟨r, hr, h1, h2⟩ := hcompl' g hz
          refine ⟨(g, r.2.2), ?_, rfl⟩
          rw [mem_entriesOf]
          exact ⟨r, hr, (hsound r hr).1, rfl, h1, h2⟩
      · simp only [specClass]
        have := specRanges_segs [] g _ hlt
        rw [List.append_nil] at this
        rw [this, segFind_eq f g _ hsound (hcompl' g)]

/-- refusal happens only for a table spanning all 65536 glyph ids -/
theorem appendWF_not_err (f : Nat → Nat) (lo hi : Nat) (empty : Bool) (e : String) :
    appendWF empty f lo hi ≠ .err e := by
  unfold appendWF
  split
  · simp
  · split
    · simp
    · dsimp only
      split <;> simp

theorem appendWF_panic (f : Nat → Nat) (lo hi : Nat) (s : String)
    (h : appendWF false f lo hi = .panic s) : hi - lo + 1 > 0xFFFF := by
  unfold appendWF at h
  simp only [Bool.false_eq_true, if_false] at h
  split at h
  · simp at h
  · split at h
    · rename_i hn
      have := format2Size_le f lo hi
      omega
    · simp at h

/-! ### from a Go map to `(f, lo, hi)` -/

theorem foldl_min_le : ∀ (m : Tab) (a : Nat),
    m.foldl (fun a p => min a p.1) a ≤ a ∧ ∀ p ∈ m, m.foldl (fun a p => min a p.1) a ≤ p.1
  | [], a => by simp
  | q :: m, a => by
    simp only [List.foldl_cons, List.mem_cons]
    have ih := foldl_min_le m (min a q.1)
    refine ⟨by have := ih.1; omega, ?_⟩
    rintro p (rfl | hp)
    · have := ih.1; omega
    · exact ih.2 p hp

theorem foldl_max_ge : ∀ (m : Tab) (a : Nat),
    a ≤ m.foldl (fun a p => max a p.1) a ∧ ∀ p ∈ m, p.1 ≤ m.foldl (fun a p => max a p.1) a
  | [], a => by simp
  | q :: m, a => by
    simp only [List.foldl_cons, List.mem_cons]
    have ih := foldl_max_ge m (max a q.1)
    refine ⟨by have := ih.1; omega, ?_⟩
    rintro p (rfl | hp)
    · have := ih.1; omega
    · exact ih.2 p hp

theorem foldl_max_lt (N : Nat) : ∀ (m : Tab) (a : Nat), a < N → (∀ p ∈ m, p.1 < N) →
    m.foldl (fun a p => max a p.1) a < N
  | [], a, ha, _ => by simpa
  | q :: m, a, ha, hm => by
    simp only [List.foldl_cons]
    apply foldl_max_lt N m
    · have := hm q (by simp); omega
    · intro p hp; exact hm p (by simp [hp])

/-- a well-typed, non-empty Go `classdef.Table`: keys and values are 16-bit values -/
structure TabOk (m : Tab) : Prop where
  nonempty : m ≠ []
  small : ∀ p ∈ m, p.1 < 65536 ∧ p.2 < 65536

theorem get_ne_zero {m : Tab} {g : Nat} (h : get m g ≠ 0) : ∃ p ∈ m, p.1 = g ∧ p.2 = get m g := by
  unfold get at h ⊢
  cases hf : m.find? (·.1 == g) with
  | none => rw [hf] at h; exact absurd rfl h
  | some p =>
    have := List.find?_some hf
    simp only [beq_iff_eq] at this
    exact ⟨p, List.mem_of_find?_eq_some hf, this, rfl⟩

theorem dom_of_tab (m : Tab) (h : TabOk m) : Dom (get m) (minGid m) (maxGid m) := by
  have hmin := foldl_min_le m 0xFFFF
  have hmax := foldl_max_ge m 0
  refine ⟨?_, ?_, ?_, ?_⟩
  · cases m with
    | nil => exact absurd rfl h.nonempty
    | cons q m =>
      have h1 := hmin.2 q (by simp)
      have h2 := hmax.2 q (by simp)
      unfold minGid maxGid
      omega
  · exact foldl_max_lt 65536 m 0 (by decide) (fun p hp => (h.small p hp).1)
  · intro g
    by_cases hz : get m g = 0
    · omega
    · obtain ⟨p, hp, _, h2⟩ := get_ne_zero hz
      rw [← h2]
      exact (h.small p hp).2
  · intro g hg
    apply Classical.byContradiction
    intro hz
    obtain ⟨p, hp, h1, _⟩ := get_ne_zero hz
    have h3 := hmin.2 p hp
    have h4 := hmax.2 p hp
    unfold minGid maxGid at hg
    omega

end SfntV.Otl.ClassDef
