/-
Lemmas about the number encoder model (C04).
-/
import SfntV.Model.T2Encode
import SfntV.Proofs.T2

namespace SfntV.T2Enc
open SfntV SfntV.T2

theorem toI16_range (v : Nat) (h : v < 65536) : -32768 ≤ toI16 v ∧ toI16 v ≤ 32767 := by
  unfold toI16; split <;> omega

theorem wrap16_range (v : Int) : -32768 ≤ wrap16 v ∧ wrap16 v ≤ 32767 := by
  unfold wrap16
  apply toI16_range
  omega

/-- rounding to nearest: the quotient is within half a divisor -/
theorem roundDiv_close (a : Int) (d : Nat) (hd : 0 < d) :
    2 * (roundDiv a d * d - a).natAbs ≤ d := by
  unfold roundDiv
  simp only
  have h := Nat.div_add_mod (2 * a.natAbs + d) (2 * d)
  have hr := Nat.mod_lt (2 * a.natAbs + d) (show 0 < 2 * d by omega)
  generalize (2 * a.natAbs + d) / (2 * d) = q at *
  generalize (2 * a.natAbs + d) % (2 * d) = r at *
  have e : 2 * d * q = 2 * (q * d) := by rw [Nat.mul_assoc, Nat.mul_comm d q]
  rw [e] at h
  split
  · have : (-(q : Int)) * (d : Int) = -((q * d : Nat) : Int) := by
      rw [Int.neg_mul]; simp
    rw [this]
    generalize q * d = m at *
    omega
  · have : (q : Int) * (d : Int) = ((q * d : Nat) : Int) := by simp
    rw [this]
    generalize q * d = m at *
    omega

/-- … and inside the int32 range when |a| ≤ 32767·65536·d -/
theorem roundDiv_bound (a : Int) (d : Nat) (hd : 0 < d) (ha : a.natAbs ≤ 32767 * 65536 * d) :
    -2147483648 ≤ roundDiv a d ∧ roundDiv a d ≤ 2147483647 := by
  unfold roundDiv
  simp only
  have h := Nat.div_add_mod (2 * a.natAbs + d) (2 * d)
  generalize (2 * a.natAbs + d) / (2 * d) = q at *
  generalize (2 * a.natAbs + d) % (2 * d) = r at *
  have hq : q ≤ 32767 * 65536 := by
    apply Nat.le_of_lt_succ
    apply Nat.lt_of_mul_lt_mul_left (a := 2 * d)
    have e1 : 2 * d * (32767 * 65536 + 1) = 2 * (32767 * 65536 * d) + 2 * d := by
      rw [Nat.mul_add, Nat.mul_one, Nat.mul_assoc 2 d, Nat.mul_comm d]
    rw [e1]
    omega
  split <;> omega

end SfntV.T2Enc
