/-
C02, group `metrics`: non-vacuity — concrete valid tables that the checked-index models of
`hmtx.Decode`, `head.Read`, `os2.Read`, `post.Read` decode to a value (with the cost counters), and
(through the bridging lemmas) so do the value-level models of C12.
-/
import SfntV.Proofs.TotalMetricsErase
import SfntV.Proofs.TotalMetricsPost

namespace SfntV.Total.Metrics
open SfntV SfntV.Total

/-- hhea 1.0: ascent 800, descent −200, line gap 90, slope 1/0, ONE long metric -/
def exHhea : Bytes :=
  [0,1,0,0, 3,32, 255,56, 0,90, 2,88, 0,10, 0,5, 2,78, 0,1, 0,0, 0,0, 0,0,0,0,0,0,0,0, 0,0, 0,1]
/-- hmtx: (600, 10) and a trailing bearing −10: two glyphs for one long metric -/
def exHmtx : Bytes := [2,88, 0,10, 255,246]

example : hmtxDecode exHhea (some exHmtx) =
    .ok (⟨800, -200, 90, 1, 0, 0, [600, 600], [10, -10]⟩, ⟨3, 5⟩) := by decide +kernel

example : hmtxDecode exHhea none = .ok (⟨800, -200, 90, 1, 0, 0, [], []⟩, ⟨1, 1⟩) := by
  decide +kernel

/-- hence the value-level model of C12 accepts it too -/
example : SfntV.Metrics.decode exHhea (some exHmtx) =
    .ok ⟨800, -200, 90, 1, 0, 0, [600, 600], [10, -10]⟩ := by
  rw [← hmtxDecode_erase, show hmtxDecode exHhea (some exHmtx) =
    .ok (⟨800, -200, 90, 1, 0, 0, [600, 600], [10, -10]⟩, ⟨3, 5⟩) by decide +kernel]
  rfl

/-- an odd tail is an error, not a panic -/
example : hmtxDecode exHhea (some (exHmtx ++ [1])) = .err "hmtx-short" := by decide +kernel

def exHead : Bytes :=
  [0,1,0,0, 0,1,128,0, 0,0,0,0, 0x5F,0x0F,0x3C,0xF5, 0,0x1b, 3,232,
   0,0,0,0,0xd0,0,0,0, 0,0,0,0,0,0,0,0, 255,156, 255,56, 3,32, 3,132, 0,3, 0,8, 0,2, 0,1, 0,0]

example : headRead exHead = .ok ({
    fontRevision := 98304, hasYBaseAt0 := true, hasXBaseAt0 := true, isNonlinear := true,
    unitsPerEm := 1000, created := ⟨1406816128, 0⟩, modified := ⟨-62135596800, 0⟩,
    bbox := ⟨-100, -200, 800, 900⟩, isBold := true, isItalic := true, hasShadow := false,
    isCondensed := false, isExtended := false, lowestRecPPEM := 8, locaFormat := 1 }, ⟨1, 1⟩) := by
  decide +kernel

/-- the 68-byte Apple form of OS/2 (version 0) -/
def exOs2v0 : Bytes :=
  [0,0] ++ List.replicate 6 0 ++ [0,8] ++ List.replicate 48 0 ++ [65,66,67,68, 0,0x21, 0,32, 255,255]

/-- cost, vendor, [unicodeRange…, codePageRange, lastCharIndex, isBold, isRegular],
[permUse, ascent, winDescent, xHeight, capHeight] -/
def os2View : Outcome (SfntV.Metrics.Os2 × Cost) → Option (Cost × Bytes × List Nat × List Int)
  | .ok (o, c) => some (c, o.vendor,
      o.unicodeRange ++ [o.codePageRange, o.lastCharIndex, SfntV.Metrics.b2n o.isBold,
        SfntV.Metrics.b2n o.isRegular],
      [o.permUse, o.ascent, o.winDescent, o.xHeight, o.capHeight])
  | _ => none

example : os2View (os2Read exOs2v0) =
    some (⟨2, 5⟩, [65,66,67,68], [0, 33554432, 0, 0, 0, 65535, 1, 0], [1, 0, 0, 0, 0]) := by
  decide +kernel

/-- a full version-4 OS/2 table (96 bytes) -/
def exOs2v4 : Bytes :=
  [0,4] ++ List.replicate 6 0 ++ [3,2] ++ List.replicate 48 1 ++ [65,66,67,68, 0,0x40, 0,32, 0,255] ++
  [3,32, 255,56, 0,90, 3,132, 0,200] ++ [0,0,0,1, 128,0,0,0] ++ [1,244, 2,188, 0,0, 0,32, 0,2]

example : os2View (os2Read exOs2v4) =
    some (⟨4, 5⟩, [65,66,67,68],
      [16843009, 16843009, 16843009, 16843009, 9223372036854775809, 255, 0, 1],
      [3, 800, 200, 500, 700]) := by
  decide +kernel

/-- one byte more than the Apple form is an error (`io.ErrUnexpectedEOF`), not the Apple form -/
example : os2Read (exOs2v0 ++ [0]) = .err "short" := by decide +kernel

/-- a two-entry stand-in for `macRoman` and a version 2.0 table: glyph 0 → standard name 1, glyph 1
→ string 1 (strings 0 and 1 are read: "x" and ""), glyph 2 → string 0; a third string is never read -/
def exTbl : List Bytes := [[46,110],[65]]
def exPost2 : Bytes :=
  [0,2,0,0, 255,244,0,0, 255,156, 0,50, 0,0,0,1] ++ List.replicate 16 0 ++
  [0,3, 0,1, 0,3, 0,2] ++ [1,120] ++ [0] ++ [2,121,122]

example : postRead exTbl exPost2 =
    .ok (⟨0x00020000, 4294180864, 65436, 50, true, some [[65], [], [120]]⟩, ⟨12, 10⟩) := by
  decide +kernel

example : postRead exTbl ((exPost2.take 32).set 1 3) =
    .ok (⟨0x00030000, 4294180864, 65436, 50, true, none⟩, ⟨1, 1⟩) := by decide +kernel

/-- a name index beyond the strings present is an error -/
example : postRead exTbl (exPost2.take 42) = .err "short" := by decide +kernel

end SfntV.Total.Metrics
