/-
One value-level `Info` (script list + feature list + lookup list, as `gtab.Info`) with
`Info.encode`, `Info.read`, a normal form `Info.nf`, and decode ∘ encode = nf, assembled from the
per-part theorems of C08 (header, script list, feature list, lookup-list layout).

The lookup list is generic in the subtable codec (`SubCodec`): what a subtable is, how it is written,
how it is read at a position, its normal form, and the law `dec (enc s ++ tail) = nf s` - which is
what the per-subtable round trips of C08 provide.  `Info.read` reads the lookup list with the
SPECIFICATION reader `LL.specRead` (the Go reader agrees with it on every byte string it accepts:
`C08_readlookuplist_sound`) and decodes every subtable with the codec at the position found.
-/
import SfntV.Proofs.OtlGtab
import SfntV.Proofs.OtlScriptList
import SfntV.Proofs.OtlFeatureList
import SfntV.Proofs.OtlLookupList
import SfntV.Proofs.OtlGsub
import SfntV.Proofs.OtlGdef

namespace SfntV.Otl.InfoA
open SfntV SfntV.Otl

/-- a subtable codec -/
structure SubCodec (σ : Type) where
  /-- 0: contextual (GSUB and GPOS), 1: GSUB-specific, 2: GPOS-specific (`findTypeLoop`) -/
  kind : σ → Nat
  enc : σ → Bytes
  /-- lookup type, bytes from the subtable position on -/
  dec : Nat → Bytes → Outcome σ
  nf : σ → σ
  ok : Nat → σ → Prop
  law : ∀ (tp : Nat) (s : σ) (tail : Bytes), ok tp s → dec tp (enc s ++ tail) = .ok (nf s)

structure VLookup (σ : Type) where
  type : Nat
  flags : Nat
  mfs : Nat
  subs : List σ

/-- `gtab.Info`: script list (one entry per (script, language system)), feature list, lookup list -/
structure Info (σ : Type) where
  scripts : List SL.Entry
  features : List FL.Feature
  lookups : List (VLookup σ)

variable {σ : Type} (C : SubCodec σ)

def toLL (l : VLookup σ) : LL.Lookup := ⟨l.type, l.flags, l.mfs, l.subs.map fun s => ⟨C.kind s, C.enc s⟩⟩

/-- `Info.Encode` -/
def Info.encode (I : Info σ) : Outcome Bytes :=
  match SL.encode I.scripts with
  | .ok S =>
    match FL.encode I.features with
    | .ok F =>
      match LL.encode (I.lookups.map (toLL C)) with
      | .ok L => Gtab.encode (some S) (some F) (some L)
      | .err e => .err e
      | .panic s => .panic s
    | .err e => .err e
    | .panic s => .panic s
  | .err e => .err e
  | .panic s => .panic s

def decSubs (tp : Nat) (bL : Bytes) : List Nat → Outcome (List σ)
  | [] => .ok []
  | p :: ps =>
    match C.dec tp (bL.drop p) with
    | .ok s =>
      match decSubs tp bL ps with
      | .ok r => .ok (s :: r)
      | o => o
    | .err e => .err e
    | .panic s => .panic s

def decLookups (bL : Bytes) : List LL.SpecLookup → Outcome (List (VLookup σ))
  | [] => .ok []
  | s :: ss =>
    match decSubs C s.type bL s.subPos with
    | .ok subs =>
      match decLookups bL ss with
      | .ok r => .ok (⟨s.type, s.flags, s.mfs.getD 0, subs⟩ :: r)
      | o => o
    | .err e => .err e
    | .panic s => .panic s

/-- `gtab.Read`: header, script list, feature list, lookup list (`extType` = 7 for GSUB, 9 for GPOS) -/
def Info.read (extType : Nat) (b : Bytes) : Outcome (Info σ) :=
  match Gtab.readHeader b with
  | .ok none => .ok ⟨[], [], []⟩
  | .ok (some (so, fo, lo)) =>
    match SL.readSized b.length (b.drop so) with
    | .ok sl =>
      match FL.read (b.drop fo) with
      | .ok fl =>
        match LL.specRead (b.drop lo) extType with
        | some sls =>
          match decLookups C (b.drop lo) sls with
          | .ok ls => .ok ⟨sl, fl, ls⟩
          | .err e => .err e
          | .panic s => .panic s
        | none => .err eInvalid
      | .err e => .err e
      | .panic s => .panic s
    | .err e => .err e
    | .panic s => .panic s
  | .err e => .err e
  | .panic s => .panic s

def nfLookup (l : VLookup σ) : VLookup σ :=
  ⟨l.type, l.flags, if LL.useMFS (toLL C l) then l.mfs else 0, l.subs.map C.nf⟩

/-- the normal form: script-list entries grouped by script tag in tag order (default language system
first, then the language systems in tag order), the mark filtering set only with its flag, every
subtable in the normal form of its codec -/
def Info.nf (I : Info σ) : Info σ :=
  ⟨(SL.plansOf I.scripts).flatMap SL.planEntries, I.features, I.lookups.map (nfLookup C)⟩

/-- the domain: the per-part domains and the size limit of the lookup-list theorem -/
structure InfoOk (extType : Nat) (I : Info σ) : Prop where
  scripts : SL.InputOk I.scripts
  features : FL.Dom I.features
  lookups : LL.LLDom (I.lookups.map (toLL C))
  extLt : extType < 65536
  types : ∀ l ∈ I.lookups, l.type ≠ extType
  extKind : LL.extLookupType (I.lookups.map (toLL C)) = 0 ∨ LL.extLookupType (I.lookups.map (toLL C)) = extType
  size : LL.totalSize (LL.chunksOf (I.lookups.map (toLL C))) +
    8 * ((I.lookups.map (toLL C)).map (·.subs.length)).sum < 4294967296
  subs : ∀ l ∈ I.lookups, ∀ s ∈ l.subs, C.ok l.type s

/-! ### decode ∘ encode = nf -/

theorem decSubs_spec (tp : Nat) (bL : Bytes) : ∀ (subs : List σ) (ps : List Nat),
    ps.length = subs.length →
    (∀ (j : Nat) (st : σ), subs[j]? = some st →
      ∃ p : Nat, ps[j]? = some p ∧ (bL.drop p).take (C.enc st).length = C.enc st) →
    (∀ s ∈ subs, C.ok tp s) → decSubs C tp bL ps = .ok (subs.map C.nf)
  | [], ps, hl, _, _ => by
    have : ps = [] := List.eq_nil_of_length_eq_zero (by simpa using hl)
    subst this
    rfl
  | st :: subs, ps, hl, H, hok => by
    cases ps with
    | nil => simp at hl
    | cons p ps =>
      obtain ⟨p', hp', htake⟩ := H 0 st rfl
      simp only [List.getElem?_cons_zero, Option.some.injEq] at hp'
      subst hp'
      have hsplit : bL.drop p = C.enc st ++ (bL.drop p).drop (C.enc st).length := by
        conv => lhs; rw [← List.take_append_drop (C.enc st).length (bL.drop p)]
        rw [htake]
      have ih := decSubs_spec tp bL subs ps (by simpa using hl)
        (fun j st' hj => by
          obtain ⟨q, hq, ht⟩ := H (j + 1) st' (by simpa using hj)
          exact ⟨q, by simpa using hq, ht⟩)
        (fun s hs => hok s (by simp [hs]))
      simp only [decSubs]
      rw [hsplit, C.law tp st _ (hok st (by simp)), ih]
      rfl

theorem decLookups_spec (extType : Nat) (bL : Bytes) : ∀ (ls : List (VLookup σ)) (sl : List LL.SpecLookup),
    sl.length = ls.length →
    (∀ (i : Nat) (l : LL.Lookup), (ls.map (toLL C))[i]? = some l → ∃ s : LL.SpecLookup, sl[i]? = some s ∧
      s.type = l.type ∧ s.flags = l.flags ∧
      s.mfs = (if LL.useMFS l then some l.mfs else none) ∧ s.subPos.length = l.subs.length ∧
      ∀ (j : Nat) (st : LL.Sub), l.subs[j]? = some st →
        ∃ p, s.subPos[j]? = some p ∧ (bL.drop p).take st.bytes.length = st.bytes) →
    (∀ l ∈ ls, ∀ s ∈ l.subs, C.ok l.type s) → decLookups C bL sl = .ok (ls.map (nfLookup C))
  | [], sl, hl, _, _ => by
    have : sl = [] := List.eq_nil_of_length_eq_zero (by simpa using hl)
    subst this
    rfl
  | l :: ls, sl, hl, H, hok => by
    cases sl with
    | nil => simp at hl
    | cons s sl =>
      obtain ⟨s', hs', h1, h2, h3, h4, h5⟩ := H 0 (toLL C l) rfl
      simp only [List.getElem?_cons_zero, Option.some.injEq] at hs'
      subst hs'
      have hsubs := decSubs_spec C s.type bL l.subs s.subPos (by simpa [toLL] using h4)
        (fun j st hj => by
          have := h5 j ⟨C.kind st, C.enc st⟩ (by simp [toLL, List.getElem?_map, hj])
          exact this)
        (by rw [h1]; exact hok l (by simp))
      have ih := decLookups_spec extType bL ls sl (by simpa using hl)
        (fun i l' hi => by
          obtain ⟨t, ht, r⟩ := H (i + 1) l' (by simpa using hi)
          exact ⟨t, by simpa using ht, r⟩)
        (fun l' hl' => hok l' (by simp [hl']))
      simp only [decLookups, hsubs, ih, List.map_cons, nfLookup]
      congr 2
      rw [h1, h2, h3]
      cases hm : LL.useMFS (toLL C l) <;> simp [toLL]

/-- the pieces of the round trip: header, script list, feature list, and the lookup list as the
specification reader finds it, decoded with the codec -/
theorem info_parts (extType : Nat) (I : Info σ) (hI : InfoOk C extType I) (b : Bytes)
    (hb : Info.encode C I = .ok b) :
    ∃ (fo lo : Nat) (sls : List LL.SpecLookup),
      Gtab.readHeader b = .ok (some (10, fo, lo)) ∧
      SL.readSized b.length (b.drop 10) = .ok ((SL.plansOf I.scripts).flatMap SL.planEntries) ∧
      FL.read (b.drop fo) = .ok I.features ∧
      LL.specRead (b.drop lo) extType = some sls ∧
      decLookups C (b.drop lo) sls = .ok (I.lookups.map (nfLookup C)) ∧
      sls.length = I.lookups.length ∧
      (sls.map (·.subPos.length)).sum = (I.lookups.map (·.subs.length)).sum := by
  unfold Info.encode at hb
  cases hS : SL.encode I.scripts with
  | err e => rw [hS] at hb; simp at hb
  | panic s => rw [hS] at hb; simp at hb
  | ok S =>
    rw [hS] at hb
    cases hF : FL.encode I.features with
    | err e => rw [hF] at hb; simp at hb
    | panic s => rw [hF] at hb; simp at hb
    | ok F =>
      rw [hF] at hb
      cases hL : LL.encode (I.lookups.map (toLL C)) with
      | err e => rw [hL] at hb; simp at hb
      | panic s => rw [hL] at hb; simp at hb
      | ok L =>
        rw [hL] at hb
        simp only at hb
        -- the three lists are not empty
        have hSne : S ≠ [] := by
          intro h0
          subst h0
          unfold SL.encode SL.encodePlans at hS
          split at hS
          · split at hS
            · simp only [Outcome.ok.injEq] at hS
              have := congrArg List.length hS
              simp [be16] at this
            · simp at hS
            · simp at hS
          · simp at hS
          · simp at hS
        have hFne : F ≠ [] := by
          intro h0
          subst h0
          unfold FL.encode at hF
          simp only at hF
          split at hF
          · simp at hF
          · split at hF
            · simp at hF
            · simp only [Outcome.ok.injEq] at hF
              have := congrArg List.length hF
              simp [be16] at this
        have hrec := LL.recovered_of_encode _ hI.lookups extType hI.extLt
          (by
            intro l hl
            rw [List.mem_map] at hl
            obtain ⟨v, hv, rfl⟩ := hl
            exact hI.types v hv)
          hI.extKind hI.size L hL
        have hLne : L ≠ [] := by
          intro h0
          subst h0
          obtain ⟨sl, h1, _⟩ := hrec
          simp [LL.specRead, LL.u16at] at h1
        obtain ⟨h1, h2, h3, h4⟩ := Gtab.header_roundtrip S F L hSne hFne hLne b hb
        -- script list
        have hsl : SL.readSized b.length (b.drop 10) = .ok ((SL.plansOf I.scripts).flatMap SL.planEntries) := by
          rw [h2, List.append_assoc]
          apply SL.roundtripPlans (SL.plansOf I.scripts) (by
            intro p hp
            unfold SL.plansOf at hp
            rw [List.mem_map] at hp
            obtain ⟨s, hs, rfl⟩ := hp
            exact SL.planOk_planOf I.scripts hI.scripts s hs) S hS (F ++ L) b.length
          have := congrArg List.length h2
          simp only [List.length_drop, List.length_append] at this ⊢
          omega
        -- feature list
        have hfl : FL.read (b.drop (10 + S.length)) = .ok I.features := by
          rw [h3]
          by_cases hfit : (FL.offsets I.features (2 + 6 * I.features.length)).getLastD 0 ≤ 0xFFFF
          · obtain ⟨F', hF', hr⟩ := FL.roundtrip I.features hI.features hfit L
            rw [hF] at hF'
            simp only [Outcome.ok.injEq] at hF'
            subst hF'
            exact hr
          · obtain ⟨s, hs⟩ := FL.refusal I.features (by omega)
            rw [hs] at hF
            simp at hF
        -- lookup list
        obtain ⟨sl, hspec, hlen, hall⟩ := hrec
        have hdec := decLookups_spec C extType L I.lookups sl (by simpa using hlen) hall hI.subs
        have hsum : (sl.map (·.subPos.length)).sum = (I.lookups.map (·.subs.length)).sum := by
          have hl' : sl.length = I.lookups.length := by simpa using hlen
          clear hdec hspec hlen
          revert sl
          generalize I.lookups = ls
          intro sl hall hl'
          induction ls generalizing sl with
          | nil =>
            have : sl = [] := List.eq_nil_of_length_eq_zero (by simpa using hl')
            subst this; rfl
          | cons l ls ih =>
            cases sl with
            | nil => simp at hl'
            | cons s sl =>
              obtain ⟨s', hs', _, _, _, h4', _⟩ := hall 0 (toLL C l) rfl
              simp only [List.getElem?_cons_zero, Option.some.injEq] at hs'
              subst hs'
              have ih' := ih sl (fun i l' hi => by
                obtain ⟨t, ht, r⟩ := hall (i + 1) l' (by simpa using hi)
                exact ⟨t, by simpa using ht, r⟩) (by simpa using hl')
              simp only [List.map_cons, List.sum_cons, ih', h4']
              simp [toLL]
        exact ⟨_, _, sl, h1, hsl, hfl, by rw [h4]; exact hspec, by rw [h4]; exact hdec, by simpa using hlen, hsum⟩

/-- **`Info` round trip**: whenever `Info.encode` returns bytes for an `Info` of the domain, `Info.read`
gives its normal form back -/
theorem info_roundtrip (extType : Nat) (I : Info σ) (hI : InfoOk C extType I) (b : Bytes)
    (hb : Info.encode C I = .ok b) : Info.read C extType b = .ok (Info.nf C I) := by
  obtain ⟨fo, lo, sls, h1, hsl, hfl, hspec, hdec, _, _⟩ := info_parts C extType I hI b hb
  unfold Info.read
  rw [h1]
  simp only [hsl, hfl, hspec, hdec, Info.nf]

/-! ### an instance: lookups of GSUB 1.1 subtables, read with the real dispatcher `Gsub.readSubtable` -/

def enc11 : Gsub.Sub → Bytes
  | .s11 gs d => wordsToBytes [1, 6, d] ++ wordsToBytes (Cov.encodeW gs)
  | _ => []

def Ok11 (tp : Nat) (s : Gsub.Sub) : Prop := ∃ gs d, s = .s11 gs d ∧ tp = 1 ∧ Cov.Valid gs ∧ d < 65536

theorem law11 (tp : Nat) (s : Gsub.Sub) (tail : Bytes) (h : Ok11 tp s) :
    Gsub.readSubtable tp (enc11 s ++ tail) = .ok s := by
  obtain ⟨gs, d, rfl, rfl, hv, hd⟩ := h
  have hlt : ∀ w ∈ [1, 6, d], w < 65536 := by
    intro w hw; simp at hw; rcases hw with rfl | rfl | rfl <;> omega
  have hw : bytesToWords (enc11 (.s11 gs d) ++ tail) = [1, 6, d] ++ (Cov.encodeW gs ++ bytesToWords tail) := by
    simp only [enc11, List.append_assoc]
    rw [bytesToWords_append _ hlt, bytesToWords_append _ (Cov.encodeW_lt gs hv)]
  have hdrop : (enc11 (.s11 gs d) ++ tail).drop 6 = wordsToBytes (Cov.encodeW gs) ++ tail := by
    simp only [enc11, List.append_assoc]
    exact drop_wordsToBytes_append [1, 6, d] _
  have hrs : Cov.readSet (wordsToBytes (Cov.encodeW gs) ++ tail) = .ok gs := by
    unfold Cov.readSet
    rw [bytesToWords_append _ (Cov.encodeW_lt gs hv)]
    have := Cov.readSetW_encodeW gs hv
    -- `ReadSet` on the emitted words, whatever follows them
    have happ : ∀ (t : List Nat), Cov.readSetW (Cov.encodeW gs ++ t) = .ok gs := by
      intro t
      have hb := Cov.total_bound gs hv
      unfold Cov.encodeW
      split
      · rename_i hf
        simp only [Cov.fmt1Len, Cov.fmt2Len] at hf
        rw [w16_of_lt (show gs.length < 65536 by omega)]
        simp only [List.cons_append, Cov.readSetW]
        exact Cov.readSet1_spec t gs
      · rename_i hf
        simp only [Cov.fmt1Len, Cov.fmt2Len, Nat.not_le] at hf
        have e : (4 + 6 * Cov.rangeCountFrom 65535 gs - 4) / 6 = Cov.rangeCountFrom 65535 gs := by omega
        simp only [Cov.fmt2Len, e]
        rw [w16_of_lt (show Cov.rangeCountFrom 65535 gs < 65536 by omega)]
        cases gs with
        | nil => simp [Cov.rangeCountFrom] at hf
        | cons g gs' =>
          have hg : g < 65536 := hv.small g (by simp)
          have hlen : (Cov.ranges (g :: gs')).length = Cov.rangeCountFrom 65535 (g :: gs') :=
            Cov.ranges_length _ hv.small
          have hd' := Cov.rangeCount_first g gs' hg
          simp only [List.length_cons] at hb hf
          simp only [List.cons_append, Cov.readSetW]
          rw [← hlen]
          simp only [Cov.ranges]
          rw [Cov.readSet2_rangesLoop t gs' g 0 g 1 (-1) (Nat.le_refl g) (by omega) hv.sorted
            (fun x hx => hv.small x (by simp [hx])) hg (by omega) (by omega)]
          have e4 : g + 1 - g = 1 := by omega
          simp [e4]
    exact happ _
  simp only [Gsub.readSubtable, hw, List.cons_append, List.nil_append, Gsub.read11, hdrop, hrs]
  simp

/-- GSUB 1.1 subtables behind the real GSUB dispatcher -/
def gsub11Codec : SubCodec Gsub.Sub where
  kind := fun _ => 1
  enc := enc11
  dec := Gsub.readSubtable
  nf := id
  ok := Ok11
  law := law11

/-- non-vacuity: a feature `liga` with lookup 0, one GSUB lookup with a single-substitution subtable
(glyphs 5, 6 ↦ +10) and a mark filtering set -/
def exInfo : Info Gsub.Sub :=
  ⟨[], [⟨[108, 105, 103, 97], [0]⟩], [⟨1, 16, 3, [.s11 [5, 6] 10]⟩]⟩

theorem exInfo_ok : InfoOk gsub11Codec 7 exInfo where
  scripts := ⟨by intro e he; simp [exInfo] at he, by simp [exInfo]⟩
  features := ⟨by decide⟩
  lookups := ⟨by decide⟩
  extLt := by decide
  types := by intro l hl; simp [exInfo] at hl; subst hl; decide
  extKind := Or.inr (by decide)
  size := by decide
  subs := by
    intro l hl s hs
    simp [exInfo] at hl
    subst hl
    simp at hs
    subst hs
    exact ⟨[5, 6], 10, rfl, rfl, ⟨by decide, by decide⟩, by decide⟩

theorem sl_nil : SL.encode [] = .ok [0, 0] := by
  simp [SL.encode, SL.plansOf, SL.scriptsOf, SL.dedup, SL.encodePlans, SL.scriptOffsets, SL.allTables, be16, w16]

/-- … and `Info.encode` returns bytes for it: the hypotheses of `info_roundtrip` are satisfiable -/
theorem exInfo_encodes : ∃ b, Info.encode gsub11Codec exInfo = .ok b := by
  unfold Info.encode
  have : exInfo.scripts = [] := rfl
  rw [this, sl_nil]
  have hF : FL.encode exInfo.features = .ok ([0, 1, 108, 105, 103, 97, 0, 8] ++ wordsToBytes [0, 1, 0]) := by decide
  rw [hF]
  have hL : LL.encode (exInfo.lookups.map (toLL gsub11Codec)) =
      .ok (wordsToBytes [1, 4, 1, 16, 1, 10, 3, 1, 6, 10, 1, 2, 5, 6]) := by decide
  rw [hL]
  exact ⟨_, rfl⟩

/-! ### GDEF as one value -/

/-- `gdef.Table`: glyph classes, mark attachment classes (`none` = nil map), mark glyph sets -/
structure GdefV where
  gc : Option ClassDef.Tab
  mac : Option ClassDef.Tab
  sets : Option (List (List Nat))

def GdefV.encode (g : GdefV) : Outcome Bytes :=
  Gdef.encode (g.gc.map Gdef.mkPart) (g.mac.map Gdef.mkPart) g.sets

structure GdefOk (g : GdefV) : Prop where
  gc : ∀ m, g.gc = some m → Gdef.ClassGood m
  mac : ∀ m, g.mac = some m → Gdef.ClassGood m
  sets : ∀ ss, g.sets = some ss → (∀ s ∈ ss, Cov.Valid s) ∧ ss.length < 65536 ∧
    4 + 4 * ss.length + (ss.map fun s => 2 * (Cov.encodeW s).length).sum < 4294967296

/-- what is read is the table written: nil comes back as nil, a class table as the same function glyph
→ class (the reader returns the non-zero entries: its normal form), the mark glyph sets exactly -/
def GdefV.Matches (g : GdefV) (r : Gdef.Read) : Prop :=
  Gdef.ClassMatch g.gc r.gc ∧ Gdef.ClassMatch g.mac r.mac ∧ r.sets = g.sets

/-- the normal form of a GDEF table: class tables as the reader returns them (`ClassDef.nfTab`: the
non-zero entries), mark glyph sets unchanged -/
def GdefV.nf (g : GdefV) : Gdef.Read := ⟨g.gc.map ClassDef.nfTab, g.mac.map ClassDef.nfTab, g.sets⟩

/-- **GDEF round trip as an equation** -/
theorem gdef_roundtrip_eq (g : GdefV) (hg : GdefOk g) (b : Bytes) (hb : g.encode = .ok b) :
    Gdef.read b = .ok g.nf ∧ g.Matches g.nf := by
  unfold GdefV.encode at hb
  cases hs : g.sets with
  | none =>
    rw [hs] at hb
    obtain ⟨r, h1, h2, h3, h4, h5, h6⟩ := Gdef.roundtrip_noSets g.gc g.mac hg.gc hg.mac b hb
    have : r = g.nf := by
      cases r with
      | mk a c d => simp only at h4 h5 h6; simp [GdefV.nf, h4, h5, h6, hs]
    subst this
    exact ⟨h1, h2, h3, by rw [h4, hs]⟩
  | some ss =>
    rw [hs] at hb
    obtain ⟨v1, v2, v3⟩ := hg.sets ss hs
    obtain ⟨r, h1, h2, h3, h4, h5, h6⟩ := Gdef.roundtrip_sets g.gc g.mac ss hg.gc hg.mac v1 v2 v3 b hb
    have : r = g.nf := by
      cases r with
      | mk a c d => simp only at h4 h5 h6; simp [GdefV.nf, h4, h5, h6, hs]
    subst this
    exact ⟨h1, h2, h3, by rw [h4, hs]⟩

theorem gdef_roundtrip_value (g : GdefV) (hg : GdefOk g) (b : Bytes) (hb : g.encode = .ok b) :
    ∃ r, Gdef.read b = .ok r ∧ g.Matches r :=
  ⟨g.nf, gdef_roundtrip_eq g hg b hb⟩

/-! ### decoders in the shape of the file-level model (C01: `LayoutDec`)

The file-level model carries a layout table as the token `tok b` of its bytes and asks of a decoder
`dec` the guard `b ≠ [] ∧ dec b = .ok (tok b)`.  `decTok` / `gdefTok` really decode (and fail where the
reader fails) and return the token; the guard holds for every table that `Info.encode` / `GdefV.encode`
wrote for a value of the domain. -/

def decTok {α : Type} (extType : Nat) (tok : Bytes → α) (b : Bytes) : Outcome α :=
  match Info.read C extType b with
  | .ok _ => .ok (tok b)
  | .err e => .err e
  | .panic s => .panic s

theorem decTok_encode {α : Type} (extType : Nat) (tok : Bytes → α) (I : Info σ) (hI : InfoOk C extType I)
    (b : Bytes) (hb : Info.encode C I = .ok b) : b ≠ [] ∧ decTok C extType tok b = .ok (tok b) := by
  have hr := info_roundtrip C extType I hI b hb
  refine ⟨?_, by simp only [decTok, hr]⟩
  intro h0
  subst h0
  simp [Info.read, Gtab.readHeader] at hr

def gdefTok {α : Type} (tok : Bytes → α) (b : Bytes) : Outcome α :=
  match Gdef.read b with
  | .ok _ => .ok (tok b)
  | .err e => .err e
  | .panic s => .panic s

theorem gdefTok_encode {α : Type} (tok : Bytes → α) (g : GdefV) (hg : GdefOk g) (b : Bytes)
    (hb : g.encode = .ok b) : b ≠ [] ∧ gdefTok tok b = .ok (tok b) := by
  obtain ⟨r, hr, _⟩ := gdef_roundtrip_value g hg b hb
  refine ⟨?_, by simp only [gdefTok, hr]⟩
  intro h0
  subst h0
  have : bytesToWords ([] : Bytes) = [] := rfl
  simp [Gdef.read, this] at hr

end SfntV.Otl.InfoA
