import SfntV.Proofs.DslCtxBase
/-! C19, contextual lookups (GSUB 5, GPOS 7): the subtable loop and the three formats. -/
set_option linter.unusedSimpArgs false
set_option linter.unusedVariables false
namespace SfntV.Dsl

/-- what `ctxLoop` does with a subtable once the class definitions are read: dispatch on the next item -/
def ctxBranch (f : Font) (fuel : Nat) (st : ClsSt) (next : Tok) : PM (Subtable × ClsSt) :=
  if next.typ == tSlash then do
    let _ ← required tSlash
    let firstGlyphs ← readGlyphList f fuel
    let _ ← required tSlash
    let rules ← pairsLoop (ctx2Rule fuel st.1) fuel (List.replicate (st.1.length + 1) [])
    pure (Subtable.ctx2 (sortUnique firstGlyphs) (sortByGlyph st.2) rules, (([], []) : ClsSt))
  else if next.typ == tSquareBracketOpen then do
    let input ← setsThen f fuel tArrow fuel []
    let actions ← nestedLoop fuel []
    pure (Subtable.ctx3 input actions, st)
  else do
    let res ← pairsLoop (ctx1Rule f fuel) fuel []
    pure (Subtable.ctx1 (byGlyph res), st)

/-- the end of a subtable: `||` and the next one, or the end of the lookup -/
def ctxCont (f : Font) (fuel n : Nat) (acc : List Subtable) (r : Subtable × ClsSt) : PM (List Subtable) := do
  if !(← optional [tOr]) then pure (acc ++ [r.1])
  else do
    let _ ← optional [tEOL]
    ctxLoop f fuel n r.2 (acc ++ [r.1])

theorem ctxLoop_succ (f : Font) (fuel n : Nat) (st : ClsSt) (acc : List Subtable) :
    ctxLoop f fuel (n + 1) st acc =
      (optionalKeyword kwClass >>= fun b =>
        if b = true then
          (parseClassDef f fuel >>= fun d =>
            addClass "duplicate class" "overlapping classes" st d.1 d.2 >>= fun st' =>
              optional [tEOL] >>= fun _ => ctxLoop f fuel n st' acc)
        else
          (peek >>= fun next => ctxBranch f fuel st next >>= fun r => ctxCont f fuel n acc r)) := rfl

theorem or_tokOk' (nx : Option Nat) : TokOk tOr (ascii [124, 124]) nx := or_tokOk nx

/-- a subtable without (further) class definitions at the head of the loop -/
theorem ctx_unit (f : Font) (fuel n : Nat) (st : ClsSt) (acc : List Subtable) (typ0 : Nat) (val0 : List RB)
    (rest0 TAIL : List Piece) (sub : Subtable) (y : List Subtable) (P : Tok → Prop) (N : Option Nat → Prop)
    (hkw : ∀ line, kwNoOf kwClass (mkToks line (.tok typ0 val0 :: rest0)))
    (hbr : ∀ line, Frag (ctxBranch f fuel st { typ := typ0, val := val0, line := line }) (.tok typ0 val0 :: rest0)
      (sub, ([], [])) SubStop Safe)
    (hcont : Frag (ctxCont f fuel n acc (sub, ([], []))) TAIL y P N)
    (hN : ∀ nx, N nx → Safe (nextRune TAIL nx))
    (hP : ∀ line t, P t → SubStop ((mkToks line TAIL).head?.getD t)) :
    Frag (ctxLoop f fuel (n + 1) st acc) (.tok typ0 val0 :: (rest0 ++ TAIL)) y P N := by
  rw [ctxLoop_succ]
  refine frag_optKeyword_no_then kwClass _ _ _ _ _ (fun line => by
    rw [← List.cons_append, mkToks_append]; exact kwNoOf_append _ _ _ (hkw line)) ?_
  simp only [Bool.false_eq_true, if_false]
  refine frag_peek_then _ _ _ _ _ _ _ (fun line => ?_)
  rw [← List.cons_append]
  exact frag_bind (hbr line) hcont hN hP

theorem ctx_cont_end (f : Font) (fuel n : Nat) (acc : List Subtable) (r : Subtable × ClsSt) :
    Frag (ctxCont f fuel n acc r) [] (acc ++ [r.1]) (fun t => [tOr].contains t.typ = false) anyNext := by
  unfold ctxCont
  refine frag_bind0 (frag_optional_no [tOr]) ?_ (fun _ _ => trivial) (fun line t ht => by simpa [mkToks] using ht)
  simp only [Bool.not_false, if_true]
  exact frag_pure _ _

theorem ctx_cont_more (f : Font) (fuel n : Nat) (acc : List Subtable) (r : Subtable × ClsSt) (X : List Piece)
    (y : List Subtable) (P : Tok → Prop) (N : Option Nat → Prop)
    (h : Frag (ctxLoop f fuel n r.2 (acc ++ [r.1])) X y P N) :
    Frag (ctxCont f fuel n acc r) (orSep ++ X) y P N := by
  unfold ctxCont
  simp only [orSep, sp, tab, eolP, tk, List.cons_append, List.nil_append]
  apply frag_ws [a1 32] ws_sp
  have hy := frag_optional_yes [tOr] tOr (ascii [124, 124]) anyNext (by decide)
    (fun nx _ => or_tokOk nx) (tk_canon tOr _ (by decide))
  refine frag_bind1 hy ?_ (fun _ _ => trivial) (fun _ _ _ => trivial)
  simp only [Bool.not_true, Bool.false_eq_true, if_false]
  have hy2 := (frag_optional_yes [tEOL] tEOL (ascii [10]) anyNext (by decide)
    (fun nx _ => eol_tokOk nx) (tk_canon tEOL _ (by decide))).toU
  refine frag_then1 hy2 ?_ (fun _ _ => trivial) (fun _ _ _ => trivial)
  exact frag_ws [a1 9] ws_tab h

theorem frag_pureRun {α : Type} (m : PM α) (a : α) (h : ∀ s, m s = .ok (a, s)) (P : Tok → Prop) :
    Frag m [] a P anyNext :=
  ⟨fun _ _ => trivial, by simp [render], fun line s t rest hs _ => ⟨s, h s, by simpa [mkToks] using hs⟩⟩

theorem class_lower : ∀ c ∈ kwClass, inR 97 122 c = true := by decide

theorem kw_tokOk32 (kw : List Nat) (hne : kw ≠ []) (hs : ∀ c ∈ kw, inR 97 122 c = true) :
    TokOk tIdentifier (ascii kw) (some 32) ∧ ∀ rb ∈ ascii kw, Canon rb := by
  have := frag_readIdentifier kw hne hs
  refine ⟨?_, by simpa [render, tk, Piece.rbs] using this.canon⟩
  have h := this.chain (some 32) (fun r hr => by cases hr; exact (safe_space 32 rfl).1)
  exact h.1

/-- class definitions at the head of the loop -/
theorem ctx_defs (f : Font) (hf : FontOk f) (fuel : Nat) : ∀ (more pre : List (List Nat)) (n : Nat) (acc : List Subtable)
    (X : List Piece) (y : List Subtable) (P : Tok → Prop) (N : Option Nat → Prop),
    (∀ gg ∈ more, SetOk f gg ∧ gg ≠ [] ∧ tokCount ((newExplainer f).writeGlyphList gg) < fuel) →
    (pre ++ more).flatten.Nodup → (pre ++ more).length + 1 < 65536 →
    Frag (ctxLoop f fuel n (clsFrom 1 (pre ++ more).length, assign 1 (pre ++ more)) acc) X y P N →
    Frag (ctxLoop f fuel (n + more.length) (clsFrom 1 pre.length, assign 1 pre) acc)
      (classDefsP kwClass (newExplainer f).writeGlyphSet more (pre.length + 1) ++ X) y P N := by
  intro more
  induction more with
  | nil =>
    intro pre n acc X y P N _ _ _ h
    simpa [classDefsP] using h
  | cons gg more ih =>
    intro pre n acc X y P N hall hnd hlen h
    obtain ⟨hset, hne, hfu⟩ := hall gg (by simp)
    have hih := ih (pre ++ [gg]) n acc X y P N (fun x hx => hall x (by simp [hx]))
      (by simpa [List.append_assoc] using hnd) (by simpa [List.append_assoc] using hlen)
      (by simpa [List.append_assoc] using h)
    have hn : n + (gg :: more).length = (n + more.length) + 1 := by simp; omega
    rw [hn, ctxLoop_succ]
    obtain ⟨hk1, hk2⟩ := kw_tokOk32 kwClass (by decide) class_lower
    simp only [classDefsP, sp, tab, eolP, tk, List.cons_append, List.nil_append, List.append_assoc]
    refine frag_bind1 (frag_optKeyword_yes kwClass (fun nx => nx = some 32) (fun nx h => by rw [h]; exact hk1) hk2) ?_
      (fun nx _ => by simp [nextRune, render, Piece.rbs, a1]) (fun line t _ => by simp [mkToks])
    simp only [if_true]
    apply frag_ws [a1 32] ws_sp
    have hfresh : ∀ g ∈ gg, g ∉ pre.flatten := by
      intro g hg hin
      simp only [List.flatten_append, List.flatten_cons] at hnd
      have := (List.nodup_append.mp hnd).2.2 g hin g (by simp [hg])
      exact this rfl
    have hdef := frag_classDef f hf (pre.length + 1) gg hset hne fuel hfu
    simp only [List.cons_append, List.nil_append] at hdef
    have hadd : Frag (addClass "duplicate class" "overlapping classes" (clsFrom 1 pre.length, assign 1 pre)
        (99 :: decimal (pre.length + 1)) gg) [] (clsFrom 1 (pre.length + 1), assign 1 (pre ++ [gg])) anyTok anyNext :=
      frag_pureRun _ _ (addClass_ok _ _ pre gg (by simp at hlen; omega) hfresh) _
    have hy2 := (frag_optional_yes [tEOL] tEOL (ascii [10]) anyNext (by decide)
      (fun nx _ => eol_tokOk nx) (tk_canon tEOL _ (by decide))).toU
    have htail : Frag (optional [tEOL] >>= fun _ => ctxLoop f fuel (n + more.length)
          (clsFrom 1 (pre.length + 1), assign 1 (pre ++ [gg])) acc)
        (.tok tEOL (ascii [10]) :: .ws [a1 9] ::
          (classDefsP kwClass (newExplainer f).writeGlyphSet more (pre.length + 1 + 1) ++ X)) y P N := by
      refine frag_then1 hy2 (frag_ws [a1 9] ws_tab ?_) (fun _ _ => trivial) (fun _ _ _ => trivial)
      simpa using hih
    have h2 := frag_bind0 hadd htail (fun _ _ => trivial) (fun _ _ _ => trivial)
      (f := fun st' => optional [tEOL] >>= fun _ => ctxLoop f fuel (n + more.length) st' acc)
    have h3 := frag_bind hdef h2 (fun _ _ => trivial) (fun _ _ _ => trivial)
      (f := fun d => addClass "duplicate class" "overlapping classes" (clsFrom 1 pre.length, assign 1 pre) d.1 d.2 >>= fun st' =>
        optional [tEOL] >>= fun _ => ctxLoop f fuel (n + more.length) st' acc)
    simpa [List.append_assoc] using h3

/-! ### the items of a glyph list -/

def GlyphTyp (typ : Nat) : Prop := typ = tIdentifier ∨ typ = tInteger ∨ typ = tString

theorem glyphTyp_notColon (typ : Nat) (h : GlyphTyp typ) : (typ == tColon) = false := by
  rcases h with h | h | h <;> subst h <;> decide

theorem mem_intersperse' {α : Type} (s : α) : ∀ (l : List α) (x : α), x ∈ l.intersperse s → x = s ∨ x ∈ l := by
  intro l
  induction l with
  | nil => intro x h; simp at h
  | cons a l ih =>
    intro x h
    cases l with
    | nil => simp at h; exact Or.inr (by simp [h])
    | cons b l' =>
      simp only [List.intersperse_cons_cons, List.mem_cons] at h
      rcases h with rfl | rfl | h
      · exact Or.inr (by simp)
      · exact Or.inl rfl
      · rcases ih x (by simpa using h) with h' | h'
        · exact Or.inl h'
        · exact Or.inr (by simp at h' ⊢; exact Or.inr h')

theorem wgl_tok_types (e : Explainer) (gl : List Nat) :
    ∀ p ∈ e.writeGlyphList gl, ∀ typ val, p = .tok typ val → GlyphTyp typ := by
  unfold Explainer.writeGlyphList
  match gl with
  | [] => intro p hp; simp at hp
  | [g] =>
    intro p hp typ val he
    simp at hp
    obtain ⟨t', v', hw, hty⟩ := writeGlyph_typ e g
    rw [hp, hw] at he
    injection he with h1 _
    rw [← h1]; exact hty
  | g :: g' :: more =>
    intro p hp typ val he
    simp only [] at hp
    split at hp
    · simp at hp
      rw [hp] at he
      simp only [strP] at he
      injection he with h1 _
      exact Or.inr (Or.inr h1.symm)
    · rcases mem_intersperse' sp _ p hp with h | h
      · rw [h] at he; simp [sp] at he
      · simp only [List.mem_map] at h
        obtain ⟨x, _, rfl⟩ := h
        obtain ⟨t', v', hw, hty⟩ := nameP_typ e x
        rw [hw] at he
        injection he with h1 _
        rw [← h1]; exact hty

theorem mkToks_all (Q : Nat → Prop) : ∀ (ps : List Piece) (line : Nat),
    (∀ p ∈ ps, ∀ typ val, p = .tok typ val → Q typ) → ∀ t ∈ mkToks line ps, Q t.typ := by
  intro ps
  induction ps with
  | nil => intro line _ t ht; simp [mkToks] at ht
  | cons p ps ih =>
    intro line h t ht
    cases p with
    | ws w => exact ih line (fun q hq => h q (by simp [hq])) t (by simpa [mkToks] using ht)
    | tok typ val =>
      simp only [mkToks, List.mem_cons] at ht
      rcases ht with rfl | ht
      · exact h _ (by simp) typ val rfl
      · exact ih _ (fun q hq => h q (by simp [hq])) t ht

/-- a non-empty glyph list followed by an item that is not `:` is never a class definition -/
theorem kwNoOf_glyphs (kw : List Nat) (e : Explainer) (gl : List Nat) (hne : gl ≠ []) (X : List Piece) (line : Nat)
    (hX : ∀ line', ∃ a, (mkToks line' X).head? = some a ∧ (a.typ == tColon) = false) :
    kwNoOf kw (mkToks line (e.writeGlyphList gl ++ X)) := by
  rw [mkToks_append]
  obtain ⟨a, ha1, ha2⟩ := hX (endLine line (e.writeGlyphList gl))
  refine kwNoOf_run kw _ _ a ?_ ?_ ha1 ha2
  · obtain ⟨typ, val, ps, hw, _⟩ := writeGlyphList_head e gl hne
    rw [hw]; simp [mkToks]
  · intro t ht
    exact glyphTyp_notColon _ (mkToks_all GlyphTyp _ line (wgl_tok_types e gl) t ht)

/-! ### format 3 -/

structure Ctx3Ok (f : Font) (input : List (List Nat)) (acts : List Action) : Prop where
  ne : input ≠ []
  sets : ∀ s ∈ input, SetOk f s
  acts : ∀ a ∈ acts, ActOk a

theorem arrow_tokOk' (nx : Option Nat) : TokOk tArrow (ascii [45, 62]) nx := arrow_tokOk nx

theorem substop_notInt (t : Tok) (h : SubStop t) : isInt t = false := by
  rcases h with h | h | h <;> simp [isInt, h, tOr, tEOL, tEOF, tInteger]

theorem safe_notDigit (nx : Option Nat) (h : Safe nx) : notDigit nx := fun r hr => (h r hr).2

theorem ctx3_branch (f : Font) (hf : FontOk f) (fuel : Nat) (st : ClsSt) (s0 : List Nat) (rest : List (List Nat))
    (acts : List Action) (h : Ctx3Ok f (s0 :: rest) acts)
    (hfuel : tokCount ((newExplainer f).subtable false (.ctx3 (s0 :: rest) acts)) < fuel) (line : Nat) :
    ∃ R, (newExplainer f).subtable false (.ctx3 (s0 :: rest) acts) = .tok tSquareBracketOpen (ascii [91]) :: R ∧
      Frag (ctxBranch f fuel st { typ := tSquareBracketOpen, val := ascii [91], line := line })
        (.tok tSquareBracketOpen (ascii [91]) :: R) (.ctx3 (s0 :: rest) acts, st) SubStop Safe := by
  have hpieces : (newExplainer f).subtable false (.ctx3 (s0 :: rest) acts) =
      ((newExplainer f).writeGlyphSet s0 ++ (rest.flatMap (fun s => [sp] ++ (newExplainer f).writeGlyphSet s) ++
        [sp, .tok tArrow (ascii [45, 62])])) ++ (.ws [a1 32] :: (nestedP acts ++ [])) := by
    simp [Explainer.subtable, spaceJoin, List.flatMap_map, arrow, sp, tk]
  have hcount : ∀ s ∈ s0 :: rest, tokCount ((newExplainer f).writeGlyphList s) < fuel := by
    intro s hs
    rw [hpieces] at hfuel
    simp only [List.mem_cons] at hs
    simp only [tokCount_append, Explainer.writeGlyphSet, tokCount, tk] at hfuel
    rcases hs with rfl | hs
    · omega
    · have := tokCount_flatMap_mem (fun s => [sp] ++ (newExplainer f).writeGlyphSet s) rest s hs
      simp only [tokCount_append, Explainer.writeGlyphSet, tokCount, tk] at this
      omega
  have hlen : rest.length < fuel ∧ acts.length < fuel := by
    rw [hpieces] at hfuel
    have h1 := length_le_tokCount_flatMap (fun s => [sp] ++ (newExplainer f).writeGlyphSet s) rest (by
      intro x _; simp [tokCount_append, Explainer.writeGlyphSet, tokCount, tk, sp])
    have h2 : acts.length ≤ tokCount (nestedP acts) := by
      cases acts with
      | nil => simp
      | cons a more =>
        have := length_le_tokCount_flatMap (fun b => [sp] ++ actP b) more (by
          intro x _; simp [tokCount_append, actP, tokCount, tk, sp])
        have h1 : 1 ≤ tokCount (actP a) := by simp [actP, tokCount, tk]
        simp only [nestedP, tokCount_append, List.length_cons]
        omega
    simp only [tokCount_append, tokCount] at hfuel
    omega
  have heq : (newExplainer f).subtable false (.ctx3 (s0 :: rest) acts) = .tok tSquareBracketOpen (ascii [91]) ::
      (((newExplainer f).writeGlyphList s0 ++ [.tok tSquareBracketClose (ascii [93])]) ++
        ((rest.flatMap (fun s => [sp] ++ (newExplainer f).writeGlyphSet s) ++ [sp, .tok tArrow (ascii [45, 62])]) ++
          (.ws [a1 32] :: (nestedP acts ++ [])))) := by
    rw [hpieces]; simp [Explainer.writeGlyphSet, tk]
  refine ⟨_, heq, ?_⟩
  have hsets := frag_setsThen f hf fuel tArrow [45, 62] anyNext (fun nx _ => arrow_tokOk nx) (by decide) (by decide) rest s0 fuel [] hlen.1
    (fun s hs => ⟨h.sets s hs, hcount s hs⟩)
  have hnest := frag_nested acts fuel hlen.2 h.acts
  have : Frag (ctxBranch f fuel st { typ := tSquareBracketOpen, val := ascii [91], line := line })
      ((newExplainer f).subtable false (.ctx3 (s0 :: rest) acts)) (.ctx3 (s0 :: rest) acts, st) SubStop Safe := by
    rw [hpieces]
    unfold ctxBranch
    have e1 : (tSquareBracketOpen == tSlash) = false := by decide
    simp only [e1, Bool.false_eq_true, if_false, beq_self_eq_true, if_true]
    refine frag_bind hsets ?_ (fun _ _ => trivial) (fun _ _ _ => trivial)
    apply frag_ws [a1 32] ws_sp
    refine frag_bind hnest ?_ (fun nx h => by simpa [nextRune, render] using safe_notDigit nx h)
      (fun line t ht => by simpa [mkToks] using substop_notInt t ht)
    simp only [List.nil_append]
    exact frag_weaken (frag_pure _ SubStop) (fun _ h => h) (fun _ _ => trivial)
  rw [heq] at this
  exact this

/-! ### format 1 -/

theorem nested_len (acts : List Action) : acts.length ≤ tokCount (nestedP acts) := by
  cases acts with
  | nil => simp
  | cons a more =>
    have := length_le_tokCount_flatMap (fun b => [sp] ++ actP b) more (by
      intro x _; simp [tokCount_append, actP, tokCount, tk, sp])
    have h1 : 1 ≤ tokCount (actP a) := by simp [actP, tokCount, tk]
    simp only [nestedP, tokCount_append, List.length_cons]
    omega

/-- rules grouped by an ascending key, folded rule by rule into the parser's map, give the groups back -/
theorem fold_groups {β : Type} (ps : List (Nat × List β)) :
    ∀ (m : List (Nat × List β)), Asc ((m ++ ps).map (·.1)) → (∀ p ∈ ps, p.2 ≠ []) →
    (ps.flatMap fun p => p.2.map fun r => (p.1, r)).foldl (fun acc x => appendAt acc x.1 x.2) m = m ++ ps := by
  induction ps with
  | nil => intro m _ _; simp
  | cons p ps ih =>
    intro m hasc hne
    obtain ⟨g, rs⟩ := p
    have hl := hne (g, rs) (by simp)
    simp only at hl
    cases rs with
    | nil => exact absurd rfl hl
    | cons r rs =>
      simp only [List.flatMap_cons, List.map_cons, List.foldl_append, List.foldl_cons]
      have hfresh : aget m g = none := aget_none_of_asc m ps (g, r :: rs) hasc
      rw [appendAt_fresh g m hfresh]
      have h1 : (rs.map fun r => (g, r)).foldl (fun acc (x : Nat × β) => appendAt acc x.1 x.2) (m ++ [(g, [r])]) =
          m ++ [(g, [r] ++ rs)] := by
        rw [List.foldl_map]
        exact appendAt_group g m hfresh rs [r]
      rw [h1]
      have := ih (m ++ [(g, r :: rs)]) (by simpa [List.append_assoc] using hasc) (fun q hq => hne q (by simp [hq]))
      simpa [List.append_assoc] using this

theorem byGlyph_asc {β : Type} (ps : List (Nat × List β)) (h : Asc (ps.map (·.1))) : byGlyph ps = ps := by
  unfold byGlyph keysAsc
  rw [sortUnique_asc _ h, List.map_map]
  have hnd : (ps.map (·.1)).Nodup := h.imp (fun h => Nat.ne_of_lt h)
  have : ∀ p ∈ ps, ((fun g => (g, (aget ps g).getD [])) ∘ fun x => x.1) p = p := by
    intro p hp
    simp only [Function.comp_apply]
    rw [aget_of_mem_nodup ps p.1 p.2 hp hnd]
    rfl
  rw [List.map_congr_left this]
  simp

structure Ctx1Ok (f : Font) (rules : List (Nat × List SeqRule)) : Prop where
  ne : rules ≠ []
  asc : Asc (rules.map (·.1))
  ok : ∀ p ∈ rules, p.1 < f.numGlyphs ∧ p.2 ≠ [] ∧
    ∀ r ∈ p.2, (∀ g ∈ r.input, g < f.numGlyphs) ∧ ∀ a ∈ r.actions, ActOk a

theorem typ_glyph_cases (typ : Nat) (h : typ = tIdentifier ∨ typ = tInteger ∨ typ = tString) :
    (typ == tSlash) = false ∧ (typ == tSquareBracketOpen) = false ∧ (typ == tBar) = false ∧ typ ≠ tEOL := by
  rcases h with h | h | h <;> subst h <;> decide

theorem ctx1_branch (f : Font) (hf : FontOk f) (fuel : Nat) (st : ClsSt)
    (rules : List (Nat × List SeqRule)) (h : Ctx1Ok f rules)
    (hfuel : tokCount ((newExplainer f).subtable false (.ctx1 rules)) + 2 < fuel) :
    ∃ typ0 val0 R, (newExplainer f).subtable false (.ctx1 rules) = .ws [a1 32] :: .tok typ0 val0 :: R ∧
      (GlyphTyp typ0 ∧ ∀ line, kwNoOf kwClass (mkToks line (.tok typ0 val0 :: R))) ∧ ∀ line,
      Frag (ctxBranch f fuel st { typ := typ0, val := val0, line := line })
        (.tok typ0 val0 :: R) (.ctx1 rules, st) SubStop Safe := by
  obtain ⟨hne, hasc, hok⟩ := h
  let pc : Nat × SeqRule → List Piece := fun i =>
    (newExplainer f).writeGlyphList (i.1 :: i.2.input) ++ arrow ++ nestedP i.2.actions
  let upd : List (Nat × List SeqRule) → Nat × SeqRule → List (Nat × List SeqRule) := fun acc x => appendAt acc x.1 x.2
  have hflatOk : ∀ i ∈ rules.flatMap (fun p => p.2.map fun r => (p.1, r)),
      (∀ g ∈ i.1 :: i.2.input, g < f.numGlyphs) ∧ ∀ a ∈ i.2.actions, ActOk a := by
    intro i hi
    simp only [List.mem_flatMap, List.mem_map] at hi
    obtain ⟨p, hp, r, hr, rfl⟩ := hi
    obtain ⟨h1, _, h3⟩ := hok p hp
    refine ⟨?_, (h3 r hr).2⟩
    intro g hg
    simp only [List.mem_cons] at hg
    rcases hg with rfl | hg
    · exact h1
    · exact (h3 r hr).1 g hg
  have hpieces0 : (newExplainer f).subtable false (.ctx1 rules) =
      entries ((rules.flatMap fun p => p.2.map fun r => (p.1, r)).map pc) := by
    simp [Explainer.subtable, List.map_flatMap, List.map_map, Function.comp_def, pc]
  cases hmm : rules.flatMap (fun p => p.2.map fun r => (p.1, r)) with
  | nil =>
    exfalso
    cases rules with
    | nil => exact hne rfl
    | cons p ps =>
      have := (hok p (by simp)).2.1
      cases hp2 : p.2 with
      | nil => exact this hp2
      | cons r rs => simp [hp2] at hmm
  | cons m0 rest =>
    rw [hmm] at hflatOk hpieces0
    obtain ⟨typ0, val0, ps0, hw0, hty0⟩ := writeGlyphList_head (newExplainer f) (m0.1 :: m0.2.input) (by simp)
    have hpieces : (newExplainer f).subtable false (.ctx1 rules) =
        .ws [a1 32] :: (pc m0 ++ rest.flatMap (fun y => [commaP, sp] ++ pc y)) := by
      rw [hpieces0]; simp [entries, sp, List.flatMap_map]
    have hpc0 : pc m0 ++ rest.flatMap (fun y => [commaP, sp] ++ pc y) =
        .tok typ0 val0 :: (ps0 ++ (arrow ++ nestedP m0.2.actions) ++ rest.flatMap (fun y => [commaP, sp] ++ pc y)) := by
      simp [pc, hw0]
    refine ⟨typ0, val0, _, by rw [hpieces, hpc0], ⟨hty0, fun line => ?_⟩, fun line => ?_⟩
    · rw [← hpc0]
      have hk0 := kwNoOf_glyphs kwClass (newExplainer f) (m0.1 :: m0.2.input) (by simp)
        ((arrow ++ nestedP m0.2.actions) ++ rest.flatMap (fun y => [commaP, sp] ++ pc y)) line
        (fun line' => ⟨{ typ := tArrow, val := ascii [45, 62], line := line' }, by simp [mkToks, arrow, sp, tk], by simp [tArrow, tColon]⟩)
      simpa [pc, List.append_assoc] using hk0
    rw [← hpc0]
    rw [hpieces] at hfuel
    have hfuel' : tokCount (pc m0 ++ rest.flatMap (fun y => [commaP, sp] ++ pc y)) + 2 < fuel := by
      simpa [tokCount] using hfuel
    have hpc_le : ∀ p ∈ m0 :: rest, tokCount (pc p) + 2 < fuel := by
      intro p hp
      simp only [List.mem_cons] at hp
      rw [tokCount_append] at hfuel'
      rcases hp with rfl | hp
      · omega
      · have := tokCount_flatMap_mem (fun y => [commaP, sp] ++ pc y) rest p hp
        simp only [tokCount_append] at this
        omega
    have hlenr : rest.length < fuel := by
      have := length_le_tokCount_flatMap (fun y => [commaP, sp] ++ pc y) rest (by
        intro x _; simp [tokCount_append, commaP, tk, tokCount])
      rw [tokCount_append] at hfuel'
      omega
    obtain ⟨e1, e2, _, _⟩ := typ_glyph_cases typ0 hty0
    unfold ctxBranch
    simp only [e1, e2, Bool.false_eq_true, if_false]
    have hres : (m0 :: rest).foldl upd [] = rules := by
      rw [← hmm]
      have := fold_groups rules [] (by simpa using hasc) (fun p hp => (hok p hp).2.1)
      simpa [upd] using this
    have hp : pc m0 ++ rest.flatMap (fun y => [commaP, sp] ++ pc y) =
        (pc m0 ++ rest.flatMap (fun y => [commaP, sp] ++ pc y)) ++ [] := by simp
    rw [hp]
    refine frag_bind (frag_pairsLoop (ctx1Rule f fuel) pc upd
      SubStop (fun t => isInt t = false) Safe notDigit
      (fun t ht => ⟨by rcases ht with h | h | h <;> simp [h, tOr, tEOL, tEOF, tComma], substop_notInt t ht⟩)
      (fun t ht => by simp [isInt, ht, tComma, tInteger]) safe_notDigit (fun r hr => by cases hr; decide)
      rest [] m0 fuel hlenr (fun i hi line => ?_) ?_) ?_ (fun nx h => by simpa [nextRune, render] using h)
        (fun line t ht => by simpa [mkToks] using ht)
    · obtain ⟨typ, val, ps, hw, hty⟩ := writeGlyphList_head (newExplainer f) (i.1 :: i.2.input) (by simp)
      refine ⟨{ typ := typ, val := val, line := line }, by simp [pc, hw, mkToks], ?_⟩
      rcases hty with h | h | h <;> simp [h, tIdentifier, tInteger, tString, tEOL]
    · intro pre i post e
      have hi : i ∈ m0 :: rest := by rw [e]; simp
      obtain ⟨hi1, hi2⟩ := hflatOk i hi
      have hfi := hpc_le i hi
      simp only [pc, tokCount_append, arrow, sp, tk, tokCount] at hfi
      have hg := frag_glyphList f hf (i.1 :: i.2.input) hi1 fuel (by omega)
      have hnl := nested_len i.2.actions
      have hn := frag_nested i.2.actions fuel (by omega) hi2
      have hpcs : pc i = (newExplainer f).writeGlyphList (i.1 :: i.2.input) ++ (arrow ++ (nestedP i.2.actions ++ [])) := by
        simp [pc]
      rw [hpcs]
      unfold ctx1Rule
      refine frag_bind hg ?_ (fun nx _ => by
          have : nextRune (arrow ++ (nestedP i.2.actions ++ [])) nx = some 32 := by
            simp [nextRune, render, arrow, sp, Piece.rbs, a1]
          rw [this]; exact safe_space)
        (fun line t _ => by apply arrow_noGlyph; simp [mkToks, arrow, sp, tk])
      apply frag_arrow_then
      refine frag_bind hn ?_ (fun nx h => by simpa [nextRune, render] using h)
        (fun line t ht => by simpa [mkToks] using ht)
      simp only [List.isEmpty_cons, Bool.false_eq_true, if_false, List.headD_cons, List.drop_succ_cons, List.drop_zero]
      have : (pre ++ [i]).foldl upd [] = appendAt (pre.foldl upd []) i.1 ⟨i.2.input, i.2.actions⟩ := by
        simp [List.foldl_append, upd]
      rw [this]
      exact frag_weaken (frag_pure _ _) (fun _ h => h) (fun _ _ => trivial)
    · rw [hres, byGlyph_asc rules hasc]
      exact frag_weaken (frag_pure _ SubStop) (fun _ h => h) (fun _ _ => trivial)

/-! ### format 2 -/

theorem frag_unws {α : Type} {m : PM α} {w : List RB} {ps : List Piece} {r : α} {P : Tok → Prop}
    {N : Option Nat → Prop} (h : Frag m (.ws w :: ps) r P N) : Frag m ps r P N :=
  ⟨fun nx hn => (h.chain nx hn).2, fun rb hrb => h.canon rb (by rw [render_cons]; exact List.mem_append_right _ hrb),
    fun line => by simpa [mkToks] using h.runs line⟩

theorem appendIdx_at {β : Type} (pre : List (List β)) (x : List β) (post : List (List β)) (v : β) :
    appendIdx (pre ++ x :: post) pre.length v = pre ++ (x ++ [v]) :: post := by
  induction pre with
  | nil => rfl
  | cons p pre ih => simp [appendIdx, ih]

theorem fold_flat {β : Type} (flat : List (List β) → Nat → List (Nat × β))
    (hnil : ∀ c, flat [] c = []) (hcons : ∀ rs more c, flat (rs :: more) c = rs.map (fun r => (c, r)) ++ flat more (c + 1)) :
    ∀ (rules pre : List (List β)),
      (flat rules pre.length).foldl (fun acc (x : Nat × β) => appendIdx acc x.1 x.2)
        (pre ++ List.replicate rules.length []) = pre ++ rules := by
  intro rules
  induction rules with
  | nil => intro pre; simp [hnil]
  | cons rs more ih =>
    intro pre
    rw [hcons, List.foldl_append]
    have h1 : ∀ (done rest : List β), (rest.map fun r => (pre.length, r)).foldl
        (fun acc (x : Nat × β) => appendIdx acc x.1 x.2) (pre ++ done :: List.replicate more.length []) =
        pre ++ (done ++ rest) :: List.replicate more.length [] := by
      intro done rest
      induction rest generalizing done with
      | nil => simp
      | cons r rest ih2 =>
        simp only [List.map_cons, List.foldl_cons]
        rw [appendIdx_at, ih2]
        simp
    have := h1 [] rs
    simp only [List.length_cons, List.replicate_succ, List.nil_append] at this ⊢
    rw [this]
    have h2 := ih (pre ++ [rs])
    simp only [List.length_append, List.length_singleton, List.append_assoc, List.singleton_append] at h2
    exact h2

structure Ctx2Ok (f : Font) (cov : List Nat) (classes : List (Nat × Nat)) (rules : List (List SeqRule)) : Prop where
  covAsc : Asc cov
  covIn : ∀ g ∈ cov, g < f.numGlyphs
  cls : ClassOk f classes
  len : rules.length = (classGlyphs classes).length + 1
  small : (classGlyphs classes).length + 2 < 65536
  ne : flatRules rules 0 ≠ []
  ok : ∀ rs ∈ rules, ∀ r ∈ rs, (∀ c ∈ r.input, c ≤ (classGlyphs classes).length) ∧ ∀ a ∈ r.actions, ActOk a

/-- the rule part of a format 2 subtable: `/coverage/ rules` -/
def ctx2Tail (f : Font) (cov : List Nat) (rules : List (List SeqRule)) : List Piece :=
  [tk tSlash [47]] ++ (newExplainer f).writeGlyphList cov ++ [tk tSlash [47]] ++
    commaJoin ((flatRules rules 0).map fun x => clsListP (x.1 :: x.2.input) ++ arrow ++ nestedP x.2.actions)

theorem mem_flatRules (rules : List (List SeqRule)) : ∀ (c : Nat) (x : Nat × SeqRule), x ∈ flatRules rules c →
    (∃ rs ∈ rules, x.2 ∈ rs) ∧ c ≤ x.1 ∧ x.1 < c + rules.length := by
  induction rules with
  | nil => intro c x hx; simp [flatRules] at hx
  | cons rs more ih =>
    intro c x hx
    simp only [flatRules, List.mem_append, List.mem_map] at hx
    rcases hx with ⟨r, hr, rfl⟩ | hx
    · exact ⟨⟨rs, by simp, hr⟩, Nat.le_refl _, by simp⟩
    · obtain ⟨⟨rs', h1, h2⟩, h3, h4⟩ := ih (c + 1) x hx
      exact ⟨⟨rs', by simp [h1], h2⟩, by omega, by simp at h4 ⊢; omega⟩

theorem ctx2_branch (f : Font) (hf : FontOk f) (fuel : Nat) (cov : List Nat) (classes : List (Nat × Nat))
    (rules : List (List SeqRule)) (h : Ctx2Ok f cov classes rules)
    (hfuel : tokCount (ctx2Tail f cov rules) + 2 < fuel) (line : Nat) :
    ∃ R, ctx2Tail f cov rules = .tok tSlash (ascii [47]) :: R ∧
      Frag (ctxBranch f fuel (clsFrom 1 (classGlyphs classes).length, assign 1 (classGlyphs classes))
          { typ := tSlash, val := ascii [47], line := line })
        (.tok tSlash (ascii [47]) :: R) (.ctx2 cov classes rules, ([], [])) SubStop Safe := by
  obtain ⟨hca, hci, hcls, hlen, hsmall, hne, hok⟩ := h
  let k := (classGlyphs classes).length
  let pc : Nat × SeqRule → List Piece := fun x =>
    classRefP x.1 ++ clsListP x.2.input ++ arrow ++ nestedP x.2.actions
  let upd : List (List SeqRule) → Nat × SeqRule → List (List SeqRule) := fun acc x => appendIdx acc x.1 x.2
  have hflatOk : ∀ x ∈ flatRules rules 0, x.1 ≤ k ∧ (∀ c ∈ x.2.input, c ≤ k) ∧ ∀ a ∈ x.2.actions, ActOk a := by
    intro x hx
    obtain ⟨⟨rs, hrs, hr⟩, _, h3⟩ := mem_flatRules rules 0 x hx
    refine ⟨by rw [hlen] at h3; omega, hok rs hrs x.2 hr⟩
  cases hmm : flatRules rules 0 with
  | nil => exact absurd hmm hne
  | cons m0 rest =>
    rw [hmm] at hflatOk
    have hjoin : commaJoin ((m0 :: rest).map fun x => clsListP (x.1 :: x.2.input) ++ arrow ++ nestedP x.2.actions) =
        .ws [a1 32] :: (pc m0 ++ rest.flatMap (fun y => [commaP, sp] ++ pc y)) := by
      simp [commaJoin, clsListP, List.flatMap_map, sp, pc]
    have heq : ctx2Tail f cov rules = .tok tSlash (ascii [47]) :: ((newExplainer f).writeGlyphList cov ++
        (.tok tSlash (ascii [47]) :: .ws [a1 32] :: ((pc m0 ++ rest.flatMap (fun y => [commaP, sp] ++ pc y)) ++ []))) := by
      unfold ctx2Tail
      rw [hmm, hjoin]
      simp [tk]
    refine ⟨_, heq, ?_⟩
    rw [heq] at hfuel
    simp only [tokCount, tokCount_append, List.append_nil] at hfuel
    have hpc_le : ∀ p ∈ m0 :: rest, tokCount (pc p) + 2 < fuel := by
      intro p hp
      simp only [List.mem_cons] at hp
      rcases hp with rfl | hp
      · omega
      · have := tokCount_flatMap_mem (fun y => [commaP, sp] ++ pc y) rest p hp
        simp only [tokCount_append] at this
        omega
    have hlenr : rest.length < fuel := by
      have := length_le_tokCount_flatMap (fun y => [commaP, sp] ++ pc y) rest (by
        intro x _; simp [tokCount_append, commaP, tk, tokCount])
      omega
    unfold ctxBranch
    simp only [beq_self_eq_true, if_true]
    have hsl : FragU (required tSlash) [.tok tSlash (ascii [47])] anyTok anyNext :=
      fragU_required tSlash _ anyNext (fun nx _ => slash_tokOk nx) (tk_canon tSlash _ (by decide))
    refine frag_then1 hsl ?_ (fun _ _ => trivial) (fun _ _ _ => trivial)
    refine frag_bind (frag_glyphList f hf cov hci fuel (by omega)) ?_ (fun nx _ => by
        simpa [nextRune, render, ascii, Piece.rbs, a1] using safe_slash)
      (fun line t _ => by simp [mkToks, glyphItem, tSlash, tIdentifier, tString, tInteger, tHyphen])
    refine frag_then1 hsl ?_ (fun _ _ => trivial) (fun _ _ _ => trivial)
    apply frag_ws [a1 32] ws_sp
    have hres : (m0 :: rest).foldl upd (List.replicate ((clsFrom 1 k).length + 1) []) = rules := by
      rw [← hmm, clsFrom_length]
      have := fold_flat flatRules (fun c => rfl) (fun rs more c => rfl) rules []
      simp only [List.length_nil, List.nil_append] at this
      rw [hlen] at this
      exact this
    refine frag_bind (frag_pairsLoop (ctx2Rule fuel (clsFrom 1 k)) pc upd
      SubStop (fun t => isInt t = false) Safe notDigit
      (fun t ht => ⟨by rcases ht with h | h | h <;> simp [h, tOr, tEOL, tEOF, tComma], substop_notInt t ht⟩)
      (fun t ht => by simp [isInt, ht, tComma, tInteger]) safe_notDigit (fun r hr => by cases hr; decide)
      rest _ m0 fuel hlenr (fun i hi line => ?_) ?_) ?_ (fun nx h => by simpa [nextRune, render] using h)
        (fun line t ht => by simpa [mkToks] using ht)
    · refine ⟨{ typ := tColon, val := ascii [58], line := line }, ?_, by simp [tColon, tEOL]⟩
      simp only [pc, classRefP]
      split <;> simp [mkToks, tk]
    · intro pre i post e
      have hi : i ∈ m0 :: rest := by rw [e]; simp
      obtain ⟨hi0, hi1, hi2⟩ := hflatOk i hi
      have hfi := hpc_le i hi
      have hnl := nested_len i.2.actions
      have hcl : (i.1 :: i.2.input).length ≤ tokCount (classRefP i.1 ++ clsListP i.2.input) := by
        have h1 : 1 ≤ tokCount (classRefP i.1) := by unfold classRefP; split <;> simp [tokCount, tk]
        have h2 := length_le_tokCount_flatMap (fun c => [sp] ++ classRefP c) i.2.input (by
          intro c _; unfold classRefP; split <;> simp [tokCount_append, tokCount, tk, sp])
        simp only [tokCount_append, List.length_cons, clsListP]
        omega
      simp only [pc, tokCount_append, arrow, sp, tk, tokCount] at hfi
      simp only [tokCount_append] at hcl
      have hnames0 := frag_classNames (i.1 :: i.2.input) fuel [] (by simp at hcl ⊢; omega)
      have hn := frag_nested i.2.actions fuel (by omega) hi2
      have hpcs : pc i = (classRefP i.1 ++ clsListP i.2.input) ++ (arrow ++ (nestedP i.2.actions ++ [])) := by
        simp [pc]
      rw [hpcs]
      unfold ctx2Rule
      have hcp : clsListP (i.1 :: i.2.input) = .ws [a1 32] :: (classRefP i.1 ++ clsListP i.2.input) := by
        simp [clsListP, sp]
      rw [hcp] at hnames0
      have hnames := frag_unws hnames0
      simp only [List.nil_append] at hnames
      refine frag_bind hnames ?_ (fun _ _ => trivial)
        (fun line t _ => by simp [mkToks, arrow, sp, tk, tArrow, tColon])
      apply frag_arrow_then
      refine frag_bind hn ?_ (fun nx h => by simpa [nextRune, render] using h)
        (fun line t ht => by simpa [mkToks] using ht)
      simp only [List.nil_append, List.map_cons, List.isEmpty_cons, Bool.false_eq_true, if_false]
      have hr := frag_resolve k (by omega) (i.1 :: i.2.input) (by
        intro c hc; simp only [List.mem_cons] at hc
        rcases hc with rfl | hc
        · exact hi0
        · exact hi1 c hc) (fun t => isInt t = false)
      simp only [List.map_cons] at hr
      refine frag_bind0 hr ?_ (fun _ _ => trivial) (fun _ _ h => h)
      simp only [List.headD_cons, List.drop_succ_cons, List.drop_zero]
      have : (pre ++ [i]).foldl upd (List.replicate ((clsFrom 1 k).length + 1) []) =
          appendIdx (pre.foldl upd (List.replicate ((clsFrom 1 k).length + 1) [])) i.1 ⟨i.2.input, i.2.actions⟩ := by
        simp [List.foldl_append, upd]
      rw [this]
      exact frag_weaken (frag_pure _ _) (fun _ h => h) (fun _ _ => trivial)
    · rw [hres, sortUnique_asc cov hca]
      obtain ⟨_, hfacts2, hfacts3⟩ := classGlyphs_facts f classes hcls
      rw [sortByGlyph_perm _ classes hcls.asc hfacts3 (by rw [assign_fst]; exact hfacts2)]
      exact frag_weaken (frag_pure _ SubStop) (fun _ h => h) (fun _ _ => trivial)

/-! ### the subtables of a contextual lookup -/

def CtxSub (f : Font) (st : Subtable) : Prop :=
  (∃ rules, st = .ctx1 rules ∧ Ctx1Ok f rules) ∨
  (∃ cov classes rules, st = .ctx2 cov classes rules ∧ Ctx2Ok f cov classes rules) ∨
  (∃ input acts, st = .ctx3 input acts ∧ Ctx3Ok f input acts)

/-- loop iterations a subtable takes: one, and one per class definition -/
def ctxSize : List Subtable → Nat
  | [] => 0
  | .ctx2 _ classes _ :: more => (classGlyphs classes).length + 1 + ctxSize more
  | _ :: more => 1 + ctxSize more

def subP (f : Font) (st : Subtable) : List Piece := (newExplainer f).subtable false st

theorem classDefs_count (kw : List Nat) (f : Font) : ∀ (gl : List (List Nat)) (i : Nat), ∀ gg ∈ gl,
    tokCount ((newExplainer f).writeGlyphList gg) ≤ tokCount (classDefsP kw (newExplainer f).writeGlyphSet gl i) := by
  intro gl
  induction gl with
  | nil => intro i gg h; cases h
  | cons g0 more ih =>
    intro i gg hgg
    simp only [List.mem_cons] at hgg
    simp only [classDefsP, tokCount_append, Explainer.writeGlyphSet]
    rcases hgg with rfl | hgg
    · omega
    · have := ih (i + 1) gg hgg; omega

theorem classGlyphs_sets (f : Font) (c : List (Nat × Nat)) (h : ClassOk f c) :
    (∀ gg ∈ classGlyphs c, SetOk f gg ∧ gg ≠ []) ∧ (classGlyphs c).flatten.Nodup := by
  obtain ⟨h1, h2, _⟩ := classGlyphs_facts f c h
  refine ⟨fun gg hgg => ⟨⟨?_, (h1 gg hgg).2⟩, (h1 gg hgg).1⟩, h2⟩
  rw [classGlyphs_eq] at hgg
  simp only [List.mem_map, List.mem_range] at hgg
  obtain ⟨i, _, rfl⟩ := hgg
  exact sortUnique_isAsc _

theorem lookStop_sub (t : Tok) (h : LookStop t) : SubStop t := Or.inr h

theorem ctx_tail_facts (f : Font) (more : List Subtable) :
    (∀ nx, Safe nx → Safe (nextRune (more.flatMap fun st => orSep ++ subP f st) nx)) ∧
    (∀ line t, LookStop t → SubStop ((mkToks line (more.flatMap fun st => orSep ++ subP f st)).head?.getD t)) := by
  cases more with
  | nil => exact ⟨fun nx h => by simpa [nextRune, render] using h, fun line t h => by simpa [mkToks] using lookStop_sub t h⟩
  | cons s1 ms =>
    refine ⟨fun nx _ => ?_, fun line t _ => ?_⟩
    · have : nextRune ((s1 :: ms).flatMap fun st => orSep ++ subP f st) nx = some 32 := by
        simp [nextRune, render, orSep, sp, Piece.rbs, a1]
      rw [this]; exact safe_space
    · simp [mkToks, orSep, sp, tk, SubStop]

theorem frag_ctxLoop (f : Font) (hf : FontOk f) (fuel : Nat) :
    ∀ (more : List Subtable) (st0 : Subtable) (j : Nat) (acc : List Subtable),
      (∀ st ∈ st0 :: more, CtxSub f st ∧ tokCount (subP f st) + 2 < fuel) →
      Frag (ctxLoop f fuel (ctxSize (st0 :: more) + j) ([], []) acc)
        (subP f st0 ++ more.flatMap (fun st => orSep ++ subP f st)) (acc ++ st0 :: more) LookStop Safe := by
  intro more
  induction more with
  | nil =>
    intro st0 j acc hall
    obtain ⟨hsub, hfu⟩ := hall st0 (by simp)
    have hcont : ∀ r : Subtable × ClsSt, Frag (ctxCont f fuel j acc r) [] (acc ++ [r.1]) LookStop Safe := fun r =>
      frag_weaken (ctx_cont_end f fuel j acc r)
        (fun t ht => by rcases ht with h | h <;> simp [h, tOr, tEOL, tEOF]) (fun _ _ => trivial)
    obtain ⟨hN, hP⟩ := ctx_tail_facts f []
    simp only [List.flatMap_nil, List.append_nil] at hN hP ⊢
    rcases hsub with ⟨rules, rfl, hok⟩ | ⟨cov, classes, rules, rfl, hok⟩ | ⟨input, acts, rfl, hok⟩
    · obtain ⟨typ0, val0, R, heq, hnk, hbr⟩ := ctx1_branch f hf fuel ([], []) rules hok hfu
      unfold subP at hfu ⊢
      rw [heq]
      apply frag_ws [a1 32] ws_sp
      have := ctx_unit f fuel j ([], []) acc typ0 val0 R [] (.ctx1 rules) _ LookStop Safe
        hnk.2 hbr (hcont _) hN hP
      simpa [ctxSize, Nat.add_comm] using this
    · have hsubeq : subP f (.ctx2 cov classes rules) = .ws [a1 32] ::
          (classDefsP kwClass (newExplainer f).writeGlyphSet (classGlyphs classes) (([] : List (List Nat)).length + 1) ++
            (ctx2Tail f cov rules ++ [])) := by
        simp [subP, Explainer.subtable, Explainer.defineClasses, ctx2Tail, sp]
      rw [hsubeq] at hfu ⊢
      simp only [tokCount, tokCount_append, List.append_nil] at hfu
      apply frag_ws [a1 32] ws_sp
      obtain ⟨hsets, hnd⟩ := classGlyphs_sets f classes hok.cls
      obtain ⟨R, heq, hbr⟩ := ctx2_branch f hf fuel cov classes rules hok (by omega) 0
      have hsz : ctxSize [.ctx2 cov classes rules] + j = (j + 1) + (classGlyphs classes).length := by
        simp [ctxSize]; omega
      rw [hsz]
      refine ctx_defs f hf fuel (classGlyphs classes) [] (j + 1) acc _ _ LookStop Safe
        (fun gg hgg => ⟨(hsets gg hgg).1, (hsets gg hgg).2, by
          have := classDefs_count kwClass f (classGlyphs classes) 1 gg hgg
          simp only [List.length_nil, Nat.zero_add] at hfu
          omega⟩)
        (by simpa using hnd) (by simp; have := hok.small; omega) ?_
      simp only [List.nil_append]
      rw [heq]
      have hbr' : ∀ line, Frag (ctxBranch f fuel (clsFrom 1 (classGlyphs classes).length, assign 1 (classGlyphs classes))
          { typ := tSlash, val := ascii [47], line := line }) (.tok tSlash (ascii [47]) :: R)
          (.ctx2 cov classes rules, ([], [])) SubStop Safe := by
        intro line
        obtain ⟨R', heq', hbr'⟩ := ctx2_branch f hf fuel cov classes rules hok (by omega) line
        have : R' = R := by rw [heq] at heq'; injection heq' with _ h; exact h.symm
        rw [← this]; exact hbr'
      exact ctx_unit f fuel j _ acc tSlash (ascii [47]) R [] (.ctx2 cov classes rules) _ LookStop Safe
        (fun line => kwNoOf_head _ _ { typ := tSlash, val := ascii [47], line := line } (by simp [mkToks])
          (by simp [isIdent, tSlash, tIdentifier])) hbr' (hcont _) hN hP
    · cases input with
      | nil => exact absurd rfl hok.ne
      | cons s0 rest =>
        obtain ⟨R, heq, _⟩ := ctx3_branch f hf fuel ([], []) s0 rest acts hok (by unfold subP at hfu; omega) 0
        have hbr' : ∀ line, Frag (ctxBranch f fuel ([], []) { typ := tSquareBracketOpen, val := ascii [91], line := line })
            (.tok tSquareBracketOpen (ascii [91]) :: R) (.ctx3 (s0 :: rest) acts, ([], [])) SubStop Safe := by
          intro line
          obtain ⟨R', heq', hbr'⟩ := ctx3_branch f hf fuel ([], []) s0 rest acts hok (by unfold subP at hfu; omega) line
          have : R' = R := by rw [heq] at heq'; injection heq' with _ h; exact h.symm
          rw [← this]; exact hbr'
        unfold subP
        rw [heq]
        have := ctx_unit f fuel j ([], []) acc tSquareBracketOpen (ascii [91]) R [] (.ctx3 (s0 :: rest) acts) _ LookStop Safe
          (fun line => kwNoOf_head _ _ { typ := tSquareBracketOpen, val := ascii [91], line := line } (by simp [mkToks])
            (by simp [isIdent, tSquareBracketOpen, tIdentifier])) hbr' (hcont _) hN hP
        simpa [ctxSize, Nat.add_comm] using this
  | cons s1 ms ih =>
    intro st0 j acc hall
    obtain ⟨hsub, hfu⟩ := hall st0 (by simp)
    have hih := fun (sub : Subtable) => ih s1 j (acc ++ [sub]) (fun st hst => hall st (by simp at hst ⊢; exact Or.inr hst))
    have hcont : ∀ sub : Subtable, Frag (ctxCont f fuel (ctxSize (s1 :: ms) + j) acc (sub, ([], [])))
        ((s1 :: ms).flatMap fun st => orSep ++ subP f st) (acc ++ sub :: s1 :: ms) LookStop Safe := by
      intro sub
      have := ctx_cont_more f fuel (ctxSize (s1 :: ms) + j) acc (sub, ([], [])) _ _ LookStop Safe (hih sub)
      simpa [List.append_assoc] using this
    obtain ⟨hN, hP⟩ := ctx_tail_facts f (s1 :: ms)
    rcases hsub with ⟨rules, rfl, hok⟩ | ⟨cov, classes, rules, rfl, hok⟩ | ⟨input, acts, rfl, hok⟩
    · obtain ⟨typ0, val0, R, heq, hnk, hbr⟩ := ctx1_branch f hf fuel ([], []) rules hok hfu
      unfold subP at hfu
      have hsp : subP f (.ctx1 rules) = .ws [a1 32] :: .tok typ0 val0 :: R := heq
      rw [hsp]
      simp only [List.cons_append]
      apply frag_ws [a1 32] ws_sp
      have := ctx_unit f fuel (ctxSize (s1 :: ms) + j) ([], []) acc typ0 val0 R _ (.ctx1 rules) _ LookStop Safe
        hnk.2 hbr (hcont _) hN hP
      have hsz : ctxSize (.ctx1 rules :: s1 :: ms) + j = ctxSize (s1 :: ms) + j + 1 := by
        simp only [ctxSize]; omega
      rw [hsz]; exact this
    · have hsubeq : subP f (.ctx2 cov classes rules) = .ws [a1 32] ::
          (classDefsP kwClass (newExplainer f).writeGlyphSet (classGlyphs classes) (([] : List (List Nat)).length + 1) ++
            (ctx2Tail f cov rules ++ [])) := by
        simp [subP, Explainer.subtable, Explainer.defineClasses, ctx2Tail, sp]
      rw [hsubeq] at hfu ⊢
      simp only [tokCount, tokCount_append, List.append_nil] at hfu
      simp only [List.cons_append, List.append_assoc, List.nil_append]
      apply frag_ws [a1 32] ws_sp
      obtain ⟨hsets, hnd⟩ := classGlyphs_sets f classes hok.cls
      obtain ⟨R, heq, hbr⟩ := ctx2_branch f hf fuel cov classes rules hok (by omega) 0
      have hsz : ctxSize (.ctx2 cov classes rules :: s1 :: ms) + j =
          (ctxSize (s1 :: ms) + j + 1) + (classGlyphs classes).length := by
        simp only [ctxSize]; omega
      rw [hsz]
      refine ctx_defs f hf fuel (classGlyphs classes) [] (ctxSize (s1 :: ms) + j + 1) acc _ _ LookStop Safe
        (fun gg hgg => ⟨(hsets gg hgg).1, (hsets gg hgg).2, by
          have := classDefs_count kwClass f (classGlyphs classes) 1 gg hgg
          simp only [List.length_nil, Nat.zero_add] at hfu
          omega⟩)
        (by simpa using hnd) (by simp; have := hok.small; omega) ?_
      simp only [List.nil_append]
      rw [heq]
      have hbr' : ∀ line, Frag (ctxBranch f fuel (clsFrom 1 (classGlyphs classes).length, assign 1 (classGlyphs classes))
          { typ := tSlash, val := ascii [47], line := line }) (.tok tSlash (ascii [47]) :: R)
          (.ctx2 cov classes rules, ([], [])) SubStop Safe := by
        intro line
        obtain ⟨R', heq', hbr'⟩ := ctx2_branch f hf fuel cov classes rules hok (by omega) line
        have : R' = R := by rw [heq] at heq'; injection heq' with _ h; exact h.symm
        rw [← this]; exact hbr'
      exact ctx_unit f fuel _ _ acc tSlash (ascii [47]) R _ (.ctx2 cov classes rules) _ LookStop Safe
        (fun line => kwNoOf_head _ _ { typ := tSlash, val := ascii [47], line := line } (by simp [mkToks])
          (by simp [isIdent, tSlash, tIdentifier])) hbr' (hcont _) hN hP
    · cases input with
      | nil => exact absurd rfl hok.ne
      | cons s0 rest =>
        obtain ⟨R, heq, _⟩ := ctx3_branch f hf fuel ([], []) s0 rest acts hok (by unfold subP at hfu; omega) 0
        have hbr' : ∀ line, Frag (ctxBranch f fuel ([], []) { typ := tSquareBracketOpen, val := ascii [91], line := line })
            (.tok tSquareBracketOpen (ascii [91]) :: R) (.ctx3 (s0 :: rest) acts, ([], [])) SubStop Safe := by
          intro line
          obtain ⟨R', heq', hbr'⟩ := ctx3_branch f hf fuel ([], []) s0 rest acts hok (by unfold subP at hfu; omega) line
          have : R' = R := by rw [heq] at heq'; injection heq' with _ h; exact h.symm
          rw [← this]; exact hbr'
        have hsp : subP f (.ctx3 (s0 :: rest) acts) = .tok tSquareBracketOpen (ascii [91]) :: R := heq
        rw [hsp]
        simp only [List.cons_append]
        have := ctx_unit f fuel (ctxSize (s1 :: ms) + j) ([], []) acc tSquareBracketOpen (ascii [91]) R _
          (.ctx3 (s0 :: rest) acts) _ LookStop Safe
          (fun line => kwNoOf_head _ _ { typ := tSquareBracketOpen, val := ascii [91], line := line } (by simp [mkToks])
            (by simp [isIdent, tSquareBracketOpen, tIdentifier])) hbr' (hcont _) hN hP
        have hsz : ctxSize (.ctx3 (s0 :: rest) acts :: s1 :: ms) + j = ctxSize (s1 :: ms) + j + 1 := by
          simp only [ctxSize]; omega
        rw [hsz]; exact this

end SfntV.Dsl
