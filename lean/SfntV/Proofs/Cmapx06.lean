/-
Lemmas for C09 (formats 0 and 6).
-/
import SfntV.Model.Cmap06

namespace SfntV.Cmap06
open SfntV SfntV.Cmap12

theorem u16At_drop (b : Bytes) (k o : Nat) : u16At (b.drop k) o = u16At b (k + o) := by
  unfold u16At
  rw [List.drop_drop]

theorem u16At_take (b : Bytes) (n o : Nat) (h : o + 2 ≤ n) : u16At (b.take n) o = u16At b o := by
  unfold u16At
  rw [List.drop_take]
  obtain ⟨k, hk⟩ : ∃ k, n - o = k + 2 := ⟨n - o - 2, by omega⟩
  rw [hk]
  cases b.drop o with
  | nil => rfl
  | cons x xs =>
    cases xs with
    | nil => rfl
    | cons y ys => rfl

/-- the writes of the format 6 loop, read as a Go map -/
theorem lastWrite_loop6 (arr : Bytes) (first c : Nat) : ∀ n i, first + i + n ≤ 65536 →
    lastWrite (loop6 id arr first i n) c =
      if first + i ≤ c ∧ c < first + i + n then u16At arr (2 * (c - first)) else 0 := by
  intro n
  induction n with
  | zero =>
    intro i _
    have : ¬ (first + i ≤ c ∧ c < first + i + 0) := by omega
    rw [if_neg this]; rfl
  | succ n ih =>
    intro i hb
    have ihh := ih (i + 1) (by omega)
    simp only [loop6, id]
    have hkey : (i + first) % 65536 = i + first := Nat.mod_eq_of_lt (by omega)
    by_cases hg : u16At arr (2 * i) ≠ 0
    · rw [if_pos hg]
      simp only [lastWrite]
      rw [ihh, hkey]
      by_cases h1 : first + (i + 1) ≤ c ∧ c < first + (i + 1) + n
      · have h2 : first + i ≤ c ∧ c < first + i + (n + 1) := by omega
        rw [if_pos h1, if_pos h2]
        by_cases h3 : u16At arr (2 * (c - first)) ≠ 0
        · rw [if_pos h3]
        · rw [if_neg h3, if_neg (by omega)]
          omega
      · rw [if_neg h1]
        simp only [ne_eq, not_true_eq_false, if_false]
        by_cases h4 : i + first = c
        · have h2 : first + i ≤ c ∧ c < first + i + (n + 1) := by omega
          rw [if_pos h4, if_pos h2]
          have : c - first = i := by omega
          rw [this]
        · have h2 : ¬ (first + i ≤ c ∧ c < first + i + (n + 1)) := by omega
          rw [if_neg h4, if_neg h2]
    · rw [if_neg hg, ihh]
      have hg0 : u16At arr (2 * i) = 0 := by omega
      by_cases h1 : first + (i + 1) ≤ c ∧ c < first + (i + 1) + n
      · have h2 : first + i ≤ c ∧ c < first + i + (n + 1) := by omega
        rw [if_pos h1, if_pos h2]
      · rw [if_neg h1]
        by_cases h4 : i + first = c
        · have h2 : first + i ≤ c ∧ c < first + i + (n + 1) := by omega
          rw [if_pos h2]
          have : c - first = i := by omega
          rw [this, hg0]
        · have h2 : ¬ (first + i ≤ c ∧ c < first + i + (n + 1)) := by omega
          rw [if_neg h2]

end SfntV.Cmap06
