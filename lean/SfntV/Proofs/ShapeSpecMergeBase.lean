/-
C06, contextual lookups whose nested lookups may MERGE glyphs (ligature substitution):
definitions shared by the proofs.
-/
import SfntV.Proofs.ShapeSpecInsBase

namespace SfntV.C06
open SfntV
open SfntV.Shape (Glyph Gdef Lookup LookupList Subtable Action)
open SfntV.Spec.Shape (TG gl)

/-- what happens to a strictly increasing list of positions `ps` when the glyphs at the
positions `cs` are deleted (the components of a ligature after the first): deleted positions
disappear, every other position moves down by the number of deleted positions before it -/
def mergePos (ps cs : List Nat) : List Nat :=
  (ps.filter fun p => !cs.contains p).map fun p => p - (cs.filter (· < p)).length

/-- every nested lookup of every contextual subtable of the list is non-contextual: one level
of nesting -/
def actSimple (ll : LookupList) (act : Action) : Bool :=
  match ll[act.lookup]? with
  | some lk => lk.simple
  | none => true

def nestedSimpleLL (ll : LookupList) : Bool :=
  ll.all fun lk => lk.subtables.all fun s => s.actions.all (actSimple ll)

end SfntV.C06
