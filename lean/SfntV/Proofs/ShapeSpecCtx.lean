/-
C06: contextual lookups (all six formats) whose nested lookups are pointwise — engine model =
reference shaper.  Parts: a pointwise lookup applied at a position of the buffer with any stack
and window; the engine's loop over the actions of one stack entry = the reference `runActions`
on the tagged buffer; first applicable subtable with contextual subtables included; one
top-level application; the scan; the lookups.
-/
import SfntV.Proofs.ShapeSpecPointwise
import SfntV.Proofs.ShapeSpecTags
import SfntV.Proofs.ShapeSpecChain3
namespace SfntV.C06
open SfntV
open SfntV.Shape (Glyph Gdef Lookup LookupList Subtable Action St Nested)
open SfntV.Spec.Shape (TG gl Hit matchSub SubEq)



/-! ## a pointwise lookup applied at position `j` of the buffer, any stack, any window -/

theorem seq_at (ts : List TG) (j : Nat) (cur : TG) (hj : ts[j]? = some cur) :
    (ts.take j).reverse.reverse ++ cur :: ts.drop (j + 1) = ts := by
  rw [List.reverse_reverse]
  have hlt : j < ts.length := by
    rcases Nat.lt_or_ge j ts.length with h | h
    · exact h
    · rw [List.getElem?_eq_none h] at hj; cases hj
  have hg : ts[j] = cur := by rw [List.getElem?_eq_getElem hlt] at hj; injection hj
  rw [← hg, List.getElem_cons_drop, List.take_append_drop]

theorem lt_of_get {ts : List TG} {j : Nat} {cur : TG} (hj : ts[j]? = some cur) : j < ts.length := by
  rcases Nat.lt_or_ge j ts.length with h | h
  · exact h
  · rw [List.getElem?_eq_none h] at hj; cases hj

/-- agreement of a pointwise subtable at position `j` with an arbitrary stack and window -/
def ChildSubEq (kp : Nat → Bool) (gd : Gdef) (ts : List TG) (j : Nat) (cur : TG) (stk : List Nested) (b : Int) (lim : Nat)
    (s : Subtable) : Prop :=
  match Spec.Shape.matchSub kp gd (ts.take j).reverse cur (ts.drop (j + 1)) lim s with
  | .error _ => True
  | .ok none => Shape.applySub kp ⟨gl ts, stk⟩ j b s = .ok none
  | .ok (some (.done dn rest)) => ∃ c', dn = [c'] ∧ rest = ts.drop (j + 1) ∧ c'.inp = cur.inp ∧ c'.win = cur.win ∧
      Shape.applySub kp ⟨gl ts, stk⟩ j b s = .ok (some (⟨gl (ts.take j ++ [c'] ++ ts.drop (j + 1)), stk⟩, j + 1))
  | .ok (some (.ctx _ _)) => False

theorem childSubEq (kp : Nat → Bool) (gd : Gdef) (ts : List TG) (j : Nat) (cur : TG) (hj : ts[j]? = some cur)
    (stk : List Nested) (b : Int) (lim : Nat) (s : Subtable) (hs : pointwise s = true)
    (hok : Spec.Shape.subtableOk s = true) : ChildSubEq kp gd ts j cur stk b lim s := by
  have hsimple : s.contextual = false := by cases s <;> simp [pointwise, Subtable.contextual] at hs ⊢
  have hse := subEq_simple kp gd (ts.take j).reverse cur (ts.drop (j + 1)) s hsimple hok
  unfold SubEq at hse
  rw [seq_at ts j cur hj] at hse
  have hjl := lt_of_get hj
  have hlen : ((ts.take j).reverse).length = j := by simp; omega
  rw [hlen] at hse
  unfold ChildSubEq
  rw [matchSub_pointwise_lim kp gd _ cur _ lim (ts.drop (j + 1)).length s hs]
  rw [applySub_pointwise kp (gl ts) stk j b s hs]
  cases hm : Spec.Shape.matchSub kp gd (ts.take j).reverse cur (ts.drop (j + 1)) (ts.drop (j + 1)).length s with
  | error e => trivial
  | ok r =>
    rw [hm] at hse
    cases r with
    | none => simp only at hse ⊢; rw [hse]
    | some hit =>
      obtain ⟨c', hc', hi, hw⟩ := matchSub_pointwise_shape kp gd _ cur _ _ s hs hit hm
      subst hc'
      simp only at hse
      show ∃ c'', [c'] = [c''] ∧ ts.drop (j + 1) = ts.drop (j + 1) ∧ c''.inp = cur.inp ∧ c''.win = cur.win ∧ _
      refine ⟨c', rfl, rfl, hi, hw, ?_⟩
      rw [hse]
      simp only [List.reverse_reverse, List.length_singleton]


/-- agreement of "the first subtable of a pointwise lookup that applies" at position `j` -/
def ChildAtEq (kp : Nat → Bool) (gd : Gdef) (ts : List TG) (j : Nat) (cur : TG) (stk : List Nested) (b : Int) (lim : Nat)
    (ss : List Subtable) : Prop :=
  match Spec.Shape.firstHit kp gd (ts.take j).reverse cur (ts.drop (j + 1)) lim ss with
  | .error _ => True
  | .ok none => Shape.applyAt kp ⟨gl ts, stk⟩ j b ss = .ok none
  | .ok (some (.done dn rest)) => ∃ c', dn = [c'] ∧ rest = ts.drop (j + 1) ∧ c'.inp = cur.inp ∧ c'.win = cur.win ∧
      Shape.applyAt kp ⟨gl ts, stk⟩ j b ss = .ok (some (⟨gl (ts.take j ++ [c'] ++ ts.drop (j + 1)), stk⟩, j + 1))
  | .ok (some (.ctx _ _)) => False

theorem childAtEq (kp : Nat → Bool) (gd : Gdef) (ts : List TG) (j : Nat) (cur : TG) (hj : ts[j]? = some cur)
    (stk : List Nested) (b : Int) (lim : Nat) :
    ∀ (ss : List Subtable), ss.all pointwise = true → ss.all Spec.Shape.subtableOk = true →
    ChildAtEq kp gd ts j cur stk b lim ss := by
  intro ss
  induction ss with
  | nil => intro _ _; simp [ChildAtEq, Spec.Shape.firstHit, Shape.applyAt, pure, Except.pure]
  | cons s ss ih =>
    intro hp hok
    simp only [List.all_cons, Bool.and_eq_true] at hp hok
    have hs := childSubEq kp gd ts j cur hj stk b lim s hp.1 hok.1
    have hrest := ih hp.2 hok.2
    unfold ChildAtEq
    unfold ChildSubEq at hs
    simp only [Spec.Shape.firstHit, Shape.applyAt]
    cases hm : Spec.Shape.matchSub kp gd (ts.take j).reverse cur (ts.drop (j + 1)) lim s with
    | error e => simp [bind, Except.bind]
    | ok r =>
      rw [hm] at hs
      cases r with
      | none =>
        simp only at hs
        simp only [bind, Except.bind]
        rw [hs]
        exact hrest
      | some hit =>
        cases hit with
        | done dn rest =>
          simp only at hs
          obtain ⟨c', h1, h2, h3, h4, h5⟩ := hs
          simp only [bind, Except.bind, pure, Except.pure]
          exact ⟨c', h1, h2, h3, h4, by rw [h5]⟩
        | ctx m a => exact hs.elim


/-! ## the loop over the actions of one stack entry -/

theorem getElem?_map_ofNat (l : List Nat) (k : Nat) : (l.map Int.ofNat)[k]? = (l[k]?).map Int.ofNat := by
  simp

theorem idxI_gl (site : String) (ts : List TG) (j : Nat) (cur : TG) (hj : ts[j]? = some cur) :
    Shape.idxI site (gl ts) (Int.ofNat j) = .ok cur.g := by
  unfold Shape.idxI
  have : ¬ (Int.ofNat j < 0) := by simp
  simp only [this, if_false]
  unfold idx
  have h2 : (gl ts)[j]? = some cur.g := by simp [gl, hj]
  rw [show (Int.ofNat j).toNat = j from rfl, h2]

theorem spec_applyAt_succ (ll : LookupList) (gd : Gdef) (fuel d : Nat) (lk : Lookup) (pre : List TG) (cur : TG)
    (post : List TG) (lim n : Nat) :
    Spec.Shape.applyAt ll gd (fuel + 1) d lk pre cur post lim n =
      (Spec.Shape.firstHit (Spec.Shape.keepOf gd lk) gd pre cur post lim lk.subtables >>= fun r =>
        match r with
        | none => pure none
        | some (.done dn rest) => pure (some (dn, rest, n))
        | some (.ctx m acts) =>
          (Spec.Shape.runActions (Spec.Shape.applyAt ll gd fuel (d + 1)) ll gd d acts
            (pre.reverse ++ Spec.Shape.tagWindow d m cur post ++ post.drop m.wlen) n) >>= fun r2 =>
          pure (some ((((r2.1.drop pre.length).takeWhile (TG.hasWin d)).map (TG.untag d)),
            (r2.1.drop pre.length).dropWhile (TG.hasWin d), r2.2))) := by
  rfl

theorem actions_eq (B : Nat) (ll : LookupList) (gd : Gdef)
    (hok : ∀ lk ∈ ll, lk.subtables.all Spec.Shape.subtableOk = true)
    (fuel a : Nat) (psN : List Nat) (e : Nat) (T0 : List (List Nat × List Nat))
    (hip : ∀ ts, tagsOf ts = T0 → Spec.Shape.inputPositions 0 ts = psN)
    (hge : ∀ j ∈ psN, a ≤ j) :
    ∀ (acts : List Action) (ts : List TG) (ns : Nat) (out : List TG) (n' : Nat),
      Spec.Shape.runActions (Spec.Shape.applyAt ll gd fuel 1) ll gd 0 acts ts ns = .ok (out, n') →
      tagsOf ts = T0 → (∀ act ∈ acts, actPointwise ll act = true) →
      ∀ (ne : Nat), ne + ns = B → ∀ (fe : Nat), 2 * (B - ne) + 1 ≤ fe → ∀ (next : Int),
      ∃ st2 nx, Shape.nestedLoop B ll gd fe ⟨gl ts, [⟨psN.map Int.ofNat, acts, (e : Int)⟩]⟩ ne next = .ok (st2, nx) ∧
        st2.seq = gl out ∧ tagsOf out = T0 ∧ out.take a = ts.take a ∧
        ((st2.stack = [] ∧ nx = (e : Int)) ∨ st2.stack = [⟨psN.map Int.ofNat, [], (e : Int)⟩]) := by
  intro acts
  induction acts with
  | nil =>
    intro ts ns out n' h hT _ ne hn fe hfe next
    simp only [Spec.Shape.runActions, pure, Except.pure] at h
    injection h with h; injection h with h1 h2; subst h1
    cases fe with
    | zero => omega
    | succ f =>
      simp only [Shape.nestedLoop]
      by_cases hb : ne ≥ B
      · rw [if_pos hb]
        exact ⟨_, _, rfl, rfl, hT, trivial, Or.inr rfl⟩
      · rw [if_neg hb]
        rw [Shape.nestedLoop_nil B ll gd f _ ne _ rfl]
        exact ⟨_, _, rfl, rfl, hT, trivial, Or.inl ⟨rfl, by simp⟩⟩
  | cons act acts ih =>
    intro ts ns out n' h hT hpw ne hn fe hfe next
    simp only [Spec.Shape.runActions] at h
    by_cases hns : ns = 0
    · simp [hns, Spec.Shape.undef] at h
    · simp only [hns, if_false] at h
      have hneB : ¬ (ne ≥ B) := by omega
      cases fe with
      | zero => omega
      | succ f =>
        have hf : 2 * (B - (ne + 1)) + 1 ≤ f := by omega
        have hn' : (ne + 1) + (ns - 1) = B := by omega
        have hpw' : ∀ act ∈ acts, actPointwise ll act = true := fun x hx => hpw x (List.mem_cons_of_mem _ hx)
        simp only [Shape.nestedLoop, hneB, if_false]
        rw [hip ts hT] at h
        rw [getElem?_map_ofNat]
        cases hj : psN[act.seqIdx]? with
        | none => rw [hj] at h; simp [Spec.Shape.undef] at h
        | some j =>
          rw [hj] at h
          simp only [Option.map_some] at h ⊢
          cases hl : ll[act.lookup]? with
          | none => rw [hl] at h; simp [Spec.Shape.undef] at h
          | some lk =>
            rw [hl] at h
            cases hc : ts[j]? with
            | none => rw [hc] at h; simp [Spec.Shape.undef] at h
            | some cur =>
              rw [hc] at h
              simp only at h ⊢
              rw [idxI_gl _ ts j cur hc]
              simp only [Shape.bind_ok_eq]
              rw [Spec.Shape.keepOf_eq] at h
              have hskip : ∀ out' n'', Spec.Shape.runActions (Spec.Shape.applyAt ll gd fuel 1) ll gd 0 acts ts (ns - 1) = .ok (out', n'') →
                  ∃ st2 nx, Shape.nestedLoop B ll gd f ⟨gl ts, [⟨psN.map Int.ofNat, acts, (e : Int)⟩]⟩ (ne + 1) next = .ok (st2, nx) ∧
                    st2.seq = gl out' ∧ tagsOf out' = T0 ∧ out'.take a = ts.take a ∧
                    ((st2.stack = [] ∧ nx = (e : Int)) ∨ st2.stack = [⟨psN.map Int.ofNat, [], (e : Int)⟩]) :=
                fun out' n'' h' => ih ts (ns - 1) out' n'' h' hT hpw' (ne + 1) hn' f hf next
              cases hk : lk.keep gd cur.g.gid with
              | false =>
                simp only [hk, Bool.not_false, if_true] at h
                simp only [Bool.false_eq_true, if_false]
                exact hskip out n' h
              | true =>
                simp only [hk, Bool.not_true, Bool.false_eq_true, if_false] at h
                simp only [if_true]
                -- the nested lookup is pointwise
                have hlkp : pointwiseLookup lk = true := by
                  have := hpw act List.mem_cons_self
                  unfold actPointwise at this
                  rw [hl] at this
                  exact this
                have hlkok := hok lk (List.mem_of_getElem? hl)
                cases fuel with
                | zero => simp [Spec.Shape.applyAt, Spec.Shape.undef, bind, Except.bind] at h
                | succ fuel' =>
                  rw [spec_applyAt_succ, Spec.Shape.keepOf_eq] at h
                  have hat := childAtEq (lk.keep gd) gd ts j cur hc [⟨psN.map Int.ofNat, acts, (e : Int)⟩] (e : Int)
                    (Spec.Shape.windowEnd 0 ts - (j + 1)) lk.subtables hlkp hlkok
                  unfold ChildAtEq at hat
                  cases hfh : Spec.Shape.firstHit (lk.keep gd) gd (ts.take j).reverse cur (ts.drop (j + 1))
                      (Spec.Shape.windowEnd 0 ts - (j + 1)) lk.subtables with
                  | error e' => rw [hfh] at h; simp [bind, Except.bind] at h
                  | ok r =>
                    rw [hfh] at h hat
                    cases r with
                    | none =>
                      simp only [bind, Except.bind, pure, Except.pure] at h
                      simp only at hat
                      rw [show Int.toNat (Int.ofNat j) = j from rfl, hat]
                      simp only [Shape.bind_ok_eq]
                      exact hskip out n' h
                    | some hit =>
                      cases hit with
                      | ctx m ac => exact hat.elim
                      | done dn rest =>
                        simp only [bind, Except.bind, pure, Except.pure] at h
                        simp only at hat
                        obtain ⟨c', h1, h2, h3, h4, h5⟩ := hat
                        subst h1 h2
                        rw [show Int.toNat (Int.ofNat j) = j from rfl, h5]
                        simp only [Shape.bind_ok_eq]
                        have hT' : tagsOf (ts.take j ++ [c'] ++ ts.drop (j + 1)) = T0 := by
                          rw [tagsOf_replace ts j cur c' hc h3 h4]; exact hT
                        have hja : a ≤ j := hge j (List.mem_of_getElem? hj)
                        obtain ⟨st2, nx, e1, e2, e3, e4, e5⟩ :=
                          ih (ts.take j ++ [c'] ++ ts.drop (j + 1)) (ns - 1) out n' h hT' hpw' (ne + 1) hn' f hf next
                        refine ⟨st2, nx, e1, e2, e3, ?_, e5⟩
                        rw [e4, take_replace ts j a c' hja (lt_of_get hc)]


open SfntV.Spec.Shape (CtxMatch)

/-! ## first applicable subtable, contextual subtables included -/

def AtEq2 (kp : Nat → Bool) (gd : Gdef) (pre : List TG) (cur : TG) (post : List TG) (ss : List Subtable) : Prop :=
  let seq := gl (pre.reverse ++ cur :: post)
  match Spec.Shape.firstHit kp gd pre cur post post.length ss with
  | .error _ => True
  | .ok none => Shape.applyAt kp ⟨seq, []⟩ pre.length seq.length ss = .ok none
  | .ok (some (.done dn rest)) =>
    Shape.applyAt kp ⟨seq, []⟩ pre.length seq.length ss
      = .ok (some (⟨gl (pre.reverse ++ dn ++ rest), []⟩, pre.length + dn.length))
  | .ok (some (.ctx m acts)) =>
    Shape.applyAt kp ⟨seq, []⟩ pre.length seq.length ss
      = .ok (some (Shape.pushMatch ⟨seq, []⟩ (pre.length :: m.offs.map (· + (pre.length + 1))) acts
              (pre.length + 1 + m.wlen), pre.length + 1 + m.wlen))

theorem atEq2 (kp : Nat → Bool) (gd : Gdef) (pre : List TG) (cur : TG) (post : List TG) :
    ∀ (ss : List Subtable), ss.all Spec.Shape.subtableOk = true → AtEq2 kp gd pre cur post ss := by
  intro ss
  induction ss with
  | nil => intro _; simp [AtEq2, Spec.Shape.firstHit, Shape.applyAt, pure, Except.pure]
  | cons s ss ih =>
    intro hok
    simp only [List.all_cons, Bool.and_eq_true] at hok
    have hrest := ih hok.2
    unfold AtEq2
    simp only [Spec.Shape.firstHit, Shape.applyAt]
    have hlen : (gl (pre.reverse ++ cur :: post)).length = pre.length + 1 + post.length := seq_len pre cur post
    cases hc : s.contextual with
    | false =>
      have hs := subEq_simple kp gd pre cur post s hc hok.1
      unfold SubEq at hs
      cases hm : Spec.Shape.matchSub kp gd pre cur post post.length s with
      | error e => simp [bind, Except.bind]
      | ok r =>
        rw [hm] at hs
        cases r with
        | none =>
          simp only at hs
          simp only [bind, Except.bind]
          rw [hs]
          exact hrest
        | some hit =>
          cases hit with
          | done dn rest =>
            simp only at hs
            simp only [bind, Except.bind, pure, Except.pure]
            rw [hs]
          | ctx m a => exact hs.elim
    | true =>
      have hs := Spec.Shape.ctx_eq kp gd pre cur post post.length (Nat.le_refl _) [] s hc
      simp only at hs
      rw [← hlen] at hs
      cases hm : Spec.Shape.matchSub kp gd pre cur post post.length s with
      | error e => simp [bind, Except.bind]
      | ok r =>
        rw [hm] at hs
        cases r with
        | none =>
          simp only at hs
          simp only [bind, Except.bind]
          rw [hs]
          exact hrest
        | some hit =>
          cases hit with
          | done dn rest => exact hs.elim
          | ctx m a =>
            simp only at hs
            simp only [bind, Except.bind, pure, Except.pure]
            rw [hs]

end SfntV.C06

namespace SfntV.C06
open SfntV
open SfntV.Shape (Glyph Gdef Lookup LookupList Subtable Action St Nested Rule)
open SfntV.Spec.Shape (TG gl Hit matchSub SubEq CtxMatch)

/-! ## facts about a contextual hit of the reference -/

theorem firstRule_mem (kp : Nat → Bool) (mb mi ml : Nat → Nat → Bool) (pre post : List TG) (lim : Nat) :
    ∀ (rs : List Rule) (m : CtxMatch) (acts : List Action),
    Spec.Shape.firstRule kp mb mi ml pre post lim rs = some (m, acts) → ∃ r ∈ rs, acts = r.actions := by
  intro rs
  induction rs with
  | nil => intro m acts h; simp [Spec.Shape.firstRule] at h
  | cons r rs ih =>
    intro m acts h
    simp only [Spec.Shape.firstRule] at h
    split at h
    · injection h with h; injection h with h1 h2
      exact ⟨r, List.mem_cons_self, h2.symm⟩
    · obtain ⟨r', hr', he⟩ := ih m acts h
      exact ⟨r', List.mem_cons_of_mem _ hr', he⟩

def CtxFacts (s : Subtable) (post : List TG) (lim : Nat) (m : CtxMatch) (acts : List Action) : Prop :=
  (∀ act ∈ acts, act ∈ s.actions) ∧ m.offs.Pairwise (· < ·) ∧ (∀ o ∈ m.offs, o < m.wlen) ∧ m.wlen ≤ lim ∧ m.wlen ≤ post.length

theorem rules_facts (kp : Nat → Bool) (mb mi ml : Nat → Nat → Bool) (pre post : List TG) (lim : Nat)
    (rules : List (List Rule)) (rs : List Rule) (hrs : rs ∈ rules) (m : CtxMatch) (acts : List Action)
    (h : (Spec.Shape.firstRule kp mb mi ml pre post lim rs).map (fun (x : CtxMatch × List Action) => Hit.ctx x.1 x.2)
      = some (Hit.ctx m acts)) :
    (∀ act ∈ acts, act ∈ rules.flatMap (fun rs => rs.flatMap fun r => r.actions)) ∧
      m.offs.Pairwise (· < ·) ∧ (∀ o ∈ m.offs, o < m.wlen) ∧ m.wlen ≤ lim ∧ m.wlen ≤ post.length := by
  cases hf : Spec.Shape.firstRule kp mb mi ml pre post lim rs with
  | none => rw [hf] at h; simp at h
  | some x =>
    obtain ⟨m', acts'⟩ := x
    rw [hf] at h
    simp only [Option.map_some] at h
    injection h with h; injection h with h1 h2; subst h1 h2
    obtain ⟨r, hr, he⟩ := firstRule_mem kp mb mi ml pre post lim rs m' acts' hf
    refine ⟨?_, firstRule_offs kp mb mi ml pre post lim rs m' acts' hf⟩
    intro act hact
    rw [he] at hact
    exact List.mem_flatMap.mpr ⟨rs, hrs, List.mem_flatMap.mpr ⟨r, hr, hact⟩⟩

theorem pairAdjust_not_ctx (adj : Shape.PairAdj) (cur : TG) (post : List TG) (j : Nat) (second : TG) (m : CtxMatch)
    (acts : List Action) : Spec.Shape.pairAdjust adj cur post j second ≠ .ok (some (.ctx m acts)) := by
  intro h
  unfold Spec.Shape.pairAdjust at h
  cases h1 : Spec.Shape.addValue adj.first cur.g with
  | error e => rw [h1] at h; simp [bind, Except.bind] at h
  | ok g1 =>
    rw [h1] at h
    simp only [bind, Except.bind, pure, Except.pure] at h
    split at h
    · cases h
    · rename_i v hv
      cases h2 : Spec.Shape.addValue (some v) second.g with
      | error e => rw [h2] at h; simp at h
      | ok g2 => rw [h2] at h; cases h

theorem ctx_of_map {o : Option (CtxMatch × List Action)} {m : CtxMatch} {acts : List Action}
    (h : (Except.ok (o.map fun (x : CtxMatch × List Action) => Hit.ctx x.1 x.2) : Except String (Option Hit))
      = .ok (some (.ctx m acts))) :
    o.map (fun (x : CtxMatch × List Action) => Hit.ctx x.1 x.2) = some (Hit.ctx m acts) := by
  injection h

theorem ctx_hit_facts (kp : Nat → Bool) (gd : Gdef) (pre : List TG) (cur : TG) (post : List TG) (lim : Nat)
    (s : Subtable) (m : CtxMatch) (acts : List Action)
    (h : matchSub kp gd pre cur post lim s = .ok (some (.ctx m acts))) : CtxFacts s post lim m acts := by
  unfold CtxFacts
  cases s with
  | ctx1 cov rules =>
    simp only [matchSub] at h
    split at h
    · simp [pure, Except.pure] at h
    · rename_i i hi
      cases hr : rules[i]? with
      | none => rw [hr] at h; simp [Spec.Shape.need, Spec.Shape.undef, bind, Except.bind] at h
      | some rs =>
        rw [hr] at h
        simp only [Spec.Shape.need, bind, Except.bind, pure, Except.pure] at h
        exact rules_facts kp _ _ _ pre post lim rules rs (List.mem_of_getElem? hr) m acts (ctx_of_map h)
  | chain1 cov rules =>
    simp only [matchSub] at h
    split at h
    · simp [pure, Except.pure] at h
    · rename_i i hi
      cases hr : rules[i]? with
      | none => rw [hr] at h; simp [Spec.Shape.need, Spec.Shape.undef, bind, Except.bind] at h
      | some rs =>
        rw [hr] at h
        simp only [Spec.Shape.need, bind, Except.bind, pure, Except.pure] at h
        exact rules_facts kp _ _ _ pre post lim rules rs (List.mem_of_getElem? hr) m acts (ctx_of_map h)
  | ctx2 cov cls rules =>
    simp only [matchSub] at h
    split at h
    · simp [pure, Except.pure] at h
    · split at h
      · simp [pure, Except.pure] at h
      · rename_i rs hr
        simp only [pure, Except.pure] at h
        exact rules_facts kp _ _ _ pre post lim rules rs (List.mem_of_getElem? hr) m acts (ctx_of_map h)
  | chain2 cov bcls icls lcls rules =>
    simp only [matchSub] at h
    split at h
    · simp [pure, Except.pure] at h
    · split at h
      · simp [pure, Except.pure] at h
      · rename_i rs hr
        simp only [pure, Except.pure] at h
        exact rules_facts kp _ _ _ pre post lim rules rs (List.mem_of_getElem? hr) m acts (ctx_of_map h)
  | ctx3 input actions =>
    simp only [matchSub] at h
    split at h
    · simp [Spec.Shape.undef] at h
    · split at h
      · simp [pure, Except.pure] at h
      · simp only [pure, Except.pure] at h
        injection h with h
        cases hm : Spec.Shape.matchContext kp [] (List.map Shape.setVal _) [] pre post lim with
        | none => rw [hm] at h; simp at h
        | some m' =>
          rw [hm] at h
          simp only [Option.map_some] at h
          injection h with h; injection h with h1 h2; subst h1 h2
          exact ⟨fun act ha => ha, matchContext_offs kp _ _ _ pre post lim m' hm⟩
  | chain3 back input look actions =>
    simp only [matchSub] at h
    split at h
    · simp [Spec.Shape.undef] at h
    · split at h
      · simp [pure, Except.pure] at h
      · simp only [pure, Except.pure] at h
        injection h with h
        cases hm : Spec.Shape.matchContext kp (List.map Shape.setVal back) (List.map Shape.setVal _)
            (List.map Shape.setVal look) pre post lim with
        | none => rw [hm] at h; simp at h
        | some m' =>
          rw [hm] at h
          simp only [Option.map_some] at h
          injection h with h; injection h with h1 h2; subst h1 h2
          exact ⟨fun act ha => ha, matchContext_offs kp _ _ _ pre post lim m' hm⟩
  | gpos21 pairs =>
    exfalso
    simp only [matchSub] at h
    split at h
    · simp [pure, Except.pure] at h
    · split at h
      · simp [pure, Except.pure] at h
      · simp [Spec.Shape.undef] at h
      · exact pairAdjust_not_ctx _ _ _ _ _ _ _ h
  | gpos22 cov cls1 cls2 adj =>
    exfalso
    simp only [matchSub] at h
    split at h
    · simp [pure, Except.pure] at h
    · split at h
      · simp [pure, Except.pure] at h
      · split at h
        · simp [pure, Except.pure] at h
        · split at h
          · simp [pure, Except.pure] at h
          · simp [Spec.Shape.undef] at h
          · exact pairAdjust_not_ctx _ _ _ _ _ _ _ h
  | gsub11 _ _ | gsub12 _ _ | gsub21 _ _ | gsub31 _ _ | gsub41 _ _ | gsub81 _ _ _ _ | gpos11 _ _ | gpos12 _ _
  | gpos31 _ _ | gpos41 _ _ _ _ _ | gpos61 _ _ _ _ =>
    exfalso
    simp only [matchSub, Spec.Shape.markAttach, Spec.Shape.attachTarget, Spec.Shape.need, Spec.Shape.undef,
      bind, Except.bind, pure, Except.pure] at h
    repeat' (split at h)
    all_goals (first | (cases h; done) | skip)

/-! ## one top-level application, nested lookups included -/

theorem firstHit_src (kp : Nat → Bool) (gd : Gdef) (pre : List TG) (cur : TG) (post : List TG) (lim : Nat) :
    ∀ (ss : List Subtable) (h : Hit), Spec.Shape.firstHit kp gd pre cur post lim ss = .ok (some h) →
    ∃ s ∈ ss, matchSub kp gd pre cur post lim s = .ok (some h) := by
  intro ss
  induction ss with
  | nil => intro h hh; simp [Spec.Shape.firstHit, pure, Except.pure] at hh
  | cons s ss ih =>
    intro h hh
    simp only [Spec.Shape.firstHit] at hh
    cases hm : matchSub kp gd pre cur post lim s with
    | error e => rw [hm] at hh; simp [bind, Except.bind] at hh
    | ok r =>
      rw [hm] at hh
      cases r with
      | none =>
        simp only [bind, Except.bind] at hh
        obtain ⟨s', hs', he⟩ := ih h hh
        exact ⟨s', List.mem_cons_of_mem _ hs', he⟩
      | some h' =>
        simp only [bind, Except.bind, pure, Except.pure] at hh
        injection hh with hh; injection hh with hh; subst hh
        exact ⟨s, List.mem_cons_self, hm⟩

theorem split3 (ts : List TG) (a w : Nat) :
    ts.take a ++ (ts.drop a).take (1 + w) ++ ts.drop (a + 1 + w) = ts := by
  have : ts.drop (a + 1 + w) = (ts.drop a).drop (1 + w) := by
    rw [List.drop_drop]; congr 1; omega
  rw [this, List.append_assoc, List.take_append_drop, List.take_append_drop]

theorem gl_untag (d : Nat) (l : List TG) : gl (l.map (TG.untag d)) = gl l := by
  induction l with
  | nil => rfl
  | cons t l ih => simp only [List.map_cons, Spec.Shape.gl_cons, ih]; rfl

/-- agreement of one application of a lookup at a kept glyph of a clean buffer -/
def StepEq (B : Nat) (ll : LookupList) (gd : Gdef) (lk : Lookup) : Prop :=
  ∀ (pre : List TG) (cur : TG) (post : List TG), AllClean pre → Clean cur → AllClean post →
    lk.keep gd cur.g.gid = true →
    match Spec.Shape.applyAt ll gd B 0 lk pre cur post post.length (B - 1) with
    | .error _ => True
    | .ok none => Shape.applyAtRec B ll gd lk ⟨gl (pre.reverse ++ cur :: post), []⟩ pre.length
        = .ok (⟨gl (pre.reverse ++ cur :: post), []⟩, (pre.length : Int) + 1)
    | .ok (some (dn, rest, _)) =>
      Shape.applyAtRec B ll gd lk ⟨gl (pre.reverse ++ cur :: post), []⟩ pre.length
        = .ok (⟨gl (pre.reverse ++ dn ++ rest), []⟩, ((pre.length + dn.length : Nat) : Int))
      ∧ AllClean dn ∧ AllClean rest

theorem stepEq (B : Nat) (ll : LookupList) (gd : Gdef) (hok : Spec.Shape.tablesOk ll gd = true)
    (hnp : nestedPointwiseLL ll = true) (lk : Lookup) (hlk : lk ∈ ll) : StepEq B ll gd lk := by
  intro pre cur post hpre hcur hpost hk
  have hokl : ∀ lk ∈ ll, lk.subtables.all Spec.Shape.subtableOk = true := by
    unfold Spec.Shape.tablesOk at hok
    simp only [Bool.and_eq_true] at hok
    exact fun lk h => List.all_eq_true.mp hok.2 lk h
  cases B with
  | zero => simp [Spec.Shape.applyAt, Spec.Shape.undef]
  | succ B' =>
    rw [spec_applyAt_succ, Spec.Shape.keepOf_eq]
    have hat := atEq2 (lk.keep gd) gd pre cur post lk.subtables (hokl lk hlk)
    unfold AtEq2 at hat
    have hi : Shape.idxI "applyAtRecursively:seq[pos]" (gl (pre.reverse ++ cur :: post)) (pre.length : Int) = .ok cur.g :=
      idxI_mid _ pre cur post
    cases hf : Spec.Shape.firstHit (lk.keep gd) gd pre cur post post.length lk.subtables with
    | error e => simp [bind, Except.bind]
    | ok r =>
      rw [hf] at hat
      cases r with
      | none =>
        simp only [bind, Except.bind, pure, Except.pure]
        simp only at hat
        unfold Shape.applyAtRec
        simp only [hi, Shape.bind_ok_eq, Int.toNat_natCast, hk, Bool.not_true, Bool.false_eq_true, if_false]
        rw [hat]; rfl
      | some hit =>
        cases hit with
        | done dn rest =>
          simp only [bind, Except.bind, pure, Except.pure]
          simp only at hat
          obtain ⟨s, hs, hm⟩ := firstHit_src _ gd pre cur post _ _ _ hf
          refine ⟨?_, matchSub_clean _ gd pre cur post _ s dn rest hcur hpost hm⟩
          unfold Shape.applyAtRec
          simp only [hi, Shape.bind_ok_eq, Int.toNat_natCast, hk, Bool.not_true, Bool.false_eq_true, if_false]
          rw [hat]
          simp only [Shape.bind_ok_eq]
          rw [Shape.nestedLoop_nil (B' + 1) ll gd _ _ 1 _ rfl]
          rfl
        | ctx m acts =>
          simp only at hat
          obtain ⟨s, hs, hm⟩ := firstHit_src _ gd pre cur post _ _ _ hf
          obtain ⟨hacts, hsorted, hbound, _, hw⟩ := ctx_hit_facts _ gd pre cur post _ s m acts hm
          -- the nested lookups are pointwise
          have hpw : ∀ act ∈ acts, actPointwise ll act = true := by
            intro act ha
            have h1 := List.all_eq_true.mp hnp lk hlk
            have h2 := List.all_eq_true.mp h1 s hs
            exact List.all_eq_true.mp h2 act (hacts act ha)
          simp only [bind, Except.bind, pure, Except.pure, Nat.add_sub_cancel]
          cases hr : Spec.Shape.runActions (Spec.Shape.applyAt ll gd B' (0 + 1)) ll gd 0 acts
              (pre.reverse ++ Spec.Shape.tagWindow 0 m cur post ++ post.drop m.wlen) B' with
          | error e => trivial
          | ok res =>
            obtain ⟨ts', n'⟩ := res
            simp only
            have hT0 : tagsOf (pre.reverse ++ Spec.Shape.tagWindow 0 m cur post ++ post.drop m.wlen)
                = tagsOf (pre.reverse ++ Spec.Shape.tagWindow 0 m cur post ++ post.drop m.wlen) := rfl
            have hip : ∀ ts, tagsOf ts = tagsOf (pre.reverse ++ Spec.Shape.tagWindow 0 m cur post ++ post.drop m.wlen) →
                Spec.Shape.inputPositions 0 ts = pre.length :: m.offs.map (· + (pre.length + 1)) := by
              intro ts ht
              rw [inputPositions_congr 0 ts _ ht]
              exact inputPositions_ts0 pre post cur m hpre hpost hw hsorted hbound
            have hge : ∀ j ∈ (pre.length :: m.offs.map (· + (pre.length + 1))), pre.length ≤ j := by
              intro j hj
              rcases List.mem_cons.mp hj with hj | hj
              · omega
              · obtain ⟨o, _, ho⟩ := List.mem_map.mp hj; omega
            obtain ⟨st2, nx, e1, e2, e3, e4, e5⟩ := actions_eq (B' + 1) ll gd hokl B' pre.length
              (pre.length :: m.offs.map (· + (pre.length + 1))) (pre.length + 1 + m.wlen) _ hip hge acts _ B' ts' n'
              hr hT0 hpw 1 (by omega) (Shape.nestedFuel (B' + 1)
                (Shape.pushMatch ⟨gl (pre.reverse ++ cur :: post), []⟩ (pre.length :: m.offs.map (· + (pre.length + 1))) acts
                  (pre.length + 1 + m.wlen))) (by unfold Shape.nestedFuel Shape.pushMatch; simp; omega)
              ((pre.length + 1 + m.wlen : Nat) : Int)
            rw [gl_ts0] at e1
            obtain ⟨c1, c2, c3, c4⟩ := untag_ts0 pre post cur m hcur hpost hw ts' e3
            rw [take_ts0] at e4
            have hlen' : ts'.length = pre.length + 1 + post.length := by
              rw [length_eq_of_tagsOf e3]; exact length_ts0 pre post cur m hw
            refine ⟨?_, c1, c2⟩
            · unfold Shape.applyAtRec
              simp only [hi, Shape.bind_ok_eq, Int.toNat_natCast, hk, Bool.not_true, Bool.false_eq_true, if_false]
              rw [hat]
              simp only [Shape.bind_ok_eq]
              have hpush : Shape.pushMatch ⟨gl (pre.reverse ++ cur :: post), []⟩ (pre.length :: m.offs.map (· + (pre.length + 1))) acts
                  (pre.length + 1 + m.wlen)
                  = ⟨gl (pre.reverse ++ cur :: post),
                     [⟨(pre.length :: m.offs.map (· + (pre.length + 1))).map Int.ofNat, acts, ((pre.length + 1 + m.wlen : Nat) : Int)⟩]⟩ := rfl
              rw [hpush] at e1 ⊢
              rw [e1]
              simp only [Shape.bind_ok_eq]
              -- the glyphs agree
              have hgl : gl (pre.reverse ++ ((ts'.drop pre.length).takeWhile (TG.hasWin 0)).map (TG.untag 0)
                  ++ (ts'.drop pre.length).dropWhile (TG.hasWin 0)) = gl ts' := by
                rw [c3, c4]
                have hsplit := split3 ts' pre.length m.wlen
                rw [e4] at hsplit
                have : gl (pre.reverse ++ ((ts'.drop pre.length).take (1 + m.wlen)).map (TG.untag 0)
                      ++ ts'.drop (pre.length + 1 + m.wlen))
                    = gl (pre.reverse ++ (ts'.drop pre.length).take (1 + m.wlen) ++ ts'.drop (pre.length + 1 + m.wlen)) := by
                  simp only [Spec.Shape.gl_append, gl_untag]
                rw [this, hsplit]
              have hdl : (((ts'.drop pre.length).takeWhile (TG.hasWin 0)).map (TG.untag 0)).length = 1 + m.wlen := by
                rw [c3]; simp only [List.length_map, List.length_take, List.length_drop]; omega
              rw [hgl, hdl]
              rcases e5 with ⟨h5, h6⟩ | h5
              · have : st2 = ⟨gl ts', []⟩ := by cases st2; simp_all
                subst this
                simp only [List.getLast?_nil, h6]
                congr 2; omega
              · have : st2 = ⟨gl ts', [⟨(pre.length :: m.offs.map (· + (pre.length + 1))).map Int.ofNat, [],
                    ((pre.length + 1 + m.wlen : Nat) : Int)⟩]⟩ := by cases st2; simp_all
                subst this
                simp only [List.getLast?_singleton]
                congr 2; omega

/-! ## the scan, the lookups -/

theorem applyAtRec_unkept (B : Nat) (ll : LookupList) (gd : Gdef) (lk : Lookup) (pre : List TG) (cur : TG) (post : List TG)
    (hk : lk.keep gd cur.g.gid = false) :
    Shape.applyAtRec B ll gd lk ⟨gl (pre.reverse ++ cur :: post), []⟩ pre.length
      = .ok (⟨gl (pre.reverse ++ cur :: post), []⟩, (pre.length : Int) + 1) := by
  unfold Shape.applyAtRec
  have hi : Shape.idxI "applyAtRecursively:seq[pos]" (gl (pre.reverse ++ cur :: post)) (pre.length : Int) = .ok cur.g :=
    idxI_mid _ pre cur post
  simp only [hi, Shape.bind_ok_eq, hk, Bool.not_false, if_true]

theorem allClean_rev_append {a b : List TG} (ha : AllClean a) (hb : AllClean b) : AllClean (a.reverse ++ b) := by
  intro t ht
  rcases List.mem_append.mp ht with h | h
  · exact ha t (List.mem_reverse.mp h)
  · exact hb t h

theorem scanFwd_eq2 (B : Nat) (ll : LookupList) (gd : Gdef) (lk : Lookup) (hstep : StepEq B ll gd lk) :
    ∀ (f1 f2 : Nat) (done todo out : List TG), AllClean done → AllClean todo → todo.length ≤ f2 →
    Spec.Shape.scanFwd B ll gd lk f1 done todo = .ok out →
    Shape.lookupLoop B ll gd lk f2 ⟨gl (done.reverse ++ todo), []⟩ (done.length : Int) = .ok ⟨gl out, []⟩ ∧ AllClean out := by
  intro f1
  induction f1 with
  | zero =>
    intro f2 done todo out hd ht hf h
    cases todo with
    | nil =>
      simp only [Spec.Shape.scanFwd, pure, Except.pure] at h
      injection h with h; subst h
      refine ⟨by cases f2 <;> simp [Shape.lookupLoop, gl], fun t ht' => hd t (List.mem_reverse.mp ht')⟩
    | cons c t => simp [Spec.Shape.scanFwd, Spec.Shape.undef] at h
  | succ f1 ih =>
    intro f2 done todo out hd ht hf h
    cases todo with
    | nil =>
      simp only [Spec.Shape.scanFwd, pure, Except.pure] at h
      injection h with h; subst h
      refine ⟨by cases f2 <;> simp [Shape.lookupLoop, gl], fun t ht' => hd t (List.mem_reverse.mp ht')⟩
    | cons cur post =>
      have hcur : Clean cur := ht cur List.mem_cons_self
      have hpost : AllClean post := fun t h' => ht t (List.mem_cons_of_mem _ h')
      cases f2 with
      | zero => simp at hf
      | succ f2 =>
        simp only [List.length_cons] at hf
        have hlen := seq_len done cur post
        simp only [Shape.lookupLoop]
        have hpos : ((done.length : Nat) : Int) < (((gl (done.reverse ++ cur :: post)).length : Nat) : Int) := by
          rw [hlen]; omega
        simp only [hpos, if_true]
        simp only [Spec.Shape.scanFwd, Spec.Shape.keepOf_eq] at h
        have hskip : ∀ out', Spec.Shape.scanFwd B ll gd lk f1 (cur :: done) post = .ok out' →
            Shape.applyAtRec B ll gd lk ⟨gl (done.reverse ++ cur :: post), []⟩ done.length
              = .ok (⟨gl (done.reverse ++ cur :: post), []⟩, (done.length : Int) + 1) →
            (Shape.applyAtRec B ll gd lk ⟨gl (done.reverse ++ cur :: post), []⟩ (done.length : Int) >>= fun x =>
              match x with
              | (st1, p1) =>
                Shape.lookupLoop B ll gd lk f2 st1
                  (if (st1.seq.length : Int) - p1 ≥ ((gl (done.reverse ++ cur :: post)).length : Int) - (done.length : Int)
                   then (st1.seq.length : Int) - (((gl (done.reverse ++ cur :: post)).length : Int) - (done.length : Int)) + 1
                   else p1)) = .ok ⟨gl out', []⟩ ∧ AllClean out' := by
          intro out' hs hr
          rw [hr]
          simp only [Shape.bind_ok_eq]
          have hno : ¬ ((((gl (done.reverse ++ cur :: post)).length : Nat) : Int) - ((done.length : Int) + 1)
              ≥ (((gl (done.reverse ++ cur :: post)).length : Nat) : Int) - (done.length : Int)) := by omega
          simp only [hno, if_false]
          have hd' : AllClean (cur :: done) := by
            intro t h'
            rcases List.mem_cons.mp h' with h' | h'
            · subst h'; exact hcur
            · exact hd t h'
          have := ih f2 (cur :: done) post out' hd' hpost (by omega) hs
          simp only [List.reverse_cons, List.append_assoc, List.singleton_append, List.length_cons] at this
          simpa using this
        cases hk : lk.keep gd cur.g.gid with
        | false =>
          simp only [hk, Bool.not_false, if_true] at h
          exact hskip out h (applyAtRec_unkept B ll gd lk done cur post hk)
        | true =>
          simp only [hk, Bool.not_true, Bool.false_eq_true, if_false] at h
          have hst := hstep done cur post hd hcur hpost hk
          cases ha : Spec.Shape.applyAt ll gd B 0 lk done cur post post.length (B - 1) with
          | error e => rw [ha] at h; simp [bind, Except.bind] at h
          | ok r =>
            rw [ha] at h hst
            cases r with
            | none =>
              simp only [bind, Except.bind] at h
              simp only at hst
              exact hskip out h hst
            | some res =>
              obtain ⟨dn, rest, nn⟩ := res
              simp only [bind, Except.bind] at h
              simp only at hst
              obtain ⟨hrec, hcd, hcr⟩ := hst
              split at h
              · rename_i hle
                rw [hrec]
                simp only [Shape.bind_ok_eq]
                have hl2 : (gl (done.reverse ++ dn ++ rest)).length = done.length + dn.length + rest.length := by
                  simp [gl]; omega
                have hno : ¬ ((((gl (done.reverse ++ dn ++ rest)).length : Nat) : Int) - ((done.length + dn.length : Nat) : Int)
                    ≥ (((gl (done.reverse ++ cur :: post)).length : Nat) : Int) - (done.length : Int)) := by
                  rw [hl2, hlen]; omega
                simp only [hno, if_false]
                have := ih f2 (dn.reverse ++ done) rest out (allClean_rev_append hcd hd) hcr (by omega) h
                simp only [List.reverse_append, List.reverse_reverse, List.length_append, List.length_reverse,
                  List.append_assoc] at this
                rw [show dn.length + done.length = done.length + dn.length from Nat.add_comm _ _] at this
                simpa [List.append_assoc] using this
              · simp [Spec.Shape.undef] at h

/-- the reverse scan keeps the buffer clean -/
theorem scanRev_clean (gd : Gdef) (lk : Lookup) :
    ∀ (todo after out : List TG), AllClean todo → AllClean after →
    Spec.Shape.scanRev gd lk todo after = .ok out → AllClean out := by
  intro todo
  induction todo with
  | nil =>
    intro after out _ ha h
    simp only [Spec.Shape.scanRev, pure, Except.pure] at h
    injection h with h; subst h; exact ha
  | cons cur pre ih =>
    intro after out ht ha h
    have hcur : Clean cur := ht cur List.mem_cons_self
    have hpre : AllClean pre := fun t h' => ht t (List.mem_cons_of_mem _ h')
    have hca : AllClean (cur :: after) := by
      intro t h'
      rcases List.mem_cons.mp h' with h' | h'
      · subst h'; exact hcur
      · exact ha t h'
    simp only [Spec.Shape.scanRev] at h
    split at h
    · exact ih (cur :: after) out hpre hca h
    · cases hf : Spec.Shape.firstHit (Spec.Shape.keepOf gd lk) gd pre cur after after.length lk.subtables with
      | error e => rw [hf] at h; simp [bind, Except.bind] at h
      | ok r =>
        rw [hf] at h
        simp only [bind, Except.bind] at h
        cases r with
        | none => exact ih (cur :: after) out hpre hca h
        | some hit =>
          cases hit with
          | ctx m a => exact ih (cur :: after) out hpre hca h
          | done dn rest =>
            obtain ⟨s, _, hm⟩ := firstHit_src _ gd pre cur after _ _ _ hf
            obtain ⟨h1, h2⟩ := matchSub_clean _ gd pre cur after _ s dn rest hcur ha hm
            refine ih (dn ++ rest) out hpre ?_ h
            intro t h'
            rcases List.mem_append.mp h' with h' | h'
            · exact h1 t h'
            · exact h2 t h'

theorem runLookup_eq2 (B : Nat) (ll : LookupList) (gd : Gdef) (hok : Spec.Shape.tablesOk ll gd = true)
    (hstep : ∀ lk ∈ ll, StepEq B ll gd lk) (lk : Lookup) (hlk : lk ∈ ll)
    (ts out : List TG) (hc : AllClean ts) (h : Spec.Shape.runLookup B ll gd lk ts = .ok out) :
    Shape.applyLookup B ll gd lk ⟨gl ts, []⟩ = .ok ⟨gl out, []⟩ ∧ AllClean out := by
  by_cases hany : lk.subtables.any Spec.Shape.isReverse = true
  · -- a reverse lookup has only GSUB 8.1 subtables: the simple theorem applies
    have hrun := h
    unfold Spec.Shape.runLookup at h
    simp only [hany, if_true] at h
    by_cases hall : lk.subtables.all Spec.Shape.isReverse = true
    · simp only [hall, if_true] at h
      have hle : LookupEq gd lk := by
        intro pre cur post s hs
        have hr : Spec.Shape.isReverse s = true := List.all_eq_true.mp hall s hs
        have hsimple : s.contextual = false := by cases s <;> simp [Spec.Shape.isReverse, Subtable.contextual] at hr ⊢
        have hokl : lk.subtables.all Spec.Shape.subtableOk = true := by
          unfold Spec.Shape.tablesOk at hok
          simp only [Bool.and_eq_true] at hok
          exact List.all_eq_true.mp hok.2 lk hlk
        exact subEq_simple _ gd pre cur post s hsimple (List.all_eq_true.mp hokl s hs)
      refine ⟨runLookup_eq B ll gd lk hle ts out hrun, ?_⟩
      exact scanRev_clean gd lk ts.reverse [] out (fun t ht => hc t (List.mem_reverse.mp ht)) (fun _ h' => by cases h') h
    · simp only [hall] at h
      simp [Spec.Shape.undef] at h
  · have hrev : lk.reverse = false := by
      unfold Shape.Lookup.reverse
      have hfun : Spec.Shape.isReverse = Subtable.isRev81 := funext isReverse_eq
      rw [hfun] at hany
      cases hs : lk.subtables with
      | nil => simp
      | cons a b =>
        rw [hs] at hany
        simp only [List.any_cons, Bool.or_eq_true, not_or, Bool.not_eq_true] at hany
        simp [List.all_cons, hany.1]
    unfold Spec.Shape.runLookup at h
    simp only [hany] at h
    unfold Shape.applyLookup
    simp only [hrev]
    have := scanFwd_eq2 B ll gd lk (hstep lk hlk) ts.length ts.length [] ts out
      (fun _ h' => by cases h') hc (Nat.le_refl _) h
    simpa using this

theorem runLookups_eq2 (B : Nat) (ll : LookupList) (gd : Gdef) (hok : Spec.Shape.tablesOk ll gd = true)
    (hstep : ∀ lk ∈ ll, StepEq B ll gd lk) :
    ∀ (lookups : List Nat) (ts out : List TG), AllClean ts → Spec.Shape.runLookups B ll gd lookups ts = .ok out →
    Shape.applyLookups B ll gd lookups ⟨gl ts, []⟩ = .ok ⟨gl out, []⟩ := by
  intro lookups
  induction lookups with
  | nil =>
    intro ts out _ h
    simp only [Spec.Shape.runLookups, pure, Except.pure] at h
    injection h with h; subst h
    simp [Shape.applyLookups]
  | cons i is ih =>
    intro ts out hc h
    simp only [Spec.Shape.runLookups] at h
    simp only [Shape.applyLookups]
    cases hi : ll[i]? with
    | none => rw [hi] at h; simp [Spec.Shape.need, Spec.Shape.undef, bind, Except.bind] at h
    | some lk =>
      rw [hi] at h
      simp only [Spec.Shape.need, bind, Except.bind, pure, Except.pure] at h
      cases hr : Spec.Shape.runLookup B ll gd lk ts with
      | error e => rw [hr] at h; simp at h
      | ok ts' =>
        rw [hr] at h
        simp only at h ⊢
        obtain ⟨h1, h2⟩ := runLookup_eq2 B ll gd hok hstep lk (List.mem_of_getElem? hi) ts ts' hc hr
        rw [h1]
        simp only [Shape.bind_ok_eq]
        exact ih ts' out h2 h

theorem tablesOk_of_shape {B : Nat} {ll : LookupList} {gd : Gdef} {lookups : List Nat} {seq r : List Glyph}
    (h : Spec.Shape.shape B ll gd lookups seq = .ok r) : Spec.Shape.tablesOk ll gd = true := by
  unfold Spec.Shape.shape at h
  split at h
  · simp [Spec.Shape.undef] at h
  · rename_i hn; simpa using hn

/-- the whole shaper, given agreement of every top-level application on clean buffers -/
theorem shape_eq_of_step (B : Nat) (ll : LookupList) (gd : Gdef) (lookups : List Nat) (seq r : List Glyph)
    (hstep : Spec.Shape.tablesOk ll gd = true → ∀ lk ∈ ll, StepEq B ll gd lk)
    (h : Spec.Shape.shape B ll gd lookups seq = .ok r) :
    Shape.apply B ll gd lookups [] seq = .ok ⟨r, []⟩ := by
  have hok := tablesOk_of_shape h
  unfold Spec.Shape.shape at h
  split at h
  · simp [Spec.Shape.undef] at h
  · simp only [bind, Except.bind, pure, Except.pure] at h
    cases hr : Spec.Shape.runLookups B ll gd lookups (seq.map fun g => ({ g := g } : TG)) with
    | error e => rw [hr] at h; simp at h
    | ok ts =>
      rw [hr] at h
      simp only at h
      injection h with h; subst h
      have hclean : AllClean (seq.map fun g => ({ g := g } : TG)) := by
        intro t ht
        obtain ⟨g, _, hg⟩ := List.mem_map.mp ht
        subst hg; exact ⟨rfl, rfl⟩
      have := runLookups_eq2 B ll gd hok (hstep hok) lookups _ ts hclean hr
      rw [gl_untagged] at this
      exact this

/-- **Engine = reference for contextual lookups with pointwise nested lookups.** -/
theorem engine_eq_spec_ctx (B : Nat) (ll : LookupList) (gd : Gdef) (lookups : List Nat) (seq r : List Glyph)
    (hnp : nestedPointwiseLL ll = true) (h : Spec.Shape.shape B ll gd lookups seq = .ok r) :
    Shape.apply B ll gd lookups [] seq = .ok ⟨r, []⟩ :=
  shape_eq_of_step B ll gd lookups seq r (fun hok lk hlk => stepEq B ll gd hok hnp lk hlk) h

end SfntV.C06
