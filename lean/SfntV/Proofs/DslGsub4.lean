/-
C19 — GSUB 4 (ligatures): the printer without ranges, grouping of ligatures by first glyph in
the parser, and the round-trip theorem `roundtrip_gsub4` for every font of the domain.
-/
import SfntV.Proofs.DslGsub23
set_option linter.unusedSimpArgs false
set_option linter.unusedVariables false
namespace SfntV.Dsl

/-! ### GSUB 4 -/

theorem nameP_typ (e : Explainer) (g : Nat) :
    ∃ typ val, e.nameP g = .tok typ val ∧ (typ = tIdentifier ∨ typ = tInteger ∨ typ = tString) := by
  unfold Explainer.nameP
  split
  · exact ⟨_, _, rfl, Or.inl rfl⟩
  · exact ⟨_, _, rfl, Or.inr (Or.inl rfl)⟩

theorem writeGlyphList_head (e : Explainer) (gl : List Nat) (h : gl ≠ []) :
    ∃ typ val ps, e.writeGlyphList gl = .tok typ val :: ps ∧ (typ = tIdentifier ∨ typ = tInteger ∨ typ = tString) := by
  unfold Explainer.writeGlyphList
  match gl, h with
  | [g], _ =>
    obtain ⟨typ, val, hw, hty⟩ := writeGlyph_typ e g
    exact ⟨typ, val, [], by simp [hw], hty⟩
  | g :: g' :: more, _ =>
    simp only []
    split
    · exact ⟨_, _, [], rfl, Or.inr (Or.inr rfl)⟩
    · obtain ⟨typ, val, hw, hty⟩ := nameP_typ e g
      refine ⟨typ, val, sp :: ((g' :: more).map e.nameP).intersperse sp, ?_, hty⟩
      simp only [List.map_cons, List.intersperse_cons_cons, hw]

def ligPc (f : Font) (m : Mapping) : List Piece :=
  (newExplainer f).writeGlyphList m.1 ++ arrow ++ (newExplainer f).writeGlyphList m.2

theorem seqMappings_noRanges (e : Explainer) : ∀ (n : Nat) (mm : List Mapping) (sep : List Piece), mm.length ≤ n →
    e.seqMappingsAux false n mm sep =
      match mm with
      | [] => []
      | m :: rest => sep ++ (e.writeGlyphList m.1 ++ arrow ++ e.writeGlyphList m.2) ++
          rest.flatMap (fun y => [commaP, sp] ++ (e.writeGlyphList y.1 ++ arrow ++ e.writeGlyphList y.2)) := by
  intro n
  induction n with
  | zero =>
    intro mm sep h
    have : mm = [] := by cases mm <;> simp_all
    subst this
    simp [Explainer.seqMappingsAux]
  | succ n ih =>
    intro mm sep h
    cases mm with
    | nil => simp [Explainer.seqMappingsAux]
    | cons m rest =>
      unfold Explainer.seqMappingsAux
      simp only [Bool.false_and, Bool.false_eq_true, if_false, show ¬ (1 > 2) by omega]
      rw [ih rest [commaP, sp] (by simp at h; omega)]
      cases rest with
      | nil => simp
      | cons m' rest' => simp [List.append_assoc]

/-- `data[key] = append(data[key], lig)` over the ligatures of one first glyph -/
theorem appendAt_group {β : Type} (g : Nat) (m : List (Nat × List β)) (hfresh : aget m g = none) :
    ∀ (ligs done : List β), ligs.foldl (fun acc lig => appendAt acc g lig) (m ++ [(g, done)]) = m ++ [(g, done ++ ligs)] := by
  intro ligs
  induction ligs with
  | nil => intro done; simp
  | cons lig ligs ih =>
    intro done
    simp only [List.foldl_cons]
    have hsome : (aget (m ++ [(g, done)]) g).isSome = true := by
      unfold aget at hfresh ⊢
      simp only [List.find?_append]
      cases hf : m.find? (·.1 == g) with
      | some p => rw [hf] at hfresh; simp at hfresh
      | none => simp
    have hupd : appendAt (m ++ [(g, done)]) g lig = m ++ [(g, done ++ [lig])] := by
      unfold appendAt
      simp only [hsome, if_true, List.map_append, List.map_cons, List.map_nil, beq_self_eq_true]
      congr 1
      have : ∀ p ∈ m, (p.1 == g) = false := by
        intro p hp
        cases hpg : p.1 == g with
        | false => rfl
        | true =>
          exfalso
          unfold aget at hfresh
          have : (m.find? (·.1 == g)).isSome := by
            rw [List.find?_isSome]; exact ⟨p, hp, hpg⟩
          cases hf : m.find? (·.1 == g) with
          | none => rw [hf] at this; cases this
          | some q => rw [hf] at hfresh; simp at hfresh
      rw [List.map_congr_left (g := id)]
      · simp
      · intro p hp; simp [this p hp]
    rw [hupd, ih]
    simp [List.append_assoc]

theorem appendAt_fresh {β : Type} (g : Nat) (m : List (Nat × List β)) (hfresh : aget m g = none) (lig : β) :
    appendAt m g lig = m ++ [(g, [lig])] := by
  unfold appendAt
  simp [hfresh]

/-- all ligature mappings of a subtable, folded into the parser's map, give the subtable's
association list back -/
theorem fold_ligs (ps : List (Nat × List (List Nat × Nat))) :
    ∀ (m : List (Nat × List (List Nat × Nat))), Asc ((m ++ ps).map (·.1)) → (∀ p ∈ ps, p.2 ≠ []) →
    (ps.flatMap fun p => p.2.map fun lig => ((p.1 :: lig.1, [lig.2]) : Mapping)).foldl
      (fun acc (mp : Mapping) => appendAt acc (mp.1.headD 0) (mp.1.drop 1, mp.2.headD 0)) m = m ++ ps := by
  induction ps with
  | nil => intro m _ _; simp
  | cons p ps ih =>
    intro m hasc hne
    obtain ⟨g, ligs⟩ := p
    have hl := hne (g, ligs) (by simp)
    simp only at hl
    cases ligs with
    | nil => exact absurd rfl hl
    | cons lig ligs =>
      simp only [List.flatMap_cons, List.map_cons, List.foldl_append, List.foldl_cons, List.headD_cons, List.drop_succ_cons,
        List.drop_zero]
      have hfresh : aget m g = none := aget_none_of_asc m ps (g, lig :: ligs) hasc
      rw [appendAt_fresh g m hfresh]
      have h1 : (ligs.map fun lig => ((g :: lig.1, [lig.2]) : Mapping)).foldl
          (fun acc (mp : Mapping) => appendAt acc (mp.1.headD 0) (mp.1.drop 1, mp.2.headD 0)) (m ++ [(g, [lig])]) =
          m ++ [(g, [lig] ++ ligs)] := by
        rw [List.foldl_map]
        simp only [List.headD_cons, List.drop_succ_cons, List.drop_zero]
        exact appendAt_group g m hfresh ligs [lig]
      rw [h1]
      have := ih (m ++ [(g, lig :: ligs)]) (by simpa [List.append_assoc] using hasc) (fun q hq => hne q (by simp [hq]))
      simpa [List.append_assoc] using this

structure Gsub4Ok (f : Font) (cov : List Nat) (repl : List (List (List Nat × Nat))) : Prop where
  ne : cov ≠ []
  asc : Asc cov
  len : cov.length = repl.length
  covIn : ∀ g ∈ cov, g < f.numGlyphs
  replOk : ∀ ligs ∈ repl, ligs ≠ [] ∧ ∀ lig ∈ ligs, lig.2 < f.numGlyphs ∧ ∀ g ∈ lig.1, g < f.numGlyphs

def ligMappings (cov : List Nat) (repl : List (List (List Nat × Nat))) : List Mapping :=
  (cov.zip repl).flatMap fun p => p.2.map fun lig => (p.1 :: lig.1, [lig.2])

theorem frag_gsub4 (f : Font) (hf : FontOk f) (first : Bool) (cov : List Nat) (repl : List (List (List Nat × Nat)))
    (h : Gsub4Ok f cov repl) (fuel : Nat)
    (hfuel : tokCount ((newExplainer f).subtable first (.gsub4_1 cov repl)) < fuel) :
    Frag (gsub4Sub f fuel) ((newExplainer f).subtable first (.gsub4_1 cov repl)) (.gsub4_1 cov repl)
      SubStop Safe := by
  obtain ⟨hne, hasc, hlen, hcov, hrepl⟩ := h
  let pc : Mapping → List Piece := fun m =>
    (newExplainer f).writeGlyphList m.1 ++ arrow ++ (newExplainer f).writeGlyphList m.2
  let upd : List (Nat × List (List Nat × Nat)) → Mapping → List (Nat × List (List Nat × Nat)) :=
    fun acc mp => appendAt acc (mp.1.headD 0) (mp.1.drop 1, mp.2.headD 0)
  have hmmOk : ∀ mp ∈ ligMappings cov repl, mp.1 ≠ [] ∧ (∀ g ∈ mp.1, g < f.numGlyphs) ∧
      ∃ out, mp.2 = [out] ∧ out < f.numGlyphs := by
    intro mp hmp
    simp only [ligMappings, List.mem_flatMap, List.mem_map] at hmp
    obtain ⟨p, hp, lig, hlig, rfl⟩ := hmp
    have := List.of_mem_zip hp
    have hl := (hrepl p.2 this.2).2 lig hlig
    refine ⟨by simp, ?_, lig.2, rfl, hl.1⟩
    intro g hg
    simp at hg
    rcases hg with rfl | hg
    · exact hcov _ this.1
    · exact hl.2 g hg
  cases hmm : ligMappings cov repl with
  | nil =>
    exfalso
    cases cov with
    | nil => exact hne rfl
    | cons g cov' =>
      cases repl with
      | nil => simp at hlen
      | cons ligs repl' =>
        have := (hrepl ligs (by simp)).1
        cases ligs with
        | nil => exact this rfl
        | cons lig ligs' => simp [ligMappings] at hmm
  | cons m0 rest =>
    have hpieces : (newExplainer f).subtable first (.gsub4_1 cov repl) =
        .ws [a1 32] :: (pc m0 ++ rest.flatMap (fun y => [commaP, sp] ++ pc y)) := by
      have : (newExplainer f).subtable first (.gsub4_1 cov repl) = (newExplainer f).seqMappings (ligMappings cov repl) false := rfl
      rw [this, Explainer.seqMappings, seqMappings_noRanges _ _ _ _ (Nat.le_refl _), hmm]
      simp [sp, pc]
    rw [hpieces] at hfuel ⊢
    have hfuel' : tokCount (pc m0 ++ rest.flatMap (fun y => [commaP, sp] ++ pc y)) < fuel := by
      simpa [tokCount] using hfuel
    have hpc_le : ∀ p ∈ m0 :: rest, tokCount (pc p) < fuel := by
      intro p hp
      simp only [List.mem_cons] at hp
      rw [tokCount_append] at hfuel'
      rcases hp with rfl | hp
      · omega
      · have := tokCount_flatMap_mem (fun y => [commaP, sp] ++ pc y) rest p hp
        simp only [tokCount_append] at this
        omega
    apply frag_ws [a1 32] ws_sp
    unfold gsub4Sub
    have hlenr : rest.length < fuel := by
      have := length_le_tokCount_flatMap (fun y => [commaP, sp] ++ pc y) rest (by
        intro x _; simp [tokCount_append, commaP, tk, tokCount])
      rw [tokCount_append] at hfuel'
      omega
    have hres : (m0 :: rest).foldl upd [] = cov.zip repl := by
      rw [← hmm]
      have := fold_ligs (cov.zip repl) [] (by
        simp only [List.nil_append]
        rw [List.map_fst_zip (by omega)]; exact hasc) (by
        intro p hp
        have := List.of_mem_zip hp
        exact (hrepl p.2 this.2).1)
      simpa [ligMappings, upd] using this
    have hp : pc m0 ++ rest.flatMap (fun y => [commaP, sp] ++ pc y) =
        (pc m0 ++ rest.flatMap (fun y => [commaP, sp] ++ pc y)) ++ [] := by simp
    rw [hp]
    refine frag_bind (frag_pairsLoop _ pc upd
      SubStop (fun t => glyphItem f t = false) Safe Safe
      (fun t ht => ⟨by rcases ht with h | h | h <;> simp [h, tOr, tEOL, tEOF, tComma], subStop_noGlyph f t ht⟩)
      (fun t ht => comma_noGlyph f t ht) (fun _ h => h) safe_comma
      rest [] m0 fuel hlenr (fun i _ line => ?_) ?_) ?_ (fun nx h => by simpa [nextRune, render] using h)
        (fun line t ht => by simpa [mkToks] using ht)
    · by_cases hi1 : i.1 = []
      · refine ⟨{ typ := tArrow, val := ascii [45, 62], line := line }, ?_, by simp [tArrow, tEOL]⟩
        simp [pc, hi1, Explainer.writeGlyphList, arrow, sp, tk, mkToks]
      · obtain ⟨typ, val, ps, hw, hty⟩ := writeGlyphList_head (newExplainer f) i.1 hi1
        refine ⟨{ typ := typ, val := val, line := line }, by simp [pc, hw, mkToks], ?_⟩
        rcases hty with h | h | h <;> simp [h, tIdentifier, tInteger, tString, tEOL]
    · intro pre i post e
      have hi : i ∈ m0 :: rest := by rw [e]; simp
      obtain ⟨hi1, hi2, out, hi3, hi4⟩ := hmmOk i (by rw [hmm]; exact hi)
      have hfi := hpc_le i hi
      simp only [pc, tokCount_append, arrow, sp, tk, tokCount] at hfi
      have hg := frag_glyphList f hf i.1 hi2 fuel (by omega)
      have hl := frag_glyphList f hf i.2 (by rw [hi3]; intro g hg; simp at hg; subst hg; exact hi4) fuel (by omega)
      have hpcs : pc i = (newExplainer f).writeGlyphList i.1 ++ (arrow ++ ((newExplainer f).writeGlyphList i.2 ++ [])) := by
        simp [pc]
      rw [hpcs]
      refine frag_bind hg ?_ (fun nx _ => by
          have : nextRune (arrow ++ ((newExplainer f).writeGlyphList i.2 ++ [])) nx = some 32 := by
            simp [nextRune, render, arrow, sp, Piece.rbs, a1]
          rw [this]; exact safe_space)
        (fun line t _ => by apply arrow_noGlyph; simp [mkToks, arrow, sp, tk])
      have hemp : i.1.isEmpty = false := by
        cases hh : i.1 with
        | nil => exact absurd hh hi1
        | cons _ _ => rfl
      simp only [hemp, Bool.false_eq_true, if_false]
      apply frag_arrow_then
      refine frag_bind hl ?_ (fun nx h => by simpa [nextRune, render] using h)
        (fun line t ht => by simpa [mkToks] using ht)
      rw [hi3]
      simp only [List.length_singleton, bne_self_eq_false, Bool.false_eq_true, if_false, List.headD_cons]
      have : (pre ++ [i]).foldl upd [] = appendAt (pre.foldl upd []) (i.1.headD 0) (i.1.drop 1, out) := by
        simp [List.foldl_append, upd, hi3]
      rw [this]
      exact frag_weaken (frag_pure _ _) (fun _ h => h) (fun _ _ => trivial)
    · rw [hres]
      simp only []
      rw [keys_zip cov repl hasc hlen, aget_zip [] cov repl hasc hlen]
      exact frag_weaken (frag_pure _ SubStop) (fun _ h => h) (fun _ _ => trivial)

def Gsub4Sub (f : Font) (st : Subtable) : Prop := ∃ cov repl, st = .gsub4_1 cov repl ∧ Gsub4Ok f cov repl

theorem gsub4_pieces (f : Font) (first : Bool) (cov : List Nat) (repl : List (List (List Nat × Nat)))
    (h : Gsub4Ok f cov repl) :
    ∃ (m0 : Mapping) (ps : List Piece), m0.1 ≠ [] ∧ (newExplainer f).subtable first (.gsub4_1 cov repl) =
      .ws [a1 32] :: ((newExplainer f).writeGlyphList m0.1 ++ ps) := by
  cases hmm : ligMappings cov repl with
  | nil =>
    exfalso
    obtain ⟨hne, _, hlen, _, hrepl⟩ := h
    cases cov with
    | nil => exact hne rfl
    | cons g cov' =>
      cases repl with
      | nil => simp at hlen
      | cons ligs repl' =>
        have := (hrepl ligs (by simp)).1
        cases ligs with
        | nil => exact this rfl
        | cons lig ligs' => simp [ligMappings] at hmm
  | cons m0 rest =>
    have hm0 : m0.1 ≠ [] := by
      have : m0 ∈ ligMappings cov repl := by rw [hmm]; simp
      simp only [ligMappings, List.mem_flatMap, List.mem_map] at this
      obtain ⟨p, _, lig, _, rfl⟩ := this
      simp
    refine ⟨m0, (arrow ++ (newExplainer f).writeGlyphList m0.2) ++
      rest.flatMap (fun y => [commaP, sp] ++ ((newExplainer f).writeGlyphList y.1 ++ arrow ++ (newExplainer f).writeGlyphList y.2)), hm0, ?_⟩
    have : (newExplainer f).subtable first (.gsub4_1 cov repl) = (newExplainer f).seqMappings (ligMappings cov repl) false := rfl
    rw [this, Explainer.seqMappings, seqMappings_noRanges _ _ _ _ (Nat.le_refl _), hmm]
    simp [sp]

theorem gsub4_form (f : Font) (hf : FontOk f) : SubForm f (gsub4Sub f) (Gsub4Sub f) := by
  refine ⟨?_, ?_, ?_⟩
  · rintro st ⟨cov, repl, rfl, hok⟩ first fuel hfuel
    exact frag_gsub4 f hf first cov repl hok fuel hfuel
  · rintro st ⟨cov, repl, rfl, hok⟩ first
    obtain ⟨m0, ps, _, e⟩ := gsub4_pieces f first cov repl hok
    exact ⟨_, e⟩
  · rintro st ⟨cov, repl, rfl, hok⟩ first line
    obtain ⟨m0, ps, hm0, e⟩ := gsub4_pieces f first cov repl hok
    obtain ⟨typ, val, ps', hw, hty⟩ := writeGlyphList_head (newExplainer f) m0.1 hm0
    rw [e, hw]
    refine ⟨{ typ := typ, val := val, line := line }, by simp [mkToks], ?_⟩
    rcases hty with h | h | h <;> simp [h, tIdentifier, tInteger, tString, tHyphen, tEOL]

theorem gsub4_dispatch (f : Font) (fuel : Nat) (t : Tok) (n : Nat) (acc : List Lookup) (s s1 : PS)
    (h : readItem s = .ok (t, s1)) (ht : t.typ = tIdentifier) (hb : t.bytes = [71, 83, 85, 66] ++ decimal 4) :
    parseLoop f fuel (n + 1) acc s = (readGsub4 f fuel >>= fun l => parseLoop f fuel n (acc ++ [l])) s1 := by
  have hd : decimal 4 = [52] := by decide
  rw [hd] at hb
  conv => lhs; unfold parseLoop
  rw [bind_run, h]
  simp [ht, isIdent, hb, kwGSUB, tIdentifier, tEOF, tError, tSemicolon, tEOL]

structure Lookup4Ok (f : Font) (l : Lookup) : Prop where
  typ : l.typ = 4
  flags : l.flags < 16
  ne : l.subtables ≠ []
  subs : ∀ st ∈ l.subtables, Gsub4Sub f st

theorem normalize_gsub4 (f : Font) (ls : List Lookup) (h : ∀ l ∈ ls, Lookup4Ok f l) : normalize ls = ls := by
  unfold normalize
  rw [List.map_congr_left (g := id)]
  · simp
  · intro l hl
    have : l.subtables.map normSub = l.subtables := by
      rw [List.map_congr_left (g := id)]
      · simp
      · intro st hst
        obtain ⟨cov, repl, rfl, _⟩ := (h l hl).subs st hst
        rfl
    simp [this]

theorem roundtrip_gsub4 (f : Font) (hf : FontOk f) (ls : List Lookup) (h : ∀ l ∈ ls, Lookup4Ok f l) :
    parseBytes f (explainGsub f ls) = .ok ls := by
  have := roundtrip_gsub_generic f 4 (readGsub4 f) (gsub4Sub f) (Gsub4Sub f) (gsub4_form f hf)
    (fun fuel => rfl) (gsub_kw_ok 4 (by decide)) (gsub4_dispatch f) ls
    (fun l hl => ⟨(h l hl).typ, (h l hl).flags, (h l hl).ne, (h l hl).subs⟩)
  rw [normalize_gsub4 f ls h] at this
  exact this

end SfntV.Dsl
