/-
C19 — GPOS 2, format 1 (glyph pairs): pair adjustments, sorted insertion of pairs, the subtable
fragment, and `roundtrip_gpos_lists` for descriptions of GPOS 1 and GPOS 2.1 lookups.
-/
import SfntV.Proofs.DslGpos1
set_option linter.unusedSimpArgs false
set_option linter.unusedVariables false
namespace SfntV.Dsl

/-! ### GPOS 2, format 1 (glyph pairs) -/

def lexLt (a b : Nat × Nat) : Prop := a.1 < b.1 ∨ (a.1 = b.1 ∧ a.2 < b.2)

theorem pairSet_append (k : Nat × Nat) (v : PairAdj) : ∀ (m : List ((Nat × Nat) × PairAdj)),
    (∀ e ∈ m, lexLt e.1 k) → pairSet m k v = m ++ [(k, v)] := by
  intro m
  induction m with
  | nil => intro _; rfl
  | cons e m ih =>
    intro h
    have he := h e (by simp)
    unfold pairSet
    have h1 : (e.1 == k) = false := by
      cases hh : e.1 == k with
      | false => rfl
      | true =>
        have : e.1 = k := by simpa using hh
        rw [this] at he
        rcases he with h | ⟨_, h⟩ <;> omega
    have h2 : (decide (k.1 < e.1.1) || (k.1 == e.1.1 && decide (k.2 < e.1.2))) = false := by
      rcases he with h | ⟨h, h'⟩
      · have : ¬ k.1 < e.1.1 := by omega
        have : ¬ k.1 = e.1.1 := by omega
        simp [*]
      · have : ¬ k.1 < e.1.1 := by omega
        have : ¬ k.2 < e.1.2 := by omega
        simp [*]
    simp only [h1, h2, Bool.false_eq_true, if_false]
    rw [ih (fun x hx => h x (by simp [hx]))]
    rfl

def PAOk (p : PairAdj) : Prop := (∀ r, p.1 = some r → VROk r) ∧ (∀ r, p.2 = some r → VROk r)

theorem amp_tokOk (nx : Option Nat) : TokOk tAmpersand (ascii [38]) nx := by
  right; right; right; left; exact ⟨38, rfl, by decide⟩

/-- `value [" & " value]` read by `readPairAdjust` -/
theorem frag_pairAdjust (p : PairAdj) (hp : PAOk p) (fuel : Nat) (hfuel : 5 ≤ fuel) :
    Frag (readPairAdjust fuel) (writePairAdjust p) (normPA p)
      (fun t => valueItem t = false ∧ [tAmpersand].contains t.typ = false) Safe := by
  obtain ⟨a, b⟩ := p
  unfold readPairAdjust writePairAdjust
  cases b with
  | none =>
    simp only []
    have hpp : writeValueRecord a ++ [] = writeValueRecord a ++ ([] ++ []) := by simp
    rw [hpp]
    refine frag_bind (frag_valueRecord a hp.1 fuel hfuel) ?_ (fun nx h => by simpa [nextRune, render] using h)
      (fun line t ht => by simpa [mkToks] using ht.1)
    refine frag_weaken (N := anyNext) ?_ (fun _ h => h) (fun _ _ => trivial)
    refine frag_bind (frag_optional_no [tAmpersand]) ?_ (fun _ _ => trivial)
      (fun line t ht => by simpa [mkToks] using ht.2)
    simp only [Bool.false_eq_true, if_false]
    exact frag_weaken (frag_pure _ _) (fun _ h => h) (fun _ _ => trivial)
  | some r =>
    simp only []
    have hpp : writeValueRecord a ++ ([sp, tk tAmpersand [38], sp] ++ writeValueRecord (some r)) =
        writeValueRecord a ++ (.ws [a1 32] :: ([.tok tAmpersand (ascii [38])] ++ (.ws [a1 32] :: (writeValueRecord (some r) ++ [])))) := by
      simp [sp, tk]
    rw [hpp]
    refine frag_bind (frag_valueRecord a hp.1 fuel hfuel) ?_ (fun nx _ => by
        have : nextRune (Piece.ws [a1 32] :: ([Piece.tok tAmpersand (ascii [38])] ++ (Piece.ws [a1 32] :: (writeValueRecord (some r) ++ [])))) nx = some 32 := by
          simp [nextRune, render, Piece.rbs, a1]
        rw [this]; exact safe_space)
      (fun line t _ => by
        apply valueItem_false_of_typ
        simp [mkToks, tAmpersand, tIdentifier])
    apply frag_ws [a1 32] ws_sp
    refine frag_bind (frag_optional_yes [tAmpersand] tAmpersand (ascii [38]) anyNext (by decide)
      (fun nx _ => amp_tokOk nx) (tk_canon tAmpersand _ (by decide))) ?_ (fun _ _ => trivial) (fun _ _ _ => trivial)
    simp only [if_true]
    apply frag_ws [a1 32] ws_sp
    refine frag_bind (frag_valueRecord (some r) hp.2 fuel hfuel) ?_ (fun nx h => by simpa [nextRune, render] using h)
      (fun line t ht => by simpa [mkToks] using ht.1)
    exact frag_weaken (frag_pure _ _) (fun _ h => h) (fun _ _ => trivial)

structure Gpos21Ok (f : Font) (pairs : List ((Nat × Nat) × PairAdj)) : Prop where
  ne : pairs ≠ []
  asc : (pairs.map (·.1)).Pairwise lexLt
  inFont : ∀ p ∈ pairs, p.1.1 < f.numGlyphs ∧ p.1.2 < f.numGlyphs
  adjOk : ∀ p ∈ pairs, PAOk p.2

theorem frag_gpos21 (f : Font) (hf : FontOk f) (first : Bool) (pairs : List ((Nat × Nat) × PairAdj))
    (h : Gpos21Ok f pairs) (fuel : Nat)
    (hfuel : tokCount ((newExplainer f).subtable first (.gpos2_1 pairs)) + 4 < fuel) :
    Frag (gpos2Sub f fuel) ((newExplainer f).subtable first (.gpos2_1 pairs))
      (.gpos2_1 (pairs.map fun p => (p.1, normPA p.2))) SubStop Safe := by
  obtain ⟨hne, hasc, hin, hadj⟩ := h
  let pc : (Nat × Nat) × PairAdj → List Piece := fun p =>
    (newExplainer f).writeGlyphList [p.1.1, p.1.2] ++ arrow ++ writePairAdjust p.2
  let upd : List ((Nat × Nat) × PairAdj) → (Nat × Nat) × PairAdj → List ((Nat × Nat) × PairAdj) :=
    fun m p => pairSet m p.1 (normPA p.2)
  cases pairs with
  | nil => exact absurd rfl hne
  | cons p0 rest =>
    obtain ⟨typ0, val0, ps0, hw0, hty0⟩ := writeGlyphList_head (newExplainer f) [p0.1.1, p0.1.2] (by simp)
    have hpieces : (newExplainer f).subtable first (.gpos2_1 (p0 :: rest)) =
        .ws [a1 32] :: (pc p0 ++ rest.flatMap (fun y => [commaP, sp] ++ pc y)) := by
      simp only [Explainer.subtable, List.map_cons, entries, List.flatMap_map]
      rfl
    rw [hpieces] at hfuel ⊢
    have hfuel' : tokCount (pc p0 ++ rest.flatMap (fun y => [commaP, sp] ++ pc y)) + 4 < fuel := by
      simpa [tokCount] using hfuel
    have hpc_le : ∀ p ∈ p0 :: rest, tokCount (pc p) + 4 < fuel := by
      intro p hp
      simp only [List.mem_cons] at hp
      rw [tokCount_append] at hfuel'
      rcases hp with rfl | hp
      · omega
      · have := tokCount_flatMap_mem (fun y => [commaP, sp] ++ pc y) rest p hp
        simp only [tokCount_append] at this
        omega
    have hlenr : rest.length < fuel := by
      have := length_le_tokCount_flatMap (fun y => [commaP, sp] ++ pc y) rest (by
        intro x _; simp [tokCount_append, commaP, tk, tokCount])
      rw [tokCount_append] at hfuel'
      omega
    apply frag_ws [a1 32] ws_sp
    unfold gpos2Sub
    have hpc0 : pc p0 ++ rest.flatMap (fun y => [commaP, sp] ++ pc y) =
        .tok typ0 val0 :: ((ps0 ++ arrow ++ writePairAdjust p0.2) ++ rest.flatMap (fun y => [commaP, sp] ++ pc y)) := by
      simp [pc, hw0]
    rw [hpc0]
    refine frag_peek_then _ _ _ _ _ _ _ (fun line => ?_)
    have hnb : (typ0 == tSlash) = false := by
      rcases hty0 with h | h | h <;> rw [h] <;> decide
    simp only [hnb, Bool.false_eq_true, if_false]
    rw [← hpc0]
    have hfold : ∀ (l : List ((Nat × Nat) × PairAdj)) (acc : List ((Nat × Nat) × PairAdj)),
        ((acc ++ l).map (·.1)).Pairwise lexLt → l.foldl upd acc = acc ++ l.map (fun p => (p.1, normPA p.2)) := by
      intro l
      induction l with
      | nil => intro acc _; simp
      | cons q l ih =>
        intro acc hA
        simp only [List.foldl_cons, upd]
        rw [pairSet_append q.1 (normPA q.2) acc (by
          intro e he
          simp only [List.map_append, List.map_cons, List.pairwise_append] at hA
          exact hA.2.2 e.1 (List.mem_map.mpr ⟨e, he, rfl⟩) q.1 (by simp))]
        have := ih (acc ++ [(q.1, normPA q.2)]) (by simpa [List.append_assoc] using hA)
        rw [this]; simp
    have hres : (p0 :: rest).foldl upd [] = (p0 :: rest).map (fun p => (p.1, normPA p.2)) := by
      have := hfold (p0 :: rest) [] (by simpa using hasc)
      simpa using this
    have hp : pc p0 ++ rest.flatMap (fun y => [commaP, sp] ++ pc y) =
        (pc p0 ++ rest.flatMap (fun y => [commaP, sp] ++ pc y)) ++ [] := by simp
    rw [hp]
    refine frag_bind (frag_pairsLoop _ pc upd
      SubStop (fun t => valueItem t = false ∧ [tAmpersand].contains t.typ = false) Safe Safe
      (fun t ht => ⟨by rcases ht with h | h | h <;> simp [h, tOr, tEOL, tEOF, tComma],
        subStop_noValue t ht, by rcases ht with h | h | h <;> simp [h, tOr, tEOL, tEOF, tAmpersand]⟩)
      (fun t ht => ⟨valueItem_false_of_typ t (by rw [ht]; decide), by simp [ht, tComma, tAmpersand]⟩)
      (fun _ h => h) safe_comma
      rest [] p0 fuel hlenr (fun i _ line => ?_) ?_) ?_ (fun nx h => by simpa [nextRune, render] using h)
        (fun line t ht => by simpa [mkToks] using ht)
    · obtain ⟨typ, val, ps, hw, hty⟩ := writeGlyphList_head (newExplainer f) [i.1.1, i.1.2] (by simp)
      refine ⟨{ typ := typ, val := val, line := line }, by simp [pc, hw, mkToks], ?_⟩
      rcases hty with h | h | h <;> simp [h, tIdentifier, tInteger, tString, tEOL]
    · intro pre i post e
      have hi : i ∈ p0 :: rest := by rw [e]; simp
      obtain ⟨hi1, hi2⟩ := hin i hi
      have hApre : ((pre ++ i :: post).map (·.1)).Pairwise lexLt := by rw [← e]; exact hasc
      have hpre : pre.foldl upd [] = pre.map (fun p => (p.1, normPA p.2)) := by
        have := hfold pre [] (by
          simp only [List.nil_append]
          simp only [List.map_append, List.pairwise_append] at hApre
          exact hApre.1)
        simpa using this
      have hlt : ∀ e' ∈ pre.map (fun p => (p.1, normPA p.2)), lexLt e'.1 i.1 := by
        intro e' he'
        simp only [List.mem_map] at he'
        obtain ⟨q, hq, rfl⟩ := he'
        simp only [List.map_append, List.map_cons, List.pairwise_append] at hApre
        exact hApre.2.2 q.1 (List.mem_map.mpr ⟨q, hq, rfl⟩) i.1 (by simp)
      have hpre' : (pre ++ [i]).foldl upd [] = pre.map (fun p => (p.1, normPA p.2)) ++ [(i.1, normPA i.2)] := by
        rw [List.foldl_append, hpre]
        simp only [List.foldl_cons, List.foldl_nil, upd]
        exact pairSet_append _ _ _ hlt
      rw [hpre, hpre']
      have hfi := hpc_le i hi
      simp only [pc, tokCount_append, arrow, sp, tk, tokCount] at hfi
      have hg := frag_glyphList f hf [i.1.1, i.1.2] (by
        intro g hg; simp at hg; rcases hg with rfl | rfl <;> assumption) fuel (by omega)
      have hpcs : pc i = (newExplainer f).writeGlyphList [i.1.1, i.1.2] ++ (arrow ++ (writePairAdjust i.2 ++ [])) := by
        simp [pc]
      rw [hpcs]
      refine frag_bind hg ?_ (fun nx _ => by
          have : nextRune (arrow ++ (writePairAdjust i.2 ++ [])) nx = some 32 := by
            simp [nextRune, render, arrow, sp, Piece.rbs, a1]
          rw [this]; exact safe_space)
        (fun line t _ => by apply arrow_noGlyph; simp [mkToks, arrow, sp, tk])
      simp only [List.length_cons, List.length_nil, bne_self_eq_false, Bool.false_eq_true, if_false]
      apply frag_arrow_then
      refine frag_bind (frag_pairAdjust i.2 (hadj i hi) fuel (by omega)) ?_
        (fun nx h => by simpa [nextRune, render] using h) (fun line t ht => by simpa [mkToks] using ht)
      simp only [List.headD_cons, List.drop_succ_cons, List.drop_zero]
      rw [pairSet_append _ _ _ hlt]
      exact frag_weaken (frag_pure _ _) (fun _ h => h) (fun _ _ => trivial)
    · rw [hres]
      exact frag_weaken (frag_pure _ SubStop) (fun _ h => h) (fun _ _ => trivial)

def Gpos21Sub (f : Font) (st : Subtable) : Prop := ∃ pairs, st = .gpos2_1 pairs ∧ Gpos21Ok f pairs

theorem gpos21_form (f : Font) (hf : FontOk f) : SubForm4 f (gpos2Sub f) (Gpos21Sub f) := by
  refine ⟨?_, ?_, ?_⟩
  · rintro st ⟨pairs, rfl, hok⟩ first fuel hfuel
    exact frag_gpos21 f hf first pairs hok fuel hfuel
  · rintro st ⟨pairs, rfl, hok⟩ first
    cases pairs with
    | nil => exact absurd rfl hok.ne
    | cons p0 rest =>
      refine ⟨((newExplainer f).writeGlyphList [p0.1.1, p0.1.2] ++ arrow ++ writePairAdjust p0.2) ++
        (rest.map fun p => (newExplainer f).writeGlyphList [p.1.1, p.1.2] ++ arrow ++ writePairAdjust p.2).flatMap
          (fun y => [commaP, sp] ++ y), ?_⟩
      simp [Explainer.subtable, entries, sp]
  · rintro st ⟨pairs, rfl, hok⟩ first line
    cases pairs with
    | nil => exact absurd rfl hok.ne
    | cons p0 rest =>
      obtain ⟨typ, val, ps, hw, hty⟩ := writeGlyphList_head (newExplainer f) [p0.1.1, p0.1.2] (by simp)
      refine ⟨{ typ := typ, val := val, line := line }, by simp [Explainer.subtable, entries, sp, hw, mkToks], ?_⟩
      rcases hty with h | h | h <;> simp [h, tIdentifier, tInteger, tString, tHyphen, tEOL]

theorem gpos2_dispatch (f : Font) (fuel : Nat) (t : Tok) (n : Nat) (acc : List Lookup) (s s1 : PS)
    (h : readItem s = .ok (t, s1)) (ht : t.typ = tIdentifier) (hb : t.bytes = kwPOS ++ decimal 2) :
    parseLoop f fuel (n + 1) acc s = (readGpos2 f fuel >>= fun l => parseLoop f fuel n (acc ++ [l])) s1 := by
  have hd : decimal 2 = [50] := by decide
  rw [hd] at hb
  conv => lhs; unfold parseLoop
  rw [bind_run, h]
  simp [ht, isIdent, hb, kwGSUB, kwGPOS, kwPOS, tIdentifier, tEOF, tError, tSemicolon, tEOL]

/-- GPOS 2 lookups all of whose subtables are of format 1 (glyph pairs) -/
structure LookupP21Ok (f : Font) (l : Lookup) : Prop where
  typ : l.typ = 2
  flags : l.flags < 16
  ne : l.subtables ≠ []
  subs : ∀ st ∈ l.subtables, Gpos21Sub f st

def GposLookOk (f : Font) (l : Lookup) : Prop := LookupP1Ok f l ∨ LookupP21Ok f l

/-- descriptions of GPOS lookups of type 1 and of type 2 with glyph-pair subtables, in any
order and number -/
theorem roundtrip_gpos_lists (f : Font) (hf : FontOk f) (ls : List Lookup) (h : ∀ l ∈ ls, GposLookOk f l) :
    parseBytes f (explainGpos f ls) = .ok (normalize ls) := by
  refine roundtrip_pos_of_items f ls (fun l hl => by
    rcases h l hl with h1 | h2
    · exact h1.ne
    · exact h2.ne) ?_
  intro l hl
  have hb := body_le_posText f ls l hl
  rcases h l hl with h1 | h2
  · obtain ⟨hc, hfr⟩ := body_of_form4 f 1 (readGpos1 f) (gpos1Sub f) (Gpos1Sub f) (gpos1_form f hf)
      (fun _ => rfl) l h1.typ h1.flags h1.ne h1.subs (tokCount (posText f ls) + 3) (by omega)
    exact ⟨readGpos1 f _, by rw [h1.typ]; exact pos_kw_ok 1 (by decide), by rw [h1.typ]; exact gpos1_dispatch f _, hc, hfr⟩
  · obtain ⟨hc, hfr⟩ := body_of_form4 f 2 (readGpos2 f) (gpos2Sub f) (Gpos21Sub f) (gpos21_form f hf)
      (fun _ => rfl) l h2.typ h2.flags h2.ne h2.subs (tokCount (posText f ls) + 3) (by omega)
    exact ⟨readGpos2 f _, by rw [h2.typ]; exact pos_kw_ok 2 (by decide), by rw [h2.typ]; exact gpos2_dispatch f _, hc, hfr⟩

end SfntV.Dsl
