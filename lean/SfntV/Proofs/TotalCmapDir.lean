/-
C02 (decoders are total): proofs about the checked-index models of the cmap table directory
group (`SfntV.Total.CmapDir`): `cmap.Decode`, `Table.Get`, `decodeFormat0`, `Format0.Lookup`,
`decodeFormat6`.  No panic, explicit cost bounds, what a successful `Decode` guarantees about the
stored subtables, and the bridging lemmas to the value-level models of property C09
(`SfntV.CmapTable.decode`, `SfntV.Cmap06.decode0`, `SfntV.Cmap06.decode6`).
-/
import SfntV.Proofs.TotalGdef
import SfntV.Model.TotalCmapDir

namespace SfntV.Total.CmapDir
open SfntV SfntV.Total
open SfntV.Total.Gdef (idx_ok ok_bind bind_noPanic bind_eq_ok w16_ok w16_lt w32_ok)
open SfntV.CmapTable (Key Seg Table sub32 hdrKind HdrKind insertAt tableGet)

/-! ## generic facts -/

theorem slice_ok (site : String) (xs : List α) (a b : Nat) (h1 : a ≤ b) (h2 : b ≤ xs.length) :
    slice site xs a b = .ok ((xs.drop a).take (b - a)) := by
  unfold slice
  rw [if_pos ⟨h1, h2⟩]

theorem slice_panic (site : String) (xs : List α) (a b : Nat) (h : ¬ (a ≤ b ∧ b ≤ xs.length)) :
    slice site xs a b = .panic site := by
  unfold slice
  rw [if_neg h]

theorem slice_eq_ok {site : String} {xs d : List α} {a b : Nat} (h : slice site xs a b = .ok d) :
    a ≤ b ∧ b ≤ xs.length ∧ d = (xs.drop a).take (b - a) := by
  unfold slice at h
  split at h
  · rename_i hc
    cases h
    exact ⟨hc.1, hc.2, rfl⟩
  · cases h

/-- forget the cost and the name of the panic site -/
def erase : Outcome (α × Cost) → Outcome α
  | .ok (a, _) => .ok a
  | .err e => .err e
  | .panic _ => .panic ""

/-- forget the name of the panic site -/
def unsite : Outcome α → Outcome α
  | .panic _ => .panic ""
  | x => x

theorem w16_eq_u16At (site : String) (b : Bytes) (i : Nat) (h : i + 2 ≤ b.length) :
    w16 site b i = .ok (SfntV.Cmap12.u16At b i) := by
  unfold w16 SfntV.Cmap12.u16At
  have h0 : idx site b i = idx site (b.drop i) 0 := by
    unfold idx; rw [List.getElem?_drop, Nat.add_zero]
  have h1 : idx site b (i + 1) = idx site (b.drop i) 1 := by
    unfold idx; rw [List.getElem?_drop]
  rw [h0, h1]
  have hm : 2 ≤ (b.drop i).length := by rw [List.length_drop]; omega
  generalize b.drop i = m at hm
  match m, hm with
  | x :: y :: r, _ => rfl

/-! ## `decodeFormat0`, `Format0.Lookup` -/

/-- `decodeFormat0` does not panic on data of at least 6 bytes (guaranteed by `cmap.Decode`, which
only stores subtables of at least 10 bytes). -/
theorem decodeFormat0_noPanic (data : Bytes) (h : 6 ≤ data.length) : (decodeFormat0 data).noPanic := by
  unfold decodeFormat0
  rw [slice_ok _ _ _ _ h (Nat.le_refl _)]
  show (if _ then _ else _ : Outcome (Bytes × Cost)).noPanic
  split <;> exact True.intro

/-- the guard is needed: the bare function panics at `data[6:]` below 6 bytes -/
theorem decodeFormat0_short_panics (data : Bytes) (h : data.length < 6) :
    decodeFormat0 data = .panic "format0.go:29#data[6:]" := by
  unfold decodeFormat0
  rw [slice_panic _ _ _ _ (by omega)]
  rfl

theorem decodeFormat0_ok {data d : Bytes} {c : Cost} (h : decodeFormat0 data = .ok (d, c)) :
    data.length = 262 ∧ d = data.drop 6 ∧ d.length = 256 ∧ c.steps = 256 ∧ c.alloc = 256 := by
  unfold decodeFormat0 at h
  obtain ⟨d', hd', h⟩ := bind_eq_ok h
  obtain ⟨h6, _, hd⟩ := slice_eq_ok hd'
  subst hd
  split at h
  · cases h
  · rename_i hl
    cases h
    have hl' : ((data.drop 6).take (data.length - 6)).length = 256 := by
      apply Classical.byContradiction; intro hne; exact hl hne
    have : (data.drop 6).take (data.length - 6) = data.drop 6 := by
      apply List.take_of_length_le; rw [List.length_drop]; omega
    rw [this] at hl' ⊢
    rw [List.length_drop] at hl'
    refine ⟨by omega, rfl, ?_, rfl, rfl⟩
    rw [List.length_drop]; omega

/-- a successful `decodeFormat0` costs 256 steps (the copy) and 256 allocated bytes: at most the
input size (262 bytes) -/
theorem decodeFormat0_cost (data d : Bytes) (c : Cost) (h : decodeFormat0 data = .ok (d, c)) :
    c.steps ≤ data.length ∧ c.alloc ≤ data.length ∧ c.steps ≤ 256 ∧ c.alloc ≤ 256 := by
  have := decodeFormat0_ok h
  omega

/-- bridging lemma to the value-level model of C09 -/
theorem decodeFormat0_erase (b : Bytes) : erase (decodeFormat0 b) = unsite (SfntV.Cmap06.decode0 b) := by
  unfold SfntV.Cmap06.decode0
  by_cases h : b.length < 6
  · rw [decodeFormat0_short_panics b h, if_pos h]; rfl
  · rw [if_neg h]
    unfold decodeFormat0
    rw [slice_ok _ _ _ _ (by omega) (Nat.le_refl _)]
    have : (b.drop 6).take (b.length - 6) = b.drop 6 := by
      apply List.take_of_length_le; rw [List.length_drop]; omega
    rw [this]
    show erase (if _ then _ else _) = unsite (if _ then _ else _)
    split <;> rfl

/-! ### `decodeFormat0` with a non-nil `code2rune` (repair 0c896bc) -/

theorem loop0_spec (c2r : Nat → Nat) : ∀ (l : Bytes) (i : Nat) (c : Cost),
    (loop0 c2r l i c).2.steps = c.steps + l.length ∧ (loop0 c2r l i c).2.alloc ≤ c.alloc + l.length ∧
    (loop0 c2r l i c).1.length ≤ l.length
  | [], _, c => by simp [loop0]
  | g :: rest, i, c => by
    unfold loop0
    dsimp only
    by_cases hg : g.toNat ≠ 0
    · have ih := loop0_spec c2r rest (i + 1) (c.tick.mem 1)
      simp only [if_pos hg, Cost.tick, Cost.mem, List.length_cons] at ih ⊢
      omega
    · have ih := loop0_spec c2r rest (i + 1) c.tick
      simp only [if_neg hg, Cost.tick, List.length_cons] at ih ⊢
      omega

/-- the Macintosh branch does not panic on data of at least 6 bytes either … -/
theorem decodeFormat0C2r_noPanic (c2r : Nat → Nat) (data : Bytes) (h : 6 ≤ data.length) :
    (decodeFormat0C2r c2r data).noPanic := by
  unfold decodeFormat0C2r
  rw [slice_ok _ _ _ _ h (Nat.le_refl _)]
  show (if _ then _ else _ : Outcome (List (Nat × Nat) × Cost)).noPanic
  split <;> exact True.intro

/-- … and has the same bare-function guard -/
theorem decodeFormat0C2r_short_panics (c2r : Nat → Nat) (data : Bytes) (h : data.length < 6) :
    decodeFormat0C2r c2r data = .panic "format0.go:29#data[6:]" := by
  unfold decodeFormat0C2r
  rw [slice_panic _ _ _ _ (by omega)]
  rfl

/-- cost of the Macintosh branch: 256 loop iterations, at most 256 map entries plus the map -/
theorem decodeFormat0C2r_cost (c2r : Nat → Nat) (data : Bytes) (ws : List (Nat × Nat)) (c : Cost)
    (h : decodeFormat0C2r c2r data = .ok (ws, c)) :
    data.length = 262 ∧ c.steps = 256 ∧ c.alloc ≤ 257 ∧ ws.length ≤ 256 ∧
      c.steps ≤ data.length ∧ c.alloc ≤ data.length := by
  unfold decodeFormat0C2r at h
  obtain ⟨d', hd', h⟩ := bind_eq_ok h
  obtain ⟨h6, _, hd⟩ := slice_eq_ok hd'
  subst hd
  split at h
  · cases h
  · rename_i hl
    have hl' : ((data.drop 6).take (data.length - 6)).length = 256 := by
      apply Classical.byContradiction; intro hne; exact hl hne
    have hsp := loop0_spec c2r ((data.drop 6).take (data.length - 6)) 0 (Cost.zero.mem 1)
    injection h with h
    rw [h] at hsp
    rw [hl'] at hsp
    simp only [Cost.zero, Cost.mem] at hsp
    rw [List.length_take, List.length_drop] at hl'
    omega

theorem loop0_erase (c2r : Nat → Nat) (d : Bytes) : ∀ (n i : Nat) (c : Cost), i + n = d.length →
    (loop0 c2r (d.drop i) i c).1 = (List.range' i n).filterMap fun k =>
      let g := (d.getD k 0).toNat
      if g ≠ 0 then some (c2r k % 65536, g) else none
  | 0, i, c, h => by
    rw [List.drop_eq_nil_of_le (by omega)]
    rfl
  | n+1, i, c, h => by
    have hi : i < d.length := by omega
    rw [List.drop_eq_getElem_cons hi, List.range'_succ, List.filterMap_cons]
    unfold loop0
    dsimp only
    have hg : (d.getD i 0) = d[i] := by
      rw [List.getD_eq_getElem?_getD, List.getElem?_eq_getElem hi]; rfl
    rw [hg]
    by_cases h0 : d[i].toNat ≠ 0
    · rw [if_pos h0, if_pos h0, if_pos h0]
      dsimp only
      rw [loop0_erase c2r d n (i + 1) _ (by omega)]
    · rw [if_neg h0, if_neg h0, if_neg h0]
      dsimp only
      rw [loop0_erase c2r d n (i + 1) _ (by omega)]

/-- bridging lemma to C09's model of the repaired Macintosh branch -/
theorem decodeFormat0C2r_erase (c2r : Nat → Nat) (b : Bytes) :
    erase (decodeFormat0C2r c2r b) = unsite (SfntV.Cmap06.decode0c2r c2r b) := by
  unfold SfntV.Cmap06.decode0c2r SfntV.Cmap06.decode0
  by_cases h : b.length < 6
  · rw [decodeFormat0C2r_short_panics c2r b h, if_pos h]; rfl
  · rw [if_neg h]
    unfold decodeFormat0C2r
    rw [slice_ok _ _ _ _ (by omega) (Nat.le_refl _)]
    have : (b.drop 6).take (b.length - 6) = b.drop 6 := by
      apply List.take_of_length_le; rw [List.length_drop]; omega
    rw [this, ok_bind]
    dsimp only
    by_cases hl : (b.drop 6).length ≠ 256
    · rw [if_pos hl, if_pos hl]; rfl
    · rw [if_neg hl, if_neg hl]
      have hl' : (b.drop 6).length = 256 := Classical.not_not.mp hl
      have he := loop0_erase c2r (b.drop 6) 256 0 (Cost.zero.mem 1) (by omega)
      rw [List.drop_zero] at he
      show Outcome.ok _ = Outcome.ok _
      rw [he, List.range_eq_range']

/-- `Format0.Lookup(r)` (as repaired) returns a glyph for EVERY rune, negative ones included, on
the 256-byte array of a decoded format 0 subtable -/
theorem Format0_lookup_safe (d : Bytes) (hd : d.length = 256) (r : Int) : (lookup0 d r).noPanic := by
  unfold lookup0
  split
  · exact True.intro
  · rename_i hg
    have hn : r.toNat < d.length := by omega
    show ((idx _ d r.toNat) >>= _).noPanic
    rw [idx_ok _ d r.toNat hn]
    exact True.intro

/-- negative runes give glyph 0 -/
theorem lookup0_negative (d : Bytes) (r : Int) (hr : r < 0) : lookup0 d r = .ok 0 := by
  unfold lookup0
  rw [if_pos (Or.inl hr)]

/-- the finding (C02-format0-lookup-negative) about the code BEFORE the repair: every negative
rune passed the guard `r > 255` and panicked at `cmap.Data[r]` -/
theorem Format0_lookup_negative_panics (d : Bytes) (r : Int) (hr : r < 0) :
    lookup0Old d r = .panic "format0.go:54#cmap.Data[r]" := by
  unfold lookup0Old
  rw [if_neg (by omega)]
  match r, hr with
  | .negSucc _, _ => rfl

/-- for non-negative runes the checked lookup is the value-level `lookup0` of C09 -/
theorem lookup0_erase (d : Bytes) (hd : d.length = 256) (n : Nat) :
    lookup0 d (n : Int) = .ok (SfntV.Cmap06.lookup0 d n) := by
  unfold lookup0 SfntV.Cmap06.lookup0
  by_cases h : n > 255
  · rw [if_pos (Or.inr (by omega)), if_pos h]
  · rw [if_neg (by omega), if_neg h]
    show ((idx _ d (n : Int).toNat) >>= _) = _
    rw [Int.toNat_natCast, idx_ok _ d n (by omega), ok_bind]
    show Outcome.ok _ = _
    rw [List.getD_eq_getElem?_getD, List.getElem?_eq_getElem (by omega : n < d.length)]
    rfl

/-! ## `decodeFormat6` -/

theorem loop6_noPanic (c2r : Nat → Nat) (arr : Bytes) (fc : Nat) : ∀ (n i : Nat) (c : Cost),
    2 * (i + n) ≤ arr.length → (loop6 c2r arr fc n i c).noPanic
  | 0, _, _, _ => True.intro
  | n+1, i, c, h => by
    unfold loop6
    obtain ⟨g, hg, _⟩ := w16_ok "format6.go:44#data[2*i],data[2*i+1]" arr (2 * i) (by omega)
    rw [hg, ok_bind]
    refine bind_noPanic (loop6_noPanic c2r arr fc n (i + 1) _ (by omega)) (fun r _ => ?_)
    exact True.intro

theorem loop6_ok (c2r : Nat → Nat) (arr : Bytes) (fc : Nat) : ∀ (n i : Nat) (c c' : Cost)
    (ws : List (Nat × Nat)), loop6 c2r arr fc n i c = .ok (ws, c') →
    c'.steps = c.steps + n ∧ c'.alloc ≤ c.alloc + n ∧ ws.length ≤ n
  | 0, _, c, c', ws, h => by
    unfold loop6 at h
    cases h
    simp
  | n+1, i, c, c', ws, h => by
    unfold loop6 at h
    obtain ⟨g, _, h⟩ := bind_eq_ok h
    obtain ⟨⟨rest, c1⟩, hr, h⟩ := bind_eq_ok h
    have ih := loop6_ok c2r arr fc n (i + 1) _ c1 rest hr
    cases h
    by_cases hg : g ≠ 0
    · simp only [if_pos hg, Cost.tick, Cost.mem, List.length_cons] at ih ⊢
      omega
    · simp only [if_neg hg, Cost.tick, Cost.mem] at ih ⊢
      omega

/-- the (possibly shortened) data after the "excess 0x0000" test of format6.go:33-35 -/
theorem f6_trim_noPanic (data : Bytes) (count : Nat) :
    ∃ d', (if data.length = 10 + 2 * count + 2 then do
      let x ← idx "format6.go:33#data[10+2*count]" data (10 + 2 * count)
      if x ≠ 0 then pure data else
      let y ← idx "format6.go:33#data[10+2*count+1]" data (10 + 2 * count + 1)
      if y ≠ 0 then pure data else
      slice "format6.go:34#data[:10+2*count]" data 0 (10 + 2 * count)
    else pure data : Outcome Bytes) = .ok d' ∧ d'.length ≤ data.length ∧
      d' = (if data.length = 10 + 2 * count + 2 ∧ SfntV.Cmap12.u16At data (10 + 2 * count) = 0
        then data.take (10 + 2 * count) else data) := by
  by_cases hl : data.length = 10 + 2 * count + 2
  · rw [if_pos hl]
    have hu := w16_eq_u16At "" data (10 + 2 * count) (by omega)
    unfold w16 at hu
    rw [idx_ok _ data (10 + 2 * count) (by omega), idx_ok _ data (10 + 2 * count + 1) (by omega)] at hu
    simp only [ok_bind] at hu
    have hu' : be data[10 + 2 * count] data[10 + 2 * count + 1] = SfntV.Cmap12.u16At data (10 + 2 * count) := by
      injection hu
    rw [idx_ok _ data (10 + 2 * count) (by omega), ok_bind]
    have hx := data[10 + 2 * count].toNat_lt
    have hy := data[10 + 2 * count + 1].toNat_lt
    unfold be at hu'
    by_cases hx0 : data[10 + 2 * count] ≠ 0
    · rw [if_pos hx0]
      refine ⟨data, rfl, Nat.le_refl _, ?_⟩
      have : data[10 + 2 * count].toNat ≠ 0 := fun h => hx0 (UInt8.toNat_inj.mp h)
      rw [if_neg (by omega)]
    · rw [if_neg hx0, idx_ok _ data (10 + 2 * count + 1) (by omega), ok_bind]
      have hx0' : data[10 + 2 * count].toNat = 0 := by
        have : data[10 + 2 * count] = 0 := Classical.not_not.mp hx0
        rw [this]; rfl
      by_cases hy0 : data[10 + 2 * count + 1] ≠ 0
      · rw [if_pos hy0]
        refine ⟨data, rfl, Nat.le_refl _, ?_⟩
        have : data[10 + 2 * count + 1].toNat ≠ 0 := fun h => hy0 (UInt8.toNat_inj.mp h)
        rw [if_neg (by omega)]
      · rw [if_neg hy0, slice_ok _ _ _ _ (Nat.zero_le _) (by omega)]
        have hy0' : data[10 + 2 * count + 1].toNat = 0 := by
          have : data[10 + 2 * count + 1] = 0 := Classical.not_not.mp hy0
          rw [this]; rfl
        refine ⟨_, rfl, ?_, ?_⟩
        · rw [List.length_take, List.length_drop]; omega
        · rw [if_pos ⟨hl, by omega⟩, List.drop_zero, Nat.sub_zero]
  · rw [if_neg hl]
    exact ⟨data, rfl, Nat.le_refl _, by rw [if_neg (fun h => hl h.1)]⟩

/-- `decodeFormat6` never panics, whatever the data and the code-to-rune function -/
theorem decodeFormat6_noPanic (c2r : Nat → Nat) (data : Bytes) : (decodeFormat6 c2r data).noPanic := by
  unfold decodeFormat6
  split
  · exact True.intro
  · rename_i hlen
    obtain ⟨fc, hfc, _⟩ := w16_ok "format6.go:29#data[6],data[7]" data 6 (by omega)
    obtain ⟨cnt, hcnt, _⟩ := w16_ok "format6.go:30#data[8],data[9]" data 8 (by omega)
    rw [hfc, ok_bind, hcnt, ok_bind]
    obtain ⟨d', hd', _, _⟩ := f6_trim_noPanic data cnt
    rw [hd', ok_bind]
    split
    · exact True.intro
    · rename_i hc
      have hl : d'.length = 10 + 2 * cnt := by omega
      rw [slice_ok _ _ _ _ (by omega) (Nat.le_refl _), ok_bind]
      apply loop6_noPanic
      rw [List.length_take, List.length_drop]
      omega

theorem decodeFormat6_ok {c2r : Nat → Nat} {data : Bytes} {ws : List (Nat × Nat)} {c : Cost}
    (h : decodeFormat6 c2r data = .ok (ws, c)) :
    ∃ count, 10 + 2 * count ≤ data.length ∧ c.steps = 2 + count ∧ c.alloc ≤ 1 + count ∧
      ws.length ≤ count := by
  unfold decodeFormat6 at h
  split at h
  · cases h
  · obtain ⟨fc, _, h⟩ := bind_eq_ok h
    obtain ⟨cnt, _, h⟩ := bind_eq_ok h
    obtain ⟨d', hd', hle, _⟩ := f6_trim_noPanic data cnt
    rw [hd', ok_bind] at h
    split at h
    · cases h
    · rename_i hc
      obtain ⟨arr, _, h⟩ := bind_eq_ok h
      have := loop6_ok c2r arr fc cnt 0 _ c ws h
      simp only [Cost.tick, Cost.mem, Cost.zero] at this
      exact ⟨cnt, by omega, by omega, by omega, by omega⟩

/-- a successful `decodeFormat6` executed at most `|data|/2` reads/iterations and created at most
`|data|/2` map entries -/
theorem decodeFormat6_cost (c2r : Nat → Nat) (data : Bytes) (ws : List (Nat × Nat)) (c : Cost)
    (h : decodeFormat6 c2r data = .ok (ws, c)) :
    c.steps ≤ data.length / 2 ∧ c.alloc ≤ data.length / 2 := by
  obtain ⟨count, h1, h2, h3, _⟩ := decodeFormat6_ok h
  omega

theorem loop6_erase (c2r : Nat → Nat) (arr : Bytes) (fc : Nat) : ∀ (n i : Nat) (c : Cost),
    2 * (i + n) ≤ arr.length →
    erase (loop6 c2r arr fc n i c) = .ok (SfntV.Cmap06.loop6 c2r arr fc i n)
  | 0, _, _, _ => rfl
  | n+1, i, c, h => by
    unfold loop6 SfntV.Cmap06.loop6
    rw [w16_eq_u16At _ arr (2 * i) (by omega), ok_bind]
    have ih := loop6_erase c2r arr fc n (i + 1)
      (if SfntV.Cmap12.u16At arr (2 * i) ≠ 0 then c.tick.mem 1 else c.tick) (by omega)
    cases hl : loop6 c2r arr fc n (i + 1)
      (if SfntV.Cmap12.u16At arr (2 * i) ≠ 0 then c.tick.mem 1 else c.tick) with
    | ok p =>
      obtain ⟨rest, c'⟩ := p
      rw [hl] at ih
      have : rest = SfntV.Cmap06.loop6 c2r arr fc (i + 1) n := by
        injection ih
      subst this
      rfl
    | err e => rw [hl] at ih; cases ih
    | panic s => rw [hl] at ih; cases ih

/-- the value-level result type of C09's format 6 model as an `Outcome` -/
def ofRes6 : SfntV.Cmap06.Res6 → Outcome (List (Nat × Nat))
  | .ok w => .ok w
  | .err => .err "malformed-subtable"

/-- bridging lemma to the value-level model of C09 (same code-to-rune function) -/
theorem decodeFormat6_erase (c2r : Nat → Nat) (b : Bytes) :
    erase (decodeFormat6 c2r b) = ofRes6 (SfntV.Cmap06.decode6 b c2r) := by
  unfold decodeFormat6 SfntV.Cmap06.decode6
  by_cases hlen : b.length < 10
  · rw [if_pos hlen, if_pos hlen]; rfl
  · rw [if_neg hlen, if_neg hlen]
    rw [w16_eq_u16At _ b 6 (by omega), ok_bind, w16_eq_u16At _ b 8 (by omega), ok_bind]
    obtain ⟨d', hd', _, hdef⟩ := f6_trim_noPanic b (SfntV.Cmap12.u16At b 8)
    rw [hd', ok_bind]
    dsimp only
    rw [← hdef]
    split
    · rfl
    · rename_i hc
      have hl : d'.length = 10 + 2 * SfntV.Cmap12.u16At b 8 := by omega
      rw [slice_ok _ _ _ _ (by omega) (Nat.le_refl _), ok_bind]
      have : (d'.drop 10).take (d'.length - 10) = d'.drop 10 := by
        apply List.take_of_length_le; rw [List.length_drop]; omega
      rw [this, loop6_erase _ _ _ _ _ _ (by rw [List.length_drop]; omega)]
      rfl

/-! ## `cmap.Decode`: the binary search and the overlap check -/

theorem search_ok (o : Nat) (segs : List Seg) : ∀ (fuel i j p : Nat), i ≤ j → j ≤ segs.length →
    ∃ r q, search o segs fuel i j p = .ok (r, q) ∧ i ≤ r ∧ r ≤ j ∧ q ≤ p + (j - i)
  | 0, i, j, p, hij, _ => ⟨i, p, rfl, Nat.le_refl _, hij, by omega⟩
  | fuel+1, i, j, p, hij, hj => by
    unfold search
    by_cases hlt : i < j
    · rw [if_pos hlt]
      have hh : (i + j) / 2 < segs.length := by omega
      dsimp only
      rw [idx_ok _ segs _ hh, ok_bind]
      split
      · obtain ⟨r, q, h, h1, h2, h3⟩ := search_ok o segs fuel i ((i + j) / 2) (p + 1) (by omega) (by omega)
        exact ⟨r, q, h, h1, by omega, by omega⟩
      · obtain ⟨r, q, h, h1, h2, h3⟩ := search_ok o segs fuel ((i + j) / 2 + 1) j (p + 1) (by omega) hj
        exact ⟨r, q, h, by omega, h2, by omega⟩
    · rw [if_neg hlt]
      exact ⟨i, p, rfl, Nat.le_refl _, hij, by omega⟩

theorem insertAt_length (segs : List Seg) (i : Nat) (s : Seg) (h : i ≤ segs.length) :
    (insertAt segs i s).length = segs.length + 1 := by
  unfold insertAt
  rw [List.length_append, List.length_cons, List.length_take, List.length_drop]
  omega

/-- the overlap check never panics; when it succeeds it made at most `|segs|` probes, moved at
most `|segs|` elements and allocated at most one -/
theorem overlap_spec (segs : List Seg) (o length : Nat) (c : Cost) :
    (overlap segs o length c).noPanic ∧
    ∀ segs' c', overlap segs o length c = .ok (segs', c') →
      c'.steps ≤ c.steps + 2 * segs.length ∧ c'.alloc ≤ c.alloc + 1 ∧
      segs'.length ≤ segs.length + 1 := by
  unfold overlap
  obtain ⟨i, q, hs, _, hi, hq⟩ := search_ok o segs (segs.length + 1) 0 segs.length 0
    (Nat.zero_le _) (Nat.le_refl _)
  rw [hs, ok_bind]
  dsimp only
  -- first condition
  have hd : ∃ dv, (if i = segs.length then pure true else do
      let s ← idx "cmap.go:124#segs[idx]" segs i
      pure (decide (o ≠ s.start)) : Outcome Bool) = .ok dv := by
    by_cases h : i = segs.length
    · rw [if_pos h]; exact ⟨_, rfl⟩
    · rw [if_neg h, idx_ok _ segs i (by omega)]; exact ⟨_, rfl⟩
  obtain ⟨dv, hdv⟩ := hd
  rw [hdv, ok_bind]
  cases dv with
  | false =>
    refine ⟨True.intro, fun segs' c' h => ?_⟩
    injection h with h
    injection h with h1 h2
    subst h1 h2
    simp only [Cost.tick]
    omega
  | true =>
    have hb1 : ∃ bv, (if i > 0 then do
        let s ← idx "cmap.go:125#segs[idx-1]" segs (i - 1)
        pure (decide (o < s.stop))
      else pure false : Outcome Bool) = .ok bv := by
      by_cases h : i > 0
      · rw [if_pos h, idx_ok _ segs (i - 1) (by omega)]; exact ⟨_, rfl⟩
      · rw [if_neg h]; exact ⟨_, rfl⟩
    obtain ⟨bv, hbv⟩ := hb1
    simp only [Bool.not_true, Bool.false_eq_true, if_false]
    rw [hbv, ok_bind]
    have hb2 : ∃ bw, (if bv = true then pure true else if i < segs.length then do
        let s ← idx "cmap.go:126#segs[idx]" segs i
        pure (decide ((o + length) % 4294967296 > s.start))
      else pure false : Outcome Bool) = .ok bw := by
      by_cases h : bv = true
      · rw [if_pos h]; exact ⟨_, rfl⟩
      · rw [if_neg h]
        by_cases h2 : i < segs.length
        · rw [if_pos h2, idx_ok _ segs i h2]; exact ⟨_, rfl⟩
        · rw [if_neg h2]; exact ⟨_, rfl⟩
    obtain ⟨bw, hbw⟩ := hb2
    rw [hbw, ok_bind]
    cases bw with
    | true => exact ⟨True.intro, fun _ _ h => by cases h⟩
    | false =>
      simp only [Bool.false_eq_true, if_false]
      rw [if_neg (by omega)]
      refine ⟨True.intro, fun segs' c' h => ?_⟩
      injection h with h
      injection h with h1 h2
      subst h1 h2
      rw [insertAt_length _ _ _ hi]
      simp only [Cost.tick, Cost.mem]
      omega

/-! ## `cmap.Decode`: one record -/

theorem sub32_eq (a b : Nat) (h1 : b ≤ a) (h2 : a < 4294967296) : sub32 a b = a - b := by
  unfold sub32
  omega

/-- the format word of a stored subtable is the one `Decode` looked at -/
theorem w16_window {site site' : String} {b : Bytes} {o len f : Nat} (hl : 2 ≤ len)
    (h : w16 site b o = .ok f) : w16 site' ((b.drop o).take len) 0 = .ok f := by
  unfold w16 at h ⊢
  obtain ⟨hi, h1, h⟩ := bind_eq_ok h
  obtain ⟨lo, h2, h⟩ := bind_eq_ok h
  have e1 : idx site' ((b.drop o).take len) 0 = .ok hi := by
    unfold idx at h1 ⊢
    rw [List.getElem?_take_of_lt (by omega), List.getElem?_drop, Nat.add_zero]
    cases hb : b[o]? with
    | none => rw [hb] at h1; cases h1
    | some v => rw [hb] at h1; injection h1 with h1; rw [h1]
  have e2 : idx site' ((b.drop o).take len) (0 + 1) = .ok lo := by
    unfold idx at h2 ⊢
    rw [List.getElem?_take_of_lt (by omega), List.getElem?_drop, Nat.zero_add]
    cases hb : b[o + 1]? with
    | none => rw [hb] at h2; cases h2
    | some v => rw [hb] at h2; injection h2 with h2; rw [h2]
  rw [e1, ok_bind, e2, ok_bind]
  exact h

theorem lenLang_noPanic (b : Bytes) (eod o : Nat) (k : HdrKind) (heod : eod = b.length)
    (h32 : b.length < 4294967296) (h12 : 12 ≤ b.length) (ho : o + 10 ≤ b.length) :
    (lenLang b eod o k).noPanic := by
  unfold lenLang
  cases k with
  | len16 =>
    dsimp only
    obtain ⟨v, hv, _⟩ := w16_ok "cmap.go:92#data[o+2],data[o+3]" b (o + 2) (by omega)
    obtain ⟨w, hw, _⟩ := w16_ok "cmap.go:93#data[o+4],data[o+5]" b (o + 4) (by omega)
    rw [hv, ok_bind, hw, ok_bind]
    exact True.intro
  | len32 =>
    dsimp only
    split
    · exact True.intro
    · rename_i hgt
      rw [heod, sub32_eq _ _ (by omega) h32] at hgt
      obtain ⟨v, hv⟩ := w32_ok "cmap.go:99#data[o+4..o+7]" b (o + 4) (by omega)
      obtain ⟨w, hw, _⟩ := w16_ok "cmap.go:103#data[o+10],data[o+11]" b (o + 10) (by omega)
      rw [hv, ok_bind, hw, ok_bind]
      exact True.intro
  | len14 =>
    dsimp only
    obtain ⟨v, hv⟩ := w32_ok "cmap.go:105#data[o+2..o+5]" b (o + 2) (by omega)
    rw [hv, ok_bind]
    exact True.intro
  | bad => exact True.intro

theorem lenLang_ok {b : Bytes} {eod o : Nat} {k : HdrKind} {len lang chk : Nat}
    (h : lenLang b eod o k = .ok (len, lang, chk)) :
    k ≠ .bad ∧ (k = .len32 → chk = 12) ∧ 10 ≤ chk := by
  unfold lenLang at h
  cases k with
  | len16 =>
    dsimp only at h
    obtain ⟨_, _, h⟩ := bind_eq_ok h
    obtain ⟨_, _, h⟩ := bind_eq_ok h
    cases h
    exact ⟨by simp, by simp, by omega⟩
  | len32 =>
    dsimp only at h
    split at h
    · cases h
    · obtain ⟨_, _, h⟩ := bind_eq_ok h
      obtain ⟨_, _, h⟩ := bind_eq_ok h
      cases h
      exact ⟨by simp, by simp, by omega⟩
  | len14 =>
    dsimp only at h
    obtain ⟨_, _, h⟩ := bind_eq_ok h
    cases h
    exact ⟨by simp, by simp, by omega⟩
  | bad => cases h

/-- what `Decode` guarantees about a stored subtable: at least 10 bytes (12 for formats 8-13),
and a format word in {0,2,4,6,8,10,12,13,14} -/
def GoodSub (d : Bytes) : Prop :=
  10 ≤ d.length ∧ ∃ f, w16 "cmap.go:225#data[0],data[1]" d 0 = .ok f ∧ hdrKind f ≠ .bad ∧
    (hdrKind f = .len32 → 12 ≤ d.length)

theorem hdrKind_ne_bad (f : Nat) :
    hdrKind f ≠ .bad ↔ f ∈ [0, 2, 4, 6, 8, 10, 12, 13, 14] := by
  unfold hdrKind
  simp only [List.mem_cons, List.not_mem_nil, or_false]
  constructor
  · intro h
    split at h
    · omega
    · split at h
      · omega
      · split at h
        · omega
        · exact absurd rfl h
  · intro h
    split
    · simp
    · split
      · simp
      · split
        · simp
        · omega

theorem hdrKind_len32 (f : Nat) : hdrKind f = .len32 ↔ f ∈ [8, 10, 12, 13] := by
  unfold hdrKind
  simp only [List.mem_cons, List.not_mem_nil, or_false]
  constructor
  · intro h
    split at h
    · cases h
    · split at h
      · omega
      · split at h <;> cases h
  · intro h
    rw [if_neg (by omega), if_pos (by omega)]

/-- one record: no panic; on success the cost grows by at most `2·|segs|` steps and 2 elements,
the segment list by at most one, and the stored subtable is good -/
theorem record_spec (b : Bytes) (eoh eod i : Nat) (segs : List Seg) (c : Cost)
    (heod : eod = b.length) (h32 : b.length < 4294967296) (hi : 4 + 8 * (i + 1) ≤ b.length) :
    (record b eoh eod i segs c).noPanic ∧
    ∀ kd segs' c', record b eoh eod i segs c = .ok (kd, segs', c') →
      c'.steps ≤ c.steps + 2 * segs.length ∧ c'.alloc ≤ c.alloc + 2 ∧
      segs'.length ≤ segs.length + 1 ∧ GoodSub kd.2 := by
  unfold record
  obtain ⟨p, hp, _⟩ := w16_ok "cmap.go:72#data[4+i*8],data[5+i*8]" b (4 + i * 8) (by omega)
  rw [hp, ok_bind]
  split
  · exact ⟨True.intro, fun _ _ _ h => by cases h⟩
  obtain ⟨e, he, _⟩ := w16_ok "cmap.go:76#data[6+i*8],data[7+i*8]" b (6 + i * 8) (by omega)
  obtain ⟨o, ho⟩ := w32_ok "cmap.go:78#data[8+i*8..11+i*8]" b (8 + i * 8) (by omega)
  rw [he, ok_bind, ho, ok_bind]
  split
  · exact ⟨True.intro, fun _ _ _ h => by cases h⟩
  rename_i hoo
  rw [heod, sub32_eq _ _ (by omega) h32] at hoo
  have ho10 : o + 10 ≤ b.length := by omega
  obtain ⟨f, hf, _⟩ := w16_ok "cmap.go:88#data[o],data[o+1]" b o (by omega)
  rw [hf, ok_bind]
  have hll := lenLang_noPanic b eod o (hdrKind f) heod h32 (by omega) ho10
  cases hl : lenLang b eod o (hdrKind f) with
  | panic s => rw [hl] at hll; exact absurd hll (by intro h; exact h)
  | err e => exact ⟨True.intro, fun _ _ _ h => by cases h⟩
  | ok r =>
    obtain ⟨len, lang, chk⟩ := r
    obtain ⟨hk1, hk2, hk3⟩ := lenLang_ok hl
    rw [ok_bind]
    dsimp only
    split
    · exact ⟨True.intro, fun _ _ _ h => by cases h⟩
    rename_i hlen
    rw [heod, sub32_eq _ _ (by omega) h32] at hlen
    have hmod : (o + len) % 4294967296 = o + len := Nat.mod_eq_of_lt (by omega)
    obtain ⟨hov1, hov2⟩ := overlap_spec segs o len c
    cases hov : overlap segs o len c with
    | panic s => rw [hov] at hov1; exact absurd hov1 (by intro h; exact h)
    | err e => exact ⟨True.intro, fun _ _ _ h => by cases h⟩
    | ok r2 =>
      obtain ⟨segs1, c1⟩ := r2
      obtain ⟨hc1, hc2, hc3⟩ := hov2 segs1 c1 hov
      rw [ok_bind]
      dsimp only
      rw [hmod, slice_ok _ _ _ _ (by omega) (by omega), ok_bind]
      refine ⟨True.intro, fun kd segs' c' h => ?_⟩
      injection h with h
      injection h with h1 h2
      injection h2 with h2 h3
      subst h1 h2 h3
      refine ⟨hc1, by simp only [Cost.mem]; omega, hc3, ?_⟩
      dsimp only
      have hdl : ((b.drop o).take (o + len - o)).length = len := by
        rw [List.length_take, List.length_drop]; omega
      refine ⟨by omega, f, ?_, hk1, fun h => by have := hk2 h; omega⟩
      exact w16_window (by omega) hf

/-! ## `cmap.Decode`: the loop and the whole function -/

theorem loop_spec (b : Bytes) (eoh eod : Nat) (heod : eod = b.length) (h32 : b.length < 4294967296) :
    ∀ (k i : Nat) (segs : List Seg) (c : Cost), 4 + 8 * (i + k) ≤ b.length → segs.length ≤ i →
    (loop b eoh eod k i segs c).noPanic ∧
    ∀ t c', loop b eoh eod k i segs c = .ok (t, c') →
      c'.steps + i * i ≤ c.steps + (i + k) * (i + k) ∧ c'.alloc ≤ c.alloc + 2 * k ∧
      t.length = k ∧ ∀ kd ∈ t, GoodSub kd.2
  | 0, i, segs, c, _, _ => by
    refine ⟨True.intro, fun t c' h => ?_⟩
    unfold loop at h
    injection h with h
    injection h with h1 h2
    subst h1 h2
    exact ⟨Nat.le_refl _, Nat.le_refl _, rfl, fun _ hm => by cases hm⟩
  | k+1, i, segs, c, hik, hsl => by
    unfold loop
    obtain ⟨hr1, hr2⟩ := record_spec b eoh eod i segs c.tick heod h32 (by omega)
    cases hr : record b eoh eod i segs c.tick with
    | panic s => rw [hr] at hr1; exact absurd hr1 (by intro h; exact h)
    | err e => exact ⟨True.intro, fun _ _ h => by cases h⟩
    | ok r =>
      obtain ⟨kd, segs1, c1⟩ := r
      obtain ⟨hs1, ha1, hl1, hg1⟩ := hr2 kd segs1 c1 hr
      rw [ok_bind]
      dsimp only
      obtain ⟨ih1, ih2⟩ := loop_spec b eoh eod heod h32 k (i + 1) segs1 c1 (by omega) (by omega)
      cases hlp : loop b eoh eod k (i + 1) segs1 c1 with
      | panic s => rw [hlp] at ih1; exact absurd ih1 (by intro h; exact h)
      | err e => exact ⟨True.intro, fun _ _ h => by cases h⟩
      | ok r2 =>
        obtain ⟨t1, c2⟩ := r2
        obtain ⟨hs2, ha2, hl2, hg2⟩ := ih2 t1 c2 hlp
        refine ⟨True.intro, fun t c' h => ?_⟩
        injection h with h
        injection h with h1 h2
        subst h1 h2
        have hsq : (i + 1) * (i + 1) = i * i + 2 * i + 1 := by
          rw [Nat.add_mul, Nat.mul_add]; omega
        have hik' : i + 1 + k = i + (k + 1) := by omega
        rw [hik'] at hs2
        simp only [Cost.tick] at hs1 ha1
        dsimp only at hs2 ha2 ⊢
        refine ⟨by omega, by omega, by rw [List.length_cons, hl2], ?_⟩
        intro x hx
        cases hx with
        | head => exact hg1
        | tail _ hx => exact hg2 x hx

/-- `cmap.Decode` returns a value or an error for every byte string -/
theorem Decode_noPanic (b : Bytes) : (decode b).noPanic := by
  unfold decode
  split
  · exact True.intro
  rename_i hlen
  obtain ⟨v, hv, _⟩ := w16_ok "cmap.go:53#data[0],data[1]" b 0 (by omega)
  rw [hv, ok_bind]
  split
  · exact True.intro
  obtain ⟨n, hn, _⟩ := w16_ok "cmap.go:57#data[2],data[3]" b 2 (by omega)
  rw [hn, ok_bind]
  split
  · exact True.intro
  exact (loop_spec b _ b.length rfl (by omega) n 0 [] _ (by omega) (Nat.le_refl _)).1

/-- what a successful `Decode` cost and produced: `n` = numTables records were read -/
theorem Decode_ok (b : Bytes) (t : Table) (c : Cost) (h : decode b = .ok (t, c)) :
    ∃ n, 4 + 8 * n ≤ b.length ∧ t.length = n ∧ c.steps ≤ 1 + n * n ∧ c.alloc ≤ 1 + 2 * n ∧
      ∀ kd ∈ t, GoodSub kd.2 := by
  unfold decode at h
  split at h
  · cases h
  rename_i hlen
  obtain ⟨v, _, h⟩ := bind_eq_ok h
  split at h
  · cases h
  obtain ⟨n, _, h⟩ := bind_eq_ok h
  split at h
  · cases h
  rename_i hn
  have := (loop_spec b _ b.length rfl (by omega) n 0 [] _ (by omega) (Nat.le_refl _)).2 t c h
  simp only [Cost.zero, Cost.tick, Cost.mem, Nat.zero_add, Nat.mul_zero, Nat.add_zero] at this
  exact ⟨n, by omega, this.2.2.1, by omega, by omega, this.2.2.2⟩

/-- The TRUE cost bound of `Decode` is quadratic in the number of records (each record may make
`|segs|` probes and `slices.Insert` may move `|segs|` elements): `steps ≤ 1 + n²` with
`4 + 8·n ≤ |b|`, hence `64·steps ≤ 64 + |b|²`; the allocation is linear, `alloc ≤ |b|`. -/
theorem Decode_cost (b : Bytes) (t : Table) (c : Cost) (h : decode b = .ok (t, c)) :
    64 * c.steps ≤ 64 + b.length * b.length ∧ c.alloc ≤ b.length := by
  obtain ⟨n, hn, _, hs, ha, _⟩ := Decode_ok b t c h
  refine ⟨?_, by omega⟩
  have h8 : 8 * n ≤ b.length := by omega
  have : (8 * n) * (8 * n) ≤ b.length * b.length := Nat.mul_le_mul h8 h8
  have e : (8 * n) * (8 * n) = 64 * (n * n) := by
    rw [Nat.mul_mul_mul_comm]
  omega

/-- every subtable stored by a successful `Decode` has at least 10 bytes (12 for formats 8-13)
and a format word in {0, 2, 4, 6, 8, 10, 12, 13, 14} -/
theorem Decode_ok_subtables (b : Bytes) (t : Table) (c : Cost) (h : decode b = .ok (t, c))
    (k : Key) (d : Bytes) (hm : (k, d) ∈ t) :
    10 ≤ d.length ∧ ∃ f, w16 "cmap.go:225#data[0],data[1]" d 0 = .ok f ∧
      f ∈ [0, 2, 4, 6, 8, 10, 12, 13, 14] ∧ (f ∈ [8, 10, 12, 13] → 12 ≤ d.length) := by
  obtain ⟨_, _, _, _, _, hg⟩ := Decode_ok b t c h
  obtain ⟨h10, f, hf, hk, h12⟩ := hg (k, d) hm
  exact ⟨h10, f, hf, (hdrKind_ne_bad f).mp hk, fun h => h12 ((hdrKind_len32 f).mpr h)⟩

/-! ## `Table.Get` -/

theorem tableGet_mem : ∀ (t : Table) (key : Key) (d : Bytes), tableGet t key = some d → (key, d) ∈ t
  | [], _, _, h => by cases h
  | (k, d0) :: rest, key, d, h => by
    unfold tableGet at h
    cases hr : tableGet rest key with
    | some d' =>
      rw [hr] at h
      injection h with h
      subst h
      exact List.mem_cons_of_mem _ (tableGet_mem rest key _ hr)
    | none =>
      rw [hr] at h
      dsimp only at h
      split at h
      · rename_i hk
        injection h with h
        subst h hk
        exact List.mem_cons_self
      · cases h

/-- `Table.Get` on a table produced by a successful `Decode` never panics, for any key, provided
every format that `Decode` lets through has an entry in `decoders` and no registered decoder
panics on at least 10 bytes (12 for the formats 8, 10, 12, 13) -/
theorem Get_noPanic {σ : Type} (decs : Nat → Option (Dec σ))
    (hreg : ∀ f ∈ [0, 2, 4, 6, 8, 10, 12, 13, 14], (decs f).isSome)
    (hdec : ∀ f dec d mac, decs f = some dec → 10 ≤ d.length →
      (f ∈ [8, 10, 12, 13] → 12 ≤ d.length) → (dec d mac).noPanic)
    (b : Bytes) (t : Table) (c : Cost) (h : decode b = .ok (t, c)) (key : Key) :
    (get decs t key).noPanic := by
  unfold get
  cases hg : tableGet t key with
  | none => exact True.intro
  | some d =>
    dsimp only
    split
    · exact True.intro
    obtain ⟨h10, f, hf, hmem, h12⟩ := Decode_ok_subtables b t c h key d (tableGet_mem t key d hg)
    rw [hf, ok_bind]
    have := hreg f hmem
    cases hd : decs f with
    | none => rw [hd] at this; cases this
    | some dec => exact hdec f dec d _ hd h10 h12

/-- the `decoders` map of subtable.go meets the two requirements of `Get_noPanic` as soon as
`decodeFormat4` / `decodeFormat12` do not panic on subtables that `Decode` lets through -/
theorem decoders_spec (dec4 dec12 : Dec Sub)
    (h4 : ∀ d mac, 10 ≤ d.length → (dec4 d mac).noPanic)
    (h12 : ∀ d mac, 12 ≤ d.length → (dec12 d mac).noPanic) :
    (∀ f ∈ [0, 2, 4, 6, 8, 10, 12, 13, 14], (decoders dec4 dec12 f).isSome) ∧
    (∀ f dec d mac, decoders dec4 dec12 f = some dec → 10 ≤ d.length →
      (f ∈ [8, 10, 12, 13] → 12 ≤ d.length) → (dec d mac).noPanic) := by
  refine ⟨fun f hf => ?_, fun f dec d mac hd h10 hl12 => ?_⟩
  · simp only [List.mem_cons, List.not_mem_nil, or_false] at hf
    unfold decoders
    repeat' split
    all_goals first | rfl | omega
  · unfold decoders at hd
    split at hd
    · injection hd with hd
      subst hd
      dsimp only
      split
      · exact bind_noPanic (decodeFormat0C2r_noPanic _ d (by omega)) (fun _ _ => True.intro)
      · exact bind_noPanic (decodeFormat0_noPanic d (by omega)) (fun _ _ => True.intro)
    split at hd
    · injection hd with hd
      subst hd
      exact h4 d mac h10
    split at hd
    · injection hd with hd
      subst hd
      exact bind_noPanic (decodeFormat6_noPanic _ d) (fun _ _ => True.intro)
    split at hd
    · rename_i hf
      injection hd with hd
      subst hd
      exact h12 d mac (hl12 (by simp [hf]))
    split at hd
    · injection hd with hd
      subst hd
      exact True.intro
    · cases hd

/-- a format outside the registered ones WOULD panic (nil func): the guarantee of `Decode` is needed -/
theorem get_unregistered_panics (dec4 dec12 : Dec Sub) (key : Key) (hk : ¬ (key.p = 1 ∧ key.e ≠ 0)) :
    get (decoders dec4 dec12) [(key, [0, 1, 0, 10, 0, 0, 0, 0, 0, 0])] key
      = .panic "cmap.go:227#decode(nil)" := by
  have hg : tableGet [(key, [0, 1, 0, 10, 0, 0, 0, 0, 0, 0])] key
      = some [0, 1, 0, 10, 0, 0, 0, 0, 0, 0] := by
    simp [tableGet]
  have hw : w16 "cmap.go:225#data[0],data[1]" ([0, 1, 0, 10, 0, 0, 0, 0, 0, 0] : Bytes) 0 = .ok 1 := by
    decide
  have hd : decoders dec4 dec12 1 = none := by
    unfold decoders
    simp
  unfold get
  rw [hg]
  dsimp only
  rw [if_neg hk, hw, ok_bind, hd]

/-! ## bridging `cmap.Decode` to the value-level model `SfntV.CmapTable.decode` (C09)

The value-level model searches the segment list linearly (`searchIdx`) and indexes with `getD`;
the checked model runs the binary search of `sort.Search` with checked indexing.  They agree
because the segment list stays strictly sorted by start offset. -/

open SfntV.CmapTable (searchIdx)

theorem rd16_w16 (site : String) (b : Bytes) (i : Nat) (h : i + 1 < b.length) :
    SfntV.CmapTable.rd16 b i = w16 site b i := by
  unfold SfntV.CmapTable.rd16 SfntV.CmapTable.rd8 w16 idx
  rw [List.getElem?_eq_getElem (by omega : i < b.length), List.getElem?_eq_getElem h]
  rfl

theorem rd32_w32 (site : String) (b : Bytes) (i : Nat) (h : i + 3 < b.length) :
    SfntV.CmapTable.rd32 b i = w32 site b i := by
  unfold SfntV.CmapTable.rd32
  rw [rd16_w16 site b i (by omega), rd16_w16 site b (i + 2) (by omega)]
  unfold w16 w32 idx
  rw [List.getElem?_eq_getElem (by omega : i < b.length),
    List.getElem?_eq_getElem (by omega : i + 1 < b.length),
    List.getElem?_eq_getElem (by omega : i + 2 < b.length),
    List.getElem?_eq_getElem (by omega : i + 2 + 1 < b.length)]
  show Outcome.ok _ = Outcome.ok _
  apply congrArg Outcome.ok
  unfold be
  omega

def Sorted (segs : List Seg) : Prop := segs.Pairwise (fun a b => a.start < b.start)

theorem searchIdx_le (o : Nat) : ∀ segs : List Seg, searchIdx o segs ≤ segs.length
  | [] => Nat.le_refl _
  | s :: rest => by
    unfold searchIdx
    split
    · exact Nat.zero_le _
    · have := searchIdx_le o rest
      simp only [List.length_cons]; omega

theorem searchIdx_unique (o : Nat) : ∀ (segs : List Seg) (r : Nat), r ≤ segs.length →
    (∀ k (hk : k < segs.length), k < r → segs[k].start < o) →
    (∀ (h : r < segs.length), o ≤ segs[r].start) → searchIdx o segs = r
  | [], r, hr, _, _ => by
    unfold searchIdx
    simp only [List.length_nil] at hr
    omega
  | s :: rest, r, hr, h1, h2 => by
    unfold searchIdx
    split
    · rename_i hle
      cases r with
      | zero => rfl
      | succ r' =>
        have := h1 0 (by simp) (by omega)
        simp only [List.getElem_cons_zero] at this
        omega
    · rename_i hnle
      cases r with
      | zero =>
        have := h2 (by simp)
        simp only [List.getElem_cons_zero] at this
        omega
      | succ r' =>
        have ih := searchIdx_unique o rest r' (by simp only [List.length_cons] at hr; omega)
          (fun k hk hkr => by
            have := h1 (k + 1) (by simp only [List.length_cons]; omega) (by omega)
            simpa only [List.getElem_cons_succ] using this)
          (fun h => by
            have := h2 (by simp only [List.length_cons]; omega)
            simpa only [List.getElem_cons_succ] using this)
        omega

theorem search_eq (o : Nat) (segs : List Seg) (hs : Sorted segs) : ∀ (fuel i j p : Nat),
    i ≤ j → j ≤ segs.length → j - i < fuel →
    (∀ k (hk : k < segs.length), k < i → segs[k].start < o) →
    (∀ k (hk : k < segs.length), j ≤ k → o ≤ segs[k].start) →
    ∃ q, search o segs fuel i j p = .ok (searchIdx o segs, q)
  | 0, _, _, _, _, _, hf, _, _ => by omega
  | fuel+1, i, j, p, hij, hj, hf, hlo, hhi => by
    have hsorted := List.pairwise_iff_getElem.mp hs
    unfold search
    by_cases hlt : i < j
    · rw [if_pos hlt]
      have hh : (i + j) / 2 < segs.length := by omega
      dsimp only
      rw [idx_ok _ segs _ hh, ok_bind]
      split
      · rename_i hle
        refine search_eq o segs hs fuel i ((i + j) / 2) (p + 1) (by omega) (by omega) (by omega) hlo ?_
        intro k hk hkh
        by_cases e : k = (i + j) / 2
        · subst e; exact hle
        · have := hsorted ((i + j) / 2) k hh hk (by omega)
          omega
      · rename_i hnle
        refine search_eq o segs hs fuel ((i + j) / 2 + 1) j (p + 1) (by omega) hj (by omega) ?_ hhi
        intro k hk hkh
        by_cases e : k = (i + j) / 2
        · subst e; omega
        · have := hsorted k ((i + j) / 2) hk hh (by omega)
          omega
    · rw [if_neg hlt]
      have : searchIdx o segs = i := searchIdx_unique o segs i (by omega) hlo
        (fun h => hhi i h (by omega))
      rw [this]
      exact ⟨p, rfl⟩

theorem getD_eq (segs : List Seg) (k : Nat) (h : k < segs.length) : segs.getD k ⟨0, 0⟩ = segs[k] := by
  rw [List.getD_eq_getElem?_getD, List.getElem?_eq_getElem h]; rfl

def ofOpt : Option (List Seg) → Outcome (List Seg)
  | none => .err "malformed"
  | some s => .ok s

theorem overlap_erase (segs : List Seg) (hs : Sorted segs) (o len : Nat) (c : Cost) :
    erase (overlap segs o len c) = ofOpt (SfntV.CmapTable.overlap segs o len) := by
  obtain ⟨q, hq⟩ := search_eq o segs hs (segs.length + 1) 0 segs.length 0 (Nat.zero_le _)
    (Nat.le_refl _) (by omega) (fun k hk h => by omega) (fun k hk h => by omega)
  have hr := searchIdx_le o segs
  unfold overlap SfntV.CmapTable.overlap
  rw [hq, ok_bind]
  dsimp only
  generalize searchIdx o segs = r at hr ⊢
  have hd : (if r = segs.length then pure true else do
      let s ← idx "cmap.go:124#segs[idx]" segs r
      pure (decide (o ≠ s.start)) : Outcome Bool)
      = .ok (decide (r = segs.length ∨ o ≠ (segs.getD r ⟨0, 0⟩).start)) := by
    by_cases h : r = segs.length
    · rw [if_pos h, decide_eq_true (Or.inl h)]; rfl
    · rw [if_neg h, idx_ok _ segs r (by omega), ok_bind, getD_eq segs r (by omega)]
      show Outcome.ok _ = Outcome.ok _
      congr 1
      by_cases h2 : o ≠ segs[r].start
      · rw [decide_eq_true h2, decide_eq_true (Or.inr h2)]
      · rw [decide_eq_false h2, decide_eq_false (by intro h'; rcases h' with h' | h'; exact h h'; exact h2 h')]
  rw [hd, ok_bind]
  by_cases hA : r = segs.length ∨ o ≠ (segs.getD r ⟨0, 0⟩).start
  · rw [decide_eq_true hA, if_pos hA]
    simp only [Bool.not_true, Bool.false_eq_true, if_false]
    have hb1 : (if r > 0 then do
        let s ← idx "cmap.go:125#segs[idx-1]" segs (r - 1)
        pure (decide (o < s.stop))
      else pure false : Outcome Bool)
        = .ok (decide (r > 0 ∧ o < (segs.getD (r - 1) ⟨0, 0⟩).stop)) := by
      by_cases h : r > 0
      · rw [if_pos h, idx_ok _ segs (r - 1) (by omega), ok_bind, getD_eq segs (r - 1) (by omega)]
        show Outcome.ok _ = Outcome.ok _
        congr 1
        by_cases h2 : o < segs[r - 1].stop
        · rw [decide_eq_true h2, decide_eq_true ⟨h, h2⟩]
        · rw [decide_eq_false h2, decide_eq_false (fun h' => h2 h'.2)]
      · rw [if_neg h, decide_eq_false (fun h' => h h'.1)]; rfl
    rw [hb1, ok_bind]
    by_cases hB : r > 0 ∧ o < (segs.getD (r - 1) ⟨0, 0⟩).stop
    · rw [decide_eq_true hB, if_pos (Or.inl hB)]
      rfl
    · rw [decide_eq_false hB]
      simp only [Bool.false_eq_true, if_false]
      have hb2 : (if r < segs.length then do
          let s ← idx "cmap.go:126#segs[idx]" segs r
          pure (decide ((o + len) % 4294967296 > s.start))
        else pure false : Outcome Bool)
          = .ok (decide (r < segs.length ∧ (o + len) % 4294967296 > (segs.getD r ⟨0, 0⟩).start)) := by
        by_cases h : r < segs.length
        · rw [if_pos h, idx_ok _ segs r h, ok_bind, getD_eq segs r h]
          show Outcome.ok _ = Outcome.ok _
          congr 1
          by_cases h2 : (o + len) % 4294967296 > segs[r].start
          · rw [decide_eq_true h2, decide_eq_true ⟨h, h2⟩]
          · rw [decide_eq_false h2, decide_eq_false (fun h' => h2 h'.2)]
        · rw [if_neg h, decide_eq_false (fun h' => h h'.1)]; rfl
      rw [hb2, ok_bind]
      by_cases hC : r < segs.length ∧ (o + len) % 4294967296 > (segs.getD r ⟨0, 0⟩).start
      · rw [decide_eq_true hC, if_pos (Or.inr hC)]
        rfl
      · have hBC : ¬ ((r > 0 ∧ o < (segs.getD (r - 1) ⟨0, 0⟩).stop) ∨
            (r < segs.length ∧ (o + len) % 4294967296 > (segs.getD r ⟨0, 0⟩).start)) :=
          fun h => h.elim hB hC
        rw [decide_eq_false hC, if_neg hBC]
        simp only [Bool.false_eq_true, if_false]
        rw [if_neg (by omega : ¬ r > segs.length)]
        rfl
  · rw [decide_eq_false hA, if_neg hA]
    rfl

theorem searchIdx_lt (o : Nat) : ∀ (segs : List Seg) (k : Nat) (hk : k < segs.length),
    k < searchIdx o segs → segs[k].start < o
  | [], _, hk, _ => by simp at hk
  | s :: rest, k, hk, h => by
    unfold searchIdx at h
    split at h
    · omega
    · rename_i hn
      cases k with
      | zero => simp only [List.getElem_cons_zero]; omega
      | succ k' =>
        simp only [List.getElem_cons_succ]
        exact searchIdx_lt o rest k' (by simp only [List.length_cons] at hk; omega) (by omega)

theorem searchIdx_ge (o : Nat) : ∀ (segs : List Seg) (r : Nat), r = searchIdx o segs →
    ∀ (h : r < segs.length), o ≤ segs[r].start
  | [], _, _, h => by simp at h
  | s :: rest, r, hr, h => by
    unfold searchIdx at hr
    split at hr
    · subst hr
      simpa only [List.getElem_cons_zero]
    · subst hr
      simp only [List.getElem_cons_succ]
      exact searchIdx_ge o rest _ rfl _

theorem insert_sorted (segs : List Seg) (hs : Sorted segs) (o e : Nat)
    (hA : searchIdx o segs = segs.length ∨ o ≠ (segs.getD (searchIdx o segs) ⟨0, 0⟩).start) :
    Sorted (insertAt segs (searchIdx o segs) ⟨o, e⟩) := by
  have hr := searchIdx_le o segs
  have hlt := searchIdx_lt o segs
  have hge := searchIdx_ge o segs _ rfl
  generalize searchIdx o segs = r at hr hlt hge hA
  have hsorted := List.pairwise_iff_getElem.mp hs
  have hdrop : ∀ b ∈ segs.drop r, o < b.start := by
    intro b hb
    obtain ⟨k, hk, hb⟩ := List.mem_iff_getElem.mp hb
    rw [List.length_drop] at hk
    rw [List.getElem_drop] at hb
    subst hb
    have hrl : r < segs.length := by omega
    have h0 : o < segs[r].start := by
      have := hge hrl
      rcases hA with hA | hA
      · omega
      · rw [getD_eq segs r hrl] at hA
        omega
    by_cases hk0 : k = 0
    · subst hk0; exact h0
    · have := hsorted r (r + k) hrl (by omega) (by omega)
      omega
  have htake : ∀ a ∈ segs.take r, a.start < o := by
    intro a ha
    obtain ⟨k, hk, ha⟩ := List.mem_iff_getElem.mp ha
    rw [List.length_take] at hk
    rw [List.getElem_take] at ha
    subst ha
    exact hlt k (by omega) (by omega)
  unfold Sorted insertAt
  rw [List.pairwise_append]
  refine ⟨hs.sublist (List.take_sublist _ _), ?_, ?_⟩
  · rw [List.pairwise_cons]
    exact ⟨fun b hb => hdrop b hb, hs.sublist (List.drop_sublist _ _)⟩
  · intro a ha b hb
    have h1 := htake a ha
    rcases List.mem_cons.mp hb with hb | hb
    · subst hb; exact h1
    · have := hdrop b hb
      omega

theorem overlap_sorted (segs segs' : List Seg) (hs : Sorted segs) (o len : Nat)
    (h : SfntV.CmapTable.overlap segs o len = some segs') : Sorted segs' := by
  unfold SfntV.CmapTable.overlap at h
  dsimp only at h
  split at h
  · rename_i hA
    split at h
    · cases h
    · injection h with h
      subst h
      exact insert_sorted segs hs o _ hA
  · injection h with h
    subst h
    exact hs

theorem erase_eq_ok {x : Outcome (α × Cost)} {a : α} (h : erase x = .ok a) : ∃ c, x = .ok (a, c) := by
  cases x with
  | ok p => obtain ⟨a', c⟩ := p; injection h with h; subst h; exact ⟨c, rfl⟩
  | err e => cases h
  | panic s => cases h

theorem erase_eq_err {x : Outcome (α × Cost)} {e : String} (h : erase x = .err e) : x = .err e := by
  cases x with
  | ok p => obtain ⟨a', c⟩ := p; cases h
  | err e' => injection h with h; rw [h]
  | panic s => cases h

theorem lenLang_erase (b : Bytes) (eod o : Nat) (k : HdrKind) (heod : eod = b.length)
    (h32 : b.length < 4294967296) (h12 : 12 ≤ b.length) (ho : o + 10 ≤ b.length) :
    SfntV.CmapTable.lenLang b eod o k = lenLang b eod o k := by
  unfold SfntV.CmapTable.lenLang lenLang
  cases k with
  | len16 =>
    dsimp only
    rw [rd16_w16 "cmap.go:92#data[o+2],data[o+3]" b (o + 2) (by omega),
      rd16_w16 "cmap.go:93#data[o+4],data[o+5]" b (o + 4) (by omega)]
    obtain ⟨v, hv, _⟩ := w16_ok "cmap.go:92#data[o+2],data[o+3]" b (o + 2) (by omega)
    obtain ⟨w, hw, _⟩ := w16_ok "cmap.go:93#data[o+4],data[o+5]" b (o + 4) (by omega)
    rw [hv, hw]
    rfl
  | len32 =>
    dsimp only
    by_cases hgt : o > sub32 eod 12
    · rw [if_pos hgt, if_pos hgt]
    · rw [if_neg hgt, if_neg hgt]
      rw [heod, sub32_eq _ _ (by omega) h32] at hgt
      rw [rd32_w32 "cmap.go:99#data[o+4..o+7]" b (o + 4) (by omega),
        rd16_w16 "cmap.go:103#data[o+10],data[o+11]" b (o + 10) (by omega)]
      obtain ⟨v, hv⟩ := w32_ok "cmap.go:99#data[o+4..o+7]" b (o + 4) (by omega)
      obtain ⟨w, hw, _⟩ := w16_ok "cmap.go:103#data[o+10],data[o+11]" b (o + 10) (by omega)
      rw [hv, hw]
      rfl
  | len14 =>
    dsimp only
    rw [rd32_w32 "cmap.go:105#data[o+2..o+5]" b (o + 2) (by omega)]
    obtain ⟨v, hv⟩ := w32_ok "cmap.go:105#data[o+2..o+5]" b (o + 2) (by omega)
    rw [hv]
    rfl
  | bad => rfl

/-- forget the cost of one record -/
def erase2 : Outcome (α × β × Cost) → Outcome (α × β)
  | .ok (a, b, _) => .ok (a, b)
  | .err e => .err e
  | .panic _ => .panic ""

theorem record_erase (b : Bytes) (eoh eod i : Nat) (segs : List Seg) (c : Cost)
    (heod : eod = b.length) (h32 : b.length < 4294967296) (hi : 4 + 8 * (i + 1) ≤ b.length)
    (hs : Sorted segs) :
    erase2 (record b eoh eod i segs c) = SfntV.CmapTable.record b eoh eod i segs ∧
    ∀ kd segs', SfntV.CmapTable.record b eoh eod i segs = .ok (kd, segs') → Sorted segs' := by
  unfold record SfntV.CmapTable.record
  rw [rd16_w16 "cmap.go:72#data[4+i*8],data[5+i*8]" b (4 + i * 8) (by omega),
    rd16_w16 "cmap.go:76#data[6+i*8],data[7+i*8]" b (6 + i * 8) (by omega),
    rd32_w32 "cmap.go:78#data[8+i*8..11+i*8]" b (8 + i * 8) (by omega)]
  obtain ⟨p, hp, _⟩ := w16_ok "cmap.go:72#data[4+i*8],data[5+i*8]" b (4 + i * 8) (by omega)
  obtain ⟨e, he, _⟩ := w16_ok "cmap.go:76#data[6+i*8],data[7+i*8]" b (6 + i * 8) (by omega)
  obtain ⟨o, ho⟩ := w32_ok "cmap.go:78#data[8+i*8..11+i*8]" b (8 + i * 8) (by omega)
  rw [hp, ok_bind]
  dsimp only
  by_cases hp4 : p > 4
  · rw [if_pos hp4, if_pos hp4]
    exact ⟨rfl, fun _ _ h => by cases h⟩
  rw [if_neg hp4, if_neg hp4, he, ok_bind, ho, ok_bind]
  dsimp only
  by_cases hoo : o < eoh ∨ o > sub32 eod 10
  · rw [if_pos hoo, if_pos hoo]
    exact ⟨rfl, fun _ _ h => by cases h⟩
  rw [if_neg hoo, if_neg hoo]
  rw [heod, sub32_eq _ _ (by omega) h32] at hoo
  have ho10 : o + 10 ≤ b.length := by omega
  rw [rd16_w16 "cmap.go:88#data[o],data[o+1]" b o (by omega)]
  obtain ⟨f, hf, _⟩ := w16_ok "cmap.go:88#data[o],data[o+1]" b o (by omega)
  rw [hf, ok_bind]
  dsimp only
  rw [lenLang_erase b eod o (hdrKind f) heod h32 (by omega) ho10]
  cases hl : lenLang b eod o (hdrKind f) with
  | panic s =>
    have := lenLang_noPanic b eod o (hdrKind f) heod h32 (by omega) ho10
    rw [hl] at this
    exact absurd this (by intro h; exact h)
  | err e' => exact ⟨rfl, fun _ _ h => by cases h⟩
  | ok r =>
    obtain ⟨len, lang, chk⟩ := r
    rw [ok_bind]
    dsimp only
    by_cases hlen : len < chk ∨ len > sub32 eod o
    · rw [if_pos hlen, if_pos hlen]
      exact ⟨rfl, fun _ _ h => by cases h⟩
    rw [if_neg hlen, if_neg hlen]
    rw [heod, sub32_eq _ _ (by omega) h32] at hlen
    have hmod : (o + len) % 4294967296 = o + len := Nat.mod_eq_of_lt (by omega)
    have hov := overlap_erase segs hs o len c
    cases hth : SfntV.CmapTable.overlap segs o len with
    | none =>
      rw [hth] at hov
      rw [erase_eq_err hov]
      exact ⟨rfl, fun _ _ h => by cases h⟩
    | some segs1 =>
      rw [hth] at hov
      obtain ⟨c1, hc1⟩ := erase_eq_ok hov
      rw [hc1, ok_bind]
      dsimp only
      rw [hmod, slice_ok _ _ _ _ (by omega) (by omega), ok_bind]
      unfold SfntV.CmapTable.slice
      rw [if_neg (by omega : ¬ o + len > b.length), Nat.add_sub_cancel_left]
      refine ⟨rfl, fun kd segs' h => ?_⟩
      injection h with h
      injection h with _ h2
      subst h2
      exact overlap_sorted segs segs1 hs o len hth

theorem erase2_eq_ok {x : Outcome (α × β × Cost)} {a : α} {b : β} (h : erase2 x = .ok (a, b)) :
    ∃ c, x = .ok (a, b, c) := by
  cases x with
  | ok p =>
    obtain ⟨a', b', c⟩ := p
    injection h with h
    injection h with h1 h2
    subst h1 h2
    exact ⟨c, rfl⟩
  | err e => cases h
  | panic s => cases h

theorem erase2_eq_err {x : Outcome (α × β × Cost)} {e : String} (h : erase2 x = .err e) : x = .err e := by
  cases x with
  | ok p => obtain ⟨a', b', c⟩ := p; cases h
  | err e' => injection h with h; rw [h]
  | panic s => cases h

theorem loop_erase (b : Bytes) (eoh eod : Nat) (heod : eod = b.length) (h32 : b.length < 4294967296) :
    ∀ (k i : Nat) (segs : List Seg) (c : Cost), 4 + 8 * (i + k) ≤ b.length → Sorted segs →
    segs.length ≤ i →
    erase (loop b eoh eod k i segs c) = SfntV.CmapTable.loop b eoh eod i k segs
  | 0, i, segs, c, _, _, _ => by
    unfold loop SfntV.CmapTable.loop
    rfl
  | k+1, i, segs, c, hik, hs, hsl => by
    unfold loop SfntV.CmapTable.loop
    obtain ⟨hr, hsorted⟩ := record_erase b eoh eod i segs c.tick heod h32 (by omega) hs
    cases hth : SfntV.CmapTable.record b eoh eod i segs with
    | panic s =>
      rw [hth] at hr
      have := (record_spec b eoh eod i segs c.tick heod h32 (by omega)).1
      cases hm : record b eoh eod i segs c.tick with
      | panic s' => rw [hm] at this; exact absurd this (by intro h; exact h)
      | err e => rw [hm] at hr; cases hr
      | ok r => obtain ⟨x, y, z⟩ := r; rw [hm] at hr; cases hr
    | err e =>
      rw [hth] at hr
      rw [erase2_eq_err hr]
      rfl
    | ok r =>
      obtain ⟨kd, segs1⟩ := r
      rw [hth] at hr
      obtain ⟨c1, hc1⟩ := erase2_eq_ok hr
      rw [hc1, ok_bind]
      dsimp only
      have hsl1 : segs1.length ≤ i + 1 := by
        have := (record_spec b eoh eod i segs c.tick heod h32 (by omega)).2 kd segs1 c1 hc1
        exact Nat.le_trans this.2.2.1 (by omega)
      have ih := loop_erase b eoh eod heod h32 k (i + 1) segs1 c1 (by omega) (hsorted kd segs1 hth) hsl1
      rw [← ih]
      cases hl : loop b eoh eod k (i + 1) segs1 c1 with
      | ok r2 => obtain ⟨t, c2⟩ := r2; rfl
      | err e => rfl
      | panic s =>
        have := (loop_spec b eoh eod heod h32 k (i + 1) segs1 c1 (by omega) hsl1).1
        rw [hl] at this
        exact absurd this (by intro h; exact h)

/-- bridging lemma: erasing the cost from the checked-index model of `cmap.Decode` gives the
value-level model of C09 on every input (neither model panics) -/
theorem Decode_erase (b : Bytes) : erase (decode b) = SfntV.CmapTable.decode b := by
  unfold decode SfntV.CmapTable.decode
  by_cases hlen : b.length < 4 ∨ b.length > 4294967295
  · rw [if_pos hlen, if_pos hlen]; rfl
  rw [if_neg hlen, if_neg hlen]
  rw [rd16_w16 "cmap.go:53#data[0],data[1]" b 0 (by omega),
    rd16_w16 "cmap.go:57#data[2],data[3]" b 2 (by omega)]
  obtain ⟨v, hv, _⟩ := w16_ok "cmap.go:53#data[0],data[1]" b 0 (by omega)
  obtain ⟨n, hn, _⟩ := w16_ok "cmap.go:57#data[2],data[3]" b 2 (by omega)
  rw [hv, ok_bind]
  dsimp only
  by_cases hv0 : v ≠ 0
  · rw [if_pos hv0, if_pos hv0]; rfl
  rw [if_neg hv0, if_neg hv0, hn, ok_bind]
  dsimp only
  by_cases hnl : b.length < 4 + 8 * n
  · rw [if_pos hnl, if_pos hnl]; rfl
  rw [if_neg hnl, if_neg hnl]
  exact loop_erase b _ b.length rfl (by omega) n 0 [] _ (by omega) List.Pairwise.nil (Nat.le_refl _)


/-! ## non-vacuity: concrete valid inputs -/

/-- the cost of a successful run -/
def costOf : Outcome (α × Cost) → Option Cost
  | .ok (_, c) => some c
  | _ => none

/-- two records (Macintosh language 9 kept, Windows language dropped) sharing one format 6 subtable -/
example : decode [0,0,0,2, 0,1,0,0, 0,0,0,20, 0,3,0,1, 0,0,0,20, 0,6,0,12,0,9, 0,65,0,1, 0,7]
    = .ok ([(⟨1, 0, 9⟩, [0,6,0,12,0,9, 0,65,0,1, 0,7]), (⟨3, 1, 0⟩, [0,6,0,12,0,9, 0,65,0,1, 0,7])],
      ⟨4, 4⟩) := by decide +kernel

/-- four records with descending offsets: every `slices.Insert` lands at the front and moves all
earlier segments (0+1+2+3 moves, 5 probes, 4 iterations, 1 header read = 16 steps; the bound of
`Decode_ok` is 1 + 4² = 17) -/
example : costOf (decode [0,0,0,4, 0,0,0,0, 0,0,0,66, 0,0,0,1, 0,0,0,56, 0,0,0,2, 0,0,0,46,
    0,0,0,3, 0,0,0,36,
    0,6,0,10,0,0,0,0,0,0, 0,6,0,10,0,0,0,0,0,0, 0,6,0,10,0,0,0,0,0,0, 0,6,0,10,0,0,0,0,0,0])
    = some ⟨16, 9⟩ := by decide +kernel

example : get (decoders (fun _ _ => .err "x") (fun _ _ => .err "x"))
    [(⟨3, 1, 0⟩, [0,6,0,12,0,9, 0,65,0,1, 0,7])] ⟨3, 1, 0⟩ = .ok (.m16 [(65, 7)]) := by decide +kernel

example : decodeFormat0 ([0,0,1,6,0,0] ++ List.replicate 256 7)
    = .ok (List.replicate 256 7, ⟨256, 256⟩) := by decide +kernel

/-- the Macintosh branch: code 255 carries glyph 7 and is stored under the rune of code 255 -/
example : decodeFormat0C2r (fun c => c + 1000) ([0,0,1,6,0,0] ++ List.replicate 255 0 ++ [7])
    = .ok ([(1255, 7)], ⟨256, 2⟩) := by decide +kernel

example : lookup0 (List.replicate 256 7) 65 = .ok 7 ∧ lookup0 (List.replicate 256 7) (-1) = .ok 0 := by
  decide +kernel

/-- with the excess 0x0000 word that some fonts carry -/
example : decodeFormat6 id [0,6,0,14,0,0, 0,65,0,1, 0,7, 0,0] = .ok ([(65, 7)], ⟨3, 2⟩) := by
  decide +kernel

example : lookup16 [(65, 7)] 65 = 7 ∧ lookup16 [(65, 7)] (-65471) = 0 ∧ lookup16 [(65, 7)] 65601 = 0 := by
  decide +kernel

end SfntV.Total.CmapDir
