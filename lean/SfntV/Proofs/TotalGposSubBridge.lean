/-
C02, group `gpossub`: BRIDGE from the checked-index model of `readGpos1_1` to the value-level
model of C08 (`SfntV.Otl.Gpos.read11`, Model/OtlGpos.lean): erasing panic sites and costs gives
that model on the bytes from the subtable position on, for all bytes and all positions.
-/
import SfntV.Proofs.TotalGposSub51
import SfntV.Proofs.TotalOtlBridge
import SfntV.Model.OtlGpos

namespace SfntV.Total.GposSub
open SfntV SfntV.Total SfntV.Total.Gdef SfntV.Total.Otl
open SfntV.Otl (bytesToWords eIO)

/-- the header of GPOS 1.1: the 4 bytes behind the format word against the word view -/
theorem hdr11_cases (s0 s1 s2 : String) (b : Bytes) (pos : Nat) :
    (∃ buf w0 co vf, readBytes s0 b (pos + 2) 4 = .ok buf ∧ w16 s1 buf 0 = .ok co ∧
        w16 s2 buf 2 = .ok vf ∧
        bytesToWords (b.drop pos) = w0 :: co :: vf :: bytesToWords (b.drop (pos + 6))) ∨
    (readBytes s0 b (pos + 2) 4 = .err "io" ∧ (bytesToWords (b.drop pos)).length < 3) := by
  have hlen := List.length_drop (i := pos) (l := b)
  by_cases h : pos + 6 ≤ b.length
  · obtain ⟨a0, a1, a2, a3, a4, a5, r, hd⟩ := six_split (b.drop pos) (by omega)
    refine Or.inl ⟨[a2, a3, a4, a5], be a0 a1, be a2 a3, be a4 a5, ?_, rfl, rfl, ?_⟩
    · unfold readBytes
      rw [if_neg (by omega), if_pos (by omega), ← List.drop_drop, hd]
      rfl
    · rw [← List.drop_drop, hd]
      rfl
  · refine Or.inr ⟨?_, ?_⟩
    · unfold readBytes
      rw [if_neg (by omega), if_neg (by omega)]
    · rw [bytesToWords_length]
      omega

/-- the fields of a value record against the word view -/
theorem vrFields_erase (b : Bytes) (fmt : Nat) : ∀ (fuel k q : Nat) (c : Cost),
    (∃ fs q' c', vrFields b fmt fuel k q c = .ok (fs, q', c') ∧
        SfntV.Otl.Gpos.vrReadFields fmt k fuel (bytesToWords (b.drop q)) =
          .ok (fs, bytesToWords (b.drop q'))) ∨
    (vrFields b fmt fuel k q c = .err "io" ∧
        SfntV.Otl.Gpos.vrReadFields fmt k fuel (bytesToWords (b.drop q)) = .err eIO)
  | 0, _, q, c => Or.inl ⟨[], q, c, rfl, rfl⟩
  | fuel+1, k, q, c => by
    unfold vrFields SfntV.Otl.Gpos.vrReadFields
    have hbit : SfntV.Otl.Gpos.bit fmt k = bit fmt k := rfl
    rw [hbit]
    cases hb : bit fmt k
    · simp only [Bool.false_eq_true, if_false]
      rcases vrFields_erase b fmt fuel (k + 1) q c with ⟨fs, q', c', h1, h2⟩ | ⟨h1, h2⟩
      · exact Or.inl ⟨0 :: fs, q', c', by rw [h1]; rfl, by rw [h2]⟩
      · exact Or.inr ⟨by rw [h1]; rfl, by rw [h2]⟩
    · simp only [if_true]
      rcases word_cases "valuerecord.go:54-100#ReadInt16/ReadUint16" b q with ⟨w, hw, hws⟩ | ⟨hw, hws⟩
      · rw [hw, hws, ok_bind]
        rcases vrFields_erase b fmt fuel (k + 1) (q + 2) c.tick with ⟨fs, q', c', h1, h2⟩ | ⟨h1, h2⟩
        · exact Or.inl ⟨w :: fs, q', c', by rw [h1]; rfl, by dsimp only; rw [h2]⟩
        · exact Or.inr ⟨by rw [h1]; rfl, by dsimp only; rw [h2]⟩
      · rw [hw, hws]
        exact Or.inr ⟨rfl, rfl⟩

/-- `readValueRecord` against the word view -/
theorem vrRead_erase (b : Bytes) (fmt q : Nat) (c : Cost) :
    (∃ v q' c', vrRead b fmt q c = .ok (v, q', c') ∧
        SfntV.Otl.Gpos.vrRead fmt (bytesToWords (b.drop q)) = .ok (v, bytesToWords (b.drop q'))) ∨
    (vrRead b fmt q c = .err "io" ∧
        SfntV.Otl.Gpos.vrRead fmt (bytesToWords (b.drop q)) = .err eIO) := by
  unfold vrRead SfntV.Otl.Gpos.vrRead
  by_cases hf : fmt = 0
  · subst hf
    exact Or.inl ⟨none, q, c, rfl, rfl⟩
  · have hf' : (fmt == 0) = false := by
      rw [beq_eq_false_iff_ne]; exact hf
    rw [if_neg hf, hf']
    simp only [Bool.false_eq_true, if_false]
    rcases vrFields_erase b fmt 8 0 q (c.mem 1) with ⟨fs, q', c', h1, h2⟩ | ⟨h1, h2⟩
    · exact Or.inl ⟨some fs, q', c', by rw [h1]; rfl, by rw [h2]⟩
    · exact Or.inr ⟨by rw [h1]; rfl, by rw [h2]⟩

/-- BRIDGE: `readGpos1_1` — the checked-index model without its cost is the value-level model of
C08 on the bytes from the subtable position on, for all bytes and all positions -/
theorem read11_erase (b : Bytes) (pos : Nat) :
    erase (read11 b pos) = SfntV.Otl.Gpos.read11 (b.drop pos) := by
  unfold read11 SfntV.Otl.Gpos.read11
  rcases hdr11_cases "gpos.go:86#ReadBytes(4)" "gpos.go:90#buf[0],buf[1]" "gpos.go:91#buf[2],buf[3]"
    b pos with ⟨buf, w0, co, vf, hbuf, hco, hvf, hws⟩ | ⟨hbuf, hws⟩
  · rw [hbuf, ok_bind, hco, ok_bind, hvf, ok_bind, hws]
    dsimp only
    rcases vrRead_erase b vf (pos + 6) Cost.zero.tick with ⟨v, q', c', h1, h2⟩ | ⟨h1, h2⟩
    · rw [h1, h2, ok_bind]
      dsimp only
      rw [List.drop_drop, ← coverageRead_erase]
      cases hcv : coverageRead b (pos + co) with
      | ok cv => obtain ⟨cvl, cvc⟩ := cv; rfl
      | err e => rfl
      | panic s => rfl
    · rw [h1, h2]; rfl
  · rw [hbuf]
    rcases short3 hws with h | ⟨a, h⟩ | ⟨a, a', h⟩ <;> rw [h] <;> rfl


/-! ## GPOS 1.2 -/

theorem eight_split : ∀ l : Bytes, 8 ≤ l.length →
    ∃ a0 a1 a2 a3 a4 a5 a6 a7 r, l = a0 :: a1 :: a2 :: a3 :: a4 :: a5 :: a6 :: a7 :: r
  | a0 :: a1 :: a2 :: a3 :: a4 :: a5 :: a6 :: a7 :: r, _ => ⟨a0, a1, a2, a3, a4, a5, a6, a7, r, rfl⟩
  | [], h | [_], h | [_, _], h | [_, _, _], h | [_, _, _, _], h | [_, _, _, _, _], h
  | [_, _, _, _, _, _], h | [_, _, _, _, _, _, _], h => by
    simp only [List.length_cons, List.length_nil] at h; omega

theorem short4 {ws : List Nat} (h : ws.length < 4) :
    ws = [] ∨ (∃ a, ws = [a]) ∨ (∃ a b, ws = [a, b]) ∨ (∃ a b c, ws = [a, b, c]) := by
  match ws, h with
  | [], _ => exact Or.inl rfl
  | [a], _ => exact Or.inr (Or.inl ⟨a, rfl⟩)
  | [a, b], _ => exact Or.inr (Or.inr (Or.inl ⟨a, b, rfl⟩))
  | [a, b, c], _ => exact Or.inr (Or.inr (Or.inr ⟨a, b, c, rfl⟩))
  | _ :: _ :: _ :: _ :: _, h => simp only [List.length_cons] at h; omega

theorem hdr12_cases (s0 s1 s2 s3 : String) (b : Bytes) (pos : Nat) :
    (∃ buf w0 co vf n, readBytes s0 b (pos + 2) 6 = .ok buf ∧ w16 s1 buf 0 = .ok co ∧
        w16 s2 buf 2 = .ok vf ∧ w16 s3 buf 4 = .ok n ∧
        bytesToWords (b.drop pos) = w0 :: co :: vf :: n :: bytesToWords (b.drop (pos + 8))) ∨
    (readBytes s0 b (pos + 2) 6 = .err "io" ∧ (bytesToWords (b.drop pos)).length < 4) := by
  have hlen := List.length_drop (i := pos) (l := b)
  by_cases h : pos + 8 ≤ b.length
  · obtain ⟨a0, a1, a2, a3, a4, a5, a6, a7, r, hd⟩ := eight_split (b.drop pos) (by omega)
    refine Or.inl ⟨[a2, a3, a4, a5, a6, a7], be a0 a1, be a2 a3, be a4 a5, be a6 a7, ?_, rfl, rfl,
      rfl, ?_⟩
    · unfold readBytes
      rw [if_neg (by omega), if_pos (by omega), ← List.drop_drop, hd]
      rfl
    · rw [← List.drop_drop, hd]
      rfl
  · refine Or.inr ⟨?_, ?_⟩
    · unfold readBytes
      rw [if_neg (by omega), if_neg (by omega)]
    · rw [bytesToWords_length]
      omega

theorem vrLoop_erase (b : Bytes) (fmt : Nat) : ∀ (n q : Nat) (acc : List VR) (c : Cost),
    (∃ vs q' c', vrLoop b fmt n q acc c = .ok (acc.reverse ++ vs, c') ∧
        SfntV.Otl.Gpos.vrReadN fmt n (bytesToWords (b.drop q)) =
          .ok (vs, bytesToWords (b.drop q'))) ∨
    (vrLoop b fmt n q acc c = .err "io" ∧
        SfntV.Otl.Gpos.vrReadN fmt n (bytesToWords (b.drop q)) = .err eIO)
  | 0, q, acc, c => Or.inl ⟨[], q, c, by unfold vrLoop; rw [List.append_nil], rfl⟩
  | n+1, q, acc, c => by
    unfold vrLoop SfntV.Otl.Gpos.vrReadN
    rcases vrRead_erase b fmt q c.tick with ⟨v, q1, c1, h1, h2⟩ | ⟨h1, h2⟩
    · rw [h1, h2, ok_bind]
      dsimp only
      rcases vrLoop_erase b fmt n q1 (v :: acc) c1 with ⟨vs, q', c', h3, h4⟩ | ⟨h3, h4⟩
      · refine Or.inl ⟨v :: vs, q', c', ?_, by rw [h4]⟩
        rw [h3, List.reverse_cons, List.append_assoc]
        rfl
      · exact Or.inr ⟨h3, by rw [h4]⟩
    · rw [h1, h2]
      exact Or.inr ⟨rfl, rfl⟩

theorem prune_erase (site : String) (cov : List (Nat × Nat)) (xs : List α) (c : Cost) :
    ∃ c', prune site cov xs c = .ok (SfntV.Otl.Gpos.prune cov xs, c') := by
  unfold prune SfntV.Otl.Gpos.prune
  split
  · rw [slice_ok _ _ _ _ (by omega), ok_bind]
    exact ⟨c, rfl⟩
  · split
    · exact ⟨_, rfl⟩
    · exact ⟨c, rfl⟩

/-- BRIDGE: `readGpos1_2` — the checked-index model without its cost is the value-level model of
C08 on the bytes from the subtable position on, for all bytes and all positions -/
theorem read12_erase (b : Bytes) (pos : Nat) :
    erase (read12 b pos) = SfntV.Otl.Gpos.read12 (b.drop pos) := by
  unfold read12 SfntV.Otl.Gpos.read12
  rcases hdr12_cases "gpos.go:152#ReadBytes(6)" "gpos.go:156#buf[0],buf[1]"
    "gpos.go:157#buf[2],buf[3]" "gpos.go:158#buf[4],buf[5]"
    b pos with ⟨buf, w0, co, vf, n, hbuf, hco, hvf, hn, hws⟩ | ⟨hbuf, hws⟩
  · rw [hbuf, ok_bind, hco, ok_bind, hvf, ok_bind, hn, ok_bind, hws,
      mkSlice_ok _ _ _ (w16_lt hn), ok_bind]
    dsimp only
    rcases vrLoop_erase b vf n (pos + 8) [] (Cost.zero.tick.mem n) with
      ⟨vs, q', c', h1, h2⟩ | ⟨h1, h2⟩
    · rw [h1, h2, ok_bind]
      dsimp only
      rw [List.drop_drop, ← coverageRead_erase]
      cases hcv : coverageRead b (pos + co) with
      | ok cv =>
        obtain ⟨cvl, cvc⟩ := cv
        obtain ⟨c2, hp⟩ := prune_erase "gpos.go:172#valueRecords[:len(cov)]" cvl
          ([].reverse ++ vs) (cadd c' cvc)
        rw [ok_bind]
        dsimp only
        rw [hp]
        rfl
      | err e => rfl
      | panic s => rfl
    · rw [h1, h2]; rfl
  · rw [hbuf]
    rcases short4 hws with h | ⟨a, h⟩ | ⟨a, a', h⟩ | ⟨a, a', a'', h⟩ <;> rw [h] <;> rfl


/-! ## readGposSubtable, lookup type 1 -/

/-- the subtables that the value-level model of C08 knows (GPOS 1.1, 1.2, 2.1) -/
def toC08 : Sub → Option SfntV.Otl.Gpos.Sub
  | .s11 cov vr => some (.s11 cov vr)
  | .s12 cov vrs => some (.s12 cov vrs)
  | .s21 cov sets => some (.s21 cov sets)
  | _ => none

/-- BRIDGE at the dispatcher, lookup type 1 (all format words, all bytes, all positions; no side
condition on the format word since the repair of /repo 8867078): the checked-index model of
`readGposSubtable` without its cost is the value-level dispatcher of C08.
Lookup type 2 is not bridged (format 2.1: `read21_erase` is not proved; format 2.2 is decoded by Go
and by this model but `Otl.Gpos.readSubtable` answers `invalid`: it does not model 2.2); for lookup
type 3 `Otl.Gpos.readSubtable` answers `invalid` where Go decodes format 3.1. -/
theorem readSubtable_erase_type1 (b : Bytes) (pos : Nat) :
    mapOk toC08 (erase (readSubtable b pos 1)) =
      mapOk some (SfntV.Otl.Gpos.readSubtable 1 (b.drop pos)) := by
  unfold readSubtable SfntV.Otl.Gpos.readSubtable
  rcases word_cases "gpos.go:40#ReadUint16" b pos with ⟨f, hf, hws⟩ | ⟨hf, hws⟩
  · rw [hf, hws, ok_bind]
    dsimp only
    by_cases h1 : f = 1
    · subst h1
      have e := read11_erase b pos
      rw [if_neg (by decide)]
      unfold dispatchKey
      rw [if_pos (by decide)]
      simp only [show ((1 : Nat) == 1) = true from rfl, Bool.and_self, if_true]
      rw [← e]
      cases read11 b pos with
      | ok r => obtain ⟨⟨r1, r2⟩, rc⟩ := r; rfl
      | err e => rfl
      | panic s => rfl
    by_cases h2 : f = 2
    · subst h2
      have e := read12_erase b pos
      rw [if_neg (by decide)]
      unfold dispatchKey
      rw [if_neg (by decide), if_pos (by decide)]
      simp only [show ((1 : Nat) == 1) = true from rfl, show ((2 : Nat) == 1) = false from rfl,
        show ((2 : Nat) == 2) = true from rfl, Bool.and_self, Bool.and_false, Bool.false_eq_true,
        if_true, if_false]
      rw [← e]
      cases read12 b pos with
      | ok r => obtain ⟨⟨r1, r2⟩, rc⟩ := r; rfl
      | err e => rfl
      | panic s => rfl
    · -- every other format word: `invalid` on both sides
      have hb1 : (f == 1) = false := by rw [beq_eq_false_iff_ne]; exact h1
      have hb2 : (f == 2) = false := by rw [beq_eq_false_iff_ne]; exact h2
      simp only [hb1, hb2, show ((1 : Nat) == 1) = true from rfl, show ((1 : Nat) == 2) = false from rfl,
        Bool.and_false, Bool.false_eq_true, if_false]
      split
      · rfl
      · rename_i hg
        unfold dispatchKey otherKeys
        have hk : (10 * (1 % 65536) + f) % 65536 = 10 + f := by omega
        rw [hk]
        rw [if_neg (by omega), if_neg (by omega), if_neg (by omega), if_neg (by omega),
          if_neg (by omega), if_neg (by omega)]
        have : ([41, 61, 71, 72, 73, 81, 82, 83, 91] : List Nat).contains (10 + f) = false := by
          have hf9 : f = 0 ∨ f = 3 ∨ f = 4 ∨ f = 5 ∨ f = 6 ∨ f = 7 ∨ f = 8 ∨ f = 9 := by omega
          rcases hf9 with h | h | h | h | h | h | h | h <;> subst h <;> rfl
        rw [this]
        rfl
  · rw [hf, hws]; rfl

end SfntV.Total.GposSub
