/-
C02: `maxp.Read` never panics and does a bounded amount of work (model: Model/TotalMaxp.lean).
-/
import SfntV.Model.TotalMaxp

namespace SfntV.Total.Maxp
open SfntV SfntV.Total

theorem idx_of_lt (site : String) (xs : List α) (i : Nat) (h : i < xs.length) :
    idx site xs i = .ok xs[i] := by
  unfold idx
  simp [h]

theorem w16_of_lt (site : String) (buf : Bytes) (i : Nat) (h : i + 1 < buf.length) :
    ∃ v, w16 site buf i = .ok v := by
  unfold w16
  rw [idx_of_lt site buf i (by omega), idx_of_lt site buf (i + 1) h]
  exact ⟨_, rfl⟩

theorem w32_of_lt (site : String) (buf : Bytes) (i : Nat) (h : i + 3 < buf.length) :
    ∃ v, w32 site buf i = .ok v := by
  unfold w32
  rw [idx_of_lt site buf i (by omega), idx_of_lt site buf (i + 1) (by omega),
    idx_of_lt site buf (i + 2) (by omega), idx_of_lt site buf (i + 3) h]
  exact ⟨_, rfl⟩

/-- `io.ReadFull` either fails with an I/O error or fills exactly `n` bytes -/
theorem readFull_cases (b : Bytes) (pos n : Nat) :
    (readFull b pos n = .err "io" ∧ ¬ pos + n ≤ b.length) ∨
    (∃ buf, readFull b pos n = .ok buf ∧ buf.length = n ∧ pos + n ≤ b.length) := by
  unfold readFull
  by_cases h : pos + n ≤ b.length
  · right
    refine ⟨(b.drop pos).take n, by simp [h], ?_, h⟩
    simp only [List.length_take, List.length_drop]
    omega
  · left
    simp [h]

theorem fields_ok (buf : Bytes) : ∀ n k, 2 * (k + n) ≤ buf.length →
    ∃ fs, fields buf n k = .ok fs := by
  intro n
  induction n with
  | zero => intro k _; exact ⟨[], rfl⟩
  | succ n ih =>
    intro k h
    obtain ⟨v, hv⟩ := w16_of_lt "maxp.go:82-94#buf[2k],buf[2k+1]" buf (2 * k) (by omega)
    obtain ⟨fs, hfs⟩ := ih (k + 1) (by omega)
    refine ⟨v :: fs, ?_⟩
    simp only [fields, bind, hv, hfs]
    rfl

/-- what `read` returns, in all cases: never a panic, and on success at most 2 reads and 2
objects, from an input of at least 6 bytes -/
theorem read_spec (b : Bytes) :
    (read b).noPanic ∧
    ∀ r c, read b = .ok (r, c) → c.steps ≤ 2 ∧ c.alloc ≤ 2 ∧ 6 ≤ b.length ∧ 0 < r.numGlyphs := by
  unfold read
  rcases readFull_cases b 0 6 with ⟨h, _⟩ | ⟨buf, h, hl, hb⟩
  · simp [h, bind, Outcome.noPanic]
  · obtain ⟨ver, hver⟩ := w32_of_lt "maxp.go:61#buf[0..3]" buf 0 (by omega)
    obtain ⟨ng, hng⟩ := w16_of_lt "maxp.go:66#buf[4],buf[5]" buf 4 (by omega)
    simp only [h, bind, hver, hng]
    split
    · simp [Outcome.noPanic]
    · split
      · simp [Outcome.noPanic]
      · rename_i hng0
        split
        · refine ⟨trivial, ?_⟩
          intro r c hrc
          injection hrc with hrc
          injection hrc with hr hc
          subst hr hc
          simp only [Cost.zero, Cost.tick, Cost.mem]
          omega
        · rcases readFull_cases b 6 26 with ⟨h2, _⟩ | ⟨buf2, h2, hl2, _⟩
          · simp [h2, Outcome.noPanic]
          · obtain ⟨fs, hfs⟩ := fields_ok buf2 13 0 (by omega)
            simp only [h2, hfs]
            refine ⟨trivial, ?_⟩
            intro r c hrc
            injection hrc with hrc
            injection hrc with hr hc
            subst hr hc
            simp only [Cost.zero, Cost.tick, Cost.mem]
            omega

theorem read_noPanic (b : Bytes) : (read b).noPanic := (read_spec b).1

theorem read_cost (b : Bytes) (r : Info) (c : Cost) (h : read b = .ok (r, c)) :
    c.steps ≤ 2 ∧ c.alloc ≤ 2 :=
  let ⟨h1, h2, _, _⟩ := (read_spec b).2 r c h
  ⟨h1, h2⟩

theorem read_ok_iff_len (b : Bytes) (h : ∃ r c, read b = .ok (r, c)) : 6 ≤ b.length := by
  obtain ⟨r, c, h⟩ := h
  exact ((read_spec b).2 r c h).2.2.1

/-- non-vacuity: a version 0.5 table with 3 glyphs is read with 1 step and 1 allocation -/
example : read [0, 0, 0x50, 0, 0, 3] = .ok (⟨3, none⟩, ⟨1, 1⟩) := by decide

end SfntV.Total.Maxp
