/-
C14 — `Tables.Choose`: the candidate order is a function of the map (not of its iteration order)
and starts with the most preferred table.
-/
import SfntV.Model.NamesChoose

namespace SfntV.Names

theorem lexLe_refl (a : List Nat) : lexLe a a = true := by
  induction a with
  | nil => rfl
  | cons x t ih => simp [lexLe, ih]

theorem lexLe_total (a b : List Nat) : (lexLe a b || lexLe b a) = true := by
  induction a generalizing b with
  | nil => simp [lexLe]
  | cons x t ih =>
    cases b with
    | nil => simp [lexLe]
    | cons y u =>
      simp only [lexLe]
      by_cases h1 : x < y
      · simp [h1]
      · by_cases h2 : y < x
        · simp [h1, h2]
        · simp only [h1, h2, if_false]; exact ih u

theorem lexLe_trans (a b c : List Nat) (h1 : lexLe a b = true) (h2 : lexLe b c = true) : lexLe a c = true := by
  induction a generalizing b c with
  | nil => simp [lexLe]
  | cons x t ih =>
    cases b with
    | nil => simp [lexLe] at h1
    | cons y u =>
      cases c with
      | nil => simp [lexLe] at h2
      | cons z v =>
        simp only [lexLe] at h1 h2 ⊢
        by_cases hxy : x < y
        · by_cases hyz : y < z
          · have : x < z := by omega
            simp [this]
          · by_cases hzy : z < y
            · simp [hyz, hzy] at h2
            · have : x < z := by omega
              simp [this]
        · by_cases hyx : y < x
          · simp [hxy, hyx] at h1
          · simp only [hxy, hyx, if_false] at h1
            have hxy' : x = y := by omega
            subst hxy'
            by_cases hxz : x < z
            · simp [hxz]
            · by_cases hzx : z < x
              · simp [hxz, hzx] at h2
              · simp only [hxz, hzx, if_false] at h2 ⊢
                exact ih u v h1 h2

theorem lexLe_antisymm (a b : List Nat) (h1 : lexLe a b = true) (h2 : lexLe b a = true) : a = b := by
  induction a generalizing b with
  | nil => cases b with
    | nil => rfl
    | cons y u => simp [lexLe] at h2
  | cons x t ih =>
    cases b with
    | nil => simp [lexLe] at h1
    | cons y u =>
      simp only [lexLe] at h1 h2
      by_cases hxy : x < y
      · have : ¬ y < x := by omega
        simp [hxy, this] at h2
      · by_cases hyx : y < x
        · simp [hxy, hyx] at h1
        · simp only [hxy, hyx, if_false] at h1 h2
          have : x = y := by omega
          subst this
          rw [ih u h1 h2]

theorem chooseLe_total (a b : List Nat × Nat) : (chooseLe a b || chooseLe b a) = true := by
  unfold chooseLe
  by_cases h : choosePref a = choosePref b
  · simp only [h, ne_eq, not_true_eq_false, if_false]; exact lexLe_total _ _
  · have h' : choosePref b ≠ choosePref a := fun e => h e.symm
    simp only [ne_eq, h, h', not_false_eq_true, if_true, Bool.or_eq_true, decide_eq_true_eq]
    omega

theorem chooseLe_trans (a b c : List Nat × Nat) (h1 : chooseLe a b = true) (h2 : chooseLe b c = true) :
    chooseLe a c = true := by
  unfold chooseLe at *
  by_cases hab : choosePref a = choosePref b
  · by_cases hbc : choosePref b = choosePref c
    · have hac : choosePref a = choosePref c := by omega
      simp only [hab, hbc, ne_eq, not_true_eq_false, if_false] at h1 h2 ⊢
      exact lexLe_trans _ _ _ h1 h2
    · simp only [hbc, ne_eq, not_false_eq_true, if_true, decide_eq_true_eq] at h2
      have hac : choosePref a ≠ choosePref c := by omega
      simp only [hac, ne_eq, not_false_eq_true, if_true, decide_eq_true_eq]; omega
  · simp only [hab, ne_eq, not_false_eq_true, if_true, decide_eq_true_eq] at h1
    by_cases hbc : choosePref b = choosePref c
    · have hac : choosePref a ≠ choosePref c := by omega
      simp only [hac, ne_eq, not_false_eq_true, if_true, decide_eq_true_eq]; omega
    · simp only [hbc, ne_eq, not_false_eq_true, if_true, decide_eq_true_eq] at h2
      have hac : choosePref a ≠ choosePref c := by omega
      simp only [hac, ne_eq, not_false_eq_true, if_true, decide_eq_true_eq]; omega

theorem chooseLe_keys (a b : List Nat × Nat) (h1 : chooseLe a b = true) (h2 : chooseLe b a = true) :
    a.1 = b.1 := by
  unfold chooseLe at *
  by_cases hab : choosePref a = choosePref b
  · simp only [hab, ne_eq, not_true_eq_false, if_false] at h1 h2
    exact lexLe_antisymm _ _ h1 h2
  · have hba : choosePref b ≠ choosePref a := fun e => hab e.symm
    simp only [hab, hba, ne_eq, not_false_eq_true, if_true, decide_eq_true_eq] at h1 h2
    omega

/-- the map's keys are distinct -/
def KeysDistinct (tt : List (List Nat × Nat)) : Prop := tt.Pairwise fun a b => a.1 ≠ b.1

theorem eq_of_key_eq {tt : List (List Nat × Nat)} (hd : KeysDistinct tt) {a b : List Nat × Nat}
    (ha : a ∈ tt) (hb : b ∈ tt) (h : a.1 = b.1) : a = b := by
  induction tt with
  | nil => cases ha
  | cons x t ih =>
    unfold KeysDistinct at hd
    rw [List.pairwise_cons] at hd
    simp only [List.mem_cons] at ha hb
    rcases ha with rfl | ha <;> rcases hb with rfl | hb
    · rfl
    · exact absurd h (hd.1 b hb)
    · exact absurd h.symm (hd.1 a ha)
    · exact ih hd.2 ha hb

theorem chooseOrder_perm_invariant (t₁ t₂ : List (List Nat × Nat)) (hd : KeysDistinct t₁)
    (hp : t₁.Perm t₂) : chooseOrder t₁ = chooseOrder t₂ := by
  unfold chooseOrder
  congr 1
  have p1 := List.mergeSort_perm t₁ chooseLe
  have p2 := List.mergeSort_perm t₂ chooseLe
  apply List.Perm.eq_of_pairwise (le := fun a b => chooseLe a b = true)
  · intro a b ha hb h1 h2
    have ha' : a ∈ t₁ := p1.subset ha
    have hb' : b ∈ t₁ := hp.symm.subset (p2.subset hb)
    exact eq_of_key_eq hd ha' hb' (chooseLe_keys a b h1 h2)
  · exact List.pairwise_mergeSort chooseLe_trans chooseLe_total t₁
  · exact List.pairwise_mergeSort chooseLe_trans chooseLe_total t₂
  · exact p1.trans (hp.trans p2.symm)

theorem chooseOrder_perm (tt : List (List Nat × Nat)) : (chooseOrder tt).Perm (tt.map (·.1)) :=
  (List.mergeSort_perm tt chooseLe).map _

/-- the first candidate (the matcher's default) has maximal preference -/
theorem choose_head_max (tt : List (List Nat × Nat)) (e : List Nat × Nat) (rest : List (List Nat × Nat))
    (h : tt.mergeSort chooseLe = e :: rest) : ∀ x ∈ tt, choosePref x ≤ choosePref e := by
  intro x hx
  have hs := List.pairwise_mergeSort chooseLe_trans chooseLe_total tt
  rw [h, List.pairwise_cons] at hs
  have hx' : x ∈ e :: rest := by rw [← h]; exact (List.mergeSort_perm tt chooseLe).symm.subset hx
  simp only [List.mem_cons] at hx'
  rcases hx' with rfl | hx'
  · exact Nat.le_refl _
  · have := hs.1 x hx'
    unfold chooseLe at this
    by_cases hp : choosePref e = choosePref x
    · omega
    · simp only [hp, ne_eq, not_false_eq_true, if_true, decide_eq_true_eq] at this; omega

end SfntV.Names
