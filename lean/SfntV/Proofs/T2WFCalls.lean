/-
Whole-program progress and quirk-irrelevance for well-formed programs WITH subroutine calls (C05).
-/
import SfntV.Proofs.T2WF
import SfntV.Proofs.T2Calls

set_option linter.unusedSimpArgs false
set_option linter.unusedVariables false

namespace SfntV.T2
open SfntV SfntV.Spec.T2

theorem Ends.prepend {q : Quirks} {env : Env} {d : Nat} {s s1 s2 : St} {c c1 : List Nat}
    (h1 : Run q env d s c s1 c1) (h2 : Ends q env d s1 c1 s2) : Ends q env d s c s2 := by
  cases h2 with
  | here hr hd => exact Ends.here (h1.trans hr) hd
  | inCall hr hc hg he => exact Ends.inCall (h1.trans hr) hc hg he

theorem trunc_mul_one (v : Int) : trunc (v * one) = v := by
  unfold trunc one
  exact Int.mul_tdiv_cancel v (by decide)

theorem bias_eq (n : Nat) : bias n = if n < 1240 then 107 else if n < 33900 then 1131 else 32768 := rfl

theorem biased_range (n i : Nat) (hi : i < n) (hn : n ≤ 65536) :
    -32768 ≤ biased n i ∧ biased n i ≤ 32767 := by
  unfold biased
  rw [bias_eq]
  split
  · constructor <;> omega
  · split
    · constructor <;> omega
    · constructor <;> omega

theorem getSubr_biased (tbl : List (List Nat)) (i : Nat) (hi : i < tbl.length) :
    getSubr tbl (biased tbl.length i) = .ok tbl[i] := by
  unfold getSubr biased
  simp only
  have e : (i : Int) - (bias tbl.length : Int) + (bias tbl.length : Int) = i := by omega
  rw [e]
  rw [if_neg (by omega)]
  simp [hi]

/-- the two steps of a call: push the biased index, execute callsubr/callgsubr -/
theorem call_steps (q : Quirks) (T : Tables) (dw nw : Int) (s : St) (g : Bool) (i : Nat) (rest : List Nat)
    (body : PProgram) (hb : (T.tbl g)[i]? = some body) (hlen : (T.tbl g).length ≤ 65536)
    (hs : s.stack.length + 1 ≤ 48) (hme : s.moveErr = false) :
    ∃ s1 c1 b, T2.step q (T.env dw nw) s (encodePTok T (.call g i) ++ rest) = .ok (.cont s1 c1) ∧
      T2.step q (T.env dw nw) s1 c1 = .ok (.call s rest g b) ∧
      getSubr (if g then (T.env dw nw).gsubrs else (T.env dw nw).subrs) b = .ok (encodeBody T body) := by
  have hi : i < (T.tbl g).length := by
    rcases Nat.lt_or_ge i (T.tbl g).length with h | h
    · exact h
    · rw [List.getElem?_eq_none h] at hb; cases hb
  have hrange := biased_range (T.tbl g).length i hi hlen
  have hpush := step_encodeInt q (T.env dw nw) s (biased (T.tbl g).length i)
    (opBytes (if g then Op.callgsubr else Op.callsubr) ++ rest) hrange (by omega)
  refine ⟨_, _, biased (T.tbl g).length i, by simpa [encodePTok, List.append_assoc] using hpush, ?_, ?_⟩
  · rw [step_op' q _ _ _ rest (by simp; omega)]
    cases g <;> simp [exec, pop1_snoc, trunc_mul_one, checkMove, hme] <;> (cases s; simp_all)
  · have hmap : ∀ (l : List PProgram) (hl : i < l.length) (b : PProgram), l[i]? = some b →
        getSubr (l.map (encodeBody T)) (biased l.length i) = .ok (encodeBody T b) := by
      intro l hl b hb'
      have := getSubr_biased (l.map (encodeBody T)) i (by simpa using hl)
      simp only [List.length_map] at this
      rw [this]
      have : l[i] = b := by
        rw [List.getElem?_eq_getElem hl] at hb'
        exact Option.some.inj hb'
      simp [this]
    cases g
    · simpa [Tables.env, Tables.tbl] using hmap T.lsubrs (by simpa [Tables.tbl] using hi) body (by simpa [Tables.tbl] using hb)
    · simpa [Tables.env, Tables.tbl] using hmap T.gsubrs (by simpa [Tables.tbl] using hi) body (by simpa [Tables.tbl] using hb)

theorem ret_step (q : Quirks) (env : Env) (s : St) (hs : s.stack.length ≤ 48) (hme : s.moveErr = false) :
    T2.step q env s (opBytes .ret) = .ok (.ret s) := by
  have := step_op' q env s .ret [] hs
  rw [List.append_nil] at this
  rw [this]
  simp [exec, checkMove]

theorem encodePTok_ne_nil (T : Tables) (t : PTok) : encodePTok T t ≠ [] := by
  cases t with
  | tok t => exact encodeTok_ne_nil t
  | call g i =>
    simp only [encodePTok]
    intro h
    have := (List.append_eq_nil_iff.mp h).2
    rcases opBytes_all' (if g then Op.callgsubr else Op.callsubr) with ⟨b, hb, _⟩ | ⟨b, hb, _⟩ <;> rw [hb] at this <;> simp at this

theorem encodeP_cons (T : Tables) (t : PTok) (r : PProgram) : encodeP T (t :: r) = encodePTok T t ++ encodeP T r := by
  simp [encodeP]

theorem encodeP_ne_nil (T : Tables) (r : PProgram) (h : r ≠ []) : encodeP T r ≠ [] := by
  cases r with
  | nil => exact absurd rfl h
  | cons t r =>
    rw [encodeP_cons]
    intro hc
    exact encodePTok_ne_nil T t (List.append_eq_nil_iff.mp hc).1

/-- once the glyph has ended nothing more is accepted -/
theorem wfRunP_ended (T : Tables) (f dep : Nat) (a a' : Abs) (p : PProgram) (he : a.ended = true)
    (h : wfRunP T f dep a p = some a') : a' = a := by
  cases f with
  | zero => simp [wfRunP] at h
  | succ f =>
    cases p with
    | nil => simp only [wfRunP, Option.some.injEq] at h; exact h.symm
    | cons t r =>
      cases t with
      | tok t =>
        simp only [wfRunP] at h
        have : wfTok a t = none := by
          cases t <;> simp [wfTok, he]
        rw [this] at h
        cases h
      | call g i =>
        cases dep <;> simp [wfRunP, he] at h

theorem opBytes_ret_ne : opBytes .ret ≠ [] := by decide

/-- programs with calls: progress of the specification interpreter and agreement of the Go
configuration, by induction on the checker's fuel -/
theorem prunP (T : Tables) (dw nw : Int) (hTA : Bool)
    (hT : hTA = true → T.lsubrs.all (·.all agreesPTok) = true ∧ T.gsubrs.all (·.all agreesPTok) = true) :
    ∀ (f dep : Nat) (a a' : Abs) (p : PProgram) (s : St) (rest : List Nat),
      wfRunP T f dep a p = some a' → Sim a s → (rest ≠ [] ∨ a'.ended = true) →
      (a'.ended = false → ∃ s', Run strict (T.env dw nw) dep s (encodeP T p ++ rest) s' rest ∧ Sim a' s' ∧
        (p.all agreesPTok = true → hTA = true → BndL s.stack →
          Run goQuirks (T.env dw nw) dep s (encodeP T p ++ rest) s' rest ∧ BndL s'.stack)) ∧
      (a'.ended = true → ∃ s2, Ends strict (T.env dw nw) dep s (encodeP T p ++ rest) s2 ∧
        (p.all agreesPTok = true → hTA = true → BndL s.stack →
          Ends goQuirks (T.env dw nw) dep s (encodeP T p ++ rest) s2)) := by
  intro f
  induction f with
  | zero => intro dep a a' p s rest h; simp [wfRunP] at h
  | succ f ih =>
    intro dep a a' p s rest h hsim hrest
    cases p with
    | nil =>
      simp only [wfRunP, Option.some.injEq] at h
      subst h
      refine ⟨fun _ => ⟨s, Run.refl _ _ _, hsim, fun _ _ hb => ⟨Run.refl _ _ _, hb⟩⟩, fun he => ?_⟩
      rw [hsim.notEnded] at he; cases he
    | cons t r =>
      cases t with
      | tok t =>
        simp only [wfRunP] at h
        cases h1 : wfTok a t with
        | none => rw [h1] at h; cases h
        | some a1 =>
          rw [h1] at h
          simp only [Option.bind_some] at h
          rw [encodeP_cons]
          simp only [encodePTok, List.append_assoc]
          by_cases hte : t = .op .endchar
          · subst hte
            have hend' : (a.ended = true) = False := by simp [hsim.notEnded]
            have h1' := h1
            simp only [wfTok, hend', if_false, isMoveto, isPathOp, isStem, Bool.false_eq_true, beq_self_eq_true, if_true] at h1'
            cases haw : afterWidth a .endchar with
            | none => rw [haw] at h1'; cases h1'
            | some n =>
              rw [haw] at h1'
              simp only [Option.map_some, Option.some.injEq] at h1'
              have ha1 : a1.ended = true := by rw [← h1']
              have ha' : a' = a1 := wfRunP_ended T f dep a1 a' r ha1 h
              obtain ⟨s2, hex⟩ := endchar_tok (T.env dw nw) a s (encodeP T r ++ rest) n haw hsim
              have hstep : ∀ q, T2.step q (T.env dw nw) s (encodeTok (.op .endchar) ++ (encodeP T r ++ rest)) = .ok (.done s2) := by
                intro q
                simp only [encodeTok]
                rw [step_op' q _ s .endchar _ hsim.le48, hex q]
                rfl
              refine ⟨fun he => ?_, fun _ => ⟨s2, Ends.here (Run.refl _ _ _) (hstep strict),
                fun _ _ _ => Ends.here (Run.refl _ _ _) (hstep goQuirks)⟩⟩
              rw [ha', ha1] at he; cases he
          · have hr' : encodeP T r ++ rest ≠ [] := by
              rcases hrest with h0 | h0
              · intro hc; exact h0 (List.append_eq_nil_iff.mp hc).2
              · have hrne : r ≠ [] := by
                  intro hnil
                  subst hnil
                  cases f with
                  | zero => simp [wfRunP] at h
                  | succ f' =>
                    simp only [wfRunP, Option.some.injEq] at h
                    subst h
                    obtain ⟨_, _, hs1, _⟩ := tok_progress (T.env dw nw) a a1 s t [0] h1 hsim hte (by simp)
                    rw [hs1.notEnded] at h0; cases h0
                intro hc
                exact encodeP_ne_nil T r hrne (List.append_eq_nil_iff.mp hc).1
            obtain ⟨s1, hr1, hsim1, hag1⟩ := tok_progress (T.env dw nw) a a1 s t (encodeP T r ++ rest) h1 hsim hte hr'
            obtain ⟨ihA, ihB⟩ := ih dep a1 a' r s1 rest h hsim1 hrest
            refine ⟨fun he => ?_, fun he => ?_⟩
            · obtain ⟨s', k1, k2, k3⟩ := ihA he
              refine ⟨s', (Run.of_reaches dep hr1).trans k1, k2, fun hag hta hb => ?_⟩
              simp only [List.all_cons, Bool.and_eq_true, agreesPTok] at hag
              obtain ⟨g1, g2⟩ := hag1 hag.1 hb
              obtain ⟨g3, g4⟩ := k3 hag.2 hta g2
              exact ⟨(Run.of_reaches dep g1).trans g3, g4⟩
            · obtain ⟨s2, k1, k3⟩ := ihB he
              refine ⟨s2, Ends.prepend (Run.of_reaches dep hr1) k1, fun hag hta hb => ?_⟩
              simp only [List.all_cons, Bool.and_eq_true, agreesPTok] at hag
              obtain ⟨g1, g2⟩ := hag1 hag.1 hb
              exact Ends.prepend (Run.of_reaches dep g1) (k3 hag.2 hta g2)
      | call g i =>
        cases dep with
        | zero => simp [wfRunP] at h
        | succ dep' =>
          simp only [wfRunP] at h
          split at h
          · cases h
          · rename_i hcond
            have hcf : (a.ended || decide (a.depth + 1 > Gen.t2maxStack) || decide ((T.tbl g).length > 65536)) = false := by
              simpa using hcond
            simp only [Bool.or_eq_false_iff, decide_eq_false_iff_not, maxStack_eq] at hcf
            obtain ⟨⟨hc1, hc2⟩, hc3⟩ := hcf
            have hc2' : ¬ (a.depth + 1 > 48) := of_decide_eq_false hc2
            cases hq : (T.tbl g)[i]? with
            | none => rw [hq] at h; cases h
            | some qb =>
              rw [hq] at h
              simp only at h
              cases hb2 : wfRunP T f dep' a qb with
              | none => rw [hb2] at h; cases h
              | some a2 =>
                rw [hb2] at h
                simp only at h
                have h48 : s.stack.length + 1 ≤ 48 := by rw [← hsim.depth]; omega
                have hlen : (T.tbl g).length ≤ 65536 := by omega
                rw [encodeP_cons, List.append_assoc]
                -- the call steps, for both configurations
                have hcs := fun q => call_steps q T dw nw s g i (encodeP T r ++ rest) qb hq hlen h48 hsim.noErr
                -- the body, run one level deeper
                obtain ⟨ihA, ihB⟩ := ih dep' a a2 qb s (opBytes .ret) hb2 hsim (Or.inl opBytes_ret_ne)
                have hqag : hTA = true → qb.all agreesPTok = true := by
                  intro hta
                  obtain ⟨t1, t2⟩ := hT hta
                  have hmem : qb ∈ T.tbl g := List.mem_of_getElem? hq
                  cases g
                  · exact List.all_eq_true.mp t1 qb (by simpa [Tables.tbl] using hmem)
                  · exact List.all_eq_true.mp t2 qb (by simpa [Tables.tbl] using hmem)
                by_cases he2 : a2.ended = true
                · -- the body ends the glyph
                  simp only [he2, if_true] at h
                  split at h
                  · simp only [Option.some.injEq] at h
                    subst h
                    obtain ⟨s2, k1, k3⟩ := ihB he2
                    refine ⟨fun he => (by rw [he2] at he; cases he), fun _ => ⟨s2, ?_, fun _ hta hb => ?_⟩⟩
                    · obtain ⟨s1, c1, b, e1, e2, e3⟩ := hcs strict
                      exact Ends.inCall (Run.step e1 (Run.refl _ _ _)) e2 e3 k1
                    · obtain ⟨s1, c1, b, e1, e2, e3⟩ := hcs goQuirks
                      exact Ends.inCall (Run.step e1 (Run.refl _ _ _)) e2 e3 (k3 (hqag hta) hta hb)
                  · cases h
                · have he2' : a2.ended = false := by simpa using he2
                  simp only [he2', Bool.false_eq_true, if_false] at h
                  obtain ⟨sb, kb1, kb2, kb3⟩ := ihA he2'
                  obtain ⟨ihA2, ihB2⟩ := ih (dep' + 1) a2 a' r sb rest h kb2 hrest
                  have hretq := fun q => ret_step q (T.env dw nw) sb kb2.le48 kb2.noErr
                  have hcall : ∀ q (sx : St) (cx : List Nat),
                      Run q (T.env dw nw) dep' s (encodeBody T qb) sb (opBytes .ret) →
                      Run q (T.env dw nw) (dep' + 1) sb (encodeP T r ++ rest) sx cx →
                      Run q (T.env dw nw) (dep' + 1) s (encodePTok T (.call g i) ++ (encodeP T r ++ rest)) sx cx := by
                    intro q sx cx hbody hrest'
                    obtain ⟨s1, c1, b, e1, e2, e3⟩ := hcs q
                    exact Run.step e1 (Run.call e2 e3 hbody opBytes_ret_ne (hretq q) hrest')
                  refine ⟨fun he => ?_, fun he => ?_⟩
                  · obtain ⟨s', k1, k2, k3⟩ := ihA2 he
                    refine ⟨s', hcall strict s' rest kb1 k1, k2, fun hag hta hb => ?_⟩
                    simp only [List.all_cons, Bool.and_eq_true, agreesPTok] at hag
                    obtain ⟨g1, g2⟩ := kb3 (hqag hta) hta hb
                    obtain ⟨g3, g4⟩ := k3 hag.2 hta g2
                    exact ⟨hcall goQuirks s' rest g1 g3, g4⟩
                  · obtain ⟨s2, k1, k3⟩ := ihB2 he
                    have hcallE : ∀ q, Run q (T.env dw nw) dep' s (encodeBody T qb) sb (opBytes .ret) →
                        Ends q (T.env dw nw) (dep' + 1) sb (encodeP T r ++ rest) s2 →
                        Ends q (T.env dw nw) (dep' + 1) s (encodePTok T (.call g i) ++ (encodeP T r ++ rest)) s2 := by
                      intro q hbody hE
                      exact Ends.prepend (hcall q sb _ hbody (Run.refl _ _ _)) hE
                    refine ⟨s2, hcallE strict kb1 k1, fun hag hta hb => ?_⟩
                    simp only [List.all_cons, Bool.and_eq_true, agreesPTok] at hag
                    obtain ⟨g1, g2⟩ := kb3 (hqag hta) hta hb
                    exact hcallE goQuirks g1 (k3 hag.2 hta g2)

/-- whole programs with calls into stack-neutral subroutine tables -/
theorem wfP_progress (T : Tables) (dw nw : Int) (fuel : Nat) (p : PProgram) (h : wfCheckP T fuel p = true) :
    ∃ g, interp strict (T.env dw nw) (encodeP T p) = .ok g ∧
      (agreesCheckP T p = true → interp goQuirks (T.env dw nw) (encodeP T p) = .ok g) := by
  unfold wfCheckP at h
  cases hr : wfRunP T fuel Gen.t2callDepth {} p with
  | none => rw [hr] at h; cases h
  | some a' =>
    rw [hr] at h
    simp only at h
    have key := prunP T dw nw (T.lsubrs.all (·.all agreesPTok) && T.gsubrs.all (·.all agreesPTok))
      (fun hta => by simpa [Bool.and_eq_true] using hta)
      fuel Gen.t2callDepth {} a' p (St.init (T.env dw nw)) [] hr (sim_init _) (Or.inr h)
    obtain ⟨s2, k1, k2⟩ := key.2 h
    rw [List.append_nil] at k1 k2
    refine ⟨s2.glyph, interp_of_ends strict _ _ s2 k1, fun hag => ?_⟩
    unfold agreesCheckP at hag
    simp only [Bool.and_eq_true] at hag
    exact interp_of_ends goQuirks _ _ s2
      (k2 hag.1.1 (by simp [hag.1.2, hag.2]) (by intro v hv; cases hv))

end SfntV.T2
