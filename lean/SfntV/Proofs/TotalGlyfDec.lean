/-
C02 (decoders are total): proofs about the checked-index model of the glyf/loca decoders
(`SfntV.Total.GlyfDec`): `decodeLoca`, `SimpleGlyph.removePadding`, `decodeGlyph`, `Decode` never
panic (the composite decoder being an abstract non-panicking parameter), explicit linear cost
bounds, the postcondition of `decodeLoca` that makes the per-glyph slice of `Decode` safe, and the
bridging lemmas to the value-level model of C11 (`SfntV.Glyf`, Model/Glyf.lean).
-/
import SfntV.Model.TotalGlyfDec
import SfntV.Model.Glyf
import SfntV.Proofs.TotalGdef

namespace SfntV.Total.GlyfDec
open SfntV SfntV.Total
open SfntV.Total.Gdef (idx_ok ok_bind bind_noPanic bind_eq_ok)

/-! ## generic -/

theorem slice_ok (site : String) (xs : List α) (a b : Nat) (h : a ≤ b ∧ b ≤ xs.length) :
    slice site xs a b = .ok ((xs.drop a).take (b - a)) := by
  unfold slice
  rw [if_pos h]

theorem mkSliceLe_ok (site : String) (n avail : Nat) (c : Cost) (h : n ≤ avail) :
    mkSliceLe site n avail c = .ok (c.mem n) := by
  unfold mkSliceLe
  rw [if_pos h]

theorem idx_getD (site : String) (xs : List Nat) (i : Nat) (h : i < xs.length) :
    idx site xs i = .ok (xs.getD i 0) := by
  rw [idx_ok site xs i h]
  simp [List.getD, List.getElem?_eq_getElem h]

/-! ## `decodeLoca` -/

theorem loca0_noPanic (loca : Bytes) (gl total : Nat) : ∀ (n i prev : Nat),
    2 * (i + n) ≤ loca.length → i + n ≤ total → (loca0 loca gl total n i prev).noPanic
  | 0, _, _, _, _ => True.intro
  | n+1, i, prev, h1, h2 => by
    unfold loca0
    rw [idx_ok _ loca (2 * i) (by omega), ok_bind, idx_ok _ loca (2 * i + 1) (by omega), ok_bind]
    dsimp only
    split
    · exact True.intro
    · rw [if_neg (by omega)]
      refine bind_noPanic (loca0_noPanic loca gl total n (i + 1) _ (by omega) (by omega)) ?_
      intro r _
      obtain ⟨rest, c⟩ := r
      exact True.intro

theorem loca1_noPanic (loca : Bytes) (gl total : Nat) : ∀ (n i prev : Nat),
    4 * (i + n) ≤ loca.length → i + n ≤ total → (loca1 loca gl total n i prev).noPanic
  | 0, _, _, _, _ => True.intro
  | n+1, i, prev, h1, h2 => by
    unfold loca1
    rw [idx_ok _ loca (4 * i) (by omega), ok_bind, idx_ok _ loca (4 * i + 1) (by omega), ok_bind,
      idx_ok _ loca (4 * i + 2) (by omega), ok_bind, idx_ok _ loca (4 * i + 3) (by omega), ok_bind]
    dsimp only
    split
    · exact True.intro
    · rw [if_neg (by omega)]
      refine bind_noPanic (loca1_noPanic loca gl total n (i + 1) _ (by omega) (by omega)) ?_
      intro r _
      obtain ⟨rest, c⟩ := r
      exact True.intro

/-- `decodeLoca` never panics, whatever the table, the format and the length of the glyf table -/
theorem decodeLoca_noPanic (fmt : Int) (loca : Bytes) (gl : Nat) :
    (decodeLoca fmt loca gl).noPanic := by
  unfold decodeLoca
  split
  · dsimp only
    split
    · exact True.intro
    · rename_i hn
      rw [mkSliceLe_ok _ _ _ _ (by omega), ok_bind]
      refine bind_noPanic (loca0_noPanic loca gl _ _ 0 0 (by omega) (by omega)) ?_
      intro r _
      obtain ⟨rest, c⟩ := r
      exact True.intro
  · split
    · dsimp only
      split
      · exact True.intro
      · rename_i hn
        rw [mkSliceLe_ok _ _ _ _ (by omega), ok_bind]
        refine bind_noPanic (loca1_noPanic loca gl _ _ 0 0 (by omega) (by omega)) ?_
        intro r _
        obtain ⟨rest, c⟩ := r
        exact True.intro
    · exact True.intro

/-- what a successful run of either loop returns -/
structure LocaOk (gl n prev : Nat) (offs : List Nat) (c : Cost) : Prop where
  len : offs.length = n
  steps : c.steps = n
  alloc : c.alloc = 0
  bound : ∀ x ∈ offs, prev ≤ x ∧ x ≤ gl
  sorted : offs.Pairwise (· ≤ ·)

theorem loca0_ok (loca : Bytes) (gl total : Nat) : ∀ (n i prev : Nat) (offs : List Nat) (c : Cost),
    loca0 loca gl total n i prev = .ok (offs, c) → LocaOk gl n prev offs c
  | 0, _, _, offs, c, h => by
    unfold loca0 at h
    cases h
    exact ⟨rfl, rfl, rfl, fun x hx => (by cases hx), List.Pairwise.nil⟩
  | n+1, i, prev, offs, c, h => by
    unfold loca0 at h
    obtain ⟨hi, _, h⟩ := bind_eq_ok h
    obtain ⟨lo, _, h⟩ := bind_eq_ok h
    dsimp only at h
    split at h
    · cases h
    · rename_i hc
      split at h
      · cases h
      · obtain ⟨r, hr, h⟩ := bind_eq_ok h
        obtain ⟨rest, c1⟩ := r
        cases h
        have ih := loca0_ok loca gl total n (i + 1) _ rest c1 hr
        refine ⟨by simp [ih.len], by simp [Cost.tick, ih.steps], ih.alloc, ?_, ?_⟩
        · intro x hx
          rcases List.mem_cons.mp hx with rfl | hx
          · omega
          · have := ih.bound x hx
            omega
        · exact List.pairwise_cons.mpr ⟨fun x hx => (ih.bound x hx).1, ih.sorted⟩

theorem loca1_ok (loca : Bytes) (gl total : Nat) : ∀ (n i prev : Nat) (offs : List Nat) (c : Cost),
    loca1 loca gl total n i prev = .ok (offs, c) → LocaOk gl n prev offs c
  | 0, _, _, offs, c, h => by
    unfold loca1 at h
    cases h
    exact ⟨rfl, rfl, rfl, fun x hx => (by cases hx), List.Pairwise.nil⟩
  | n+1, i, prev, offs, c, h => by
    unfold loca1 at h
    obtain ⟨a, _, h⟩ := bind_eq_ok h
    obtain ⟨b, _, h⟩ := bind_eq_ok h
    obtain ⟨c', _, h⟩ := bind_eq_ok h
    obtain ⟨d, _, h⟩ := bind_eq_ok h
    dsimp only at h
    split at h
    · cases h
    · rename_i hc
      split at h
      · cases h
      · obtain ⟨r, hr, h⟩ := bind_eq_ok h
        obtain ⟨rest, c1⟩ := r
        cases h
        have ih := loca1_ok loca gl total n (i + 1) _ rest c1 hr
        refine ⟨by simp [ih.len], by simp [Cost.tick, ih.steps], ih.alloc, ?_, ?_⟩
        · intro x hx
          rcases List.mem_cons.mp hx with rfl | hx
          · omega
          · have := ih.bound x hx
            omega
        · exact List.pairwise_cons.mpr ⟨fun x hx => (ih.bound x hx).1, ih.sorted⟩

/-- a successful `decodeLoca`: at least two offsets (`len(loca)/2` resp. `/4` of them), sorted,
all within the glyf table; `len(offs)` steps and `len(offs)` allocated slice elements -/
theorem decodeLoca_ok {fmt : Int} {loca : Bytes} {gl : Nat} {offs : List Nat} {c : Cost}
    (h : decodeLoca fmt loca gl = .ok (offs, c)) :
    2 ≤ offs.length ∧ offs.length ≤ loca.length / 2 ∧ c.steps = offs.length ∧
      c.alloc = offs.length ∧ offs.Pairwise (· ≤ ·) ∧ ∀ x ∈ offs, x ≤ gl := by
  unfold decodeLoca at h
  split at h
  · dsimp only at h
    split at h
    · cases h
    · rename_i hn
      rw [mkSliceLe_ok _ _ _ _ (by omega), ok_bind] at h
      obtain ⟨r, hr, h⟩ := bind_eq_ok h
      obtain ⟨o, d⟩ := r
      cases h
      have k := loca0_ok _ _ _ _ _ _ _ _ hr
      refine ⟨by rw [k.len]; omega, by rw [k.len]; omega, ?_, ?_, k.sorted, fun x hx => (k.bound x hx).2⟩
      · simp [addCost, Cost.mem, Cost.zero, k.steps, k.len]
      · simp [addCost, Cost.mem, Cost.zero, k.alloc, k.len]
  · split at h
    · dsimp only at h
      split at h
      · cases h
      · rename_i hn
        rw [mkSliceLe_ok _ _ _ _ (by omega), ok_bind] at h
        obtain ⟨r, hr, h⟩ := bind_eq_ok h
        obtain ⟨o, d⟩ := r
        cases h
        have k := loca1_ok _ _ _ _ _ _ _ _ hr
        refine ⟨by rw [k.len]; omega, by rw [k.len]; omega, ?_, ?_, k.sorted, fun x hx => (k.bound x hx).2⟩
        · simp [addCost, Cost.mem, Cost.zero, k.steps, k.len]
        · simp [addCost, Cost.mem, Cost.zero, k.alloc, k.len]
    · cases h

theorem decodeLoca_cost {fmt : Int} {loca : Bytes} {gl : Nat} {offs : List Nat} {c : Cost}
    (h : decodeLoca fmt loca gl = .ok (offs, c)) :
    c.steps ≤ loca.length / 2 ∧ c.alloc ≤ loca.length / 2 := by
  have := decodeLoca_ok h
  omega

theorem decodeLoca_ok_spec {fmt : Int} {loca : Bytes} {gl : Nat} {offs : List Nat} {c : Cost}
    (h : decodeLoca fmt loca gl = .ok (offs, c)) :
    offs ≠ [] ∧ offs.Pairwise (· ≤ ·) ∧ ∀ x ∈ offs, x ≤ gl := by
  have k := decodeLoca_ok h
  refine ⟨?_, k.2.2.2.2.1, k.2.2.2.2.2⟩
  intro he
  rw [he] at k
  simp at k

/-! ## `removePadding` -/

theorem rpLoop_noPanic (buf : Bytes) (np : Nat) : ∀ (fuel pos coord i : Nat) (c : Cost),
    (rpLoop buf np fuel pos coord i c).noPanic
  | 0, _, _, _, _ => True.intro
  | fuel+1, pos, coord, i, c => by
    unfold rpLoop
    split
    · split
      · exact True.intro
      · rw [idx_ok _ buf pos (by omega), ok_bind]
        dsimp only
        split
        · split
          · exact True.intro
          · rw [idx_ok _ buf (pos + 1) (by omega), ok_bind]
            exact rpLoop_noPanic buf np fuel _ _ _ _
        · exact rpLoop_noPanic buf np fuel _ _ _ _
    · exact True.intro

/-- the flag loop allocates nothing, and every iteration consumes at least one byte of `buf` -/
theorem rpLoop_ok (buf : Bytes) (np : Nat) : ∀ (fuel pos coord i : Nat) (c : Cost)
    (p' co' i' : Nat) (c' : Cost), rpLoop buf np fuel pos coord i c = .ok ((p', co', i'), c') →
    c'.alloc = c.alloc ∧ c'.steps + pos ≤ c.steps + p' ∧ pos ≤ p' ∧ (p' = pos ∨ p' ≤ buf.length)
  | 0, pos, coord, i, c, p', co', i', c', h => by
    unfold rpLoop at h
    cases h
    omega
  | fuel+1, pos, coord, i, c, p', co', i', c', h => by
    unfold rpLoop at h
    split at h
    · split at h
      · cases h
      · rw [idx_ok _ buf pos (by omega), ok_bind] at h
        dsimp only at h
        split at h
        · split at h
          · cases h
          · rw [idx_ok _ buf (pos + 1) (by omega), ok_bind] at h
            have ih := rpLoop_ok buf np fuel _ _ _ _ _ _ _ _ h
            simp only [Cost.tick] at ih
            omega
        · have ih := rpLoop_ok buf np fuel _ _ _ _ _ _ _ _ h
          simp only [Cost.tick] at ih
          omega
    · cases h
      omega

/-- `removePadding` never panics: for every contour count `nc ≥ 0` and every buffer.  In particular
the instruction-length read `buf[pos]`, `buf[pos+1]` at `pos = 2*nc` lies below the checked
`2*nc+2 ≤ len(buf)`, and `buf[:pos]` is reached only after `pos > len(buf)` was excluded. -/
theorem removePadding_noPanic (nc : Nat) (buf : Bytes) : (removePadding nc buf).noPanic := by
  unfold removePadding
  split
  · exact True.intro
  · rename_i hlen
    dsimp only
    have hnp : ∃ v, (if nc > 0 then do
          let hi ← idx "simple.go:186#buf[pos-2]" buf (2 * nc - 2)
          let lo ← idx "simple.go:186#buf[pos-1]" buf (2 * nc - 1)
          pure (be hi lo + 1)
        else pure 0 : Outcome Nat) = .ok v := by
      split
      · rw [idx_ok _ buf (2 * nc - 2) (by omega), ok_bind, idx_ok _ buf (2 * nc - 1) (by omega), ok_bind]
        exact ⟨_, rfl⟩
      · exact ⟨_, rfl⟩
    obtain ⟨v, hv⟩ := hnp
    rw [hv, ok_bind, idx_ok _ buf (2 * nc) (by omega), ok_bind,
      idx_ok _ buf (2 * nc + 1) (by omega), ok_bind]
    refine bind_noPanic (rpLoop_noPanic _ _ _ _ _ _ _) ?_
    intro r _
    obtain ⟨⟨p, co, i⟩, c⟩ := r
    dsimp only
    split
    · exact True.intro
    · rename_i hc
      rw [slice_ok _ _ _ _ (by omega), ok_bind]
      exact True.intro

/-- a successful `removePadding` returns a prefix of the buffer, after at most `len(buf)` loop
iterations and without allocating -/
theorem removePadding_ok {nc : Nat} {buf enc : Bytes} {c : Cost}
    (h : removePadding nc buf = .ok (enc, c)) :
    (∃ k, k ≤ buf.length ∧ 2 * nc + 2 ≤ k ∧ enc = buf.take k) ∧ c.steps ≤ buf.length ∧ c.alloc = 0 := by
  unfold removePadding at h
  split at h
  · cases h
  · rename_i hlen
    dsimp only at h
    obtain ⟨v, _, h⟩ := bind_eq_ok h
    obtain ⟨ihi, _, h⟩ := bind_eq_ok h
    obtain ⟨ilo, _, h⟩ := bind_eq_ok h
    obtain ⟨r, hr, h⟩ := bind_eq_ok h
    obtain ⟨⟨p, co, i⟩, c1⟩ := r
    dsimp only at h
    split at h
    · cases h
    · rename_i hc
      rw [slice_ok _ _ _ _ (by omega), ok_bind] at h
      cases h
      have k := rpLoop_ok _ _ _ _ _ _ _ _ _ _ _ hr
      simp only [Cost.zero] at k
      refine ⟨⟨p + co, by omega, by omega, by simp⟩, by omega, by omega⟩

theorem removePadding_cost {nc : Nat} {buf enc : Bytes} {c : Cost}
    (h : removePadding nc buf = .ok (enc, c)) : c.steps ≤ buf.length ∧ c.alloc = 0 :=
  (removePadding_ok h).2

/-! ## `decodeGlyph` -/

variable {α : Type}

theorem slice_len {site : String} {xs ys : List β} {a b : Nat} (h : slice site xs a b = .ok ys) :
    ys.length = b - a ∧ a ≤ b ∧ b ≤ xs.length := by
  unfold slice at h
  split at h
  · cases h
    simp only [List.length_take, List.length_drop]
    omega
  · cases h

/-- `decodeGlyph` never panics provided `decodeGlyphComposite` does not -/
theorem decodeGlyph_noPanic (comp : Bytes → Outcome (α × Cost)) (hcomp : ∀ d, (comp d).noPanic)
    (data : Bytes) : (decodeGlyph comp data).noPanic := by
  unfold decodeGlyph
  split
  · exact True.intro
  · split
    · exact True.intro
    · rename_i h0 h10
      rw [idx_ok _ data 0 (by omega), ok_bind, idx_ok _ data 1 (by omega), ok_bind]
      dsimp only
      refine bind_noPanic ?_ ?_
      · split
        · rw [slice_ok _ _ _ _ (by omega), ok_bind]
          refine bind_noPanic (removePadding_noPanic _ _) ?_
          intro r _
          obtain ⟨e, c⟩ := r
          exact True.intro
        · rw [slice_ok _ _ _ _ (by omega), ok_bind]
          refine bind_noPanic (hcomp _) ?_
          intro r _
          obtain ⟨e, c⟩ := r
          exact True.intro
      · intro r _
        obtain ⟨gd, c⟩ := r
        dsimp only
        rw [idx_ok _ data 2 (by omega), ok_bind, idx_ok _ data 3 (by omega), ok_bind,
          idx_ok _ data 4 (by omega), ok_bind, idx_ok _ data 5 (by omega), ok_bind,
          idx_ok _ data 6 (by omega), ok_bind, idx_ok _ data 7 (by omega), ok_bind,
          idx_ok _ data 8 (by omega), ok_bind, idx_ok _ data 9 (by omega), ok_bind]
        exact True.intro

/-- cost of one glyph: linear in its length when `comp` is (`A·len + K` steps, `A'·len + K'`
allocations) -/
theorem decodeGlyph_cost (comp : Bytes → Outcome (α × Cost)) (A K A' K' : Nat)
    (hcomp : ∀ d r c, comp d = .ok (r, c) → c.steps ≤ A * d.length + K ∧ c.alloc ≤ A' * d.length + K')
    {data : Bytes} {g : Option (Glyph α)} {c : Cost} (h : decodeGlyph comp data = .ok (g, c)) :
    c.steps ≤ (A + 1) * data.length + (K + 1) ∧ c.alloc ≤ A' * data.length + (K' + 2) := by
  unfold decodeGlyph at h
  split at h
  · cases h
    simp [Cost.zero]
  · split at h
    · cases h
    · rename_i h0 h10
      obtain ⟨d0, _, h⟩ := bind_eq_ok h
      obtain ⟨d1, _, h⟩ := bind_eq_ok h
      dsimp only at h
      obtain ⟨r, hr, h⟩ := bind_eq_ok h
      obtain ⟨gd, c1⟩ := r
      dsimp only at h
      obtain ⟨b2, _, h⟩ := bind_eq_ok h
      obtain ⟨b3, _, h⟩ := bind_eq_ok h
      obtain ⟨b4, _, h⟩ := bind_eq_ok h
      obtain ⟨b5, _, h⟩ := bind_eq_ok h
      obtain ⟨b6, _, h⟩ := bind_eq_ok h
      obtain ⟨b7, _, h⟩ := bind_eq_ok h
      obtain ⟨b8, _, h⟩ := bind_eq_ok h
      obtain ⟨b9, _, h⟩ := bind_eq_ok h
      cases h
      have hA : (A + 1) * data.length = A * data.length + data.length := by
        rw [Nat.add_mul, Nat.one_mul]
      simp only [Cost.tick, Cost.mem]
      split at hr
      · obtain ⟨body, hb, hr⟩ := bind_eq_ok hr
        obtain ⟨r, hrp, hr⟩ := bind_eq_ok hr
        obtain ⟨e, c2⟩ := r
        cases hr
        have := removePadding_cost hrp
        have := slice_len hb
        dsimp only
        omega
      · obtain ⟨body, hb, hr⟩ := bind_eq_ok hr
        obtain ⟨r, hrp, hr⟩ := bind_eq_ok hr
        obtain ⟨e, c2⟩ := r
        cases hr
        have hc := hcomp _ _ _ hrp
        have hl := slice_len hb
        have h1 : A * body.length ≤ A * data.length := Nat.mul_le_mul_left _ (by omega)
        have h2 : A' * body.length ≤ A' * data.length := Nat.mul_le_mul_left _ (by omega)
        dsimp only
        omega

/-! ## `Decode` -/

/-- consecutive offsets are ordered and within the glyf table -/
structure OffsOk (gl : Nat) (offs : List Nat) : Prop where
  adj : ∀ j, j + 1 < offs.length → offs.getD j 0 ≤ offs.getD (j + 1) 0
  bound : ∀ j, offs.getD j 0 ≤ gl

theorem offsOk_of {gl : Nat} {offs : List Nat} (hs : offs.Pairwise (· ≤ ·)) (hb : ∀ x ∈ offs, x ≤ gl) :
    OffsOk gl offs := by
  constructor
  · intro j hj
    have := List.pairwise_iff_getElem.mp hs j (j + 1) (by omega) hj (by omega)
    simpa [List.getD, List.getElem?_eq_getElem hj, List.getElem?_eq_getElem (show j < offs.length by omega)] using this
  · intro j
    by_cases hj : j < offs.length
    · have := hb offs[j] (List.getElem_mem hj)
      simpa [List.getD, List.getElem?_eq_getElem hj] using this
    · simp [List.getD, List.getElem?_eq_none (by omega : offs.length ≤ j)]

theorem decodeLoop_noPanic (comp : Bytes → Outcome (α × Cost)) (hcomp : ∀ d, (comp d).noPanic)
    (glyf : Bytes) (offs : List Nat) (total : Nat) (hk : OffsOk glyf.length offs) :
    ∀ (n i : Nat), i + n < offs.length → i + n ≤ total →
      (decodeLoop comp glyf offs total n i).noPanic
  | 0, _, _, _ => True.intro
  | n+1, i, h1, h2 => by
    unfold decodeLoop
    rw [idx_getD _ offs i (by omega), ok_bind, idx_getD _ offs (i + 1) (by omega), ok_bind,
      slice_ok _ _ _ _ ⟨hk.adj i (by omega), hk.bound _⟩, ok_bind]
    refine bind_noPanic (decodeGlyph_noPanic comp hcomp _) ?_
    intro r _
    obtain ⟨g, d⟩ := r
    dsimp only
    rw [if_neg (by omega)]
    refine bind_noPanic (decodeLoop_noPanic comp hcomp glyf offs total hk n (i + 1) (by omega) (by omega)) ?_
    intro r _
    obtain ⟨rest, c⟩ := r
    exact True.intro

/-- `glyf.Decode` never panics, whatever the two tables and the format, provided
`decodeGlyphComposite` does not.  The slice `enc.GlyfData[offs[i]:offs[i+1]]` is safe by the
postcondition of `decodeLoca` (sorted offsets within the glyf table). -/
theorem decode_noPanic (comp : Bytes → Outcome (α × Cost)) (hcomp : ∀ d, (comp d).noPanic)
    (fmt : Int) (loca glyf : Bytes) : (decode comp fmt loca glyf).noPanic := by
  unfold decode
  refine bind_noPanic (decodeLoca_noPanic _ _ _) ?_
  intro r hr
  obtain ⟨offs, c⟩ := r
  have k := decodeLoca_ok hr
  dsimp only
  rw [if_neg (by omega), mkSliceLe_ok _ _ _ _ (by omega), ok_bind]
  refine bind_noPanic (decodeLoop_noPanic comp hcomp glyf offs _ (offsOk_of k.2.2.2.2.1 k.2.2.2.2.2)
    _ 0 (by omega) (by omega)) ?_
  intro r _
  obtain ⟨gg, d⟩ := r
  exact True.intro

theorem decodeLoop_cost (comp : Bytes → Outcome (α × Cost)) (A K A' K' : Nat)
    (hcomp : ∀ d r c, comp d = .ok (r, c) → c.steps ≤ A * d.length + K ∧ c.alloc ≤ A' * d.length + K')
    (glyf : Bytes) (offs : List Nat) (total : Nat) (hk : OffsOk glyf.length offs) :
    ∀ (n i : Nat) (gg : List (Option (Glyph α))) (c : Cost), i + n < offs.length →
      decodeLoop comp glyf offs total n i = .ok (gg, c) →
      gg.length = n ∧
      c.steps + (A + 1) * offs.getD i 0 ≤ n * (K + 2) + (A + 1) * offs.getD (i + n) 0 ∧
      c.alloc + A' * offs.getD i 0 ≤ n * (K' + 2) + A' * offs.getD (i + n) 0
  | 0, i, gg, c, _, h => by
    unfold decodeLoop at h
    cases h
    simp [Cost.zero]
  | n+1, i, gg, c, h1, h => by
    unfold decodeLoop at h
    rw [idx_getD _ offs i (by omega), ok_bind, idx_getD _ offs (i + 1) (by omega), ok_bind,
      slice_ok _ _ _ _ ⟨hk.adj i (by omega), hk.bound _⟩, ok_bind] at h
    obtain ⟨r, hg, h⟩ := bind_eq_ok h
    obtain ⟨g, d⟩ := r
    dsimp only at h
    split at h
    · cases h
    · obtain ⟨r, hr, h⟩ := bind_eq_ok h
      obtain ⟨rest, c1⟩ := r
      cases h
      have ih := decodeLoop_cost comp A K A' K' hcomp glyf offs total hk n (i + 1) rest c1 (by omega) hr
      have hd := decodeGlyph_cost comp A K A' K' hcomp hg
      have hadj := hk.adj i (by omega)
      have hbd := hk.bound (i + 1)
      have hlen : ((glyf.drop (offs.getD i 0)).take (offs.getD (i + 1) 0 - offs.getD i 0)).length
          = offs.getD (i + 1) 0 - offs.getD i 0 := by
        simp only [List.length_take, List.length_drop]
        omega
      rw [hlen] at hd
      have e1 : (A + 1) * (offs.getD (i + 1) 0 - offs.getD i 0) + (A + 1) * offs.getD i 0
          = (A + 1) * offs.getD (i + 1) 0 := by
        rw [← Nat.mul_add]
        congr 1
        omega
      have e2 : A' * (offs.getD (i + 1) 0 - offs.getD i 0) + A' * offs.getD i 0
          = A' * offs.getD (i + 1) 0 := by
        rw [← Nat.mul_add]
        congr 1
        omega
      have e3 : (n + 1) * (K + 2) = n * (K + 2) + (K + 2) := Nat.succ_mul _ _
      have e4 : (n + 1) * (K' + 2) = n * (K' + 2) + (K' + 2) := Nat.succ_mul _ _
      have e5 : i + (n + 1) = i + 1 + n := by omega
      rw [e5]
      simp only [addCost, Cost.tick, List.length_cons]
      refine ⟨by omega, ?_, ?_⟩
      · omega
      · omega

/-- cost of `glyf.Decode`: linear in `len(glyf) + len(loca)` when `decodeGlyphComposite` costs
at most `A·len + K` steps and `A'·len + K'` allocations on a body of `len` bytes -/
theorem decode_cost (comp : Bytes → Outcome (α × Cost)) (A K A' K' : Nat)
    (hcomp : ∀ d r c, comp d = .ok (r, c) → c.steps ≤ A * d.length + K ∧ c.alloc ≤ A' * d.length + K')
    {fmt : Int} {loca glyf : Bytes} {gg : List (Option (Glyph α))} {c : Cost}
    (h : decode comp fmt loca glyf = .ok (gg, c)) :
    gg.length + 1 ≤ loca.length / 2 ∧
    c.steps ≤ (A + 1) * glyf.length + (K + 3) * (loca.length / 2) ∧
    c.alloc ≤ A' * glyf.length + (K' + 4) * (loca.length / 2) := by
  unfold decode at h
  obtain ⟨r, hr, h⟩ := bind_eq_ok h
  obtain ⟨offs, c0⟩ := r
  have k := decodeLoca_ok hr
  dsimp only at h
  rw [if_neg (by omega), mkSliceLe_ok _ _ _ _ (by omega), ok_bind] at h
  obtain ⟨r, hl, h⟩ := bind_eq_ok h
  obtain ⟨gg', d⟩ := r
  cases h
  have hk := offsOk_of k.2.2.2.2.1 k.2.2.2.2.2
  have hc := decodeLoop_cost comp A K A' K' hcomp glyf offs _ hk _ 0 _ _ (by omega) hl
  have hb := hk.bound (0 + (offs.length - 1))
  have m1 : (A + 1) * offs.getD (0 + (offs.length - 1)) 0 ≤ (A + 1) * glyf.length :=
    Nat.mul_le_mul_left _ hb
  have m2 : A' * offs.getD (0 + (offs.length - 1)) 0 ≤ A' * glyf.length :=
    Nat.mul_le_mul_left _ hb
  have m3 : (offs.length - 1) * (K + 2) + offs.length ≤ (K + 3) * (loca.length / 2) := by
    have : offs.length * (K + 3) ≤ (loca.length / 2) * (K + 3) := Nat.mul_le_mul_right _ k.2.1
    have e : offs.length * (K + 3) = (offs.length - 1) * (K + 3) + (K + 3) := by
      have : offs.length = (offs.length - 1) + 1 := by omega
      rw [this, Nat.succ_mul]; simp
    have e' : (offs.length - 1) * (K + 3) = (offs.length - 1) * (K + 2) + (offs.length - 1) := by
      rw [show K + 3 = (K + 2) + 1 from rfl, Nat.mul_add, Nat.mul_one]
    rw [Nat.mul_comm (K + 3)]
    omega
  have m4 : (offs.length - 1) * (K' + 2) + (offs.length + (offs.length - 1)) ≤ (K' + 4) * (loca.length / 2) := by
    have : offs.length * (K' + 4) ≤ (loca.length / 2) * (K' + 4) := Nat.mul_le_mul_right _ k.2.1
    have e : offs.length * (K' + 4) = (offs.length - 1) * (K' + 4) + (K' + 4) := by
      have : offs.length = (offs.length - 1) + 1 := by omega
      rw [this, Nat.succ_mul]; simp
    have e' : (offs.length - 1) * (K' + 4) = (offs.length - 1) * (K' + 2) + 2 * (offs.length - 1) := by
      rw [show K' + 4 = (K' + 2) + 2 from rfl, Nat.mul_add, Nat.mul_comm _ 2]
    rw [Nat.mul_comm (K' + 4)]
    omega
  simp only [addCost, Cost.mem]
  refine ⟨by omega, by omega, by omega⟩

/-! ## bridging to the value-level model of C11 (`SfntV.Glyf`, Model/Glyf.lean) -/

/-- forget the cost -/
def erase : Outcome (α × Cost) → Outcome α
  | .ok (a, _) => .ok a
  | .err e => .err e
  | .panic s => .panic s

/-- the C11 model returns `none` where the Go code returns `errInvalidGlyphData` -/
def ofOpt : Option α → Outcome α
  | none => .err errInvalid
  | some a => .ok a

theorem drop2 (l : Bytes) (k : Nat) (h : k + 1 < l.length) :
    l.drop k = l[k] :: l[k + 1] :: l.drop (k + 2) := by
  rw [List.drop_eq_getElem_cons (by omega : k < l.length), List.drop_eq_getElem_cons h]

theorem erase_cons (X : Outcome (List Nat × Cost)) (pos : Nat) (C : Bool) (L : List Nat)
    (ih : erase X = if C = true then .ok L else .err Glyf.errInvalid) :
    erase (X >>= fun x => match x with | (rest, c) => (pure (pos :: rest, c.tick) : Outcome _)) =
      if C = true then .ok (pos :: L) else .err Glyf.errInvalid := by
  cases X with
  | ok r =>
    obtain ⟨rest, c⟩ := r
    cases C
    · simp [erase] at ih
    · simp only [erase, if_true] at ih
      cases ih
      rfl
  | err e =>
    cases C
    · simp only [erase] at ih
      cases ih
      rfl
    · simp [erase] at ih
  | panic s =>
    cases C <;> simp [erase] at ih

theorem loca0_erase (loca : Bytes) (gl total : Nat) : ∀ (n i prev : Nat),
    loca.length = 2 * (i + n) → i + n ≤ total →
    erase (loca0 loca gl total n i prev) =
      if Glyf.locaCheck gl prev ((Glyf.words16 (loca.drop (2 * i))).map (2 * ·)) = true
      then .ok ((Glyf.words16 (loca.drop (2 * i))).map (2 * ·)) else .err Glyf.errInvalid
  | 0, i, prev, h1, _ => by
    have : loca.drop (2 * i) = [] := List.drop_eq_nil_of_le (by omega)
    rw [this]
    rfl
  | n+1, i, prev, h1, h2 => by
    unfold loca0
    rw [idx_ok _ loca (2 * i) (by omega), ok_bind, idx_ok _ loca (2 * i + 1) (by omega), ok_bind,
      drop2 loca (2 * i) (by omega)]
    have ih := loca0_erase loca gl total n (i + 1) (2 * be loca[2 * i] loca[2 * i + 1]) (by omega) (by omega)
    rw [show 2 * (i + 1) = 2 * i + 2 from by omega] at ih
    simp only [Glyf.words16, List.map_cons, Glyf.locaCheck]
    unfold be at ih ⊢
    by_cases hb : 2 * (loca[2 * i].toNat * 256 + loca[2 * i + 1].toNat) < prev ∨
        2 * (loca[2 * i].toNat * 256 + loca[2 * i + 1].toNat) > gl
    · rw [if_pos hb, if_pos hb]
      rfl
    · rw [if_neg hb, if_neg hb, if_neg (by omega)]
      exact erase_cons _ _ _ _ ih

theorem drop4 (l : Bytes) (k : Nat) (h : k + 3 < l.length) :
    l.drop k = l[k] :: l[k + 1] :: l[k + 2] :: l[k + 3] :: l.drop (k + 4) := by
  rw [List.drop_eq_getElem_cons (by omega : k < l.length),
    List.drop_eq_getElem_cons (by omega : k + 1 < l.length),
    List.drop_eq_getElem_cons (by omega : k + 2 < l.length), List.drop_eq_getElem_cons h]

theorem loca1_erase (loca : Bytes) (gl total : Nat) : ∀ (n i prev : Nat),
    loca.length = 4 * (i + n) → i + n ≤ total →
    erase (loca1 loca gl total n i prev) =
      if Glyf.locaCheck gl prev (Glyf.words32 (loca.drop (4 * i))) = true
      then .ok (Glyf.words32 (loca.drop (4 * i))) else .err Glyf.errInvalid
  | 0, i, prev, h1, _ => by
    have : loca.drop (4 * i) = [] := List.drop_eq_nil_of_le (by omega)
    rw [this]
    rfl
  | n+1, i, prev, h1, h2 => by
    unfold loca1
    rw [idx_ok _ loca (4 * i) (by omega), ok_bind, idx_ok _ loca (4 * i + 1) (by omega), ok_bind,
      idx_ok _ loca (4 * i + 2) (by omega), ok_bind, idx_ok _ loca (4 * i + 3) (by omega), ok_bind,
      drop4 loca (4 * i) (by omega)]
    have ih := loca1_erase loca gl total n (i + 1)
      (((loca[4 * i].toNat * 256 + loca[4 * i + 1].toNat) * 256 + loca[4 * i + 2].toNat) * 256
        + loca[4 * i + 3].toNat) (by omega) (by omega)
    rw [show 4 * (i + 1) = 4 * i + 4 from by omega] at ih
    simp only [Glyf.words32, Glyf.locaCheck]
    by_cases hb : ((loca[4 * i].toNat * 256 + loca[4 * i + 1].toNat) * 256 + loca[4 * i + 2].toNat) * 256
          + loca[4 * i + 3].toNat < prev ∨
        ((loca[4 * i].toNat * 256 + loca[4 * i + 1].toNat) * 256 + loca[4 * i + 2].toNat) * 256
          + loca[4 * i + 3].toNat > gl
    · rw [if_pos hb, if_pos hb]
      rfl
    · rw [if_neg hb, if_neg hb, if_neg (by omega)]
      exact erase_cons _ _ _ _ ih

theorem erase_pair (X : Outcome (List Nat × Cost)) (c : Cost) :
    erase (X >>= fun x => match x with | (offs, d) => (pure (offs, addCost c d) : Outcome _)) = erase X := by
  cases X with
  | ok r => obtain ⟨o, d⟩ := r; rfl
  | err e => rfl
  | panic s => rfl

/-- bridging: with panic sites and costs erased, the checked-index `decodeLoca` IS the C11 model
`SfntV.Glyf.decodeLoca`, on every input -/
theorem decodeLoca_erase (fmt : Int) (loca : Bytes) (gl : Nat) :
    erase (decodeLoca fmt loca gl) = Glyf.decodeLoca fmt loca gl := by
  unfold decodeLoca Glyf.decodeLoca
  by_cases h0 : fmt = 0
  · rw [if_pos h0, if_pos h0]
    dsimp only
    by_cases hn : loca.length < 4 ∨ loca.length % 2 ≠ 0
    · rw [if_pos hn, if_pos hn]; rfl
    · rw [if_neg hn, if_neg hn, mkSliceLe_ok _ _ _ _ (by omega), ok_bind, erase_pair]
      have := loca0_erase loca gl (loca.length / 2) (loca.length / 2) 0 0 (by omega) (by omega)
      rw [this]
      simp
  · rw [if_neg h0, if_neg h0]
    by_cases h1 : fmt = 1
    · rw [if_pos h1, if_pos h1]
      dsimp only
      by_cases hn : loca.length < 8 ∨ loca.length % 4 ≠ 0
      · rw [if_pos hn, if_pos hn]; rfl
      · rw [if_neg hn, if_neg hn, mkSliceLe_ok _ _ _ _ (by omega), ok_bind, erase_pair]
        have := loca1_erase loca gl (loca.length / 4) (loca.length / 4) 0 0 (by omega) (by omega)
        rw [this]
        simp
    · rw [if_neg h1, if_neg h1]; rfl

/-! ### `removePadding` -/

theorem rpLoop_erase (buf : Bytes) (np : Nat) : ∀ (fuel pos coord i : Nat) (c : Cost),
    erase (rpLoop buf np fuel pos coord i c) = ofOpt (Glyf.rpWalk buf np fuel pos coord i)
  | 0, _, _, _, _ => rfl
  | fuel+1, pos, coord, i, c => by
    unfold rpLoop Glyf.rpWalk
    by_cases hi : i < np
    · rw [if_pos hi, if_pos hi]
      by_cases hp : buf.length ≤ pos
      · rw [if_pos hp, List.getElem?_eq_none hp]; rfl
      · rw [if_neg hp, idx_ok _ buf pos (by omega), ok_bind, List.getElem?_eq_getElem (by omega)]
        dsimp only
        show erase (if Glyf.bit buf[pos].toNat Glyf.flagRepeat = true then _ else _) = _
        by_cases hr : Glyf.bit buf[pos].toNat Glyf.flagRepeat = true
        · rw [if_pos hr, if_pos hr]
          by_cases hp1 : buf.length ≤ pos + 1
          · rw [if_pos hp1, List.getElem?_eq_none hp1]; rfl
          · rw [if_neg hp1, idx_ok _ buf (pos + 1) (by omega), ok_bind,
              List.getElem?_eq_getElem (by omega)]
            exact rpLoop_erase buf np fuel _ _ _ _
        · rw [if_neg hr, if_neg hr]
          exact rpLoop_erase buf np fuel _ _ _ _
    · rw [if_neg hi, if_neg hi]; rfl

theorem rd16_eq (buf : Bytes) (k : Nat) (h : k + 1 < buf.length) :
    Glyf.rd16 buf k = be buf[k] buf[k + 1] := by
  unfold Glyf.rd16 be
  rw [List.getElem?_eq_getElem (by omega : k < buf.length), List.getElem?_eq_getElem h]
  rfl

/-- bridging: the checked-index `removePadding` with sites and cost erased IS the C11 model
`SfntV.Glyf.removePadding` (`none` ↦ `errInvalidGlyphData`), for every `nc` and buffer -/
theorem removePadding_erase (nc : Nat) (buf : Bytes) :
    erase (removePadding nc buf) = ofOpt (Glyf.removePadding nc buf) := by
  unfold removePadding Glyf.removePadding Glyf.simpleLen
  by_cases hlen : buf.length < 2 * nc + 2
  · rw [if_pos hlen, if_pos hlen]; rfl
  · rw [if_neg hlen, if_neg hlen]
    dsimp only
    have hnp : (if nc > 0 then do
          let hi ← idx "simple.go:186#buf[pos-2]" buf (2 * nc - 2)
          let lo ← idx "simple.go:186#buf[pos-1]" buf (2 * nc - 1)
          pure (be hi lo + 1)
        else pure 0 : Outcome Nat) = .ok (if nc > 0 then Glyf.rd16 buf (2 * nc - 2) + 1 else 0) := by
      by_cases hnc : nc > 0
      · rw [if_pos hnc, if_pos hnc, idx_ok _ buf (2 * nc - 2) (by omega), ok_bind,
          idx_ok _ buf (2 * nc - 1) (by omega), ok_bind, rd16_eq buf (2 * nc - 2) (by omega)]
        have : 2 * nc - 2 + 1 = 2 * nc - 1 := by omega
        simp only [this]
        rfl
      · rw [if_neg hnc, if_neg hnc]; rfl
    rw [hnp, ok_bind, idx_ok _ buf (2 * nc) (by omega), ok_bind,
      idx_ok _ buf (2 * nc + 1) (by omega), ok_bind, ← rd16_eq buf (2 * nc) (by omega)]
    generalize (if nc > 0 then Glyf.rd16 buf (2 * nc - 2) + 1 else 0) = np
    generalize 2 * nc + 2 + Glyf.rd16 buf (2 * nc) = start
    unfold Glyf.simpleLenAux
    have hl := rpLoop_erase buf np np start 0 0 Cost.zero
    cases hr : rpLoop buf np np start 0 0 Cost.zero with
    | ok r =>
      obtain ⟨⟨p, co, i⟩, c⟩ := r
      rw [hr] at hl
      cases hw : Glyf.rpWalk buf np np start 0 0 with
      | none => rw [hw] at hl; cases hl
      | some s =>
        rw [hw] at hl
        simp only [erase, ofOpt] at hl
        cases hl
        rw [ok_bind]
        dsimp only
        by_cases hc : i ≠ np ∨ p + co > buf.length
        · rw [if_pos hc, if_pos hc]; rfl
        · rw [if_neg hc, if_neg hc, slice_ok _ _ _ _ (by omega), ok_bind]
          simp only [List.drop_zero, Nat.sub_zero, Option.map_some, ofOpt]
          rfl
    | err e =>
      rw [hr] at hl
      cases hw : Glyf.rpWalk buf np np start 0 0 with
      | none =>
        rw [hw] at hl
        simp only [erase, ofOpt] at hl
        cases hl
        rfl
      | some s => rw [hw] at hl; cases hl
    | panic s =>
      rw [hr] at hl
      cases hw : Glyf.rpWalk buf np np start 0 0 with
      | none => rw [hw] at hl; cases hl
      | some s => rw [hw] at hl; cases hl


/-! ### `decodeGlyph`, `Decode` -/

/-- the value `decodeGlyphComposite` returns in the C11 model -/
abbrev CompVal := List Glyf.Component × Option Bytes

/-- the C11 model of `decodeGlyphComposite` as the abstract parameter (any cost function `k`) -/
def compC11 (k : Bytes → Cost) (d : Bytes) : Outcome (CompVal × Cost) :=
  match Glyf.decodeComposite d with
  | none => .err errInvalid
  | some r => .ok (r, k d)

def toC11 (g : Glyph CompVal) : Glyf.Glyph :=
  ⟨g.llx, g.lly, g.urx, g.ury,
    match g.data with
    | .simple nc enc => .simple nc enc
    | .composite (cs, ins) => .composite cs ins⟩

def omap (f : α → β) : Outcome α → Outcome β
  | .ok a => .ok (f a)
  | .err e => .err e
  | .panic s => .panic s

theorem pure_bind_ok (a : α) (f : α → Outcome β) : ((pure a : Outcome α) >>= f) = f a := rfl

theorem slice_tail (site : String) (data : Bytes) (h : 10 ≤ data.length) :
    slice site data 10 data.length = .ok (data.drop 10) := by
  rw [slice_ok _ _ _ _ (by omega)]
  congr 1
  exact List.take_of_length_le (by simp)

theorem header_ok (data : Bytes) (h : 10 ≤ data.length) (gd : GData CompVal) (c : Cost) :
    (do
      let b2 ← idx "composite.go:141#data[2]" data 2
      let b3 ← idx "composite.go:141#data[3]" data 3
      let b4 ← idx "composite.go:142#data[4]" data 4
      let b5 ← idx "composite.go:142#data[5]" data 5
      let b6 ← idx "composite.go:143#data[6]" data 6
      let b7 ← idx "composite.go:143#data[7]" data 7
      let b8 ← idx "composite.go:144#data[8]" data 8
      let b9 ← idx "composite.go:144#data[9]" data 9
      (pure (some ⟨be b2 b3, be b4 b5, be b6 b7, be b8 b9, gd⟩, (c.tick).mem 2) :
        Outcome (Option (Glyph CompVal) × Cost))) =
    .ok (some ⟨Glyf.rd16 data 2, Glyf.rd16 data 4, Glyf.rd16 data 6, Glyf.rd16 data 8, gd⟩,
      (c.tick).mem 2) := by
  rw [idx_ok _ data 2 (by omega), ok_bind, idx_ok _ data 3 (by omega), ok_bind,
    idx_ok _ data 4 (by omega), ok_bind, idx_ok _ data 5 (by omega), ok_bind,
    idx_ok _ data 6 (by omega), ok_bind, idx_ok _ data 7 (by omega), ok_bind,
    idx_ok _ data 8 (by omega), ok_bind, idx_ok _ data 9 (by omega), ok_bind,
    rd16_eq data 2 (by omega), rd16_eq data 4 (by omega), rd16_eq data 6 (by omega),
    rd16_eq data 8 (by omega)]
  rfl

/-- bridging: `decodeGlyph` over the C11 composite decoder, sites and cost erased, IS the C11
model `SfntV.Glyf.decodeGlyph`, on every input -/
theorem decodeGlyph_erase (k : Bytes → Cost) (data : Bytes) :
    omap (Option.map toC11) (erase (decodeGlyph (compC11 k) data)) = Glyf.decodeGlyph data := by
  unfold decodeGlyph Glyf.decodeGlyph
  by_cases h0 : data.length = 0
  · rw [if_pos h0, if_pos h0]; rfl
  · rw [if_neg h0, if_neg h0]
    by_cases h10 : data.length < 10
    · rw [if_pos h10, if_pos h10]; rfl
    · rw [if_neg h10, if_neg h10, idx_ok _ data 0 (by omega), ok_bind, idx_ok _ data 1 (by omega),
        ok_bind, ← rd16_eq data 0 (by omega)]
      dsimp only
      by_cases hnc : Glyf.rd16 data 0 < 32768
      · rw [if_pos hnc, if_pos hnc, slice_tail _ _ (by omega), ok_bind]
        have hb := removePadding_erase (Glyf.rd16 data 0) (data.drop 10)
        cases hr : removePadding (Glyf.rd16 data 0) (data.drop 10) with
        | ok r =>
          obtain ⟨e, c⟩ := r
          rw [hr] at hb
          cases hw : Glyf.removePadding (Glyf.rd16 data 0) (data.drop 10) with
          | none => rw [hw] at hb; cases hb
          | some e' =>
            rw [hw] at hb
            simp only [erase, ofOpt] at hb
            cases hb
            rw [ok_bind, pure_bind_ok]
            dsimp only
            rw [header_ok data (by omega)]
            rfl
        | err e =>
          rw [hr] at hb
          cases hw : Glyf.removePadding (Glyf.rd16 data 0) (data.drop 10) with
          | none =>
            rw [hw] at hb
            simp only [erase, ofOpt] at hb
            cases hb
            rfl
          | some e' => rw [hw] at hb; cases hb
        | panic s =>
          rw [hr] at hb
          cases hw : Glyf.removePadding (Glyf.rd16 data 0) (data.drop 10) with
          | none => rw [hw] at hb; cases hb
          | some e' => rw [hw] at hb; cases hb
      · rw [if_neg hnc, if_neg hnc, slice_tail _ _ (by omega), ok_bind]
        unfold compC11
        cases hw : Glyf.decodeComposite (data.drop 10) with
        | none => rfl
        | some r =>
          obtain ⟨cs, ins⟩ := r
          rw [ok_bind, pure_bind_ok]
          dsimp only
          rw [header_ok data (by omega)]
          rfl

theorem getD_eq (l : List Nat) (i : Nat) (h : i < l.length) : l.getD i 0 = l[i] := by
  simp [List.getD, List.getElem?_eq_getElem h]

theorem decodeLoop_erase (k : Bytes → Cost) (glyf : Bytes) (offs : List Nat) (total : Nat)
    (hk : OffsOk glyf.length offs) : ∀ (n i : Nat), i + n + 1 = offs.length → i + n ≤ total →
    omap (List.map (Option.map toC11)) (erase (decodeLoop (compC11 k) glyf offs total n i)) =
      Glyf.decodeAll glyf (offs.drop i)
  | 0, i, h1, _ => by
    rw [List.drop_eq_getElem_cons (by omega : i < offs.length),
      List.drop_eq_nil_of_le (by omega : offs.length ≤ i + 1)]
    rfl
  | n+1, i, h1, h2 => by
    unfold decodeLoop
    rw [idx_getD _ offs i (by omega), ok_bind, idx_getD _ offs (i + 1) (by omega), ok_bind,
      slice_ok _ _ _ _ ⟨hk.adj i (by omega), hk.bound _⟩, ok_bind,
      List.drop_eq_getElem_cons (by omega : i < offs.length),
      List.drop_eq_getElem_cons (by omega : i + 1 < offs.length)]
    unfold Glyf.decodeAll
    rw [← List.drop_eq_getElem_cons (by omega : i + 1 < offs.length),
      ← getD_eq offs i (by omega), ← getD_eq offs (i + 1) (by omega)]
    have hg := decodeGlyph_erase k
      ((glyf.drop (offs.getD i 0)).take (offs.getD (i + 1) 0 - offs.getD i 0))
    have ih := decodeLoop_erase k glyf offs total hk n (i + 1) (by omega) (by omega)
    rw [← hg, ← ih]
    cases decodeGlyph (compC11 k) ((glyf.drop (offs.getD i 0)).take (offs.getD (i + 1) 0 - offs.getD i 0)) with
    | ok r =>
      obtain ⟨g, d⟩ := r
      simp only [ok_bind]
      rw [if_neg (by omega)]
      cases decodeLoop (compC11 k) glyf offs total n (i + 1) with
      | ok r => obtain ⟨rest, c⟩ := r; rfl
      | err e => rfl
      | panic s => rfl
    | err e => rfl
    | panic s => rfl

/-- bridging: `glyf.Decode` over the C11 composite decoder, sites and cost erased, IS the C11 model
`SfntV.Glyf.decode`, on every input -/
theorem decode_erase (k : Bytes → Cost) (fmt : Int) (loca glyf : Bytes) :
    omap (List.map (Option.map toC11)) (erase (decode (compC11 k) fmt loca glyf)) =
      Glyf.decode fmt loca glyf := by
  unfold decode Glyf.decode
  have hl := decodeLoca_erase fmt loca glyf.length
  cases hr : decodeLoca fmt loca glyf.length with
  | ok r =>
    obtain ⟨offs, c⟩ := r
    rw [hr] at hl
    simp only [erase] at hl
    rw [← hl]
    have k' := decodeLoca_ok hr
    simp only [ok_bind]
    rw [if_neg (by omega), mkSliceLe_ok _ _ _ _ (by omega), ok_bind]
    have hk := offsOk_of k'.2.2.2.2.1 k'.2.2.2.2.2
    have := decodeLoop_erase k glyf offs (offs.length - 1) hk (offs.length - 1) 0 (by omega) (by omega)
    rw [List.drop_zero] at this
    rw [← this]
    cases decodeLoop (compC11 k) glyf offs (offs.length - 1) (offs.length - 1) 0 with
    | ok r => obtain ⟨gg, d⟩ := r; rfl
    | err e => rfl
    | panic s => rfl
  | err e =>
    rw [hr] at hl
    simp only [erase] at hl
    rw [← hl]
    rfl
  | panic s =>
    rw [hr] at hl
    simp only [erase] at hl
    rw [← hl]
    rfl

/-! ## the names used by Props/C02 for the exported entry point -/

theorem Decode_noPanic {α : Type} (comp : Bytes → Outcome (α × Cost)) (hcomp : ∀ d, (comp d).noPanic)
    (fmt : Int) (loca glyf : Bytes) : (decode comp fmt loca glyf).noPanic :=
  decode_noPanic comp hcomp fmt loca glyf

theorem Decode_cost {α : Type} (comp : Bytes → Outcome (α × Cost)) (A K A' K' : Nat)
    (hcomp : ∀ d r c, comp d = .ok (r, c) → c.steps ≤ A * d.length + K ∧ c.alloc ≤ A' * d.length + K')
    {fmt : Int} {loca glyf : Bytes} {gg : List (Option (Glyph α))} {c : Cost}
    (h : decode comp fmt loca glyf = .ok (gg, c)) :
    gg.length + 1 ≤ loca.length / 2 ∧
    c.steps ≤ (A + 1) * glyf.length + (K + 3) * (loca.length / 2) ∧
    c.alloc ≤ A' * glyf.length + (K' + 4) * (loca.length / 2) :=
  decode_cost comp A K A' K' hcomp h

theorem Decode_erase (k : Bytes → Cost) (fmt : Int) (loca glyf : Bytes) :
    omap (List.map (Option.map toC11)) (erase (decode (compC11 k) fmt loca glyf)) =
      Glyf.decode fmt loca glyf :=
  decode_erase k fmt loca glyf

/-! ## non-vacuity -/

/-- short loca, two offsets `0, 12` -/
example : decodeLoca 0 [0, 0, 0, 6] 12 = .ok ([0, 12], ⟨2, 2⟩) := by decide
/-- long loca -/
example : decodeLoca 1 [0, 0, 0, 0, 0, 0, 0, 12] 12 = .ok ([0, 12], ⟨2, 2⟩) := by decide
example : decodeLoca 2 [0, 0, 0, 6] 12 = .err errUnsupported := by decide
/-- one contour, one point (flag 0x37: two one-byte coordinates), two padding bytes stripped -/
example : removePadding 1 [0, 0, 0, 0, 0x37, 5, 5, 0, 0] = .ok ([0, 0, 0, 0, 0x37, 5, 5], ⟨1, 0⟩) := by
  decide
/-- a repeat flag: 3 points from one flag byte + count 2 -/
example : removePadding 1 [0, 2, 0, 0, 0x3f, 2, 1, 1, 1, 2, 2, 2, 0] =
    .ok ([0, 2, 0, 0, 0x3f, 2, 1, 1, 1, 2, 2, 2], ⟨1, 0⟩) := by decide
/-- no contours, instruction length 0xFFFF beyond the end: the flag loop does not run, the final
`pos > len(buf)` test rejects — an error, not a panic -/
example : removePadding 0 [0xff, 0xff] = .err errInvalid := by decide
/-- no contours, nothing else: the glyph is its two-byte instruction length -/
example : removePadding 0 [0, 0, 0, 0] = .ok ([0, 0], ⟨0, 0⟩) := by decide

def exComp : Bytes → Outcome (Nat × Cost) := fun d => .ok (d.length, ⟨1, 1⟩)

example : decodeGlyph exComp [0, 1, 0, 0, 0, 0, 0, 10, 0, 10, 0, 0, 0, 0, 0x37, 5, 5, 0, 0, 0] =
    .ok (some ⟨0, 0, 10, 10, .simple 1 [0, 0, 0, 0, 0x37, 5, 5]⟩, ⟨2, 2⟩) := by decide
example : decodeGlyph exComp [0xff, 0xff, 0, 0, 0, 0, 0, 10, 0, 10, 0, 0, 0, 1, 0, 0] =
    .ok (some ⟨0, 0, 10, 10, .composite 6⟩, ⟨2, 3⟩) := by decide

/-- a simple glyph, an empty glyph and a composite glyph -/
example : decode exComp 0 [0, 0, 0, 10, 0, 10, 0, 18]
    [0, 1, 0, 0, 0, 0, 0, 10, 0, 10, 0, 0, 0, 0, 0x37, 5, 5, 0, 0, 0,
     0xff, 0xff, 0, 0, 0, 0, 0, 10, 0, 10, 0, 0, 0, 1, 0, 0] =
    .ok ([some ⟨0, 0, 10, 10, .simple 1 [0, 0, 0, 0, 0x37, 5, 5]⟩, none,
          some ⟨0, 0, 10, 10, .composite 6⟩], ⟨4 + 3 + 1 + 3, 4 + 3 + 2 + 3⟩) := by decide


end SfntV.Total.GlyfDec
