/-
C06: `gsub41_lim` of ShapeSpecLigLim.lean with the reference's tag check on the components
exposed (`gsub41_lim'`).  The helper lemmas of that file are private, so they are repeated here
(the offsets are additionally bounded by `usedLen`).
-/
import SfntV.Proofs.ShapeSpecLigLim

namespace SfntV.Spec.Shape
open SfntV SfntV.Shape

/-! ## the sequence around the current glyph -/

private theorem seq_eq' (pre : List TG) (cur : TG) (post : List TG) :
    gl (pre.reverse ++ cur :: post) = (gl pre).reverse ++ cur.g :: gl post := by
  simp [gl_reverse]

private theorem seq_get' (pre : List TG) (cur : TG) (post : List TG) :
    (gl (pre.reverse ++ cur :: post))[pre.length]? = some cur.g := by
  rw [seq_eq']
  have h : pre.length = (gl pre).reverse.length := by simp
  rw [h, List.getElem?_append_right (Nat.le_refl _)]
  simp

private theorem seq_idx' (site : String) (pre : List TG) (cur : TG) (post : List TG) :
    idx site (gl (pre.reverse ++ cur :: post)) pre.length = .ok cur.g := by
  unfold idx
  rw [seq_get']

private theorem seq_take' (pre : List TG) (cur : TG) (post : List TG) :
    (gl (pre.reverse ++ cur :: post)).take pre.length = (gl pre).reverse := by
  rw [seq_eq']
  have h : pre.length = (gl pre).reverse.length := by simp
  rw [h, List.take_left]

private theorem seq_drop' (pre : List TG) (cur : TG) (post : List TG) :
    (gl (pre.reverse ++ cur :: post)).drop (pre.length + 1) = gl post := by
  rw [seq_eq']
  have h : pre.length = (gl pre).reverse.length := by simp
  rw [h, List.drop_append]
  simp

/-- position behind the last matched glyph, `i` when nothing was matched -/
private def endFrom (i : Nat) (offs : List Nat) : Nat :=
  match offs.getLast? with
  | some o => o + 1
  | none => i

private theorem endFrom_zero (offs : List Nat) : endFrom 0 offs = usedLen offs := rfl

private theorem endFrom_cons (i j : Nat) (offs : List Nat) : endFrom j (i :: offs) = endFrom (i + 1) offs := by
  unfold endFrom
  rw [List.getLast?_cons]
  cases offs.getLast? <;> rfl

private theorem endFrom_ne (i j : Nat) {offs : List Nat} (h : offs ≠ []) : endFrom i offs = endFrom j offs := by
  cases offs with
  | nil => exact absurd rfl h
  | cons o os => rw [endFrom_cons, endFrom_cons]

/-- what the component loop yields for the offsets `offs` matched from index `i`, engine position `p` -/
private def CompsOk (kp : Nat → Bool) (post : List TG) (lim : Nat) (comps : List Nat) (p i : Nat)
    (offs : List Nat) : Prop :=
  ∃ u, endFrom i offs = i + u ∧ (comps ≠ [] → offs ≠ []) ∧ u ≤ lim ∧
    (∀ o ∈ offs, i ≤ o ∧ o < i + u) ∧ offs.Pairwise (· < ·) ∧
    (∀ r, r < u → ∀ t, post[r]? = some t → (kp t.g.gid = true ↔ i + r ∈ offs)) ∧
    matchComps kp comps (gl post) p ((p : Int) + (lim : Int)) =
      .ok (some (offs.map (fun o => o + p - i),
        ((post.take u).filter fun t => kp t.g.gid).flatMap (fun t => t.g.text),
        gl ((post.take u).filter fun t => !kp t.g.gid), gl (post.drop u)))

private theorem compsOk_nil (kp : Nat → Bool) (post : List TG) (lim p i : Nat) :
    CompsOk kp post lim [] p i [] := by
  refine ⟨0, rfl, fun h => absurd rfl h, Nat.zero_le _, ?_, List.Pairwise.nil, ?_, ?_⟩
  · intro o ho; cases ho
  · intro r hr; omega
  · cases post <;> simp [matchComps]

private theorem matchComps_lim (kp : Nat → Bool) : ∀ (post : List TG) (lim : Nat), lim ≤ post.length →
    ∀ (comps : List Nat) (p i : Nat),
    match matchSeq kp (comps.map fun c g => g == c) (post.take lim) i with
    | none => matchComps kp comps (gl post) p ((p : Int) + (lim : Int)) = .ok none
    | some offs => CompsOk kp post lim comps p i offs := by
  intro post
  induction post with
  | nil =>
    intro lim hlim comps p i
    have : lim = 0 := by simpa using hlim
    subst this
    cases comps with
    | nil => exact compsOk_nil kp [] 0 p i
    | cons c cs => simp [matchSeq, matchComps]
  | cons t ts ih =>
    intro lim hlim comps p i
    cases comps with
    | nil =>
      have : matchSeq kp (([] : List Nat).map fun c g => g == c) ((t :: ts).take lim) i = some [] := by
        cases lim <;> simp [matchSeq]
      rw [this]
      exact compsOk_nil kp (t :: ts) lim p i
    | cons c cs =>
      cases lim with
      | zero => simp [matchSeq, matchComps]
      | succ lim =>
        have hlim' : lim ≤ ts.length := by simpa using hlim
        have hb : (p : Int) + ((lim + 1 : Nat) : Int) = ((p + 1 : Nat) : Int) + (lim : Int) := by omega
        have hlt : ¬ ((p : Int) ≥ ((p + 1 : Nat) : Int) + (lim : Int)) := by omega
        unfold CompsOk
        rw [hb]
        simp only [List.take_succ_cons, List.map_cons, matchSeq, gl_cons, matchComps, hlt, if_false]
        by_cases hk : kp t.g.gid = true
        · simp only [hk, if_true]
          by_cases hc : t.g.gid = c
          · simp only [hc, if_true]
            have ih1 := ih lim hlim' cs (p + 1) (i + 1)
            cases hm : matchSeq kp (cs.map fun c g => g == c) (ts.take lim) (i + 1) with
            | none =>
              rw [hm] at ih1
              simp only [BEq.rfl, if_true, Option.map_none, ih1, bind_ok_eq]
            | some offs =>
              rw [hm] at ih1
              obtain ⟨u, hu, _, hul, hbd, hpw, hkp, he⟩ := ih1
              simp only [BEq.rfl, if_true, Option.map_some, he, bind_ok_eq]
              refine ⟨u + 1, ?_, fun _ => List.cons_ne_nil _ _, by omega, ?_, ?_, ?_, ?_⟩
              · rw [endFrom_cons, hu]; omega
              · intro o ho
                rcases List.mem_cons.mp ho with ho | ho
                · subst ho; omega
                · have := hbd o ho; omega
              · refine List.Pairwise.cons ?_ hpw
                intro o ho
                have := hbd o ho; omega
              · intro r hr t' ht'
                cases r with
                | zero =>
                  simp only [List.getElem?_cons_zero, Option.some.injEq] at ht'
                  subst ht'
                  simp [hk]
                | succ r =>
                  simp only [List.getElem?_cons_succ] at ht'
                  rw [hkp r (by omega) t' ht']
                  have e : i + (r + 1) = i + 1 + r := by omega
                  rw [e, List.mem_cons]
                  constructor
                  · intro h; exact Or.inr h
                  · intro h
                    rcases h with h | h
                    · omega
                    · exact h
              · have hmap : offs.map (fun o => o + (p + 1) - (i + 1)) = offs.map (fun o => o + p - i) := by
                  apply List.map_congr_left
                  intro o _; omega
                simp [List.take_succ_cons, hk, hmap]
          · have hc' : (t.g.gid == c) = false := by simp [hc]
            simp [hc, hc']
        · have hk' : kp t.g.gid = false := by simpa using hk
          simp only [hk', Bool.false_eq_true, if_false]
          have ih1 := ih lim hlim' (c :: cs) (p + 1) (i + 1)
          simp only [List.map_cons] at ih1
          cases hm : matchSeq kp ((fun g => g == c) :: cs.map fun c g => g == c) (ts.take lim) (i + 1) with
          | none =>
            rw [hm] at ih1
            simp only [ih1, bind_ok_eq]
          | some offs =>
            rw [hm] at ih1
            obtain ⟨u, hu, hne, hul, hbd, hpw, hkp, he⟩ := ih1
            simp only [he, bind_ok_eq]
            refine ⟨u + 1, ?_, hne, by omega, ?_, hpw, ?_, ?_⟩
            · rw [endFrom_ne i (i + 1) (hne (List.cons_ne_nil _ _)), hu]; omega
            · intro o ho
              have := hbd o ho; omega
            · intro r hr t' ht'
              cases r with
              | zero =>
                simp only [List.getElem?_cons_zero, Option.some.injEq] at ht'
                subst ht'
                simp only [hk', Bool.false_eq_true, false_iff, Nat.add_zero]
                intro hmem
                have := hbd i hmem; omega
              | succ r =>
                simp only [List.getElem?_cons_succ] at ht'
                rw [hkp r (by omega) t' ht']
                have e : i + (r + 1) = i + 1 + r := by omega
                rw [e]
            · have hmap : offs.map (fun o => o + (p + 1) - (i + 1)) = offs.map (fun o => o + p - i) := by
                apply List.map_congr_left
                intro o _; omega
              simp [List.take_succ_cons, hk', hmap]

/-- the facts about the offsets of the chosen ligature -/
private def OffsOk (kp : Nat → Bool) (post : List TG) (lim : Nat) (offs : List Nat) : Prop :=
  offs.Pairwise (· < ·) ∧ (∀ o ∈ offs, o < lim) ∧ (∀ o ∈ offs, o < usedLen offs) ∧
  (∀ r, r < usedLen offs → ∀ t, post[r]? = some t → (kp t.g.gid = true ↔ r ∈ offs))

/-- the ligature loop of the engine against the head of the reference's candidate list -/
private theorem firstLig_lim (kp : Nat → Bool) (post : List TG) (lim : Nat) (hlim : lim ≤ post.length) (a : Nat) :
    ∀ (set : List Lig),
    match set.filterMap fun (l : Lig) =>
        (matchSeq kp (l.comps.map fun c g => g == c) (post.take lim) 0).map fun offs => (l, usedLen offs) with
    | [] => firstLig kp (gl post) a (((a + 1 : Nat) : Int) + (lim : Int)) set = .ok none
    | (l, u) :: _ => ∃ offs, u = usedLen offs ∧ OffsOk kp post lim offs ∧
        firstLig kp (gl post) a (((a + 1 : Nat) : Int) + (lim : Int)) set =
          .ok (some (l, offs.map (· + (a + 1)),
            ((post.take u).filter fun t => kp t.g.gid).flatMap (fun t => t.g.text),
            gl ((post.take u).filter fun t => !kp t.g.gid), gl (post.drop u))) := by
  intro set
  induction set with
  | nil => simp [firstLig]
  | cons l ls ih =>
    have h := matchComps_lim kp post lim hlim l.comps (a + 1) 0
    simp only [List.filterMap_cons, firstLig]
    cases hm : matchSeq kp (l.comps.map fun c g => g == c) (post.take lim) 0 with
    | none =>
      rw [hm] at h
      simp only [Option.map_none, h, bind_ok_eq]
      exact ih
    | some offs =>
      rw [hm] at h
      obtain ⟨u, hu, _, hul, hbd, hpw, hkp, he⟩ := h
      rw [endFrom_zero, Nat.zero_add] at hu
      simp only [Option.map_some, he, bind_ok_eq, hu]
      refine ⟨offs, hu.symm, ⟨hpw, ?_, ?_, ?_⟩, ?_⟩
      · intro o ho
        have := hbd o ho; omega
      · intro o ho
        have := hbd o ho; omega
      · intro r hr t ht
        rw [hu] at hr
        have := hkp r hr t ht
        rwa [Nat.zero_add] at this
      · simp

theorem gsub41_lim' (kp : Nat → Bool) (gd : Gdef) (pre : List TG) (cur : TG) (post : List TG) (lim : Nat)
    (hlim : lim ≤ post.length) (stk : List Nested) (cov : Cov) (ligs : List (List Lig)) :
    let seq := gl (pre.reverse ++ cur :: post)
    match matchSub kp gd pre cur post lim (.gsub41 cov ligs) with
    | .error _ => True
    | .ok none =>
      applySub kp ⟨seq, stk⟩ pre.length ((pre.length + 1 + lim : Nat) : Int) (.gsub41 cov ligs) = .ok none
    | .ok (some (.ctx _ _)) => False
    | .ok (some (.done dn rest)) =>
      ∃ (offs : List Nat) (lig : TG),
        offs.Pairwise (· < ·) ∧ (∀ o ∈ offs, o < lim) ∧
        (∀ r, r < usedLen offs → ∀ t, post[r]? = some t → (kp t.g.gid = true ↔ r ∈ offs)) ∧
        (∀ r ∈ offs, ∀ t, post[r]? = some t → t.win = cur.win ∧ ∀ x ∈ t.inp, x ∈ cur.inp) ∧
        lig.inp = cur.inp ∧ lig.win = cur.win ∧
        dn = lig :: (post.take (usedLen offs)).filter (fun t => !kp t.g.gid) ∧
        rest = post.drop (usedLen offs) ∧
        applySub kp ⟨seq, stk⟩ pre.length ((pre.length + 1 + lim : Nat) : Int) (.gsub41 cov ligs)
          = .ok (some (⟨gl (pre.reverse ++ dn ++ rest),
                        stk.map (fixMergeOne ((pre.length :: offs.map (· + (pre.length + 1))).map Int.ofNat))⟩,
                       pre.length + dn.length)) := by
  intro seq
  simp only [seq, matchSub, applySub, seq_idx', bind_ok_eq, seq_take', seq_drop']
  cases hc : covGet cov cur.g.gid with
  | none => simp [pure, Except.pure]
  | some i =>
    cases hs : ligs[i]? with
    | none => simp [need, undef, bind, Except.bind, hs]
    | some set =>
      have hlen : ((pre.length + 1 + lim : Nat) : Int) = ((pre.length + 1 : Nat) : Int) + (lim : Int) := by
        omega
      have h := firstLig_lim kp post lim hlim pre.length set
      simp only [need, pure, Except.pure, bind, Except.bind, idx, hs, hlen]
      generalize (set.filterMap fun (l : Lig) =>
        (matchSeq kp (l.comps.map fun c g => g == c) (post.take lim) 0).map fun offs => (l, usedLen offs))
          = cands at h
      cases cands with
      | nil =>
        simp only at h
        simp only [h]
      | cons lu tl =>
        obtain ⟨l, u⟩ := lu
        simp only at h
        obtain ⟨offs, hu, ⟨hpw, hbd, hbu, hkp⟩, he⟩ := h
        simp only [he]
        by_cases hall : ((post.take u).filter fun t => kp t.g.gid).all
            (fun t => t.win == cur.win && t.inp.all cur.inp.contains) = true
        · simp only [hall, if_true]
          subst hu
          refine ⟨offs, { cur with g := ⟨l.out, cur.g.text ++
            ((post.take (usedLen offs)).filter fun t => kp t.g.gid).flatMap (fun t => t.g.text), 0, 0, 0⟩ },
            hpw, hbd, hkp, ?_, rfl, rfl, rfl, rfl, ?_⟩
          · intro r hr t ht
            have hru := hbu r hr
            have hk : kp t.g.gid = true := (hkp r hru t ht).mpr hr
            have hmem : t ∈ (post.take (usedLen offs)).filter fun t => kp t.g.gid := by
              rw [List.mem_filter]
              refine ⟨?_, hk⟩
              have : (post.take (usedLen offs))[r]? = some t := by
                rw [List.getElem?_take_of_lt hru]; exact ht
              exact List.mem_of_getElem? this
            have := List.all_eq_true.mp hall t hmem
            simpa using this
          simp [gl_reverse]
          omega
        · simp [hall, undef]

end SfntV.Spec.Shape
