/-
C02: bridging lemmas — erasing panic sites and costs from the checked-index models of
`hmtx.Decode`, `head.Read`, `os2.Read` gives the value-level models of C12
(`SfntV.Metrics.decode`, `decodeHead`, `decodeOs2`) on EVERY input, error classes included.
-/
import SfntV.Proofs.TotalMetrics
import SfntV.Proofs.TotalMetricsPost

namespace SfntV.Total.Metrics
open SfntV SfntV.Total
open SfntV.Total.Gdef (idx_ok ok_bind bind_noPanic bind_eq_ok)

/-! ## reading through a window `(b.drop p).take n` -/

theorem rdU8_win (b : Bytes) (p n i : Nat) (h : i < n) :
    SfntV.Metrics.rdU8 ((b.drop p).take n) i = SfntV.Metrics.rdU8 b (p + i) := by
  unfold SfntV.Metrics.rdU8
  congr 1
  simp only [List.getD_eq_getElem?_getD, List.getElem?_take, h, if_true, List.getElem?_drop]

theorem rdU16_win (b : Bytes) (p n i : Nat) (h : i + 1 < n) :
    SfntV.Metrics.rdU16 ((b.drop p).take n) i = SfntV.Metrics.rdU16 b (p + i) := by
  unfold SfntV.Metrics.rdU16
  rw [rdU8_win b p n i (by omega), rdU8_win b p n (i + 1) h, Nat.add_assoc]

theorem rdI16_win (b : Bytes) (p n i : Nat) (h : i + 1 < n) :
    SfntV.Metrics.rdI16 ((b.drop p).take n) i = SfntV.Metrics.rdI16 b (p + i) := by
  unfold SfntV.Metrics.rdI16
  rw [rdU16_win b p n i h]

theorem rdU32_win (b : Bytes) (p n i : Nat) (h : i + 3 < n) :
    SfntV.Metrics.rdU32 ((b.drop p).take n) i = SfntV.Metrics.rdU32 b (p + i) := by
  unfold SfntV.Metrics.rdU32
  rw [rdU16_win b p n i (by omega), rdU16_win b p n (i + 2) (by omega), Nat.add_assoc]

theorem rdI64_win (b : Bytes) (p n i : Nat) (h : i + 7 < n) :
    SfntV.Metrics.rdI64 ((b.drop p).take n) i = SfntV.Metrics.rdI64 b (p + i) := by
  unfold SfntV.Metrics.rdI64 SfntV.Metrics.rdU64
  rw [rdU32_win b p n i (by omega), rdU32_win b p n (i + 4) (by omega), Nat.add_assoc]

/-! ## head.Read -/

theorem headRead_erase (b : Bytes) : erase (headRead b) = SfntV.Metrics.decodeHead b := by
  unfold headRead SfntV.Metrics.decodeHead
  rw [show SfntV.Gen.metricsHeadLength = 54 from rfl]
  by_cases hlen : b.length < 54
  · rw [if_pos hlen, rdStruct_short (by omega)]
    rfl
  rw [if_neg hlen, rdStruct_eq (by omega), ok_bind]
  simp (disch := omega) only [rdU32_win, rdU16_win, rdI16_win, rdI64_win, Nat.zero_add]
  split
  · rfl
  split
  · rfl
  rfl

/-! ## os2.Read -/

theorem idx_getD (site : String) (xs : Bytes) (i : Nat) (h : i < xs.length) :
    idx site xs i = .ok (xs.getD i 0) := by
  rw [idx_ok site xs i h, List.getD_eq_getElem?_getD, List.getElem?_eq_getElem h]
  rfl

theorem map_range_congr (n : Nat) (f g : Nat → α) (h : ∀ i, i < n → f i = g i) :
    (List.range n).map f = (List.range n).map g :=
  List.map_congr_left (fun i hi => h i (List.mem_range.mp hi))

theorem take4 (l : Bytes) (p : Nat) (h : p + 4 ≤ l.length) :
    (l.drop p).take 4 = [l.getD p 0, l.getD (p + 1) 0, l.getD (p + 2) 0, l.getD (p + 3) 0] := by
  rw [List.drop_eq_getElem_cons (by omega : p < l.length),
    List.drop_eq_getElem_cons (by omega : p + 1 < l.length),
    List.drop_eq_getElem_cons (by omega : p + 1 + 1 < l.length),
    List.drop_eq_getElem_cons (by omega : p + 1 + 1 + 1 < l.length)]
  simp only [List.take_succ_cons, List.take_zero, List.getD_eq_getElem?_getD]
  rw [List.getElem?_eq_getElem (by omega : p < l.length),
    List.getElem?_eq_getElem (by omega : p + 1 < l.length),
    List.getElem?_eq_getElem (by omega : p + 2 < l.length),
    List.getElem?_eq_getElem (by omega : p + 3 < l.length)]
  rfl

theorem os2Cpr_eq (b : Bytes) (h : 86 ≤ b.length) :
    os2Cpr b = .ok (SfntV.Metrics.rdU32 b 78 + 4294967296 * SfntV.Metrics.rdU32 b 82) := by
  unfold os2Cpr
  rw [rdStruct_eq (by omega), ok_bind]
  have hl : ((b.drop 78).take 8).length = 8 := by
    simp only [List.length_take, List.length_drop]; omega
  rw [slice_ok _ _ 0 8 (by omega), ok_bind]
  have hl8 : ((List.drop 0 ((b.drop 78).take 8)).take (8 - 0)).length = 8 := by
    simp only [List.length_take, List.length_drop]; omega
  rw [idx_getD _ _ 0 (by omega), ok_bind, idx_getD _ _ 1 (by omega), ok_bind,
    idx_getD _ _ 2 (by omega), ok_bind, idx_getD _ _ 3 (by omega), ok_bind,
    idx_getD _ _ 4 (by omega), ok_bind, idx_getD _ _ 5 (by omega), ok_bind,
    idx_getD _ _ 6 (by omega), ok_bind, idx_getD _ _ 7 (by omega), ok_bind]
  simp only [← SfntV.Metrics.rdU8.eq_1]
  simp (disch := omega) only [rdU8_win, Nat.zero_add]
  unfold SfntV.Metrics.rdU32 SfntV.Metrics.rdU16
  apply congrArg Outcome.ok
  simp only [Nat.reduceAdd]
  omega

theorem os2Cpr_short (b : Bytes) (h : ¬ 86 ≤ b.length) : os2Cpr b = .err "short" := by
  unfold os2Cpr
  rw [rdStruct_short (by omega)]
  rfl

theorem os2Read_erase (b : Bytes) : erase (os2Read b) = SfntV.Metrics.decodeOs2 b := by
  unfold os2Read SfntV.Metrics.decodeOs2
  by_cases hlen : b.length < 68
  · rw [if_pos hlen, rdStruct_short (by omega)]
    rfl
  rw [if_neg hlen, rdStruct_eq (by omega), ok_bind]
  dsimp only
  rw [rdU16_win b 0 68 0 (by omega)]
  split
  · rfl
  have hv : ((List.drop 58 (List.take 68 (List.drop 0 b))).take 4).length = 4 := by
    simp only [List.length_take, List.length_drop]
    omega
  rw [slice_ok _ _ 0 4 (by omega), ok_bind]
  have hvend : List.take (4 - 0) (List.drop 0 (List.take 4 (List.drop 58 (List.take 68 (List.drop 0 b))))) =
      [b.getD 58 0, b.getD 59 0, b.getD 60 0, b.getD 61 0] := by
    simp only [List.drop_zero, Nat.sub_zero, List.take_take, List.drop_take, Nat.min_self,
      Nat.reduceSub, Nat.reduceLeDiff, Nat.min_eq_left]
    exact take4 b 58 (by omega)
  rw [hvend]
  have hbase : os2Base (List.take 68 (List.drop 0 b)) [b.getD 58 0, b.getD 59 0, b.getD 60 0, b.getD 61 0] =
      os2Base b [b.getD 58 0, b.getD 59 0, b.getD 60 0, b.getD 61 0] := by
    unfold os2Base
    simp (disch := omega) only [rdU32_win, rdU16_win, rdI16_win, Nat.zero_add]
    rw [map_range_congr 10 (fun i => SfntV.Metrics.rdI16 (List.take 68 (List.drop 0 b)) (10 + 2 * i))
        (fun i => SfntV.Metrics.rdI16 b (10 + 2 * i))
        (fun i hi => by rw [rdI16_win b 0 68 _ (by omega), Nat.zero_add]),
      map_range_congr 10 (fun i => SfntV.Metrics.rdU8 (List.take 68 (List.drop 0 b)) (32 + i))
        (fun i => SfntV.Metrics.rdU8 b (32 + i))
        (fun i hi => by rw [rdU8_win b 0 68 _ (by omega), Nat.zero_add])]
  rw [hbase, Nat.zero_add]
  by_cases h68 : b.length = 68
  · rw [if_pos h68, if_pos h68]
    rfl
  rw [if_neg h68, if_neg h68]
  by_cases h78 : b.length < 78
  · rw [if_pos h78, rdStruct_short (by omega)]
    rfl
  rw [if_neg h78, rdStruct_eq (by omega), ok_bind]
  have hms : os2Ms (os2Base b [b.getD 58 0, b.getD 59 0, b.getD 60 0, b.getD 61 0])
      (List.take 10 (List.drop 68 b)) =
      { os2Base b [b.getD 58 0, b.getD 59 0, b.getD 60 0, b.getD 61 0] with
        ascent := SfntV.Metrics.rdI16 b 68, descent := SfntV.Metrics.rdI16 b 70,
        lineGap := SfntV.Metrics.rdI16 b 72, winAscent := SfntV.Metrics.rdI16 b 74,
        winDescent := SfntV.Metrics.rdI16 b 76 } := by
    unfold os2Ms
    simp (disch := omega) only [rdI16_win]
  rw [hms]
  by_cases hv2 : SfntV.Metrics.rdU16 b 0 < 2
  · rw [if_pos hv2, if_pos hv2]
    rfl
  rw [if_neg hv2, if_neg hv2]
  by_cases h86 : b.length < 86
  · rw [if_pos h86, os2Cpr_short b (by omega)]
    rfl
  rw [if_neg h86, os2Cpr_eq b (by omega), ok_bind]
  by_cases h96 : b.length < 96
  · rw [if_pos h96, rdStruct_short (by omega)]
    rfl
  rw [if_neg h96, rdStruct_eq (by omega), ok_bind]
  unfold os2V2
  simp (disch := omega) only [rdI16_win]
  rfl

/-! ## hmtx.Decode -/

theorem idx0 (site : String) (a : α) (l : List α) : idx site (a :: l) 0 = .ok a := rfl
theorem idx1 (site : String) (a b : α) (l : List α) : idx site (a :: b :: l) 1 = .ok b := rfl

theorem slice2 (site : String) (a b : UInt8) (l : Bytes) :
    slice site (a :: b :: l) 2 (a :: b :: l).length = .ok l := by
  unfold slice
  rw [if_pos (by simp only [List.length_cons]; omega)]
  simp only [List.length_cons, List.drop_succ_cons, List.drop_zero]
  rw [List.take_of_length_le (by omega)]

/-- the loop followed by the final test `len(widths) < numHorMetrics` -/
def hmFin (nhm : Nat) : Outcome ((List Int × List Int) × Cost) → Outcome (List Int × List Int)
  | .ok ((ws, ls), _) => if ws.length < nhm then .err "hmtx-short" else .ok (ws, ls)
  | .err e => .err e
  | .panic s => .panic s

def hmOfDec (ws ls : List Int) : Option (List Int × List Int) → Outcome (List Int × List Int)
  | none => .err "hmtx-short"
  | some (w, l) => .ok (ws.reverse ++ w, ls.reverse ++ l)

theorem hmOfDec_cons (ws ls : List Int) (w l : Int) (r : Option (List Int × List Int)) :
    hmOfDec ws ls (match r with | some (ws2, ls2) => some (w :: ws2, l :: ls2) | none => none) =
      hmOfDec (w :: ws) (l :: ls) r := by
  cases r with
  | none => rfl
  | some p =>
    obtain ⟨ws2, ls2⟩ := p
    simp only [hmOfDec, List.reverse_cons, List.append_assoc, List.singleton_append]

theorem hmLoop_erase (nhm : Nat) : ∀ (fuel i k : Nat) (prev : Int) (data : Bytes) (ws ls : List Int)
    (c : Cost), data.length ≤ fuel → i = ws.length → k = nhm - i →
    hmFin nhm (hmLoop nhm fuel i prev data ws ls c) =
      hmOfDec ws ls (SfntV.Metrics.decHm k prev data) := by
  intro fuel
  induction fuel with
  | zero =>
    intro i k prev data ws ls c hlen hi hk
    have hnil : data = [] := List.eq_nil_of_length_eq_zero (by omega)
    subst hnil
    unfold hmLoop
    rw [if_pos (show ([] : Bytes).length = 0 from rfl)]
    unfold SfntV.Metrics.decHm hmFin
    simp only [List.length_reverse]
    by_cases hlt : ws.length < nhm
    · rw [if_pos hlt, if_pos (by omega)]; rfl
    · rw [if_neg hlt, if_neg (by omega)]; simp [hmOfDec]
  | succ fuel ih =>
    intro i k prev data ws ls c hlen hi hk
    match data, hlen with
    | [], _ =>
      unfold hmLoop
      rw [if_pos (show ([] : Bytes).length = 0 from rfl)]
      unfold SfntV.Metrics.decHm hmFin
      simp only [List.length_reverse]
      by_cases hlt : ws.length < nhm
      · rw [if_pos hlt, if_pos (by omega)]; rfl
      · rw [if_neg hlt, if_neg (by omega)]; simp [hmOfDec]
    | [a], _ =>
      unfold hmLoop
      rw [if_neg (by simp)]
      cases k with
      | zero =>
        rw [if_neg (by omega)]
        rfl
      | succ k' =>
        rw [if_pos (by omega)]
        rfl
    | a :: b :: rest, hlen =>
      unfold hmLoop
      rw [if_neg (by simp)]
      cases k with
      | zero =>
        rw [if_neg (by omega)]
        simp only [pure, ok_bind]
        rw [if_neg (by simp only [List.length_cons]; omega), idx0, ok_bind, idx1, ok_bind, slice2, ok_bind]
        rw [ih (i + 1) 0 prev rest (prev :: ws) _ _ (by simp only [List.length_cons] at hlen; omega)
          (by simp only [List.length_cons]; omega) (by omega)]
        rw [← hmOfDec_cons]
        rfl
      | succ k' =>
        rw [if_pos (by omega), if_neg (by simp only [List.length_cons]; omega), idx0, ok_bind, idx1,
          ok_bind, slice2, ok_bind]
        simp only [pure, ok_bind]
        match rest, hlen with
        | [], _ => rfl
        | [x], _ => rfl
        | x :: y :: rest', hlen =>
          rw [if_neg (by simp only [List.length_cons]; omega), idx0, ok_bind, idx1, ok_bind, slice2,
            ok_bind]
          rw [ih (i + 1) k' _ rest' (_ :: ws) _ _ (by simp only [List.length_cons] at hlen; omega)
            (by simp only [List.length_cons]; omega) (by omega)]
          rw [← hmOfDec_cons]
          rfl

theorem hmtxDecode_erase (hhea : Bytes) (hmtx : Option Bytes) :
    erase (hmtxDecode hhea hmtx) = SfntV.Metrics.decode hhea hmtx := by
  unfold hmtxDecode SfntV.Metrics.decode
  rw [show SfntV.Gen.metricsHheaLength = 36 from rfl]
  by_cases hlen : hhea.length < 36
  · rw [if_pos hlen, rdStruct_short (by omega)]
    rfl
  rw [if_neg hlen, rdStruct_eq (by omega), ok_bind]
  simp (disch := omega) only [rdU32_win, rdU16_win, rdI16_win, Nat.zero_add]
  split
  · rfl
  split
  · rfl
  cases hmtx with
  | none => rfl
  | some data =>
    dsimp only
    have hl := hmLoop_erase (SfntV.Metrics.rdU16 hhea 34) data.length 0
      (SfntV.Metrics.rdU16 hhea 34) 0 data [] [] ((Cost.zero.tick).mem 1) (Nat.le_refl _) rfl rfl
    cases hloop : hmLoop (SfntV.Metrics.rdU16 hhea 34) data.length 0 0 data [] []
        ((Cost.zero.tick).mem 1) with
    | panic s =>
      have := hmLoop_noPanic (SfntV.Metrics.rdU16 hhea 34) data.length 0 0 data [] []
        ((Cost.zero.tick).mem 1)
      rw [hloop] at this
      exact this.elim
    | err e =>
      rw [hloop] at hl
      cases hd : SfntV.Metrics.decHm (SfntV.Metrics.rdU16 hhea 34) 0 data with
      | none =>
        rw [hd] at hl
        simp only [hmFin, hmOfDec] at hl
        cases hl
        rfl
      | some p =>
        rw [hd] at hl
        obtain ⟨w, l⟩ := p
        simp only [hmFin, hmOfDec] at hl
        cases hl
    | ok r =>
      obtain ⟨⟨ws, ls⟩, c1⟩ := r
      rw [hloop] at hl
      rw [ok_bind]
      dsimp only
      cases hd : SfntV.Metrics.decHm (SfntV.Metrics.rdU16 hhea 34) 0 data with
      | none =>
        rw [hd] at hl
        simp only [hmFin, hmOfDec] at hl
        split at hl
        · rename_i hlt
          rw [if_pos hlt]
          rfl
        · cases hl
      | some p =>
        rw [hd] at hl
        obtain ⟨w, l⟩ := p
        simp only [hmFin, hmOfDec, List.reverse_nil, List.nil_append] at hl
        split at hl
        · cases hl
        · rename_i hlt
          rw [if_neg hlt]
          cases hl
          rfl

/-! ## post.Read (header part: the model `SfntV.Metrics.decodePost` of C12 does not cover version 2.0) -/

/-- the view of `post.Info` that `SfntV.Metrics.decodePost` returns -/
def postHdrOf (p : PostInfo) : Nat × SfntV.Metrics.PostHdr :=
  (p.version, ⟨SfntV.Metrics.i32ofNat p.angle, SfntV.Metrics.i16ofNat p.upos,
    SfntV.Metrics.i16ofNat p.uthick, p.fixed⟩)

theorem postRead_erase_hdr (tbl : List Bytes) (b : Bytes)
    (h2 : SfntV.Metrics.rdU32 b 0 ≠ 0x00020000) :
    postHdrOf <$> erase (postRead tbl b) = SfntV.Metrics.decodePost b := by
  unfold postRead SfntV.Metrics.decodePost
  by_cases hlen : b.length < 32
  · rw [if_pos hlen]
    unfold rdParser readBytes
    rw [if_neg (by omega), if_neg (by omega)]
    rfl
  have hrd : rdParser "parser.go:100#ReadBytes(k)" b 0 32 = .ok ((b.drop 0).take 32) := by
    unfold rdParser readBytes
    rw [if_neg (by omega), if_pos (by omega)]
  rw [if_neg hlen, hrd, ok_bind]
  simp (disch := omega) only [rdU32_win, rdU16_win, Nat.zero_add]
  have hfix : (SfntV.Metrics.rdU32 b 12 != 0) = decide (SfntV.Metrics.rdU32 b 12 ≠ 0) := by
    by_cases h0 : SfntV.Metrics.rdU32 b 12 = 0
    · rw [h0]; rfl
    · simp [h0]
  rw [hfix]
  by_cases h1 : SfntV.Metrics.rdU32 b 0 = 0x00010000
  · rw [if_pos h1, if_pos (Or.inl h1)]
    rfl
  rw [if_neg h1, if_neg h2]
  by_cases h34 : SfntV.Metrics.rdU32 b 0 = 0x00030000 ∨ SfntV.Metrics.rdU32 b 0 = 0x00040000
  · rw [if_pos h34, if_pos (Or.inr h34)]
    rfl
  · rw [if_neg h34, if_neg (by omega), if_neg h2]
    rfl

end SfntV.Total.Metrics
