import SfntV.Model.Parser

namespace SfntV.Parser
open SfntV

/-- window invariant; `from_` may lie beyond the end of input after a seek past EOF -/
def P.Inv (p : P) : Prop :=
  p.buf = (p.input.drop p.from_).take p.used ∧ p.used ≤ p.input.length - p.from_ ∧
  p.rd = p.from_ + p.used ∧ p.pos ≤ p.used ∧ p.used ≤ bufferSize

theorem init_inv (input : Bytes) : (P.init input).Inv := by
  simp [P.init, P.Inv]

theorem seekPos_spec (filePos : Nat) (p : P) (h : p.Inv) :
    (seekPos filePos p).Inv ∧ (seekPos filePos p).cursor = filePos ∧
    (seekPos filePos p).input = p.input := by
  obtain ⟨hb, hlen, hrd, hpu, hub⟩ := h
  unfold seekPos
  split
  · rename_i hc
    exact ⟨⟨hb, hlen, hrd, by simp only; omega, hub⟩, by simp only [P.cursor]; omega, rfl⟩
  · refine ⟨⟨by simp, by simp, by simp, by simp, by simp⟩, by simp [P.cursor], rfl⟩

theorem compact_inv (p : P) (h : p.Inv) :
    (compact p).Inv ∧ (compact p).cursor = p.cursor ∧ (compact p).input = p.input := by
  obtain ⟨hb, hlen, hrd, hpu, hub⟩ := h
  refine ⟨⟨?_, ?_, ?_, ?_, ?_⟩, ?_, rfl⟩
  · simp only [compact]; rw [hb, List.drop_take, List.drop_drop]
  · simp only [compact]; omega
  · simp only [compact]; omega
  · simp only [compact]; omega
  · simp only [compact]; omega
  · simp [compact, P.cursor]

theorem refill_spec (o : Oracle) (p p' : P) (h : p.Inv) (hr : refill o p = some p')
    (hroom : p.used - p.pos < bufferSize) :
    p'.Inv ∧ p'.cursor = p.cursor ∧ p'.input = p.input ∧ p'.pos = 0 ∧
    p'.used ≥ (p.used - p.pos) + 1 := by
  have ⟨hq, hqc, hqi⟩ := compact_inv p h
  unfold refill at hr
  simp only at hr
  split at hr
  · cases hr
  · rename_i hav
    injection hr with hr
    subst hr
    obtain ⟨hb, hlen, hrd, hpu, hub⟩ := hq
    have hqu : (compact p).used = p.used - p.pos := rfl
    have hqp : (compact p).pos = 0 := rfl
    have hg := o.pos (compact p).calls (bufferSize - (compact p).used)
      ((compact p).input.length - (compact p).rd) (by omega) (by omega)
    refine ⟨⟨?_, ?_, ?_, ?_, ?_⟩, ?_, hqi, hqp, ?_⟩
    · simp only
      rw [hb, hrd, ← List.drop_drop, ← List.take_add]
    · simp only; omega
    · simp only; omega
    · simp only; omega
    · simp only; omega
    · simpa [P.cursor] using hqc
    · simp only; omega

/-- `ReadBytes` against the byte view, for every short-read behaviour -/
theorem readBytes_spec (o : Oracle) (n : Nat) (hn : n ≤ bufferSize) :
    ∀ (fuel : Nat) (p : P), p.Inv → p.pos + n - p.used < fuel →
      (readBytes o n fuel p).1.Inv ∧ (readBytes o n fuel p).1.input = p.input ∧
      (match specBytes p.input p.cursor n with
       | some b => (readBytes o n fuel p).2 = .ok b ∧
            (readBytes o n fuel p).1.cursor = p.cursor + n
       | none => (readBytes o n fuel p).2 = .eof ∧ (readBytes o n fuel p).1.cursor = p.cursor) := by
  intro fuel
  induction fuel with
  | zero => intro p _ h; omega
  | succ fuel ih =>
    intro p hinv hfuel
    have hinv' := hinv
    obtain ⟨hb, hlen, hrd, hpu, hub⟩ := hinv
    unfold readBytes
    by_cases hfit : p.pos + n ≤ p.used
    · simp only [hfit, if_true]
      refine ⟨⟨hb, hlen, hrd, by simp only; omega, hub⟩, trivial, ?_⟩
      have hc : n = 0 ∨ p.cursor + n ≤ p.input.length := by
        by_cases hn0 : n = 0
        · exact Or.inl hn0
        · right; simp only [P.cursor]; omega
      simp only [specBytes, hc, if_true]
      refine ⟨?_, by simp [P.cursor]; omega⟩
      congr 1
      rw [hb, List.drop_take, List.drop_drop, List.take_take]
      simp only [P.cursor]
      congr 1
      omega
    · simp only [hfit, if_false]
      have hroom : p.used - p.pos < bufferSize := by omega
      cases hr : refill o p with
      | none =>
        simp only
        have ⟨hq, hqc, hqi⟩ := compact_inv p hinv'
        refine ⟨hq, hqi, ?_⟩
        have hav : p.input.length - p.rd = 0 := by
          unfold refill at hr; simp only at hr
          split at hr
          · rename_i h0; simpa [compact] using h0
          · cases hr
        have : ¬ (n = 0 ∨ p.cursor + n ≤ p.input.length) := by simp only [P.cursor]; omega
        simp only [specBytes, this, if_false]
        exact ⟨trivial, hqc⟩
      | some p1 =>
        simp only
        have ⟨hinv1, hcur1, hin1, hp0, hu1⟩ := refill_spec o p p1 hinv' hr hroom
        have hfuel1 : p1.pos + n - p1.used < fuel := by omega
        have := ih p1 hinv1 hfuel1
        rw [hcur1, hin1] at this
        exact this

/-- packaged form: the result of `readBytes o n (n+1) p` -/
theorem readBytes_pack (o : Oracle) (n : Nat) (hn : n ≤ bufferSize) (p : P) (h : p.Inv) :
    ∃ p', p'.Inv ∧ p'.input = p.input ∧
      ((∃ b, specBytes p.input p.cursor n = some b ∧ readBytes o n (n+1) p = (p', .ok b) ∧
          p'.cursor = p.cursor + n) ∨
       (specBytes p.input p.cursor n = none ∧ readBytes o n (n+1) p = (p', .eof) ∧
          p'.cursor = p.cursor)) := by
  have hpu := h.2.2.2.1
  have := readBytes_spec o n hn (n + 1) p h (by omega)
  revert this
  generalize readBytes o n (n + 1) p = res
  obtain ⟨p', r⟩ := res
  intro this
  obtain ⟨hi, hin, hr⟩ := this
  refine ⟨p', hi, hin, ?_⟩
  split at hr
  · rename_i b hb
    obtain ⟨hr1, hr2⟩ := hr
    simp only at hr1 hr2
    subst hr1
    exact Or.inl ⟨b, hb, rfl, hr2⟩
  · rename_i hb
    obtain ⟨hr1, hr2⟩ := hr
    simp only at hr1 hr2
    subst hr1
    exact Or.inr ⟨hb, rfl, hr2⟩

theorem fixed_spec (o : Oracle) (n : Nat) (hn : n ≤ bufferSize) (p : P) (h : p.Inv) :
    (fixed o n p).1.Inv ∧ (fixed o n p).1.input = p.input ∧
    ((fixed o n p).1.cursor, (fixed o n p).2) = specFixed p.input p.cursor n := by
  obtain ⟨p', hi, hin, hcase⟩ := readBytes_pack o n hn p h
  unfold fixed specFixed
  rcases hcase with ⟨b, hs, hr, hc⟩ | ⟨hs, hr, hc⟩
  · rw [hr, hs]; simp [hi, hin, hc]
  · rw [hr, hs]; simp [hi, hin, hc]

theorem two_le : 2 ≤ bufferSize := by decide
theorem one_le : 1 ≤ bufferSize := by decide
theorem four_le : 4 ≤ bufferSize := by decide

theorem readU16s_spec (o : Oracle) : ∀ (k : Nat) (p : P) (acc : List Nat), p.Inv →
    (readU16s o k p acc).1.Inv ∧ (readU16s o k p acc).1.input = p.input ∧
    ((readU16s o k p acc).1.cursor, (readU16s o k p acc).2) = specU16s p.input k p.cursor acc := by
  intro k
  induction k with
  | zero => intro p acc h; simp [readU16s, specU16s, h]
  | succ k ih =>
    intro p acc h
    obtain ⟨p', hi, hin, hcase⟩ := readBytes_pack o 2 two_le p h
    unfold readU16s specU16s fixed
    rcases hcase with ⟨b, hs, hr, hc⟩ | ⟨hs, hr, hc⟩
    · rw [hr, hs]
      simp only
      have := ih p' (beVal b :: acc) hi
      rw [hin, hc] at this
      exact this
    · rw [hr, hs]; simp [hi, hin, hc]

theorem readBulk_spec (o : Oracle) : ∀ (fuel rem : Nat) (p : P) (acc : Bytes), p.Inv →
    (readBulk o fuel rem p acc).1.Inv ∧ (readBulk o fuel rem p acc).1.input = p.input ∧
    ((readBulk o fuel rem p acc).1.cursor, (readBulk o fuel rem p acc).2)
      = specBulk p.input fuel rem p.cursor acc := by
  intro fuel
  induction fuel with
  | zero => intro rem p acc h; simp [readBulk, specBulk, h]
  | succ fuel ih =>
    intro rem p acc h
    unfold readBulk specBulk
    by_cases hr0 : rem = 0
    · simp [hr0, h]
    · simp only [hr0, if_false]
      have hk : min rem bufferSize ≤ bufferSize := Nat.min_le_right _ _
      obtain ⟨p', hi, hin, hcase⟩ := readBytes_pack o (min rem bufferSize) hk p h
      rcases hcase with ⟨b, hs, hr, hc⟩ | ⟨hs, hr, hc⟩
      · rw [hr, hs]
        simp only
        have := ih (rem - min rem bufferSize) p' (acc ++ b) hi
        rw [hin, hc] at this
        exact this
      · rw [hr, hs]; simp [hi, hin, hc]

/-- every exported operation refines the byte view and keeps the invariant -/
theorem step_refines (o : Oracle) (p : P) (h : p.Inv) (op : Op) (hop : op.ok) :
    (implStep o p op).1.Inv ∧ (implStep o p op).1.input = p.input ∧
    ((implStep o p op).1.cursor, (implStep o p op).2) = specStep p.input p.cursor op := by
  cases op with
  | seek q =>
    have := seekPos_spec q p h
    simp [implStep, specStep, this]
  | discard n =>
    have := seekPos_spec (p.cursor + n) p h
    simp [implStep, specStep, this]
  | bytes n =>
    have hn : n ≤ bufferSize := hop
    obtain ⟨p', hi, hin, hcase⟩ := readBytes_pack o n hn p h
    simp only [implStep, specStep]
    rcases hcase with ⟨b, hs, hr, hc⟩ | ⟨hs, hr, hc⟩
    · rw [hr, hs]; simp [hi, hin, hc]
    · rw [hr, hs]; simp [hi, hin, hc]
  | u8 => exact fixed_spec o 1 one_le p h
  | u16 => exact fixed_spec o 2 two_le p h
  | u32 => exact fixed_spec o 4 four_le p h
  | i16 =>
    obtain ⟨p', hi, hin, hcase⟩ := readBytes_pack o 2 two_le p h
    simp only [implStep, specStep, fixed]
    rcases hcase with ⟨b, hs, hr, hc⟩ | ⟨hs, hr, hc⟩
    · rw [hr, hs]; simp [hi, hin, hc]
    · rw [hr, hs]; simp [hi, hin, hc]
  | u16s =>
    obtain ⟨p', hi, hin, hcase⟩ := readBytes_pack o 2 two_le p h
    simp only [implStep, specStep, fixed]
    rcases hcase with ⟨b, hs, hr, hc⟩ | ⟨hs, hr, hc⟩
    · rw [hr, hs]
      simp only
      have := readU16s_spec o (beVal b) p' [] hi
      rw [hin, hc] at this
      exact this
    · rw [hr, hs]; simp [hi, hin, hc]
  | read n =>
    simp only [implStep, specStep]
    exact readBulk_spec o (n + 1) n p [] h
  | pos => simp [implStep, specStep, h]
  | size => simp [implStep, specStep, h]

theorem histories (o : Oracle) (ops : List Op) (hops : ∀ op ∈ ops, op.ok) :
    ∀ p : P, p.Inv → implRun o p ops = specRun p.input p.cursor ops := by
  induction ops with
  | nil => intro p _; rfl
  | cons op ops ih =>
    intro p h
    have hop : op.ok := hops op (by simp)
    have ⟨hi, hin, hstep⟩ := step_refines o p h op hop
    simp only [implRun, specRun]
    have h1 : (implStep o p op).2 = (specStep p.input p.cursor op).2 := by
      have := congrArg Prod.snd hstep; simpa using this
    have h2 : (implStep o p op).1.cursor = (specStep p.input p.cursor op).1 := by
      have := congrArg Prod.fst hstep; simpa using this
    rw [h1]
    congr 1
    have := ih (fun op h => hops op (by simp [h])) (implStep o p op).1 hi
    rw [this, hin, h2]

/-! ## closed forms of the specification's loops (what "plain byte view" means for them) -/

theorem specBytes_some (input : Bytes) (c n : Nat) (b : Bytes) (h : specBytes input c n = some b) :
    b = (input.drop c).take n ∧ (n = 0 ∨ c + n ≤ input.length) := by
  unfold specBytes at h
  split at h
  · rename_i hc; injection h with h; exact ⟨h.symm, hc⟩
  · cases h

theorem specBytes_none (input : Bytes) (c n : Nat) (h : specBytes input c n = none) :
    0 < n ∧ input.length < c + n := by
  unfold specBytes at h
  split at h
  · cases h
  · rename_i hc; omega

/-- A bulk read of `n` bytes succeeds iff it does not pass the end, then returns exactly
`input[c, c+n)` and advances by `n`; otherwise it reports a short count whose data is a
prefix of the input at `c`, and the cursor has advanced by that count. -/
theorem specBulk_closed (input : Bytes) : ∀ (fuel rem c : Nat) (acc : Bytes), rem < fuel →
    (rem = 0 ∨ c + rem ≤ input.length →
      specBulk input fuel rem c acc = (c + rem, .data (acc ++ (input.drop c).take rem))) ∧
    (¬ (rem = 0 ∨ c + rem ≤ input.length) →
      ∃ t, t < rem ∧ specBulk input fuel rem c acc = (c + t, .short (acc ++ (input.drop c).take t))) := by
  intro fuel
  induction fuel with
  | zero => intro rem c acc h; omega
  | succ fuel ih =>
    intro rem c acc hf
    unfold specBulk
    by_cases hr0 : rem = 0
    · subst hr0; simp
    · simp only [hr0, if_false, false_or]
      have hkpos : 0 < min rem bufferSize := by
        have := one_le; omega
      have hkle : min rem bufferSize ≤ rem := Nat.min_le_left _ _
      cases hs : specBytes input c (min rem bufferSize) with
      | some b =>
        obtain ⟨hb, hfit⟩ := specBytes_some _ _ _ _ hs
        have hfit' : c + min rem bufferSize ≤ input.length := by omega
        simp only
        have ih' := ih (rem - min rem bufferSize) (c + min rem bufferSize) (acc ++ b) (by omega)
        constructor
        · intro hok
          rw [ih'.1 (by omega)]
          subst hb
          simp only [List.append_assoc, Prod.mk.injEq, Out.data.injEq, List.append_cancel_left_eq]
          refine ⟨by omega, ?_⟩
          rw [← List.drop_drop, ← List.take_add]
          congr 1; omega
        · intro hbad
          obtain ⟨t, ht, he⟩ := ih'.2 (by omega)
          refine ⟨min rem bufferSize + t, by omega, ?_⟩
          rw [he]
          subst hb
          simp only [List.append_assoc, Prod.mk.injEq, Out.short.injEq, List.append_cancel_left_eq]
          refine ⟨by omega, ?_⟩
          rw [← List.drop_drop, ← List.take_add]
      | none =>
        obtain ⟨_, hpast⟩ := specBytes_none _ _ _ hs
        simp only
        constructor
        · intro hok; omega
        · intro _; exact ⟨0, by omega, by simp⟩

end SfntV.Parser
