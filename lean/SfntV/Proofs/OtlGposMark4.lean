/-
Mark arrays and GPOS 4.1 / 6.1 (mark-to-base, mark-to-mark: one layout, one model): decode ∘ encode = id
and the declared size is the emitted size, for the model of the repaired encoders and of the readers.
-/
import SfntV.Proofs.OtlGposMark
import SfntV.Proofs.OtlGsub8

namespace SfntV.Otl.GposMark
open SfntV SfntV.Otl

/-! ### mark arrays -/

def MarkOk (m : Mark) : Prop := m.cls < 65536 ∧ AOk m.anchor

theorem anchorWords_lt (a : Anchor) (ha : AOk a) : ∀ w ∈ anchorWords a, w < 65536 := by
  intro w hw
  simp only [anchorWords, List.mem_cons, List.not_mem_nil, or_false] at hw
  rcases hw with rfl | rfl | rfl
  · decide
  · exact ha.1
  · exact ha.2

/-- the mark records: (class, offset of the anchor) -/
def markRecs (A : Nat) (ms : List Mark) (k : Nat) : List (Nat × Nat) :=
  (ms.zipIdx k).map fun q => (q.1.cls, w16 (A + 6 * q.2))

theorem pairs_markRecs (A : Nat) : ∀ (ms : List Mark) (k : Nat) (T : List Nat),
    (T.length = 0) →
    pairs (((ms.zipIdx k).flatMap fun q => [q.1.cls, w16 (A + 6 * q.2)]) ++ T) = markRecs A ms k
  | [], _, T, hT => by
    have : T = [] := List.eq_nil_of_length_eq_zero hT
    subst this
    simp [pairs, markRecs]
  | m :: ms, k, T, hT => by
    simp only [List.zipIdx_cons, List.flatMap_cons, List.cons_append, List.nil_append, pairs, markRecs,
      List.map_cons]
    rw [pairs_markRecs A ms (k + 1) T hT]
    rfl

/-- the anchors of a mark array are found through the record offsets -/
theorem readAnchors_spec (c : Bytes) (pos A : Nat) : ∀ (ms : List Mark) (k : Nat) (Q T : List Nat),
    (∀ m ∈ ms, MarkOk m) → pos + A + 6 * k = 2 * Q.length → A + 6 * (k + ms.length) ≤ 65536 →
    readAnchors (wordsToBytes (Q ++ ((ms.flatMap fun m => anchorWords m.anchor) ++ T)) ++ c) pos
      ((markRecs A ms k).map (·.2)) = .ok (ms.map (·.anchor))
  | [], _, _, _, _, _, _ => by simp [markRecs, readAnchors]
  | m :: ms, k, Q, T, hok, hpos, hfit => by
    simp only [List.length_cons] at hfit
    have hw : w16 (A + 6 * k) = A + 6 * k := w16_of_lt (by omega)
    have hshape : Q ++ (((m :: ms).flatMap fun m => anchorWords m.anchor) ++ T) =
        (Q ++ anchorWords m.anchor) ++ ((ms.flatMap fun m => anchorWords m.anchor) ++ T) := by
      simp [List.append_assoc]
    have ih := readAnchors_spec c pos A ms (k + 1) (Q ++ anchorWords m.anchor) T
      (fun m' hm' => hok m' (by simp [hm']))
      (by simp only [List.length_append, anchorWords, List.length_cons, List.length_nil]; omega)
      (by omega)
    rw [← hshape] at ih
    have ha : readAnchor (wordsToBytes (Q ++ (((m :: ms).flatMap fun m => anchorWords m.anchor) ++ T)) ++ c)
        (pos + (A + 6 * k)) = .ok m.anchor := by
      have : pos + (A + 6 * k) = 2 * Q.length := by omega
      rw [this]
      have hs2 : Q ++ (((m :: ms).flatMap fun m => anchorWords m.anchor) ++ T) =
          Q ++ (anchorWords m.anchor ++ ((ms.flatMap fun m => anchorWords m.anchor) ++ T)) := by
        simp [List.append_assoc]
      rw [hs2]
      exact anchor_at _ _ c m.anchor (hok m (by simp)).2
    simp only [markRecs, List.zipIdx_cons, List.map_cons, readAnchors, hw, ha]
    simp only [markRecs] at ih
    rw [ih]

theorem zip_markRecs (A : Nat) : ∀ (ms : List Mark) (k : Nat),
    ((markRecs A ms k).zip (ms.map (·.anchor))).map (fun q => (⟨q.1.1, q.2⟩ : Mark)) = ms
  | [], _ => rfl
  | m :: ms, k => by
    simp only [markRecs, List.zipIdx_cons, List.map_cons, List.zip_cons_cons]
    have := zip_markRecs A ms (k + 1)
    simp only [markRecs] at this
    rw [this]

/-- the words of a mark array -/
def markArrayWords (ms : List Mark) : List Nat :=
  w16 ms.length :: (((ms.zipIdx).flatMap fun q => [q.1.cls, w16 (2 + 4 * ms.length + 6 * q.2)]) ++
    ms.flatMap fun m => anchorWords m.anchor)

theorem markRecs_lt (A : Nat) (ms : List Mark) (k : Nat) (hok : ∀ m ∈ ms, MarkOk m) :
    ∀ w ∈ ((ms.zipIdx k).flatMap fun q => [q.1.cls, w16 (A + 6 * q.2)]), w < 65536 := by
  intro w hw
  rw [List.mem_flatMap] at hw
  obtain ⟨q, hq, hw⟩ := hw
  simp only [List.mem_cons, List.not_mem_nil, or_false] at hw
  rcases hw with rfl | rfl
  · have : q.1 ∈ ms := by
      have := List.mem_zipIdx hq
      obtain ⟨_, _, h3⟩ := this
      rw [h3]; exact List.getElem_mem _
    exact (hok _ this).1
  · exact w16_lt _

theorem markArrayWords_lt (ms : List Mark) (hok : ∀ m ∈ ms, MarkOk m) : ∀ w ∈ markArrayWords ms, w < 65536 := by
  intro w hw
  simp only [markArrayWords, List.mem_cons, List.mem_append] at hw
  rcases hw with rfl | hw | hw
  · exact w16_lt _
  · exact markRecs_lt _ ms 0 hok w hw
  · rw [List.mem_flatMap] at hw
    obtain ⟨m, hm, hw⟩ := hw
    exact anchorWords_lt _ (hok m hm).2 w hw

theorem markArrayWords_length (ms : List Mark) : (markArrayWords ms).length = 1 + 5 * ms.length := by
  have h1 : ∀ (l : List Mark) (k : Nat) (f : Nat → Nat),
      ((l.zipIdx k).flatMap fun q => [q.1.cls, f q.2]).length = 2 * l.length := by
    intro l
    induction l with
    | nil => intro k f; rfl
    | cons m l ih => intro k f; simp only [List.zipIdx_cons, List.flatMap_cons, List.length_append,
        List.length_cons, List.length_nil, ih]; omega
  have h2 : ∀ (l : List Mark), (l.flatMap fun m => anchorWords m.anchor).length = 3 * l.length := by
    intro l
    induction l with
    | nil => rfl
    | cons m l ih =>
      have : (anchorWords m.anchor).length = 3 := rfl
      simp only [List.flatMap_cons, List.length_append, this, ih, List.length_cons]; omega
  have e1 := h1 ms 0 (fun i => w16 (2 + 4 * ms.length + 6 * i))
  have e2 := h2 ms
  simp only [markArrayWords, List.length_cons, List.length_append]
  omega

/-- **mark array round trip** -/
theorem markArray_spec (c : Bytes) (ms : List Mark) (P T : List Nat) (hok : ∀ m ∈ ms, MarkOk m)
    (hfit : 2 + 10 * ms.length ≤ 65536) (hP : ∀ w ∈ markArrayWords ms ++ T, w < 65536) :
    readMarkArray (wordsToBytes (P ++ (markArrayWords ms ++ T)) ++ c) (2 * P.length) ms.length = .ok ms := by
  have hn : w16 ms.length = ms.length := w16_of_lt (by omega)
  have hRl : ((ms.zipIdx).flatMap fun q => [q.1.cls, w16 (2 + 4 * ms.length + 6 * q.2)]).length = 2 * ms.length := by
    have := markArrayWords_length ms
    have h2 : (ms.flatMap fun m => anchorWords m.anchor).length = 3 * ms.length := by
      clear this hP hfit hok hn
      induction ms with
      | nil => rfl
      | cons m l ih =>
        have : (anchorWords m.anchor).length = 3 := rfl
        simp only [List.flatMap_cons, List.length_append, this, ih, List.length_cons]; omega
    simp only [markArrayWords, List.length_cons, List.length_append] at this
    omega
  generalize hR : ((ms.zipIdx).flatMap fun q => [q.1.cls, w16 (2 + 4 * ms.length + 6 * q.2)]) = R at hRl
  have hpairs : pairs R = markRecs (2 + 4 * ms.length) ms 0 := by
    have := pairs_markRecs (2 + 4 * ms.length) ms 0 [] rfl
    rw [List.append_nil, hR] at this
    exact this
  have hMA : markArrayWords ms = ms.length :: (R ++ ms.flatMap fun m => anchorWords m.anchor) := by
    simp only [markArrayWords, hn, hR]
  have hanch := readAnchors_spec c (2 * P.length) (2 + 4 * ms.length) ms 0 (P ++ ms.length :: R) T hok
    (by simp only [List.length_append, List.length_cons, hRl]; omega) (by omega)
  have hshape : P ++ ms.length :: R ++ ((ms.flatMap fun m => anchorWords m.anchor) ++ T) =
      P ++ (markArrayWords ms ++ T) := by
    rw [hMA]; simp [List.append_assoc]
  rw [hshape] at hanch
  have hw : bytesToWords ((wordsToBytes (P ++ (markArrayWords ms ++ T)) ++ c).drop (2 * P.length)) =
      ms.length :: (R ++ ((ms.flatMap fun m => anchorWords m.anchor) ++ (T ++ bytesToWords c))) := by
    rw [drop_wordsToBytes_append', bytesToWords_append _ hP, hMA]
    simp [List.append_assoc]
  generalize wordsToBytes (P ++ (markArrayWords ms ++ T)) ++ c = b at hanch hw ⊢
  unfold readMarkArray
  rw [hw]
  simp only [Nat.min_self, List.length_append, hRl]
  rw [if_neg (by omega)]
  have ht : (R ++ ((ms.flatMap fun m => anchorWords m.anchor) ++ (T ++ bytesToWords c))).take (2 * ms.length) = R := by
    rw [← hRl]; exact List.take_left
  rw [ht, hpairs, hanch]
  simp only [zip_markRecs]

/-! ### base arrays -/

theorem filter_flatMap_eq : ∀ (flat : List Anchor),
    (flat.filter fun a => !isEmpty a).flatMap anchorWords = flat.flatMap aW
  | [] => rfl
  | a :: as => by
    by_cases h : isEmpty a = true
    · simp [h, aW, filter_flatMap_eq as]
    · simp [h, aW, filter_flatMap_eq as]

/-- the anchors of a base array are found through the offsets `baseOffsets` assigns -/
theorem baseOffsets_spec (c : Bytes) (pos : Nat) : ∀ (flat : List Anchor) (Q T : List Nat) (o0 : Nat)
    (offs : List Nat) (o1 : Nat),
    (∀ a ∈ flat, AOk a) → baseOffsets flat o0 = .ok (offs, o1) → pos + o0 = 2 * Q.length → 0 < o0 →
    readRow (wordsToBytes (Q ++ (flat.flatMap aW ++ T)) ++ c) pos offs = .ok flat ∧
    offs.length = flat.length ∧ (∀ o ∈ offs, o < 65536) ∧ o1 = o0 + 2 * (flat.flatMap aW).length
  | [], Q, T, o0, offs, o1, _, h, _, _ => by
    simp only [baseOffsets, Outcome.ok.injEq, Prod.mk.injEq] at h
    obtain ⟨rfl, rfl⟩ := h
    simp [readRow]
  | a :: as, Q, T, o0, offs, o1, hok, h, hpos, h0 => by
    have hrest : ∀ a' ∈ as, AOk a' := fun a' ha' => hok a' (by simp [ha'])
    simp only [baseOffsets] at h
    by_cases he : isEmpty a = true
    · rw [if_pos he] at h
      cases h2 : baseOffsets as o0 with
      | ok r =>
        obtain ⟨r, o⟩ := r
        rw [h2] at h
        simp only [Outcome.ok.injEq, Prod.mk.injEq] at h
        obtain ⟨rfl, rfl⟩ := h
        have haw : aW a = [] := by simp [aW, he]
        obtain ⟨i1, i2, i3, i4⟩ := baseOffsets_spec c pos as Q T o0 r o hrest h2 hpos h0
        simp only [List.flatMap_cons, haw, List.nil_append]
        refine ⟨?_, by simp [i2], ?_, i4⟩
        · simp only [readRow, beq_self_eq_true, if_true, i1]
          rw [(isEmpty_iff a).mp he]
        · intro o ho
          rw [List.mem_cons] at ho
          rcases ho with rfl | ho
          · decide
          · exact i3 o ho
      | err e => rw [h2] at h; simp at h
      | panic s => rw [h2] at h; simp at h
    · rw [if_neg he] at h
      split at h
      · simp at h
      · rename_i hle
        cases h2 : baseOffsets as (o0 + 6) with
        | ok r =>
          obtain ⟨r, o⟩ := r
          rw [h2] at h
          simp only [Outcome.ok.injEq, Prod.mk.injEq] at h
          obtain ⟨rfl, rfl⟩ := h
          have haw : aW a = anchorWords a := by simp [aW, he]
          have hshape : Q ++ ((a :: as).flatMap aW ++ T) = (Q ++ anchorWords a) ++ (as.flatMap aW ++ T) := by
            simp [List.flatMap_cons, haw, List.append_assoc]
          obtain ⟨i1, i2, i3, i4⟩ := baseOffsets_spec c pos as (Q ++ anchorWords a) T (o0 + 6) r o hrest h2
            (by simp only [List.length_append, anchorWords, List.length_cons, List.length_nil]; omega) (by omega)
          rw [← hshape] at i1
          have ha : readAnchor (wordsToBytes (Q ++ ((a :: as).flatMap aW ++ T)) ++ c) (pos + o0) = .ok a := by
            rw [hpos]
            have : Q ++ ((a :: as).flatMap aW ++ T) = Q ++ (anchorWords a ++ (as.flatMap aW ++ T)) := by
              simp [List.flatMap_cons, haw, List.append_assoc]
            rw [this]
            exact anchor_at _ _ c a (hok a (by simp))
          have hne : (o0 == 0) = false := by simp; omega
          refine ⟨?_, by simp [i2], ?_, ?_⟩
          · simp only [readRow, hne, Bool.false_eq_true, if_false, ha, i1]
          · intro o' ho
            rw [List.mem_cons] at ho
            rcases ho with rfl | ho
            · omega
            · exact i3 o' ho
          · rw [i4]
            simp only [List.flatMap_cons, haw, List.length_append, anchorWords, List.length_cons, List.length_nil]
            omega
        | err e => rw [h2] at h; simp at h
        | panic s => rw [h2] at h; simp at h

theorem readRow_length (b : Bytes) (pos : Nat) : ∀ (os : List Nat) (r : List Anchor),
    readRow b pos os = .ok r → r.length = os.length
  | [], r, h => by simp [readRow] at h; simp [← h]
  | o :: os, r, h => by
    simp only [readRow] at h
    split at h
    · rename_i a ha
      cases h2 : readRow b pos os with
      | ok r' =>
        rw [h2] at h
        simp only [Outcome.ok.injEq] at h
        rw [← h]; simp [readRow_length b pos os r' h2]
      | err e => rw [h2] at h; simp at h
      | panic s => rw [h2] at h; simp at h
    · simp at h
    · simp at h

theorem readRow_append (b : Bytes) (pos : Nat) : ∀ (xs ys : List Nat) (r : List Anchor),
    readRow b pos (xs ++ ys) = .ok r →
    ∃ r1 r2, readRow b pos xs = .ok r1 ∧ readRow b pos ys = .ok r2 ∧ r = r1 ++ r2
  | [], ys, r, h => ⟨[], r, rfl, h, rfl⟩
  | x :: xs, ys, r, h => by
    simp only [List.cons_append, readRow] at h ⊢
    split at h
    · rename_i a ha
      cases h2 : readRow b pos (xs ++ ys) with
      | ok r' =>
        rw [h2] at h
        simp only [Outcome.ok.injEq] at h
        obtain ⟨r1, r2, e1, e2, e3⟩ := readRow_append b pos xs ys r' h2
        refine ⟨a :: r1, r2, ?_, e2, ?_⟩
        · simp [e1]
        · rw [← h, e3]; rfl
      | err e => rw [h2] at h; simp at h
      | panic s => rw [h2] at h; simp at h
    · simp at h
    · simp at h

/-- rows of `cc` anchors each -/
theorem readRows_of_flat (b : Bytes) (pos cc : Nat) : ∀ (rows : List (List Anchor)) (offs : List Nat),
    (∀ row ∈ rows, row.length = cc) → offs.length = rows.length * cc →
    readRow b pos offs = .ok (rows.flatMap id) → readRows b pos cc rows.length offs = .ok rows
  | [], _, _, _, _ => rfl
  | row :: rows, offs, hr, hl, h => by
    have hsplit : offs = offs.take cc ++ offs.drop cc := (List.take_append_drop cc offs).symm
    rw [hsplit] at h
    obtain ⟨r1, r2, e1, e2, e3⟩ := readRow_append b pos _ _ _ h
    have hl1 := readRow_length b pos _ _ e1
    have hcc : row.length = cc := hr row (by simp)
    simp only [List.length_cons, Nat.add_mul, Nat.one_mul] at hl
    have htl : (offs.take cc).length = cc := by rw [List.length_take]; omega
    rw [htl] at hl1
    simp only [List.flatMap_cons, id] at e3
    have := List.append_inj e3 (by omega)
    obtain ⟨rfl, rfl⟩ := this
    have ih := readRows_of_flat b pos cc rows (offs.drop cc) (fun r hr' => hr r (by simp [hr']))
      (by rw [List.length_drop]; omega) e2
    simp only [List.length_cons, readRows, e1, ih]

/-! ### GPOS 4.1 / 6.1 -/

theorem covRead_words (gs : List Nat) (h : Cov.Valid gs) (P T : List Nat) (c : Bytes) :
    Cov.read ((wordsToBytes (P ++ (Cov.encodeW gs ++ T)) ++ c).drop (2 * P.length)) = .ok gs.zipIdx := by
  rw [drop_wordsToBytes_append', wordsToBytes_append, List.append_assoc]
  unfold Cov.read
  rw [bytesToWords_append _ (Cov.encodeW_lt gs h)]
  exact Cov.readW_encodeW_append gs h _

theorem flat_length (cc : Nat) : ∀ (rows : List (List Anchor)), (∀ row ∈ rows, row.length = cc) →
    (rows.flatMap id).length = rows.length * cc
  | [], _ => by simp
  | row :: rows, h => by
    simp only [List.flatMap_cons, id, List.length_append, List.length_cons, Nat.add_mul, Nat.one_mul,
      flat_length cc rows (fun r hr => h r (by simp [hr])), h row (by simp)]
    omega

theorem baseLen_eq (bases : List (List Anchor)) :
    baseLen bases = 2 + 2 * (bases.flatMap id).length + 2 * ((bases.flatMap id).flatMap aW).length := by
  have hrow : ∀ (row : List Anchor), (row.map fun a => 2 + (if isEmpty a then 0 else 6)).sum =
      2 * row.length + 2 * (row.flatMap aW).length := by
    intro row
    induction row with
    | nil => rfl
    | cons a as ih =>
      have := aW_length a
      simp only [List.map_cons, List.sum_cons, ih, List.length_cons, List.flatMap_cons, List.length_append]
      omega
  unfold baseLen
  induction bases with
  | nil => rfl
  | cons row rows ih =>
    simp only [List.map_cons, List.sum_cons, hrow, List.flatMap_cons, id, List.length_append,
      List.flatMap_append] at ih ⊢
    omega

theorem zipIdx_filter_lt (l : List Nat) : l.zipIdx.filter (fun p => decide (p.2 < l.length)) = l.zipIdx := by
  rw [List.filter_eq_self]
  intro p hp
  have := List.mem_zipIdx hp
  simp only [Nat.zero_add] at this
  simpa using this.2.1

/-- **GPOS 4.1 / 6.1 round trip**: whenever the encoder returns bytes, the reader gives both coverage
tables, the mark array and the base (mark2) array back, and `encodeLen` is the number of bytes written -/
theorem roundtrip41 (mcov bcov : List Nat) (marks : List Mark) (bases : List (List Anchor))
    (h1 : Cov.Valid mcov) (h2 : Cov.Valid bcov) (hm : marks.length = mcov.length)
    (hbl : bases.length = bcov.length) (hbn : bases.length < 65536)
    (hrows : ∀ row ∈ bases, row.length = countMarkClasses marks bases)
    (hcc : countMarkClasses marks bases < 65536)
    (hmk : ∀ m ∈ marks, MarkOk m) (hba : ∀ row ∈ bases, ∀ a ∈ row, AOk a) (b : Bytes)
    (henc : encode41 mcov bcov marks bases = .ok b) :
    read41 b = .ok ⟨mcov.zipIdx, bcov.zipIdx, marks, bases⟩ ∧
    encodeLen41 mcov bcov marks bases = .ok b.length := by
  unfold encode41 at henc
  simp only [Cov.encodeLen_eq mcov h1, Cov.encodeLen_eq bcov h2, ← Cov.encodeW_length mcov h1,
    ← Cov.encodeW_length bcov h2, Cov.encode_eq mcov h1, Cov.encode_eq bcov h2] at henc
  split at henc
  · simp at henc
  rename_i hno
  split at henc
  · simp at henc
  rename_i hfit
  generalize hcc' : countMarkClasses marks bases = cc at *
  have hfl := flat_length cc bases hrows
  cases hbo : baseOffsets (bases.flatMap id) (2 + 2 * bases.length * cc) with
  | err e => rw [hbo] at henc; simp at henc
  | panic s => rw [hbo] at henc; simp at henc
  | ok r =>
    obtain ⟨offs, o1⟩ := r
    rw [hbo] at henc
    simp only [Outcome.ok.injEq] at henc
    rw [filter_flatMap_eq] at henc
    -- the word lists
    have hMAeq : (w16 marks.length ::
        ((marks.zipIdx.flatMap fun q => [q.1.cls, w16 (2 + 4 * marks.length + 6 * q.2)]) ++
          marks.flatMap fun m => anchorWords m.anchor)) = markArrayWords marks := rfl
    rw [hMAeq] at henc
    have hMAl := markArrayWords_length marks
    have w1 : w16 12 = 12 := rfl
    have w2 : w16 (12 + 2 * (Cov.encodeW mcov).length) = 12 + 2 * (Cov.encodeW mcov).length := w16_of_lt (by omega)
    have w3 : w16 cc = cc := w16_of_lt hcc
    have w4 : w16 (12 + 2 * (Cov.encodeW mcov).length + 2 * (Cov.encodeW bcov).length) =
        12 + 2 * (Cov.encodeW mcov).length + 2 * (Cov.encodeW bcov).length := w16_of_lt (by omega)
    have w5 : w16 (12 + 2 * (Cov.encodeW mcov).length + 2 * (Cov.encodeW bcov).length + 2 + 10 * marks.length) =
        12 + 2 * (Cov.encodeW mcov).length + 2 * (Cov.encodeW bcov).length + 2 + 10 * marks.length :=
      w16_of_lt (by omega)
    have w6 : w16 bases.length = bases.length := w16_of_lt hbn
    rw [w1, w2, w3, w4, w5, w6] at henc
    generalize hmaOff : 12 + 2 * (Cov.encodeW mcov).length + 2 * (Cov.encodeW bcov).length = maOff at *
    generalize hH : [1, 12, 12 + 2 * (Cov.encodeW mcov).length, cc, maOff, maOff + 2 + 10 * marks.length] = H at *
    have hHl : H.length = 6 := by rw [← hH]; rfl
    have hHlt : ∀ w ∈ H, w < 65536 := by
      intro w hw
      rw [← hH] at hw
      simp only [List.mem_cons, List.not_mem_nil, or_false] at hw
      rcases hw with rfl | rfl | rfl | rfl | rfl | rfl <;> omega
    -- the base array
    have hflok : ∀ a ∈ bases.flatMap id, AOk a := by
      intro a ha
      rw [List.mem_flatMap] at ha
      obtain ⟨row, hr, ha⟩ := ha
      exact hba row hr a ha
    have hb : b = wordsToBytes (H ++ Cov.encodeW mcov ++ Cov.encodeW bcov ++ markArrayWords marks ++
        (bases.length :: (offs ++ (bases.flatMap id).flatMap aW))) ++ [] := by
      rw [← henc]; simp [wordsToBytes_append, List.append_assoc]
    generalize hflat : bases.flatMap id = flat at *
    have hbaOff : maOff + 2 + 10 * marks.length =
        2 * (H ++ Cov.encodeW mcov ++ Cov.encodeW bcov ++ markArrayWords marks).length := by
      simp only [List.length_append, hHl, hMAl]; omega
    have hmul : 2 * bases.length * cc = 2 * (bases.length * cc) := Nat.mul_assoc 2 bases.length cc
    obtain ⟨r1, r2, r3, r4⟩ := baseOffsets_spec [] (maOff + 2 + 10 * marks.length) flat
      (H ++ Cov.encodeW mcov ++ Cov.encodeW bcov ++ markArrayWords marks ++ (bases.length :: offs)) []
      (2 + 2 * bases.length * cc) offs o1 hflok hbo
      (by
        have : offs.length = flat.length := by
          -- (length of the offsets, without the bytes)
          have := baseOffsets_spec [] 0 flat (List.replicate (1 + bases.length * cc) 0) []
            (2 + 2 * bases.length * cc) offs o1 hflok hbo (by simp; omega) (by omega)
          exact this.2.1
        simp only [List.length_append, List.length_cons, hHl, hMAl, this, hfl]; omega)
      (by omega)
    have hshape : H ++ Cov.encodeW mcov ++ Cov.encodeW bcov ++ markArrayWords marks ++ (bases.length :: offs) ++
        (flat.flatMap aW ++ []) =
        H ++ Cov.encodeW mcov ++ Cov.encodeW bcov ++ markArrayWords marks ++
          (bases.length :: (offs ++ flat.flatMap aW)) := by simp [List.append_assoc]
    rw [hshape, ← hb] at r1
    have hBAlt : ∀ w ∈ bases.length :: (offs ++ flat.flatMap aW), w < 65536 := by
      intro w hw
      simp only [List.mem_cons, List.mem_append] at hw
      rcases hw with rfl | hw | hw
      · exact hbn
      · exact r3 w hw
      · rw [List.mem_flatMap] at hw
        obtain ⟨a, ha, hw⟩ := hw
        unfold aW at hw
        split at hw
        · simp at hw
        · exact anchorWords_lt a (hflok a ha) w hw
    have hMAlt := markArrayWords_lt marks hmk
    -- the four reads
    have hc1 : Cov.read (b.drop 12) = .ok mcov.zipIdx := by
      have := covRead_words mcov h1 H (Cov.encodeW bcov ++ markArrayWords marks ++
        (bases.length :: (offs ++ flat.flatMap aW))) []
      rw [hHl] at this
      rw [hb]
      simpa [List.append_assoc] using this
    have hc2 : Cov.read (b.drop (12 + 2 * (Cov.encodeW mcov).length)) = .ok bcov.zipIdx := by
      have := covRead_words bcov h2 (H ++ Cov.encodeW mcov) (markArrayWords marks ++
        (bases.length :: (offs ++ flat.flatMap aW))) []
      rw [List.length_append, hHl] at this
      rw [hb]
      have e : 2 * (6 + (Cov.encodeW mcov).length) = 12 + 2 * (Cov.encodeW mcov).length := by omega
      rw [e] at this
      simpa [List.append_assoc] using this
    have hma : readMarkArray b maOff marks.length = .ok marks := by
      have := markArray_spec [] marks (H ++ Cov.encodeW mcov ++ Cov.encodeW bcov)
        (bases.length :: (offs ++ flat.flatMap aW)) hmk (by omega) (by
          intro w hw
          rw [List.mem_append] at hw
          rcases hw with hw | hw
          · exact hMAlt w hw
          · exact hBAlt w hw)
      have e : 2 * (H ++ Cov.encodeW mcov ++ Cov.encodeW bcov).length = maOff := by
        simp only [List.length_append, hHl]; omega
      rw [e] at this
      rw [hb]
      simpa [List.append_assoc] using this
    have hbw : bytesToWords (b.drop (maOff + 2 + 10 * marks.length)) =
        bases.length :: (offs ++ flat.flatMap aW) := by
      rw [hb, hbaOff, drop_wordsToBytes_append', List.append_nil, bytesToWords_wordsToBytes _ hBAlt]
    have hhdr : bytesToWords b = 1 :: 12 :: (12 + 2 * (Cov.encodeW mcov).length) :: cc :: maOff ::
        (maOff + 2 + 10 * marks.length) :: (Cov.encodeW mcov ++ Cov.encodeW bcov ++ markArrayWords marks ++
        (bases.length :: (offs ++ flat.flatMap aW))) := by
      rw [hb, List.append_nil, bytesToWords_wordsToBytes _ (by
        intro w hw
        simp only [List.mem_append] at hw
        rcases hw with (((hw | hw) | hw) | hw) | hw
        · exact hHlt w hw
        · exact Cov.encodeW_lt mcov h1 w hw
        · exact Cov.encodeW_lt bcov h2 w hw
        · exact hMAlt w hw
        · exact hBAlt w hw), ← hH]
      simp [List.append_assoc]
    have hrows' := readRows_of_flat b (maOff + 2 + 10 * marks.length) cc bases offs hrows
      (by rw [r2, hfl]) (by rw [hflat]; exact r1)
    refine ⟨?_, ?_⟩
    · simp only [read41, hhdr, hc1, hc2]
      rw [show (mcov.zipIdx).length = marks.length by simp [hm], hma]
      simp only [hbw]
      have hlz : (bcov.zipIdx).length = bases.length := by simp [hbl]
      rw [hlz]
      simp only [Nat.lt_irrefl, if_false]
      rw [if_neg (by omega), if_neg (by simp only [List.length_append, r2, hfl]; omega)]
      have ht : (offs ++ flat.flatMap aW).take (bases.length * cc) = offs := by
        rw [← hfl, ← r2]; exact List.take_left
      rw [ht, hrows']
      simp only [pruneA]
      rw [if_neg (by simp [hm])]
      have : marks.take (mcov.zipIdx).length = marks := by
        rw [List.take_of_length_le (by simp [hm])]
      rw [this, hbl, zipIdx_filter_lt]
    · simp only [encodeLen41, Cov.encodeLen_eq mcov h1, Cov.encodeLen_eq bcov h2, ← Cov.encodeW_length mcov h1,
        ← Cov.encodeW_length bcov h2, baseLen_eq, hflat]
      rw [hb]
      simp only [List.length_append, length_wordsToBytes, List.length_cons, List.length_nil, hHl, hMAl, r2]
      congr 1
      omega

end SfntV.Otl.GposMark
