/-
C10 — helper lemmas about the subsetter state: the old→new map stays the inverse of the glyph
list, glyphs are only ever appended, composite closure.
-/
import SfntV.Model.Subset

namespace SfntV.Subset

/-- the map is the inverse of the list: `g ↦ i` iff `glyphs[i] = g` -/
def Inv (s : St) : Prop := ∀ (g i : Nat), s.newGid.lookup g = some i ↔ s.glyphs[i]? = some g

/-- glyphs are only appended -/
def Ext (s s' : St) : Prop := ∃ e, s'.glyphs = s.glyphs ++ e

theorem Ext.refl (s : St) : Ext s s := ⟨[], by simp⟩

theorem Ext.trans {a b c : St} (h1 : Ext a b) (h2 : Ext b c) : Ext a c := by
  obtain ⟨e1, h1⟩ := h1
  obtain ⟨e2, h2⟩ := h2
  exact ⟨e1 ++ e2, by rw [h2, h1, List.append_assoc]⟩

theorem Ext.get {s s' : St} (h : Ext s s') {i : Nat} {g : Gid}
    (hg : s.glyphs[i]? = some g) : s'.glyphs[i]? = some g := by
  obtain ⟨e, he⟩ := h
  rw [he]
  have hi : i < s.glyphs.length := by
    rcases Nat.lt_or_ge i s.glyphs.length with h | h
    · exact h
    · rw [List.getElem?_eq_none h] at hg; cases hg
  rw [List.getElem?_append_left hi]; exact hg

theorem Inv.has_iff {s : St} (h : Inv s) (g : Gid) : s.has g = true ↔ g ∈ s.glyphs := by
  unfold St.has
  rw [Option.isSome_iff_exists, List.mem_iff_getElem?]
  constructor
  · rintro ⟨i, hi⟩; exact ⟨i, (h g i).1 hi⟩
  · rintro ⟨i, hi⟩; exact ⟨i, (h g i).2 hi⟩

theorem Inv.lookup_none {s : St} (h : Inv s) (g : Gid) : s.newGid.lookup g = none ↔ g ∉ s.glyphs := by
  rw [← h.has_iff g]; unfold St.has
  cases s.newGid.lookup g <;> simp

theorem Inv.nodup {s : St} (h : Inv s) : s.glyphs.Nodup := by
  unfold List.Nodup
  rw [List.pairwise_iff_getElem]
  intro i j hi hj hij heq
  have h1 : s.glyphs[i]? = some s.glyphs[i] := List.getElem?_eq_getElem hi
  have h2 : s.glyphs[j]? = some s.glyphs[i] := by rw [heq]; exact List.getElem?_eq_getElem hj
  have a := (h _ _).2 h1
  have b := (h _ _).2 h2
  rw [a] at b; injection b with b; omega

theorem Inv.mono {s s' : St} (h : Inv s) (h' : Inv s') (e : Ext s s') {g i : Nat}
    (hg : s.newGid.lookup g = some i) : s'.newGid.lookup g = some i :=
  (h' g i).2 (Ext.get e ((h g i).1 hg))

theorem has_mono {s s' : St} (h : Inv s) (h' : Inv s') (e : Ext s s') {g : Nat}
    (hg : s.has g = true) : s'.has g = true := by
  rw [h'.has_iff]; rw [h.has_iff] at hg
  obtain ⟨x, hx⟩ := e; rw [hx]; exact List.mem_append_left _ hg

theorem push_inv {s : St} (h : Inv s) {g : Gid} (hg : s.newGid.lookup g = none) : Inv (s.push g) := by
  have hnot : ∀ i : Nat, s.glyphs[i]? ≠ some g := by
    intro i hi; have := (h g i).2 hi; rw [hg] at this; cases this
  intro x i
  simp only [St.push, List.lookup_cons]
  by_cases hx : x = g
  · subst hx
    simp only [BEq.rfl]
    constructor
    · intro hi; injection hi with hi; subst hi
      rw [List.getElem?_append_right (Nat.le_refl _)]; simp
    · intro hi
      rcases Nat.lt_trichotomy i s.glyphs.length with hlt | heq | hgt
      · rw [List.getElem?_append_left hlt] at hi; exact absurd hi (hnot i)
      · rw [heq]
      · rw [List.getElem?_eq_none (by simp; omega)] at hi; cases hi
  · have hb : (x == g) = false := by simpa using hx
    simp only [hb]
    constructor
    · intro hi
      have := (h x i).1 hi
      have hlt : i < s.glyphs.length := by
        rcases Nat.lt_or_ge i s.glyphs.length with h | h
        · exact h
        · rw [List.getElem?_eq_none h] at this; cases this
      rw [List.getElem?_append_left hlt]; exact this
    · intro hi
      rcases Nat.lt_trichotomy i s.glyphs.length with hlt | heq | hgt
      · rw [List.getElem?_append_left hlt] at hi; exact (h x i).2 hi
      · rw [heq, List.getElem?_append_right (Nat.le_refl _)] at hi
        simp at hi; exact absurd hi.symm hx
      · rw [List.getElem?_eq_none (by simp; omega)] at hi; cases hi

theorem push_ext (s : St) (g : Gid) : Ext s (s.push g) := ⟨[g], rfl⟩

theorem getNewGid_good {s : St} (h : Inv s) (g : Gid) :
    Inv (s.getNewGid g).1 ∧ Ext s (s.getNewGid g).1 ∧
      (s.getNewGid g).1.newGid.lookup g = some (s.getNewGid g).2 := by
  unfold St.getNewGid
  cases hl : s.newGid.lookup g with
  | some n => exact ⟨h, Ext.refl s, hl⟩
  | none =>
    refine ⟨push_inv h hl, push_ext s g, ?_⟩
    simp [St.push, List.lookup_cons]

/-! ### the initial map -/

theorem initMap_spec : ∀ (gs : List Gid) (k : Nat) (m : GMap), gs.Nodup → ∀ (x i : Nat),
    (initMap gs k m).lookup x = some i ↔
      ((∃ j : Nat, gs[j]? = some x ∧ i = k + j) ∨ (x ∉ gs ∧ m.lookup x = some i)) := by
  intro gs
  induction gs with
  | nil => intro k m _ x i; simp [initMap]
  | cons g gs ih =>
    intro k m hnd x i
    have hnd' := List.nodup_cons.1 hnd
    simp only [initMap]
    rw [ih (k + 1) ((g, k) :: m) hnd'.2 x i]
    by_cases hx : x = g
    · subst hx
      simp only [List.lookup_cons, BEq.rfl]
      constructor
      · rintro (⟨j, hj, _⟩ | ⟨_, hk⟩)
        · exact absurd (List.mem_of_getElem? hj) hnd'.1
        · injection hk with hk; exact Or.inl ⟨0, by simp, by omega⟩
      · rintro (⟨j, hj, hi⟩ | ⟨hn, _⟩)
        · cases j with
          | zero => exact Or.inr ⟨hnd'.1, by simp at hi; rw [hi]⟩
          | succ j => simp at hj; exact absurd (List.mem_of_getElem? hj) hnd'.1
        · exact absurd (List.mem_cons_self) hn
    · have hb : (x == g) = false := by simpa using hx
      simp only [List.lookup_cons, hb]
      constructor
      · rintro (⟨j, hj, hi⟩ | ⟨hn, hk⟩)
        · exact Or.inl ⟨j + 1, by simpa using hj, by omega⟩
        · exact Or.inr ⟨by simp [hx, hn], hk⟩
      · rintro (⟨j, hj, hi⟩ | ⟨hn, hk⟩)
        · cases j with
          | zero => simp at hj; exact absurd hj.symm hx
          | succ j => exact Or.inl ⟨j, by simpa using hj, by omega⟩
        · exact Or.inr ⟨fun hm => hn (List.mem_cons_of_mem _ hm), hk⟩

theorem init_inv {glyphs : List Gid} (h : glyphs.Nodup) : Inv (St.init glyphs) := by
  intro x i
  simp only [St.init]
  rw [initMap_spec glyphs 0 [] h x i]
  constructor
  · rintro (⟨j, hj, hi⟩ | ⟨_, hk⟩)
    · have : i = j := by omega
      subst this; exact hj
    · simp at hk
  · intro hi; exact Or.inl ⟨i, hi, by omega⟩

/-! ### SubsetGsub step 2 keeps the invariant and only appends -/

theorem addOuts_good : ∀ (outs : List Gid) (s : St) (added : List Gid), Inv s →
    Inv (addOuts s added outs).1 ∧ Ext s (addOuts s added outs).1 := by
  intro outs
  induction outs with
  | nil => intro s added h; exact ⟨h, Ext.refl s⟩
  | cons g gs ih =>
    intro s added h
    simp only [addOuts]
    split
    · exact ih s added h
    · have hg := getNewGid_good h g
      have := ih (s.getNewGid g).1 (g :: added) hg.1
      exact ⟨this.1, hg.2.1.trans this.2⟩

theorem sweep_good : ∀ (rules : List (Int × Rule)) (s : St) (added : List Gid), Inv s →
    Inv (sweep s added rules).1 ∧ Ext s (sweep s added rules).1 := by
  intro rules
  induction rules with
  | nil => intro s added h; exact ⟨h, Ext.refl s⟩
  | cons r rs ih =>
    intro s added h
    simp only [sweep]
    split
    · have ha := addOuts_good r.2.outs s added h
      have := ih (addOuts s added r.2.outs).1 (addOuts s added r.2.outs).2 ha.1
      exact ⟨this.1, ha.2.trans this.2⟩
    · exact ih s added h

theorem gsubLoop_good : ∀ (fuel : Nat) (s : St) (rules : List (Int × Rule)) (s' : St), Inv s →
    gsubLoop fuel s rules = some s' → Inv s' ∧ Ext s s' := by
  intro fuel
  induction fuel with
  | zero => intro s rules s' _ h; simp [gsubLoop] at h
  | succ fuel ih =>
    intro s rules s' h hr
    simp only [gsubLoop] at hr
    have hs := sweep_good rules s [] h
    split at hr
    · have := ih _ _ s' hs.1 hr
      exact ⟨this.1, hs.2.trans this.2⟩
    · injection hr with hr; subst hr; exact hs

/-! ### SubsetGsub step 3 keeps the invariant and only appends -/

theorem getMany_good : ∀ (gs : List Gid) (s : St), Inv s →
    Inv (getMany s gs).1 ∧ Ext s (getMany s gs).1 := by
  intro gs
  induction gs with
  | nil => intro s h; exact ⟨h, Ext.refl s⟩
  | cons g gs ih =>
    intro s h
    simp only [getMany]
    have hg := getNewGid_good h g
    have := ih (s.getNewGid g).1 hg.1
    exact ⟨this.1, hg.2.1.trans this.2⟩

theorem subSingle_good (d : Nat) : ∀ (cov : List Gid) (s : St), Inv s →
    Inv (subSingle s d cov).1 ∧ Ext s (subSingle s d cov).1 := by
  intro cov
  induction cov with
  | nil => intro s h; exact ⟨h, Ext.refl s⟩
  | cons g gs ih =>
    intro s h
    simp only [subSingle]
    split
    · exact ih s h
    · have hg := getNewGid_good h ((g + d) % 65536)
      have := ih _ hg.1
      exact ⟨this.1, hg.2.1.trans this.2⟩

theorem subLigs_good : ∀ (ls : List Lig) (s : St), Inv s →
    Inv (subLigs s ls).1 ∧ Ext s (subLigs s ls).1 := by
  intro ls
  induction ls with
  | nil => intro s h; exact ⟨h, Ext.refl s⟩
  | cons l ls ih =>
    intro s h
    simp only [subLigs]
    split
    · have hg := getNewGid_good h l.2
      have hm := getMany_good l.1 _ hg.1
      have := ih _ hm.1
      exact ⟨this.1, (hg.2.1.trans hm.2).trans this.2⟩
    · exact ih s h

theorem subEntries_good : ∀ (es : List (Gid × List Lig)) (s : St), Inv s →
    Inv (subEntries s es).1 ∧ Ext s (subEntries s es).1 := by
  intro es
  induction es with
  | nil => intro s h; exact ⟨h, Ext.refl s⟩
  | cons e es ih =>
    intro s h
    simp only [subEntries]
    split
    · exact ih s h
    · have hl := subLigs_good e.2 s h
      have := ih _ hl.1
      split
      · exact ⟨this.1, hl.2.trans this.2⟩
      · exact ⟨this.1, hl.2.trans this.2⟩

theorem subGsubSub_good (t : GsubSub) (s : St) (h : Inv s) :
    Inv (subGsubSub s t).1 ∧ Ext s (subGsubSub s t).1 := by
  cases t with
  | single cov d => exact subSingle_good d cov s h
  | ligs es => exact subEntries_good es s h

theorem subSubtables_good : ∀ (ts : List GsubSub) (s : St), Inv s →
    Inv (subSubtables s ts).1 ∧ Ext s (subSubtables s ts).1 := by
  intro ts
  induction ts with
  | nil => intro s h; exact ⟨h, Ext.refl s⟩
  | cons t ts ih =>
    intro s h
    simp only [subSubtables]
    have ht := subGsubSub_good t s h
    have := ih _ ht.1
    exact ⟨this.1, ht.2.trans this.2⟩

theorem subLookups_good : ∀ (ls : List (List GsubSub)) (s : St), Inv s →
    Inv (subLookups s ls).1 ∧ Ext s (subLookups s ls).1 := by
  intro ls
  induction ls with
  | nil => intro s h; exact ⟨h, Ext.refl s⟩
  | cons l ls ih =>
    intro s h
    simp only [subLookups]
    have ht := subSubtables_good l s h
    have := ih _ ht.1
    exact ⟨this.1, ht.2.trans this.2⟩

theorem subLookups_length : ∀ (ls : List (List GsubSub)) (s : St),
    (subLookups s ls).2.length = ls.length := by
  intro ls
  induction ls with
  | nil => intro s; rfl
  | cons l ls ih => intro s; simp only [subLookups, List.length_cons, ih]

theorem gsubClose_good {ro : List Rule → List Rule} {s s1 : St} {l : Layout GsubSub}
    (h : Inv s) (hr : gsubClose ro s l = some s1) : Inv s1 ∧ Ext s s1 :=
  gsubLoop_good _ _ _ _ h hr

theorem rebuildGsub_good (s : St) (h : Inv s) (g : Option (Layout GsubSub)) :
    Inv (rebuildGsub s g).1 ∧ Ext s (rebuildGsub s g).1 := by
  cases g with
  | none => exact ⟨h, Ext.refl s⟩
  | some l => exact subLookups_good l.lookups s h

/-! ### composite closure -/

theorem addComps_good : ∀ (cs : List Gid) (s : St) (todo : List Gid), Inv s →
    Inv (addComps s todo cs).1 ∧ Ext s (addComps s todo cs).1 := by
  intro cs
  induction cs with
  | nil => intro s todo h; exact ⟨h, Ext.refl s⟩
  | cons c cs ih =>
    intro s todo h
    simp only [addComps]
    split
    · exact ih s todo h
    · rename_i hc
      have hl : s.newGid.lookup c = none := by
        unfold St.has at hc; cases hx : s.newGid.lookup c <;> simp_all
      have := ih (s.push c) (todo ++ [c]) (push_inv h hl)
      exact ⟨this.1, (push_ext s c).trans this.2⟩

/-- what `addComps` guarantees: all listed components are present afterwards, `todo` only grows,
and every glyph that is new is put on `todo` -/
theorem addComps_spec : ∀ (cs : List Gid) (s : St) (todo : List Gid), Inv s →
    (∀ c ∈ cs, c ∈ (addComps s todo cs).1.glyphs) ∧
    (∀ t ∈ todo, t ∈ (addComps s todo cs).2) ∧
    (∀ g ∈ (addComps s todo cs).1.glyphs, g ∈ s.glyphs ∨ g ∈ (addComps s todo cs).2) ∧
    (∀ t ∈ (addComps s todo cs).2, t ∈ todo ∨ t ∈ (addComps s todo cs).1.glyphs) := by
  intro cs
  induction cs with
  | nil =>
    intro s todo _
    exact ⟨by simp, fun t ht => ht, fun g hg => Or.inl hg, fun t ht => Or.inl ht⟩
  | cons c cs ih =>
    intro s todo h
    simp only [addComps]
    split
    · rename_i hc
      have hi := ih s todo h
      have hg := addComps_good cs s todo h
      refine ⟨?_, hi.2.1, hi.2.2.1, hi.2.2.2⟩
      intro x hx
      rcases List.mem_cons.1 hx with rfl | hx
      · have := (h.has_iff x).1 hc
        obtain ⟨e, he⟩ := hg.2; rw [he]; exact List.mem_append_left _ this
      · exact hi.1 x hx
    · rename_i hc
      have hl : s.newGid.lookup c = none := by
        unfold St.has at hc; cases hx : s.newGid.lookup c <;> simp_all
      have hp := push_inv h hl
      have hi := ih (s.push c) (todo ++ [c]) hp
      have hg := addComps_good cs (s.push c) (todo ++ [c]) hp
      refine ⟨?_, ?_, ?_, ?_⟩
      · intro x hx
        rcases List.mem_cons.1 hx with rfl | hx
        · obtain ⟨e, he⟩ := hg.2; rw [he]; apply List.mem_append_left; simp [St.push]
        · exact hi.1 x hx
      · intro t ht; exact hi.2.1 t (List.mem_append_left _ ht)
      · intro g hg'
        rcases hi.2.2.1 g hg' with h1 | h1
        · simp only [St.push, List.mem_append, List.mem_singleton] at h1
          rcases h1 with h1 | rfl
          · exact Or.inl h1
          · exact Or.inr (hi.2.1 g (by simp))
        · exact Or.inr h1
      · intro t ht
        rcases hi.2.2.2 t ht with h1 | h1
        · rcases List.mem_append.1 h1 with h1 | h1
          · exact Or.inl h1
          · simp only [List.mem_singleton] at h1; subst h1
            right; obtain ⟨e, he⟩ := hg.2; rw [he]; apply List.mem_append_left; simp [St.push]
        · exact Or.inr h1

/-- invariant of the `todo` loop: glyphs that are not waiting have all their components present -/
def Done (f : Font) (s : St) (todo : List Gid) : Prop :=
  ∀ g ∈ s.glyphs, g ∉ todo → ∀ c ∈ (f.glyph g).comps, c ∈ s.glyphs

theorem closeGlyf_spec (f : Font) : ∀ (pops : List Gid) (s : St) (todo : List Gid) (s' : St),
    Inv s → Done f s todo → closeGlyf f pops s todo = some s' →
    Inv s' ∧ Ext s s' ∧ (∀ g ∈ s'.glyphs, ∀ c ∈ (f.glyph g).comps, c ∈ s'.glyphs) := by
  intro pops
  induction pops with
  | nil =>
    intro s todo s' h hd hr
    simp only [closeGlyf] at hr
    split at hr
    · rename_i he
      injection hr with hr; subst hr
      have : todo = [] := by simpa using he
      subst this
      exact ⟨h, Ext.refl _, fun g hg => hd g hg (by simp)⟩
    · cases hr
  | cons p ps ih =>
    intro s todo s' h hd hr
    simp only [closeGlyf] at hr
    split at hr
    · rename_i hp
      have hg := addComps_good (f.glyph p).comps s (todo.filter (· != p)) h
      have hs := addComps_spec (f.glyph p).comps s (todo.filter (· != p)) h
      have hd' : Done f (addComps s (todo.filter (· != p)) (f.glyph p).comps).1
          (addComps s (todo.filter (· != p)) (f.glyph p).comps).2 := by
        intro g hgm hnt c hc
        obtain ⟨e, he⟩ := hg.2
        rcases hs.2.2.1 g hgm with h1 | h1
        · by_cases hgp : g = p
          · subst hgp; exact hs.1 c hc
          · have : g ∉ todo := by
              intro hm
              exact hnt (hs.2.1 g (by simp [List.mem_filter, hm, hgp]))
            have := hd g h1 this c hc
            rw [he]; exact List.mem_append_left _ this
        · exact absurd h1 hnt
      have := ih _ _ s' hg.1 hd' hr
      exact ⟨this.1, hg.2.trans this.2.1, this.2.2⟩
    · cases hr

end SfntV.Subset
