/-
The subtable codecs of GSUB and GPOS for `InfoA.SubCodec`: one sum type per table, read with the real
dispatchers; the codec law `dec tp (enc s ++ tail) = ok (nf s)` follows from the round trips on exact
bytes and from "a reader only looks at a prefix" (Proofs/OtlMono.lean).
-/
import SfntV.Proofs.OtlInfoAdapter
import SfntV.Proofs.OtlMono
import SfntV.Proofs.OtlGsub8
import SfntV.Proofs.OtlContext
import SfntV.Proofs.OtlGposMark4
import SfntV.Proofs.OtlGpos22

namespace SfntV.Otl.InfoA
open SfntV SfntV.Otl

def outB : Outcome Bytes → Bytes
  | .ok b => b
  | _ => []

/-- a codec from an encoder, a prefix-only decoder and a normal form: the domain is "the round trip on
the exact bytes holds" -/
def mkCodec {σ : Type} (kind : σ → Nat) (encO : σ → Outcome Bytes) (dec : Nat → Bytes → Outcome σ) (nf : σ → σ)
    (hmono : ∀ tp b t r, dec tp b = .ok r → dec tp (b ++ t) = .ok r) : SubCodec σ where
  kind := kind
  enc := fun s => outB (encO s)
  dec := dec
  nf := nf
  ok := fun tp s => ∃ b, encO s = .ok b ∧ dec tp b = .ok (nf s)
  law := by
    intro tp s tail ⟨b, hb, hr⟩
    simp only [hb, outB]
    exact hmono tp b tail _ hr

/-! ### GSUB -/

/-- a GSUB subtable as the readers return it: lookup types 1-4, 8 (`g`) and 5, 6 (`c`) -/
inductive GsubSub where
  | g (s : Gsub.Sub)
  | c (s : Ctx.Sub)

/-- `readGsubSubtable` -/
def gsubDec (tp : Nat) (b : Bytes) : Outcome GsubSub :=
  if tp == 5 || tp == 6 then
    match Ctx.readSubtable tp b with
    | .ok s => .ok (.c s)
    | .err e => .err e
    | .panic s => .panic s
  else
    match Gsub.readSubtable tp b with
    | .ok s => .ok (.g s)
    | .err e => .err e
    | .panic s => .panic s

theorem gsubDec_mono (tp : Nat) (b t : Bytes) (r : GsubSub) (h : gsubDec tp b = .ok r) :
    gsubDec tp (b ++ t) = .ok r := by
  unfold gsubDec at h ⊢
  split at h
  · rename_i c
    rw [if_pos c]
    cases h1 : Ctx.readSubtable tp b with
    | ok s => rw [h1] at h; rw [Ctx.readSubtable_mono tp b t s h1]; exact h
    | err e => rw [h1] at h; simp at h
    | panic s => rw [h1] at h; simp at h
  · rename_i c
    rw [if_neg c]
    cases h1 : Gsub.readSubtable tp b with
    | ok s => rw [h1] at h; rw [Gsub.readSubtable_mono tp b t s h1]; exact h
    | err e => rw [h1] at h; simp at h
    | panic s => rw [h1] at h; simp at h

def fsts (cov : List (Nat × Nat)) : List Nat := cov.map (·.1)

/-- the class definition table of a class-based context, from the decoded entries -/
def ctxPart (k : List (Nat × Nat)) : Ctx.ClassPart := ⟨ClassDef.append k, ClassDef.appendLen k⟩

/-- the encoders, on the shapes the readers return -/
def gsubEnc : GsubSub → Outcome Bytes
  | .g (.s11 gs d) => Gsub.encode11 gs d
  | .g (.s12 cov subs) => Gsub.encode12 (fsts cov) subs
  | .g (.seq _ cov seqs) => Gsub.encodeSeq (fsts cov) seqs
  | .g (.s41 cov repl) => Gsub.encode41 (fsts cov) repl
  | .g (.s81 r) => Gsub.encode81 (fsts r.input) (r.back.map fsts) (r.look.map fsts) r.subs
  | .c (.c1 false cov sets) => Ctx.encode1 (fsts cov) sets
  | .c (.c1 true cov sets) => Ctx.encodeC1 (fsts cov) sets
  | .c (.c2 false cov [k] sets) => Ctx.encode2 (fsts cov) (ctxPart k) sets
  | .c (.c2 true cov [kb, ki, kl] sets) => Ctx.encodeC2 (fsts cov) (ctxPart kb) (ctxPart ki) (ctxPart kl) sets
  | .c (.c2 _ _ _ _) => .panic "malformed"
  | .c (.c3 _ input _ acts false) => Ctx.encode3 input acts
  | .c (.c3 back input look acts true) => Ctx.encodeC3 back input look acts

/-- 1: GSUB-specific subtable types, 0: contextual (`findTypeLoop` of `LookupList.encode`) -/
def gsubKind : GsubSub → Nat
  | .g _ => 1
  | .c _ => 0

/-- the normal form: the class tables of the class-based contexts as the reader returns them
(`ClassDef.nfTab`: without class-0 entries); everything else is what the reader returns anyway -/
def ctxNf : Ctx.Sub → Ctx.Sub
  | .c2 ch cov cls sets => .c2 ch cov (cls.map ClassDef.nfTab) sets
  | s => s

def gsubNf : GsubSub → GsubSub
  | .c s => .c (ctxNf s)
  | s => s

/-- the GSUB codec -/
def gsubCodec : SubCodec GsubSub := mkCodec gsubKind gsubEnc gsubDec gsubNf gsubDec_mono

theorem fsts_zipIdx (l : List Nat) : fsts l.zipIdx = l := Ctx.map_fst_zipIdx l 0

theorem head_words (w : Nat) (hw : w < 65536) (ws : List Nat) (c : Bytes) :
    bytesToWords (wordsToBytes (w :: ws) ++ c) = w :: bytesToWords (wordsToBytes ws ++ c) := by
  rw [wordsToBytes_cons, List.append_assoc, bytesToWords_be16 w hw]

/-! the subtables of the domain of the per-subtable theorems are in the domain of the codec -/

theorem gsub_ok_11 (gs : List Nat) (h : Cov.Valid gs) (d : Nat) (hd : d < 65536) :
    gsubCodec.ok 1 (.g (.s11 gs d)) := by
  obtain ⟨b, h1, h2, _⟩ := Gsub.roundtrip11 gs h d hd
  exact ⟨b, h1, by simp [gsubDec, h2, gsubNf, ctxNf]⟩

theorem gsub_ok_12 (rev subs : List Nat) (h : Cov.Valid rev) (hl : subs.length = rev.length)
    (hs : ∀ x ∈ subs, x < 65536) (hfit : 6 + 2 * subs.length ≤ 0xFFFF) :
    gsubCodec.ok 1 (.g (.s12 rev.zipIdx subs)) := by
  obtain ⟨b, h1, h2, _⟩ := Gsub.roundtrip12 rev subs h hl hs hfit
  exact ⟨b, by simp [gsubEnc, fsts_zipIdx, h1], by simp [gsubDec, h2, gsubNf, ctxNf]⟩

theorem gsub_ok_seq (tp : Nat) (htp : tp = 2 ∨ tp = 3) (rev : List Nat) (seqs : List (List Nat))
    (h : Cov.Valid rev) (hl : seqs.length = rev.length) (hs : ∀ r ∈ seqs, ∀ x ∈ r, x < 65536)
    (hfit : Gsub.seqTotal seqs ≤ 0xFFFF) : gsubCodec.ok tp (.g (.seq tp rev.zipIdx seqs)) := by
  obtain ⟨b, h1, h2, _⟩ := Gsub.roundtripSeq tp htp rev seqs h hl hs hfit
  refine ⟨b, by simp [gsubEnc, fsts_zipIdx, h1], ?_⟩
  rcases htp with rfl | rfl <;> simp [gsubDec, h2, gsubNf, ctxNf]

theorem gsub_ok_41 (rev : List Nat) (repl : List (List Gsub.Lig)) (h : Cov.Valid rev)
    (hl : repl.length = rev.length) (hs : ∀ s ∈ repl, ∀ l ∈ s, Gsub.LigOk l)
    (hfit : Gsub.lig41Total repl ≤ 0xFFFF) : gsubCodec.ok 4 (.g (.s41 rev.zipIdx repl)) := by
  obtain ⟨b, h1, h2, _⟩ := Gsub.roundtrip41 rev repl h hl hs hfit
  exact ⟨b, by simp [gsubEnc, fsts_zipIdx, h1], by simp [gsubDec, h2, gsubNf, ctxNf]⟩

theorem map_fsts_zipIdx (ls : List (List Nat)) : (ls.map List.zipIdx).map fsts = ls := by
  induction ls with
  | nil => rfl
  | cons l ls ih => simp [fsts_zipIdx, ih]

theorem gsub_ok_81 (input : List Nat) (back look : List (List Nat)) (subs : List Nat)
    (hi : Cov.Valid input) (hbk : ∀ c ∈ back, Cov.Valid c) (hlk : ∀ c ∈ look, Cov.Valid c)
    (hs : subs.length = input.length) (hsl : ∀ x ∈ subs, x < 65536) (b : Bytes)
    (henc : Gsub.encode81 input back look subs = .ok b) :
    gsubCodec.ok 8 (.g (.s81 ⟨input.zipIdx, back.map List.zipIdx, look.map List.zipIdx, subs⟩)) := by
  obtain ⟨h2, _⟩ := Gsub.roundtrip81 input back look subs hi hbk hlk hs hsl b henc
  refine ⟨b, ?_, by simp [gsubDec, h2, gsubNf, ctxNf]⟩
  show Gsub.encode81 (fsts input.zipIdx) ((back.map List.zipIdx).map fsts) ((look.map List.zipIdx).map fsts) subs = .ok b
  rw [map_fsts_zipIdx, map_fsts_zipIdx, fsts_zipIdx]
  exact henc

/-! ### the format word of the contextual encoders (the dispatcher looks at it) -/

theorem first_word (w : Nat) (hw : w < 65536) (ws : List Nat) (c b : Bytes)
    (h : wordsToBytes (w :: ws) ++ c = b) : ∃ r, bytesToWords b = w :: r := by
  rw [← h]; exact ⟨_, head_words w hw ws c⟩

theorem encode1_fmt (rev : List Nat) (sets : List (Option (List Ctx.Rule))) (b : Bytes)
    (henc : Ctx.encode1 rev sets = .ok b) : ∃ r, bytesToWords b = 1 :: r := by
  unfold Ctx.encode1 at henc
  try (simp only [] at henc)
  repeat' (split at henc)
  all_goals (first | (simp at henc; done) | skip)
  all_goals (try (repeat' (split at henc)))
  all_goals (first | (simp at henc; done) | skip)
  all_goals (try (repeat' (split at henc)))
  all_goals (first | (simp at henc; done) | skip)
  all_goals (simp only [Outcome.ok.injEq, List.cons_append, List.nil_append, List.append_assoc] at henc)
  all_goals (exact first_word 1 (by decide) _ _ b henc)

theorem encode2_fmt (rev : List Nat) (cd : Ctx.ClassPart) (sets : List (Option (List Ctx.Rule))) (b : Bytes)
    (henc : Ctx.encode2 rev cd sets = .ok b) : ∃ r, bytesToWords b = 2 :: r := by
  unfold Ctx.encode2 at henc
  try (simp only [] at henc)
  repeat' (split at henc)
  all_goals (first | (simp at henc; done) | skip)
  all_goals (try (repeat' (split at henc)))
  all_goals (first | (simp at henc; done) | skip)
  all_goals (try (repeat' (split at henc)))
  all_goals (first | (simp at henc; done) | skip)
  all_goals (simp only [Outcome.ok.injEq, List.cons_append, List.nil_append, List.append_assoc] at henc)
  all_goals (exact first_word 2 (by decide) _ _ b henc)

theorem encode3_fmt (covs : List (List Nat)) (acts : List Ctx.Action) (b : Bytes)
    (henc : Ctx.encode3 covs acts = .ok b) : ∃ r, bytesToWords b = 3 :: r := by
  unfold Ctx.encode3 at henc
  try (simp only [] at henc)
  repeat' (split at henc)
  all_goals (first | (simp at henc; done) | skip)
  all_goals (try (repeat' (split at henc)))
  all_goals (first | (simp at henc; done) | skip)
  all_goals (try (repeat' (split at henc)))
  all_goals (first | (simp at henc; done) | skip)
  all_goals (simp only [Outcome.ok.injEq, List.cons_append, List.nil_append, List.append_assoc] at henc)
  all_goals (exact first_word 3 (by decide) _ _ b henc)

theorem encodeC1_fmt (rev : List Nat) (sets : List (Option (List Ctx.Rule))) (b : Bytes)
    (henc : Ctx.encodeC1 rev sets = .ok b) : ∃ r, bytesToWords b = 1 :: r := by
  unfold Ctx.encodeC1 at henc
  try (simp only [] at henc)
  repeat' (split at henc)
  all_goals (first | (simp at henc; done) | skip)
  all_goals (try (repeat' (split at henc)))
  all_goals (first | (simp at henc; done) | skip)
  all_goals (try (repeat' (split at henc)))
  all_goals (first | (simp at henc; done) | skip)
  all_goals (simp only [Outcome.ok.injEq, List.cons_append, List.nil_append, List.append_assoc] at henc)
  all_goals (exact first_word 1 (by decide) _ _ b henc)

theorem encodeC2_fmt (rev : List Nat) (cb ci cl : Ctx.ClassPart) (sets : List (Option (List Ctx.Rule))) (b : Bytes)
    (henc : Ctx.encodeC2 rev cb ci cl sets = .ok b) : ∃ r, bytesToWords b = 2 :: r := by
  unfold Ctx.encodeC2 at henc
  try (simp only [] at henc)
  repeat' (split at henc)
  all_goals (first | (simp at henc; done) | skip)
  all_goals (try (repeat' (split at henc)))
  all_goals (first | (simp at henc; done) | skip)
  all_goals (try (repeat' (split at henc)))
  all_goals (first | (simp at henc; done) | skip)
  all_goals (simp only [Outcome.ok.injEq, List.cons_append, List.nil_append, List.append_assoc] at henc)
  all_goals (exact first_word 2 (by decide) _ _ b henc)

theorem encodeC3_fmt (back input look : List (List Nat)) (acts : List Ctx.Action) (b : Bytes)
    (henc : Ctx.encodeC3 back input look acts = .ok b) : ∃ r, bytesToWords b = 3 :: r := by
  unfold Ctx.encodeC3 at henc
  try (simp only [] at henc)
  repeat' (split at henc)
  all_goals (first | (simp at henc; done) | skip)
  all_goals (try (repeat' (split at henc)))
  all_goals (first | (simp at henc; done) | skip)
  all_goals (try (repeat' (split at henc)))
  all_goals (first | (simp at henc; done) | skip)
  all_goals (simp only [Outcome.ok.injEq, List.cons_append, List.nil_append, List.append_assoc] at henc)
  all_goals (exact first_word 3 (by decide) _ _ b henc)


theorem ctx_dispatch (tp fmt : Nat) (b : Bytes) (r : List Nat) (hw : bytesToWords b = fmt :: r) :
    Ctx.readSubtable tp b =
      (if tp == 5 && fmt == 1 then Ctx.read1 b
       else if tp == 5 && fmt == 2 then Ctx.read2 b
       else if tp == 5 && fmt == 3 then Ctx.read3 b
       else if tp == 6 && fmt == 1 then Ctx.readC1 b
       else if tp == 6 && fmt == 2 then Ctx.readC2 b
       else if tp == 6 && fmt == 3 then Ctx.readC3 b
       else .err eInvalid) := by
  unfold Ctx.readSubtable
  rw [hw]

theorem gsub_ok_c1 (rev : List Nat) (sets : List (Option (List Ctx.Rule))) (h : Cov.Valid rev)
    (hl : sets.length = rev.length)
    (hok : ∀ s ∈ sets, ∀ rules, s = some rules → ∀ r ∈ rules, Ctx.ROk1 r) (b : Bytes)
    (henc : Ctx.encode1 rev sets = .ok b) : gsubCodec.ok 5 (.c (.c1 false rev.zipIdx sets)) := by
  obtain ⟨h2, _⟩ := Ctx.roundtrip1 rev sets h hl hok b henc
  obtain ⟨r, hw⟩ := encode1_fmt rev sets b henc
  refine ⟨b, by simp [gsubEnc, fsts_zipIdx, henc], ?_⟩
  simp [gsubDec, ctx_dispatch 5 1 b r hw, h2, gsubNf, ctxNf]

theorem gsub_ok_c3 (covs : List (List Nat)) (actions : List Ctx.Action) (hv : ∀ c ∈ covs, Cov.Valid c)
    (hne : covs ≠ []) (ha : ∀ a ∈ actions, Ctx.ActOk a) (b : Bytes)
    (henc : Ctx.encode3 covs actions = .ok b) : gsubCodec.ok 5 (.c (.c3 [] covs [] actions false)) := by
  obtain ⟨h2, _⟩ := Ctx.roundtrip3 covs actions hv hne ha b henc
  obtain ⟨r, hw⟩ := encode3_fmt covs actions b henc
  refine ⟨b, by simp [gsubEnc, henc], ?_⟩
  simp [gsubDec, ctx_dispatch 5 3 b r hw, h2, gsubNf, ctxNf]

theorem gsub_ok_C1 (rev : List Nat) (sets : List (Option (List Ctx.Rule))) (h : Cov.Valid rev)
    (hl : sets.length = rev.length) (hn : 6 + 2 * sets.length ≤ 65535)
    (hok : ∀ s ∈ sets, ∀ rules, s = some rules → ∀ r ∈ rules, Ctx.ROkC r) (b : Bytes)
    (henc : Ctx.encodeC1 rev sets = .ok b) : gsubCodec.ok 6 (.c (.c1 true rev.zipIdx sets)) := by
  obtain ⟨h2, _⟩ := Ctx.roundtripC1 rev sets h hl hn hok b henc
  obtain ⟨r, hw⟩ := encodeC1_fmt rev sets b henc
  refine ⟨b, by simp [gsubEnc, fsts_zipIdx, henc], ?_⟩
  simp [gsubDec, ctx_dispatch 6 1 b r hw, h2, gsubNf, ctxNf]

theorem gsub_ok_C3 (back input look : List (List Nat)) (actions : List Ctx.Action)
    (hvb : ∀ c ∈ back, Cov.Valid c) (hvi : ∀ c ∈ input, Cov.Valid c) (hvl : ∀ c ∈ look, Cov.Valid c)
    (hne : input ≠ []) (ha : ∀ a ∈ actions, Ctx.ActOk a) (b : Bytes)
    (henc : Ctx.encodeC3 back input look actions = .ok b) :
    gsubCodec.ok 6 (.c (.c3 back input look actions true)) := by
  obtain ⟨h2, _⟩ := Ctx.roundtripC3 back input look actions hvb hvi hvl hne ha b henc
  obtain ⟨r, hw⟩ := encodeC3_fmt back input look actions b henc
  refine ⟨b, by simp [gsubEnc, henc], ?_⟩
  simp [gsubDec, ctx_dispatch 6 3 b r hw, h2, gsubNf, ctxNf]

/-- what `Append`/`AppendLen` give for a class table of the domain, and what the reader makes of it -/
theorem ctx_partGood (m : ClassDef.Tab) (hm : Gdef.ClassGood m) (B : Bytes) (hB : ClassDef.append m = .ok B) :
    Ctx.PartGood (ctxPart m) B (ClassDef.nfTab m) := by
  obtain ⟨ws, rfl, hlt, hr, _⟩ := Gdef.classPart_nf m hm B hB
  have hl := (Gdef.classPart_spec m hm _ hB).1
  refine ⟨hB, hl.symm, ?_⟩
  intro tail
  unfold ClassDef.read
  rw [bytesToWords_append _ hlt]
  exact ClassDef.readW_append_of_ok _ _ _ hr

theorem ctx_partGoodW (m : ClassDef.Tab) (hm : Gdef.ClassGood m) (B : Bytes) (hB : ClassDef.append m = .ok B) :
    ∃ ws, Ctx.PartGoodW (ctxPart m) ws (ClassDef.nfTab m) := by
  obtain ⟨ws, rfl, hlt, hr, _⟩ := Gdef.classPart_nf m hm B hB
  have hl := (Gdef.classPart_spec m hm _ hB).1
  refine ⟨ws, hB, ?_, hlt, fun tail => ClassDef.readW_append_of_ok _ _ _ hr⟩
  show ClassDef.appendLen m = 2 * ws.length
  rw [← hl, length_wordsToBytes]

/-- class tables never make the encoders fail: `Append` of a table of the domain returns bytes -/
theorem append_ok_of_encode2 (rev : List Nat) (m : ClassDef.Tab) (sets : List (Option (List Ctx.Rule))) (b : Bytes)
    (henc : Ctx.encode2 rev (ctxPart m) sets = .ok b) : ∃ B, ClassDef.append m = .ok B := by
  unfold Ctx.encode2 at henc
  cases h : ClassDef.append m with
  | ok B => exact ⟨B, rfl⟩
  | err e =>
    exfalso
    simp only [ctxPart, h] at henc
    repeat' (split at henc)
    all_goals simp_all
  | panic e =>
    exfalso
    simp only [ctxPart, h] at henc
    repeat' (split at henc)
    all_goals simp_all

/-- SeqContext2 with ANY class table of the domain (16-bit glyph ids and classes): the value read back
carries the class table in its normal form -/
theorem gsub_ok_c2 (rev : List Nat) (m : ClassDef.Tab) (hm : Gdef.ClassGood m)
    (sets : List (Option (List Ctx.Rule))) (h : Cov.Valid rev) (hcls : sets.length ≤ Ctx.numClasses (ClassDef.nfTab m))
    (hok : ∀ s ∈ sets, ∀ rules, s = some rules → ∀ r ∈ rules, Ctx.ROk1 r) (b : Bytes)
    (henc : Ctx.encode2 rev (ctxPart m) sets = .ok b) : gsubCodec.ok 5 (.c (.c2 false rev.zipIdx [m] sets)) := by
  obtain ⟨D, hD⟩ := append_ok_of_encode2 rev m sets b henc
  obtain ⟨h2, _⟩ := Ctx.roundtrip2 rev (ctxPart m) D _ (ctx_partGood m hm D hD) sets h hcls hok b henc
  obtain ⟨r, hw⟩ := encode2_fmt rev (ctxPart m) sets b henc
  refine ⟨b, by simp [gsubEnc, fsts_zipIdx, henc], ?_⟩
  simp [gsubDec, ctx_dispatch 5 2 b r hw, h2, gsubNf, ctxNf]

/-- ChainedSeqContext2 with ANY three class tables of the domain.  `hal`: re-encoding the normal forms
needs no more room than the tables written (the reader recomputes the encoder's positions from the
decoded tables) -/
theorem gsub_ok_C2 (rev : List Nat) (mb mi ml : ClassDef.Tab) (hb : Gdef.ClassGood mb) (hi : Gdef.ClassGood mi)
    (hl : Gdef.ClassGood ml) (Bb Bi Bl : Bytes) (eb : ClassDef.append mb = .ok Bb) (ei : ClassDef.append mi = .ok Bi)
    (el : ClassDef.append ml = .ok Bl) (sets : List (Option (List Ctx.Rule))) (h : Cov.Valid rev)
    (hcls : sets.length ≤ Ctx.numClasses (ClassDef.nfTab mi))
    (hal : Ctx.appendLenOf (ClassDef.nfTab mb) + Ctx.appendLenOf (ClassDef.nfTab mi) +
      Ctx.appendLenOf (ClassDef.nfTab ml) ≤ (ctxPart mb).len + (ctxPart mi).len + (ctxPart ml).len)
    (hn : 12 + 2 * sets.length + 2 * (Cov.encodeW rev).length + (ctxPart mb).len + (ctxPart mi).len +
      (ctxPart ml).len ≤ 65535)
    (hok : ∀ s ∈ sets, ∀ rules, s = some rules → ∀ r ∈ rules, Ctx.ROkC r) (b : Bytes)
    (henc : Ctx.encodeC2 rev (ctxPart mb) (ctxPart mi) (ctxPart ml) sets = .ok b) :
    gsubCodec.ok 6 (.c (.c2 true rev.zipIdx [mb, mi, ml] sets)) := by
  obtain ⟨Wb, gb⟩ := ctx_partGoodW mb hb Bb eb
  obtain ⟨Wi, gi⟩ := ctx_partGoodW mi hi Bi ei
  obtain ⟨Wl, gl⟩ := ctx_partGoodW ml hl Bl el
  obtain ⟨h2, _⟩ := Ctx.roundtripC2 rev (ctxPart mb) (ctxPart mi) (ctxPart ml) Wb Wi Wl _ _ _ gb gi gl sets h
    hcls hal hn hok b henc
  obtain ⟨r, hw⟩ := encodeC2_fmt rev (ctxPart mb) (ctxPart mi) (ctxPart ml) sets b henc
  refine ⟨b, by simp [gsubEnc, fsts_zipIdx, henc], ?_⟩
  simp [gsubDec, ctx_dispatch 6 2 b r hw, h2, gsubNf, ctxNf]

/-! ### GPOS -/

theorem encode21_fmt (firsts : List Nat) (sets : List Gpos.PairSet) (b : Bytes)
    (henc : Gpos.encode21 firsts sets = .ok b) : ∃ r, bytesToWords b = 1 :: r := by
  unfold Gpos.encode21 at henc
  try (simp only [] at henc)
  repeat' (split at henc)
  all_goals (first | (simp at henc; done) | skip)
  all_goals (try (repeat' (split at henc)))
  all_goals (first | (simp at henc; done) | skip)
  all_goals (try (repeat' (split at henc)))
  all_goals (first | (simp at henc; done) | skip)
  all_goals (simp only [Outcome.ok.injEq, List.cons_append, List.nil_append, List.append_assoc] at henc)
  all_goals (exact first_word 1 (by decide) _ _ b henc)

theorem encode22_fmt (cov : List Nat) (c1 c2 : GposMark.ClassPart) (rows : List GposMark.Row) (b : Bytes)
    (henc : GposMark.encode22 cov c1 c2 rows = .ok b) : ∃ r, bytesToWords b = 2 :: r := by
  unfold GposMark.encode22 at henc
  try (simp only [] at henc)
  repeat' (split at henc)
  all_goals (first | (simp at henc; done) | skip)
  all_goals (try (repeat' (split at henc)))
  all_goals (first | (simp at henc; done) | skip)
  all_goals (try (repeat' (split at henc)))
  all_goals (first | (simp at henc; done) | skip)
  all_goals (simp only [Outcome.ok.injEq, List.cons_append, List.nil_append, List.append_assoc] at henc)
  all_goals (exact first_word 2 (by decide) _ _ b henc)

theorem encode31_fmt (rev : List Nat) (recs : List GposMark.EntryExit) (b : Bytes)
    (henc : GposMark.encode31 rev recs = .ok b) : ∃ r, bytesToWords b = 1 :: r := by
  unfold GposMark.encode31 at henc
  try (simp only [] at henc)
  repeat' (split at henc)
  all_goals (first | (simp at henc; done) | skip)
  all_goals (try (repeat' (split at henc)))
  all_goals (first | (simp at henc; done) | skip)
  all_goals (try (repeat' (split at henc)))
  all_goals (first | (simp at henc; done) | skip)
  all_goals (simp only [Outcome.ok.injEq, List.cons_append, List.nil_append, List.append_assoc] at henc)
  all_goals (exact first_word 1 (by decide) _ _ b henc)

theorem encode41_fmt (mcov bcov : List Nat) (marks : List GposMark.Mark) (bases : List (List GposMark.Anchor)) (b : Bytes)
    (henc : GposMark.encode41 mcov bcov marks bases = .ok b) : ∃ r, bytesToWords b = 1 :: r := by
  unfold GposMark.encode41 at henc
  try (simp only [] at henc)
  repeat' (split at henc)
  all_goals (first | (simp at henc; done) | skip)
  all_goals (try (repeat' (split at henc)))
  all_goals (first | (simp at henc; done) | skip)
  all_goals (try (repeat' (split at henc)))
  all_goals (first | (simp at henc; done) | skip)
  all_goals (simp only [Outcome.ok.injEq, List.cons_append, List.nil_append, List.append_assoc] at henc)
  all_goals (exact first_word 1 (by decide) _ _ b henc)


/-- a GPOS subtable as the readers return it -/
inductive GposSub where
  | p (s : Gpos.Sub)                                             -- 1.1, 1.2, 2.1
  | p22 (r : GposMark.Read22)                                    -- 2.2
  | p31 (cov : List (Nat × Nat)) (recs : List GposMark.EntryExit)  -- 3.1
  | mb (tp : Nat) (r : GposMark.MarkBase)                        -- 4.1 (tp = 4), 6.1 (tp = 6)
  | c (s : Ctx.Sub)                                              -- types 7, 8

/-- `readGposSubtable` (contexts: lookup types 7 and 8 are the readers of GSUB types 5 and 6) -/
def gposDec (tp : Nat) (b : Bytes) : Outcome GposSub :=
  match bytesToWords b with
  | [] => .err eIO
  | fmt :: _ =>
    if tp == 1 || (tp == 2 && fmt != 2) then
      match Gpos.readSubtable tp b with
      | .ok s => .ok (.p s)
      | .err e => .err e
      | .panic s => .panic s
    else if (tp == 4 || tp == 6) && fmt == 1 then
      match GposMark.read41 b with
      | .ok r => .ok (.mb tp r)
      | .err e => .err e
      | .panic s => .panic s
    else if tp == 3 && fmt == 1 then
      match GposMark.read31 b with
      | .ok r => .ok (.p31 r.1 r.2)
      | .err e => .err e
      | .panic s => .panic s
    else if tp == 2 && fmt == 2 then
      match GposMark.read22 b with
      | .ok r => .ok (.p22 r)
      | .err e => .err e
      | .panic s => .panic s
    else if tp == 7 || tp == 8 then
      match Ctx.readSubtable (tp - 2) b with
      | .ok s => .ok (.c s)
      | .err e => .err e
      | .panic s => .panic s
    else .err eInvalid

theorem gposDec_mono (tp : Nat) (b t : Bytes) (r : GposSub) (h : gposDec tp b = .ok r) :
    gposDec tp (b ++ t) = .ok r := by
  obtain ⟨e, he⟩ := bw_append b t
  unfold gposDec at h ⊢
  rw [he]
  generalize hws : bytesToWords b = ws at h
  match ws, h with
  | [], h => simp at h
  | fmt :: rest, h =>
    simp only [List.cons_append] at h ⊢
    split at h
    · rename_i c1
      rw [if_pos c1]
      cases h1 : Gpos.readSubtable tp b with
      | ok x => rw [h1] at h; rw [Gpos.readSubtable_mono tp b t x h1]; exact h
      | err e' => rw [h1] at h; simp at h
      | panic s => rw [h1] at h; simp at h
    · rename_i c1
      rw [if_neg c1]
      split at h
      · rename_i c2
        rw [if_pos c2]
        cases h1 : GposMark.read41 b with
        | ok x => rw [h1] at h; rw [GposMark.read41_mono b t x h1]; exact h
        | err e' => rw [h1] at h; simp at h
        | panic s => rw [h1] at h; simp at h
      · rename_i c2
        rw [if_neg c2]
        split at h
        · rename_i c3
          rw [if_pos c3]
          cases h1 : GposMark.read31 b with
          | ok x => rw [h1] at h; rw [GposMark.read31_mono b t x h1]; exact h
          | err e' => rw [h1] at h; simp at h
          | panic s => rw [h1] at h; simp at h
        · rename_i c3
          rw [if_neg c3]
          split at h
          · rename_i c4
            rw [if_pos c4]
            cases h1 : GposMark.read22 b with
            | ok x => rw [h1] at h; rw [GposMark.read22_mono b t x h1]; exact h
            | err e' => rw [h1] at h; simp at h
            | panic s => rw [h1] at h; simp at h
          · rename_i c4
            rw [if_neg c4]
            split at h
            · rename_i c5
              rw [if_pos c5]
              cases h1 : Ctx.readSubtable (tp - 2) b with
              | ok x => rw [h1] at h; rw [Ctx.readSubtable_mono _ b t x h1]; exact h
              | err e' => rw [h1] at h; simp at h
              | panic s => rw [h1] at h; simp at h
            · simp at h

def gposPart (k : List (Nat × Nat)) : GposMark.ClassPart := ⟨ClassDef.append k, ClassDef.appendLen k⟩

def gposEnc : GposSub → Outcome Bytes
  | .p (.s11 cov vr) => Gpos.encode11 (fsts cov) vr
  | .p (.s12 cov vrs) => Gpos.encode12 (fsts cov) vrs
  | .p (.s21 cov sets) => Gpos.encode21 (fsts cov) sets
  | .p22 r => GposMark.encode22 r.cov (gposPart r.class1) (gposPart r.class2) r.rows
  | .p31 cov recs => GposMark.encode31 (fsts cov) recs
  | .mb _ r => GposMark.encode41 (fsts r.mcov) (fsts r.bcov) r.marks r.bases
  | .c (.c1 false cov sets) => Ctx.encode1 (fsts cov) sets
  | .c (.c1 true cov sets) => Ctx.encodeC1 (fsts cov) sets
  | .c (.c2 false cov [k] sets) => Ctx.encode2 (fsts cov) (ctxPart k) sets
  | .c (.c2 true cov [kb, ki, kl] sets) => Ctx.encodeC2 (fsts cov) (ctxPart kb) (ctxPart ki) (ctxPart kl) sets
  | .c (.c2 _ _ _ _) => .panic "malformed"
  | .c (.c3 _ input _ acts false) => Ctx.encode3 input acts
  | .c (.c3 back input look acts true) => Ctx.encodeC3 back input look acts

/-- the readers' normal form of value records: exactly the fields of the formats chosen for the subtable -/
def gposNf : GposSub → GposSub
  | .p (.s12 cov vrs) => .p (.s12 cov (vrs.map fun vr => Gpos.masked vr (Gpos.orFormat vrs)))
  | .p (.s21 cov sets) => .p (.s21 cov (sets.map (Gpos.normSet (Gpos.orFormat1 sets) (Gpos.orFormat2 sets))))
  | .p22 r => .p22 ⟨r.cov, ClassDef.nfTab r.class1, ClassDef.nfTab r.class2,
      r.rows.map fun row => row.map (GposMark.maskPair (GposMark.fmt1 r.rows) (GposMark.fmt2 r.rows))⟩
  | .c s => .c (ctxNf s)
  | s => s

def gposKind : GposSub → Nat
  | .c _ => 0
  | _ => 2

def gposCodec : SubCodec GposSub := mkCodec gposKind gposEnc gposDec gposNf gposDec_mono

theorem gpos_dispatch (tp fmt : Nat) (b : Bytes) (r : List Nat) (hw : bytesToWords b = fmt :: r) :
    gposDec tp b =
      (if tp == 1 || (tp == 2 && fmt != 2) then
        match Gpos.readSubtable tp b with
        | .ok s => .ok (.p s)
        | .err e => .err e
        | .panic s => .panic s
      else if (tp == 4 || tp == 6) && fmt == 1 then
        match GposMark.read41 b with
        | .ok r => .ok (.mb tp r)
        | .err e => .err e
        | .panic s => .panic s
      else if tp == 3 && fmt == 1 then
        match GposMark.read31 b with
        | .ok r => .ok (.p31 r.1 r.2)
        | .err e => .err e
        | .panic s => .panic s
      else if tp == 2 && fmt == 2 then
        match GposMark.read22 b with
        | .ok r => .ok (.p22 r)
        | .err e => .err e
        | .panic s => .panic s
      else if tp == 7 || tp == 8 then
        match Ctx.readSubtable (tp - 2) b with
        | .ok s => .ok (.c s)
        | .err e => .err e
        | .panic s => .panic s
      else .err eInvalid) := by
  unfold gposDec
  rw [hw]

theorem words_ne_nil_of_read (tp : Nat) (b : Bytes) (s : Gpos.Sub) (h : Gpos.readSubtable tp b = .ok s) :
    ∃ fmt r, bytesToWords b = fmt :: r := by
  unfold Gpos.readSubtable at h
  cases hw : bytesToWords b with
  | nil => rw [hw] at h; simp at h
  | cons f r => exact ⟨f, r, rfl⟩

theorem gpos_ok_11 (rev : List Nat) (h : Cov.Valid rev) (vr : Gpos.VR) (hvr : Gpos.VROk vr) :
    gposCodec.ok 1 (.p (.s11 rev.zipIdx vr)) := by
  obtain ⟨b, h1, h2, _⟩ := Gpos.roundtrip11 rev h vr hvr
  obtain ⟨f, r, hw⟩ := words_ne_nil_of_read 1 b _ h2
  exact ⟨b, by simp [gposEnc, fsts_zipIdx, h1], by simp [gpos_dispatch 1 f b r hw, h2, gposNf]⟩

theorem gpos_ok_12 (rev : List Nat) (h : Cov.Valid rev) (vrs : List Gpos.VR) (hl : vrs.length = rev.length)
    (hvr : ∀ vr ∈ vrs, Gpos.VROk vr) (hn : vrs.length < 65536)
    (hfit : 8 + Gpos.vrLen (Gpos.orFormat vrs) * vrs.length ≤ 0xFFFF) :
    gposCodec.ok 1 (.p (.s12 rev.zipIdx vrs)) := by
  obtain ⟨b, h1, h2, _⟩ := Gpos.roundtrip12 rev h vrs hl hvr hn hfit
  obtain ⟨f, r, hw⟩ := words_ne_nil_of_read 1 b _ h2
  exact ⟨b, by simp [gposEnc, fsts_zipIdx, h1], by simp [gpos_dispatch 1 f b r hw, h2, gposNf]⟩

theorem gpos_ok_21 (firsts : List Nat) (h : Cov.Valid firsts) (sets : List Gpos.PairSet)
    (hl : sets.length = firsts.length) (hS : ∀ s ∈ sets, Gpos.PairSetOk s ∧ s.length < 65536)
    (b : Bytes) (hb : Gpos.encode21 firsts sets = .ok b) :
    gposCodec.ok 2 (.p (.s21 firsts.zipIdx sets)) := by
  obtain ⟨h2, _⟩ := Gpos.roundtrip21 firsts h sets hl hS b hb
  obtain ⟨r, hw⟩ := encode21_fmt firsts sets b hb
  exact ⟨b, by simp [gposEnc, fsts_zipIdx, hb], by simp [gpos_dispatch 2 1 b r hw, h2, gposNf]⟩

theorem gpos_ok_31 (rev : List Nat) (recs : List GposMark.EntryExit) (h : Cov.Valid rev)
    (hl : recs.length = rev.length) (hok : ∀ r ∈ recs, GposMark.AOk r.1 ∧ GposMark.AOk r.2) (b : Bytes)
    (henc : GposMark.encode31 rev recs = .ok b) : gposCodec.ok 3 (.p31 rev.zipIdx recs) := by
  obtain ⟨h2, _⟩ := GposMark.roundtrip31 rev recs h hl hok b henc
  obtain ⟨r, hw⟩ := encode31_fmt rev recs b henc
  exact ⟨b, by simp [gposEnc, fsts_zipIdx, henc], by simp [gpos_dispatch 3 1 b r hw, h2, gposNf]⟩

theorem gpos_ok_41_61 (tp : Nat) (htp : tp = 4 ∨ tp = 6) (mcov bcov : List Nat) (marks : List GposMark.Mark)
    (bases : List (List GposMark.Anchor))
    (h1 : Cov.Valid mcov) (h2 : Cov.Valid bcov) (hm : marks.length = mcov.length)
    (hbl : bases.length = bcov.length) (hbn : bases.length < 65536)
    (hrows : ∀ row ∈ bases, row.length = GposMark.countMarkClasses marks bases)
    (hcc : GposMark.countMarkClasses marks bases < 65536)
    (hmk : ∀ m ∈ marks, GposMark.MarkOk m) (hba : ∀ row ∈ bases, ∀ a ∈ row, GposMark.AOk a) (b : Bytes)
    (henc : GposMark.encode41 mcov bcov marks bases = .ok b) :
    gposCodec.ok tp (.mb tp ⟨mcov.zipIdx, bcov.zipIdx, marks, bases⟩) := by
  obtain ⟨hr, _⟩ := GposMark.roundtrip41 mcov bcov marks bases h1 h2 hm hbl hbn hrows hcc hmk hba b henc
  obtain ⟨r, hw⟩ := encode41_fmt mcov bcov marks bases b henc
  refine ⟨b, by simp [gposEnc, fsts_zipIdx, henc], ?_⟩
  rcases htp with rfl | rfl <;> simp [gpos_dispatch _ 1 b r hw, hr, gposNf]

/-- contexts under the GPOS numbering (7 = 5, 8 = 6): the same bytes, the same readers -/
theorem gpos_ok_ctx (tp : Nat) (htp : tp = 5 ∨ tp = 6) (s : Ctx.Sub) (h : gsubCodec.ok tp (.c s)) :
    gposCodec.ok (tp + 2) (.c s) := by
  obtain ⟨b, h1, h2⟩ := h
  have henc : gposEnc (.c s) = .ok b := by
    have : gposEnc (.c s) = gsubEnc (.c s) := by
      cases s with
      | c1 ch cov sets => cases ch <;> rfl
      | c2 ch cov cls sets =>
        cases ch <;> (match cls with
          | [] => rfl
          | [_] => rfl
          | [_, _] => rfl
          | [_, _, _] => rfl
          | _ :: _ :: _ :: _ :: _ => rfl)
      | c3 bk inp lk acts ch => cases ch <;> rfl
    rw [this]; exact h1
  have hctx : Ctx.readSubtable tp b = .ok (ctxNf s) := by
    have h2' : gsubDec tp b = .ok (.c (ctxNf s)) := h2
    unfold gsubDec at h2'
    rcases htp with rfl | rfl
    · simp only [beq_self_eq_true, Bool.true_or, if_true] at h2'
      cases hc : Ctx.readSubtable 5 b with
      | ok x => rw [hc] at h2'; simp only [Outcome.ok.injEq, GsubSub.c.injEq] at h2'; rw [h2']
      | err e => rw [hc] at h2'; simp at h2'
      | panic e => rw [hc] at h2'; simp at h2'
    · simp only [beq_self_eq_true, Bool.or_true, if_true] at h2'
      cases hc : Ctx.readSubtable 6 b with
      | ok x => rw [hc] at h2'; simp only [Outcome.ok.injEq, GsubSub.c.injEq] at h2'; rw [h2']
      | err e => rw [hc] at h2'; simp at h2'
      | panic e => rw [hc] at h2'; simp at h2'
  have hne : ∃ f r, bytesToWords b = f :: r := by
    unfold Ctx.readSubtable at hctx
    cases hw : bytesToWords b with
    | nil => rw [hw] at hctx; simp at hctx
    | cons f r => exact ⟨f, r, rfl⟩
  obtain ⟨f, r, hw⟩ := hne
  refine ⟨b, henc, ?_⟩
  show gposDec (tp + 2) b = .ok (gposNf (.c s))
  rw [gpos_dispatch (tp + 2) f b r hw]
  rcases htp with rfl | rfl <;> simp [hctx, gposNf]

theorem gpos_partGood (m : ClassDef.Tab) (hm : Gdef.ClassGood m) (B : Bytes) (hB : ClassDef.append m = .ok B) :
    GposMark.PartGood (gposPart m) B (ClassDef.nfTab m) := by
  obtain ⟨ws, rfl, hlt, hr, _⟩ := Gdef.classPart_nf m hm B hB
  have hl := (Gdef.classPart_spec m hm _ hB).1
  refine ⟨hB, hl.symm, ?_⟩
  intro tail
  unfold ClassDef.read
  rw [bytesToWords_append _ hlt]
  exact ClassDef.readW_append_of_ok _ _ _ hr

/-- GPOS 2.2 with ANY two class tables of the domain: the value read back carries them in normal form -/
theorem gpos_ok_22 (cov : List Nat) (hcov : Cov.Valid cov) (m1 m2 : ClassDef.Tab) (h1 : Gdef.ClassGood m1)
    (h2 : Gdef.ClassGood m2) (B1 B2 : Bytes) (e1 : ClassDef.append m1 = .ok B1) (e2 : ClassDef.append m2 = .ok B2)
    (rows : List GposMark.Row) (hrows : ∀ r ∈ rows, r.length = GposMark.class2Count rows)
    (hok : ∀ r ∈ rows, ∀ p ∈ r, Gpos.VROk p.1 ∧ Gpos.VROk p.2)
    (hn1 : rows.length < 65536) (hn2 : GposMark.class2Count rows < 65536) (b : Bytes)
    (henc : GposMark.encode22 cov (gposPart m1) (gposPart m2) rows = .ok b) :
    gposCodec.ok 2 (.p22 ⟨cov, m1, m2, rows⟩) := by
  obtain ⟨hr, _⟩ := GposMark.roundtrip22 cov hcov (gposPart m1) (gposPart m2) B1 B2 _ _
    (gpos_partGood m1 h1 B1 e1) (gpos_partGood m2 h2 B2 e2) rows hrows hok hn1 hn2 b henc
  obtain ⟨r, hw⟩ := encode22_fmt cov (gposPart m1) (gposPart m2) rows b henc
  exact ⟨b, by simp [gposEnc, henc], by simp [gpos_dispatch 2 2 b r hw, hr, gposNf]⟩

/-! ### `Info` over the two codecs -/

/-- **GSUB table round trip** over arbitrary mixes of subtables of the codec's domain -/
theorem gsub_info_roundtrip (I : Info GsubSub) (hI : InfoOk gsubCodec 7 I) (b : Bytes)
    (hb : Info.encode gsubCodec I = .ok b) : Info.read gsubCodec 7 b = .ok (Info.nf gsubCodec I) :=
  info_roundtrip gsubCodec 7 I hI b hb

/-- **GPOS table round trip** -/
theorem gpos_info_roundtrip (I : Info GposSub) (hI : InfoOk gposCodec 9 I) (b : Bytes)
    (hb : Info.encode gposCodec I = .ok b) : Info.read gposCodec 9 b = .ok (Info.nf gposCodec I) :=
  info_roundtrip gposCodec 9 I hI b hb

/-! ### non-vacuity: a GSUB table mixing single substitutions (two formats in one lookup), a ligature
lookup with a mark filtering set and a coverage-based context -/

def exG : Info GsubSub :=
  ⟨[], [⟨[108, 105, 103, 97], [0, 1, 2]⟩],
   [⟨1, 0, 0, [.g (.s11 [5, 6] 10), .g (.s12 [(7, 0), (9, 1)] [20, 21])]⟩,
    ⟨4, 16, 2, [.g (.s41 [(30, 0)] [[⟨[31], 90⟩]])]⟩,
    ⟨5, 0, 0, [.c (.c3 [] [[3, 4], [7]] [] [(0, 1)] false)]⟩]⟩

theorem exG_ok : InfoOk gsubCodec 7 exG where
  scripts := ⟨by intro e he; simp [exG] at he, by simp [exG]⟩
  features := ⟨by decide⟩
  lookups := ⟨by decide⟩
  extLt := by decide
  types := by
    intro l hl
    simp only [exG, List.mem_cons, List.not_mem_nil, or_false] at hl
    rcases hl with rfl | rfl | rfl <;> decide
  extKind := Or.inr (by decide)
  size := by decide
  subs := by
    intro l hl s hs
    simp only [exG, List.mem_cons, List.not_mem_nil, or_false] at hl
    rcases hl with rfl | rfl | rfl
    · simp only [List.mem_cons, List.not_mem_nil, or_false] at hs
      rcases hs with rfl | rfl
      · exact gsub_ok_11 [5, 6] ⟨by decide, by decide⟩ 10 (by decide)
      · exact gsub_ok_12 [7, 9] [20, 21] ⟨by decide, by decide⟩ rfl (by decide) (by decide)
    · simp only [List.mem_cons, List.not_mem_nil, or_false] at hs
      subst hs
      exact gsub_ok_41 [30] [[⟨[31], 90⟩]] ⟨by decide, by decide⟩ rfl
        (by intro s hs l hl
            simp only [List.mem_cons, List.not_mem_nil, or_false] at hs
            subst hs
            simp only [List.mem_cons, List.not_mem_nil, or_false] at hl
            subst hl
            exact ⟨by decide, by decide⟩)
        (by decide)
    · simp only [List.mem_cons, List.not_mem_nil, or_false] at hs
      subst hs
      exact gsub_ok_c3 [[3, 4], [7]] [(0, 1)]
        (by intro c hc
            simp only [List.mem_cons, List.not_mem_nil, or_false] at hc
            rcases hc with rfl | rfl <;> exact ⟨by decide, by decide⟩)
        (by decide)
        (by intro a ha
            simp only [List.mem_cons, List.not_mem_nil, or_false] at ha
            subst ha
            exact ⟨by decide, by decide⟩)
        (wordsToBytes [3, 2, 1, 14, 22, 0, 1, 1, 2, 3, 4, 1, 1, 7]) (by decide)

theorem exG_encodes : ∃ b, Info.encode gsubCodec exG = .ok b := by
  unfold Info.encode
  have : exG.scripts = [] := rfl
  rw [this, sl_nil]
  have hF : FL.encode exG.features = .ok [0, 1, 108, 105, 103, 97, 0, 8, 0, 0, 0, 3, 0, 0, 0, 1, 0, 2] := by decide
  rw [hF]
  have hL : LL.encode (exG.lookups.map (toLL gsubCodec)) = .ok (wordsToBytes
      [3, 8, 50, 84, 1, 0, 2, 10, 24, 1, 6, 10, 1, 2, 5, 6, 2, 10, 2, 20, 21, 1, 2, 7, 9, 4, 16, 1, 10, 2, 1, 18, 1, 8,
       1, 4, 90, 2, 31, 1, 1, 30, 5, 0, 1, 8, 3, 2, 1, 14, 22, 0, 1, 1, 2, 3, 4, 1, 1, 7]) := by decide
  rw [hL]
  exact ⟨_, rfl⟩

end SfntV.Otl.InfoA
