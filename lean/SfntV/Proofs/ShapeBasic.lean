/-
Basic lemmas for the shaping engine proofs (C07): the Outcome monad, `textOf`, checked indexing.
-/
import SfntV.Model.ShapeGuard

namespace SfntV.Shape
open SfntV

/-! ## Outcome -/

theorem bind_ok {x : Outcome α} {f : α → Outcome β} {r : β} (h : (x >>= f) = .ok r) :
    ∃ a, x = .ok a ∧ f a = .ok r := by
  cases x with
  | ok a => exact ⟨a, rfl, h⟩
  | err e => cases h
  | panic s => cases h

theorem bind_ok_eq {a : α} {f : α → Outcome β} : ((Outcome.ok a) >>= f) = f a := rfl
theorem bind_err_eq {e : String} {f : α → Outcome β} : ((Outcome.err e : Outcome α) >>= f) = .err e := rfl
theorem bind_panic_eq {e : String} {f : α → Outcome β} : ((Outcome.panic e : Outcome α) >>= f) = .panic e := rfl
theorem pure_eq {a : α} : (pure a : Outcome α) = .ok a := rfl

/-- the outcome is not "out of fuel" (nor any other error) -/
def NoErr (o : Outcome α) : Prop := ∀ e, o ≠ .err e

theorem NoErr.ok {a : α} : NoErr (Outcome.ok a) := fun _ h => by cases h
theorem NoErr.panic {s : String} : NoErr (Outcome.panic s : Outcome α) := fun _ h => by cases h
theorem NoErr.pure {a : α} : NoErr (pure a : Outcome α) := NoErr.ok
theorem NoErr.bind {x : Outcome α} {f : α → Outcome β} (hx : NoErr x) (hf : ∀ a, x = .ok a → NoErr (f a)) :
    NoErr (x >>= f) := by
  cases x with
  | ok a => exact hf a rfl
  | err e => exact absurd rfl (hx e)
  | panic s => exact NoErr.panic

/-- the outcome is not a panic -/
def NoPanic (o : Outcome α) : Prop := ∀ s, o ≠ .panic s

theorem NoPanic.ok {a : α} : NoPanic (Outcome.ok a) := fun _ h => by cases h
theorem NoPanic.err {s : String} : NoPanic (Outcome.err s : Outcome α) := fun _ h => by cases h
theorem NoPanic.bind {x : Outcome α} {f : α → Outcome β} (hx : NoPanic x) (hf : ∀ a, x = .ok a → NoPanic (f a)) :
    NoPanic (x >>= f) := by
  cases x with
  | ok a => exact hf a rfl
  | err e => exact NoPanic.err
  | panic s => exact absurd rfl (hx s)

theorem idx_ok {site : String} {xs : List α} {i : Nat} {v : α} (h : idx site xs i = .ok v) : xs[i]? = some v := by
  unfold idx at h
  split at h
  · injection h with h; subst h; assumption
  · cases h

theorem idx_noErr {site : String} {xs : List α} {i : Nat} : NoErr (idx site xs i) := by
  unfold idx; split <;> intro e h <;> cases h

theorem idx_noPanic {site : String} {xs : List α} {i : Nat} (h : i < xs.length) : NoPanic (idx site xs i) := by
  unfold idx
  rw [List.getElem?_eq_getElem h]
  exact NoPanic.ok

theorem idxI_ok {site : String} {xs : List α} {i : Int} {v : α} (h : idxI site xs i = .ok v) :
    0 ≤ i ∧ xs[i.toNat]? = some v := by
  unfold idxI at h
  split at h
  · cases h
  · exact ⟨by omega, idx_ok h⟩

theorem idxI_noErr {site : String} {xs : List α} {i : Int} : NoErr (idxI site xs i) := by
  unfold idxI; split
  · exact NoErr.panic
  · exact idx_noErr

/-! ## textOf -/

@[simp] theorem textOf_nil : textOf [] = [] := rfl
@[simp] theorem textOf_cons (g : Glyph) (s : List Glyph) : textOf (g :: s) = g.text ++ textOf s := by
  simp [textOf]
@[simp] theorem textOf_append (s t : List Glyph) : textOf (s ++ t) = textOf s ++ textOf t := by
  simp [textOf]

/-- a sequence split at a valid index -/
theorem split_at {seq : List Glyph} {a : Nat} {g : Glyph} (h : seq[a]? = some g) :
    seq = seq.take a ++ g :: seq.drop (a + 1) := by
  have hlt : a < seq.length := by
    rcases Nat.lt_or_ge a seq.length with h' | h'
    · exact h'
    · rw [List.getElem?_eq_none h'] at h; cases h
  have hg : seq[a] = g := by
    rw [List.getElem?_eq_getElem hlt] at h; injection h
  rw [← hg, List.getElem_cons_drop, List.take_append_drop]

theorem set_eq {seq : List Glyph} {a : Nat} {g g' : Glyph} (h : seq[a]? = some g) :
    seq.set a g' = seq.take a ++ g' :: seq.drop (a + 1) := by
  have hlt : a < seq.length := by
    rcases Nat.lt_or_ge a seq.length with h' | h'
    · exact h'
    · rw [List.getElem?_eq_none h'] at h; cases h
  rw [List.set_eq_take_append_cons_drop]
  simp [hlt]

theorem textOf_set {seq : List Glyph} {a : Nat} {g g' : Glyph} (h : seq[a]? = some g) (ht : g'.text = g.text) :
    textOf (seq.set a g') = textOf seq := by
  rw [set_eq h]
  conv => rhs; rw [split_at h]
  simp [ht]

end SfntV.Shape
