/-
Lemmas for C18: the model of `header.Read` against an abstract `io.ReaderAt` (`readR`) agrees, on
an in-memory file, with C03's model of `header.Read` (`Header.read`); monotonicity of `readR` in
the source.
-/
import SfntV.Proofs.FaultsRead
import SfntV.Proofs.HeaderRead

namespace SfntV.Faults
open SfntV SfntV.Header

theorem memReader_some (f : Bytes) (off n : Nat) (h : off + n ≤ f.length) (hn : 0 < n) :
    memReader f off n = .ok ((f.drop off).take n) := by
  simp only [memReader]
  rw [if_pos ⟨by omega, h⟩]

theorem memReader_eof (f : Bytes) (off n : Nat) (h : ¬ off + n ≤ f.length) :
    memReader f off n = .eof := by
  simp only [memReader]
  rw [if_neg (fun hc => h hc.2)]

theorem decodeRec_eq (f : Bytes) (o : Nat) :
    decodeRec ((f.drop o).take 16) = ((f.drop o).take 4, rd32 f (o + 8), rd32 f (o + 12)) := by
  simp only [decodeRec, rd32, List.take_take, List.drop_take, List.drop_drop]
  rfl

theorem readDir_mem (f : Bytes) : ∀ (fuel i : Nat) (acc : List TocRec),
    readDir (memReader f) i fuel acc = read.go f i fuel acc := by
  intro fuel
  induction fuel with
  | zero => intro i acc; rfl
  | succ fuel ih =>
    intro i acc
    unfold readDir read.go
    by_cases h : f.length < 12 + 16 * i + 16
    · rw [memReader_eof f _ 16 (by omega)]
      simp only [h, if_true]
    · rw [memReader_some f _ 16 (by omega) (by omega)]
      simp only [h, if_false, decodeRec_eq]
      split
      · rfl
      · split
        · rfl
        · exact ih _ _

theorem coverage_eq (recs : List TocRec) : coverage recs =
    (recs.map fun r => (r.2.1, (r.2.1 + r.2.2) % 4294967296)).mergeSort
      (fun a b => if a.1 ≠ b.1 then a.1 < b.1 else a.2 ≤ b.2) := rfl

/-- on an in-memory file the two models of `header.Read` are the same function -/
theorem readR_mem (m : Nat) (f : Bytes) : readR m (memReader f) = Header.read m f := by
  unfold readR readRG Header.read
  by_cases h6 : f.length < 6
  · rw [memReader_eof f 0 6 (by omega)]
    simp only [h6, if_true]
  · rw [memReader_some f 0 6 (by omega) (by omega)]
    have hsc : beVal (((f.drop 0).take 6).take 4) = rd32 f 0 := by
      simp only [rd32, List.take_take]; rfl
    simp only [h6, if_false, hsc, rd16_take6, readDir_mem]
    split
    · rfl
    · split
      · rfl
      · cases hgo : read.go f 0 (rd16 f 4) [] with
        | err e => rfl
        | panic p => rfl
        | ok recs =>
          simp only [← coverage_eq]
          by_cases hemp : recs.isEmpty = true
          · have : recs = [] := List.isEmpty_iff.mp hemp
            subst this
            simp [coverage]
          · simp only [hemp, Bool.false_eq_true, if_false]
            cases hh : (coverage recs).head? with
            | none => rfl
            | some first =>
              cases hl : (coverage recs).getLast? with
              | none => rfl
              | some last =>
                simp only
                by_cases c1 : first.1 < 12
                · simp only [c1, if_true]
                · by_cases c2 : overlapping (coverage recs) = true
                  · simp only [c1, c2, if_true, if_false]
                  · by_cases hz : last.2 = 0
                    · simp only [c1, c2, hz, if_true, if_false]
                    · by_cases hlen : last.2 - 1 ≥ f.length
                      · rw [memReader_eof f _ 1 (by omega)]
                        simp only [c1, c2, hz, hlen, if_true, if_false]
                      · rw [memReader_some f _ 1 (by omega) (by omega)]
                        simp only [c1, c2, hz, hlen, if_false]

/-! ## monotonicity: a source that delivers at least what another delivers is accepted when the
other is, with the same result -/

theorem readDir_mono {ra₁ ra₂ : ReaderAt} (h12 : ∀ off n b, ra₁ off n = .ok b → ra₂ off n = .ok b) :
    ∀ (fuel i : Nat) (acc recs : List TocRec), readDir ra₁ i fuel acc = .ok recs →
      readDir ra₂ i fuel acc = .ok recs := by
  intro fuel
  induction fuel with
  | zero => intro i acc recs h; exact h
  | succ fuel ih =>
    intro i acc recs h
    unfold readDir at h ⊢
    cases h1 : ra₁ (12 + 16 * i) 16 with
    | eof => rw [h1] at h; cases h
    | fault => rw [h1] at h; cases h
    | ok e =>
      rw [h1] at h
      rw [h12 _ _ _ h1]
      simp only at h ⊢
      split at h
      · cases h
      · rename_i hc1
        split at h
        · cases h
        · rename_i hc2
          rw [if_neg hc1, if_neg hc2]
          exact ih _ _ _ h

theorem readR_mono {ra₁ ra₂ : ReaderAt} (h12 : ∀ off n b, ra₁ off n = .ok b → ra₂ off n = .ok b)
    (m : Nat) (r : Nat × List TocRec) (h : readR m ra₁ = .ok r) : readR m ra₂ = .ok r := by
  unfold readR readRG at h ⊢
  cases h0 : ra₁ 0 6 with
  | eof => rw [h0] at h; cases h
  | fault => rw [h0] at h; cases h
  | ok b =>
    rw [h0] at h
    rw [h12 _ _ _ h0]
    simp only at h ⊢
    split at h
    · cases h
    · rename_i hc1
      split at h
      · cases h
      · rename_i hc2
        rw [if_neg hc1, if_neg hc2]
        cases hd : readDir ra₁ 0 (beVal ((b.drop 4).take 2)) [] with
        | err e => rw [hd] at h; cases h
        | panic p => rw [hd] at h; cases h
        | ok recs =>
          rw [hd] at h
          rw [readDir_mono h12 _ _ _ _ hd]
          simp only at h ⊢
          cases hh : (coverage recs).head? with
          | none => rw [hh] at h; cases h
          | some first =>
            cases hl : (coverage recs).getLast? with
            | none => rw [hh, hl] at h; cases h
            | some last =>
              rw [hh, hl] at h
              simp only at h ⊢
              split at h
              · cases h
              · rename_i hc3
                split at h
                · cases h
                · rename_i hc4
                  split at h
                  · cases h
                  · rename_i hc5
                    rw [if_neg hc3, if_neg hc4, if_neg hc5]
                    cases hx : ra₁ (last.2 - 1) 1 with
                    | eof => rw [hx] at h; cases h
                    | fault => rw [hx] at h; cases h
                    | ok x =>
                      rw [hx] at h
                      rw [h12 _ _ _ hx]
                      exact h

/-- a source failing only at offsets at or beyond the end of the file behaves as the file -/
theorem faultReader_ge (f : Bytes) (k : Nat) (hk : f.length ≤ k) :
    ∀ off n b, memReader f off n = .ok b → faultReader f k off n = .ok b := by
  intro off n b h
  have := (memReader_ok h).1
  simp only [faultReader]
  rw [if_neg (by omega)]
  exact h

end SfntV.Faults
