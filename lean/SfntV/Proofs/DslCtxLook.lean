import SfntV.Proofs.DslCtx
/-! C19, contextual lookups (GSUB 5, GPOS 7): the lookup level and the round trips. -/
set_option linter.unusedSimpArgs false
set_option linter.unusedVariables false
namespace SfntV.Dsl

theorem safe_lbracket : Safe (some 91) := safe_ascii 91 (by decide) (by decide) (by decide)

/-- the first item of a contextual subtable -/
theorem ctxSub_head (f : Font) (hf : FontOk f) (st : Subtable) (h : CtxSub f st)
    (fuel : Nat) (hfu : tokCount (subP f st) + 2 < fuel) :
    (∀ line, ∃ t, (mkToks line (subP f st)).head? = some t ∧ [tHyphen].contains t.typ = false ∧
      [tEOL].contains t.typ = false) ∧
    (∀ X nx, Safe (nextRune (subP f st ++ X) nx)) ∧ 1 ≤ tokCount (subP f st) := by
  have key : ∀ (W : List Piece) (t0 : Nat) (v0 : List RB) (Z : List Piece), subP f st = W ++ .tok t0 v0 :: Z →
      (W = [] ∧ v0 = ascii [91] ∨ W = [.ws [a1 32]]) → (t0 ≠ tHyphen ∧ t0 ≠ tEOL) →
      (∀ line, ∃ t, (mkToks line (subP f st)).head? = some t ∧ [tHyphen].contains t.typ = false ∧
        [tEOL].contains t.typ = false) ∧
      (∀ X nx, Safe (nextRune (subP f st ++ X) nx)) ∧ 1 ≤ tokCount (subP f st) := by
    intro W t0 v0 Z heq hW ht
    rw [heq]
    rcases hW with ⟨rfl, rfl⟩ | rfl
    · refine ⟨fun line => ⟨{ typ := t0, val := ascii [91], line := line }, by simp [mkToks], by simp [ht.1], by simp [ht.2]⟩,
        fun X nx => ?_, by simp [tokCount]⟩
      have : nextRune (([] ++ Piece.tok t0 (ascii [91]) :: Z) ++ X) nx = some 91 := by
        simp [nextRune, render, ascii, Piece.rbs, a1]
      rw [this]; exact safe_lbracket
    · refine ⟨fun line => ⟨{ typ := t0, val := v0, line := line }, by simp [mkToks], by simp [ht.1], by simp [ht.2]⟩,
        fun X nx => ?_, by simp [tokCount]⟩
      have : nextRune (([Piece.ws [a1 32]] ++ Piece.tok t0 v0 :: Z) ++ X) nx = some 32 := by
        simp [nextRune, render, Piece.rbs, a1]
      rw [this]; exact safe_space
  rcases h with ⟨rules, rfl, hok⟩ | ⟨cov, classes, rules, rfl, hok⟩ | ⟨input, acts, rfl, hok⟩
  · obtain ⟨typ0, val0, R, heq, hnk, _⟩ := ctx1_branch f hf fuel ([], []) rules hok hfu
    refine key [.ws [a1 32]] typ0 val0 R heq (Or.inr rfl) ?_
    rcases hnk.1 with h | h | h <;> subst h <;> decide
  · have hsubeq : subP f (.ctx2 cov classes rules) = .ws [a1 32] ::
        (classDefsP kwClass (newExplainer f).writeGlyphSet (classGlyphs classes) 1 ++ (ctx2Tail f cov rules ++ [])) := by
      simp [subP, Explainer.subtable, Explainer.defineClasses, ctx2Tail, sp]
    cases hg : classGlyphs classes with
    | nil =>
      rw [hsubeq, hg] at hfu
      simp only [classDefsP, tokCount, tokCount_append, List.append_nil, List.nil_append] at hfu
      obtain ⟨R, heq, _⟩ := ctx2_branch f hf fuel cov classes rules hok (by omega) 0
      refine key [.ws [a1 32]] tSlash (ascii [47]) R ?_ (Or.inr rfl) (by decide)
      rw [hsubeq, hg, heq]; simp [classDefsP]
    | cons g0 gs =>
      refine key [.ws [a1 32]] tIdentifier (ascii kwClass)
        ([sp, tk tColon [58], tk tIdentifier (99 :: decimal 1), tk tColon [58], sp, tk tEqual [61], sp] ++
          (newExplainer f).writeGlyphSet g0 ++ [eolP, tab] ++
          classDefsP kwClass (newExplainer f).writeGlyphSet gs (1 + 1) ++ (ctx2Tail f cov rules ++ []))
        ?_ (Or.inr rfl) (by decide)
      rw [hsubeq, hg]
      simp [classDefsP, tk]
  · cases input with
    | nil => exact absurd rfl hok.ne
    | cons s0 rest =>
      obtain ⟨R, heq, _⟩ := ctx3_branch f hf fuel ([], []) s0 rest acts hok (by unfold subP at hfu; omega) 0
      exact key [] tSquareBracketOpen (ascii [91]) R (by simpa [subP] using heq) (Or.inl ⟨rfl, rfl⟩) (by decide)

/-- contextual lookups (type 5 in GSUB, 7 in GPOS) -/
structure LookupCtxOk (f : Font) (typ : Nat) (l : Lookup) : Prop where
  typ : l.typ = typ
  flags : l.flags < 16
  ne : l.subtables ≠ []
  subs : ∀ st ∈ l.subtables, CtxSub f st

theorem ctx_first (f : Font) (st : Subtable) (h : CtxSub f st) :
    (newExplainer f).subtable true st = subP f st ∧ normSub st = st := by
  rcases h with ⟨_, rfl, _⟩ | ⟨_, _, _, rfl, _⟩ | ⟨_, _, rfl, _⟩ <;> exact ⟨rfl, rfl⟩

theorem classDefs_len (kw : List Nat) (wgs : List Nat → List Piece) : ∀ (gl : List (List Nat)) (i : Nat),
    gl.length ≤ tokCount (classDefsP kw wgs gl i) := by
  intro gl
  induction gl with
  | nil => intro i; simp
  | cons g gs ih =>
    intro i
    have := ih (i + 1)
    simp only [classDefsP, tokCount_append, tokCount, tk, List.length_cons]
    omega

theorem ctxUnit_le (f : Font) (hf : FontOk f) (st : Subtable) (h : CtxSub f st) :
    ctxSize [st] ≤ tokCount (subP f st) := by
  have h1 := (ctxSub_head f hf st h (tokCount (subP f st) + 3) (by omega)).2.2
  rcases h with ⟨_, rfl, _⟩ | ⟨cov, classes, rules, rfl, hok⟩ | ⟨_, _, rfl, _⟩
  · simpa [ctxSize] using h1
  · have hsubeq : subP f (.ctx2 cov classes rules) = .ws [a1 32] ::
        (classDefsP kwClass (newExplainer f).writeGlyphSet (classGlyphs classes) 1 ++ (ctx2Tail f cov rules ++ [])) := by
      simp [subP, Explainer.subtable, Explainer.defineClasses, ctx2Tail, sp]
    rw [hsubeq]
    have := classDefs_len kwClass (newExplainer f).writeGlyphSet (classGlyphs classes) 1
    simp only [ctxSize, tokCount, tokCount_append, ctx2Tail, tk, List.append_nil]
    omega
  · simpa [ctxSize] using h1

theorem ctxSize_cons (st : Subtable) (more : List Subtable) : ctxSize (st :: more) = ctxSize [st] + ctxSize more := by
  cases st <;> simp [ctxSize] <;> omega

theorem ctxSize_le (f : Font) (hf : FontOk f) : ∀ (more : List Subtable), (∀ st ∈ more, CtxSub f st) →
    ctxSize more ≤ tokCount (more.flatMap fun st => orSep ++ subP f st) := by
  intro more
  induction more with
  | nil => intro _; simp [ctxSize]
  | cons st more ih =>
    intro h
    have h1 := ctxUnit_le f hf st (h st (by simp))
    have h2 := ih (fun x hx => h x (by simp [hx]))
    rw [ctxSize_cons]
    simp only [List.flatMap_cons, tokCount_append]
    omega

theorem ctx_body (f : Font) (hf : FontOk f) (typ : Nat) (l : Lookup) (h : LookupCtxOk f typ l)
    (F0 : Nat) (hF : tokCount (bodyP f l) + 4 ≤ F0) :
    (∃ ps, bodyP f l = tk tColon [58] :: ps) ∧ Frag (readSeqCtx f F0 typ) (bodyP f l) (normLookup l) LookStop Safe := by
  cases hs : l.subtables with
  | nil => exact absurd hs h.ne
  | cons st0 more =>
    have hsub : ∀ st ∈ st0 :: more, CtxSub f st := fun st hst => h.subs st (by rw [hs]; exact hst)
    have hb : bodyP f l = ([tk tColon [58]] ++ explainFlags l.flags) ++
        ((subP f st0 ++ more.flatMap (fun st => orSep ++ subP f st)) ++ []) := by
      have h0 := (ctx_first f st0 (hsub st0 (by simp))).1
      simp only [bodyP, hs, h0, List.flatMap_map]
      rfl
    have hnorm : normLookup l = { typ := typ, flags := l.flags, subtables := st0 :: more } := by
      have : l.subtables.map normSub = l.subtables := by
        rw [List.map_congr_left (g := id)]
        · simp
        · intro st hst; exact (ctx_first f st (h.subs st hst)).2
      cases l with
      | mk t fl sts =>
        simp only [normLookup, this]
        simp only at hs
        have := h.typ
        simp only at this
        rw [hs, this]
    refine ⟨⟨_, by rw [hb]; rfl⟩, ?_⟩
    rw [hb] at hF ⊢
    rw [hnorm]
    simp only [tokCount_append, tokCount, tk, List.append_nil] at hF
    have hcnt : ∀ st ∈ st0 :: more, tokCount (subP f st) + 2 < F0 := by
      intro st hst
      simp only [List.mem_cons] at hst
      rcases hst with rfl | hst
      · omega
      · have := tokCount_flatMap_mem (fun st => orSep ++ subP f st) more st hst
        simp only [tokCount_append] at this
        omega
    have hsz : ctxSize (st0 :: more) ≤ F0 := by
      rw [ctxSize_cons]
      have h1 := ctxUnit_le f hf st0 (hsub st0 (by simp))
      have h2 := ctxSize_le f hf more (fun st hst => hsub st (by simp [hst]))
      omega
    have hloop := frag_ctxLoop f hf F0 more st0 (F0 - ctxSize (st0 :: more)) []
      (fun st hst => ⟨hsub st hst, hcnt st hst⟩)
    have hj : ctxSize (st0 :: more) + (F0 - ctxSize (st0 :: more)) = F0 := by omega
    rw [hj] at hloop
    have h4 : Gen.dslExplainFlagsC.length = 4 := by decide
    obtain ⟨hhead, hsafe, _⟩ := ctxSub_head f hf st0 (hsub st0 (by simp)) F0 (hcnt st0 (by simp))
    unfold readSeqCtx
    refine frag_bind (frag_header l.flags h.flags F0 (by omega)) ?_ (fun nx _ => by
        rw [List.append_assoc]; exact hsafe _ nx) (fun line t _ => ?_)
    · refine frag_bind hloop ?_ (fun nx h => by simpa [nextRune, render] using h)
        (fun line t ht => by simpa [mkToks] using ht)
      simp only [List.nil_append]
      exact frag_weaken (frag_pure _ LookStop) (fun _ h => h) (fun _ _ => trivial)
    · obtain ⟨th, h1, h2, h3⟩ := hhead line
      have : (mkToks line ((subP f st0 ++ more.flatMap (fun st => orSep ++ subP f st)) ++ [])).head? = some th := by
        rw [List.append_nil]
        exact mkToks_head_append line _ _ th h1
      rw [this]
      exact ⟨h2, h3⟩

theorem gsub5_dispatch (f : Font) (fuel : Nat) (t : Tok) (n : Nat) (acc : List Lookup) (s s1 : PS)
    (h : readItem s = .ok (t, s1)) (ht : t.typ = tIdentifier) (hb : t.bytes = [71, 83, 85, 66] ++ decimal 5) :
    parseLoop f fuel (n + 1) acc s = (readSeqCtx f fuel 5 >>= fun l => parseLoop f fuel n (acc ++ [l])) s1 := by
  have hd : decimal 5 = [53] := by decide
  rw [hd] at hb
  conv => lhs; unfold parseLoop
  rw [bind_run, h]
  simp [ht, isIdent, hb, kwGSUB, kwGPOS, tIdentifier, tEOF, tError, tSemicolon, tEOL]

theorem gpos7_dispatch (f : Font) (fuel : Nat) (t : Tok) (n : Nat) (acc : List Lookup) (s s1 : PS)
    (h : readItem s = .ok (t, s1)) (ht : t.typ = tIdentifier) (hb : t.bytes = kwPOS ++ decimal 7) :
    parseLoop f fuel (n + 1) acc s = (readSeqCtx f fuel 7 >>= fun l => parseLoop f fuel n (acc ++ [l])) s1 := by
  have hd : decimal 7 = [55] := by decide
  rw [hd] at hb
  conv => lhs; unfold parseLoop
  rw [bind_run, h]
  simp [ht, isIdent, hb, kwGSUB, kwGPOS, kwPOS, tIdentifier, tEOF, tError, tSemicolon, tEOL]

theorem item_gsub5 (f : Font) (hf : FontOk f) (l : Lookup) (h : LookupCtxOk f 5 l) (F0 : Nat)
    (hF : tokCount (bodyP f l) + 4 ≤ F0) : LookItemOk f F0 l := by
  obtain ⟨hc, hfr⟩ := ctx_body f hf 5 l h F0 hF
  exact ⟨readSeqCtx f F0 5, by rw [h.typ]; exact gsub_kw_ok 5 (by decide), by rw [h.typ]; exact gsub5_dispatch f _, hc, hfr⟩

theorem item_gpos7 (f : Font) (hf : FontOk f) (l : Lookup) (h : LookupCtxOk f 7 l) (F0 : Nat)
    (hF : tokCount (bodyP f l) + 4 ≤ F0) : PosItem2 f F0 l := by
  obtain ⟨hc, hfr⟩ := ctx_body f hf 7 l h F0 hF
  exact ⟨readSeqCtx f F0 7, by rw [h.typ]; exact pos_kw_ok 7 (by decide), by rw [h.typ]; exact gpos7_dispatch f _, hc, Or.inl hfr⟩

end SfntV.Dsl
