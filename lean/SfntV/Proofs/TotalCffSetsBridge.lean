/-
C02: bridging lemmas from the checked-index models of the CFF set readers
(`SfntV.Total.CffSets`) to the value-level models of C13 (`SfntV.Cff.readCharset`,
`readEncoding`, `readFDSelect`): erasing panic sites and costs gives the C13 model on every input.
-/
import SfntV.Proofs.TotalCffSets
import SfntV.Model.CffCharset
import SfntV.Model.CffEncoding
import SfntV.Model.CffFdselect
import SfntV.Proofs.TotalCffIndex

namespace SfntV.Total.CffSets
open SfntV SfntV.Total
open SfntV.Total.Gdef (idx_ok ok_bind bind_noPanic bind_eq_ok)

/-- forget the cost -/
def erase : Outcome (α × Cost) → Outcome α
  | .ok (a, _) => .ok a
  | .err e => .err e
  | .panic s => .panic s

theorem rd1 (b : Bytes) (pos : Nat) :
    Cff.rd b pos 1 = if h : pos < b.length then some [b[pos]] else none := by
  unfold Cff.rd
  rw [if_neg (by omega)]
  by_cases h : pos < b.length
  · rw [if_pos (by omega), dif_pos h, List.drop_eq_getElem_cons h]
    rfl
  · rw [if_neg (by omega), dif_neg h]

theorem rd2 (b : Bytes) (pos : Nat) :
    Cff.rd b pos 2 = if h : pos + 1 < b.length then some [b[pos], b[pos + 1]] else none := by
  unfold Cff.rd
  rw [if_neg (by omega)]
  by_cases h : pos + 1 < b.length
  · rw [if_pos (by omega), dif_pos h, List.drop_eq_getElem_cons (by omega : pos < b.length),
      List.drop_eq_getElem_cons h]
    rfl
  · rw [if_neg (by omega), dif_neg h]

theorem beVal1 (x : UInt8) : beVal [x] = x.toNat := by
  simp [beVal]

theorem beVal2 (x y : UInt8) : beVal [x, y] = x.toNat * 256 + y.toNat := by
  simp [beVal]

/-- a `ReadUint8` followed by `f` is the C13 idiom `match rd … 1` -/
theorem u8_bind (site : String) (b : Bytes) (pos : Nat) (f : Nat → Outcome β) :
    (u8 site b pos >>= f) =
      (match Cff.rd b pos 1 with
       | none => .err "eof"
       | some w => f (beVal w)) := by
  rw [u8_eq, rd1]
  by_cases h : pos < b.length
  · rw [dif_pos h, dif_pos h, ok_bind]
    dsimp only
    rw [beVal1]
  · rw [dif_neg h, dif_neg h]
    rfl

theorem u16_bind (site : String) (b : Bytes) (pos : Nat) (f : Nat → Outcome β) :
    (u16 site b pos >>= f) =
      (match Cff.rd b pos 2 with
       | none => .err "eof"
       | some w => f (beVal w)) := by
  rw [u16_eq, rd2]
  by_cases h : pos + 1 < b.length
  · rw [dif_pos h, dif_pos h, ok_bind]
    dsimp only
    rw [beVal2]
  · rw [dif_neg h, dif_neg h]
    rfl

theorem getD_eq (xs : List α) (i : Nat) (d : α) (h : i < xs.length) : xs.getD i d = xs[i] := by
  rw [List.getD_eq_getElem?_getD, List.getElem?_eq_getElem h]
  rfl

/-! ## `readEncoding` -/

theorem codes0_erase : ∀ (codes : List UInt8) (res : List Nat) (cur : Nat) (c : Cost),
    res.length = 256 → erase (codes0 codes res cur c) = Cff.readCodes codes res cur
  | [], res, cur, c, _ => rfl
  | x :: rest, res, cur, c, hl => by
    have hx := x.toNat_lt
    unfold codes0 Cff.readCodes
    rw [idx_ok _ res x.toNat (by omega), ok_bind, getD_eq _ _ _ (by omega)]
    split
    · rfl
    · rw [setAt_ok _ _ _ _ (by omega), ok_bind]
      exact codes0_erase rest _ _ _ (by rw [List.length_set]; exact hl)

theorem range1_erase (nCs : Nat) : ∀ (k j : Nat) (res : List Nat) (cur : Nat) (c : Cost),
    res.length = 256 → j + k ≤ 256 →
      erase (range1 nCs k j res cur c) = Cff.readRange nCs k j res cur
  | 0, _, _, _, _, _, _ => rfl
  | k+1, j, res, cur, c, hl, hj => by
    unfold range1 Cff.readRange
    split
    · rfl
    · rw [idx_ok _ res j (by omega), ok_bind, getD_eq _ _ _ (by omega)]
      split
      · rfl
      · rw [setAt_ok _ _ _ _ (by omega), ok_bind]
        exact range1_erase nCs k (j + 1) _ _ _ (by rw [List.length_set]; exact hl) (by omega)

theorem erase_bind_ok {x : Outcome (α × Cost)} {f : α × Cost → Outcome (β × Cost)} :
    erase (x >>= f) = (match x with
      | .ok r => erase (f r)
      | .err e => .err e
      | .panic s => .panic s) := by
  cases x <;> rfl

theorem ranges1_erase (b : Bytes) (nCs : Nat) : ∀ (k pos : Nat) (res : List Nat) (cur : Nat)
    (c : Cost), res.length = 256 →
      erase (ranges1 b nCs k pos res cur c) = Cff.readEncRanges b nCs k pos res cur
  | 0, _, _, _, _, _ => rfl
  | k+1, pos, res, cur, c, hl => by
    unfold ranges1 Cff.readEncRanges
    rw [u8_bind, rd1]
    by_cases h1 : pos < b.length
    · rw [dif_pos h1]
      dsimp only
      rw [u8_bind, rd1]
      by_cases h2 : pos + 1 < b.length
      · rw [dif_pos h2]
        dsimp only
        rw [beVal1, beVal1]
        have hf := b[pos].toNat_lt
        have hn := b[pos + 1].toNat_lt
        split
        · rfl
        · rename_i hle
          have hcount : (b[pos].toNat + b[pos + 1].toNat) % 256 + 1 - b[pos].toNat
              = b[pos + 1].toNat + 1 := by omega
          rw [hcount, erase_bind_ok]
          have hr := range1_erase nCs (b[pos + 1].toNat + 1) b[pos].toNat res cur (c.tick 2) hl
            (by omega)
          have hs := (range1_spec nCs (b[pos + 1].toNat + 1) b[pos].toNat res cur (c.tick 2) hl
            (by omega)).2
          cases hrun : range1 nCs (b[pos + 1].toNat + 1) b[pos].toNat res cur (c.tick 2) with
          | err e => rw [hrun] at hr; rw [← hr]; rfl
          | panic s => rw [hrun] at hr; rw [← hr]; rfl
          | ok r =>
            obtain ⟨⟨res1, cur1⟩, c1⟩ := r
            rw [hrun] at hr
            rw [← hr]
            dsimp only [erase]
            exact ranges1_erase b nCs k (pos + 2) res1 cur1 c1 (hs _ _ _ hrun).1
      · rw [dif_neg h2]
        rfl
    · rw [dif_neg h1]
      rfl

theorem sidLookupGo_eq : ∀ (cs : List Int) (sid gid found : Nat),
    sidLookupGo cs sid gid found = Cff.sidLookup.go sid cs gid found
  | [], _, _, _ => rfl
  | s :: rest, sid, gid, found => by
    unfold sidLookupGo Cff.sidLookup.go
    exact sidLookupGo_eq rest sid _ _

theorem sidLookup_eq (cs : List Int) (sid : Nat) : sidLookup cs sid = Cff.sidLookup cs sid := by
  unfold sidLookup Cff.sidLookup
  exact sidLookupGo_eq cs sid 0 0

theorem sups_erase (b : Bytes) (charset : List Int) : ∀ (k pos : Nat) (res : List Nat) (cur : Nat)
    (c : Cost), res.length = 256 →
      erase (sups b charset k pos res cur c) = Cff.readSups b charset k pos res cur
  | 0, _, _, _, _, _ => rfl
  | k+1, pos, res, cur, c, hl => by
    unfold sups Cff.readSups
    rw [u8_bind, rd1]
    by_cases h1 : pos < b.length
    · rw [dif_pos h1]
      dsimp only
      rw [beVal1]
      have hc := b[pos].toNat_lt
      rw [idx_ok _ res b[pos].toNat (by omega), ok_bind, getD_eq _ _ _ (by omega)]
      split
      · rfl
      · rw [u16_bind, rd2]
        by_cases h2 : pos + 1 + 1 < b.length
        · rw [dif_pos h2]
          dsimp only
          rw [sidLookup_eq]
          split
          · rfl
          · split
            · rw [setAt_ok _ _ _ _ (by omega), ok_bind]
              exact sups_erase b charset k (pos + 3) _ cur _ (by rw [List.length_set]; exact hl)
            · rw [ok_bind]
              exact sups_erase b charset k (pos + 3) res cur _ hl
        · rw [dif_neg h2]
          rfl
    · rw [dif_neg h1]
      rfl

theorem pRead_rd (b : Bytes) (pos n : Nat) :
    pRead b pos n = (match Cff.rd b pos n with
      | none => .err "eof"
      | some w => .ok w) := by
  unfold pRead Cff.rd
  split
  · rfl
  · split <;> rfl

theorem primary_erase (b : Bytes) (nCs format : Nat) (c : Cost) :
    erase (primary b nCs format c) = Cff.readPrimary b 0 format nCs := by
  have h0 : (List.replicate 256 (0 : Nat)).length = 256 := List.length_replicate
  unfold primary Cff.readPrimary
  simp only [Nat.zero_add]
  split
  · rw [u8_bind, rd1]
    by_cases h1 : 1 < b.length
    · rw [dif_pos h1]
      dsimp only
      rw [beVal1]
      have hn := b[1].toNat_lt
      split
      · rfl
      · rw [Gdef.mkSlice_ok _ _ _ (by omega), ok_bind, pRead_rd]
        cases hrd : Cff.rd b 2 b[1].toNat with
        | none => rfl
        | some codes =>
          dsimp only
          rw [ok_bind, erase_bind_ok]
          have hc := codes0_erase codes (List.replicate 256 0) 1 ((c.tick).mem b[1].toNat).tick h0
          cases hrun : codes0 codes (List.replicate 256 0) 1 ((c.tick).mem b[1].toNat).tick with
          | err e => rw [hrun] at hc; rw [← hc]; rfl
          | panic s => rw [hrun] at hc; rw [← hc]; rfl
          | ok r =>
            obtain ⟨⟨res1, cur1⟩, c1⟩ := r
            rw [hrun] at hc
            rw [← hc]
            rfl
    · rw [dif_neg h1]
      rfl
  · split
    · rw [u8_bind, rd1]
      by_cases h1 : 1 < b.length
      · rw [dif_pos h1]
        dsimp only
        rw [beVal1]
        exact ranges1_erase b nCs _ 2 _ 1 _ h0
      · rw [dif_neg h1]
        rfl
    · rfl

/-- BRIDGE: erasing panic sites and costs from the checked-index model of `readEncoding` gives
the value-level model of C13 on every input -/
theorem readEncoding_erase (b : Bytes) (charset : List Int) :
    erase (readEncoding b charset) = Cff.readEncoding b 0 charset := by
  unfold readEncoding Cff.readEncoding
  rw [u8_bind, rd1]
  by_cases h1 : 0 < b.length
  · rw [dif_pos h1]
    dsimp only
    rw [beVal1, Gdef.mkSlice_ok _ _ _ (by omega), ok_bind, erase_bind_ok]
    have hp := primary_erase b charset.length b[0].toNat ((Cost.zero.tick).mem 256)
    have hs := (primary_spec b charset.length b[0].toNat ((Cost.zero.tick).mem 256)).2
    cases hrun : primary b charset.length b[0].toNat ((Cost.zero.tick).mem 256) with
    | err e => rw [hrun] at hp; rw [← hp]; rfl
    | panic s => rw [hrun] at hp; rw [← hp]; rfl
    | ok r =>
      obtain ⟨⟨res1, cur1, pos1⟩, c1⟩ := r
      rw [hrun] at hp
      rw [← hp]
      dsimp only [erase]
      by_cases hf : b[0].toNat ≥ 128
      · rw [if_pos hf, if_pos hf, u8_bind, rd1]
        by_cases h2 : pos1 < b.length
        · rw [dif_pos h2]
          dsimp only
          rw [beVal1]
          exact sups_erase b charset _ _ res1 cur1 _ (hs _ _ _ _ hrun).1
        · rw [dif_neg h2]
      · rw [if_neg hf, if_neg hf]
  · rw [dif_neg h1]
    rfl

/-! ## `readFDSelect` -/

/-- `readFDSelect` followed by the evaluation of the returned accessor on every glyph
`0 … nGlyphs-1` (what the C13 model computes) -/
def readFDSelectAll (b : Bytes) (n np : Nat) : Outcome (List Nat) :=
  match readFDSelect b n np with
  | .ok (fn, _) => lookups fn (List.range n)
  | .err e => .err e
  | .panic s => .panic s

theorem rd_length {b : Bytes} {pos n : Nat} {w : Bytes} (h : Cff.rd b pos n = some w) :
    w.length = n := by
  unfold Cff.rd at h
  split at h
  · rename_i h0
    cases h
    exact h0.symm
  · split at h
    · cases h
      simp only [List.length_take, List.length_drop]
      omega
    · cases h

theorem check0_any (buf : Bytes) (np : Nat) : ∀ (k i : Nat) (c : Cost), i + k = buf.length →
    (if (buf.drop i).any (fun x => decide (x.toNat ≥ np)) = true
      then check0 buf np k i c = .err "invalid" else ∃ c', check0 buf np k i c = .ok c')
  | 0, i, c, h => by
    rw [List.drop_eq_nil_of_le (by omega)]
    simp only [List.any_nil]
    exact ⟨c, rfl⟩
  | k+1, i, c, h => by
    unfold check0
    rw [idx_ok _ buf i (by omega), ok_bind, List.drop_eq_getElem_cons (by omega : i < buf.length),
      List.any_cons]
    by_cases hv : buf[i].toNat ≥ np
    · rw [if_pos (by simp [hv]), if_pos (by omega)]
    · rw [if_neg (by omega : ¬ ((buf[i].toNat : Nat) : Int) ≥ (np : Int))]
      have ih := check0_any buf np k (i + 1) c.tick (by omega)
      simp only [hv, decide_false, Bool.false_or]
      exact ih

theorem lookups_f0 (buf : Bytes) : ∀ (k i : Nat), i + k = buf.length →
    lookups (.f0 buf) (List.range' i k) = .ok ((buf.drop i).map fun x => x.toNat)
  | 0, i, h => by
    rw [List.drop_eq_nil_of_le (by omega)]
    rfl
  | k+1, i, h => by
    rw [List.range'_succ, lookups, lookup, idx_ok _ buf i (by omega),
      List.drop_eq_getElem_cons (by omega : i < buf.length), lookups_f0 buf k (i + 1) (by omega)]
    rfl

theorem ranges3_erase (b : Bytes) (np : Nat) : ∀ (k i pos prev : Nat) (c : Cost),
    erase (ranges3 b np k i pos prev c) =
      (match Cff.readFdRanges b np k i pos prev with
       | .ok rs => .ok (if i > 0 then rs.map (·.1) else (rs.drop 1).map (·.1), rs.map (·.2))
       | .err e => .err e
       | .panic s => .panic s)
  | 0, i, _, _, _ => by
    unfold ranges3 Cff.readFdRanges
    by_cases hi : i > 0
    · simp [erase, hi]
    · simp [erase, hi]
  | k+1, i, pos, prev, c => by
    unfold ranges3 Cff.readFdRanges
    rw [u16_bind, rd2]
    by_cases h1 : pos + 1 < b.length
    · rw [dif_pos h1]
      dsimp only
      rw [beVal2]
      by_cases hc : (i > 0 ∧ b[pos].toNat * 256 + b[pos + 1].toNat ≤ prev) ∨
          (i = 0 ∧ b[pos].toNat * 256 + b[pos + 1].toNat ≠ 0)
      · rw [if_pos hc, if_pos hc]
        rfl
      · rw [if_neg hc, if_neg hc, u8_bind, rd1]
        by_cases h2 : pos + 2 < b.length
        · rw [dif_pos h2]
          dsimp only
          rw [beVal1]
          by_cases hfd : b[pos + 2].toNat ≥ np
          · rw [if_pos hfd, if_pos (by omega)]
            rfl
          · rw [if_neg hfd, if_neg (by omega : ¬ ((b[pos + 2].toNat : Nat) : Int) ≥ (np : Int))]
            rw [erase_bind_ok]
            have ih := ranges3_erase b np k (i + 1) (pos + 3)
              (b[pos].toNat * 256 + b[pos + 1].toNat) ((c.tick 2).mem (if i > 0 then 2 else 1))
            cases hth : Cff.readFdRanges b np k (i + 1) (pos + 3)
                (b[pos].toNat * 256 + b[pos + 1].toNat) with
            | err e =>
              rw [hth] at ih
              cases hrun : ranges3 b np k (i + 1) (pos + 3)
                (b[pos].toNat * 256 + b[pos + 1].toNat) ((c.tick 2).mem (if i > 0 then 2 else 1)) with
              | err e' => rw [hrun] at ih; cases ih; rfl
              | panic s => rw [hrun] at ih; cases ih
              | ok r => rw [hrun] at ih; obtain ⟨r1, r2⟩ := r; cases ih
            | panic s =>
              rw [hth] at ih
              cases hrun : ranges3 b np k (i + 1) (pos + 3)
                (b[pos].toNat * 256 + b[pos + 1].toNat) ((c.tick 2).mem (if i > 0 then 2 else 1)) with
              | err e' => rw [hrun] at ih; cases ih
              | panic s' => rw [hrun] at ih; cases ih; rfl
              | ok r => rw [hrun] at ih; obtain ⟨r1, r2⟩ := r; cases ih
            | ok rs =>
              rw [hth] at ih
              cases hrun : ranges3 b np k (i + 1) (pos + 3)
                (b[pos].toNat * 256 + b[pos + 1].toNat) ((c.tick 2).mem (if i > 0 then 2 else 1)) with
              | err e' => rw [hrun] at ih; cases ih
              | panic s' => rw [hrun] at ih; cases ih
              | ok r =>
                rw [hrun] at ih
                obtain ⟨⟨es1, fs1⟩, c1⟩ := r
                have ih' : (es1, fs1) = (rs.map (·.1), rs.map (·.2)) := by
                  have := Outcome.ok.inj ih
                  rw [if_pos (by omega)] at this
                  exact this
                cases ih'
                by_cases hi : i > 0
                · simp [erase, hi]
                · simp [erase, hi]
        · rw [dif_neg h2]
          rfl
    · rw [dif_neg h1]
      rfl

theorem search_eq (ends : List Nat) (gid : Nat) : ∀ (fuel i j : Nat), j ≤ ends.length →
    search ends gid fuel i j =
      .ok (Cff.searchLoop (fun i => decide (gid < ends.getD i 0)) fuel i j)
  | 0, _, _, _ => rfl
  | fuel+1, i, j, hj => by
    unfold search Cff.searchLoop
    by_cases hlt : i < j
    · rw [if_pos hlt, if_pos hlt]
      dsimp only
      rw [idx_ok _ ends ((i + j) / 2) (by omega), ok_bind, getD_eq _ _ _ (by omega)]
      by_cases hg : gid < ends[(i + j) / 2]'(by omega)
      · rw [if_pos hg, search_eq ends gid fuel i _ (by omega)]
        simp [hg]
      · rw [if_neg hg, search_eq ends gid fuel _ j hj]
        simp [hg]
    · rw [if_neg hlt, if_neg hlt]

theorem lookups_congr (fn : FdSel) (f : Nat → Outcome Nat) : ∀ (l : List Nat),
    (∀ g ∈ l, lookup fn g = f g) → lookups fn l = Cff.mapOutcome f l
  | [], _ => rfl
  | g :: gs, h => by
    unfold lookups Cff.mapOutcome
    rw [h g (List.mem_cons_self), lookups_congr fn f gs (fun x hx => h x (List.mem_cons_of_mem _ hx))]
    cases f g with
    | err e => rfl
    | panic s => rfl
    | ok v =>
      rw [ok_bind]
      cases Cff.mapOutcome f gs <;> rfl

theorem f3_lookups_eq (nR n : Nat) (ends fdIdx : List Nat) (hfl : fdIdx.length = nR)
    (hends : 0 < nR → ends.length = nR ∧ ends[nR - 1]? = some n) (hz : nR = 0 → n = 0) :
    lookups (.f3 nR ends fdIdx) (List.range n) =
      Cff.mapOutcome (Cff.fd3Lookup ends fdIdx) (List.range n) := by
  apply lookups_congr
  intro g hg
  have hgn : g < n := List.mem_range.mp hg
  have hpos : 0 < nR := by
    by_cases h0 : nR = 0
    · have := hz h0; omega
    · omega
  obtain ⟨hel, hlast⟩ := hends hpos
  obtain ⟨r, hr, hrlt⟩ := search_lt ends g nR n hel hlast hgn (nR + 1) 0 nR (by omega) (by omega) hpos
  rw [lookup, hr, ok_bind]
  rw [search_eq ends g (nR + 1) 0 nR (by omega)] at hr
  have hr' := Outcome.ok.inj hr
  unfold Cff.fd3Lookup Cff.fd3Lookup.idx' Cff.sortSearch
  dsimp only
  rw [hfl, hr', idx_ok _ fdIdx r (by omega), idx_ok _ fdIdx r (by omega)]

/-- BRIDGE: `readFDSelect` followed by all lookups, with panic sites and costs erased, is the
value-level model of C13, for every input and all `nGlyphs < 2^47` (beyond that the checked
model reports the `make` panic of a 128-TiB slice, the C13 model an I/O error) -/
theorem readFDSelect_erase (b : Bytes) (n np : Nat) (hn : n < 2 ^ 47) :
    readFDSelectAll b n np = Cff.readFDSelect b 0 n np := by
  unfold readFDSelectAll readFDSelect Cff.readFDSelect
  simp only [Nat.zero_add]
  rw [u8_bind, rd1]
  by_cases h1 : 0 < b.length
  · rw [dif_pos h1]
    dsimp only
    rw [beVal1]
    by_cases hf0 : b[0].toNat = 0
    · rw [if_pos hf0, if_pos hf0, mkSliceInt_ok _ _ _ (by omega) (by omega), ok_bind, pRead_rd,
        Int.toNat_natCast]
      cases hrd : Cff.rd b 1 n with
      | none => rfl
      | some buf =>
        dsimp only
        rw [ok_bind]
        have hl := rd_length hrd
        have hany := check0_any buf np n 0 ((Cost.zero.tick.mem n).tick (n / 1024 + 1)) (by omega)
        rw [List.drop_zero] at hany
        by_cases ha : (buf.any fun x => decide (x.toNat ≥ np)) = true
        · rw [if_pos ha] at hany
          rw [hany, if_pos ha]
          rfl
        · rw [if_neg ha] at hany
          obtain ⟨c', hc'⟩ := hany
          rw [hc', ok_bind, if_neg ha]
          dsimp only
          rw [List.range_eq_range', ← hl, lookups_f0 buf buf.length 0 (by omega), List.drop_zero]
    · rw [if_neg hf0, if_neg hf0]
      by_cases hf3 : b[0].toNat = 3
      · rw [if_pos hf3, if_pos hf3, u16_bind, rd2]
        by_cases h2 : 1 + 1 < b.length
        · rw [dif_pos h2]
          dsimp only
          rw [beVal2]
          generalize hnr : b[1].toNat * 256 + b[1 + 1].toNat = nR
          by_cases hz : (n : Int) > 0 ∧ nR = 0
          · rw [if_pos hz, if_pos (by omega)]
          · rw [if_neg hz, if_neg (by omega)]
            have he := ranges3_erase b np nR 0 3 0 (Cost.zero.tick).tick
            have hok := ranges3_ok b np nR 0 3 0 (Cost.zero.tick).tick
            cases hth : Cff.readFdRanges b np nR 0 3 0 with
            | err e =>
              rw [hth] at he
              cases hrun : ranges3 b np nR 0 3 0 (Cost.zero.tick).tick with
              | err e' => rw [hrun] at he; cases he; rfl
              | panic s => rw [hrun] at he; cases he
              | ok r => rw [hrun] at he; obtain ⟨r1, r2⟩ := r; cases he
            | panic s =>
              rw [hth] at he
              cases hrun : ranges3 b np nR 0 3 0 (Cost.zero.tick).tick with
              | err e' => rw [hrun] at he; cases he
              | panic s' => rw [hrun] at he; cases he; rfl
              | ok r => rw [hrun] at he; obtain ⟨r1, r2⟩ := r; cases he
            | ok rs =>
              rw [hth] at he
              cases hrun : ranges3 b np nR 0 3 0 (Cost.zero.tick).tick with
              | err e' => rw [hrun] at he; cases he
              | panic s' => rw [hrun] at he; cases he
              | ok r =>
                rw [hrun] at he
                obtain ⟨⟨es, fs⟩, c1⟩ := r
                have he' : (es, fs) = ((rs.drop 1).map (·.1), rs.map (·.2)) := by
                  have := Outcome.ok.inj he
                  rw [if_neg (by omega)] at this
                  exact this
                obtain ⟨r1, _, r3, _⟩ := hok es fs c1 hrun
                have r3 := r3 rfl
                rw [ok_bind]
                dsimp only
                rw [u16_bind, rd2]
                by_cases h3 : 3 + 3 * nR + 1 < b.length
                · rw [dif_pos h3]
                  dsimp only
                  rw [beVal2]
                  generalize hsent : b[3 + 3 * nR].toNat * 256 + b[3 + 3 * nR + 1].toNat = sentinel
                  by_cases hs : sentinel = n
                  · rw [if_neg (by omega : ¬ ((sentinel : Nat) : Int) ≠ (n : Int)), if_neg (by omega)]
                    dsimp only
                    have hes : es = (rs.drop 1).map (·.1) := congrArg Prod.fst he'
                    have hfs : fs = rs.map (·.2) := congrArg Prod.snd he'
                    rw [← hes, ← hfs, hs]
                    refine f3_lookups_eq nR n (es ++ [n]) fs r1 (fun hpos => ?_) (fun h0 => ?_)
                    · refine ⟨by rw [List.length_append, List.length_singleton]; omega, ?_⟩
                      rw [List.getElem?_append_right (by omega)]
                      have : nR - 1 - es.length = 0 := by omega
                      rw [this]
                      rfl
                    · by_cases hg : (n : Int) > 0
                      · exact absurd ⟨hg, h0⟩ hz
                      · omega
                  · rw [if_pos (by omega : ((sentinel : Nat) : Int) ≠ (n : Int)), if_pos (by omega)]
                · rw [dif_neg h3]
        · rw [dif_neg h2]
      · rw [if_neg hf3, if_neg hf3]
  · rw [dif_neg h1]

/-! ## `readCharset` -/

theorem names0_erase (b : Bytes) : ∀ (k pos : Nat) (c : Cost),
    erase (names0 b k pos c) = Cff.readU16s b k pos
  | 0, _, _ => rfl
  | k+1, pos, c => by
    unfold names0 Cff.readU16s
    rw [u16_bind, rd2]
    by_cases h1 : pos + 1 < b.length
    · rw [dif_pos h1]
      dsimp only
      rw [beVal2, erase_bind_ok]
      have ih := names0_erase b k (pos + 2) c.tick
      cases hrun : names0 b k (pos + 2) c.tick with
      | err e => rw [hrun] at ih; rw [← ih]; rfl
      | panic s => rw [hrun] at ih; rw [← ih]; rfl
      | ok r =>
        obtain ⟨l, c1⟩ := r
        rw [hrun] at ih
        rw [← ih]
        rfl
    · rw [dif_neg h1]
      rfl

theorem nameRange_length : ∀ (first k : Nat), (Cff.nameRange first k).length = k
  | _, 0 => rfl
  | first, k+1 => by
    unfold Cff.nameRange
    rw [List.length_cons, nameRange_length (first + 1) k]

/-- the inner loop either meets a code above 0xFFFF or appends the names `first+i, …` -/
theorem run_eq (n first : Nat) : ∀ (k i len : Nat) (c : Cost),
    if first + i + k > 0x10000 ∧ k > 0 then run n first k i len c = .err "other"
    else ∃ c', run n first k i len c = .ok (Cff.nameRange (first + i) k, c')
  | 0, i, len, c => by
    rw [if_neg (by omega)]
    exact ⟨c, rfl⟩
  | k+1, i, len, c => by
    unfold run
    by_cases hi : first + i > 0xFFFF
    · rw [if_pos (by omega), if_pos hi]
    · rw [if_neg hi]
      dsimp only
      have ih := run_eq n first k (i + 1) (len + 1) (if len ≥ n then (c.tick).mem 1 else c.tick)
      by_cases hc : first + (i + 1) + k > 0x10000 ∧ k > 0
      · rw [if_pos hc] at ih
        rw [if_pos (by omega), ih]
        rfl
      · rw [if_neg hc] at ih
        obtain ⟨c', hc'⟩ := ih
        rw [if_neg (by omega)]
        refine ⟨c', ?_⟩
        rw [hc', ok_bind]
        rfl

/-- the length check charset.go:88 applied to the result of the range loop -/
def post (n : Nat) (len : Nat) : Outcome ((List Int × Nat) × Cost) → Outcome (List Int × Nat)
  | .ok ((l, p), _) => if len + l.length ≠ n then .err "other" else .ok (l, p)
  | .err e => .err e
  | .panic s => .panic s

theorem nLeft_bind (w : Nat) (hw : w = 1 ∨ w = 2) (s1 s2 : String) (b : Bytes) (pos : Nat)
    (f : Nat → Outcome β) :
    ((if w = 1 then u8 s1 b pos else u16 s2 b pos) >>= f) =
      (match Cff.rd b pos w with
       | none => .err "eof"
       | some nb => f (beVal nb)) := by
  rcases hw with rfl | rfl
  · rw [if_pos rfl]; exact u8_bind _ _ _ _
  · rw [if_neg (by omega)]; exact u16_bind _ _ _ _

theorem readRanges_zero (b : Bytes) (w fuel pos : Nat) :
    Cff.readRanges b w fuel 0 pos = .ok ([], pos) := by
  cases fuel <;> rfl

/-- the range loops of formats 1 and 2 followed by the length check = the C13 loop, which checks
the overshoot range by range -/
theorem ranges_erase (b : Bytes) (w n : Nat) (hw : w = 1 ∨ w = 2) :
    ∀ (fuel fuel2 len need pos : Nat) (c : Cost), len + need = n → need ≤ fuel2 → need ≤ fuel →
      post n len (ranges b w n fuel len pos c) = Cff.readRanges b w fuel2 need pos
  | 0, fuel2, len, need, pos, c, hn, _, hf => by
    obtain rfl : need = 0 := by omega
    rw [ranges_done _ _ _ _ _ _ _ (by omega), readRanges_zero]
    simp only [post, List.length_nil]
    rw [if_neg (by omega)]
  | fuel+1, fuel2, len, need, pos, c, hn, hf2, hf => by
    cases need with
    | zero =>
      rw [ranges_done _ _ _ _ _ _ _ (by omega), readRanges_zero]
      simp only [post, List.length_nil]
      rw [if_neg (by omega)]
    | succ nd =>
      cases fuel2 with
      | zero => omega
      | succ f2 =>
        unfold ranges Cff.readRanges
        rw [if_pos (by omega), u16_bind, rd2]
        by_cases h1 : pos + 1 < b.length
        · rw [dif_pos h1]
          dsimp only
          rw [beVal2, nLeft_bind w hw]
          generalize b[pos].toNat * 256 + b[pos + 1].toNat = F
          cases hrd : Cff.rd b (pos + 2) w with
          | none => rfl
          | some nb =>
            dsimp only
            generalize beVal nb = N
            have hrun := run_eq n F (N + 1) 0 len (c.tick 2)
            by_cases hov : F + N > 0xFFFF
            · rw [if_pos (by omega)] at hrun
              rw [hrun, if_pos (Or.inl hov)]
              rfl
            · rw [if_neg (by omega)] at hrun
              obtain ⟨c1, hc1⟩ := hrun
              rw [hc1, ok_bind, Nat.add_zero]
              dsimp only
              by_cases hover : N + 1 > nd + 1
              · -- overshoot: the loop ends, the length check fails
                rw [if_pos (Or.inr hover), ranges_done _ _ _ _ _ _ _ (by omega), ok_bind]
                simp only [post]
                rw [if_pos (by rw [List.length_append, nameRange_length, List.length_nil]; omega)]
              · rw [if_neg (by omega)]
                have ih := ranges_erase b w n hw fuel f2 (len + (N + 1)) (nd + 1 - (N + 1))
                  (pos + 2 + w) c1 (by omega) (by omega) (by omega)
                rw [← ih]
                cases hR : ranges b w n fuel (len + (N + 1)) (pos + 2 + w) c1 with
                | err e => rfl
                | panic s => rfl
                | ok r =>
                  obtain ⟨⟨l2, p2⟩, c2⟩ := r
                  rw [ok_bind]
                  simp only [post]
                  by_cases hlen : len + (N + 1) + l2.length ≠ n
                  · rw [if_pos hlen,
                      if_pos (by rw [List.length_append, nameRange_length]; omega)]
                  · rw [if_neg hlen,
                      if_neg (by rw [List.length_append, nameRange_length]; omega)]
                    rfl
        · rw [dif_neg h1]
          rfl

/-- BRIDGE: erasing panic sites and costs from the checked-index model of `readCharset` gives
the value-level model of C13 on every input (every byte string, every glyph count) -/
theorem readCharset_erase (b : Bytes) (n : Nat) :
    erase (readCharset b n) = Cff.readCharset b 0 n := by
  unfold readCharset Cff.readCharset
  simp only [Nat.zero_add]
  by_cases hn : n < 1 ∨ n ≥ 0x10000
  · rw [if_pos hn, if_pos (by omega)]
    rfl
  · rw [if_neg hn, if_neg (by omega)]
    rw [u8_bind, rd1, Int.toNat_natCast]
    by_cases h1 : 0 < b.length
    · rw [dif_pos h1]
      dsimp only
      rw [beVal1, Gdef.mkSlice_ok _ _ _ (by omega), ok_bind]
      by_cases hf0 : b[0].toNat = 0
      · rw [if_pos hf0, if_pos hf0, erase_bind_ok]
        have ih := names0_erase b (n - 1) 1 ((Cost.zero.tick).mem n)
        cases hrun : names0 b (n - 1) 1 ((Cost.zero.tick).mem n) with
        | err e => rw [hrun] at ih; rw [← ih]; rfl
        | panic s => rw [hrun] at ih; rw [← ih]; rfl
        | ok r =>
          obtain ⟨l, c1⟩ := r
          rw [hrun] at ih
          rw [← ih]
          rfl
      · rw [if_neg hf0, if_neg hf0]
        by_cases hf12 : b[0].toNat = 1 ∨ b[0].toNat = 2
        · rw [if_pos hf12, if_pos hf12, erase_bind_ok]
          have ih := ranges_erase b b[0].toNat n hf12 n (n - 1) 1 (n - 1) 1 ((Cost.zero.tick).mem n)
            (by omega) (by omega) (by omega)
          rw [← ih]
          cases hrun : ranges b b[0].toNat n n 1 1 ((Cost.zero.tick).mem n) with
          | err e => rfl
          | panic s => rfl
          | ok r =>
            obtain ⟨⟨l, p⟩, c1⟩ := r
            simp only [post]
            by_cases hl : 1 + l.length ≠ n
            · rw [if_pos hl, if_pos hl]
              rfl
            · rw [if_neg hl, if_neg hl]
              rfl
        · rw [if_neg hf12, if_neg hf12]
          rfl
    · rw [dif_neg h1]
      rfl

/-! ## the caller establishes the domain of `readFDSelect_noPanic` -/

/-- `cff.Read` passes `nGlyphs = len(charStrings)`, the result of `readIndexAt` (read.go:95-101):
an INDEX has a 16-bit count, so the length is below 65536 -/
theorem readIndex_count_lt (b : Bytes) (pos : Nat) (items : List Bytes) (p : Nat) (c : Cost)
    (h : NameCff.readIndex b pos = .ok ((items, p), c)) : items.length < 65536 := by
  unfold NameCff.readIndex at h
  obtain ⟨w, _, h⟩ := bind_eq_ok h
  obtain ⟨count, hcount, h⟩ := bind_eq_ok h
  have hc := Gdef.w16_lt hcount
  dsimp only at h
  split at h
  · cases h
    simp
  obtain ⟨w1, _, h⟩ := bind_eq_ok h
  obtain ⟨os, _, h⟩ := bind_eq_ok h
  obtain ⟨⟨offsets, c1⟩, _, h⟩ := bind_eq_ok h
  dsimp only at h
  obtain ⟨total, _, h⟩ := bind_eq_ok h
  obtain ⟨c2, _, h⟩ := bind_eq_ok h
  obtain ⟨buf, _, h⟩ := bind_eq_ok h
  obtain ⟨c3, _, h⟩ := bind_eq_ok h
  obtain ⟨⟨res, c4⟩, hitems, h⟩ := bind_eq_ok h
  cases h
  have := (NameCff.items_cost _ _ _ _ _ _ _ _ hitems).1
  dsimp only
  omega

/-- `readFDSelect` as called by `cff.Read` (glyph count = length of the CharStrings INDEX read
from ANY bytes at ANY position, `nPrivate` any int) never panics -/
theorem readFDSelect_noPanic_caller (file : Bytes) (pos : Nat) (items : List Bytes) (p : Nat)
    (c : Cost) (h : NameCff.readIndex file pos = .ok ((items, p), c)) (b : Bytes) (nPrivate : Int) :
    (readFDSelect b (items.length : Int) nPrivate).noPanic := by
  have := readIndex_count_lt file pos items p c h
  exact readFDSelect_noPanic b _ nPrivate (by omega) (by omega)

end SfntV.Total.CffSets
