/-
Proofs for C11, part 3: decoding what `Encode` wrote gives the glyph list back.
-/
import SfntV.Proofs.GlyfEncode

namespace SfntV.Glyf
open SfntV

/-! ### reading words -/

theorem rd16_cons2 (a b : UInt8) (rest : Bytes) : rd16 (a :: b :: rest) 0 = a.toNat * 256 + b.toNat := by
  simp [rd16]

theorem rd16_cons_succ (a : UInt8) (l : Bytes) (k : Nat) : rd16 (a :: l) (k + 1) = rd16 l k := by
  simp [rd16]

theorem rd16_be16 (n : Nat) (rest : Bytes) (h : n < 65536) : rd16 (be16 n ++ rest) 0 = n := by
  simp [rd16, be16]; omega

theorem rd16_append (b t : Bytes) (k : Nat) (h : k + 1 < b.length) : rd16 (b ++ t) k = rd16 b k := by
  unfold rd16
  rw [List.getElem?_append_left (by omega), List.getElem?_append_left (by omega)]

/-! ### `removePadding` ignores what follows the glyph description -/

theorem getElem?_append_some (b t : Bytes) (k : Nat) (v : UInt8) (h : b[k]? = some v) :
    (b ++ t)[k]? = some v := by
  have hk : k < b.length := (List.getElem?_eq_some_iff.mp h).1
  rw [List.getElem?_append_left hk, h]

theorem rpWalk_append (b t : Bytes) (np : Nat) :
    ∀ fuel pos coord i r, rpWalk b np fuel pos coord i = some r →
      rpWalk (b ++ t) np fuel pos coord i = some r := by
  intro fuel
  induction fuel with
  | zero => intro pos coord i r h; simpa [rpWalk] using h
  | succ fuel ih =>
    intro pos coord i r h
    unfold rpWalk at h ⊢
    split
    · rename_i hi
      simp only [hi, if_true] at h
      cases hb : b[pos]? with
      | none => simp [hb] at h
      | some fl =>
        simp only [hb] at h
        simp only [getElem?_append_some b t pos fl hb]
        split
        · rename_i hr
          simp only [hr, if_true] at h
          cases hc : b[pos + 1]? with
          | none => simp [hc] at h
          | some c =>
            simp only [hc] at h
            simp only [getElem?_append_some b t (pos + 1) c hc]
            exact ih _ _ _ _ h
        · rename_i hr
          simp only [hr] at h
          exact ih _ _ _ _ h
    · rename_i hi
      simpa [hi] using h

theorem simpleLenAux_le (b : Bytes) (np start p : Nat) (h : simpleLenAux b np start = some p) :
    p ≤ b.length := by
  unfold simpleLenAux at h
  cases hw : rpWalk b np np start 0 0 with
  | none => simp [hw] at h
  | some r =>
    obtain ⟨p', coord, i⟩ := r
    simp only [hw] at h
    by_cases hc : (i ≠ np ∨ p' + coord > b.length)
    · simp [hc] at h
    · simp only [hc, if_false] at h
      injection h with h
      omega

theorem simpleLenAux_append (b t : Bytes) (np start p : Nat) (h : simpleLenAux b np start = some p) :
    simpleLenAux (b ++ t) np start = some p := by
  unfold simpleLenAux at h ⊢
  cases hw : rpWalk b np np start 0 0 with
  | none => simp [hw] at h
  | some r =>
    obtain ⟨p', coord, i⟩ := r
    simp only [hw] at h
    rw [rpWalk_append b t _ _ _ _ _ _ hw]
    simp only
    by_cases hc : (i ≠ np ∨ p' + coord > b.length)
    · simp [hc] at h
    · simp only [hc, if_false] at h
      have hc' : ¬ (i ≠ np ∨ p' + coord > (b ++ t).length) := by
        simp only [List.length_append]; omega
      simp only [hc', if_false]
      exact h

theorem simpleLen_le (nc : Nat) (b : Bytes) (p : Nat) (h : simpleLen nc b = some p) : p ≤ b.length := by
  unfold simpleLen at h
  split at h
  · cases h
  · exact simpleLenAux_le _ _ _ _ h

theorem simpleLen_append (nc : Nat) (b t : Bytes) (p : Nat) (h : simpleLen nc b = some p) :
    simpleLen nc (b ++ t) = some p := by
  unfold simpleLen at h ⊢
  split at h
  · cases h
  · rename_i hlen
    have hlen' : ¬ (b ++ t).length < 2 * nc + 2 := by simp only [List.length_append]; omega
    simp only [hlen', if_false]
    have hil : rd16 (b ++ t) (2 * nc) = rd16 b (2 * nc) := rd16_append b t _ (by omega)
    have hnp : (if nc > 0 then rd16 (b ++ t) (2 * nc - 2) + 1 else 0) =
        (if nc > 0 then rd16 b (2 * nc - 2) + 1 else 0) := by
      split
      · rw [rd16_append b t _ (by omega)]
      · rfl
    rw [hil, hnp]
    exact simpleLenAux_append _ _ _ _ _ h

theorem removePadding_append (nc : Nat) (enc t : Bytes) (h : simpleLen nc enc = some enc.length) :
    removePadding nc (enc ++ t) = some enc := by
  simp [removePadding, simpleLen_append nc enc t _ h]

/-! ### the component loop -/

theorem wfComps_cons (c : Component) (cs : List Component) (h : wfComps (c :: cs) = true) :
    wfComp c = true ∧
      ((cs = [] ∧ bit c.flags FlagMoreComponents = false) ∨
       (cs ≠ [] ∧ bit c.flags FlagMoreComponents = true ∧ wfComps cs = true)) := by
  cases cs with
  | nil => simp [wfComps] at h; simp [h]
  | cons c' cs' => simp [wfComps] at h; simp [h]

theorem encComp_parse (c : Component) (rest : Bytes) (h : wfComp c = true) :
    ¬ (encComp c ++ rest).length < 4 ∧ rd16 (encComp c ++ rest) 0 = c.flags ∧
    rd16 (encComp c ++ rest) 2 = c.gid ∧ (encComp c ++ rest).drop 4 = c.data ++ rest := by
  simp only [wfComp, Bool.and_eq_true, decide_eq_true_eq] at h
  obtain ⟨⟨hf, hg⟩, _⟩ := h
  refine ⟨by simp [encComp, be16], ?_, ?_, by simp [encComp, be16]⟩
  · simp [encComp, be16, rd16]; omega
  · simp [encComp, be16, rd16]; omega

theorem compLoop_enc (cs : List Component) :
    ∀ (fuel : Nat) (tail : Bytes), wfComps cs = true → cs.length ≤ fuel →
      compLoop fuel (cs.flatMap encComp ++ tail) = some (cs, tail) := by
  induction cs with
  | nil => intro fuel tail h; simp [wfComps] at h
  | cons c cs ih =>
    intro fuel tail h hf
    obtain ⟨hc, hrest⟩ := wfComps_cons c cs h
    cases fuel with
    | zero => simp at hf
    | succ fuel =>
      have hskip : c.data.length = compSkip c.flags := by
        simp only [wfComp, Bool.and_eq_true, decide_eq_true_eq] at hc; exact hc.2
      simp only [List.flatMap_cons, List.append_assoc]
      obtain ⟨h4, hfl, hgid, hdrop⟩ := encComp_parse c (cs.flatMap encComp ++ tail) hc
      unfold compLoop
      simp only [h4, if_false, hfl, hgid, hdrop]
      have hlen : ¬ (c.data ++ (cs.flatMap encComp ++ tail)).length < compSkip c.flags := by
        simp only [List.length_append]; omega
      simp only [hlen, if_false]
      have htake : (c.data ++ (cs.flatMap encComp ++ tail)).take (compSkip c.flags) = c.data := by
        rw [← hskip]; simp
      have hdrop2 : (c.data ++ (cs.flatMap encComp ++ tail)).drop (compSkip c.flags) =
          cs.flatMap encComp ++ tail := by
        rw [← hskip]; simp
      rw [htake, hdrop2]
      rcases hrest with ⟨hnil, hmore⟩ | ⟨_, hmore, hwf⟩
      · subst hnil
        simp [hmore]
      · simp only [hmore, if_true]
        rw [ih fuel tail hwf (by simp at hf; omega)]

theorem encComps_length_ge (cs : List Component) : cs.length ≤ (cs.flatMap encComp).length := by
  induction cs with
  | nil => simp
  | cons c cs ih =>
    simp only [List.flatMap_cons, List.length_append, List.length_cons, encComp, be16_length]
    omega

theorem padTail_length (b : Bytes) : alignUp b.length - b.length ≤ 1 := by
  unfold alignUp glyfAlign; split <;> omega

theorem decodeComposite_enc (cs : List Component) (ins : Option Bytes) (k : Nat) (hk : k ≤ 1)
    (h : wfData (.composite cs ins) = true) :
    decodeComposite (cs.flatMap encComp ++ encInstr ins ++ List.replicate k 0) = some (cs, ins) := by
  simp only [wfData, Bool.and_eq_true] at h
  obtain ⟨hcs, hins⟩ := h
  unfold decodeComposite
  rw [List.append_assoc, compLoop_enc cs _ _ hcs
    (by have := encComps_length_ge cs; simp only [List.length_append]; omega)]
  simp only
  cases ins with
  | none =>
    have : ¬ (k ≥ 2) := by omega
    simp [encInstr, this]
  | some i =>
    simp only [Bool.and_eq_true, decide_eq_true_eq] at hins
    obtain ⟨hil, hany⟩ := hins
    have hlen : (encInstr (some i) ++ List.replicate k (0 : UInt8)).length ≥ 2 := by
      simp [encInstr, be16_length]
    simp only [hany, Bool.true_and, decide_eq_true_eq, encInstr, List.append_assoc]
    rw [rd16_be16 _ _ hil]
    simp [be16]

/-! ### one glyph -/

theorem glyphHeader_eq (g : Glyph) (rest : Bytes) :
    glyphHeader g ++ rest =
      UInt8.ofNat (numContWord g.data / 256 % 256) :: UInt8.ofNat (numContWord g.data % 256) ::
      UInt8.ofNat (g.llx / 256 % 256) :: UInt8.ofNat (g.llx % 256) ::
      UInt8.ofNat (g.lly / 256 % 256) :: UInt8.ofNat (g.lly % 256) ::
      UInt8.ofNat (g.urx / 256 % 256) :: UInt8.ofNat (g.urx % 256) ::
      UInt8.ofNat (g.ury / 256 % 256) :: UInt8.ofNat (g.ury % 256) :: rest := by
  simp [glyphHeader, be16]

theorem rd16_ofNat (n : Nat) (rest : Bytes) (h : n < 65536) :
    rd16 (UInt8.ofNat (n / 256 % 256) :: UInt8.ofNat (n % 256) :: rest) 0 = n := by
  simp [rd16]; omega

theorem decodeGlyph_enc (g : Option Glyph) (h : wfGlyph g = true) :
    decodeGlyph (encGlyph g) = .ok g := by
  cases g with
  | none => simp [encGlyph, appendGlyph, decodeGlyph]
  | some g =>
    simp only [wfGlyph, Bool.and_eq_true, decide_eq_true_eq] at h
    obtain ⟨⟨⟨⟨h1, h2⟩, h3⟩, h4⟩, hd⟩ := h
    have hk := padTail_length (glyphHeader g ++ glyphBody g.data)
    generalize hkk : alignUp (glyphHeader g ++ glyphBody g.data).length -
      (glyphHeader g ++ glyphBody g.data).length = k at hk
    have henc : encGlyph (some g) = glyphHeader g ++ (glyphBody g.data ++ List.replicate k 0) := by
      simp only [encGlyph, appendGlyph, padBuf, List.nil_append, hkk, List.append_assoc]
    have hnc : numContWord g.data < 65536 := by
      cases hgd : g.data with
      | simple nc enc =>
        rw [hgd] at hd
        simp only [wfData, Bool.and_eq_true, decide_eq_true_eq] at hd
        simp [numContWord]; omega
      | composite cs ins => simp [numContWord]
    rw [henc, glyphHeader_eq]
    unfold decodeGlyph
    simp only [List.length_cons, rd16_cons_succ, rd16_ofNat _ _ h1, rd16_ofNat _ _ h2,
      rd16_ofNat _ _ h3, rd16_ofNat _ _ h4, rd16_ofNat _ _ hnc, List.drop_succ_cons, List.drop_zero]
    have hl1 : ¬ (((glyphBody g.data ++ List.replicate k (0 : UInt8)).length + 1 + 1 + 1 + 1 + 1 + 1
        + 1 + 1 + 1 + 1) = 0) := by omega
    have hl2 : ¬ (((glyphBody g.data ++ List.replicate k (0 : UInt8)).length + 1 + 1 + 1 + 1 + 1 + 1
        + 1 + 1 + 1 + 1) < 10) := by omega
    simp only [hl1, hl2, if_false]
    obtain ⟨llx, lly, urx, ury, data⟩ := g
    cases data with
    | simple nc enc =>
      simp only [wfData, Bool.and_eq_true, decide_eq_true_eq] at hd
      simp only [numContWord, glyphBody, hd.1, if_true, removePadding_append nc enc _ hd.2]
    | composite cs ins =>
      have : ¬ ((0xFFFF : Nat) < 32768) := by decide
      simp only [numContWord, glyphBody, this, if_false]
      rw [decodeComposite_enc cs ins k hk hd]

/-! ### the whole table -/

theorem decodeAll_enc (gs : Glyphs) (h : ∀ g ∈ gs, wfGlyph g = true) :
    ∀ (pre post : Bytes),
      decodeAll (pre ++ gs.flatMap encGlyph ++ post) (offsets pre.length gs) = .ok gs := by
  induction gs with
  | nil => intro pre post; simp [offsets, decodeAll]
  | cons g gs ih =>
    intro pre post
    have hg := decodeGlyph_enc g (h g (by simp))
    have hoff : offsets pre.length (g :: gs) =
        pre.length :: offsets (pre.length + encodeLen g) gs := rfl
    have hne := offsets_ne_nil (pre.length + encodeLen g) gs
    rw [hoff]
    cases hrest : offsets (pre.length + encodeLen g) gs with
    | nil => exact absurd hrest hne
    | cons b rest =>
      have hb : b = pre.length + encodeLen g := by
        have := offsets_head (pre.length + encodeLen g) gs
        rw [hrest] at this
        simpa using this
      unfold decodeAll
      have hslice : ((pre ++ (g :: gs).flatMap encGlyph ++ post).drop pre.length).take
          (b - pre.length) = encGlyph g := by
        simp only [List.flatMap_cons, List.append_assoc, List.drop_left]
        rw [hb, Nat.add_sub_cancel_left, ← encGlyph_length]
        simp
      rw [hslice, hg]
      simp only
      have := ih (fun x hx => h x (by simp [hx])) (pre ++ encGlyph g) post
      simp only [List.length_append, encGlyph_length, hrest, List.append_assoc] at this
      simp only [List.flatMap_cons, List.append_assoc]
      rw [this]

end SfntV.Glyf
