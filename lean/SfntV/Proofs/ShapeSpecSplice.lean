/-
C06, contextual lookups nested to any depth: facts about a `Splice` (one operation of the shaper
seen as the replacement of a segment by glyphs that copy its tags), for every depth.
-/
import SfntV.Proofs.ShapeSpecDeepBase2
import SfntV.Proofs.ShapeSpecMergeSpec
namespace SfntV.C06
open SfntV
open SfntV.Spec.Shape (TG gl inputPositions windowEnd)

/-! ## building and taking apart a splice -/

theorem SameTags.hasWin {y x : TG} (h : SameTags y x) (e : Nat) : x.hasWin e = y.hasWin e := by
  simp only [TG.hasWin, h.2]

theorem SameTags.hasInp {y x : TG} (h : SameTags y x) (e : Nat) : x.hasInp e = y.hasInp e := by
  simp only [TG.hasInp, h.1]

/-- the generic way to build a splice -/
theorem splice_of_eq {ts : List TG} {j : Nat} {old new R : List TG} (e : ts = ts.take j ++ old ++ R)
    (hj : j ≤ ts.length) (tags : ∀ x ∈ new, ∃ y ∈ old, SameTags y x) (ne : old ≠ []) (ne' : new ≠ []) :
    Splice ts j old new (ts.take j ++ new ++ R) := by
  have hl : (ts.take j ++ old).length = j + old.length := by
    simp only [List.length_append, List.length_take]; omega
  have hR : ts.drop (j + old.length) = R := by
    have := List.drop_left' (l₂ := R) hl
    rw [← e] at this; exact this
  have hlen : j + old.length ≤ ts.length := by
    have := congrArg List.length e
    rw [List.length_append, hl] at this
    omega
  exact ⟨by rw [hR]; exact e, by rw [hR], hlen, tags, ne, ne'⟩

/-- the three parts of a splice -/
theorem Splice.parts {ts ts' : List TG} {j : Nat} {old new : List TG} (h : Splice ts j old new ts') :
    ∃ T R, ts = T ++ old ++ R ∧ ts' = T ++ new ++ R ∧ T.length = j :=
  ⟨ts.take j, ts.drop (j + old.length), h.eq, h.eq', by
    have := h.len
    simp only [List.length_take]; omega⟩

/-! ## (W5) the operations of the shaper are splices -/

theorem splice_replace (ts : List TG) (j : Nat) (cur : TG) (dn : List TG) (hj : ts[j]? = some cur) (hne : dn ≠ [])
    (hdn : ∀ x ∈ dn, SameTags cur x) : Splice ts j [cur] dn (ts.take j ++ dn ++ ts.drop (j + 1)) := by
  have hjl : j < ts.length := (List.getElem?_eq_some_iff.mp hj).1
  exact splice_of_eq (split_at ts j cur hj) (by omega)
    (fun x hx => ⟨cur, List.mem_cons_self, hdn x hx⟩) (by simp) hne

theorem seg_eq (ts : List TG) (j n : Nat) (cur : TG) (hj : ts[j]? = some cur) :
    ts = ts.take j ++ (cur :: (ts.drop (j + 1)).take n) ++ ts.drop (j + 1 + n) := by
  have e : ts.drop (j + 1 + n) = (ts.drop (j + 1)).drop n := by rw [List.drop_drop]
  rw [e]
  simp only [List.append_assoc, List.cons_append, List.take_append_drop]
  have := split_at ts j cur hj
  simp only [List.append_assoc, List.cons_append, List.nil_append] at this
  exact this

theorem splice_merge (ts : List TG) (kp : Nat → Bool) (j used : Nat) (cur lig : TG) (hj : ts[j]? = some cur)
    (hl : SameTags cur lig) (hu : j + 1 + used ≤ ts.length) :
    Splice ts j (cur :: (ts.drop (j + 1)).take used) (lig :: ((ts.drop (j + 1)).take used).filter (fun t => !kp t.g.gid))
      (ts.take j ++ (lig :: ((ts.drop (j + 1)).take used).filter (fun t => !kp t.g.gid)) ++ ts.drop (j + 1 + used)) := by
  refine splice_of_eq (seg_eq ts j used cur hj) (by omega) ?_ (by simp) (by simp)
  intro x hx
  rcases List.mem_cons.mp hx with hx | hx
  · subst hx; exact ⟨cur, List.mem_cons_self, hl⟩
  · exact ⟨x, List.mem_cons_of_mem _ (List.mem_filter.mp hx).1, rfl, rfl⟩

theorem splice_pair1 (ts : List TG) (j jj : Nat) (cur c' : TG) (hj : ts[j]? = some cur) (hc : SameTags cur c')
    (hu : j + 1 + jj ≤ ts.length) :
    Splice ts j (cur :: (ts.drop (j + 1)).take jj) (c' :: (ts.drop (j + 1)).take jj)
      (ts.take j ++ (c' :: (ts.drop (j + 1)).take jj) ++ ts.drop (j + 1 + jj)) := by
  refine splice_of_eq (seg_eq ts j jj cur hj) (by omega) ?_ (by simp) (by simp)
  intro x hx
  rcases List.mem_cons.mp hx with hx | hx
  · subst hx; exact ⟨cur, List.mem_cons_self, hc⟩
  · exact ⟨x, List.mem_cons_of_mem _ hx, rfl, rfl⟩

theorem seg2_eq (ts : List TG) (j jj : Nat) (cur second : TG) (hj : ts[j]? = some cur)
    (hjj : ts[j + 1 + jj]? = some second) :
    ts = ts.take j ++ (cur :: (ts.drop (j + 1)).take jj ++ [second]) ++ ts.drop (j + 1 + jj + 1) := by
  have e1 := seg_eq ts j jj cur hj
  have hs : (ts.drop (j + 1 + jj))[0]? = some second := by
    rw [List.getElem?_drop]; exact hjj
  have e2 := split_at _ 0 second hs
  simp only [List.take_zero, List.nil_append, List.drop_drop] at e2
  have e3 : ts.take j ++ (cur :: (ts.drop (j + 1)).take jj ++ [second]) ++ ts.drop (j + 1 + jj + 1) =
      ts.take j ++ (cur :: (ts.drop (j + 1)).take jj) ++ ([second] ++ ts.drop (j + 1 + jj + 1)) := by
    simp only [List.append_assoc, List.cons_append, List.nil_append]
  have e4 : j + 1 + jj + (0 + 1) = j + 1 + jj + 1 := by omega
  rw [e3, ← e4, ← e2]
  exact e1

theorem splice_pair2 (ts : List TG) (j jj : Nat) (cur second c' s' : TG) (hj : ts[j]? = some cur)
    (hjj : ts[j + 1 + jj]? = some second) (hc : SameTags cur c') (hs : SameTags second s') :
    Splice ts j (cur :: (ts.drop (j + 1)).take jj ++ [second]) (c' :: (ts.drop (j + 1)).take jj ++ [s'])
      (ts.take j ++ (c' :: (ts.drop (j + 1)).take jj ++ [s']) ++ ts.drop (j + 1 + jj + 1)) := by
  have hjl : j < ts.length := (List.getElem?_eq_some_iff.mp hj).1
  refine splice_of_eq (seg2_eq ts j jj cur second hj hjj) (by omega) ?_ (by simp) (by simp)
  intro x hx
  simp only [List.cons_append, List.mem_cons, List.mem_append, List.not_mem_nil, or_false] at hx
  rcases hx with hx | hx | hx
  · subst hx; exact ⟨cur, by simp, hc⟩
  · exact ⟨x, by simp [hx], rfl, rfl⟩
  · subst hx; exact ⟨second, by simp, hs⟩

/-! ## (W4) what a splice keeps -/

theorem splice_forall (Q : TG → Prop) (hQ : ∀ y x, SameTags y x → Q y → Q x) {ts ts' : List TG} {j : Nat}
    {old new : List TG} (h : ∀ t ∈ ts, Q t) (hs : Splice ts j old new ts') : ∀ t ∈ ts', Q t := by
  obtain ⟨T, R, e, e', _⟩ := hs.parts
  subst e e'
  intro t ht
  simp only [List.mem_append] at ht h
  rcases ht with (ht | ht) | ht
  · exact h t (Or.inl (Or.inl ht))
  · obtain ⟨y, hy, hyx⟩ := hs.tags t ht
    exact hQ y t hyx (h y (Or.inl (Or.inr hy)))
  · exact h t (Or.inr ht)

theorem inpWin_splice {e : Nat} {ts ts' : List TG} {j : Nat} {old new : List TG} (h : InpWin e ts)
    (hs : Splice ts j old new ts') : InpWin e ts' :=
  splice_forall (fun t => t.hasInp e = true → t.hasWin e = true)
    (fun y x hyx hy => by rw [hyx.hasInp, hyx.hasWin]; exact hy) h hs

theorem outD_splice {e : Nat} {ts ts' : List TG} {j : Nat} {old new : List TG} (h : ∀ t ∈ ts, OutD e t)
    (hs : Splice ts j old new ts') : ∀ t ∈ ts', OutD e t :=
  splice_forall (OutD e)
    (fun y x hyx hy => ⟨by rw [hyx.hasWin]; exact hy.1, by rw [hyx.hasInp]; exact hy.2⟩) h hs

theorem splice_take {ts ts' : List TG} {j : Nat} {old new : List TG} (hs : Splice ts j old new ts') (a : Nat)
    (ha : a ≤ j) : ts'.take a = ts.take a := by
  obtain ⟨T, R, e, e', hT⟩ := hs.parts
  rw [e, e', List.append_assoc, List.append_assoc, List.take_append_of_le_length (by omega),
    List.take_append_of_le_length (by omega)]

theorem splice_length {ts ts' : List TG} {j : Nat} {old new : List TG} (hs : Splice ts j old new ts') :
    ts'.length + old.length = ts.length + new.length := by
  obtain ⟨T, R, e, e', _⟩ := hs.parts
  rw [e, e']
  simp only [List.length_append]
  omega

/-! ## (W2) the end of the window -/

theorem windowEnd_le_length {e : Nat} (ts : List TG) : windowEnd e ts ≤ ts.length := by
  unfold windowEnd; omega

theorem takeWhile_append_of_exists {α : Type} (p : α → Bool) : ∀ (l r : List α), (∃ x ∈ l, p x = false) →
    (l ++ r).takeWhile p = l.takeWhile p := by
  intro l
  induction l with
  | nil => intro r ⟨x, hx, _⟩; cases hx
  | cons a l ih =>
    intro r ⟨x, hx, hpx⟩
    rw [List.cons_append]
    cases hpa : p a with
    | false => rw [List.takeWhile_cons_of_neg (by simp [hpa]), List.takeWhile_cons_of_neg (by simp [hpa])]
    | true =>
      rw [List.takeWhile_cons_of_pos hpa, List.takeWhile_cons_of_pos hpa]
      rcases List.mem_cons.mp hx with hx | hx
      · subst hx; rw [hpa] at hpx; cases hpx
      · rw [ih r ⟨x, hx, hpx⟩]

/-- no glyph of the window after `X` -/
theorem windowEnd_append_none {e : Nat} (X Y : List TG) (h : ∀ y ∈ Y, y.hasWin e = false) :
    windowEnd e (X ++ Y) = windowEnd e X := by
  unfold windowEnd
  have hY : ∀ t ∈ Y.reverse, (!t.hasWin e) = true := by
    intro t ht
    rw [h t (List.mem_reverse.mp ht)]; rfl
  rw [List.reverse_append, List.takeWhile_append_of_pos hY]
  simp only [List.length_append, List.length_reverse]
  omega

/-- a glyph of the window after `X` -/
theorem windowEnd_append_some {e : Nat} (X Y : List TG) (h : ∃ y ∈ Y, y.hasWin e = true) :
    windowEnd e (X ++ Y) = X.length + windowEnd e Y := by
  unfold windowEnd
  obtain ⟨y, hy, hw⟩ := h
  rw [List.reverse_append, takeWhile_append_of_exists _ _ _ ⟨y, List.mem_reverse.mpr hy, by rw [hw]; rfl⟩]
  have := (List.takeWhile_sublist (l := Y.reverse) (fun t : TG => !t.hasWin e)).length_le
  rw [List.length_reverse] at this
  simp only [List.length_append]
  omega

/-- the buffer ends with glyphs of the window -/
theorem windowEnd_append_all {e : Nat} (X A : List TG) (h : ∀ x ∈ A, x.hasWin e = true) (hne : A ≠ []) :
    windowEnd e (X ++ A) = X.length + A.length := by
  have hex : ∃ y ∈ A, y.hasWin e = true := by
    cases A with
    | nil => exact absurd rfl hne
    | cons x r => exact ⟨x, List.mem_cons_self, h x List.mem_cons_self⟩
  rw [windowEnd_append_some X A hex]
  congr 1
  unfold windowEnd
  have hne' : A.reverse ≠ [] := by simpa using hne
  cases hr : A.reverse with
  | nil => exact absurd hr hne'
  | cons x r =>
    have hx : x ∈ A := List.mem_reverse.mp (by rw [hr]; exact List.mem_cons_self)
    rw [List.takeWhile_cons_of_neg (by rw [h x hx]; decide)]
    simp

theorem some_or_none (e : Nat) (R : List TG) : (∃ y ∈ R, y.hasWin e = true) ∨ (∀ y ∈ R, y.hasWin e = false) := by
  induction R with
  | nil => exact Or.inr (fun y hy => by cases hy)
  | cons t R ih =>
    cases ht : t.hasWin e with
    | true => exact Or.inl ⟨t, List.mem_cons_self, ht⟩
    | false =>
      rcases ih with ⟨y, hy, hw⟩ | ih
      · exact Or.inl ⟨y, List.mem_cons_of_mem _ hy, hw⟩
      · refine Or.inr (fun y hy => ?_)
        rcases List.mem_cons.mp hy with hy | hy
        · subst hy; exact ht
        · exact ih y hy

theorem hasWin_lt {e : Nat} {ts : List TG} (i : Nat) (t : TG) (hi : ts[i]? = some t) (hw : t.hasWin e = true) :
    i < windowEnd e ts := by
  have hil : i < ts.length := (List.getElem?_eq_some_iff.mp hi).1
  have hl : (ts.take i).length = i := by simp only [List.length_take]; omega
  rw [split_at ts i t hi]
  generalize ts.take i = X at hl
  generalize ts.drop (i + 1) = Y
  rcases some_or_none e Y with hY | hY
  · rw [windowEnd_append_some _ _ hY]
    simp only [List.length_append, List.length_cons, List.length_nil]
    omega
  · rw [windowEnd_append_none _ _ hY, windowEnd_append_all X [t] (by simp [hw]) (by simp)]
    simp only [List.length_cons, List.length_nil]
    omega

theorem inpWin_lt {e : Nat} {ts : List TG} (h : InpWin e ts) (p : Nat) (hp : p ∈ inputPositions e ts) :
    p < windowEnd e ts := by
  obtain ⟨t, ht, hi⟩ := inputPositions_get e ts p hp
  exact hasWin_lt p t ht (h t (List.mem_of_getElem? ht) hi)

/-! ## (W1) the end of the window after a splice -/

theorem windowEnd_splice {e : Nat} {ts ts' : List TG} {j : Nat} {old new : List TG} (h : Splice ts j old new ts')
    (hold : ∀ x ∈ old, x.hasWin e = true) :
    windowEnd e ts' + old.length = windowEnd e ts + new.length := by
  have hnew : ∀ x ∈ new, x.hasWin e = true := by
    intro x hx
    obtain ⟨y, hy, hyx⟩ := h.tags x hx
    rw [hyx.hasWin]; exact hold y hy
  obtain ⟨T, R, e1, e2, _⟩ := h.parts
  rw [e1, e2]
  rcases some_or_none e R with hR | hR
  · rw [windowEnd_append_some _ _ hR, windowEnd_append_some _ _ hR]
    simp only [List.length_append]
    omega
  · rw [windowEnd_append_none _ _ hR, windowEnd_append_none _ _ hR,
      windowEnd_append_all T old hold h.ne, windowEnd_append_all T new hnew h.ne']
    omega

/-! ## (W3) the shape of the buffer after a splice inside the window -/

theorem formD_splice {d a : Nat} {P A D ts ts' : List TG} {j : Nat} {old new : List TG} (h : FormD d a P A D ts)
    (hs : Splice ts j old new ts') (ha : a ≤ j) (hb : j + old.length ≤ a + A.length) :
    ∃ A', FormD d a P A' D ts' ∧ A'.length + old.length = A.length + new.length ∧ A' ≠ [] := by
  have hlen := h.len
  have e0 : j = P.length + (j - a) := by omega
  have e1 : j + old.length = P.length + (j - a + old.length) := by omega
  have htake : ts.take j = P ++ A.take (j - a) := by
    conv => lhs; rw [h.eq, List.append_assoc, e0, List.take_length_add_append]
    rw [List.take_append_of_le_length (by omega)]
  have hdrop : ts.drop (j + old.length) = A.drop (j - a + old.length) ++ D := by
    rw [h.eq, List.append_assoc, e1, List.drop_length_add_append, List.drop_append_of_le_length (by omega)]
  have hA : A = A.take (j - a) ++ old ++ A.drop (j - a + old.length) := by
    have e := hs.eq
    rw [htake, hdrop] at e
    have e' : P ++ A ++ D = P ++ (A.take (j - a) ++ old ++ A.drop (j - a + old.length)) ++ D := by
      rw [← h.eq, e]
      simp only [List.append_assoc]
    exact List.append_cancel_left (List.append_cancel_right e')
  have hold : ∀ x ∈ old, x.hasWin d = true := by
    intro x hx
    apply h.inA x
    rw [hA]
    simp only [List.mem_append]
    exact Or.inl (Or.inr hx)
  refine ⟨A.take (j - a) ++ new ++ A.drop (j - a + old.length), ⟨?_, hlen, h.outP, ?_, h.outD⟩, ?_, ?_⟩
  · rw [hs.eq', htake, hdrop]
    simp only [List.append_assoc]
  · intro x hx
    simp only [List.mem_append] at hx
    rcases hx with (hx | hx) | hx
    · exact h.inA x (List.mem_of_mem_take hx)
    · obtain ⟨y, hy, hyx⟩ := hs.tags x hx
      rw [hyx.hasWin]; exact hold y hy
    · exact h.inA x (List.mem_of_mem_drop hx)
  · simp only [List.length_append, List.length_take, List.length_drop]
    omega
  · intro hnil
    have := congrArg List.length hnil
    have hn : new.length ≠ 0 := by
      intro h0; exact hs.ne' (List.eq_nil_of_length_eq_zero h0)
    simp only [List.length_append, List.length_nil] at this
    omega

/-! ## (W6) the same tags position by position -/

theorem ipk_same (e : Nat) : ∀ (ts ts' : List TG) (k : Nat),
    ts.map (fun t => t.hasInp e) = ts'.map (fun t => t.hasInp e) → ipk e ts k = ipk e ts' k := by
  intro ts
  induction ts with
  | nil =>
    intro ts' k h
    cases ts' with
    | nil => rfl
    | cons t' ts' => simp at h
  | cons t ts ih =>
    intro ts' k h
    cases ts' with
    | nil => simp at h
    | cons t' ts' =>
      simp only [List.map_cons, List.cons.injEq] at h
      rw [ipk_cons, ipk_cons, h.1, ih ts' (k + 1) h.2]

theorem inputPositions_same {e : Nat} {ts ts' : List TG}
    (h : ts.map (fun t => t.hasInp e) = ts'.map (fun t => t.hasInp e)) :
    inputPositions e ts = inputPositions e ts' := by
  rw [inputPositions_eq_ipk, inputPositions_eq_ipk]
  exact ipk_same e ts ts' 0 h

theorem pair1_tags (ts : List TG) (j jj : Nat) (cur c' : TG) (hj : ts[j]? = some cur) (hc : SameTags cur c') :
    tagsOf (ts.take j ++ (c' :: (ts.drop (j + 1)).take jj) ++ ts.drop (j + 1 + jj)) = tagsOf ts := by
  conv => rhs; rw [seg_eq ts j jj cur hj]
  simp only [tagsOf_append, tagsOf_cons, hc.1, hc.2]

set_option linter.unusedVariables false in
theorem pair1_same {e : Nat} (ts : List TG) (j jj : Nat) (cur c' : TG) (hj : ts[j]? = some cur)
    (hc : SameTags cur c') (hu : j + 1 + jj ≤ ts.length) :
    inputPositions e (ts.take j ++ (c' :: (ts.drop (j + 1)).take jj) ++ ts.drop (j + 1 + jj)) = inputPositions e ts ∧
    windowEnd e (ts.take j ++ (c' :: (ts.drop (j + 1)).take jj) ++ ts.drop (j + 1 + jj)) = windowEnd e ts :=
  ⟨inputPositions_congr e _ _ (pair1_tags ts j jj cur c' hj hc),
   windowEnd_congr e _ _ (pair1_tags ts j jj cur c' hj hc)⟩

theorem pair2_tags (ts : List TG) (j jj : Nat) (cur second c' s' : TG) (hj : ts[j]? = some cur)
    (hjj : ts[j + 1 + jj]? = some second) (hc : SameTags cur c') (hs : SameTags second s') :
    tagsOf (ts.take j ++ (c' :: (ts.drop (j + 1)).take jj ++ [s']) ++ ts.drop (j + 1 + jj + 1)) = tagsOf ts := by
  conv => rhs; rw [seg2_eq ts j jj cur second hj hjj]
  simp only [tagsOf_append, tagsOf_cons, tagsOf_nil, List.cons_append, hc.1, hc.2, hs.1, hs.2]

theorem pair2_same {e : Nat} (ts : List TG) (j jj : Nat) (cur second c' s' : TG) (hj : ts[j]? = some cur)
    (hjj : ts[j + 1 + jj]? = some second) (hc : SameTags cur c') (hs : SameTags second s') :
    inputPositions e (ts.take j ++ (c' :: (ts.drop (j + 1)).take jj ++ [s']) ++ ts.drop (j + 1 + jj + 1)) =
      inputPositions e ts ∧
    windowEnd e (ts.take j ++ (c' :: (ts.drop (j + 1)).take jj ++ [s']) ++ ts.drop (j + 1 + jj + 1)) =
      windowEnd e ts :=
  ⟨inputPositions_congr e _ _ (pair2_tags ts j jj cur second c' s' hj hjj hc hs),
   windowEnd_congr e _ _ (pair2_tags ts j jj cur second c' s' hj hjj hc hs)⟩

end SfntV.C06
