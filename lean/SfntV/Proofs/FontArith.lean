/-
C01 — arithmetic and string facts about the helpers in Model/FontMeta.lean and
Model/FontDerive.lean (version strings, 16.16 rounding, int16 conversion, head times,
`Subfamily()` words).  Used by Proofs/FontRoundTrip.lean.
-/
import SfntV.Model.FontMerge

namespace SfntV.Font

/-! ## versions -/

private theorem roundHalfEven_cases (n d q r : Nat) (hq : n / d = q) (hr : n % d = r) :
    (2 * r < d ∧ roundHalfEven n d = q) ∨ (2 * r > d ∧ roundHalfEven n d = q + 1) ∨
    (2 * r = d ∧ (roundHalfEven n d = q ∨ roundHalfEven n d = q + 1)) := by
  subst hq hr
  unfold roundHalfEven
  by_cases h1 : 2 * (n % d) < d
  · left; exact ⟨h1, if_pos h1⟩
  · by_cases h2 : 2 * (n % d) > d
    · right; left; refine ⟨h2, ?_⟩
      show (if 2 * (n % d) < d then n / d else if 2 * (n % d) > d then n / d + 1 else _) = _
      rw [if_neg h1, if_pos h2]
    · right; right
      refine ⟨by omega, ?_⟩
      show (if 2 * (n % d) < d then n / d else if 2 * (n % d) > d then n / d + 1 else 
        if n / d % 2 = 0 then n / d else n / d + 1) = _ ∨ _
      rw [if_neg h1, if_neg h2]
      by_cases h3 : n / d % 2 = 0
      · left; rw [if_pos h3]
      · right; rw [if_neg h3]

private theorem verThousandths_le (v : Nat) (h : v < 4294967296) : verThousandths v ≤ 65536000 := by
  unfold verThousandths
  have hd := Nat.div_add_mod (v * 1000) 65536
  have hl := Nat.mod_lt (v * 1000) (show 65536 > 0 by decide)
  rcases roundHalfEven_cases (v * 1000) 65536 _ _ rfl rfl with ⟨h1, h2⟩ | ⟨h1, h2⟩ | ⟨h1, h2 | h2⟩ <;> rw [h2] <;>
  omega

/-- `Version.Round()`'s first rounding -/
private def verK (w : Nat) : Nat := (2 * (w * 1000) + 65536) / (2 * 65536)

private theorem verRound_eq (w : Nat) : verRound w = verOfDecimal (verK w) 3 := by
  simp only [verRound, verOfDecimal, verK, Nat.reducePow]
  congr 2
  omega

private theorem verOfDecimal3_lt (k : Nat) (hk : k < 65536000) :
    verOfDecimal k 3 = (2 * k * 65536 + 1000) / 2000 := by
  simp only [verOfDecimal, Nat.reducePow, Nat.reduceMul]
  omega

private theorem verK_verOfDecimal (k : Nat) (hk : k < 65536000) : verK (verOfDecimal k 3) = k := by
  rw [verOfDecimal3_lt k hk]
  unfold verK
  generalize hm : (2 * k * 65536 + 1000) / 2000 = m
  omega

private theorem verThousandths_verOfDecimal (k : Nat) (hk : k < 65536000) :
    verThousandths (verOfDecimal k 3) = k := by
  rw [verOfDecimal3_lt k hk]
  unfold verThousandths
  generalize hm : (2 * k * 65536 + 1000) / 2000 = m
  have h1 : 2000 * m ≤ 2 * k * 65536 + 1000 := by omega
  have h2 : 2 * k * 65536 + 1000 < 2000 * m + 2000 := by omega
  clear hm
  have hd := Nat.div_add_mod (m * 1000) 65536
  have hl := Nat.mod_lt (m * 1000) (show 65536 > 0 by decide)
  rcases roundHalfEven_cases (m * 1000) 65536 _ _ rfl rfl with ⟨h1, h2⟩ | ⟨h1, h2⟩ | ⟨h1, h2 | h2⟩ <;> rw [h2] <;>
  omega

private theorem verK_le (v : Nat) (h : v < 4294967296) : verK v ≤ 65536000 := by
  unfold verK; omega

/-- a version re-read from its own three-decimal string is unchanged by `Round()` -/
theorem verRound_nfVersion (v : Nat) (h : v < 4294967296) : verRound (nfVersion v) = nfVersion v := by
  unfold nfVersion
  have hk := verThousandths_le v h
  generalize verThousandths v = k at hk
  by_cases h1 : k = 65536000
  · subst h1; decide
  · rw [verRound_eq, verK_verOfDecimal k (by omega)]

/-- a rounded version survives being printed with three decimals and parsed again -/
theorem nfVersion_verRound (v : Nat) (h : v < 4294967296) : nfVersion (verRound v) = verRound v := by
  rw [verRound_eq]
  unfold nfVersion
  have hk := verK_le v h
  generalize verK v = k at hk
  by_cases h1 : k = 65536000
  · subst h1; decide
  · rw [verThousandths_verOfDecimal k (by omega)]

/-! ### decimal printing and parsing -/

private theorem digitChar_spec (n : Nat) :
    isDigit (digitChar n) = true ∧ (digitChar n).toNat - 48 = n % 10 := by
  unfold digitChar
  have h : n % 10 < 10 := Nat.mod_lt _ (by decide)
  generalize n % 10 = m at h
  have : m = 0 ∨ m = 1 ∨ m = 2 ∨ m = 3 ∨ m = 4 ∨ m = 5 ∨ m = 6 ∨ m = 7 ∨ m = 8 ∨ m = 9 := by omega
  rcases this with h | h | h | h | h | h | h | h | h | h <;> subst h <;> decide

private theorem isDigit_digitChar (n : Nat) : isDigit (digitChar n) = true := (digitChar_spec n).1
private theorem digitChar_val (n : Nat) : (digitChar n).toNat - 48 = n % 10 := (digitChar_spec n).2

private theorem decRev_digits (fuel n : Nat) : ∀ c ∈ decRev fuel n, isDigit c = true := by
  induction fuel generalizing n with
  | zero => intro c hc; simp [decRev] at hc
  | succ f ih =>
    intro c hc
    unfold decRev at hc
    split at hc
    · simp at hc; subst hc; exact isDigit_digitChar n
    · rcases List.mem_cons.1 hc with h | h
      · subst h; exact isDigit_digitChar n
      · exact ih _ c h

private theorem decStr_digits (n : Nat) : ∀ c ∈ decStr n, isDigit c = true := by
  intro c hc
  exact decRev_digits _ _ c (List.mem_reverse.1 hc)

private theorem decStr_ne_nil (n : Nat) : decStr n ≠ [] := by
  unfold decStr decRev
  split <;> simp

private def digVal (c : Char) (a : Nat) : Nat := 10 * a + (c.toNat - 48)

private theorem decVal_reverse (s : Str) : decVal s.reverse = s.foldr digVal 0 := by
  unfold decVal
  rw [List.foldl_reverse]
  rfl

private theorem decRev_val (fuel n : Nat) (h : n < fuel) : (decRev fuel n).foldr digVal 0 = n := by
  induction fuel generalizing n with
  | zero => omega
  | succ f ih =>
    unfold decRev
    split
    · simp only [List.foldr, digVal, digitChar_val]; omega
    · simp only [List.foldr]
      rw [ih (n / 10) (by omega)]
      simp only [digVal, digitChar_val]; omega

private theorem decVal_decStr (n : Nat) : decVal (decStr n) = n := by
  unfold decStr
  rw [decVal_reverse, decRev_val _ _ (Nat.lt_succ_self n)]

private theorem decVal_append_pad3 (a : Str) (m : Nat) (hm : m < 1000) :
    decVal (a ++ pad3 m) = decVal a * 1000 + m := by
  unfold decVal pad3
  rw [List.foldl_append]
  simp only [List.foldl, digitChar_val]
  omega

private theorem takeWhile_digits (ds rest : Str) (h : ∀ c ∈ ds, isDigit c = true) :
    (ds ++ '.' :: rest).takeWhile isDigit = ds ∧ (ds ++ '.' :: rest).dropWhile isDigit = '.' :: rest := by
  induction ds with
  | nil =>
    have hd : isDigit '.' = false := by decide
    exact ⟨by simp [hd], by simp [hd]⟩
  | cons c cs ih =>
    have hc := h c List.mem_cons_self
    have := ih (fun x hx => h x (List.mem_cons_of_mem _ hx))
    simp [hc, this]

private theorem takeWhile_all (ds : Str) (h : ∀ c ∈ ds, isDigit c = true) :
    ds.takeWhile isDigit = ds := by
  induction ds with
  | nil => rfl
  | cons c cs ih =>
    simp [List.takeWhile, h c List.mem_cons_self, ih (fun x hx => h x (List.mem_cons_of_mem _ hx))]

/-- the regular expression of `VersionFromString` recovers the thousandths printed by `String()` -/
theorem verParse_verString (v : Nat) : verParse (s_VersionSp ++ verString v) = some (nfVersion v) := by
  unfold nfVersion verString
  simp only []
  generalize verThousandths v = k
  have hm : k % 1000 < 1000 := Nat.mod_lt _ (by decide)
  have hp : ∀ c ∈ pad3 (k % 1000), isDigit c = true := by
    intro c hc
    simp only [pad3, List.mem_cons, List.not_mem_nil, or_false] at hc
    rcases hc with h | h | h <;> subst h <;> exact isDigit_digitChar _
  have ht := takeWhile_digits (decStr (k / 1000)) (pad3 (k % 1000)) (decStr_digits _)
  have hne := decStr_ne_nil (k / 1000)
  have hv : decVal (decStr (k / 1000) ++ pad3 (k % 1000)) = k := by
    rw [decVal_append_pad3 _ _ hm, decVal_decStr]; omega
  have hpl : (pad3 (k % 1000)).length = 3 := rfl
  have hpe : (pad3 (k % 1000)).isEmpty = false := rfl
  have hpre : s_VersionSp.isPrefixOf (s_VersionSp ++ (decStr (k / 1000) ++ '.' :: pad3 (k % 1000))) = true := by
    simp [s_VersionSp, List.isPrefixOf]
  have hdrop : (s_VersionSp ++ (decStr (k / 1000) ++ '.' :: pad3 (k % 1000))).drop 8
      = decStr (k / 1000) ++ '.' :: pad3 (k % 1000) := rfl
  unfold verParse
  simp only [hpre, if_true, hdrop, ht.1, ht.2, takeWhile_all _ hp, hpe, hv, hpl]
  cases hd : decStr (k / 1000) with
  | nil => exact absurd hd hne
  | cons a b => simp [List.isEmpty]

/-! ## fixed point and integer conversions -/

theorem round16_fix16 (n : Int) : Dy.round16 ⟨n, 16⟩ = n := by
  simp only [Dy.round16, roundHalfAway, Nat.reducePow]
  split <;> omega

theorem round16_of_isZero (d : Dy) (h : d.isZero = true) : d.round16 = 0 := by
  have h0 : d.num = 0 := by simpa [Dy.isZero] using h
  have hp : 0 < 2 ^ d.exp := Nat.pow_pos (by decide)
  simp only [Dy.round16, roundHalfAway, h0]
  generalize 2 ^ d.exp = p at hp
  have : p / (2 * p) = 0 := Nat.div_eq_of_lt (by omega)
  simp [this]

theorem toInt32_zero_of_isZero (d : Dy) (h : d.isZero = true) : toInt32 d.round16 = 0 := by
  rw [round16_of_isZero d h]; decide

theorem round_ofInt (n : Int) : (Dy.ofInt n).round = n := by
  show roundHalfAway n (2 ^ 0) = n
  simp only [roundHalfAway, Nat.pow_zero]
  split <;> omega

theorem trunc_ofInt (n : Int) : (Dy.ofInt n).trunc = n := by
  simp [Dy.trunc, Dy.ofInt]

theorem toInt16_range (t : Int) : -32768 ≤ toInt16 t ∧ toInt16 t ≤ 32767 := by
  unfold toInt16 wrap16
  split <;> omega

theorem toInt16_of_range (t : Int) (h : -32768 ≤ t ∧ t ≤ 32767) : toInt16 t = t := by
  unfold toInt16 wrap16
  split <;> omega

theorem toInt32_of_range (t : Int) (h : -2147483648 ≤ t ∧ t < 2147483648) : toInt32 t = t := by
  unfold toInt32
  split <;> omega

theorem toInt32_range (t : Int) : -2147483648 ≤ toInt32 t ∧ toInt32 t < 2147483648 := by
  unfold toInt32
  split <;> omega

/-! ## head times -/

private theorem decodeTime_encode_decode (e : Int) : decodeTime (encodeTime (decodeTime e)) = decodeTime e := by
  by_cases h : e = 0
  · subst h; decide
  · by_cases h2 : epoch1904 + e = zeroSec
    · have : e = zeroSec - epoch1904 := by omega
      subst this; decide
    · have h1 : decodeTime e = ⟨epoch1904 + e, 0⟩ := by simp [decodeTime, h]
      have h3 : encodeTime ⟨epoch1904 + e, 0⟩ = e := by
        simp [encodeTime, Time.isZero, h2]; omega
      rw [h1, h3, h1]

theorem decode_encode_idem (t : Time) :
    decodeTime (encodeTime (decodeTime (encodeTime t))) = decodeTime (encodeTime t) :=
  decodeTime_encode_decode _

/-- whole seconds other than the 1904 epoch survive -/
theorem decode_encode_id (t : Time) (hn : t.nsec = 0) (he : t.sec ≠ epoch1904) :
    decodeTime (encodeTime t) = t := by
  obtain ⟨s, n⟩ := t
  simp only at hn he
  subst hn
  by_cases h : s = zeroSec
  · subst h; decide
  · have h1 : encodeTime ⟨s, 0⟩ = s - epoch1904 := by simp [encodeTime, Time.isZero, h]
    have h2 : s - epoch1904 ≠ 0 := by omega
    rw [h1]; simp only [decodeTime, h2, if_false]
    congr 1; omega

/-! ## weights -/

theorem weightFromString_weightString_zero : weightFromString (weightString 0) = 0 := by
  decide

/-- the nine words `Weight.SimpleString()` can return -/
def weightWords : List Str :=
  [s_Thin, s_ExtraLight, s_Light, s_Normal, s_Medium, s_SemiBold, s_Bold, s_ExtraBold, s_Black]

theorem weightSimple_mem (w : Nat) : weightSimple w ∈ weightWords := by
  unfold weightSimple
  have h : ∃ k, k < 9 ∧ weightRounded w = (k + 1) * 100 := by
    unfold weightRounded
    split
    · exact ⟨0, by omega, by omega⟩
    · split
      · exact ⟨8, by omega, by omega⟩
      · exact ⟨(w + 50) / 100 - 1, by omega, by omega⟩
  obtain ⟨k, hk, he⟩ := h
  rw [he]
  have : k = 0 ∨ k = 1 ∨ k = 2 ∨ k = 3 ∨ k = 4 ∨ k = 5 ∨ k = 6 ∨ k = 7 ∨ k = 8 := by omega
  rcases this with h | h | h | h | h | h | h | h | h <;> subst h <;> decide

/-! ## `Subfamily()` for width classes 0..9 -/

private def wtOptions : List (Option (Str × Bool)) :=
  none :: (weightWords.map fun t => some (t, false)) ++ (weightWords.map fun t => some (t, true))

private theorem wt_mem (wt : Option (Str × Bool)) (hwt : ∀ p, wt = some p → p.1 ∈ weightWords) :
    wt ∈ wtOptions := by
  unfold wtOptions
  cases wt with
  | none => exact List.mem_cons_self
  | some p =>
    obtain ⟨t, s⟩ := p
    have := hwt (t, s) rfl
    apply List.mem_cons_of_mem
    cases s
    · exact List.mem_append_left _ (List.mem_map.2 ⟨t, this, rfl⟩)
    · exact List.mem_append_right _ (List.mem_map.2 ⟨t, this, rfl⟩)

private theorem width_mem (width : Nat) (hw : width ≤ 9) : width ∈ List.range 10 := by
  simp [List.mem_range]; omega

private theorem italic_all : ∀ width ∈ List.range 10, ∀ wt ∈ wtOptions, ∀ b o i : Bool,
    hasInfix s_Italic (subfamilyCore width wt b o i) = (i && !o) := by
  decide +kernel

private theorem bold_all : ∀ width ∈ List.range 10, ∀ wt ∈ wtOptions, ∀ b o i : Bool,
    boldWord (subfamilyCore width wt b o i) =
      (match wt with
       | none => b
       | some (tag, seen) => decide (tag = s_Bold) && !seen) := by
  decide +kernel

/-- "Italic" occurs in the subfamily string exactly when the Italic word was appended -/
theorem subfamilyCore_italic_small (width : Nat) (hw : width ≤ 9) (wt : Option (Str × Bool))
    (hwt : ∀ p, wt = some p → p.1 ∈ weightWords) (b o i : Bool) :
    hasInfix s_Italic (subfamilyCore width wt b o i) = (i && !o) :=
  italic_all width (width_mem width hw) wt (wt_mem wt hwt) b o i

/-- the reader's Bold rule applied to a subfamily string built by `Subfamily()` -/
theorem subfamilyCore_bold_small (width : Nat) (hw : width ≤ 9) (wt : Option (Str × Bool))
    (hwt : ∀ p, wt = some p → p.1 ∈ weightWords) (b o i : Bool) :
    boldWord (subfamilyCore width wt b o i) =
      (match wt with
       | none => b
       | some (tag, seen) => decide (tag = s_Bold) && !seen) := by
  have h := bold_all width (width_mem width hw) wt (wt_mem wt hwt) b o i
  cases wt with
  | none => exact h
  | some p => obtain ⟨t, s⟩ := p; exact h

/-! ## `Subfamily()` for every width class: classes outside 0..9 print as "Width(n)" -/

/-- closed form of the reader's Bold rule on a `Subfamily()` string -/
def boldClosed (wt : Option (Str × Bool)) (b : Bool) : Bool :=
  match wt with
  | none => b
  | some (tag, seen) => decide (tag = s_Bold) && !seen

/-- first letters of the weight words and of the reader's patterns, and the word separator -/
def capitals : List Char := ['T', 'E', 'L', 'N', 'M', 'S', 'B', 'I', ' ']

/-- none of them occurs in "Width(n)" -/
theorem widthString_big_clean (w : Nat) (h : 9 < w) : ∀ c ∈ widthString w, c ∉ capitals := by
  have hws : widthString w = "Width(".toList ++ decStr w ++ [')'] := by
    unfold widthString
    have h1 : w ≠ 1 := by omega
    have h2 : w ≠ 2 := by omega
    have h3 : w ≠ 3 := by omega
    have h4 : w ≠ 4 := by omega
    have h5 : w ≠ 5 := by omega
    have h6 : w ≠ 6 := by omega
    have h7 : w ≠ 7 := by omega
    have h8 : w ≠ 8 := by omega
    have h9 : w ≠ 9 := by omega
    simp only [h1, h2, h3, h4, h5, h6, h7, h8, h9, if_false]
  rw [hws]
  intro c hc
  simp only [List.mem_append, List.mem_singleton] at hc
  rcases hc with (hc | hc) | hc
  · have : ∀ c ∈ "Width(".toList, c ∉ capitals := by decide
    exact this c hc
  · have hd := decStr_digits w c hc
    intro hcap
    have : ∀ c ∈ capitals, isDigit c = false := by decide
    rw [this c hcap] at hd
    cases hd
  · subst hc; decide

theorem hasInfix_skip (c0 : Char) (p' W R : Str) (h : c0 ∉ W) :
    hasInfix (c0 :: p') (W ++ R) = hasInfix (c0 :: p') R := by
  induction W with
  | nil => rfl
  | cons w W' ih =>
    have hne : (c0 == w) = false := by
      simp only [beq_eq_false_iff_ne, ne_eq]
      intro he; exact h (he ▸ List.mem_cons_self)
    have hW' : c0 ∉ W' := fun hm => h (List.mem_cons_of_mem _ hm)
    show hasInfix (c0 :: p') (w :: (W' ++ R)) = _
    rw [show hasInfix (c0 :: p') (w :: (W' ++ R)) =
        ((c0 :: p').isPrefixOf (w :: (W' ++ R)) || hasInfix (c0 :: p') (W' ++ R)) from rfl]
    simp only [List.isPrefixOf, hne, Bool.false_and, Bool.false_or]
    exact ih hW'

theorem hasInfix_none (c0 : Char) (p' W : Str) (h : c0 ∉ W) : hasInfix (c0 :: p') W = false := by
  have := hasInfix_skip c0 p' W [] h
  rw [List.append_nil] at this
  rw [this]; rfl

/-- with a width word "Width(n)" in front, the words are those of width class 0 -/
theorem subfamilyWordsCore_big (w : Nat) (h : 9 < w) (wt : Option (Str × Bool))
    (hwt : ∀ p, wt = some p → p.1 ∈ weightWords) (b o i : Bool) :
    subfamilyWordsCore w wt b o i = widthString w :: subfamilyWordsCore 0 wt b o i := by
  have hclean := widthString_big_clean w h
  have hw0 : w ≠ 0 ∧ w ≠ 5 := by omega
  unfold subfamilyWordsCore
  simp only [hw0, ne_eq, not_false_eq_true, and_self, if_true, not_true_eq_false, false_and, if_false]
  cases wt with
  | none => cases b <;> cases o <;> cases i <;> rfl
  | some p =>
    obtain ⟨tag, seen⟩ := p
    have htag := hwt (tag, seen) rfl
    have hno : hasInfix tag (widthString w) = false := by
      simp only [weightWords, List.mem_cons, List.not_mem_nil, or_false] at htag
      rcases htag with rfl | rfl | rfl | rfl | rfl | rfl | rfl | rfl | rfl <;>
        (apply hasInfix_none; intro hm; exact hclean _ hm (by decide))
    simp only [List.any_cons, List.any_nil, hno, Bool.or_false]
    cases seen <;> cases o <;> cases i <;> simp

/-- a pattern that starts with one of the capitals occurs in the subfamily string of a width class
above 9 exactly when it occurs in that of width class 0 -/
theorem subfamilyCore_big (w : Nat) (h : 9 < w) (wt : Option (Str × Bool))
    (hwt : ∀ p, wt = some p → p.1 ∈ weightWords) (b o i : Bool) (c0 : Char) (p' : Str)
    (hc : c0 ∈ capitals) (hsp : c0 ≠ ' ') (hreg : hasInfix (c0 :: p') s_Regular = false) :
    hasInfix (c0 :: p') (subfamilyCore w wt b o i) = hasInfix (c0 :: p') (subfamilyCore 0 wt b o i) := by
  have hclean : c0 ∉ widthString w := fun hm => widthString_big_clean w h c0 hm hc
  unfold subfamilyCore
  rw [subfamilyWordsCore_big w h wt hwt b o i]
  generalize subfamilyWordsCore 0 wt b o i = ws
  cases ws with
  | nil =>
    simp only [List.isEmpty_cons, List.isEmpty_nil, if_true, joinWords, Bool.false_eq_true, if_false]
    rw [hasInfix_none c0 p' _ hclean, hreg]
  | cons a t =>
    simp only [List.isEmpty_cons, joinWords]
    have : widthString w ++ ' ' :: joinWords (a :: t) = (widthString w ++ [' ']) ++ joinWords (a :: t) := by simp
    simp only [Bool.false_eq_true, if_false]
    rw [this, hasInfix_skip]
    intro hm
    simp only [List.mem_append, List.mem_singleton] at hm
    rcases hm with hm | hm
    · exact hclean hm
    · exact hsp hm

/-- "Italic" occurs in the subfamily string exactly when the Italic word was appended -/
theorem subfamilyCore_italic (width : Nat) (wt : Option (Str × Bool))
    (hwt : ∀ p, wt = some p → p.1 ∈ weightWords) (b o i : Bool) :
    hasInfix s_Italic (subfamilyCore width wt b o i) = (i && !o) := by
  by_cases hw : width ≤ 9
  · exact subfamilyCore_italic_small width hw wt hwt b o i
  · rw [show s_Italic = 'I' :: ['t', 'a', 'l', 'i', 'c'] from rfl,
      subfamilyCore_big width (by omega) wt hwt b o i 'I' _ (by decide) (by decide) (by decide)]
    exact subfamilyCore_italic_small 0 (by omega) wt hwt b o i

/-- the reader's Bold rule applied to a subfamily string built by `Subfamily()` -/
theorem subfamilyCore_bold (width : Nat) (wt : Option (Str × Bool))
    (hwt : ∀ p, wt = some p → p.1 ∈ weightWords) (b o i : Bool) :
    boldWord (subfamilyCore width wt b o i) = boldClosed wt b := by
  have h0 : boldWord (subfamilyCore 0 wt b o i) = boldClosed wt b := by
    have := subfamilyCore_bold_small 0 (by omega) wt hwt b o i
    cases wt with
    | none => exact this
    | some p => obtain ⟨t, s⟩ := p; exact this
  by_cases hw : width ≤ 9
  · have := subfamilyCore_bold_small width hw wt hwt b o i
    cases wt with
    | none => exact this
    | some p => obtain ⟨t, s⟩ := p; exact this
  · rw [← h0]
    unfold boldWord
    rw [show s_Bold = 'B' :: ['o', 'l', 'd'] from rfl,
      show s_SemiBold = 'S' :: ['e', 'm', 'i', ' ', 'B', 'o', 'l', 'd'] from rfl,
      show s_ExtraBold = 'E' :: ['x', 't', 'r', 'a', ' ', 'B', 'o', 'l', 'd'] from rfl,
      subfamilyCore_big width (by omega) wt hwt b o i 'B' _ (by decide) (by decide) (by decide),
      subfamilyCore_big width (by omega) wt hwt b o i 'S' _ (by decide) (by decide) (by decide),
      subfamilyCore_big width (by omega) wt hwt b o i 'E' _ (by decide) (by decide) (by decide)]

end SfntV.Font
