/-
C10 — termination: the step-2 fuel of SubsetGsub always suffices, and the `todo` loop of SubsetGlyf
has a run (a legal sequence of `pop` results) from every state; plus soundness of the composite
closure (only components of glyphs already present are appended).
-/
import SfntV.Proofs.SubsetReach

namespace SfntV.Subset

/-! ### step 2 of SubsetGsub terminates within `rules.length + 1` rounds -/

theorem sweep_nofire : ∀ (work : List (Int × Rule)) (s : St) (added : List Gid),
    (∀ w ∈ work, w.1 ≠ 0) → sweep s added work = (s, added, work) := by
  intro work
  induction work with
  | nil => intro s added _; rfl
  | cons w ws ih =>
    intro s added h
    simp only [sweep, h w List.mem_cons_self, if_false]
    rw [ih s added (fun x hx => h x (List.mem_cons_of_mem _ hx))]

theorem sweep_length_le : ∀ (work : List (Int × Rule)) (s : St) (added : List Gid),
    (sweep s added work).2.2.length ≤ work.length := by
  intro work
  induction work with
  | nil => intro s added; simp [sweep]
  | cons w ws ih =>
    intro s added
    simp only [sweep]
    split
    · have := ih (addOuts s added w.2.outs).1 (addOuts s added w.2.outs).2
      simp only [List.length_cons]; omega
    · have := ih s added
      simp only [List.length_cons]; omega

theorem sweep_length_lt : ∀ (work : List (Int × Rule)) (s : St) (added : List Gid),
    (∃ w ∈ work, w.1 = 0) → (sweep s added work).2.2.length < work.length := by
  intro work
  induction work with
  | nil => intro s added h; obtain ⟨w, hw, _⟩ := h; cases hw
  | cons w ws ih =>
    intro s added h
    simp only [sweep]
    split
    · have := sweep_length_le ws (addOuts s added w.2.outs).1 (addOuts s added w.2.outs).2
      simp only [List.length_cons]; omega
    · rename_i hne
      obtain ⟨x, hx, h0⟩ := h
      rcases List.mem_cons.1 hx with rfl | hx
      · exact absurd h0 hne
      · have := ih s added ⟨x, hx, h0⟩
        simp only [List.length_cons]; omega

theorem gsubLoop_total : ∀ (fuel : Nat) (s : St) (work : List (Int × Rule)),
    work.length < fuel → ∃ s', gsubLoop fuel s work = some s' := by
  intro fuel
  induction fuel with
  | zero => intro s work h; omega
  | succ fuel ih =>
    intro s work h
    simp only [gsubLoop]
    by_cases hz : ∃ w ∈ work, w.1 = 0
    · have hlt := sweep_length_lt work s [] hz
      split
      · apply ih
        simp only [List.length_map]; omega
      · exact ⟨_, rfl⟩
    · have hnz : ∀ w ∈ work, w.1 ≠ 0 := fun w hw h0 => hz ⟨w, hw, h0⟩
      rw [sweep_nofire work s [] hnz]
      split
      · rename_i hany
        exfalso
        rw [List.any_eq_true] at hany
        obtain ⟨w', hw', h0⟩ := hany
        obtain ⟨w, hw, rfl⟩ := List.mem_map.1 hw'
        apply hnz w hw
        have hd : (dec [] w).1 = w.1 := by
          have : (List.filter (fun g => ([] : List Gid).contains g) w.2.ins) = [] := by
            rw [List.filter_eq_nil_iff]; intro a _; simp
          simp only [dec, this, List.length_nil]; simp
        rw [← hd]; simpa using h0
      · exact ⟨_, rfl⟩

theorem subsetGsub_total (o : Order) (s : St) (l : Layout GsubSub) :
    ∃ r, subsetGsub o s l = some r := by
  unfold subsetGsub
  simp only
  obtain ⟨s', hs'⟩ := gsubLoop_total ((o.rules (rulesOf l)).length + 1) s
    ((o.rules (rulesOf l)).map fun r => (Int.ofNat (missing s.newGid r.ins), r)) (by simp)
  rw [hs']
  exact ⟨_, rfl⟩

/-! ### the `todo` loop: soundness -/

theorem addComps_sound (Q : Gid → Prop) : ∀ (cs : List Gid) (s : St) (todo : List Gid),
    (∀ g ∈ s.glyphs, Q g) → (∀ c ∈ cs, Q c) → ∀ g ∈ (addComps s todo cs).1.glyphs, Q g := by
  intro cs
  induction cs with
  | nil => intro s todo h _; exact h
  | cons c cs ih =>
    intro s todo h hc
    simp only [addComps]
    split
    · exact ih s todo h (fun x hx => hc x (List.mem_cons_of_mem _ hx))
    · apply ih _ _ _ (fun x hx => hc x (List.mem_cons_of_mem _ hx))
      intro g hg
      simp only [St.push, List.mem_append, List.mem_singleton] at hg
      rcases hg with hg | rfl
      · exact h g hg
      · exact hc g List.mem_cons_self

theorem closeGlyf_sound (f : Font) (Q : Gid → Prop)
    (hQ : ∀ p c, Q p → c ∈ (f.glyph p).comps → Q c) :
    ∀ (pops : List Gid) (s : St) (todo : List Gid) (s' : St), Inv s →
    (∀ g ∈ s.glyphs, Q g) → (∀ t ∈ todo, t ∈ s.glyphs) →
    closeGlyf f pops s todo = some s' → ∀ g ∈ s'.glyphs, Q g := by
  intro pops
  induction pops with
  | nil =>
    intro s todo s' _ hq _ hr
    simp only [closeGlyf] at hr
    split at hr
    · injection hr with hr; subst hr; exact hq
    · cases hr
  | cons p ps ih =>
    intro s todo s' h hq ht hr
    simp only [closeGlyf] at hr
    split at hr
    · rename_i hp
      have hpm : p ∈ todo := by simpa using hp
      have hg := addComps_good (f.glyph p).comps s (todo.filter (· != p)) h
      have hs := addComps_spec (f.glyph p).comps s (todo.filter (· != p)) h
      refine ih _ _ s' hg.1 ?_ ?_ hr
      · exact addComps_sound Q _ s _ hq (fun c hc => hQ p c (hq p (ht p hpm)) hc)
      · intro t htm
        rcases hs.2.2.2 t htm with h1 | h1
        · exact ext_mem hg.2 (ht t (List.mem_filter.1 h1).1)
        · exact h1
    · cases hr

/-! ### the `todo` loop has a run from every state -/

/-- glyph ids below `M` that are not in the subset yet -/
def unseen (M : Nat) (s : St) : Nat := ((List.range M).filter fun c => !s.has c).length

theorem filter_length_mono {α : Type} (p q : α → Bool) (hpq : ∀ x, q x = true → p x = true) :
    ∀ l : List α, (l.filter q).length ≤ (l.filter p).length := by
  intro l
  induction l with
  | nil => simp
  | cons x xs ih =>
    simp only [List.filter_cons]
    cases hq : q x
    · cases p x <;> simp <;> omega
    · simp [hpq x hq]; omega

theorem filter_length_lt {α : Type} (p q : α → Bool) (hpq : ∀ x, q x = true → p x = true) (c : α)
    (hp : p c = true) (hq : q c = false) : ∀ l : List α, c ∈ l →
    (l.filter q).length < (l.filter p).length := by
  intro l
  induction l with
  | nil => intro h; cases h
  | cons x xs ih =>
    intro hc
    simp only [List.filter_cons]
    rcases List.mem_cons.1 hc with rfl | hc
    · have := filter_length_mono p q hpq xs
      simp [hp, hq]; omega
    · have := ih hc
      cases hqx : q x
      · cases p x <;> simp <;> omega
      · simp [hpq x hqx]; omega

theorem unseen_push {M : Nat} {s : St} {c : Gid} (hc : c < M) (hn : ¬ s.has c = true) :
    unseen M (s.push c) < unseen M s := by
  unfold unseen
  apply filter_length_lt (fun x => !s.has x) (fun x => !(s.push c).has x) _ c
  · simpa using hn
  · simp [St.has, St.push, List.lookup_cons]
  · exact List.mem_range.2 hc
  · intro x hx
    simp only [St.has, St.push, List.lookup_cons] at hx ⊢
    cases hxc : (x == c)
    · simpa [hxc] using hx
    · simp [hxc] at hx

theorem addComps_measure (M : Nat) : ∀ (cs : List Gid) (s : St) (todo : List Gid),
    (∀ c ∈ cs, c < M) →
    unseen M (addComps s todo cs).1 + (addComps s todo cs).2.length ≤ unseen M s + todo.length := by
  intro cs
  induction cs with
  | nil => intro s todo _; simp [addComps]
  | cons c cs ih =>
    intro s todo h
    simp only [addComps]
    split
    · exact ih s todo (fun x hx => h x (List.mem_cons_of_mem _ hx))
    · rename_i hn
      have h1 := ih (s.push c) (todo ++ [c]) (fun x hx => h x (List.mem_cons_of_mem _ hx))
      have h2 := unseen_push (h c List.mem_cons_self) hn
      simp only [List.length_append, List.length_cons, List.length_nil] at h1
      omega

theorem closeGlyf_total (f : Font) (M : Nat) (hM : ∀ g, ∀ c ∈ (f.glyph g).comps, c < M) :
    ∀ (n : Nat) (s : St) (todo : List Gid), unseen M s + todo.length ≤ n →
    ∃ pops s', closeGlyf f pops s todo = some s' := by
  intro n
  induction n with
  | zero =>
    intro s todo h
    have : todo = [] := List.eq_nil_of_length_eq_zero (by omega)
    subst this
    exact ⟨[], s, rfl⟩
  | succ n ih =>
    intro s todo h
    cases todo with
    | nil => exact ⟨[], s, rfl⟩
    | cons p t =>
      have hm := addComps_measure M (f.glyph p).comps s ((p :: t).filter (· != p)) (hM p)
      have hf : ((p :: t).filter (· != p)).length ≤ t.length := by
        simp only [List.filter_cons, bne_self_eq_false, Bool.false_eq_true, if_false]
        exact List.length_filter_le _ _
      obtain ⟨pops, s', hr⟩ := ih (addComps s ((p :: t).filter (· != p)) (f.glyph p).comps).1
        (addComps s ((p :: t).filter (· != p)) (f.glyph p).comps).2
        (by simp only [List.length_cons] at h; omega)
      refine ⟨p :: pops, s', ?_⟩
      simp only [closeGlyf, List.contains_cons, BEq.rfl, Bool.true_or, if_true]
      exact hr

/-- a bound on all component ids of a font -/
def compBound (f : Font) : Nat := (f.glyphs.flatMap (·.comps)).sum + 1

theorem le_sum_of_mem : ∀ (l : List Nat) (c : Nat), c ∈ l → c ≤ l.sum := by
  intro l
  induction l with
  | nil => intro c h; cases h
  | cons x xs ih =>
    intro c h
    simp only [List.sum_cons]
    rcases List.mem_cons.1 h with rfl | h
    · omega
    · have := ih c h; omega

theorem compBound_spec (f : Font) : ∀ g, ∀ c ∈ (f.glyph g).comps, c < compBound f := by
  intro g c hc
  unfold compBound
  have hmem : c ∈ f.glyphs.flatMap (·.comps) := by
    unfold Font.glyph at hc
    rw [List.getD_eq_getElem?_getD] at hc
    cases hx : f.glyphs[g]? with
    | none =>
      rw [hx] at hc
      have hd : (default : Glyph).comps = [] := rfl
      simp only [Option.getD_none, hd] at hc
      cases hc
    | some gl =>
      rw [hx] at hc
      exact List.mem_flatMap.2 ⟨gl, List.mem_of_getElem? hx, by simpa using hc⟩
  exact Nat.lt_succ_of_le (le_sum_of_mem _ c hmem)

/-! ### `subset` never answers "illegal order" for a suitable `pop` sequence -/

/-- the GSUB stage of `subset`, as a function of the rule order only -/
def gsubStage (f : Font) (glyphs : List Gid) (ro : List Rule → List Rule) :
    Option (St × Option (Layout GsubOut)) :=
  match f.gsub with
  | none => some (St.init glyphs, none)
  | some l => (subsetGsub ⟨ro, []⟩ (St.init glyphs) l).map fun r => (r.1, some r.2)

theorem gsubStage_total (f : Font) (glyphs : List Gid) (ro : List Rule → List Rule) :
    ∃ r, gsubStage f glyphs ro = some r := by
  unfold gsubStage
  cases f.gsub with
  | none => exact ⟨_, rfl⟩
  | some l =>
    obtain ⟨r, hr⟩ := subsetGsub_total ⟨ro, []⟩ (St.init glyphs) l
    simp only [hr, Option.map_some]
    exact ⟨_, rfl⟩

theorem subset_total (f : Font) (glyphs : List Gid) (ro : List Rule → List Rule) :
    ∃ pops, ∀ e, subset f glyphs ⟨ro, pops⟩ ≠ .err e := by
  obtain ⟨⟨s1, gs⟩, h1⟩ := gsubStage_total f glyphs ro
  obtain ⟨pops, s2, h2⟩ := closeGlyf_total f (compBound f) (compBound_spec f) _ s1 s1.glyphs (Nat.le_refl _)
  refine ⟨pops, ?_⟩
  intro e he
  have h1' : (match f.gsub with
      | none => some (St.init glyphs, none)
      | some l => (subsetGsub ⟨ro, pops⟩ (St.init glyphs) l).map fun r => (r.1, some r.2)) = some (s1, gs) := h1
  unfold subset at he
  simp only at he
  split at he
  · rename_i hg1
    have := h1'.symm.trans hg1; cases this
  · rename_i s1' gsub' hg1
    have hg1 := h1'.symm.trans hg1
    injection hg1 with hg1
    have e1 : s1 = s1' := congrArg (fun p => p.1) hg1
    subst e1
    split at he
    · rename_i hs2
      cases hc : f.isCFF with
      | true => rw [hc] at hs2; simp at hs2
      | false =>
        rw [hc] at hs2
        simp only [Bool.false_eq_true, if_false] at hs2
        rw [h2] at hs2; cases hs2
    · split at he <;> cases he

end SfntV.Subset
