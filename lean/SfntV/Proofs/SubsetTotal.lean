/-
C10 — termination: the step-2 fuel of SubsetGsub always suffices, and the `todo` loop of SubsetGlyf
has a run (a legal sequence of `pop` results) from every state; plus soundness of the composite
closure (only components of glyphs already present are appended).
-/
import SfntV.Proofs.SubsetReach

namespace SfntV.Subset

/-! ### step 2 of SubsetGsub terminates within `rules.length + 1` rounds -/

theorem sweep_nofire : ∀ (work : List (Int × Rule)) (s : St) (added : List Gid),
    (∀ w ∈ work, w.1 ≠ 0) → sweep s added work = (s, added, work) := by
  intro work
  induction work with
  | nil => intro s added _; rfl
  | cons w ws ih =>
    intro s added h
    simp only [sweep, h w List.mem_cons_self, if_false]
    rw [ih s added (fun x hx => h x (List.mem_cons_of_mem _ hx))]

theorem sweep_length_le : ∀ (work : List (Int × Rule)) (s : St) (added : List Gid),
    (sweep s added work).2.2.length ≤ work.length := by
  intro work
  induction work with
  | nil => intro s added; simp [sweep]
  | cons w ws ih =>
    intro s added
    simp only [sweep]
    split
    · have := ih (addOuts s added w.2.outs).1 (addOuts s added w.2.outs).2
      simp only [List.length_cons]; omega
    · have := ih s added
      simp only [List.length_cons]; omega

theorem sweep_length_lt : ∀ (work : List (Int × Rule)) (s : St) (added : List Gid),
    (∃ w ∈ work, w.1 = 0) → (sweep s added work).2.2.length < work.length := by
  intro work
  induction work with
  | nil => intro s added h; obtain ⟨w, hw, _⟩ := h; cases hw
  | cons w ws ih =>
    intro s added h
    simp only [sweep]
    split
    · have := sweep_length_le ws (addOuts s added w.2.outs).1 (addOuts s added w.2.outs).2
      simp only [List.length_cons]; omega
    · rename_i hne
      obtain ⟨x, hx, h0⟩ := h
      rcases List.mem_cons.1 hx with rfl | hx
      · exact absurd h0 hne
      · have := ih s added ⟨x, hx, h0⟩
        simp only [List.length_cons]; omega

theorem gsubLoop_total : ∀ (fuel : Nat) (s : St) (work : List (Int × Rule)),
    work.length < fuel → ∃ s', gsubLoop fuel s work = some s' := by
  intro fuel
  induction fuel with
  | zero => intro s work h; omega
  | succ fuel ih =>
    intro s work h
    simp only [gsubLoop]
    by_cases hz : ∃ w ∈ work, w.1 = 0
    · have hlt := sweep_length_lt work s [] hz
      split
      · apply ih
        simp only [List.length_map]; omega
      · exact ⟨_, rfl⟩
    · have hnz : ∀ w ∈ work, w.1 ≠ 0 := fun w hw h0 => hz ⟨w, hw, h0⟩
      rw [sweep_nofire work s [] hnz]
      split
      · rename_i hany
        exfalso
        rw [List.any_eq_true] at hany
        obtain ⟨w', hw', h0⟩ := hany
        obtain ⟨w, hw, rfl⟩ := List.mem_map.1 hw'
        apply hnz w hw
        have hd : (dec [] w).1 = w.1 := by
          have : (List.filter (fun g => ([] : List Gid).contains g) w.2.ins) = [] := by
            rw [List.filter_eq_nil_iff]; intro a _; simp
          simp only [dec, this, List.length_nil]; simp
        rw [← hd]; simpa using h0
      · exact ⟨_, rfl⟩

theorem gsubClose_total (ro : List Rule → List Rule) (s : St) (l : Layout GsubSub) :
    ∃ t, gsubClose ro s l = some t := by
  unfold gsubClose
  exact gsubLoop_total _ s _ (by simp)

/-! ### the `todo` loop: soundness -/

theorem addComps_sound (Q : Gid → Prop) : ∀ (cs : List Gid) (s : St) (todo : List Gid),
    (∀ g ∈ s.glyphs, Q g) → (∀ c ∈ cs, Q c) → ∀ g ∈ (addComps s todo cs).1.glyphs, Q g := by
  intro cs
  induction cs with
  | nil => intro s todo h _; exact h
  | cons c cs ih =>
    intro s todo h hc
    simp only [addComps]
    split
    · exact ih s todo h (fun x hx => hc x (List.mem_cons_of_mem _ hx))
    · apply ih _ _ _ (fun x hx => hc x (List.mem_cons_of_mem _ hx))
      intro g hg
      simp only [St.push, List.mem_append, List.mem_singleton] at hg
      rcases hg with hg | rfl
      · exact h g hg
      · exact hc g List.mem_cons_self

theorem closeGlyf_sound (f : Font) (Q : Gid → Prop)
    (hQ : ∀ p c, Q p → c ∈ (f.glyph p).comps → Q c) :
    ∀ (pops : List Gid) (s : St) (todo : List Gid) (s' : St), Inv s →
    (∀ g ∈ s.glyphs, Q g) → (∀ t ∈ todo, t ∈ s.glyphs) →
    closeGlyf f pops s todo = some s' → ∀ g ∈ s'.glyphs, Q g := by
  intro pops
  induction pops with
  | nil =>
    intro s todo s' _ hq _ hr
    simp only [closeGlyf] at hr
    split at hr
    · injection hr with hr; subst hr; exact hq
    · cases hr
  | cons p ps ih =>
    intro s todo s' h hq ht hr
    simp only [closeGlyf] at hr
    split at hr
    · rename_i hp
      have hpm : p ∈ todo := by simpa using hp
      have hg := addComps_good (f.glyph p).comps s (todo.filter (· != p)) h
      have hs := addComps_spec (f.glyph p).comps s (todo.filter (· != p)) h
      refine ih _ _ s' hg.1 ?_ ?_ hr
      · exact addComps_sound Q _ s _ hq (fun c hc => hQ p c (hq p (ht p hpm)) hc)
      · intro t htm
        rcases hs.2.2.2 t htm with h1 | h1
        · exact ext_mem hg.2 (ht t (List.mem_filter.1 h1).1)
        · exact h1
    · cases hr

/-! ### the `todo` loop has a run from every state -/

/-- glyph ids below `M` that are not in the subset yet -/
def unseen (M : Nat) (s : St) : Nat := ((List.range M).filter fun c => !s.has c).length

theorem filter_length_mono {α : Type} (p q : α → Bool) (hpq : ∀ x, q x = true → p x = true) :
    ∀ l : List α, (l.filter q).length ≤ (l.filter p).length := by
  intro l
  induction l with
  | nil => simp
  | cons x xs ih =>
    simp only [List.filter_cons]
    cases hq : q x
    · cases p x <;> simp <;> omega
    · simp [hpq x hq]; omega

theorem filter_length_lt {α : Type} (p q : α → Bool) (hpq : ∀ x, q x = true → p x = true) (c : α)
    (hp : p c = true) (hq : q c = false) : ∀ l : List α, c ∈ l →
    (l.filter q).length < (l.filter p).length := by
  intro l
  induction l with
  | nil => intro h; cases h
  | cons x xs ih =>
    intro hc
    simp only [List.filter_cons]
    rcases List.mem_cons.1 hc with rfl | hc
    · have := filter_length_mono p q hpq xs
      simp [hp, hq]; omega
    · have := ih hc
      cases hqx : q x
      · cases p x <;> simp <;> omega
      · simp [hpq x hqx]; omega

theorem unseen_push {M : Nat} {s : St} {c : Gid} (hc : c < M) (hn : ¬ s.has c = true) :
    unseen M (s.push c) < unseen M s := by
  unfold unseen
  apply filter_length_lt (fun x => !s.has x) (fun x => !(s.push c).has x) _ c
  · simpa using hn
  · simp [St.has, St.push, List.lookup_cons]
  · exact List.mem_range.2 hc
  · intro x hx
    simp only [St.has, St.push, List.lookup_cons] at hx ⊢
    cases hxc : (x == c)
    · simpa [hxc] using hx
    · simp [hxc] at hx

theorem addComps_measure (M : Nat) : ∀ (cs : List Gid) (s : St) (todo : List Gid),
    (∀ c ∈ cs, c < M) →
    unseen M (addComps s todo cs).1 + (addComps s todo cs).2.length ≤ unseen M s + todo.length := by
  intro cs
  induction cs with
  | nil => intro s todo _; simp [addComps]
  | cons c cs ih =>
    intro s todo h
    simp only [addComps]
    split
    · exact ih s todo (fun x hx => h x (List.mem_cons_of_mem _ hx))
    · rename_i hn
      have h1 := ih (s.push c) (todo ++ [c]) (fun x hx => h x (List.mem_cons_of_mem _ hx))
      have h2 := unseen_push (h c List.mem_cons_self) hn
      simp only [List.length_append, List.length_cons, List.length_nil] at h1
      omega

theorem closeGlyf_total (f : Font) (M : Nat) (hM : ∀ g, ∀ c ∈ (f.glyph g).comps, c < M) :
    ∀ (n : Nat) (s : St) (todo : List Gid), unseen M s + todo.length ≤ n →
    ∃ pops s', closeGlyf f pops s todo = some s' := by
  intro n
  induction n with
  | zero =>
    intro s todo h
    have : todo = [] := List.eq_nil_of_length_eq_zero (by omega)
    subst this
    exact ⟨[], s, rfl⟩
  | succ n ih =>
    intro s todo h
    cases todo with
    | nil => exact ⟨[], s, rfl⟩
    | cons p t =>
      have hm := addComps_measure M (f.glyph p).comps s ((p :: t).filter (· != p)) (hM p)
      have hf : ((p :: t).filter (· != p)).length ≤ t.length := by
        simp only [List.filter_cons, bne_self_eq_false, Bool.false_eq_true, if_false]
        exact List.length_filter_le _ _
      obtain ⟨pops, s', hr⟩ := ih (addComps s ((p :: t).filter (· != p)) (f.glyph p).comps).1
        (addComps s ((p :: t).filter (· != p)) (f.glyph p).comps).2
        (by simp only [List.length_cons] at h; omega)
      refine ⟨p :: pops, s', ?_⟩
      simp only [closeGlyf, List.contains_cons, BEq.rfl, Bool.true_or, if_true]
      exact hr

/-- a bound on all component ids of a font -/
def compBound (f : Font) : Nat := (f.glyphs.flatMap (·.comps)).sum + 1

theorem le_sum_of_mem : ∀ (l : List Nat) (c : Nat), c ∈ l → c ≤ l.sum := by
  intro l
  induction l with
  | nil => intro c h; cases h
  | cons x xs ih =>
    intro c h
    simp only [List.sum_cons]
    rcases List.mem_cons.1 h with rfl | h
    · omega
    · have := ih c h; omega

theorem compBound_spec (f : Font) : ∀ g, ∀ c ∈ (f.glyph g).comps, c < compBound f := by
  intro g c hc
  unfold compBound
  have hmem : c ∈ f.glyphs.flatMap (·.comps) := by
    unfold Font.glyph at hc
    rw [List.getD_eq_getElem?_getD] at hc
    cases hx : f.glyphs[g]? with
    | none =>
      rw [hx] at hc
      have hd : (default : Glyph).comps = [] := rfl
      simp only [Option.getD_none, hd] at hc
      cases hc
    | some gl =>
      rw [hx] at hc
      exact List.mem_flatMap.2 ⟨gl, List.mem_of_getElem? hx, by simpa using hc⟩
  exact Nat.lt_succ_of_le (le_sum_of_mem _ c hmem)

/-! ### the outer loop terminates: every round that continues appends a glyph below the bound -/

theorem push_meas {M : Nat} {s : St} {c : Gid} (hc : c < M) (hn : ¬ s.has c = true) :
    unseen M (s.push c) + (s.push c).glyphs.length ≤ unseen M s + s.glyphs.length := by
  have := unseen_push hc hn
  simp only [St.push, List.length_append, List.length_cons, List.length_nil] at this ⊢
  have h2 : unseen M (s.push c) < unseen M s := this
  simp only [St.push] at h2
  omega

theorem addOuts_meas (M : Nat) : ∀ (outs : List Gid) (s : St) (added : List Gid),
    (∀ o ∈ outs, o < M) →
    unseen M (addOuts s added outs).1 + (addOuts s added outs).1.glyphs.length ≤
      unseen M s + s.glyphs.length := by
  intro outs
  induction outs with
  | nil => intro s added _; simp [addOuts]
  | cons o os ih =>
    intro s added h
    simp only [addOuts]
    split
    · exact ih s added (fun x hx => h x (List.mem_cons_of_mem _ hx))
    · rename_i hn
      have h1 := ih (s.getNewGid o).1 (o :: added) (fun x hx => h x (List.mem_cons_of_mem _ hx))
      rw [getNewGid_of_not_has hn] at h1 ⊢
      have h2 := push_meas (h o List.mem_cons_self) hn
      omega

theorem sweep_meas (M : Nat) : ∀ (work : List (Int × Rule)) (s : St) (added : List Gid),
    (∀ w ∈ work, ∀ o ∈ w.2.outs, o < M) →
    unseen M (sweep s added work).1 + (sweep s added work).1.glyphs.length ≤
      unseen M s + s.glyphs.length := by
  intro work
  induction work with
  | nil => intro s added _; simp [sweep]
  | cons w ws ih =>
    intro s added h
    simp only [sweep]
    split
    · have h1 := addOuts_meas M w.2.outs s added (h w List.mem_cons_self)
      have h2 := ih (addOuts s added w.2.outs).1 (addOuts s added w.2.outs).2
        (fun x hx => h x (List.mem_cons_of_mem _ hx))
      omega
    · exact ih s added (fun x hx => h x (List.mem_cons_of_mem _ hx))

theorem sweep_rest_sub : ∀ (work : List (Int × Rule)) (s : St) (added : List Gid),
    ∀ w ∈ (sweep s added work).2.2, w ∈ work := by
  intro work
  induction work with
  | nil => intro s added w hw; simp [sweep] at hw
  | cons x xs ih =>
    intro s added w hw
    simp only [sweep] at hw
    split at hw
    · exact List.mem_cons_of_mem _ (ih _ _ w hw)
    · rcases List.mem_cons.1 hw with rfl | hw
      · exact List.mem_cons_self
      · exact List.mem_cons_of_mem _ (ih _ _ w hw)

theorem gsubLoop_meas (M : Nat) : ∀ (fuel : Nat) (s : St) (work : List (Int × Rule)) (s' : St),
    (∀ w ∈ work, ∀ o ∈ w.2.outs, o < M) → gsubLoop fuel s work = some s' →
    unseen M s' + s'.glyphs.length ≤ unseen M s + s.glyphs.length := by
  intro fuel
  induction fuel with
  | zero => intro s work s' _ h; simp [gsubLoop] at h
  | succ fuel ih =>
    intro s work s' h hr
    simp only [gsubLoop] at hr
    have h1 := sweep_meas M work s [] h
    split at hr
    · have h2 := ih _ _ s' (by
        intro w' hw' o ho
        obtain ⟨w, hw, rfl⟩ := List.mem_map.1 hw'
        exact h w (sweep_rest_sub work s [] w hw) o ho) hr
      omega
    · injection hr with hr; subst hr; exact h1

theorem addComps_meas (M : Nat) : ∀ (cs : List Gid) (s : St) (todo : List Gid),
    (∀ c ∈ cs, c < M) →
    unseen M (addComps s todo cs).1 + (addComps s todo cs).1.glyphs.length ≤
      unseen M s + s.glyphs.length := by
  intro cs
  induction cs with
  | nil => intro s todo _; simp [addComps]
  | cons c cs ih =>
    intro s todo h
    simp only [addComps]
    split
    · exact ih s todo (fun x hx => h x (List.mem_cons_of_mem _ hx))
    · rename_i hn
      have h1 := ih (s.push c) (todo ++ [c]) (fun x hx => h x (List.mem_cons_of_mem _ hx))
      have h2 := push_meas (h c List.mem_cons_self) hn
      omega

theorem closeGlyf_meas (f : Font) (M : Nat) (hM : ∀ g, ∀ c ∈ (f.glyph g).comps, c < M) :
    ∀ (pops : List Gid) (s : St) (todo : List Gid) (s' : St), closeGlyf f pops s todo = some s' →
    unseen M s' + s'.glyphs.length ≤ unseen M s + s.glyphs.length := by
  intro pops
  induction pops with
  | nil =>
    intro s todo s' hr
    simp only [closeGlyf] at hr
    split at hr
    · injection hr with hr; subst hr; exact Nat.le_refl _
    · cases hr
  | cons p ps ih =>
    intro s todo s' hr
    simp only [closeGlyf] at hr
    split at hr
    · have h1 := addComps_meas M (f.glyph p).comps s (todo.filter (· != p)) (hM p)
      have h2 := ih _ _ s' hr
      omega
    · cases hr

theorem ext_length {s s' : St} (e : Ext s s') : s.glyphs.length ≤ s'.glyphs.length := by
  obtain ⟨x, hx⟩ := e; rw [hx]; simp

/-- all GSUB rules of a font (none without a GSUB table) -/
def fontRules (f : Font) : List Rule :=
  match f.gsub with
  | none => []
  | some l => rulesOf l

/-- a bound on all component ids and all rule outputs of a font -/
def glyphBound (f : Font) : Nat := compBound f + ((fontRules f).flatMap (·.outs)).sum + 1

theorem glyphBound_comps (f : Font) : ∀ g, ∀ c ∈ (f.glyph g).comps, c < glyphBound f := by
  intro g c hc
  have := compBound_spec f g c hc
  unfold glyphBound
  exact Nat.lt_of_lt_of_le this (by omega)

theorem glyphBound_outs (f : Font) : ∀ r ∈ fontRules f, ∀ o ∈ r.outs, o < glyphBound f := by
  intro r hr o ho
  have := le_sum_of_mem ((fontRules f).flatMap (·.outs)) o (List.mem_flatMap.2 ⟨r, hr, ho⟩)
  unfold glyphBound
  exact Nat.lt_of_le_of_lt this (by omega)

/-- the outer loop has a run from every state: for every choice of rule orders there are `pop`
sequences, one per round, with which `closeAll` succeeds -/
theorem closeAll_total (f : Font) (ro : Nat → List Rule → List Rule)
    (hp : ∀ k x, (ro k x).Perm x) :
    ∀ (n : Nat) (s : St) (k : Nat), Inv s → unseen (glyphBound f) s ≤ n →
    ∃ pss s', closeAll f ro k pss s = some s' := by
  intro n
  induction n with
  | zero =>
    intro s k h hn
    -- same argument as the step; a continuing round would need an unseen glyph
    obtain ⟨s1, hs1, hi1, he1, hm1⟩ : ∃ s1, gsubRound f (ro k) s = some s1 ∧ Inv s1 ∧ Ext s s1 ∧
        unseen (glyphBound f) s1 + s1.glyphs.length ≤ unseen (glyphBound f) s + s.glyphs.length := by
      unfold gsubRound
      cases hg : f.gsub with
      | none => exact ⟨s, rfl, h, Ext.refl s, Nat.le_refl _⟩
      | some l =>
        obtain ⟨t, ht⟩ := gsubClose_total (ro k) s l
        have hgood := gsubClose_good h ht
        refine ⟨t, ht, hgood.1, hgood.2, ?_⟩
        apply gsubLoop_meas (glyphBound f) _ s _ t _ ht
        intro w hw o ho
        obtain ⟨r, hr, rfl⟩ := List.mem_map.1 hw
        apply glyphBound_outs f r _ o ho
        unfold fontRules; rw [hg]
        exact (hp k (rulesOf l)).mem_iff.1 hr
    obtain ⟨ps, s2, hs2, he2, hm2⟩ : ∃ ps s2,
        glyfRound f ps s1 = some s2 ∧ Ext s1 s2 ∧
        unseen (glyphBound f) s2 + s2.glyphs.length ≤ unseen (glyphBound f) s1 + s1.glyphs.length := by
      unfold glyfRound
      cases hc : f.isCFF with
      | true => exact ⟨[], s1, by simp, Ext.refl s1, Nat.le_refl _⟩
      | false =>
        obtain ⟨ps, s2, hr⟩ := closeGlyf_total f (glyphBound f) (glyphBound_comps f) _ s1 s1.glyphs
          (Nat.le_refl _)
        have hd : Done f s1 s1.glyphs := fun g hg hn => absurd hg hn
        have hsp := closeGlyf_spec f ps s1 s1.glyphs s2 hi1 hd hr
        exact ⟨ps, s2, by simpa using hr, hsp.2.1,
          closeGlyf_meas f (glyphBound f) (glyphBound_comps f) ps s1 s1.glyphs s2 hr⟩
    have hl1 := ext_length he1
    have hl2 := ext_length he2
    refine ⟨[ps], s2, ?_⟩
    simp only [closeAll, hs1, hs2]
    have : s2.glyphs.length = s.glyphs.length := by omega
    simp [this]
  | succ n ih =>
    intro s k h hn
    obtain ⟨s1, hs1, hi1, he1, hm1⟩ : ∃ s1, gsubRound f (ro k) s = some s1 ∧ Inv s1 ∧ Ext s s1 ∧
        unseen (glyphBound f) s1 + s1.glyphs.length ≤ unseen (glyphBound f) s + s.glyphs.length := by
      unfold gsubRound
      cases hg : f.gsub with
      | none => exact ⟨s, rfl, h, Ext.refl s, Nat.le_refl _⟩
      | some l =>
        obtain ⟨t, ht⟩ := gsubClose_total (ro k) s l
        have hgood := gsubClose_good h ht
        refine ⟨t, ht, hgood.1, hgood.2, ?_⟩
        apply gsubLoop_meas (glyphBound f) _ s _ t _ ht
        intro w hw o ho
        obtain ⟨r, hr, rfl⟩ := List.mem_map.1 hw
        apply glyphBound_outs f r _ o ho
        unfold fontRules; rw [hg]
        exact (hp k (rulesOf l)).mem_iff.1 hr
    obtain ⟨ps, s2, hs2, hi2, he2, hm2⟩ : ∃ ps s2,
        glyfRound f ps s1 = some s2 ∧ Inv s2 ∧ Ext s1 s2 ∧
        unseen (glyphBound f) s2 + s2.glyphs.length ≤ unseen (glyphBound f) s1 + s1.glyphs.length := by
      unfold glyfRound
      cases hc : f.isCFF with
      | true => exact ⟨[], s1, by simp, hi1, Ext.refl s1, Nat.le_refl _⟩
      | false =>
        obtain ⟨ps, s2, hr⟩ := closeGlyf_total f (glyphBound f) (glyphBound_comps f) _ s1 s1.glyphs
          (Nat.le_refl _)
        have hd : Done f s1 s1.glyphs := fun g hg hn => absurd hg hn
        have hsp := closeGlyf_spec f ps s1 s1.glyphs s2 hi1 hd hr
        exact ⟨ps, s2, by simpa using hr, hsp.1, hsp.2.1,
          closeGlyf_meas f (glyphBound f) (glyphBound_comps f) ps s1 s1.glyphs s2 hr⟩
    have hl1 := ext_length he1
    have hl2 := ext_length he2
    by_cases heq : s2.glyphs.length = s.glyphs.length
    · refine ⟨[ps], s2, ?_⟩
      simp only [closeAll, hs1, hs2]
      simp [heq]
    · obtain ⟨pss, s', hr⟩ := ih s2 (k + 1) hi2 (by omega)
      refine ⟨ps :: pss, s', ?_⟩
      simp only [closeAll, hs1, hs2]
      simp [heq, hr]

/-- `subset` never answers "illegal order" for suitable `pop` sequences -/
theorem subset_total (f : Font) (glyphs : List Gid) (hnd : glyphs.Nodup)
    (ro : Nat → List Rule → List Rule) (hp : ∀ k x, (ro k x).Perm x) :
    ∃ pss, ∀ e, subset f glyphs ⟨ro, pss⟩ ≠ .err e := by
  obtain ⟨pss, s', hr⟩ := closeAll_total f ro hp _ (St.init glyphs) 0 (init_inv hnd) (Nat.le_refl _)
  refine ⟨pss, ?_⟩
  intro e he
  unfold subset at he
  simp only [hr] at he
  split at he <;> cases he

end SfntV.Subset
