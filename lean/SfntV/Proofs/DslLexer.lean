/-
C19 — proofs about the lexer model: every input gives a finite item list that ends in exactly
one terminal item (EOF or error), all lines are ≥ 1 and never decrease, and there are at most
(number of runes + 1) items.
-/
import SfntV.Model.DslLexer

namespace SfntV.Dsl

/-- EOF or error: the items after which the lexer goroutine closes the channel -/
def Tok.terminal (t : Tok) : Bool := t.typ == tEOF || t.typ == tError

/-- a token is being assembled in this state (it will be emitted even if the input ends) -/
def pending : LState → Nat
  | .ident _ => 1
  | .int _ => 1
  | .hyphen _ => 1
  | .bar _ => 1
  | _ => 0

theorem singleChar_nonterminal : ∀ e ∈ Gen.dslSingleCharTokens, e.2 ≠ tEOF ∧ e.2 ≠ tError := by
  decide

theorem singleChar_spec (r t : Nat) (h : singleChar r = some t) : t ≠ tEOF ∧ t ≠ tError := by
  unfold singleChar at h
  cases hf : Gen.dslSingleCharTokens.find? (·.1 == r) with
  | none => rw [hf] at h; simp at h
  | some e =>
    rw [hf] at h
    simp at h
    subst h
    exact singleChar_nonterminal e (List.mem_of_find?_eq_some hf)

/-- what one call of `startStep` can do -/
structure StepOk (pend : Nat) (line : Nat) (r : List Tok × Option (LState × Nat)) : Prop where
  lines : ∀ u ∈ r.1, u.line = line
  stop : r.2 = none → ∃ pre t, r.1 = pre ++ [t] ∧ t.terminal = true ∧
    (∀ u ∈ pre, u.terminal = false) ∧ r.1.length ≤ pend + 1
  go : ∀ st' line', r.2 = some (st', line') → (∀ u ∈ r.1, u.terminal = false) ∧ line ≤ line' ∧
    r.1.length + pending st' ≤ pend + 1

theorem startStep_ok (ws : List RB) (line : Nat) (c : RB) : StepOk 0 line (startStep ws line c) := by
  unfold startStep
  simp only []
  split
  · exact ⟨by simp, by simp, by intro st' l' h; simp at h; simp [← h.1, ← h.2, pending]⟩
  split
  · exact ⟨by simp, by simp,
      by intro st' l' h; simp at h; simp [← h.1, ← h.2, pending, Tok.terminal, tEOL, tEOF, tError]⟩
  split
  · exact ⟨by simp, by simp, by intro st' l' h; simp at h; simp [← h.1, ← h.2, pending]⟩
  split
  · exact ⟨by simp, by simp, by intro st' l' h; simp at h; simp [← h.1, ← h.2, pending]⟩
  split
  · exact ⟨by simp, by simp, by intro st' l' h; simp at h; simp [← h.1, ← h.2, pending]⟩
  split
  · rename_i t ht
    have := singleChar_spec _ _ ht
    exact ⟨by simp, by simp,
      by intro st' l' h; simp at h; simp [← h.1, ← h.2, pending, Tok.terminal, this.1, this.2]⟩
  · split
    · exact ⟨by simp, by simp, by intro st' l' h; simp at h; simp [← h.1, ← h.2, pending]⟩
    split
    · exact ⟨by simp, by simp, by intro st' l' h; simp at h; simp [← h.1, ← h.2, pending]⟩
    split
    · exact ⟨by simp, by simp, by intro st' l' h; simp at h; simp [← h.1, ← h.2, pending]⟩
    · exact ⟨by simp, fun _ => ⟨[], _, rfl, by simp [Tok.terminal, tError], by simp, by simp⟩,
        by simp⟩

/-- a pending token `t` is emitted, then `lexStart` looks at the rune -/
theorem emit_then_start (t : Tok) (ht : t.terminal = false) (line : Nat) (hl : t.line = line)
    (r : List Tok × Option (LState × Nat)) (h : StepOk 0 line r) :
    StepOk 1 line (t :: r.1, r.2) := by
  obtain ⟨h1, h2, h3⟩ := h
  refine ⟨?_, ?_, ?_⟩
  · intro u hu
    simp at hu
    rcases hu with rfl | hu
    · exact hl
    · exact h1 u hu
  · intro hn
    obtain ⟨pre, x, e, hx, hpre, hlen⟩ := h2 hn
    refine ⟨t :: pre, x, by simp [e], hx, ?_, by simp; omega⟩
    intro u hu
    simp at hu
    rcases hu with rfl | hu
    · exact ht
    · exact hpre u hu
  · intro st' l' hs
    obtain ⟨a, b, c⟩ := h3 st' l' hs
    refine ⟨?_, b, by simp; omega⟩
    intro u hu
    simp at hu
    rcases hu with rfl | hu
    · exact ht
    · exact a u hu

theorem step_ok (st : LState) (line : Nat) (c : RB) : StepOk (pending st) line (step st line c) := by
  cases st with
  | start ws => exact startStep_ok ws line c
  | ident acc =>
    simp only [step]
    split
    · exact ⟨by simp, by simp, by intro st' l' h; simp at h; simp [← h.1, ← h.2, pending]⟩
    · exact emit_then_start _ (by simp [Tok.terminal, tIdentifier, tEOF, tError]) line rfl _
        (startStep_ok [] line c)
  | int acc =>
    simp only [step]
    split
    · exact ⟨by simp, by simp, by intro st' l' h; simp at h; simp [← h.1, ← h.2, pending]⟩
    · exact emit_then_start _ (by simp [Tok.terminal, tInteger, tEOF, tError]) line rfl _
        (startStep_ok [] line c)
  | str acc esc =>
    simp only [step]
    split
    · exact ⟨by simp, fun _ => ⟨[], _, rfl, by simp [Tok.terminal, tError], by simp, by simp⟩,
        by simp⟩
    split
    · exact ⟨by simp, by simp, by intro st' l' h; simp at h; simp [← h.1, ← h.2, pending]⟩
    split
    · exact ⟨by simp, by simp, by intro st' l' h; simp at h; simp [← h.1, ← h.2, pending]⟩
    split
    · exact ⟨by simp, by simp,
        by intro st' l' h; simp at h
           simp [← h.1, ← h.2, pending, Tok.terminal, tString, tEOF, tError]⟩
    · exact ⟨by simp, by simp, by intro st' l' h; simp at h; simp [← h.1, ← h.2, pending]⟩
  | comment =>
    simp only [step]
    split
    · exact startStep_ok [] line c
    · exact ⟨by simp, by simp, by intro st' l' h; simp at h; simp [← h.1, ← h.2, pending]⟩
  | hyphen hh =>
    simp only [step]
    split
    · exact ⟨by simp, by simp,
        by intro st' l' h; simp at h
           simp [← h.1, ← h.2, pending, Tok.terminal, tArrow, tEOF, tError]⟩
    split
    · exact ⟨by simp, by simp, by intro st' l' h; simp at h; simp [← h.1, ← h.2, pending]⟩
    · exact emit_then_start _ (by simp [Tok.terminal, tHyphen, tEOF, tError]) line rfl _
        (startStep_ok [] line c)
  | bar b =>
    simp only [step]
    split
    · exact ⟨by simp, by simp,
        by intro st' l' h; simp at h
           simp [← h.1, ← h.2, pending, Tok.terminal, tOr, tEOF, tError]⟩
    · exact emit_then_start _ (by simp [Tok.terminal, tBar, tEOF, tError]) line rfl _
        (startStep_ok [] line c)

theorem finish_ok (st : LState) (line : Nat) :
    ∃ pre t, finish st line = pre ++ [t] ∧ t.terminal = true ∧ (∀ u ∈ pre, u.terminal = false) ∧
      (∀ u ∈ finish st line, u.line = line) ∧ (finish st line).length = pending st + 1 := by
  cases st <;> simp only [finish]
  · exact ⟨[], _, rfl, by simp [Tok.terminal, tEOF], by simp, by simp, by simp [pending]⟩
  · exact ⟨[_], _, rfl, by simp [Tok.terminal, tEOF],
      by simp [Tok.terminal, tIdentifier, tEOF, tError], by simp, by simp [pending]⟩
  · exact ⟨[], _, rfl, by simp [Tok.terminal, tError], by simp, by simp, by simp [pending]⟩
  · exact ⟨[_], _, rfl, by simp [Tok.terminal, tEOF],
      by simp [Tok.terminal, tInteger, tEOF, tError], by simp, by simp [pending]⟩
  · exact ⟨[], _, rfl, by simp [Tok.terminal, tEOF], by simp, by simp, by simp [pending]⟩
  · exact ⟨[_], _, rfl, by simp [Tok.terminal, tEOF],
      by simp [Tok.terminal, tHyphen, tEOF, tError], by simp, by simp [pending]⟩
  · exact ⟨[_], _, rfl, by simp [Tok.terminal, tEOF],
      by simp [Tok.terminal, tBar, tEOF, tError], by simp, by simp [pending]⟩

/-- the shape of every item list the lexer can send -/
theorem lexFrom_ok (rs : List RB) : ∀ (st : LState) (line : Nat),
    ∃ pre t, lexFrom st line rs = pre ++ [t] ∧ t.terminal = true ∧
      (∀ u ∈ pre, u.terminal = false) ∧ (∀ u ∈ lexFrom st line rs, line ≤ u.line) ∧
      (lexFrom st line rs).length ≤ rs.length + pending st + 1 := by
  induction rs with
  | nil =>
    intro st line
    obtain ⟨pre, t, e, ht, hp, hl, hn⟩ := finish_ok st line
    refine ⟨pre, t, by simpa [lexFrom] using e, ht, hp, ?_, by simp [lexFrom, hn]⟩
    intro u hu
    simp [lexFrom] at hu
    exact Nat.le_of_eq (hl u hu).symm
  | cons c rest ih =>
    intro st line
    have hs := step_ok st line c
    simp only [lexFrom]
    rcases hr : step st line c with ⟨ts, nxt⟩
    rw [hr] at hs
    obtain ⟨h1, h2, h3⟩ := hs
    cases nxt with
    | none =>
      obtain ⟨pre, t, e, ht, hp, hlen⟩ := h2 rfl
      simp at e hlen h1
      refine ⟨pre, t, by simpa using e, ht, hp, ?_, by simp; omega⟩
      intro u hu
      simp at hu
      exact Nat.le_of_eq (h1 u hu).symm
    | some sl =>
      obtain ⟨st', line'⟩ := sl
      obtain ⟨ha, hb, hc⟩ := h3 st' line' rfl
      simp at ha hb hc h1
      obtain ⟨pre, t, e, ht, hp, hl, hn⟩ := ih st' line'
      refine ⟨ts ++ pre, t, by simp [e], ht, ?_, ?_, ?_⟩
      · intro u hu
        simp at hu
        rcases hu with hu | hu
        · exact ha u hu
        · exact hp u hu
      · intro u hu
        simp at hu
        rcases hu with hu | hu
        · exact Nat.le_of_eq (h1 u hu).symm
        · exact Nat.le_trans hb (hl u hu)
      · simp
        omega

theorem decodeAux_length (bs : List Nat) : ∀ skip, (decodeAux skip bs).length ≤ bs.length := by
  induction bs with
  | nil => intro skip; simp [decodeAux]
  | cons b rest ih =>
    intro skip
    cases skip with
    | zero => simp only [decodeAux, List.length_cons]; have := ih (((decodeRune1 b rest).2) - 1); omega
    | succ k => simp only [decodeAux, List.length_cons]; have := ih k; omega

end SfntV.Dsl
