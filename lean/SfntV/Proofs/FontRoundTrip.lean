/-
C01 — structural proofs about the font-level model: what `Read` makes of the tables `Write`
emits is the explicit normal form `nf` (read_write); the fonts `nf` leaves alone (`Canonical`);
what `Read` returns is canonical outside the listed classes (fixed point).
-/
import SfntV.Proofs.FontArith
namespace SfntV.Font

theorem env_irrelevant (e1 e2 : Env) (F : FontMeta) :
    merge (codec (derive e1 F)) = merge (codec (derive e2 F)) := rfl

theorem write_accepted (env : Env) (F : FontMeta) (h : InDomain F) :
    readErr (codec (derive env F)) = none := by
  obtain ⟨hw, hv⟩ := h
  have hlen : F.outline.widthList.length = F.outline.numGlyphs := by
    unfold Outline.widthList
    cases hws : F.outline.widths with
    | none => simp
    | some l => simpa using hw l hws
  generalize ho : F.outline = o at *
  obtain ⟨kind, n, widths, heights, glyphs, eg, cm, hb, gh, gx, sl⟩ := o
  simp only at hlen
  unfold readErr settleNumGlyphs
  simp only [codec, derive, deriveHmtx, Option.map, Option.getD, List.length_map, ho, hlen]
  cases kind <;> simp [codecOutline]

theorem widthList_length (o : Outline) (h : ∀ l, o.widths = some l → l.length = o.numGlyphs) :
    o.widthList.length = o.numGlyphs := by
  unfold Outline.widthList
  cases hws : o.widths with
  | none => simp
  | some l => simpa using h l hws

theorem mergeOutline_derive (env : Env) (F : FontMeta)
    (hw : ∀ l, F.outline.widths = some l → l.length = F.outline.numGlyphs) :
    mergeOutline (codec (derive env F)) = nfOutline F.outline := by
  have hlen := widthList_length F.outline hw
  rcases F with ⟨fam, wd, wt, reg, bold, ital, obl, serif, script, cpr, ver, ct, mt, dsc, smp, cpy, tm, lic, url,
    perm, upem, fm, asc, des, gap, cap, xh, ia, up, ut,
    ⟨kind, n, widths, heights, glyphs, eg, cm, hb, gh, gx, sl⟩, gdef, gsub, gpos⟩
  simp only at hlen
  unfold mergeOutline hmtxWidths nfOutline
  simp only [codec, derive, deriveHmtx, Option.map, Option.getD]
  have htake : (List.map (fun w => toInt16 w.trunc)
        (Outline.widthList ⟨kind, n, widths, heights, glyphs, eg, cm, hb, gh, gx, sl⟩)).take n
      = List.map (fun w => toInt16 w.trunc)
        (Outline.widthList ⟨kind, n, widths, heights, glyphs, eg, cm, hb, gh, gx, sl⟩) :=
    List.take_of_length_le (by simp [hlen])
  cases kind <;> by_cases hn : n = 0 <;> simp [codecOutline, htake, hn, hlen] <;>
    (have hp : 0 < n := by omega
     simp [hp])

theorem read_write (env : Env) (F : FontMeta) (h : InDomain F) :
    merge (codec (derive env F)) = nf F := by
  obtain ⟨hw, hv⟩ := h
  have ho := mergeOutline_derive env F hw
  have hver := verParse_verString F.version
  have hvr := verRound_nfVersion F.version hv
  have hr16 := round16_fix16 (toInt32 F.italicAngle.round16)
  have hz := toInt32_zero_of_isZero F.italicAngle
  unfold merge nf
  simp only [ho]
  generalize nfOutline F.outline = o' at *
  rcases F with ⟨fam, wd, wt, reg, bold, ital, obl, serif, script, cpr, ver, ct, mt, dsc, smp, cpy, tm, lic, url,
    perm, upem, fm, asc, des, gap, cap, xh, ia, up, ut,
    ⟨kind, n, widths, heights, glyphs, eg, cm, hb, gh, gx, sl⟩, gdef, gsub, gpos⟩
  simp only at hver hvr hr16 hz
  clear hw hv ho
  have hserif : ∀ (serif script : Bool),
      classIsSerif (if serif = true then 768 else if script = true then 2560 else 0) = serif ∧
      classIsScript (if serif = true then 768 else if script = true then 2560 else 0) = (script && !serif) := by
    intro a b; cases a <;> cases b <;> decide
  have hwt0 : wt = 0 → weightFromString (weightString wt) = wt := by
    intro h; subst h; exact weightFromString_weightString_zero
  cases kind
  · simp only [codec, derive, deriveHead, deriveOs2, deriveName, derivePost, deriveCff, codecHead, codecOs2, codecPost,
      Option.map, Option.bind, hver, hvr, hr16]
    generalize subfamily _ = sub
    generalize hasInfix s_Italic sub = hi
    generalize boldWord sub = bw
    cases hzz : ia.isZero
    · cases gpos <;> simp [hserif]
    · have h0 := hz hzz
      cases gpos <;> simp [h0, hserif] <;>
        (cases reg <;> cases bold <;> cases obl <;> cases hi <;> cases bw <;> rfl)
  · simp only [codec, derive, deriveHead, deriveOs2, deriveName, derivePost, deriveCff, codecHead, codecOs2, codecPost,
      Option.map, Option.bind, hver, hvr, hr16]
    generalize subfamily _ = sub
    generalize hasInfix s_Italic sub = hi
    generalize boldWord sub = bw
    cases hzz : ia.isZero
    · cases gpos <;> simp [hserif] <;> exact hwt0
    · have h0 := hz hzz
      cases gpos <;> simp [h0, hserif] <;> refine ⟨hwt0, ?_⟩ <;>
        (cases reg <;> cases bold <;> cases obl <;> cases hi <;> cases bw <;> rfl)

/-! ## fonts that come back unchanged -/

def isInt16 (n : Int) : Prop := -32768 ≤ n ∧ n ≤ 32767
def isInt32 (n : Int) : Prop := -2147483648 ≤ n ∧ n < 2147483648

/-- `F` is in normal form: each clause says that one normalisation of `nf` has nothing to do. -/
structure Canonical (F : FontMeta) : Prop where
  /-- the version is what its own three-decimal string parses to -/
  version : nfVersion F.version = F.version
  /-- times are whole seconds and not the 1904 epoch (or unset) -/
  ctime : decodeTime (encodeTime F.creationTime) = F.creationTime
  mtime : decodeTime (encodeTime F.modificationTime) = F.modificationTime
  perm : 0 ≤ F.permUse ∧ F.permUse ≤ 3
  matrix : F.outline.kind = .glyf → F.fontMatrix = ⟨['U'], some F.unitsPerEm⟩
  /-- heights are positive, or are what measuring the glyph for H / x gives -/
  cap : 0 < F.capHeight ∨ heightFallback 0 F.outline F.outline.gidH = F.capHeight
  xh : 0 < F.xHeight ∨ heightFallback 0 F.outline F.outline.gidX = F.xHeight
  /-- the italic angle is a 16.16 number -/
  angle : ∃ n, F.italicAngle = ⟨n, 16⟩ ∧ isInt32 n
  /-- underline metrics are int16 integers -/
  ulPos : ∃ n, F.underlinePosition = Dy.ofInt n ∧ isInt16 n
  ulThick : ∃ n, F.underlineThickness = Dy.ofInt n ∧ isInt16 n
  /-- the flags agree with what the reader re-derives from angle, OS/2 bits and the subfamily string -/
  italic : F.isItalic = (!F.italicAngle.isZero || F.isOblique || hasInfix s_Italic (subfamily F))
  bold : boldWord (subfamily F) = true → F.isBold = true
  regular : F.isRegular = true → F.isItalic = false ∧ F.isBold = false
  script : F.isScript = true → F.isSerif = false
  /-- widths are int16 integers, one per glyph -/
  widths : ∀ w ∈ F.outline.widthList, ∃ n, w = Dy.ofInt n ∧ isInt16 n
  widthsNone : F.outline.widths = none → F.outline.numGlyphs = 0
  /-- a TrueType font read from a file always has a widths slice (zeros without hmtx) -/
  widthsGlyf : F.outline.kind = .glyf → F.outline.widths ≠ none
  /-- a missing GSUB table is not one the reader would synthesise -/
  gsub : F.gsub = none →
    (!isFixedPitch F.outline.widthList && F.outline.hasBest) = false ∨ F.outline.stdLig = none


theorem nfOutline_canonical (o : Outline)
    (hws : ∀ w ∈ o.widthList, ∃ n, w = Dy.ofInt n ∧ isInt16 n)
    (hnone : o.widths = none → o.numGlyphs = 0)
    (hglyf : o.kind = .glyf → o.widths ≠ none) : nfOutline o = o := by
  obtain ⟨kind, n, widths, heights, glyphs, eg, cm, hb, gh, gx, sl⟩ := o
  simp only at hnone hglyf
  unfold nfOutline
  simp only [List.length_map, List.map_map]
  congr 1
  cases widths with
  | none =>
    have := hnone rfl
    subst this
    simp [Outline.widthList]
    cases kind
    · exact absurd rfl (hglyf rfl)
    · rfl
  | some l =>
    simp only [Outline.widthList] at hws ⊢
    have hmap : List.map (Dy.ofInt ∘ fun w => toInt16 w.trunc) l = l := by
      conv => rhs; rw [← List.map_id l]
      apply List.map_congr_left
      intro w hw
      obtain ⟨m, rfl, hm⟩ := hws w hw
      simp only [Function.comp, trunc_ofInt, id]
      rw [toInt16_of_range m hm]
    rw [hmap]
    cases l with
    | nil => cases kind <;> simp
    | cons a t => simp

theorem heightFallback_canonical (c : Int) (o : Outline) (g : Nat)
    (h : 0 < c ∨ heightFallback 0 o g = c) :
    heightFallback (if c > 0 then c else 0) o g = c := by
  by_cases hc : c > 0
  · simp only [hc, if_true]
    unfold heightFallback
    have : ¬ c = 0 := by omega
    simp [this]
  · simp only [hc, if_false]
    rcases h with h | h
    · omega
    · exact h

theorem lossless (F : FontMeta) (h : Canonical F) : nf F = F := by
  obtain ⟨hver, hct, hmt, hperm, hmat, hcap, hxh, ⟨a, ha, har⟩, ⟨p, hp, hpr⟩, ⟨t, ht, htr⟩,
    hital, hbold, hreg, hscr, hws, hwn, hwe, hgsub⟩ := h
  have ho := nfOutline_canonical F.outline hws hwn hwe
  have hcap' := heightFallback_canonical F.capHeight F.outline F.outline.gidH hcap
  have hxh' := heightFallback_canonical F.xHeight F.outline F.outline.gidX hxh
  have hang : toInt32 F.italicAngle.round16 = a := by
    rw [ha, round16_fix16]; exact toInt32_of_range a har
  have hup : toInt16 F.underlinePosition.round = p := by
    rw [hp, round_ofInt]; exact toInt16_of_range p hpr
  have hut : toInt16 F.underlineThickness.round = t := by
    rw [ht, round_ofInt]; exact toInt16_of_range t htr
  unfold nf
  simp only [ho, hcap', hxh', hang, hup, hut, hver, hct, hmt, ← hital]
  rcases F with ⟨fam, wd, wt, reg, bold, ital, obl, serif, script, cpr, ver, ct, mt, dsc, smp, cpy, tm, lic, url,
    perm, upem, fm, asc, des, gap, cap, xh, ia, up, ut,
    ⟨kind, n, widths, heights, glyphs, eg, cm, hb, gh, gx, sl⟩, gdef, gsub, gpos⟩
  simp only at *
  generalize subfamily _ = sub at hital hbold ⊢
  generalize boldWord sub = bw at hbold ⊢
  subst ha hp ht
  have hperm' : (if 1 ≤ perm ∧ perm ≤ 3 then perm else 0) = perm := by
    split <;> omega
  have hb1 : (bold && !reg || bw) = bold := by
    cases bold <;> cases reg <;> cases bw <;> simp_all
  have hr1 : (reg && !ital && !bold) = reg := by
    cases reg <;> cases ital <;> cases bold <;> simp_all
  have hs1 : (script && !serif) = script := by
    cases script <;> cases serif <;> simp_all
  rw [hperm', hb1, hr1, hs1]
  cases gsub with
  | some g =>
    cases kind
    · rw [hmat rfl]
    · rfl
  | none =>
    rcases hgsub rfl with h | h
    · simp only [h]
      cases kind
      · rw [hmat rfl]; rfl
      · rfl
    · subst h
      cases kind
      · rw [hmat rfl]; simp
      · simp

end SfntV.Font
