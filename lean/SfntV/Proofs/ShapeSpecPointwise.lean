/-
C06, pointwise subtables (`pointwise` of ShapeSpecCtxBase.lean): the engine's `applySub` looks
neither at the window limit nor at the stack and leaves the stack alone (D1); the reference
`matchSub` does not look at the limit and rewrites exactly the current glyph, keeping its tags
(D2); for EVERY subtable the glyphs a finished application returns are untagged when the current
glyph and the following ones are (D3).
-/
import SfntV.Proofs.ShapeSpecCtxBase
import SfntV.Proofs.ShapeSpecSem
set_option linter.unusedSimpArgs false
namespace SfntV.C06
open SfntV
open SfntV.Shape (Glyph Gdef Lookup LookupList Subtable Action St Nested)
open SfntV.Spec.Shape (TG gl Hit matchSub)

/-! ## D1: the engine -/
/-- put the stack `stk` under the result of an application on the empty stack -/
private def relift (stk : List Nested) : Outcome (Option (St × Nat)) → Outcome (Option (St × Nat))
  | .ok none => .ok none
  | .ok (some (st', n)) => .ok (some (⟨st'.seq, stk⟩, n))
  | .err e => .err e
  | .panic p => .panic p

private theorem relift_bind (stk : List Nested) (x : Outcome α) (f : α → Outcome (Option (St × Nat))) :
    relift stk (x >>= f) = x >>= fun v => relift stk (f v) := by
  cases x <;> rfl

private theorem bind_congr' {x : Outcome α} {f g : α → Outcome β} (h : ∀ v, f v = g v) : (x >>= f) = (x >>= g) := by
  have : f = g := funext h
  rw [this]

theorem applySub_pointwise (kp : Nat → Bool) (seq : List Glyph) (stk : List Nested) (a : Nat) (b : Int) (s : Subtable)
    (hs : pointwise s = true) :
    Shape.applySub kp ⟨seq, stk⟩ a b s =
      (match Shape.applySub kp ⟨seq, []⟩ a (seq.length : Int) s with
       | .ok none => .ok none
       | .ok (some (st', n)) => .ok (some (⟨st'.seq, stk⟩, n))
       | .err e => .err e
       | .panic p => .panic p) := by
  change _ = relift stk _
  cases s <;> first | (simp [pointwise] at hs; done) | skip
  all_goals simp only [Shape.applySub, Shape.applyMark, relift_bind]
  all_goals refine bind_congr' fun g => ?_
  all_goals repeat' (first | rfl | split | (refine bind_congr' fun _ => ?_) | (simp only [relift_bind]; refine bind_congr' fun _ => ?_))

/-! ## D2: the reference -/

theorem matchSub_pointwise_lim (kp : Nat → Bool) (gd : Gdef) (pre : List TG) (cur : TG) (post : List TG)
    (lim lim' : Nat) (s : Subtable) (hs : pointwise s = true) :
    Spec.Shape.matchSub kp gd pre cur post lim s = Spec.Shape.matchSub kp gd pre cur post lim' s := by
  cases s <;> first | (simp [pointwise] at hs; done) | rfl

theorem matchSub_pointwise_shape (kp : Nat → Bool) (gd : Gdef) (pre : List TG) (cur : TG) (post : List TG)
    (lim : Nat) (s : Subtable) (hs : pointwise s = true) (h : Hit)
    (hm : Spec.Shape.matchSub kp gd pre cur post lim s = .ok (some h)) :
    ∃ c' : TG, h = .done [c'] post ∧ c'.inp = cur.inp ∧ c'.win = cur.win := by
  cases s <;> first | (simp [pointwise] at hs; done) | skip
  all_goals simp only [Spec.Shape.matchSub, Spec.Shape.markAttach, Spec.Shape.attachTarget, Spec.Shape.need,
    Spec.Shape.undef, bind, Except.bind, pure, Except.pure] at hm
  all_goals (repeat' (split at hm))
  all_goals (first | (cases hm; done) | (cases hm; exact ⟨_, rfl, rfl, rfl⟩) | skip)

/-! ## D3: tags -/

theorem allClean_nil : AllClean [] := fun _ h => by cases h

theorem allClean_cons {t : TG} {ts : List TG} (h1 : Clean t) (h2 : AllClean ts) : AllClean (t :: ts) := by
  intro x hx
  rcases List.mem_cons.mp hx with hx | hx
  · subst hx; exact h1
  · exact h2 x hx

theorem allClean_append {as bs : List TG} (h1 : AllClean as) (h2 : AllClean bs) : AllClean (as ++ bs) := by
  intro x hx
  rcases List.mem_append.mp hx with hx | hx
  · exact h1 x hx
  · exact h2 x hx

theorem allClean_subset {as bs : List TG} (h : ∀ x ∈ as, x ∈ bs) (hb : AllClean bs) : AllClean as :=
  fun x hx => hb x (h x hx)

theorem allClean_take {ts : List TG} (n : Nat) (h : AllClean ts) : AllClean (ts.take n) :=
  allClean_subset (fun _ hx => List.mem_of_mem_take hx) h

theorem allClean_drop {ts : List TG} (n : Nat) (h : AllClean ts) : AllClean (ts.drop n) :=
  allClean_subset (fun _ hx => List.mem_of_mem_drop hx) h

theorem allClean_filter {ts : List TG} (p : TG → Bool) (h : AllClean ts) : AllClean (ts.filter p) :=
  allClean_subset (fun _ hx => (List.mem_filter.mp hx).1) h

theorem clean_tags {c cur : TG} (hi : c.inp = cur.inp) (hw : c.win = cur.win) (hc : Clean cur) : Clean c :=
  ⟨hi.trans hc.1, hw.trans hc.2⟩

/-- the pair adjustment changes only the field `g` of the two glyphs -/
theorem pairAdjust_clean (adj : Shape.PairAdj) (cur : TG) (post : List TG) (j : Nat) (second : TG) (dn rest : List TG)
    (hc : Clean cur) (hp : AllClean post) (hs : Clean second)
    (h : Spec.Shape.pairAdjust adj cur post j second = .ok (some (.done dn rest))) :
    AllClean dn ∧ AllClean rest := by
  unfold Spec.Shape.pairAdjust at h
  cases h1 : Spec.Shape.addValue adj.first cur.g with
  | error e => rw [h1] at h; simp [bind, Except.bind] at h
  | ok g1 =>
    rw [h1] at h
    simp only [bind, Except.bind, pure, Except.pure] at h
    split at h
    · injection h with h; injection h with h; injection h with ha hb
      subst ha hb
      exact ⟨allClean_cons (clean_tags rfl rfl hc) (allClean_take _ hp), allClean_drop _ hp⟩
    · rename_i v hv
      cases h2 : Spec.Shape.addValue (some v) second.g with
      | error e => rw [h2] at h; simp at h
      | ok g2 =>
        rw [h2] at h
        simp only at h
        injection h with h; injection h with h; injection h with ha hb
        subst ha hb
        refine ⟨?_, allClean_drop _ hp⟩
        rw [List.cons_append]
        exact allClean_cons (clean_tags rfl rfl hc)
          (allClean_append (allClean_take _ hp) (allClean_cons (clean_tags rfl rfl hs) allClean_nil))

theorem nextKept_mem (kp : Nat → Bool) (post : List TG) (lim j : Nat) (second : TG)
    (h : Spec.Shape.nextKept kp (post.take lim) 0 = some (j, second)) : second ∈ post := by
  obtain ⟨_, h2, _, _⟩ := C06sem.nextKept_facts kp _ 0 j second h
  exact List.mem_of_mem_take (List.mem_of_getElem? h2)

theorem matchSub_clean (kp : Nat → Bool) (gd : Gdef) (pre : List TG) (cur : TG) (post : List TG) (lim : Nat)
    (s : Subtable) (dn rest : List TG) (hc : Clean cur) (hp : AllClean post)
    (hm : Spec.Shape.matchSub kp gd pre cur post lim s = .ok (some (.done dn rest))) :
    AllClean dn ∧ AllClean rest := by
  by_cases hpw : pointwise s = true
  · obtain ⟨c', he, hi, hw⟩ := matchSub_pointwise_shape kp gd pre cur post lim s hpw _ hm
    injection he with h1 h2
    subst h1 h2
    exact ⟨allClean_cons (clean_tags hi hw hc) allClean_nil, hp⟩
  · cases s with
    | gsub41 cov ligs =>
      obtain ⟨i, set, l, used, _, _, _, _, _, hdn, hrest⟩ := C06sem.ligature_hit kp gd pre cur post lim cov ligs dn rest hm
      subst hdn hrest
      exact ⟨allClean_cons (clean_tags rfl rfl hc) (allClean_filter _ (allClean_take _ hp)), allClean_drop _ hp⟩
    | gsub21 cov repl =>
      simp only [Spec.Shape.matchSub, Spec.Shape.need, Spec.Shape.undef, bind, Except.bind, pure, Except.pure] at hm
      repeat' (split at hm)
      all_goals (first | (cases hm; done) | skip)
      rename_i r0 rs _
      injection hm with hm; injection hm with hm; injection hm with ha hb
      subst ha hb
      refine ⟨allClean_cons (clean_tags rfl rfl hc) ?_, hp⟩
      intro x hx
      obtain ⟨r, _, hr⟩ := List.mem_map.mp hx
      subst hr
      exact hc
    | gpos21 pairs =>
      simp only [Spec.Shape.matchSub] at hm
      split at hm
      · simp [pure, Except.pure] at hm
      · rename_i j second hn
        have hmem := nextKept_mem kp post lim j second hn
        split at hm
        · simp [pure, Except.pure] at hm
        · simp [Spec.Shape.undef] at hm
        · exact pairAdjust_clean _ cur post j second dn rest hc hp (hp _ hmem) hm
    | gpos22 cov cls1 cls2 adj =>
      simp only [Spec.Shape.matchSub] at hm
      split at hm
      · simp [pure, Except.pure] at hm
      · split at hm
        · simp [pure, Except.pure] at hm
        · rename_i j second hn
          have hmem := nextKept_mem kp post lim j second hn
          split at hm
          · simp [pure, Except.pure] at hm
          · split at hm
            · simp [pure, Except.pure] at hm
            · simp [Spec.Shape.undef] at hm
            · exact pairAdjust_clean _ cur post j second dn rest hc hp (hp _ hmem) hm
    | gpos31 _ _ => simp [Spec.Shape.matchSub, Spec.Shape.undef] at hm
    | gsub11 _ _ => simp [pointwise] at hpw
    | gsub12 _ _ => simp [pointwise] at hpw
    | gsub31 _ _ => simp [pointwise] at hpw
    | gsub81 _ _ _ _ => simp [pointwise] at hpw
    | gpos11 _ _ => simp [pointwise] at hpw
    | gpos12 _ _ => simp [pointwise] at hpw
    | gpos41 _ _ _ _ _ => simp [pointwise] at hpw
    | gpos61 _ _ _ _ => simp [pointwise] at hpw
    | ctx1 _ _ =>
      simp only [Spec.Shape.matchSub, Spec.Shape.need, Spec.Shape.undef, bind, Except.bind, pure, Except.pure,
        Option.map] at hm
      repeat' (split at hm)
      all_goals (cases hm; done)
    | ctx2 _ _ _ =>
      simp only [Spec.Shape.matchSub, Spec.Shape.need, Spec.Shape.undef, bind, Except.bind, pure, Except.pure,
        Option.map] at hm
      repeat' (split at hm)
      all_goals (cases hm; done)
    | ctx3 _ _ =>
      simp only [Spec.Shape.matchSub, Spec.Shape.need, Spec.Shape.undef, bind, Except.bind, pure, Except.pure,
        Option.map] at hm
      repeat' (split at hm)
      all_goals (cases hm; done)
    | chain1 _ _ =>
      simp only [Spec.Shape.matchSub, Spec.Shape.need, Spec.Shape.undef, bind, Except.bind, pure, Except.pure,
        Option.map] at hm
      repeat' (split at hm)
      all_goals (cases hm; done)
    | chain2 _ _ _ _ _ =>
      simp only [Spec.Shape.matchSub, Spec.Shape.need, Spec.Shape.undef, bind, Except.bind, pure, Except.pure,
        Option.map] at hm
      repeat' (split at hm)
      all_goals (cases hm; done)
    | chain3 _ _ _ _ =>
      simp only [Spec.Shape.matchSub, Spec.Shape.need, Spec.Shape.undef, bind, Except.bind, pure, Except.pure,
        Option.map] at hm
      repeat' (split at hm)
      all_goals (cases hm; done)
end SfntV.C06
