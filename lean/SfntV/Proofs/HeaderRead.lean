/-
Proofs for property C03, second part: the model of the library's own reader (`read`, header.Read)
accepts every written file and finds every body.
-/
import SfntV.Proofs.Header
namespace SfntV.Header
open SfntV

/-! ## the library's own reader accepts written files -/

/-- the order `read` sorts the coverage intervals by -/
def covLe (a b : Nat × Nat) : Bool := if a.1 ≠ b.1 then a.1 < b.1 else a.2 ≤ b.2

def covOf (recs : List (Bytes × Nat × Nat)) : List (Nat × Nat) :=
  (recs.map fun r => (r.2.1, (r.2.1 + r.2.2) % 4294967296)).mergeSort covLe

/-- `read` succeeds when each of its checks passes -/
theorem read_ok (m : Nat) (f : Bytes) (recs : List (Bytes × Nat × Nat)) (first last : Nat × Nat)
    (h6 : ¬ f.length < 6) (hsc : scalerOk (rd32 f 0) = true) (hn : ¬ rd16 f 4 > m)
    (hgo : read.go f 0 (rd16 f 4) [] = .ok recs) (hne : recs.isEmpty = false)
    (hh : (covOf recs).head? = some first) (hl : (covOf recs).getLast? = some last)
    (c1 : ¬ first.1 < 12) (c2 : overlapping (covOf recs) = false) (c3 : last.2 ≠ 0)
    (c4 : ¬ last.2 - 1 ≥ f.length) : read m f = .ok (rd32 f 0, recs) := by
  unfold read
  rw [if_neg h6]
  simp only [hsc, Bool.not_true, Bool.false_eq_true, if_false, if_neg hn, hgo, hne]
  have e : (List.map (fun r : Bytes × Nat × Nat => (r.2.1, (r.2.1 + r.2.2) % 4294967296)) recs).mergeSort
      (fun a b => if a.1 ≠ b.1 then decide (a.1 < b.1) else decide (a.2 ≤ b.2)) = covOf recs := rfl
  rw [e, hh, hl]
  simp only [if_neg c1, c2, Bool.false_eq_true, if_false, if_neg c3, if_neg c4]

theorem covLe_trans (a b c : Nat × Nat) (h1 : covLe a b = true) (h2 : covLe b c = true) : covLe a c = true := by
  simp only [covLe] at *
  split at h1 <;> split at h2 <;> split <;> simp only [decide_eq_true_eq] at * <;> omega

theorem covLe_total (a b : Nat × Nat) : (covLe a b || covLe b a) = true := by
  simp only [covLe, Bool.or_eq_true]
  split <;> split <;> simp only [decide_eq_true_eq] at * <;> omega

theorem covLe_antisymm (a b : Nat × Nat) (h1 : covLe a b = true) (h2 : covLe b a = true) : a = b := by
  simp only [covLe] at *
  split at h1 <;> split at h2 <;> simp only [decide_eq_true_eq] at * <;>
    first | omega | (apply Prod.ext <;> omega)

theorem covLe_intro (a1 a2 b1 b2 : Nat) (h : a1 < b1 ∨ (a1 = b1 ∧ a2 ≤ b2)) :
    covLe (a1, a2) (b1, b2) = true := by
  simp only [covLe]
  split <;> simp only [decide_eq_true_eq] <;> omega

theorem not_overlapping_of_pairwise (l : List (Nat × Nat)) (h : l.Pairwise (fun a b => a.2 ≤ b.1)) :
    overlapping l = false := by
  induction l with
  | nil => rfl
  | cons a l ih =>
    cases l with
    | nil => rfl
    | cons b l =>
      rw [List.pairwise_cons] at h
      have := h.1 b List.mem_cons_self
      simp only [overlapping, Bool.or_eq_false_iff, decide_eq_false_iff_not]
      exact ⟨by omega, ih h.2⟩

/-- the directory loop of `read` over a file whose directory decodes to `es` -/
theorem go_spec (f : Bytes) (es : List DirEnt) (i : Nat) (acc : List (Bytes × Nat × Nat))
    (hes : ∀ j (h : j < es.length), entAt f (12 + 16 * (i + j)) = es[j])
    (hlen : 12 + 16 * (i + es.length) ≤ f.length)
    (hpr : ∀ e ∈ es, ∀ b ∈ e.tag, ¬ (b < 0x20) ∧ ¬ (b > 0x7e))
    (hacc : ∀ r ∈ acc, ∀ e ∈ es, r.1 ≠ e.tag) (hnd : (es.map (·.tag)).Nodup) :
    read.go f i es.length acc = .ok (acc.reverse ++ es.map (fun e => (e.tag, e.off, e.len))) := by
  induction es generalizing i acc with
  | nil => simp [read.go]
  | cons e es ih =>
    have h0 := hes 0 (by simp)
    simp only [Nat.add_zero, List.getElem_cons_zero] at h0
    simp only [List.length_cons] at hlen
    simp only [List.map_cons, List.nodup_cons] at hnd
    have hname : (f.drop (12 + 16 * i)).take 4 = e.tag := by rw [← h0]; rfl
    have hoff : rd32 f (12 + 16 * i + 8) = e.off := by rw [← h0]; rfl
    have hl : rd32 f (12 + 16 * i + 12) = e.len := by rw [← h0]; rfl
    have c1 : ¬ f.length < 12 + 16 * i + 16 := by omega
    have c2 : e.tag.any (fun b => b < 0x20 || b > 0x7e) = false := by
      rw [List.any_eq_false]
      intro b hb
      have := hpr e List.mem_cons_self b hb
      simp only [Bool.or_eq_true, decide_eq_true_eq]
      exact fun h => h.elim this.1 this.2
    have c3 : acc.any (fun r => r.1 == e.tag) = false := by
      rw [List.any_eq_false]
      intro r hr
      simpa using hacc r hr e List.mem_cons_self
    simp only [List.length_cons, read.go]
    rw [if_neg c1, hname, hoff, hl]
    simp only [c2, c3, Bool.false_eq_true, if_false]
    rw [ih (i + 1) _ ?_ (by omega) (fun e' he' => hpr e' (List.mem_cons_of_mem _ he')) ?_ hnd.2]
    · simp only [List.reverse_cons, List.append_assoc, List.cons_append, List.nil_append, List.map_cons]
    · intro j hj
      have := hes (j + 1) (by simp; omega)
      simp only [List.getElem_cons_succ] at this
      rw [← this]; congr 2; omega
    · intro r hr e' he'
      rcases List.mem_cons.mp hr with rfl | hr
      · intro hc
        exact hnd.1 (List.mem_map.mpr ⟨e', he', hc.symm⟩)
      · exact hacc r hr e' (List.mem_cons_of_mem _ he')


theorem scalerOk_lt (sc : Nat) (h : scalerOk sc = true) : sc < 4294967296 := by
  simp only [scalerOk, Bool.or_eq_true, beq_iff_eq] at h
  omega

def recTriple (r : Rec) : Bytes × Nat × Nat := (r.tag, r.off, r.len)
def covPair (r : Rec) : Nat × Nat := (r.off, r.off + r.len)

section
variable {l0 : List (Bytes × Bytes)} {f : Bytes → Bytes} (L : Layout l0 f) (sc : Nat)
include L

theorem Layout.rec_fits : ∀ r ∈ recsOf l0, 12 + 16 * l0.length ≤ r.off ∧
    r.off + r.len ≤ fileSize l0 ∧ fileSize l0 < 4294967296 := by
  intro r hr
  have hb := mkRecs_bounds _ _ r hr
  have hs := L.size
  simp only [fileSize] at hs ⊢
  simp only [padSum] at hb
  omega

/-- the sorted coverage list `read` computes is the layout order -/
theorem Layout.cov_eq : covOf ((dirOf l0).map recTriple) = (recsOf l0).map covPair := by
  have hperm : (covOf ((dirOf l0).map recTriple)).Perm ((recsOf l0).map covPair) := by
    refine (List.mergeSort_perm _ _).trans ?_
    rw [List.map_map]
    refine ((dirOf_perm l0).map _).trans ?_
    rw [List.map_congr_left]
    intro r hr
    have := L.rec_fits r hr
    simp only [Function.comp, recTriple, covPair]
    rw [Nat.mod_eq_of_lt (by omega)]
  have hsorted : ((recsOf l0).map covPair).Pairwise (fun a b => covLe a b = true) := by
    rw [List.pairwise_map]
    refine (mkRecs_disj _ l0).imp ?_
    intro a b hab
    exact covLe_intro _ _ _ _ (by omega)
  exact List.Perm.eq_of_pairwise (le := fun a b => covLe a b = true)
    (fun a b _ _ => covLe_antisymm a b)
    (List.pairwise_mergeSort covLe_trans covLe_total _) hsorted hperm

theorem Layout.read (hsc : scalerOk sc = true) (hn : l0.length ≤ 280)
    (hpr : ∀ t ∈ l0, ∀ b ∈ t.1, (0x20 : UInt8) ≤ b ∧ b ≤ 0x7e) :
    ∃ recs, read 280 (fileOf sc l0 f) = .ok (sc, recs) ∧ recs.length = l0.length ∧
      ∀ r ∈ recs, ∃ body, (r.1, body) ∈ mapHead f l0 ∧
        ((fileOf sc l0 f).drop r.2.1).take r.2.2 = body := by
  have hn0 : l0.length ≠ 0 := fun h => L.ne (List.length_eq_zero_iff.mp h)
  have hF := hdr_fields sc l0.length ((dirOf l0).flatMap Rec.bytes ++ flat (mapHead f l0))
  rw [← fileOf_eq] at hF
  have hlen := L.length_file (f := f) sc
  have hsize := L.size
  have hcnt := L.count_field (f := f) sc
  have hsc32 : rd32 (fileOf sc l0 f) 0 = sc := by rw [hF.1, Nat.mod_eq_of_lt (scalerOk_lt sc hsc)]
  have hfs : 12 + 16 * l0.length ≤ fileSize l0 := by simp only [fileSize]; omega
  refine ⟨(dirOf l0).map recTriple, ?_, by rw [List.length_map, length_dirOf], ?_⟩
  · -- the directory loop
    have hdir := L.specDir_file (f := f) sc
    have hgo : read.go (fileOf sc l0 f) 0 (rd16 (fileOf sc l0 f) 4) [] = .ok ((dirOf l0).map recTriple) := by
      have := go_spec (fileOf sc l0 f) ((dirOf l0).map toDir) 0 []
        (by
          intro j hj
          have e : ((dirOf l0).map toDir)[j] = (specDir (fileOf sc l0 f))[j]'(by rw [hdir]; exact hj) := by
            simp only [hdir]
          rw [e]
          simp only [specDir_eq, List.getElem_map, List.getElem_range, Nat.zero_add])
        (by rw [List.length_map, length_dirOf, hlen]; omega)
        (by
          intro e he b hb
          obtain ⟨r, hr, rfl⟩ := List.mem_map.mp he
          rw [mem_dirOf] at hr
          obtain ⟨t, ht, htag, _⟩ := L.extract_mem sc r hr
          have : b ∈ t.1 := by rw [← htag]; exact hb
          have := hpr t ht b this
          simp only [UInt8.le_iff_toNat_le, UInt8.lt_iff_toNat_lt, gt_iff_lt] at this ⊢
          omega)
        (by intro r hr; cases hr)
        (by
          rw [List.map_map]
          exact ((dirOf_perm l0).map (·.tag)).symm.nodup L.tags_nodup)
      rw [List.length_map, length_dirOf, List.map_map] at this
      rw [hcnt, this]; rfl
    -- the coverage checks
    have hcov := L.cov_eq
    have hne : (recsOf l0).map covPair ≠ [] := by
      intro h
      have := congrArg List.length h
      rw [List.length_map, recsOf, length_mkRecs] at this
      exact hn0 this
    have hmem : ∀ p ∈ (recsOf l0).map covPair, 12 ≤ p.1 ∧ p.2 ≠ 0 ∧ p.2 - 1 < fileSize l0 := by
      intro p hp
      obtain ⟨r, hr, rfl⟩ := List.mem_map.mp hp
      have := L.rec_fits r hr
      simp only [covPair]
      omega
    have h1 := hmem _ (List.head_mem hne)
    have h2 := hmem _ (List.getLast_mem hne)
    have := read_ok 280 (fileOf sc l0 f) ((dirOf l0).map recTriple)
      (((recsOf l0).map covPair).head hne) (((recsOf l0).map covPair).getLast hne)
      (by rw [hlen]; omega) (by rw [hsc32]; exact hsc) (by rw [hcnt]; omega) hgo
      (by
        rw [List.isEmpty_eq_false_iff]
        intro h
        have := congrArg List.length h
        rw [List.length_map, length_dirOf] at this
        exact hn0 this)
      (by rw [hcov]; exact List.head?_eq_some_head hne)
      (by rw [hcov]; exact List.getLast?_eq_some_getLast hne)
      (by omega)
      (by
        rw [hcov]
        apply not_overlapping_of_pairwise
        rw [List.pairwise_map]
        refine (mkRecs_disj _ l0).imp ?_
        intro a b hab
        simp only [covPair]; omega)
      h2.2.1 (by rw [hlen]; omega)
    rw [this, hsc32]
  · intro q hq
    obtain ⟨r, hr, rfl⟩ := List.mem_map.mp hq
    rw [mem_dirOf] at hr
    obtain ⟨t, ht, htag, _, _, hbody⟩ := L.extract_mem sc r hr
    refine ⟨(onHead f t).2, ?_, hbody⟩
    have : (recTriple r).1 = (onHead f t).1 := by rw [onHead_fst]; exact htag
    rw [this, mapHead_eq]
    exact List.mem_map.mpr ⟨t, ht, rfl⟩

end

theorem read_write (sc : Nat) (hsc : scalerOk sc = true) (ts : List Entry)
    (keys_nodup : (ts.map (·.name)).Nodup)
    (size_ok : fileSize (named ts) < 4294967296) (count_ok : (named ts).length < 4096)
    (hn : (named ts).length ≤ 280)
    (hpr : ∀ t ∈ named ts, ∀ b ∈ t.1, (0x20 : UInt8) ≤ b ∧ b ≤ 0x7e)
    (w : Written) (hw : write sc ts = .ok w) :
    ∃ recs, read 280 w.bytes = .ok (sc, recs) ∧ recs.length = w.bodies.length ∧
      ∀ r ∈ recs, ∃ body, (r.1, body) ∈ w.bodies ∧ (w.bytes.drop r.2.1).take r.2.2 = body := by
  obtain ⟨hne, ⟨d, hd, hlen, rfl⟩ | ⟨hno, rfl⟩⟩ := write_ok_cases sc ts w hw
  · have hl := heads_long ts keys_nodup d hd hlen
    have L := layout_head ts keys_nodup size_ok count_ok hne hl (adjOf sc (mapHead clearAdj (orderOf ts)))
    rw [bytes_head]
    have := L.read sc hsc (by rw [length_mapHead, (orderOf_perm ts).length_eq]; exact hn)
      (by
        intro t ht
        obtain ⟨s, hs, rfl⟩ := mem_mapHead _ _ _ ht
        rw [onHead_fst]
        exact hpr s ((mem_orderOf ts s).mp hs))
    dsimp only
    rw [length_mapHead]
    exact this
  · have L := layout_noHead ts keys_nodup size_ok count_ok hne
    rw [bytes_noHead sc _ hno]
    have := L.read sc hsc (by rw [(orderOf_perm ts).length_eq]; exact hn)
      (fun t ht => hpr t ((mem_orderOf ts t).mp ht))
    rw [mapHead_noHead id _ hno] at this
    exact this

end SfntV.Header
