import SfntV.Proofs.DslChainLoop
/-! C19, chained contextual lookups (GSUB 6, GPOS 8): the lookup level and the items. -/
set_option linter.unusedSimpArgs false
set_option linter.unusedVariables false
namespace SfntV.Dsl

structure LookupChainOk (f : Font) (typ : Nat) (l : Lookup) : Prop where
  typ : l.typ = typ
  flags : l.flags < 16
  ne : l.subtables ≠ []
  subs : ∀ st ∈ l.subtables, ChainSub f st

theorem chain_first (f : Font) (st : Subtable) (h : ChainSub f st) :
    (newExplainer f).subtable true st = subP f st ∧ normSub st = st := by
  rcases h with ⟨_, rfl, _⟩ | ⟨_, _, _, _, _, rfl, _⟩ | ⟨_, _, _, _, rfl, _⟩ <;> exact ⟨rfl, rfl⟩

def HeadOk (ps : List Piece) : Prop :=
  (∀ line, ∃ t, (mkToks line ps).head? = some t ∧ [tHyphen].contains t.typ = false ∧ [tEOL].contains t.typ = false) ∧
  (∀ X nx, Safe (nextRune (ps ++ X) nx))

theorem headOk_ws (ps : List Piece) (h : ∀ line, ∃ t, (mkToks line ps).head? = some t ∧
    [tHyphen].contains t.typ = false ∧ [tEOL].contains t.typ = false) : HeadOk (.ws [a1 32] :: ps) := by
  refine ⟨fun line => by simpa [mkToks] using h line, fun X nx => ?_⟩
  have : nextRune ((Piece.ws [a1 32] :: ps) ++ X) nx = some 32 := by simp [nextRune, render, Piece.rbs, a1]
  rw [this]; exact safe_space

theorem chainSub_head (f : Font) (hf : FontOk f) (st : Subtable) (h : ChainSub f st)
    (fuel : Nat) (hfu : tokCount (subP f st) + 2 < fuel) : HeadOk (subP f st) := by
  rcases h with ⟨rules, rfl, hok⟩ | ⟨cov, b, i, l, rules, rfl, hok⟩ | ⟨back, input, look, acts, rfl, hok⟩
  · obtain ⟨hhead, _, ⟨ps, hps⟩⟩ := chain1_branch f hf fuel ChSt.empty rules hok hfu
    rw [hps] at hhead ⊢
    exact headOk_ws ps (fun line => by
      obtain ⟨⟨t, h1, h3, h4⟩, _⟩ := hhead line
      exact ⟨t, by simpa [mkToks] using h1, h4, h3⟩)
  · rw [chain2_subP]
    apply headOk_ws
    intro line
    have hd : ∀ (kw : List Nat) (gl : List (List Nat)) (X : List Piece), gl ≠ [] →
        (mkToks line (classDefsP kw (newExplainer f).writeGlyphSet gl 1 ++ X)).head? =
          some { typ := tIdentifier, val := ascii kw, line := line } := by
      intro kw gl X hne
      cases gl with
      | nil => exact absurd rfl hne
      | cons g gs => simp [classDefsP, mkToks, tk]
    have hnil : ∀ (kw : List Nat) (X : List Piece), classDefsP kw (newExplainer f).writeGlyphSet [] 1 ++ X = X := by
      intro kw X; simp [classDefsP]
    simp only [List.length_nil, Nat.zero_add]
    by_cases hb : classGlyphs b = []
    · rw [hb, hnil]
      by_cases hi : classGlyphs i = []
      · rw [hi, hnil]
        by_cases hl : classGlyphs l = []
        · rw [hl, hnil]
          exact ⟨{ typ := tSlash, val := ascii [47], line := line }, by simp [chain2Tail, mkToks, tk],
            by simp [tSlash, tHyphen], by simp [tSlash, tEOL]⟩
        · exact ⟨_, hd _ _ _ hl, by simp [tIdentifier, tHyphen], by simp [tIdentifier, tEOL]⟩
      · exact ⟨_, hd _ _ _ hi, by simp [tIdentifier, tHyphen], by simp [tIdentifier, tEOL]⟩
    · exact ⟨_, hd _ _ _ hb, by simp [tIdentifier, tHyphen], by simp [tIdentifier, tEOL]⟩
  · rw [chain3P_eq]
    cases input with
    | nil => exact absurd rfl hok.ne
    | cons s0 rest =>
      cases hb : back.reverse with
      | nil =>
        refine ⟨fun line => ⟨{ typ := tBar, val := ascii [124], line := line }, by simp [chain3P, hb, spaceJoin, sp, mkToks],
          by simp [tBar, tHyphen], by simp [tBar, tEOL]⟩, fun X nx => ?_⟩
        have : nextRune (chain3P f back (s0 :: rest) look acts ++ X) nx = some 32 := by
          simp [chain3P, hb, spaceJoin, sp, nextRune, render, Piece.rbs, a1]
        rw [this]; exact safe_space
      | cons b0 bs =>
        refine ⟨fun line => ⟨{ typ := tSquareBracketOpen, val := ascii [91], line := line },
          by simp [chain3P, hb, spaceJoin, mkToks, Explainer.writeGlyphSet, tk],
          by simp [tSquareBracketOpen, tHyphen], by simp [tSquareBracketOpen, tEOL]⟩, fun X nx => ?_⟩
        have : nextRune (chain3P f back (s0 :: rest) look acts ++ X) nx = some 91 := by
          simp [chain3P, hb, spaceJoin, nextRune, render, Explainer.writeGlyphSet, tk, ascii, Piece.rbs, a1]
        rw [this]; exact safe_lbracket

theorem headOk_count (ps : List Piece) (h : HeadOk ps) : 1 ≤ tokCount ps := by
  obtain ⟨t, ht, _⟩ := h.1 0
  have : (mkToks 0 ps).length = tokCount ps := mkToks_length ps 0
  cases hm : mkToks 0 ps with
  | nil => rw [hm] at ht; cases ht
  | cons a as => rw [hm] at this; simp at this; omega

theorem chainUnit_le (f : Font) (hf : FontOk f) (st : Subtable) (h : ChainSub f st) :
    chainSize [st] ≤ tokCount (subP f st) := by
  have h1 := headOk_count _ (chainSub_head f hf st h (tokCount (subP f st) + 3) (by omega))
  rcases h with ⟨_, rfl, _⟩ | ⟨cov, b, i, l, rules, rfl, hok⟩ | ⟨_, _, _, _, rfl, _⟩
  · simpa [chainSize] using h1
  · rw [chain2_subP]
    have hb := classDefs_len kwBacktrackclass (newExplainer f).writeGlyphSet (classGlyphs b) 1
    have hi := classDefs_len kwInputclass (newExplainer f).writeGlyphSet (classGlyphs i) 1
    have hl := classDefs_len kwLookaheadclass (newExplainer f).writeGlyphSet (classGlyphs l) 1
    simp only [chainSize, tokCount, tokCount_append, chain2Tail, tk, List.length_nil, Nat.zero_add]
    omega
  · simpa [chainSize] using h1

theorem chainSize_le (f : Font) (hf : FontOk f) : ∀ (more : List Subtable), (∀ st ∈ more, ChainSub f st) →
    chainSize more ≤ tokCount (more.flatMap fun st => orSep ++ subP f st) := by
  intro more
  induction more with
  | nil => intro _; simp [chainSize]
  | cons st more ih =>
    intro h
    have h1 := chainUnit_le f hf st (h st (by simp))
    have h2 := ih (fun x hx => h x (by simp [hx]))
    rw [chainSize_cons]
    simp only [List.flatMap_cons, tokCount_append]
    omega

theorem chain_body (f : Font) (hf : FontOk f) (typ : Nat) (l : Lookup) (h : LookupChainOk f typ l)
    (F0 : Nat) (hF : tokCount (bodyP f l) + 4 ≤ F0) :
    (∃ ps, bodyP f l = tk tColon [58] :: ps) ∧
      Frag (readChainedSeqCtx f F0 typ) (bodyP f l) (normLookup l) LookStop Safe := by
  cases hs : l.subtables with
  | nil => exact absurd hs h.ne
  | cons st0 more =>
    have hsub : ∀ st ∈ st0 :: more, ChainSub f st := fun st hst => h.subs st (by rw [hs]; exact hst)
    have hb : bodyP f l = ([tk tColon [58]] ++ explainFlags l.flags) ++
        ((subP f st0 ++ more.flatMap (fun st => orSep ++ subP f st)) ++ []) := by
      have h0 := (chain_first f st0 (hsub st0 (by simp))).1
      simp only [bodyP, hs, h0, List.flatMap_map]
      rfl
    have hnorm : normLookup l = { typ := typ, flags := l.flags, subtables := st0 :: more } := by
      have : l.subtables.map normSub = l.subtables := by
        rw [List.map_congr_left (g := id)]
        · simp
        · intro st hst; exact (chain_first f st (h.subs st hst)).2
      cases l with
      | mk t fl sts =>
        simp only [normLookup, this]
        simp only at hs
        have := h.typ
        simp only at this
        rw [hs, this]
    refine ⟨⟨_, by rw [hb]; rfl⟩, ?_⟩
    rw [hb] at hF ⊢
    rw [hnorm]
    simp only [tokCount_append, tokCount, tk, List.append_nil] at hF
    have hcnt : ∀ st ∈ st0 :: more, tokCount (subP f st) + 2 < F0 := by
      intro st hst
      simp only [List.mem_cons] at hst
      rcases hst with rfl | hst
      · omega
      · have := tokCount_flatMap_mem (fun st => orSep ++ subP f st) more st hst
        simp only [tokCount_append] at this
        omega
    have hsz : chainSize (st0 :: more) ≤ F0 := by
      rw [chainSize_cons]
      have h1 := chainUnit_le f hf st0 (hsub st0 (by simp))
      have h2 := chainSize_le f hf more (fun st hst => hsub st (by simp [hst]))
      omega
    have hloop := frag_chainLoop f hf F0 more st0 (F0 - chainSize (st0 :: more)) []
      (fun st hst => ⟨hsub st hst, hcnt st hst⟩)
    have hj : chainSize (st0 :: more) + (F0 - chainSize (st0 :: more)) = F0 := by omega
    rw [hj] at hloop
    have h4 : Gen.dslExplainFlagsC.length = 4 := by decide
    obtain ⟨hhead, hsafe⟩ := chainSub_head f hf st0 (hsub st0 (by simp)) F0 (hcnt st0 (by simp))
    unfold readChainedSeqCtx
    refine frag_bind (frag_header l.flags h.flags F0 (by omega)) ?_ (fun nx _ => by
        rw [List.append_assoc]; exact hsafe _ nx) (fun line t _ => ?_)
    · refine frag_bind hloop ?_ (fun nx h => by simpa [nextRune, render] using h)
        (fun line t ht => by simpa [mkToks] using ht)
      simp only [List.nil_append]
      exact frag_weaken (frag_pure _ LookStop) (fun _ h => h) (fun _ _ => trivial)
    · obtain ⟨th, h1, h2, h3⟩ := hhead line
      have : (mkToks line ((subP f st0 ++ more.flatMap (fun st => orSep ++ subP f st)) ++ [])).head? = some th := by
        rw [List.append_nil]
        exact mkToks_head_append line _ _ th h1
      rw [this]
      exact ⟨h2, h3⟩

theorem gsub6_dispatch (f : Font) (fuel : Nat) (t : Tok) (n : Nat) (acc : List Lookup) (s s1 : PS)
    (h : readItem s = .ok (t, s1)) (ht : t.typ = tIdentifier) (hb : t.bytes = [71, 83, 85, 66] ++ decimal 6) :
    parseLoop f fuel (n + 1) acc s = (readChainedSeqCtx f fuel 6 >>= fun l => parseLoop f fuel n (acc ++ [l])) s1 := by
  have hd : decimal 6 = [54] := by decide
  rw [hd] at hb
  conv => lhs; unfold parseLoop
  rw [bind_run, h]
  simp [ht, isIdent, hb, kwGSUB, kwGPOS, tIdentifier, tEOF, tError, tSemicolon, tEOL]

theorem gpos8_dispatch (f : Font) (fuel : Nat) (t : Tok) (n : Nat) (acc : List Lookup) (s s1 : PS)
    (h : readItem s = .ok (t, s1)) (ht : t.typ = tIdentifier) (hb : t.bytes = kwPOS ++ decimal 8) :
    parseLoop f fuel (n + 1) acc s = (readChainedSeqCtx f fuel 8 >>= fun l => parseLoop f fuel n (acc ++ [l])) s1 := by
  have hd : decimal 8 = [56] := by decide
  rw [hd] at hb
  conv => lhs; unfold parseLoop
  rw [bind_run, h]
  simp [ht, isIdent, hb, kwGSUB, kwGPOS, kwPOS, tIdentifier, tEOF, tError, tSemicolon, tEOL]

theorem item_gsub6 (f : Font) (hf : FontOk f) (l : Lookup) (h : LookupChainOk f 6 l) (F0 : Nat)
    (hF : tokCount (bodyP f l) + 4 ≤ F0) : LookItemOk f F0 l := by
  obtain ⟨hc, hfr⟩ := chain_body f hf 6 l h F0 hF
  exact ⟨readChainedSeqCtx f F0 6, by rw [h.typ]; exact gsub_kw_ok 6 (by decide), by rw [h.typ]; exact gsub6_dispatch f _, hc, hfr⟩

theorem item_gpos8 (f : Font) (hf : FontOk f) (l : Lookup) (h : LookupChainOk f 8 l) (F0 : Nat)
    (hF : tokCount (bodyP f l) + 4 ≤ F0) : PosItem2 f F0 l := by
  obtain ⟨hc, hfr⟩ := chain_body f hf 8 l h F0 hF
  exact ⟨readChainedSeqCtx f F0 8, by rw [h.typ]; exact pos_kw_ok 8 (by decide), by rw [h.typ]; exact gpos8_dispatch f _, hc, Or.inl hfr⟩

end SfntV.Dsl
