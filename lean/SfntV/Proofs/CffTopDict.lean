/-
DICTs with string-valued operators: `cffDict.encode(strings)` followed by `decodeDict`.
-/
import SfntV.Model.CffWrite
import SfntV.Proofs.CffDictRt
import SfntV.Proofs.CffStrings
import SfntV.Proofs.CffPrivate

namespace SfntV.Cff
open SfntV

/-- operators `cffDict.encode` can write -/
def EncOp (op : Nat) : Prop := (op ≤ 21 ∧ op ≠ 12) ∨ (3072 ≤ op ∧ op ≤ 3327)

theorem dictStep_encop (op : Nat) (h : EncOp op) (rest : Bytes) :
    dictStep (encodeOp op ++ rest) = .ok (.op op, rest) := by
  rcases h with ⟨h1, h2⟩ | ⟨h1, h2⟩
  · have hlt : ¬ op > 255 := by omega
    have hv : (UInt8.ofNat op).toNat = op := by simp [UInt8.toNat_ofNat']; omega
    simp only [encodeOp, hlt, if_false, List.cons_append, List.nil_append, dictStep, hv]
    rw [if_neg h2, if_pos h1]
  · have hgt : op > 255 := by omega
    have hv : (UInt8.ofNat op).toNat = op - 3072 := by simp [UInt8.toNat_ofNat']; omega
    have h12 : (12 : UInt8).toNat = 12 := rfl
    simp only [encodeOp, hgt, if_true, List.cons_append, List.nil_append, dictStep, h12, hv]
    have : 12 * 256 + (op - 3072) = op := by omega
    rw [this]

/-- two lists related entry by entry -/
inductive Rel2 {α β : Type} (R : α → β → Prop) : List α → List β → Prop where
  | nil : Rel2 R [] []
  | cons {a b l1 l2} : R a b → Rel2 R l1 l2 → Rel2 R (a :: l1) (b :: l2)

/-- written entry `w` is decoded to entry `x` -/
def DecodesTo (std custom : Array String) (w x : Nat × List Operand) : Prop :=
  w.1 = x.1 ∧ EncOp w.1 ∧ (∀ o ∈ w.2, ValidOperand o) ∧
    flushArgs std custom w.1 (w.2.map decOperand) = .ok x.2

theorem decode_forall2 (std custom : Array String) {W X : List (Nat × List Operand)}
    (h : Rel2 (DecodesTo std custom) W X) :
    ∀ (extra : Nat) (res : List (Nat × List Operand)),
      decodeDictAux std custom (tokens W + extra) (encodeEntries W) [] res
        = .ok (X.foldl (fun r x => dictSet r x.1 x.2) res) := by
  induction h with
  | nil => intro extra res; cases extra <;> simp [encodeEntries, decodeDictAux, tokens]
  | @cons w x W' X' hwx _ ih =>
    intro extra res
    obtain ⟨h1, hop, hargs, hflush⟩ := hwx
    have hd : encodeEntries (w :: W') = w.2.flatMap encodeOperand ++ (encodeOp w.1 ++ encodeEntries W') := by
      simp [encodeEntries, List.flatMap_cons, List.append_assoc]
    have hf : tokens (w :: W') + extra = (tokens W' + extra + 1) + w.2.length := by
      simp [tokens]; omega
    rw [hd, hf, decode_operands std custom w.2 hargs]
    have hstep := dictStep_encop w.1 hop (encodeEntries W')
    obtain ⟨b, bs, hb⟩ : ∃ b bs, encodeOp w.1 ++ encodeEntries W' = b :: bs := by
      cases hh : encodeOp w.1 ++ encodeEntries W' with
      | nil => rw [hh] at hstep; simp [dictStep] at hstep
      | cons b bs => exact ⟨b, bs, rfl⟩
    rw [hb] at hstep ⊢
    simp only [decodeDictAux, hstep, List.nil_append, hflush]
    rw [ih]
    simp [h1]

theorem tokens_le' (W : List (Nat × List Operand)) (hv : ∀ e ∈ W, ∀ o ∈ e.2, ValidOperand o) :
    tokens W ≤ (encodeEntries W).length := tokens_le W hv

/-! ### flushing string-valued operators -/

theorem flush_plain (std custom : Array String) (op : Nat) (h : isStringOp op = false) (stack : List Operand) :
    flushArgs std custom op stack = .ok stack := by
  simp [flushArgs, h]

theorem flush_single (std custom : Array String) (op : Nat) (h : isStringOp op = true) (hros : op ≠ opROS)
    (sid : Int) (s : String) (hg : stringsGet std custom sid = some s) :
    flushArgs std custom op [.int sid] = .ok [.str s] := by
  simp [flushArgs, h, hros, flushArgs.go, hg]

theorem flush_ros (std custom : Array String) (a b sup : Int) (r o : String)
    (ha : stringsGet std custom a = some r) (hb : stringsGet std custom b = some o) :
    flushArgs std custom opROS [.int a, .int b, .int sup] = .ok [.str r, .str o, .int sup] := by
  have : isStringOp opROS = true := by decide
  simp [flushArgs, this, flushArgs.go, ha, hb]

/-! ### strings stay where they are when the table grows -/

theorem stringsGet_mono (std : List String) (c ext : List String) (sid : Int) (s : String)
    (h : stringsGet std.toArray c.toArray sid = some s) :
    stringsGet std.toArray (c ++ ext).toArray sid = some s := by
  unfold stringsGet at h ⊢
  split
  · rename_i h0; simp [h0] at h
  · rename_i h0
    simp only [h0, if_false] at h
    split
    · rename_i h1; simp only [h1, if_true] at h; exact h
    · rename_i h1
      simp only [h1, if_false] at h
      simp only [List.getElem?_toArray] at h ⊢
      have hlt : sid.toNat - std.toArray.size < c.length := by
        rcases Nat.lt_or_ge (sid.toNat - std.toArray.size) c.length with hh | hh
        · exact hh
        · rw [List.getElem?_eq_none hh] at h; cases h
      rw [List.getElem?_append_left hlt]; exact h


/-! ### `encodeDictS`: what is written, entry by entry -/

def resolveEntries (std : List String) : List String → DictL → DictL × List String
  | c, [] => ([], c)
  | c, e :: es =>
    let a := resolveArgs std c e.2
    let r := resolveEntries std a.2 es
    ((e.1, a.1) :: r.1, r.2)

theorem encodeDictS_fold (std : List String) (E : DictL) : ∀ (b : Bytes) (c : List String),
    E.foldl (fun (acc : Bytes × List String) e =>
        ((resolveArgs std acc.2 e.2).1.flatMap encodeOperand |> fun x => acc.1 ++ x ++ encodeOp e.1,
         (resolveArgs std acc.2 e.2).2)) (b, c)
      = (b ++ encodeEntries (resolveEntries std c E).1, (resolveEntries std c E).2) := by
  induction E with
  | nil => intro b c; simp [resolveEntries, encodeEntries]
  | cons e es ih =>
    intro b c
    simp only [List.foldl_cons, resolveEntries]
    rw [ih]
    simp [encodeEntries, List.flatMap_cons, List.append_assoc]

theorem encodeDictS_eq (std custom : List String) (d : DictL) :
    encodeDictS std custom d
      = (encodeEntries (resolveEntries std custom (sortDict d)).1, (resolveEntries std custom (sortDict d)).2) := by
  have := encodeDictS_fold std (sortDict d) [] custom
  simp only [List.nil_append] at this
  rw [← this]
  rfl

/-- entries without string operands are written as they are -/
def NoStr (args : List Operand) : Prop := ∀ o ∈ args, ∀ s, o ≠ .str s

theorem resolveArgs_nostr (std c : List String) (args : List Operand) (h : NoStr args) :
    resolveArgs std c args = (args, c) := by
  induction args with
  | nil => rfl
  | cons o os ih =>
    have ho := h o (List.mem_cons_self ..)
    have ih' := ih (fun x hx => h x (List.mem_cons_of_mem _ hx))
    cases o with
    | str s => exact absurd rfl (ho s)
    | int v => simp [resolveArgs, ih']
    | real n m e => simp [resolveArgs, ih']

theorem resolveArgs_single (std c : List String) (s : String) :
    resolveArgs std c [.str s] = ([.int ((stringsLookup std c s).1 : Nat)], (stringsLookup std c s).2) := by
  simp [resolveArgs]

theorem resolveArgs_ext (std c : List String) (args : List Operand) :
    ∃ ext, (resolveArgs std c args).2 = c ++ ext := by
  induction args generalizing c with
  | nil => exact ⟨[], by simp [resolveArgs]⟩
  | cons o os ih =>
    cases o with
    | str s =>
      obtain ⟨e1, h1⟩ := (stringsGet_lookup std c s).2
      obtain ⟨e2, h2⟩ := ih (stringsLookup std c s).2
      refine ⟨e1 ++ e2, ?_⟩
      simp only [resolveArgs]
      rw [h2, h1, List.append_assoc]
    | int v => obtain ⟨e, h⟩ := ih c; exact ⟨e, by simp [resolveArgs, h]⟩
    | real n m e => obtain ⟨e', h⟩ := ih c; exact ⟨e', by simp [resolveArgs, h]⟩

theorem resolveEntries_ext (std : List String) (E : DictL) : ∀ c, ∃ ext, (resolveEntries std c E).2 = c ++ ext := by
  induction E with
  | nil => intro c; exact ⟨[], by simp [resolveEntries]⟩
  | cons e es ih =>
    intro c
    obtain ⟨e1, h1⟩ := resolveArgs_ext std c e.2
    obtain ⟨e2, h2⟩ := ih (resolveArgs std c e.2).2
    refine ⟨e1 ++ e2, ?_⟩
    simp only [resolveEntries]
    rw [h2, h1, List.append_assoc]

/-- the kinds of entries in the DICTs `Write` produces, with what `decodeDict` makes of them:
non-string operators with number operands; string operators with one string; ROS with the two
SIDs already looked up -/
inductive EntryKind (std : List String) (c : List String) : (Nat × List Operand) → (Nat × List Operand) → Prop where
  | plain (op args) : EncOp op → isStringOp op = false → (∀ o ∈ args, ValidOperand o) →
      EntryKind std c (op, args) (op, args.map decOperand)
  | single (op s) : EncOp op → isStringOp op = true → op ≠ opROS →
      EntryKind std c (op, [.str s]) (op, [.str s])
  | ros (a b sup r o) : stringsGet std.toArray c.toArray a = some r → stringsGet std.toArray c.toArray b = some o →
      (-2147483648 ≤ a ∧ a ≤ 2147483647) → (-2147483648 ≤ b ∧ b ≤ 2147483647) →
      (-2147483648 ≤ sup ∧ sup ≤ 2147483647) →
      EntryKind std c (opROS, [.int a, .int b, .int sup]) (opROS, [.str r, .str o, .int sup])

theorem entryKind_mono {std c : List String} {e x} (ext : List String) (h : EntryKind std c e x) :
    EntryKind std (c ++ ext) e x := by
  cases h with
  | plain op args h1 h2 h3 => exact .plain op args h1 h2 h3
  | single op s h1 h2 h3 => exact .single op s h1 h2 h3
  | ros a b sup r o h1 h2 h3 h4 h5 =>
    exact .ros a b sup r o (stringsGet_mono std c ext a r h1) (stringsGet_mono std c ext b o h2) h3 h4 h5

theorem sid_range (std c : List String) (s : String) (hlen : std.length + c.length < 2147483647) :
    -2147483648 ≤ ((stringsLookup std c s).1 : Int) ∧ ((stringsLookup std c s).1 : Int) ≤ 2147483647 := by
  unfold stringsLookup
  cases hc : lastIdx c s with
  | some i =>
    have := lastIdx_some c s i hc
    have hi : i < c.length := by
      rcases Nat.lt_or_ge i c.length with h | h
      · exact h
      · rw [List.getElem?_eq_none h] at this; cases this
    simp only; omega
  | none =>
    cases hs : lastIdx std s with
    | some i =>
      have := lastIdx_some std s i hs
      have hi : i < std.length := by
        rcases Nat.lt_or_ge i std.length with h | h
        · exact h
        · rw [List.getElem?_eq_none h] at this; cases this
      simp only; omega
    | none => simp only; omega

theorem rel2_entryKind_mono {std c : List String} (ext : List String) {E X : DictL}
    (h : Rel2 (EntryKind std c) E X) : Rel2 (EntryKind std (c ++ ext)) E X := by
  induction h with
  | nil => exact Rel2.nil
  | cons hk _ ih => exact Rel2.cons (entryKind_mono ext hk) ih

/-- what is written for a list of classified entries decodes to the expected entries, with
respect to the final string table (or any extension of it) -/
theorem resolve_decodes (std : List String) (E : DictL) : ∀ (X : DictL) (c : List String),
    Rel2 (EntryKind std c) E X →
    std.length + (resolveEntries std c E).2.length < 2147483647 →
    ∀ ext, Rel2 (DecodesTo std.toArray ((resolveEntries std c E).2 ++ ext).toArray) (resolveEntries std c E).1 X := by
  induction E with
  | nil =>
    intro X c h _ ext
    cases h
    exact Rel2.nil
  | cons e E' ih =>
    intro X c h hlen ext
    cases h with
    | @cons _ x _ X' hk htail =>
    simp only [resolveEntries] at hlen ⊢
    obtain ⟨ext1, hext1⟩ := resolveEntries_ext std E' (resolveArgs std c e.2).2
    obtain ⟨ext0, hext0⟩ := resolveArgs_ext std c e.2
    have hc' : std.length + c.length < 2147483647 := by
      rw [hext1, hext0] at hlen; simp only [List.length_append] at hlen; omega
    have hfinal : (resolveEntries std (resolveArgs std c e.2).2 E').2 ++ ext = c ++ (ext0 ++ ext1 ++ ext) := by
      rw [hext1, hext0]; simp [List.append_assoc]
    apply Rel2.cons
    · cases hk with
      | plain op args h1 h2 h3 =>
        have hns : NoStr args := by
          intro o ho s hs; subst hs; exact absurd (h3 _ ho) (by simp [ValidOperand])
        simp only [resolveArgs_nostr std c args hns]
        exact ⟨rfl, h1, h3, flush_plain _ _ op h2 _⟩
      | single op s h1 h2 h3 =>
        simp only [resolveArgs_single]
        refine ⟨rfl, h1, ?_, ?_⟩
        · intro o ho
          simp only [List.mem_singleton] at ho
          subst ho
          exact sid_range std c s hc'
        · simp only [List.map_cons, List.map_nil, decOperand]
          apply flush_single _ _ op h2 h3
          have hg := (stringsGet_lookup std c s).1
          obtain ⟨ext', he'⟩ := resolveEntries_ext std E' (stringsLookup std c s).2
          rw [he', List.append_assoc]
          exact stringsGet_mono std _ _ _ _ hg
      | ros a b sup r o h1 h2 h3 h4 h5 =>
        have hns : NoStr [Operand.int a, .int b, .int sup] := by
          intro o ho s hs; subst hs; simp at ho
        simp only [resolveArgs_nostr std c _ hns]
        refine ⟨rfl, Or.inr (show 3072 ≤ opROS ∧ opROS ≤ 3327 by decide), ?_, ?_⟩
        · intro o ho
          simp only [List.mem_cons, List.mem_nil_iff, or_false] at ho
          rcases ho with rfl | rfl | rfl <;> simp only [ValidOperand] <;> assumption
        · simp only [List.map_cons, List.map_nil, decOperand]
          obtain ⟨ext', he'⟩ := resolveEntries_ext std E' c
          rw [he', List.append_assoc]
          exact flush_ros _ _ a b sup r o (stringsGet_mono std c _ a r h1) (stringsGet_mono std c _ b o h2)
    · have htail' : Rel2 (EntryKind std (resolveArgs std c e.2).2) E' X' := by
        rw [hext0]; exact rel2_entryKind_mono ext0 htail
      exact ih X' _ htail' hlen ext


theorem rel2_map {α β : Type} {R : α → β → Prop} (f : α → β) (l : List α) (h : ∀ a ∈ l, R a (f a)) :
    Rel2 R l (l.map f) := by
  induction l with
  | nil => exact Rel2.nil
  | cons a l ih =>
    exact Rel2.cons (h a (List.mem_cons_self ..)) (ih (fun x hx => h x (List.mem_cons_of_mem _ hx)))

theorem rel2_valid {std custom : Array String} {W X : DictL} (h : Rel2 (DecodesTo std custom) W X) :
    ∀ e ∈ W, ∀ o ∈ e.2, ValidOperand o := by
  induction h with
  | nil => intro e he; simp at he
  | cons hk _ ih =>
    intro e he
    rcases List.mem_cons.mp he with rfl | he
    · exact hk.2.2.1
    · exact ih e he

theorem foldl_dictSet_nodup (X : DictL) (hn : (X.map (·.1)).Nodup) :
    ∀ (res : DictL), (∀ r ∈ res, r.1 ∉ X.map (·.1)) →
      X.foldl (fun r x => dictSet r x.1 x.2) res = res ++ X := by
  induction X with
  | nil => intro res _; simp
  | cons e es ih =>
    intro res hres
    have hnd := List.nodup_cons.mp hn
    have hf : res.filter (fun r => decide (r.1 ≠ e.1)) = res := by
      apply List.filter_eq_self.mpr
      intro r hr
      have := hres r hr
      simp only [List.map_cons, List.mem_cons, not_or] at this
      simpa using this.1
    have hstep : dictSet res e.1 e.2 = res ++ [e] := by
      simp only [dictSet]; rw [hf]
    simp only [List.foldl_cons]
    rw [hstep, ih hnd.2]
    · simp [List.append_assoc]
    · intro r hr
      rcases List.mem_append.mp hr with h | h
      · have := hres r h
        simp only [List.map_cons, List.mem_cons, not_or] at this
        exact this.2
      · simp only [List.mem_singleton] at h
        subst h
        exact hnd.1

/-- `decodeDict` of what `cffDict.encode(strings)` wrote, for a DICT with distinct operators whose
entries are of the three kinds: every entry comes back as expected.  `ext` stands for strings
added to the table later (the String INDEX is written after the last DICT is encoded). -/
theorem decode_encodeDictS (std c : List String) (d : DictL) (expect : (Nat × List Operand) → (Nat × List Operand))
    (hkey : ∀ e, (expect e).1 = e.1) (hn : (d.map (·.1)).Nodup)
    (hk : ∀ e ∈ d, EntryKind std c e (expect e))
    (hlen : std.length + (encodeDictS std c d).2.length < 2147483647) (ext : List String) :
    decodeDict std.toArray ((encodeDictS std c d).2 ++ ext).toArray (encodeDictS std c d).1
      = .ok ((sortDict d).map expect) := by
  have hp := sortDict_perm d
  rw [encodeDictS_eq] at hlen ⊢
  simp only at hlen ⊢
  have hrel : Rel2 (EntryKind std c) (sortDict d) ((sortDict d).map expect) :=
    rel2_map expect _ (fun e he => hk e (hp.mem_iff.mp he))
  have hdec := resolve_decodes std (sortDict d) _ c hrel hlen ext
  have hle := tokens_le _ (rel2_valid hdec)
  unfold decodeDict
  obtain ⟨extra, hx⟩ : ∃ extra, (encodeEntries (resolveEntries std c (sortDict d)).1).length
      = tokens (resolveEntries std c (sortDict d)).1 + extra := ⟨_, (Nat.add_sub_cancel' hle).symm⟩
  rw [hx, decode_forall2 _ _ hdec extra []]
  have hn' : (((sortDict d).map expect).map (·.1)).Nodup := by
    rw [List.map_map]
    have : ((fun x => x.1) ∘ expect) = fun (x : Nat × List Operand) => x.1 := by funext e; exact hkey e
    rw [this]
    exact (hp.map _).nodup_iff.mpr hn
  rw [foldl_dictSet_nodup _ hn' [] (by simp)]
  simp

/-- looking up an operator in the decoded DICT -/
theorem dGet_expected (d : DictL) (expect : (Nat × List Operand) → (Nat × List Operand))
    (hkey : ∀ e, (expect e).1 = e.1) (hn : (d.map (·.1)).Nodup) (op : Nat) :
    (((sortDict d).map expect).find? (fun x => decide (x.1 = op)))
      = (d.find? (fun x => decide (x.1 = op))).map expect := by
  have hp := sortDict_perm d
  have hn' : ((sortDict d).map (·.1)).Nodup := (hp.map _).nodup_iff.mpr hn
  rw [List.find?_map]
  have : (fun x => decide (x.1 = op)) ∘ expect = fun x => decide (x.1 = op) := by
    funext x; simp [hkey x]
  rw [this, find_perm hp hn' op]

end SfntV.Cff
