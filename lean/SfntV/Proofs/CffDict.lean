/-
Helper lemmas about the DICT operand model (cff/dict.go).  Property theorems: Props/C13.lean.
-/
import SfntV.Model.CffDict

namespace SfntV.Cff
open SfntV

/-! ### the decoder on each first-byte class -/

theorem dictStep_b1 (b0 : UInt8) (rest : Bytes) (h : 32 ≤ b0.toNat ∧ b0.toNat ≤ 246) :
    dictStep (b0 :: rest) = .ok (.operand (.int ((b0.toNat : Int) - 139)), rest) := by
  simp only [dictStep]
  rw [if_neg (by omega), if_neg (by omega), if_neg (by omega), if_neg (by omega), if_neg (by omega),
    if_neg (by omega), if_neg (by omega), if_pos (by omega)]

theorem dictStep_b2p (b0 b1 : UInt8) (rest : Bytes) (h : 247 ≤ b0.toNat ∧ b0.toNat ≤ 250) :
    dictStep (b0 :: b1 :: rest)
      = .ok (.operand (.int ((b0.toNat : Int) * 256 + b1.toNat + (108 - 247 * 256))), rest) := by
  simp only [dictStep]
  rw [if_neg (by omega), if_neg (by omega), if_neg (by omega), if_neg (by omega), if_neg (by omega),
    if_neg (by omega), if_neg (by omega), if_neg (by omega), if_pos (by omega)]

theorem dictStep_b2n (b0 b1 : UInt8) (rest : Bytes) (h : 251 ≤ b0.toNat ∧ b0.toNat ≤ 254) :
    dictStep (b0 :: b1 :: rest)
      = .ok (.operand (.int (-(b0.toNat : Int) * 256 - b1.toNat - (108 - 251 * 256))), rest) := by
  simp only [dictStep]
  rw [if_neg (by omega), if_neg (by omega), if_neg (by omega), if_neg (by omega), if_neg (by omega),
    if_neg (by omega), if_neg (by omega), if_neg (by omega), if_neg (by omega), if_pos (by omega)]

theorem dictStep_28 (b1 b2 : UInt8) (rest : Bytes) :
    dictStep (28 :: b1 :: b2 :: rest)
      = .ok (.operand (.int (toI16 (b1.toNat * 256 + b2.toNat))), rest) := by
  simp [dictStep]

theorem dictStep_29 (b1 b2 b3 b4 : UInt8) (rest : Bytes) :
    dictStep (29 :: b1 :: b2 :: b3 :: b4 :: rest)
      = .ok (.operand (.int (toI32 (((b1.toNat * 256 + b2.toNat) * 256 + b3.toNat) * 256 + b4.toNat))), rest) := by
  simp [dictStep]

theorem toNat_ofNat_lt (n : Nat) (h : n < 256) : (UInt8.ofNat n).toNat = n := by
  simp [UInt8.toNat_ofNat']; omega

/-! ### size of each class -/

def intSize (a : Int) : Nat :=
  if -107 ≤ a ∧ a ≤ 107 then 1
  else if -1131 ≤ a ∧ a ≤ 1131 then 2
  else if -32768 ≤ a ∧ a ≤ 32767 then 3
  else 5

theorem length_encodeInt (a : Int) : (encodeInt a).length = intSize a := by
  unfold encodeInt intSize
  by_cases h1 : -107 ≤ a ∧ a ≤ 107
  · simp [h1]
  · by_cases h2 : 108 ≤ a ∧ a ≤ 1131
    · have : -1131 ≤ a ∧ a ≤ 1131 := by omega
      simp [h1, h2, this]
    · by_cases h3 : -1131 ≤ a ∧ a ≤ -108
      · have : -1131 ≤ a ∧ a ≤ 1131 := by omega
        have h5 : ¬ 108 ≤ a := by omega
        simp [h1, h3, this, h5]
      · have : ¬ (-1131 ≤ a ∧ a ≤ 1131) := by omega
        by_cases h4 : -32768 ≤ a ∧ a ≤ 32767
        · simp [h1, h2, h3, h4, this]
        · simp [h1, h2, h3, h4, this]

/-! ### round trip of every int32 -/

theorem dictStep_encodeInt (a : Int) (h : -2147483648 ≤ a ∧ a ≤ 2147483647) (rest : Bytes) :
    dictStep (encodeInt a ++ rest) = .ok (.operand (.int a), rest) := by
  unfold encodeInt
  split
  · rename_i h1
    have hv : (UInt8.ofNat (a + 139).toNat).toNat = (a + 139).toNat := toNat_ofNat_lt _ (by omega)
    simp only [List.cons_append, List.nil_append]
    rw [dictStep_b1 _ _ (by rw [hv]; omega), hv]
    have : (((a + 139).toNat : Nat) : Int) - 139 = a := by omega
    rw [this]
  · split
    · rename_i h1 h2
      have hy : (a - 108).toNat < 1024 := by omega
      generalize hyy : (a - 108).toNat = y at *
      have ha : a = (y : Int) + 108 := by omega
      have hv0 : (UInt8.ofNat (y / 256 + 247)).toNat = y / 256 + 247 := toNat_ofNat_lt _ (by omega)
      have hv1 : (UInt8.ofNat (y % 256)).toNat = y % 256 := toNat_ofNat_lt _ (by omega)
      simp only [List.cons_append, List.nil_append]
      rw [dictStep_b2p _ _ _ (by rw [hv0]; omega), hv0, hv1]
      have : ((y / 256 + 247 : Nat) : Int) * 256 + ((y % 256 : Nat) : Int) + (108 - 247 * 256) = a := by omega
      rw [this]
    · split
      · rename_i h1 h2 h3
        have hy : (-108 - a).toNat < 1024 := by omega
        generalize hyy : (-108 - a).toNat = y at *
        have ha : a = -108 - (y : Int) := by omega
        have hv0 : (UInt8.ofNat (y / 256 + 251)).toNat = y / 256 + 251 := toNat_ofNat_lt _ (by omega)
        have hv1 : (UInt8.ofNat (y % 256)).toNat = y % 256 := toNat_ofNat_lt _ (by omega)
        simp only [List.cons_append, List.nil_append]
        rw [dictStep_b2n _ _ _ (by rw [hv0]; omega), hv0, hv1]
        have : -((y / 256 + 251 : Nat) : Int) * 256 - ((y % 256 : Nat) : Int) - (108 - 251 * 256) = a := by omega
        rw [this]
      · split
        · rename_i h1 h2 h3 h4
          have hu : (a % 65536).toNat < 65536 := by omega
          have hx : ((a % 65536).toNat : Int) = a % 65536 := by omega
          generalize huu : (a % 65536).toNat = u at *
          have hv0 : (UInt8.ofNat (u / 256)).toNat = u / 256 := toNat_ofNat_lt _ (by omega)
          have hv1 : (UInt8.ofNat (u % 256)).toNat = u % 256 := toNat_ofNat_lt _ (by omega)
          simp only [List.cons_append, List.nil_append]
          rw [dictStep_28, hv0, hv1]
          have : toI16 (u / 256 * 256 + u % 256) = a := by
            unfold toI16
            split <;> omega
          rw [this]
        · rename_i h1 h2 h3 h4
          have hu : (a % 4294967296).toNat < 4294967296 := by omega
          have hx : ((a % 4294967296).toNat : Int) = a % 4294967296 := by omega
          generalize huu : (a % 4294967296).toNat = u at *
          have hv0 : (UInt8.ofNat (u / 16777216)).toNat = u / 16777216 := toNat_ofNat_lt _ (by omega)
          have hv1 : (UInt8.ofNat (u / 65536 % 256)).toNat = u / 65536 % 256 := toNat_ofNat_lt _ (by omega)
          have hv2 : (UInt8.ofNat (u / 256 % 256)).toNat = u / 256 % 256 := toNat_ofNat_lt _ (by omega)
          have hv3 : (UInt8.ofNat (u % 256)).toNat = u % 256 := toNat_ofNat_lt _ (by omega)
          simp only [List.cons_append, List.nil_append]
          rw [dictStep_29, hv0, hv1, hv2, hv3]
          have : toI32 (((u / 16777216 * 256 + u / 65536 % 256) * 256 + u / 256 % 256) * 256 + u % 256) = a := by
            unfold toI32
            split <;> omega
          rw [this]

end SfntV.Cff
