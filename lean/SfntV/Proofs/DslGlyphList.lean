/-
C19 — the glyph-list notation round-trips, for every font of the domain and every glyph list:
decimal numerals and `strconv.Atoi`, glyph names and `byName`, quoted strings and the cmap,
the loop of `readGlyphList` on glyph items, the pieces `writeGlyphList` produces, and the
theorem `glyphlist_roundtrip`.
-/
import SfntV.Proofs.DslRun
import SfntV.Proofs.DslLexPieces
set_option linter.unusedSimpArgs false
set_option linter.unusedVariables false
namespace SfntV.Dsl

/-! ### decimal numerals -/

def dval (a : Nat) (ds : List Nat) : Nat := ds.foldl (fun a d => a * 10 + (d - 48)) a

theorem decimalAux_val : ∀ (fuel n : Nat) (acc : List Nat), n < 10 ^ fuel →
    ∃ k, ∀ a, dval a (decimalAux fuel n acc) = dval (a * 10 ^ k + n) acc := by
  intro fuel
  induction fuel with
  | zero =>
    intro n acc h
    have : n = 0 := by simpa using h
    subst this
    exact ⟨0, fun a => by simp [decimalAux]⟩
  | succ fuel ih =>
    intro n acc h
    unfold decimalAux
    by_cases c : n < 10
    · simp only [c, if_true]
      exact ⟨1, fun a => by simp [dval]⟩
    · simp only [c, if_false]
      obtain ⟨k, hk⟩ := ih (n / 10) ((48 + n % 10) :: acc) (by
        rw [Nat.pow_succ] at h
        exact Nat.div_lt_of_lt_mul (by omega))
      refine ⟨k + 1, fun a => ?_⟩
      rw [hk a]
      simp only [dval, List.foldl_cons]
      congr 1
      rw [Nat.pow_succ]
      have := Nat.div_add_mod n 10
      have e : (a * 10 ^ k + n / 10) * 10 = a * (10 ^ k * 10) + (n / 10) * 10 := by
        rw [Nat.add_mul, Nat.mul_assoc]
      omega

theorem decimalAux_digits : ∀ (fuel n : Nat) (acc : List Nat), (∀ d ∈ acc, inR 48 57 d = true) →
    ∀ d ∈ decimalAux fuel n acc, inR 48 57 d = true := by
  intro fuel
  induction fuel with
  | zero => intro n acc h; simpa [decimalAux] using h
  | succ fuel ih =>
    intro n acc h
    unfold decimalAux
    by_cases c : n < 10
    · simp only [c, if_true]
      intro d hd
      simp at hd
      rcases hd with rfl | hd
      · simp [inR]; omega
      · exact h d hd
    · simp only [c, if_false]
      apply ih
      intro d hd
      simp at hd
      rcases hd with rfl | hd
      · simp [inR]; omega
      · exact h d hd

theorem decimalAux_ne_nil : ∀ (fuel n : Nat) (acc : List Nat), decimalAux (fuel + 1) n acc ≠ [] := by
  intro fuel
  induction fuel with
  | zero => intro n acc; unfold decimalAux; split <;> simp [decimalAux]
  | succ fuel ih =>
    intro n acc
    unfold decimalAux
    split
    · simp
    · exact ih _ _

theorem decimal_digits (n : Nat) : ∀ d ∈ decimal n, inR 48 57 d = true :=
  decimalAux_digits 40 n [] (by simp)

theorem decimal_ne_nil (n : Nat) : decimal n ≠ [] := decimalAux_ne_nil 39 n []

theorem decimal_val (n : Nat) (h : n < 65536) : dval 0 (decimal n) = n := by
  obtain ⟨k, hk⟩ := decimalAux_val 40 n [] (by
    have : (65536 : Nat) ≤ 10 ^ 40 := by decide
    omega)
  have := hk 0
  simpa [dval, decimal] using this

theorem atoi_decimal (n : Nat) (h : n < 65536) : atoi (decimal n) = some (Int.ofNat n) := by
  have hd := decimal_digits n
  have hne := decimal_ne_nil n
  have hv := decimal_val n h
  unfold atoi
  cases hds : decimal n with
  | nil => exact absurd hds hne
  | cons d ds =>
    have hd0 : inR 48 57 d = true := hd d (by simp [hds])
    have hb : 48 ≤ d ∧ d ≤ 57 := by simpa [inR] using hd0
    have e1 : d ≠ 43 := by omega
    have e2 : d ≠ 45 := by omega
    have hall : (d :: ds).all (fun d => inR 48 57 d) = true := by
      rw [List.all_eq_true]; intro x hx; exact hd x (by rw [hds]; exact hx)
    have : signSplit (d :: ds) = (false, d :: ds) := by
      unfold signSplit
      split
      · rename_i r heq; simp at heq; omega
      · rename_i r heq; simp at heq; omega
      · rfl
    rw [hds] at hv
    simp only [dval] at hv
    simp only [this, List.isEmpty_cons, Bool.false_or, hall, Bool.not_true, Bool.false_eq_true, if_false]
    simp [hv]

/-! ### bytes of ASCII text -/

theorem ascii_bytes (s : List Nat) : (ascii s).flatMap (·.2) = s := by
  induction s with
  | nil => rfl
  | cons c s ih => simp [ascii] at ih ⊢; exact ih

theorem ascii_runes (s : List Nat) : (ascii s).map (·.1) = s := by
  induction s with
  | nil => rfl
  | cons c s ih => simp [ascii] at ih ⊢; exact ih

/-! ### fonts of the domain -/

/-- a glyph name the notation can use: the UTF-8 text of runes that make up one identifier -/
def NameOk (n : List Nat) : Prop :=
  ∃ r0 rs, n = (r0 :: rs).flatMap utf8Encode ∧ isIdentStart r0 = true ∧ validRune r0 ∧
    ∀ r ∈ rs, validRune r ∧ isIdentChar r = true

/-- fonts whose glyphs the notation can name -/
structure FontOk (f : Font) : Prop where
  small : f.numGlyphs < 65536
  namesLen : f.names.length ≤ f.numGlyphs
  nameOk : ∀ n ∈ f.names, n ≠ [] → NameOk n
  distinct : ∀ (i j : Nat) (hi : i < f.names.length) (hj : j < f.names.length),
    f.names[i] ≠ [] → f.names[i] = f.names[j] → i = j
  cmapIn : ∀ p ∈ f.cmap, p.2 < f.numGlyphs
  cmapNodup : (f.cmap.map (·.1)).Nodup
  noCmap : f.noCmap = true → f.cmap = []

theorem name_decode (n : List Nat) (h : NameOk n) :
    ∃ r0 rs, decodeUtf8 n = (r0, utf8Encode r0) :: rs.map (fun r => (r, utf8Encode r)) ∧
      n = (r0 :: rs).flatMap utf8Encode ∧ isIdentStart r0 = true ∧ (∀ r ∈ rs, isIdentChar r = true) ∧
      validRune r0 ∧ ∀ r ∈ rs, validRune r := by
  obtain ⟨r0, rs, rfl, h1, h2, h3⟩ := h
  refine ⟨r0, rs, ?_, rfl, h1, fun r hr => (h3 r hr).2, h2, fun r hr => (h3 r hr).1⟩
  have := decode_canon' (((r0 :: rs)).map fun r => (r, utf8Encode r)) (by
    intro rb hrb
    simp only [List.mem_map] at hrb
    obtain ⟨r, hr, rfl⟩ := hrb
    apply canon_encode
    simp at hr
    rcases hr with rfl | hr
    · exact h2
    · exact (h3 r hr).1)
  simpa [List.flatMap_map] using this

theorem name_bytes (n : List Nat) (h : NameOk n) : (decodeUtf8 n).flatMap (·.2) = n := by
  obtain ⟨r0, rs, e, e2, _, _, _, _⟩ := name_decode n h
  rw [e, e2]
  simp [List.flatMap_map]

theorem byName_go (f : Font) (name : List Nat) (g : Nat) (hn : name ≠ []) (hg : g < f.numGlyphs) :
    ∀ (ns : List (List Nat)) (i : Nat) (acc : Option Nat),
      (∀ k (hk : k < ns.length), ns[k] = name ↔ i + k = g) →
      Font.byName.go f name i ns acc = if i ≤ g ∧ g < i + ns.length then some g else acc := by
  intro ns
  induction ns with
  | nil => intro i acc _; simp [Font.byName.go]; omega
  | cons n rest ih =>
    intro i acc h
    unfold Font.byName.go
    have h0 := h 0 (by simp)
    simp at h0
    have ih' := ih (i + 1) (if (decide (i < f.numGlyphs) && n != [] && n == name) = true then some i else acc)
      (by
        intro k hk
        have := h (k + 1) (by simp; omega)
        simp at this
        rw [this]; omega)
    rw [ih']
    by_cases c : i = g
    · subst c
      have : n = name := h0.mpr rfl
      subst this
      simp [hg, hn]
    · have : n ≠ name := fun e => c (h0.mp e)
      have e : (n == name) = false := by simp [this]
      simp only [e, Bool.and_false, Bool.false_eq_true, if_false, List.length_cons]
      by_cases c2 : i + 1 ≤ g ∧ g < i + 1 + rest.length
      · rw [if_pos c2, if_pos (by omega)]
      · rw [if_neg c2, if_neg (by omega)]

theorem byName_named (f : Font) (hf : FontOk f) (g : Nat) (hg : g < f.names.length) (hne : f.names[g] ≠ []) :
    f.byName f.names[g] = some g := by
  unfold Font.byName
  rw [byName_go f _ g hne (by have := hf.namesLen; omega) f.names 0 none]
  · simp [hg]
  · intro k hk
    constructor
    · intro e
      have := hf.distinct g k hg hk hne e.symm
      omega
    · intro e
      have : k = g := by omega
      subst this; rfl

theorem find_of_nodup (l : List (Nat × Nat)) (r g : Nat) (hm : (r, g) ∈ l) (hn : (l.map (·.1)).Nodup) :
    l.find? (·.1 == r) = some (r, g) := by
  induction l with
  | nil => cases hm
  | cons p l ih =>
    simp only [List.map_cons, List.nodup_cons] at hn
    simp only [List.mem_cons] at hm
    rcases hm with rfl | hm
    · simp
    · have : p.1 ≠ r := by
        intro e
        apply hn.1
        rw [e]
        exact List.mem_map.mpr ⟨(r, g), hm, rfl⟩
      rw [List.find?_cons_of_neg (by simpa using this)]
      exact ih hm hn.2

theorem foldl_max_mem (l : List Nat) : ∀ a, l.foldl max a = a ∨ l.foldl max a ∈ l := by
  induction l with
  | nil => intro a; left; rfl
  | cons x l ih =>
    intro a
    simp only [List.foldl_cons, List.mem_cons]
    rcases ih (max a x) with h | h
    · rw [h]
      by_cases c : a ≤ x
      · right; left; exact Nat.max_eq_right c
      · left; exact Nat.max_eq_left (by omega)
    · right; right; exact h

/-- what `newExplainer` stores for a glyph is a printable rune that the cmap maps to it -/
theorem mapOf_spec (f : Font) (hf : FontOk f) (g r : Nat) (h : (newExplainer f).mapOf g = some r) :
    f.lookup r = g ∧ g ≠ 0 ∧ isPrint r = true ∧ f.noCmap = false := by
  unfold Explainer.mapOf newExplainer at h
  simp only at h
  by_cases hg : g < f.numGlyphs
  · rw [List.getD_eq_getElem?_getD, List.getElem?_map, List.getElem?_range hg] at h
    simp only [Option.map_some, Option.getD_some] at h
    split at h
    · cases h
    · rename_i r0 more heq
      simp only [Option.some.injEq] at h
      have hmem : r ∈ r0 :: more := by
        rcases foldl_max_mem more r0 with e | e
        · rw [← h, e]; simp
        · rw [← h]; simp [e]
      rw [← heq] at hmem
      simp only [List.mem_map, List.mem_filter] at hmem
      obtain ⟨p, ⟨hp, hc⟩, rfl⟩ := hmem
      simp only [Bool.and_eq_true, beq_iff_eq, bne_iff_ne] at hc
      obtain ⟨⟨h1, h2⟩, h3⟩ := hc
      have hfind := find_of_nodup f.cmap p.1 p.2 (by simpa using hp) hf.cmapNodup
      refine ⟨?_, h2, h3, ?_⟩
      · unfold Font.lookup
        rw [hfind]; exact h1
      · cases hc : f.noCmap with
        | false => rfl
        | true => have := hf.noCmap hc; rw [this] at hp; cases hp
  · rw [List.getD_eq_getElem?_getD, List.getElem?_eq_none (by simp; omega)] at h
    cases h

theorem decodeEsc_esc (rs : List Nat) : decodeEsc false ((rs.flatMap escRB).map (·.1)) = rs := by
  induction rs with
  | nil => rfl
  | cons r rs ih =>
    simp only [List.flatMap_cons, List.map_append]
    by_cases c1 : r = 34
    · subst c1
      have e : escRB 34 = [a1 92, a1 34] := by simp [escRB]
      rw [e]; simp [a1, decodeEsc, ih]
    · by_cases c2 : r = 92
      · subst c2
        have e : escRB 92 = [a1 92, a1 92] := by simp [escRB]
        rw [e]; simp [a1, decodeEsc, ih]
      · have e1 : (r == 34) = false := by simp [c1]
        have e2 : (r == 92) = false := by simp [c2]
        have e : escRB r = [(r, utf8Encode r)] := by simp [escRB, e1, e2]
        rw [e]; simp [e2, decodeEsc, ih]

theorem decodeString_str (rs : List Nat) (line : Nat) :
    decodeString { typ := tString, val := a1 34 :: (rs.flatMap escRB ++ [a1 34]), line := line } = rs := by
  unfold decodeString
  simp only [List.drop_succ_cons, List.drop_zero, List.dropLast_concat]
  exact decodeEsc_esc rs

/-! ### reading glyph items -/

/-- the item `t` is one `readGlyphList` consumes, and it contributes the glyphs `gs` -/
def GlyphTok (f : Font) (t : Tok) (gs : List Nat) : Prop :=
  (t.typ = tIdentifier ∧ ∃ g, f.byName t.bytes = some g ∧ gs = [g]) ∨
  (t.typ = tInteger ∧ ∃ g, atoi t.bytes = some (Int.ofNat g) ∧ g < 65536 ∧ g < f.numGlyphs ∧ gs = [g]) ∨
  (t.typ = tString ∧ f.noCmap = false ∧ gs = (decodeString t).map f.lookup ∧
    ∀ r ∈ decodeString t, f.lookup r ≠ 0)

theorem addGids_nohy : ∀ (gs res : List Nat) (s : PS), addGids gs res false s = .ok ((res ++ gs, false), s) := by
  intro gs
  induction gs with
  | nil => intro res s; simp [addGids, pure_run]
  | cons g gs ih =>
    intro res s
    unfold addGids
    simp only [Bool.false_eq_true, if_false]
    rw [ih]; simp

theorem mapRunes_ok (f : Font) : ∀ (rs : List Nat) (s : PS), (∀ r ∈ rs, f.lookup r ≠ 0) →
    mapRunes f rs s = .ok (rs.map f.lookup, s) := by
  intro rs
  induction rs with
  | nil => intro s _; simp [mapRunes, pure_run]
  | cons r rs ih =>
    intro s h
    unfold mapRunes
    have h0 : (f.lookup r == 0) = false := by simpa using h r (by simp)
    simp only [h0, Bool.false_eq_true, if_false, bind_run, ih s (fun x hx => h x (by simp [hx])), pure_run,
      List.map_cons]

theorem glyphTok_item (f : Font) (t : Tok) (gs : List Nat) (h : GlyphTok f t gs) : glyphItem f t = true := by
  unfold glyphItem
  rcases h with ⟨h1, g, h2, _⟩ | ⟨h1, _⟩ | ⟨h1, _⟩
  · simp [h1, h2]
  · simp [h1]
  · simp [h1]

theorem glyph_loop (f : Font) : ∀ (items : List (Tok × List Nat)) (n : Nat) (res : List Nat),
    items.length < n → (∀ p ∈ items, GlyphTok f p.1 p.2) →
    Runs (readGlyphListLoop f n res false) (items.map (·.1)) (res ++ items.flatMap (·.2))
      (fun t => glyphItem f t = false) := by
  intro items
  induction items with
  | nil =>
    intro n res hn _ s t rest hs ht
    cases n with
    | zero => omega
    | succ m =>
      obtain ⟨s1, e1, hs1⟩ := runs_takeIf_no (glyphItem f) s t rest (by simpa using hs) ht
      refine ⟨s1, ?_, hs1⟩
      unfold readGlyphListLoop
      rw [bind_run, e1]
      simp [pure_run]
  | cons p items ih =>
    intro n res hn hall s t rest hs ht
    obtain ⟨tk, gs⟩ := p
    cases n with
    | zero => omega
    | succ m =>
      have hp : GlyphTok f tk gs := hall (tk, gs) (by simp)
      obtain ⟨s1, e1, hs1⟩ := runs_takeIf_yes tk (glyphItem f) (glyphTok_item f tk gs hp) s
        ((items.map (·.1) ++ t :: rest).head?.getD t) ((items.map (·.1) ++ t :: rest).tail) (by
          cases hh : items.map (·.1) ++ t :: rest with
          | nil => simp at hh
          | cons x xs => simp [hh] at hs ⊢; exact hs) trivial
      have hs1' : s1.stream = items.map (·.1) ++ t :: rest := by
        rw [hs1]
        cases hh : items.map (·.1) ++ t :: rest with
        | nil => simp at hh
        | cons x xs => simp
      obtain ⟨s2, e2, hs2⟩ := ih m (res ++ gs) (by simp at hn; omega) (fun q hq => hall q (by simp [hq]))
        s1 t rest hs1' ht
      refine ⟨s2, ?_, hs2⟩
      unfold readGlyphListLoop
      rw [bind_run, e1]
      simp only []
      rcases hp with ⟨h1, g, h2, rfl⟩ | ⟨h1, g, h2, h3, h4, rfl⟩ | ⟨h1, h2, rfl, h4⟩
      · simp only [h1, beq_self_eq_true, if_true, h2, bind_run, addGids_nohy]
        simpa [List.append_assoc] using e2
      · have e3 : (tInteger == tIdentifier) = false := by decide
        have e4 : (tInteger == tString) = false := by decide
        have e5 : (decide (g ≥ 65536) || decide (g ≥ f.numGlyphs)) = false := by simp; omega
        simp only [h1, e3, e4, Bool.false_eq_true, if_false, beq_self_eq_true, if_true, h2, e5, bind_run,
          addGids_nohy]
        simpa [List.append_assoc] using e2
      · have e3 : (tString == tIdentifier) = false := by decide
        simp only [h1, e3, Bool.false_eq_true, if_false, beq_self_eq_true, if_true, h2, bind_run,
          mapRunes_ok f _ s1 h4, addGids_nohy]
        simpa [List.append_assoc] using e2

/-! ### the pieces of a glyph list -/

/-- a following rune that ends an identifier and a number -/
def Safe (nx : Option Nat) : Prop := ∀ r, nx = some r → isIdentChar r = false ∧ inR 48 57 r = false

theorem safe_none : Safe none := by intro r h; cases h
theorem safe_ascii (c : Nat) (h : c < 128) (h1 : isIdentChar c = false) (h2 : inR 48 57 c = false) :
    Safe (some c) := by
  intro r hr; cases hr; exact ⟨h1, h2⟩

theorem nameOf_eq (f : Font) (g : Nat) (hg : g < f.numGlyphs) :
    (newExplainer f).nameOf g = f.names.getD g [] := by
  unfold Explainer.nameOf newExplainer
  simp only
  rw [List.getD_eq_getElem?_getD, List.getElem?_map, List.getElem?_range hg]
  simp

/-- all runes of a piece decode canonically -/
def PieceCanon (p : Piece) : Prop := ∀ rb ∈ p.rbs, Canon rb

theorem ascii_canon (s : List Nat) (h : ∀ c ∈ s, c < 128) : ∀ rb ∈ ascii s, Canon rb := by
  intro rb hrb
  simp only [ascii, List.mem_map] at hrb
  obtain ⟨c, hc, rfl⟩ := hrb
  exact canon_ascii c (h c hc)

/-- one glyph item as the printer writes it: its kind and text, what it contributes when read,
that it lexes when followed by a `Safe` rune, and that its bytes decode canonically -/
structure GlyphPiece (f : Font) (p : Piece) (gs : List Nat) : Prop where
  shape : ∃ typ val, p = .tok typ val ∧ (∀ line, GlyphTok f { typ := typ, val := val, line := line } gs) ∧
    (∀ nx, Safe nx → TokOk typ val nx)
  canon : PieceCanon p

theorem nameP_piece (f : Font) (hf : FontOk f) (g : Nat) (hg : g < f.numGlyphs) :
    GlyphPiece f ((newExplainer f).nameP g) [g] := by
  unfold Explainer.nameP
  rw [nameOf_eq f g hg]
  by_cases hn : f.names.getD g [] = []
  · -- written as a number
    simp only [hn, bne_self_eq_false, Bool.false_eq_true, if_false]
    have hd := decimal_digits g
    have hne := decimal_ne_nil g
    refine ⟨⟨tInteger, ascii (decimal g), rfl, ?_, ?_⟩, ?_⟩
    · intro line
      right; left
      refine ⟨rfl, g, ?_, by have := hf.small; omega, hg, rfl⟩
      show atoi (ascii (decimal g) |>.flatMap (·.2)) = _
      rw [ascii_bytes]
      exact atoi_decimal g (by have := hf.small; omega)
    · intro nx hnx
      right; left
      refine ⟨rfl, ?_, fun r hr => (hnx r hr).2⟩
      cases hds : decimal g with
      | nil => exact absurd hds hne
      | cons d ds =>
        refine ⟨ascii ds, ?_, Or.inl ⟨a1 d, rfl, ?_⟩⟩
        · intro x hx
          simp only [ascii, List.mem_map] at hx
          obtain ⟨c, hc, rfl⟩ := hx
          exact hd c (by rw [hds]; simp [hc])
        · exact hd d (by rw [hds]; simp)
    · intro rb hrb
      apply ascii_canon (decimal g) _ rb hrb
      intro c hc
      have := hd c hc
      simp [inR] at this
      omega
  · -- written as its name
    have hlt : g < f.names.length := by
      rcases Nat.lt_or_ge g f.names.length with h | h
      · exact h
      · exfalso
        apply hn
        rw [List.getD_eq_getElem?_getD, List.getElem?_eq_none h]
        rfl
    have hget : f.names.getD g [] = f.names[g] := by
      rw [List.getD_eq_getElem?_getD, List.getElem?_eq_getElem hlt]; rfl
    have hne : f.names[g] ≠ [] := by rw [← hget]; exact hn
    have hok := hf.nameOk f.names[g] (List.getElem_mem hlt) hne
    obtain ⟨r0, rs, hdec, hbytes, h1, h2, hv0, hv⟩ := name_decode _ hok
    have hb : (f.names.getD g [] != []) = true := by rw [bne_iff_ne]; exact hn
    simp only [hb, if_true]
    rw [hget]
    refine ⟨⟨tIdentifier, decodeUtf8 f.names[g], rfl, ?_, ?_⟩, ?_⟩
    · intro line
      left
      refine ⟨rfl, g, ?_, rfl⟩
      show f.byName ((decodeUtf8 f.names[g]).flatMap (·.2)) = some g
      rw [name_bytes _ hok]
      exact byName_named f hf g hlt hne
    · intro nx hnx
      left
      refine ⟨rfl, (r0, utf8Encode r0), rs.map (fun r => (r, utf8Encode r)), hdec, h1, ?_, fun r hr => (hnx r hr).1⟩
      intro x hx
      simp only [List.mem_map] at hx
      obtain ⟨r, hr, rfl⟩ := hx
      exact h2 r hr
    · intro rb hrb
      simp only [Piece.rbs] at hrb
      rw [hdec] at hrb
      simp only [List.mem_cons, List.mem_map] at hrb
      rcases hrb with rfl | ⟨r, hr, rfl⟩
      · exact canon_encode r0 hv0
      · exact canon_encode r (hv r hr)

theorem escRB_canon (r : Nat) (h : validRune r) : ∀ rb ∈ escRB r, Canon rb := by
  intro rb hrb
  unfold escRB at hrb
  split at hrb
  · simp at hrb; rcases hrb with rfl | rfl <;> exact canon_ascii _ (by decide)
  · split at hrb
    · simp at hrb; rcases hrb with rfl | rfl <;> exact canon_ascii _ (by decide)
    · simp at hrb; subst hrb; exact canon_encode r h

/-- a quoted string of stored runes -/
theorem strP_piece (f : Font) (hf : FontOk f) (gs : List Nat) (hne : gs ≠ [])
    (hall : ∀ g ∈ gs, ((newExplainer f).mapOf g).isSome = true) :
    GlyphPiece f (strP (gs.filterMap (newExplainer f).mapOf)) gs := by
  have hspec : ∀ r ∈ gs.filterMap (newExplainer f).mapOf, ∃ g ∈ gs, (newExplainer f).mapOf g = some r := by
    intro r hr
    rw [List.mem_filterMap] at hr
    exact hr
  have hlook : ∀ l : List Nat, (∀ g ∈ l, ((newExplainer f).mapOf g).isSome = true) →
      (l.filterMap (newExplainer f).mapOf).map f.lookup = l := by
    intro l
    induction l with
    | nil => intro _; rfl
    | cons g l ih =>
      intro hl
      have hg := hl g (by simp)
      cases hm : (newExplainer f).mapOf g with
      | none => rw [hm] at hg; cases hg
      | some r =>
        rw [List.filterMap_cons_some hm]
        simp only [List.map_cons]
        rw [(mapOf_spec f hf g r hm).1, ih (fun x hx => hl x (by simp [hx]))]
  refine ⟨⟨tString, _, rfl, ?_, ?_⟩, ?_⟩
  · intro line
    right; right
    rw [decodeString_str]
    refine ⟨rfl, ?_, (hlook gs hall).symm, ?_⟩
    · cases gs with
      | nil => exact absurd rfl hne
      | cons g gs' =>
        have hg := hall g (by simp)
        cases hm : (newExplainer f).mapOf g with
        | none => rw [hm] at hg; cases hg
        | some r => exact (mapOf_spec f hf g r hm).2.2.2
    · intro r hr
      obtain ⟨g, _, e⟩ := hspec r hr
      have := mapOf_spec f hf g r e
      rw [this.1]; exact this.2.1
  · intro nx _
    right; right; left
    refine ⟨rfl, _, rfl, ?_⟩
    intro r hr
    obtain ⟨g, _, e⟩ := hspec r hr
    have := print_valid r (mapOf_spec f hf g r e).2.2.1
    exact ⟨this.2.1, this.2.2⟩
  · intro rb hrb
    simp only [strP, Piece.rbs, List.mem_cons, List.mem_append, List.mem_flatMap] at hrb
    rcases hrb with rfl | ⟨r, hr, hrb⟩ | rfl | hx
    · exact canon_ascii _ (by decide)
    · obtain ⟨g, _, e⟩ := hspec r hr
      exact escRB_canon r (print_valid r (mapOf_spec f hf g r e).2.2.1).1 rb hrb
    · exact canon_ascii _ (by decide)
    · cases hx

theorem writeGlyph_piece (f : Font) (hf : FontOk f) (g : Nat) (hg : g < f.numGlyphs) :
    GlyphPiece f ((newExplainer f).writeGlyph g) [g] := by
  unfold Explainer.writeGlyph
  cases hm : (newExplainer f).mapOf g with
  | none => exact nameP_piece f hf g hg
  | some r =>
    simp only []
    split
    · exact nameP_piece f hf g hg
    · have := strP_piece f hf [g] (by simp) (by intro x hx; simp at hx; subst hx; simp [hm])
      simpa [List.filterMap_cons_some hm] using this

/-- a glyph list as the printer writes it: glyph items separated by blanks -/
def GlyphPieces (f : Font) (ps : List Piece) (gs : List Nat) : Prop :=
  ∃ qs : List (Piece × List Nat), ps = (qs.map (·.1)).intersperse sp ∧ gs = qs.flatMap (·.2) ∧
    ∀ q ∈ qs, GlyphPiece f q.1 q.2

theorem safe_space : Safe (some 32) := safe_ascii 32 (by decide) (by decide) (by decide)

theorem glyphTok_not_eol (f : Font) (t : Tok) (gs : List Nat) (h : GlyphTok f t gs) : t.typ ≠ tEOL := by
  rcases h with ⟨h, _⟩ | ⟨h, _⟩ | ⟨h, _⟩ <;> rw [h] <;> decide

theorem glyphPieces_facts (f : Font) : ∀ (qs : List (Piece × List Nat)), (∀ q ∈ qs, GlyphPiece f q.1 q.2) →
    (∀ nx, Safe nx → ChainOk ((qs.map (·.1)).intersperse sp) nx) ∧
    (∀ line, ∃ items : List (Tok × List Nat),
      mkToks line ((qs.map (·.1)).intersperse sp) = items.map (·.1) ∧ items.flatMap (·.2) = qs.flatMap (·.2) ∧
      (∀ p ∈ items, GlyphTok f p.1 p.2) ∧ endLine line ((qs.map (·.1)).intersperse sp) = line) ∧
    (∀ rb ∈ render ((qs.map (·.1)).intersperse sp), Canon rb) := by
  intro qs
  induction qs with
  | nil =>
    intro _
    exact ⟨fun _ _ => trivial, fun line => ⟨[], rfl, rfl, by simp, rfl⟩, by simp [render]⟩
  | cons q qs ih =>
    intro h
    obtain ⟨⟨typ, val, hp, htok, hok⟩, hcan⟩ := h q (by simp)
    obtain ⟨ih1, ih2, ih3⟩ := ih (fun x hx => h x (by simp [hx]))
    have hne : ∀ line, nextLine typ line = line := by
      intro line
      have := glyphTok_not_eol f _ _ (htok line)
      simp only [nextLine] at this ⊢
      rw [if_neg this]
    cases qs with
    | nil =>
      simp only [List.map_cons, List.map_nil, List.intersperse_singleton, hp]
      refine ⟨fun nx hnx => ⟨hok _ hnx, trivial⟩, fun line => ⟨[(⟨typ, val, line, 0, 0⟩, q.2)], ?_, by simp, ?_, ?_⟩, ?_⟩
      · simp [mkToks]
      · intro p hp'; simp at hp'; subst hp'; exact htok line
      · simp [endLine, hne]
      · intro rb hrb
        apply hcan
        rw [hp]
        simpa [render] using hrb
    | cons q' qs' =>
      simp only [List.map_cons, List.intersperse_cons_cons] at ih1 ih2 ih3 ⊢
      rw [hp]
      refine ⟨?_, ?_, ?_⟩
      · intro nx hnx
        refine ⟨hok _ ?_, ⟨?_, ih1 nx hnx⟩⟩
        · have : nextRune (sp :: (q'.1 :: List.map (fun x => x.fst) qs').intersperse sp) nx = some 32 := by
            simp [nextRune, render, sp, Piece.rbs, a1]
          rw [this]; exact safe_space
        · intro c hc; simp [a1] at hc; subst hc; decide
      · intro line
        obtain ⟨items, e1, e2, e3, e4⟩ := ih2 line
        refine ⟨(⟨typ, val, line, 0, 0⟩, q.2) :: items, ?_, ?_, ?_, ?_⟩
        · simp only [mkToks, sp, hne, List.map_cons]
          exact congrArg (_ :: ·) e1
        · simp [e2]
        · intro p hp'
          simp at hp'
          rcases hp' with rfl | hp'
          · exact htok line
          · exact e3 p hp'
        · simp only [endLine, sp, hne]; exact e4
      · intro rb hrb
        simp only [render, List.flatMap_cons, List.mem_append] at hrb
        rcases hrb with hrb | hrb | hrb
        · apply hcan; rw [hp]; exact hrb
        · simp [sp, Piece.rbs] at hrb; subst hrb; exact canon_ascii _ (by decide)
        · apply ih3; simpa [render] using hrb

theorem writeGlyphList_pieces (f : Font) (hf : FontOk f) (seq : List Nat) (hseq : ∀ g ∈ seq, g < f.numGlyphs) :
    GlyphPieces f ((newExplainer f).writeGlyphList seq) seq := by
  unfold Explainer.writeGlyphList
  match seq, hseq with
  | [], _ => exact ⟨[], rfl, rfl, by simp⟩
  | [g], hseq =>
    exact ⟨[((newExplainer f).writeGlyph g, [g])], rfl, by simp, by
      intro q hq; simp at hq; subst hq; exact writeGlyph_piece f hf g (hseq g (by simp))⟩
  | g :: g' :: more, hseq =>
    simp only []
    split
    · rename_i hall
      refine ⟨[(_, g :: g' :: more)], rfl, by simp, ?_⟩
      intro q hq
      simp at hq
      subst hq
      exact strP_piece f hf _ (by simp) (by simpa using hall)
    · refine ⟨(g :: g' :: more).map (fun x => ((newExplainer f).nameP x, [x])), ?_, ?_, ?_⟩
      · simp [List.map_map, Function.comp_def]
      · simp [List.flatMap_map]
      · intro q hq
        simp only [List.mem_map] at hq
        obtain ⟨x, hx, rfl⟩ := hq
        exact nameP_piece f hf x (hseq x hx)

/-! ### the round trip -/

theorem mkToks_append (a b : List Piece) : ∀ line, mkToks line (a ++ b) = mkToks line a ++ mkToks (endLine line a) b := by
  induction a with
  | nil => intro line; rfl
  | cons p a ih =>
    intro line
    cases p with
    | ws w => simp only [List.cons_append, mkToks, endLine]; exact ih line
    | tok typ val => simp only [List.cons_append, mkToks, endLine, ih]

theorem endLine_append (a b : List Piece) : ∀ line, endLine line (a ++ b) = endLine (endLine line a) b := by
  induction a with
  | nil => intro line; rfl
  | cons p a ih =>
    intro line
    cases p with
    | ws w => simp only [List.cons_append, endLine]; exact ih line
    | tok typ val => simp only [List.cons_append, endLine]; exact ih _

theorem render_append (a b : List Piece) : render (a ++ b) = render a ++ render b := by
  simp [render]

/-- the items the lexer finds in the bytes of well-formed pieces: the lexemes, then EOF -/
theorem lex_render (ps : List Piece) (hc : ChainOk ps none) (hcan : ∀ rb ∈ render ps, Canon rb) :
    ∃ e : Tok, e.typ = tEOF ∧ lexBytes (renderBytes ps) = mkToks 1 ps ++ [e] := by
  unfold lexBytes renderBytes
  rw [decode_canon' _ hcan]
  obtain ⟨w, hw⟩ := lex_pieces ps [] 1 [] (by simpa using hc)
  refine ⟨{ typ := tEOF, val := w, line := endLine 1 ps }, rfl, ?_⟩
  unfold lexRunes
  simpa [lexFrom, finish] using hw

/-- what `writeGlyphList` writes, followed by a line break, as read by `readGlyphList` -/
def glRun (f : Font) (l : List Nat) : Except PErr (List Nat) :=
  let toks := lexBytes (renderBytes ((newExplainer f).writeGlyphList l ++ [eolP]))
  match (readGlyphList f (toks.length + 2)) { toks := toks, backlog := [], last := zeroTok } with
  | .ok (r, _) => .ok r
  | .error e => .error e

theorem eol_tokOk (nx : Option Nat) : TokOk tEOL [a1 10] nx := by
  right; right; right; right; right; right; left
  exact ⟨rfl, rfl⟩

theorem safe_eol : Safe (some 10) := safe_ascii 10 (by decide) (by decide) (by decide)

theorem glyphlist_roundtrip (f : Font) (hf : FontOk f) (gl : List Nat) (h : ∀ g ∈ gl, g < f.numGlyphs) :
    glRun f gl = .ok gl := by
  obtain ⟨qs, hps, hgs, hq⟩ := writeGlyphList_pieces f hf gl h
  obtain ⟨hchain, htoks, hcan⟩ := glyphPieces_facts f qs hq
  rw [← hps] at hchain htoks hcan
  obtain ⟨items, e1, e2, e3, e4⟩ := htoks 1
  have hc : ChainOk ((newExplainer f).writeGlyphList gl ++ [eolP]) none := by
    apply chain_append
    · have : nextRune [eolP] none = some 10 := by simp [nextRune, render, eolP, tk, ascii, Piece.rbs]
      rw [this]
      exact hchain _ safe_eol
    · exact ⟨eol_tokOk _, trivial⟩
  have hcan' : ∀ rb ∈ render ((newExplainer f).writeGlyphList gl ++ [eolP]), Canon rb := by
    intro rb hrb
    rw [render_append, List.mem_append] at hrb
    rcases hrb with hrb | hrb
    · exact hcan rb hrb
    · simp [render, eolP, tk, ascii, Piece.rbs] at hrb; subst hrb; exact canon_ascii 10 (by decide)
  obtain ⟨e, he, hlex⟩ := lex_render _ hc hcan'
  unfold glRun
  simp only []
  rw [hlex, mkToks_append, e1, e4]
  let eolT : Tok := { typ := tEOL, val := [a1 10], line := 1 }
  have hm : mkToks 1 [eolP] = [eolT] := by
    simp [mkToks, eolP, tk, ascii, a1, eolT]
  rw [hm]
  have hstop : glyphItem f eolT = false := by
    simp [glyphItem, eolT, tEOL, tIdentifier, tString, tInteger, tHyphen]
  have hrun := glyph_loop f items ((List.map (fun x => x.1) items ++ [eolT] ++ [e]).length + 2) []
    (by simp; omega) e3
    { toks := List.map (fun x => x.1) items ++ [eolT] ++ [e], backlog := [], last := zeroTok }
    eolT [e] (by simp [PS.stream]) hstop
  obtain ⟨s', hs', _⟩ := hrun
  unfold readGlyphList
  rw [hs']
  simp [e2, hgs]

end SfntV.Dsl
