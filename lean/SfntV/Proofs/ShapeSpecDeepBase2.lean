/-
C06, contextual lookups nested to any depth: the generic "splice" view of one operation.
-/
import SfntV.Proofs.ShapeSpecDeepBase

namespace SfntV.C06
open SfntV
open SfntV.Spec.Shape (TG gl inputPositions windowEnd)

/-- `ts'` is `ts` with the segment `old` at position `j` replaced by `new`, every new glyph
carrying the tags of some glyph of the old segment -/
structure Splice (ts : List TG) (j : Nat) (old new : List TG) (ts' : List TG) : Prop where
  eq : ts = ts.take j ++ old ++ ts.drop (j + old.length)
  eq' : ts' = ts.take j ++ new ++ ts.drop (j + old.length)
  len : j + old.length ≤ ts.length
  tags : ∀ x ∈ new, ∃ y ∈ old, SameTags y x
  ne : old ≠ []
  ne' : new ≠ []

/-- an input glyph of depth `e` lies in the window of depth `e` -/
def InpWin (e : Nat) (ts : List TG) : Prop := ∀ t ∈ ts, t.hasInp e = true → t.hasWin e = true

end SfntV.C06
