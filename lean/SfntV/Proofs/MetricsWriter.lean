/-
C12 — the writer-side derivations (Model/MetricsWriter.lean) equal the definitions (Spec/Metrics.lean).
-/
import SfntV.Proofs.MetricsDerived
import SfntV.Model.MetricsWriter

namespace SfntV.Metrics
open SfntV SfntV.Metrics.Spec

/-! ## FontBBox -/

theorem isZero_iff (r : Rect) : r.isZero = true ↔ r.llx = 0 ∧ r.lly = 0 ∧ r.urx = 0 ∧ r.ury = 0 := by
  simp [Rect.isZero, and_assoc]

/-- a box is a box -/
def Rect.WF (r : Rect) : Prop := r.llx ≤ r.urx ∧ r.lly ≤ r.ury

theorem extend_eq (b e : Rect) (hb : b.isZero = false) (he : e.isZero = false) :
    b.extend e = ⟨min b.llx e.llx, min b.lly e.lly, max b.urx e.urx, max b.ury e.ury⟩ := by
  simp only [Rect.extend, he, hb, Bool.false_eq_true, if_false]
  congr 1
  · split <;> omega
  · split <;> omega
  · split <;> omega
  · split <;> omega

theorem union_nonzero (b e : Rect) (hb : b.isZero = false) (hbw : b.WF) (hew : e.WF) :
    (⟨min b.llx e.llx, min b.lly e.lly, max b.urx e.urx, max b.ury e.ury⟩ : Rect).isZero = false ∧
    (⟨min b.llx e.llx, min b.lly e.lly, max b.urx e.urx, max b.ury e.ury⟩ : Rect).WF := by
  constructor
  · cases h : (⟨min b.llx e.llx, min b.lly e.lly, max b.urx e.urx, max b.ury e.ury⟩ : Rect).isZero with
    | false => rfl
    | true =>
      exfalso
      have hz := (isZero_iff _).1 h
      simp only at hz
      have : b.isZero = true := by
        rw [isZero_iff]; unfold Rect.WF at hbw hew; omega
      rw [this] at hb; cases hb
  · unfold Rect.WF at *; simp only; omega

theorem fontBBoxLoop_false : ∀ (es : List Rect) (b : Rect), b.isZero = false → b.WF →
    (∀ e ∈ es, e.isZero = false → e.WF) →
    fontBBoxLoop es false b =
      ⟨((es.filter fun e => !e.isZero).map (·.llx)).foldl min b.llx,
       ((es.filter fun e => !e.isZero).map (·.lly)).foldl min b.lly,
       ((es.filter fun e => !e.isZero).map (·.urx)).foldl max b.urx,
       ((es.filter fun e => !e.isZero).map (·.ury)).foldl max b.ury⟩ := by
  intro es
  induction es with
  | nil => intro b _ _ _; simp [fontBBoxLoop]
  | cons e es ih =>
    intro b hb hbw hwf
    have hwf' : ∀ x ∈ es, x.isZero = false → x.WF := fun x hx => hwf x (by simp [hx])
    by_cases hz : e.isZero = true
    · simp only [fontBBoxLoop, hz, if_true, List.filter_cons, Bool.not_true, Bool.false_eq_true, if_false]
      exact ih b hb hbw hwf'
    · have hz' : e.isZero = false := by simpa using hz
      have hew := hwf e (by simp) hz'
      obtain ⟨hn, hw⟩ := union_nonzero b e hb hbw hew
      simp only [fontBBoxLoop, hz', Bool.false_eq_true, if_false, List.filter_cons, Bool.not_false,
        if_true, List.map_cons, List.foldl_cons, extend_eq b e hb hz']
      exact ih _ hn hw hwf'

theorem fontbbox_union : ∀ (es : List Rect), (∀ e ∈ es, e.isZero = false → e.WF) →
    fontBBoxModel es = fontBBox es := by
  intro es
  unfold fontBBoxModel
  induction es with
  | nil => intro _; simp [fontBBoxLoop, fontBBox]
  | cons e es ih =>
    intro hwf
    have hwf' : ∀ x ∈ es, x.isZero = false → x.WF := fun x hx => hwf x (by simp [hx])
    by_cases hz : e.isZero = true
    · have := ih hwf'
      simp only [fontBBoxLoop, hz, if_true, fontBBox, List.filter_cons, Bool.not_true,
        Bool.false_eq_true, if_false] at this ⊢
      exact this
    · have hz' : e.isZero = false := by simpa using hz
      simp only [fontBBoxLoop, hz', Bool.false_eq_true, if_false, if_true, fontBBox, List.filter_cons,
        Bool.not_false, List.map_cons, minList, maxList]
      exact fontBBoxLoop_false es e hz' (hwf e (by simp) hz') hwf'

/-! ## IsFixedPitch -/

theorem fixedLoop_set : ∀ (ws : List Int) (width : Int), width ≠ 0 →
    fixedLoop ws width = (ws.filter (· ≠ 0)).all (· == width) := by
  intro ws
  induction ws with
  | nil => intro _ _; simp [fixedLoop]
  | cons w ws ih =>
    intro width hw
    by_cases h0 : w = 0
    · simp [fixedLoop, h0, ih width hw]
    · by_cases he : width = w
      · subst he; simp [fixedLoop, h0, ih width hw]
      · have : ¬ (w = width) := fun h => he h.symm
        simp [fixedLoop, h0, hw, he, this]

theorem fixedLoop_unset : ∀ (ws : List Int),
    fixedLoop ws 0 = (match ws.filter (· ≠ 0) with
      | [] => true
      | w :: rest => rest.all (· == w)) := by
  intro ws
  induction ws with
  | nil => simp [fixedLoop]
  | cons w ws ih =>
    by_cases h0 : w = 0
    · simp [fixedLoop, h0, ih]
    · simp [fixedLoop, h0, fixedLoop_set ws w h0]

theorem fixedpitch_def (ws : List Int) : isFixedPitchModel ws = isFixedPitch ws := by
  cases ws with
  | nil => simp [isFixedPitchModel, isFixedPitch]
  | cons w ws =>
    simp only [isFixedPitchModel, List.length_cons, Nat.add_one_ne_zero, if_false, isFixedPitch]
    exact fixedLoop_unset (w :: ws)

/-! ## average width -/

theorem avgAcc_eq : ∀ (ws : List Int) (s c : Nat),
    avgAcc ws (s, c) = (s + ((ws.filter (· > 0)).map Int.toNat).sum, c + (ws.filter (· > 0)).length) := by
  intro ws
  induction ws with
  | nil => intro s c; simp [avgAcc]
  | cons w ws ih =>
    intro s c
    by_cases h : w > 0
    · simp only [avgAcc, h, if_true, ih, List.filter_cons, decide_true, List.map_cons, List.sum_cons,
        List.length_cons]
      congr 1 <;> omega
    · simp only [avgAcc, h, if_false, ih, List.filter_cons, decide_false, Bool.false_eq_true]

/-- rounding half up, two ways -/
theorem round_div (S n : Nat) (hn : 0 < n) : (2 * S + n) / (2 * n) = (S + n / 2) / n := by
  have h1 := Nat.div_add_mod (S + n / 2) n
  have h2 := Nat.mod_lt (S + n / 2) hn
  have h3 := Nat.div_add_mod n 2
  have h4 := Nat.mod_lt n (show 0 < 2 by decide)
  apply Nat.div_eq_of_lt_le
  · have : (S + n / 2) / n * (2 * n) = 2 * (n * ((S + n / 2) / n)) := by
      rw [Nat.mul_comm, Nat.mul_assoc]
    rw [this]; omega
  · have : ((S + n / 2) / n + 1) * (2 * n) = 2 * (n * ((S + n / 2) / n)) + 2 * n := by
      rw [Nat.add_mul, Nat.one_mul, Nat.mul_comm ((S + n / 2) / n), Nat.mul_assoc]
    rw [this]; omega

theorem avgwidth_def (ws : List Int) : (avgWidthInt ws : Int) = avgCharWidth ws := by
  unfold avgWidthInt avgCharWidth
  rw [avgAcc_eq]
  simp only [Nat.zero_add, List.length_map]
  by_cases h : (ws.filter (· > 0)).length = 0
  · have hnil : ws.filter (· > 0) = [] := List.eq_nil_of_length_eq_zero h
    simp [hnil]
  · have hpos : 0 < (ws.filter (· > 0)).length := Nat.pos_of_ne_zero h
    simp only [hpos, if_true, h, if_false, round_div _ _ hpos]

/-! ## first / last character index, win metrics -/

theorem codeRange12_eq : ∀ (ks : List Int) (first : Bool) (lo hi : Int),
    codeRange12 ks first (lo, hi) = (runMin ks first lo, runMax ks first hi) := by
  intro ks
  induction ks with
  | nil => intro _ _ _; rfl
  | cons k ks ih => intro first lo hi; simp only [codeRange12, runMin, runMax, ih]

theorem codeRange4_eq (ks : List Int) (hne : ks ≠ []) (hr : ∀ k ∈ ks, 0 ≤ k ∧ k ≤ 2147483647) :
    codeRange4 ks = (minList ks, maxList ks) := by
  cases ks with
  | nil => exact absurd rfl hne
  | cons k ks =>
    have hk := hr k (by simp)
    have f1 : (fun (lo k : Int) => if k < lo then k else lo) = min := by
      funext a b; by_cases h : b < a <;> simp [h] <;> omega
    have f2 : (fun (hi k : Int) => if k > hi then k else hi) = max := by
      funext a b; by_cases h : b > a <;> simp [h] <;> omega
    simp only [codeRange4, List.length_cons, Nat.add_one_ne_zero, if_false, f1, f2, List.foldl_cons,
      minList, maxList]
    have e1 : min 2147483647 k = k := by omega
    have e2 : max 0 k = k := by omega
    rw [e1, e2]

theorem charIndexModel_eq (c : Int) (h : 0 ≤ c) : charIndexModel c = min c 0xFFFF := by
  unfold charIndexModel; split <;> omega

theorem winMetrics_eq (b : Rect) (h1 : -32768 < b.lly) (h2 : b.lly ≤ 32767) :
    winMetricsModel b = (b.ury, -b.lly) := by
  unfold winMetricsModel wrap16; congr 1; omega

end SfntV.Metrics
