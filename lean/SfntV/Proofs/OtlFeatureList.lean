/-
Lemmas about the feature-list model (C08).
-/
import SfntV.Model.OtlFeatureList
import SfntV.Proofs.OtlBase

namespace SfntV.Otl.FL
open SfntV SfntV.Otl

/-- the domain: 4-byte tags, 16-bit lookup indices, fewer than 65536 of them per feature -/
structure Dom (fl : List Feature) : Prop where
  ok : ∀ f ∈ fl, f.tag.length = 4 ∧ f.lookups.length < 65536 ∧ ∀ x ∈ f.lookups, x < 65536

theorem offsets_length : ∀ (fl : List Feature) (s : Nat), (offsets fl s).length = fl.length
  | [], _ => rfl
  | _ :: fs, s => by simp [offsets, offsets_length fs]

/-- offsets increase, so all are bounded by the last one -/
theorem offsets_le_last : ∀ (fl : List Feature) (s : Nat) (o : Nat), o ∈ offsets fl s →
    s ≤ o ∧ o ≤ (offsets fl s).getLastD 0
  | [], _, o, h => by simp [offsets] at h
  | f :: fs, s, o, h => by
    simp only [offsets, List.mem_cons] at h
    cases fs with
    | nil =>
      simp only [offsets, List.not_mem_nil, or_false] at h
      subst h
      simp [offsets]
    | cons g gs =>
      have hl : (offsets (f :: g :: gs) s).getLastD 0 =
          (offsets (g :: gs) (s + 4 + 2 * f.lookups.length)).getLastD 0 := by
        simp [offsets, List.getLastD]
      rw [hl]
      have hfirst := offsets_le_last (g :: gs) (s + 4 + 2 * f.lookups.length)
        (s + 4 + 2 * f.lookups.length) (by simp [offsets])
      rcases h with rfl | h
      · exact ⟨Nat.le_refl _, by omega⟩
      · have := offsets_le_last (g :: gs) _ o h
        exact ⟨by omega, this.2⟩

theorem flatMap_tables (fl : List Feature) :
    fl.flatMap (fun f => wordsToBytes (tableWords f)) = wordsToBytes (fl.flatMap tableWords) := by
  induction fl with
  | nil => rfl
  | cons f fs ih => simp only [List.flatMap_cons, ih, wordsToBytes_append]

theorem be16_read (n : Nat) (h : n < 65536) :
    (be16 n) = [UInt8.ofNat (n / 256 % 256), UInt8.ofNat (n % 256)] ∧
    (UInt8.ofNat (n / 256 % 256)).toNat * 256 + (UInt8.ofNat (n % 256)).toNat = n := by
  refine ⟨rfl, ?_⟩
  simp only [UInt8.toNat_ofNat']
  omega

/-- the record array reads back as the (tag, offset) pairs -/
theorem readRecs_spec (tail : Bytes) : ∀ (recs : List (Feature × Nat)),
    (∀ p ∈ recs, p.1.tag.length = 4 ∧ p.2 < 65536) →
    readRecs recs.length (recs.flatMap (fun p => p.1.tag.take 4 ++ be16 (w16 p.2)) ++ tail) =
      .ok (recs.map fun p => (p.1.tag, p.2))
  | [], _ => rfl
  | p :: recs, h => by
    obtain ⟨ht, ho⟩ := h p (by simp)
    have ih := readRecs_spec tail recs (fun q hq => h q (by simp [hq]))
    obtain ⟨t0, t1, t2, t3, htag⟩ : ∃ t0 t1 t2 t3, p.1.tag = [t0, t1, t2, t3] := by
      match hp : p.1.tag, ht with
      | [a, b, c, d], _ => exact ⟨a, b, c, d, rfl⟩
    simp only [List.length_cons, List.flatMap_cons, htag, List.take, w16_of_lt ho,
      (be16_read p.2 ho).1, List.cons_append, List.nil_append, readRecs]
    rw [ih]
    simp only [htag, UInt8.toNat_ofNat', List.map_cons, Outcome.ok.injEq, List.cons.injEq, Prod.mk.injEq,
      true_and, and_true]
    omega

/-- the feature tables are found at the recorded offsets; the running total is the offset -/
theorem readTables_spec (H c : Bytes) : ∀ (fs : List Feature) (P : List Nat),
    (∀ f ∈ fs, f.lookups.length < 65536 ∧ ∀ x ∈ f.lookups, x < 65536) →
    (∀ w ∈ P, w < 65536) →
    (offsets fs (H.length + 2 * P.length)).getLastD 0 ≤ 0xFFFF →
    readTables (H ++ wordsToBytes (P ++ fs.flatMap tableWords) ++ c)
      ((fs.zip (offsets fs (H.length + 2 * P.length))).map fun p => (p.1.tag, p.2))
      (H.length + 2 * P.length) = .ok fs
  | [], _, _, _, _ => rfl
  | f :: fs, P, hf, hP, hlast => by
    obtain ⟨hl, hx⟩ := hf f (by simp)
    have hoff := offsets_le_last (f :: fs) (H.length + 2 * P.length) (H.length + 2 * P.length)
      (by simp [offsets])
    -- the words at this offset
    have hall : ∀ w ∈ (f :: fs).flatMap tableWords, w < 65536 := by
      intro w hw
      rw [List.mem_flatMap] at hw
      obtain ⟨g, hg, hw⟩ := hw
      simp only [tableWords, List.mem_cons] at hw
      rcases hw with rfl | rfl | hw
      · decide
      · exact w16_lt _
      · exact (hf g hg).2 w hw
    have hdrop : bytesToWords ((H ++ wordsToBytes (P ++ (f :: fs).flatMap tableWords) ++ c).drop
        (H.length + 2 * P.length)) = (f :: fs).flatMap tableWords ++ bytesToWords c := by
      rw [List.append_assoc, ← List.drop_drop, List.drop_left,
        drop_wordsToBytes_append' P ((f :: fs).flatMap tableWords) c, bytesToWords_append _ hall]
    -- the rest, with the prefix extended by this table
    have ih := readTables_spec H c fs (P ++ tableWords f)
      (fun g hg => hf g (by simp [hg]))
      (by intro w hw
          rw [List.mem_append] at hw
          rcases hw with hw | hw
          · exact hP w hw
          · exact hall w (by simp [hw]))
      (by
        have e : H.length + 2 * (P ++ tableWords f).length =
            H.length + 2 * P.length + 4 + 2 * f.lookups.length := by
          simp only [List.length_append, tableWords, List.length_cons]; omega
        rw [e]
        cases fs with
        | nil => simp [offsets]
        | cons g gs =>
          have : (offsets (f :: g :: gs) (H.length + 2 * P.length)).getLastD 0 =
              (offsets (g :: gs) (H.length + 2 * P.length + 4 + 2 * f.lookups.length)).getLastD 0 := by
            simp [offsets, List.getLastD]
          rw [← this]; exact hlast)
    have e1 : H ++ wordsToBytes ((P ++ tableWords f) ++ fs.flatMap tableWords) ++ c =
        H ++ wordsToBytes (P ++ (f :: fs).flatMap tableWords) ++ c := by simp
    have e2 : H.length + 2 * (P ++ tableWords f).length =
        H.length + 2 * P.length + 4 + 2 * f.lookups.length := by
      simp only [List.length_append, tableWords, List.length_cons]; omega
    rw [e1, e2] at ih
    generalize H ++ wordsToBytes (P ++ (f :: fs).flatMap tableWords) ++ c = b at hdrop ih ⊢
    simp only [offsets, List.zip_cons_cons, List.map_cons, readTables, hdrop]
    simp only [List.flatMap_cons, tableWords, List.cons_append, w16_of_lt hl]
    simp only [List.append_assoc]
    rw [if_neg (by omega), if_neg (by simp), List.take_left, ih]

theorem recs_length (recs : List (Feature × Nat)) (h : ∀ p ∈ recs, p.1.tag.length = 4) :
    (recs.flatMap (fun p => p.1.tag.take 4 ++ be16 (w16 p.2))).length = 6 * recs.length := by
  induction recs with
  | nil => rfl
  | cons p recs ih =>
    simp only [List.flatMap_cons, List.length_append, List.length_take, length_be16, List.length_cons,
      ih (fun q hq => h q (by simp [hq])), h p (by simp)]
    omega

theorem roundtrip (fl : List Feature) (D : Dom fl)
    (hfit : (offsets fl (2 + 6 * fl.length)).getLastD 0 ≤ 0xFFFF) (tail : Bytes) :
    ∃ b, encode fl = .ok b ∧ read (b ++ tail) = .ok fl := by
  have hn : fl.length < 65536 := by
    cases fl with
    | nil => simp
    | cons f fs =>
      have := offsets_le_last (f :: fs) (2 + 6 * (f :: fs).length) (2 + 6 * (f :: fs).length)
        (by simp [offsets])
      simp only [List.length_cons] at this hfit ⊢
      omega
  have hshort : (fl.any fun f => decide (f.tag.length < 4)) = false := by
    rw [List.any_eq_false]
    intro f hf
    have := (D.ok f hf).1
    simp [this]
  have hzlen : (fl.zip (offsets fl (2 + 6 * fl.length))).length = fl.length := by
    simp [List.length_zip, offsets_length]
  have hzip : ∀ p ∈ fl.zip (offsets fl (2 + 6 * fl.length)), p.1.tag.length = 4 ∧ p.2 < 65536 := by
    intro p hp
    have h1 := (List.of_mem_zip hp).1
    have h2 := (List.of_mem_zip hp).2
    have := (offsets_le_last fl _ p.2 h2).2
    exact ⟨(D.ok p.1 h1).1, by omega⟩
  refine ⟨be16 (w16 fl.length) ++
    (fl.zip (offsets fl (2 + 6 * fl.length))).flatMap (fun p => p.1.tag.take 4 ++ be16 (w16 p.2)) ++
    fl.flatMap (fun f => wordsToBytes (tableWords f)), ?_, ?_⟩
  · unfold encode
    simp only
    rw [if_neg (by omega), hshort]
    simp only [Bool.false_eq_true, if_false]
  · rw [flatMap_tables]
    have hbe := be16_read fl.length hn
    rw [w16_of_lt hn, hbe.1]
    simp only [List.cons_append, List.nil_append, List.append_assoc, read, hbe.2]
    have hr := readRecs_spec (wordsToBytes (fl.flatMap tableWords) ++ tail)
      (fl.zip (offsets fl (2 + 6 * fl.length))) hzip
    rw [hzlen] at hr
    rw [hr]
    dsimp only
    -- the header and the records form the prefix `H`
    have hH : ((UInt8.ofNat (fl.length / 256 % 256) :: UInt8.ofNat (fl.length % 256) ::
        (fl.zip (offsets fl (2 + 6 * fl.length))).flatMap
          (fun p => p.1.tag.take 4 ++ be16 (w16 p.2))).length) = 2 + 6 * fl.length := by
      simp only [List.length_cons, recs_length _ (fun p hp => (hzip p hp).1), hzlen]
      omega
    have ht := readTables_spec
      (UInt8.ofNat (fl.length / 256 % 256) :: UInt8.ofNat (fl.length % 256) ::
        (fl.zip (offsets fl (2 + 6 * fl.length))).flatMap (fun p => p.1.tag.take 4 ++ be16 (w16 p.2)))
      tail fl [] (fun f hf => (D.ok f hf).2) (by simp) (by rw [hH]; simpa using hfit)
    rw [hH] at ht
    simp only [List.nil_append, List.length_nil, Nat.mul_zero, Nat.add_zero, List.cons_append,
      List.append_assoc] at ht
    exact ht

theorem refusal (fl : List Feature) (h : (offsets fl (2 + 6 * fl.length)).getLastD 0 > 0xFFFF) :
    ∃ s, encode fl = .panic s := by
  unfold encode
  simp only
  rw [if_pos h]
  exact ⟨_, rfl⟩

end SfntV.Otl.FL
