/-
C02 (decoders are total), group lookuplist — the bridging lemma: erasing panic sites and costs
from the checked-index model `SfntV.Total.LookupList.readLookupList` (instantiated with the subtable
reader of the verification hook `gtab.VerifReadLookupList`) gives the value-level model of C08,
`SfntV.Otl.LL.readLLWith` / `readLL` (Model/OtlLookupList.lean), on every input
(`readLookupList_erase`, `readLookupList_erase_hook`).  The C08 model reads at list position 0.
-/
import SfntV.Model.OtlLookupList
import SfntV.Proofs.TotalLookupList

namespace SfntV.Total.LookupList
open SfntV SfntV.Total
open SfntV.Otl (LL.rdAt LL.rdAtN LL.u16at eIO eInvalid)
open SfntV.Total.Gdef (idx_ok ok_bind bind_noPanic bind_eq_ok readBytes_noPanic readBytes_ok_length
  w16_ok w16_lt w32_ok mkSlice_ok)

/-! ## the value-level reads of `OtlLookupList` against the checked reads -/

theorem rdAt_in (b : Bytes) (p : Nat) (h : p + 2 ≤ b.length) :
    Otl.LL.rdAt b p = .ok (be (b[p]'(by omega)) (b[p + 1]'(by omega))) := by
  unfold Otl.LL.rdAt Otl.LL.u16at
  rw [List.getElem?_eq_getElem (by omega : p < b.length),
    List.getElem?_eq_getElem (by omega : p + 1 < b.length)]
  rfl

theorem rdAt_out (b : Bytes) (p : Nat) (h : b.length < p + 2) : Otl.LL.rdAt b p = .err "io" := by
  unfold Otl.LL.rdAt Otl.LL.u16at
  rw [List.getElem?_eq_none (by omega : b.length ≤ p + 1)]
  cases b[p]? <;> rfl

theorem rd16_eq (site : String) (b : Bytes) (p : Nat) : rd16 site b p = Otl.LL.rdAt b p := by
  by_cases h : p + 2 ≤ b.length
  · rw [rdAt_in b p h]
    exact rd16_at (List.getElem?_eq_getElem (by omega)) (List.getElem?_eq_getElem (by omega))
  · rw [rdAt_out b p (by omega)]
    unfold rd16 readBytes
    rw [if_neg (by omega), if_neg h]
    rfl

/-- forget the cost -/
def fstO {α : Type} : Outcome (α × Cost) → Outcome α
  | .ok (a, _) => .ok a
  | .err e => .err e
  | .panic s => .panic s

def omap {α β : Type} (f : α → β) : Outcome α → Outcome β
  | .ok a => .ok (f a)
  | .err e => .err e
  | .panic s => .panic s

theorem readU16s_eq (site : String) (b : Bytes) : ∀ (n p : Nat),
    readU16s site b n p = omap (fun r => (r, (⟨n, 0⟩ : Cost))) (Otl.LL.rdAtN b p n)
  | 0, _ => rfl
  | n+1, p => by
    unfold readU16s Otl.LL.rdAtN
    rw [rd16_eq]
    cases Otl.LL.rdAt b p with
    | ok v =>
      rw [ok_bind, readU16s_eq site b n (p + 2)]
      cases Otl.LL.rdAtN b (p + 2) n <;> rfl
    | err e => rfl
    | panic s => rfl

theorem rdAtN_short (b : Bytes) : ∀ (n p : Nat), b.length < p + 2 * n → 1 ≤ n →
    Otl.LL.rdAtN b p n = .err "io"
  | 0, _, _, h => by omega
  | n+1, p, h, _ => by
    unfold Otl.LL.rdAtN
    by_cases hp : p + 2 ≤ b.length
    · rw [rdAt_in b p hp]
      dsimp only
      rw [rdAtN_short b n (p + 2) (by omega) (by omega)]
    · rw [rdAt_out b p (by omega)]

/-- three words at `q` -/
theorem rdAtN3_in (b : Bytes) (q : Nat) (h : q + 6 ≤ b.length) :
    Otl.LL.rdAtN b q 3 = .ok [be (b[q]'(by omega)) (b[q + 1]'(by omega)),
      be (b[q + 2]'(by omega)) (b[q + 2 + 1]'(by omega)),
      be (b[q + 2 + 2]'(by omega)) (b[q + 2 + 2 + 1]'(by omega))] := by
  unfold Otl.LL.rdAtN
  rw [rdAt_in b q (by omega)]
  dsimp only
  unfold Otl.LL.rdAtN
  rw [rdAt_in b (q + 2) (by omega)]
  dsimp only
  unfold Otl.LL.rdAtN
  rw [rdAt_in b (q + 2 + 2) (by omega)]
  dsimp only
  unfold Otl.LL.rdAtN
  rfl

theorem w16_take_drop (site : String) (b : Bytes) (q n i : Nat) (hi : i + 2 ≤ n)
    (h : q + n ≤ b.length) :
    w16 site ((b.drop q).take n) i = .ok (be (b[q + i]'(by omega)) (b[q + i + 1]'(by omega))) := by
  unfold w16 idx
  simp only [List.getElem?_take, List.getElem?_drop]
  rw [if_pos (by omega), if_pos (by omega), List.getElem?_eq_getElem (by omega : q + i < b.length),
    show q + (i + 1) = q + i + 1 from rfl,
    List.getElem?_eq_getElem (by omega : q + i + 1 < b.length)]
  rfl

theorem w32_take_drop (site : String) (b : Bytes) (q n i : Nat) (hi : i + 4 ≤ n)
    (h : q + n ≤ b.length) :
    w32 site ((b.drop q).take n) i =
      .ok (be (b[q + i]'(by omega)) (b[q + i + 1]'(by omega)) * 65536 +
        be (b[q + i + 2]'(by omega)) (b[q + i + 2 + 1]'(by omega))) := by
  unfold w32 idx
  simp only [List.getElem?_take, List.getElem?_drop]
  rw [if_pos (by omega), if_pos (by omega), if_pos (by omega), if_pos (by omega),
    List.getElem?_eq_getElem (by omega : q + i < b.length),
    List.getElem?_eq_getElem (by omega : q + (i + 1) < b.length),
    List.getElem?_eq_getElem (by omega : q + (i + 2) < b.length),
    List.getElem?_eq_getElem (by omega : q + (i + 3) < b.length)]
  have e : ∀ x0 x1 x2 x3 : Nat,
      ((x0 * 256 + x1) * 256 + x2) * 256 + x3 = (x0 * 256 + x1) * 65536 + (x2 * 256 + x3) := by
    intros
    omega
  exact congrArg Outcome.ok (e _ _ _ _)

/-- the 6-byte header read as three words -/
theorem header3 {β : Type} (s0 s1 s2 s3 : String) (b : Bytes) (q : Nat)
    (k : Nat → Nat → Nat → Outcome β) :
    (readBytes s0 b q 6 >>= fun buf => w16 s1 buf 0 >>= fun x => w16 s2 buf 2 >>= fun y =>
      w16 s3 buf 4 >>= fun z => k x y z) =
    (match Otl.LL.rdAtN b q 3 with
      | .ok [x, y, z] => k x y z
      | .ok _ => .err "io"
      | .err e => .err e
      | .panic s => .panic s) := by
  by_cases h : q + 6 ≤ b.length
  · rw [rdAtN3_in b q h]
    unfold readBytes
    rw [if_neg (by omega), if_pos h, ok_bind, w16_take_drop _ b q 6 0 (by omega) h, ok_bind,
      w16_take_drop _ b q 6 2 (by omega) h, ok_bind, w16_take_drop _ b q 6 4 (by omega) h, ok_bind]
    rfl
  · rw [rdAtN_short b 3 q (by omega) (by omega)]
    unfold readBytes
    rw [if_neg (by omega), if_neg h]
    rfl

theorem readExt_eq {σ : Type} (b : Bytes) (q : Nat) :
    readExtensionSubtable (σ := σ) b q =
    (match Otl.LL.rdAtN b q 3 with
      | .ok [et, hi, lo] => .ok (.ext et (hi * 65536 + lo), ⟨1, 1⟩)
      | .ok _ => .err "io"
      | .err e => .err e
      | .panic s => .panic s) := by
  by_cases h : q + 6 ≤ b.length
  · rw [rdAtN3_in b q h]
    unfold readExtensionSubtable readBytes
    rw [if_neg (by omega), if_pos h, ok_bind, w16_take_drop _ b q 6 0 (by omega) h, ok_bind,
      w32_take_drop _ b q 6 2 (by omega) h, ok_bind]
    rfl
  · rw [rdAtN_short b 3 q (by omega) (by omega)]
    unfold readExtensionSubtable readBytes
    rw [if_neg (by omega), if_neg h]
    rfl

/-! ## the erasure -/

/-- the hook's leaf with a (zero) cost attached -/
def withCost {σ : Type} (leaf : Nat → Nat → Outcome σ) : Nat → Nat → Outcome (σ × Cost) :=
  fun t p => omap (fun v => (v, Cost.zero)) (leaf t p)

def unconv {σ : Type} : SubV σ → Sum (Nat × Nat) σ
  | .ext et eo => .inl (et, eo)
  | .other v => .inr v

def eraseSub {σ : Type} : SubV σ → Option σ
  | .other v => some v
  | .ext _ _ => none

def eraseLookup {σ : Type} (l : Lookup σ) : Otl.LL.ReadLookup σ :=
  ⟨l.type, l.flags, l.mfs, l.subs.filterMap eraseSub⟩

theorem bridge_bind {α α' β β' : Type} (x : Outcome (α × Cost)) (y : Outcome α') (conv : α → α')
    (f : α × Cost → Outcome (β × Cost)) (g : α' → Outcome β') (e : β → β')
    (hx : omap conv (fstO x) = y)
    (hf : ∀ a d, x = .ok (a, d) → omap e (fstO (f (a, d))) = g (conv a)) :
    omap e (fstO (x >>= f)) = (y >>= g) := by
  subst hx
  cases x with
  | ok ad =>
    obtain ⟨a, d⟩ := ad
    exact hf a d rfl
  | err _ => rfl
  | panic _ => rfl

theorem hook_eq {σ : Type} (leaf : Nat → Nat → Outcome σ) (b : Bytes) (ext tp p : Nat) :
    omap unconv (fstO (hookReader (withCost leaf) b ext tp p)) = Otl.LL.srWith leaf b ext tp p := by
  unfold hookReader Otl.LL.srWith
  by_cases h : tp = ext
  · rw [if_pos h, if_pos (by simp [h]), rd16_eq]
    cases Otl.LL.rdAt b p with
    | ok fmt =>
      rw [ok_bind]
      dsimp only
      by_cases hf : fmt = 1
      · rw [if_neg (by simp [hf]), if_neg (by simp [hf]), readExt_eq]
        cases Otl.LL.rdAtN b (p + 2) 3 with
        | ok l => rcases l with _ | ⟨x, _ | ⟨y, _ | ⟨z, _ | ⟨w, l⟩⟩⟩⟩ <;> rfl
        | err _ => rfl
        | panic _ => rfl
      · rw [if_pos hf, if_pos (by simp [hf])]
        rfl
    | err _ => rfl
    | panic _ => rfl
  · rw [if_neg h, if_neg (by simp [h])]
    unfold withCost
    cases leaf tp p <;> rfl

theorem hook_ne {σ : Type} (leaf : Nat → Nat → Outcome σ) (b : Bytes) (ext tp p : Nat) (h : tp ≠ ext) :
    hookReader (withCost leaf) b ext tp p = omap (fun v => (.other v, Cost.zero)) (leaf tp p) := by
  unfold hookReader
  rw [if_neg h]
  unfold withCost
  cases leaf tp p <;> rfl

theorem hook_ext {σ : Type} {leaf : Nat → Nat → Outcome σ} {b : Bytes} {ext tp p et eo : Nat} {d : Cost}
    (h : hookReader (withCost leaf) b ext tp p = .ok (.ext et eo, d)) : tp = ext := by
  apply Classical.byContradiction
  intro hne
  rw [hook_ne leaf b ext tp p hne] at h
  cases hl : leaf tp p <;> rw [hl] at h <;> cases h

theorem readSubs_eq {σ : Type} (leaf : Nat → Nat → Outcome σ) (b : Bytes) (ext tp lp n : Nat) :
    ∀ (os : List Nat) (j : Nat), j + os.length ≤ n →
    omap (List.map unconv) (fstO (readSubs (hookReader (withCost leaf) b ext) tp lp n os j)) =
      Otl.LL.srAll leaf b ext tp lp os
  | [], _, _ => rfl
  | o :: os, j, h => by
    unfold readSubs Otl.LL.srAll
    simp only [List.length_cons] at h
    refine Eq.trans (b := (Otl.LL.srWith leaf b ext tp (lp + o) >>= fun x =>
      omap (fun xs => x :: xs) (Otl.LL.srAll leaf b ext tp lp os))) ?_ ?_
    · refine bridge_bind _ _ unconv _ _ _ (hook_eq leaf b ext tp (lp + o)) (fun v d _ => ?_)
      dsimp only
      rw [store_ok _ _ _ (by omega), ok_bind, ← readSubs_eq leaf b ext tp lp n os (j + 1) (by omega)]
      cases readSubs (hookReader (withCost leaf) b ext) tp lp n os (j + 1) with
      | ok rc => rfl
      | err _ => rfl
      | panic _ => rfl
    · cases Otl.LL.srWith leaf b ext tp (lp + o) with
      | ok x => cases Otl.LL.srAll leaf b ext tp lp os <;> rfl
      | err _ => rfl
      | panic _ => rfl

theorem resolveExt_eq {σ : Type} (leaf : Nat → Nat → Outcome σ) (b : Bytes) (ext et lp : Nat)
    (het : et ≠ ext) (so : List Nat) (n : Nat) :
    ∀ (ss : List (SubV σ)) (j : Nat), j + ss.length ≤ n → so.length = j + ss.length →
    omap (List.filterMap eraseSub)
        (fstO (resolveExt (hookReader (withCost leaf) b ext) et lp so n ss j)) =
      Otl.LL.resolveExt leaf lp et (so.drop j) (ss.map unconv)
  | [], j, _, _ => by
    cases h : so.drop j <;> rfl
  | s :: ss, j, h1, h2 => by
    simp only [List.length_cons] at h1 h2
    rw [List.drop_eq_getElem_cons (by omega : j < so.length)]
    cases s with
    | other v => rfl
    | ext e1 eo =>
      unfold resolveExt
      simp only [List.map_cons, unconv, Otl.LL.resolveExt]
      by_cases he : e1 = et
      · rw [if_neg (by simp [he]), if_neg (by simp [he]), idx_ok _ so j (by omega), ok_bind,
          hook_ne leaf b ext et _ het]
        cases leaf et (lp + so[j] + eo) with
        | ok v =>
          simp only [omap]
          rw [ok_bind]
          dsimp only
          rw [store_ok _ _ _ (by omega), ok_bind,
            ← resolveExt_eq leaf b ext et lp het so n ss (j + 1) (by omega) (by omega)]
          cases resolveExt (hookReader (withCost leaf) b ext) et lp so n ss (j + 1) with
          | ok rc => rfl
          | err _ => rfl
          | panic _ => rfl
        | err _ => rfl
        | panic _ => rfl
      · rw [if_pos he, if_pos (by simp [he])]
        rfl

/-! ## one lookup -/

def unInr {σ : Type} : Sum (Nat × Nat) σ → Option σ
  | .inr p => some p
  | .inl _ => none

theorem filterMap_unconv {σ : Type} : ∀ (ss : List (SubV σ)),
    (ss.map unconv).filterMap unInr = ss.filterMap eraseSub
  | [] => rfl
  | s :: ss => by
    cases s with
    | ext _ _ =>
      simp only [List.map_cons, unconv, unInr, eraseSub, List.filterMap_cons]
      exact filterMap_unconv ss
    | other v =>
      simp only [List.map_cons, unconv, unInr, eraseSub, List.filterMap_cons]
      rw [filterMap_unconv ss]

/-- the `here` block of `Otl.LL.readLookups` -/
def theirHere {σ : Type} (leaf : Nat → Nat → Outcome σ) (lp tp flags mfs : Nat) (offs : List Nat)
    (subs : List (Sum (Nat × Nat) σ)) : Outcome (Otl.LL.ReadLookup σ) :=
  match subs with
  | .inl (et, _) :: _ =>
    if et == tp then .err Otl.eInvalid
    else Otl.LL.resolveExt leaf lp et offs subs >>= fun ps => .ok ⟨et, flags, mfs, ps⟩
  | _ => .ok ⟨tp, flags, mfs, subs.filterMap unInr⟩

/-- one iteration of `Otl.LL.readLookups`, in bind form: the lookup and its subtable count -/
def theirLookup {σ : Type} (leaf : Nat → Nat → Outcome σ) (b : Bytes) (ext lp numL numS : Nat) :
    Outcome (Otl.LL.ReadLookup σ × Nat) :=
  match Otl.LL.rdAtN b lp 3 with
  | .ok [tp, flags, cnt] =>
    if numL + 1 + (numS + cnt) > 6000 then .err Otl.eInvalid
    else
      Otl.LL.rdAtN b (lp + 6) cnt >>= fun offs =>
      (if flags / 16 % 2 == 1 then Otl.LL.rdAt b (lp + 6 + 2 * cnt) else .ok 0) >>= fun mfs =>
      Otl.LL.srAll leaf b ext tp lp offs >>= fun subs =>
      theirHere leaf lp tp flags mfs offs subs >>= fun l => .ok (l, cnt)
  | .ok _ => .err Otl.eIO
  | .err e => .err e
  | .panic s => .panic s

theorem their_unfold {σ : Type} (leaf : Nat → Nat → Outcome σ) (b : Bytes) (ext lp : Nat)
    (lps : List Nat) (numL numS : Nat) :
    Otl.LL.readLookups leaf b ext (lp :: lps) numL numS =
      (theirLookup leaf b ext lp numL numS >>= fun lc =>
        omap (fun ls => lc.1 :: ls) (Otl.LL.readLookups leaf b ext lps (numL + 1) (numS + lc.2))) := by
  unfold theirLookup
  rw [Otl.LL.readLookups]
  cases Otl.LL.rdAtN b lp 3 with
  | ok l3 =>
    rcases l3 with _ | ⟨tp, _ | ⟨flags, _ | ⟨cnt, _ | ⟨w, l⟩⟩⟩⟩ <;> try rfl
    dsimp only
    split
    · rfl
    · cases Otl.LL.rdAtN b (lp + 6) cnt with
      | ok offs =>
        dsimp only
        rw [ok_bind]
        cases (if flags / 16 % 2 == 1 then Otl.LL.rdAt b (lp + 6 + 2 * cnt) else Outcome.ok 0) with
        | ok mfs =>
          dsimp only
          rw [ok_bind]
          cases Otl.LL.srAll leaf b ext tp lp offs with
          | ok subs =>
            dsimp only
            rw [ok_bind]
            unfold theirHere Otl.LL.finishLookup Otl.LL.inrOnly
            rcases subs with _ | ⟨x, xs⟩
            · simp only [ok_bind]
              cases Otl.LL.readLookups leaf b ext lps (numL + 1) (numS + cnt) <;> rfl
            · rcases x with ⟨et, eo⟩ | v
              · dsimp only
                by_cases hq : (et == tp) = true
                · rw [if_pos hq, if_pos hq]
                  rfl
                · rw [if_neg hq, if_neg hq]
                  cases Otl.LL.resolveExt leaf lp et offs (Sum.inl (et, eo) :: xs) with
                  | ok ps =>
                      simp only [ok_bind]
                      cases Otl.LL.readLookups leaf b ext lps (numL + 1) (numS + cnt) <;> rfl
                    | err _ => rfl
                    | panic _ => rfl
              · simp only [ok_bind]
                cases Otl.LL.readLookups leaf b ext lps (numL + 1) (numS + cnt) <;> rfl
          | err _ => rfl
          | panic _ => rfl
        | err _ => rfl
        | panic _ => rfl
      | err _ => rfl
      | panic _ => rfl
  | err _ => rfl
  | panic _ => rfl

def eraseL {σ : Type} : (Lookup σ × Nat × List Nat) → (Otl.LL.ReadLookup σ × Nat) :=
  fun x => (eraseLookup x.1, x.2.1)

theorem mkSlice_lt (site : String) (n : Nat) (c : Cost) (h : n < 2 ^ 47) :
    mkSlice site n c = .ok (c.mem n) := by
  unfold mkSlice
  rw [if_neg (by omega)]

theorem readSubs_head {σ : Type} {sr : Reader σ} {tp lp n o : Nat} {os : List Nat} {j : Nat}
    {s : SubV σ} {rest : List (SubV σ)} {c : Cost}
    (h : readSubs sr tp lp n (o :: os) j = .ok (s :: rest, c)) : ∃ d, sr tp (lp + o) = .ok (s, d) := by
  unfold readSubs at h
  obtain ⟨⟨v, d⟩, hd, h⟩ := bind_eq_ok h
  obtain ⟨_, _, h⟩ := bind_eq_ok h
  obtain ⟨⟨r', c'⟩, _, h⟩ := bind_eq_ok h
  cases h
  exact ⟨d, hd⟩

theorem obind_assoc {α β γ : Type} (x : Outcome α) (f : α → Outcome β) (g : β → Outcome γ) :
    ((x >>= f) >>= g) = (x >>= fun a => f a >>= g) := by
  cases x <;> rfl

theorem readLookup_eq {σ : Type} (leaf : Nat → Nat → Outcome σ) (b : Bytes) (ext lp numL numS : Nat)
    (prev : List Nat) :
    omap eraseL (fstO (readLookup (hookReader (withCost leaf) b ext) b lp numL numS prev)) =
      theirLookup leaf b ext lp numL numS := by
  unfold readLookup theirLookup
  rw [header3]
  cases Otl.LL.rdAtN b lp 3 with
  | ok l3 =>
    rcases l3 with _ | ⟨tp, _ | ⟨flags, _ | ⟨cnt, _ | ⟨w, l⟩⟩⟩⟩ <;> try rfl
    dsimp only
    by_cases hb : numL + 1 + (numS + cnt) > 6000
    · rw [if_pos hb, if_pos hb]
      rfl
    · rw [if_neg hb, if_neg hb]
      have hs : sliceTo "lookup.go:210#subtableOffsets[:0]" prev 0 = .ok (prev.take 0) := by
        unfold sliceTo
        rw [if_pos (Nat.zero_le _)]
      rw [hs, ok_bind]
      refine bridge_bind _ _ id _ _ _ ?_ (fun so c1 hso => ?_)
      · rw [readU16s_eq]
        cases Otl.LL.rdAtN b (lp + 6) cnt <;> rfl
      · obtain ⟨hsol, _, _, _⟩ := readU16s_ok _ _ _ _ _ _ hso
        dsimp only [id]
        refine bridge_bind _ _ id _ _ _ ?_ (fun mfs c2 _ => ?_)
        · by_cases hm : flags / 16 % 2 = 1
          · rw [if_pos hm, if_pos (by simp [hm]), rd16_eq]
            cases Otl.LL.rdAt b (lp + 6 + 2 * cnt) <;> rfl
          · rw [if_neg hm, if_neg (by simp [hm])]
            rfl
        · dsimp only [id]
          rw [mkSlice_lt _ _ _ (by omega), ok_bind]
          refine bridge_bind _ _ (List.map unconv) _ _ _
            (readSubs_eq leaf b ext tp lp cnt so 0 (by omega)) (fun subs c3 hsubs => ?_)
          have hsl := readSubs_length _ tp lp cnt so 0 subs c3 hsubs
          dsimp only
          rcases subs with _ | ⟨s, rest⟩
          · rfl
          · cases s with
            | other v =>
              unfold isExtension
              rw [if_neg (by simp), idx_ok _ _ 0 (by simp), ok_bind]
              simp only [List.getElem_cons_zero, ok_bind, List.map_cons, unconv, theirHere]
              simp only [omap, fstO, eraseL, eraseLookup]
              rw [← filterMap_unconv]
              rfl
            | ext et eo =>
              have htp : tp = ext := by
                rcases so with _ | ⟨o, os⟩
                · simp at hsl
                · obtain ⟨d, hd⟩ := readSubs_head hsubs
                  exact hook_ext hd
              unfold isExtension
              rw [if_neg (by simp), idx_ok _ _ 0 (by simp), ok_bind]
              simp only [List.getElem_cons_zero, ok_bind, List.map_cons, unconv, theirHere]
              by_cases he : et = tp
              · rw [if_pos he, if_pos (by simp [he])]
                rfl
              · rw [if_neg he, if_neg (by simp [he])]
                have hr := resolveExt_eq leaf b ext et lp (by omega) so cnt (.ext et eo :: rest) 0
                  (by simp only [List.length_cons] at hsl ⊢; omega)
                  (by simp only [List.length_cons] at hsl ⊢; omega)
                rw [List.drop_zero] at hr
                simp only [List.map_cons, unconv] at hr
                rw [obind_assoc]
                refine bridge_bind _ _ (List.filterMap eraseSub) _ _ _ hr (fun subs' c4 _ => ?_)
                rfl
  | err _ => rfl
  | panic _ => rfl

/-! ## the loop and the whole function -/

theorem readLookups_eq {σ : Type} (leaf : Nat → Nat → Outcome σ) (b : Bytes) (ext n : Nat) :
    ∀ (os : List Nat) (i numL numS : Nat) (prev : List Nat), i + os.length ≤ n →
    omap (List.map eraseLookup)
        (fstO (readLookups (hookReader (withCost leaf) b ext) b 0 n os i numL numS prev)) =
      Otl.LL.readLookups leaf b ext os numL numS
  | [], _, _, _, _, _ => by
    unfold readLookups Otl.LL.readLookups
    rfl
  | o :: os, i, numL, numS, prev, h => by
    simp only [List.length_cons] at h
    unfold readLookups
    rw [their_unfold, Nat.zero_add]
    refine bridge_bind _ _ eraseL _ _ _ (readLookup_eq leaf b ext o numL numS prev) (fun x d _ => ?_)
    obtain ⟨l, cnt, so⟩ := x
    dsimp only [eraseL]
    rw [store_ok _ _ _ (by omega), ok_bind,
      ← readLookups_eq leaf b ext n os (i + 1) (numL + 1) (numS + cnt) so (by omega)]
    cases readLookups (hookReader (withCost leaf) b ext) b 0 n os (i + 1) (numL + 1) (numS + cnt) so with
    | ok rc => rfl
    | err _ => rfl
    | panic _ => rfl

/-- erase the cost and the unresolved-extension alternative (which the hook's reader never leaves
in a lookup) -/
def erase {σ : Type} (x : Outcome (List (Lookup σ) × Cost)) : Outcome (List (Otl.LL.ReadLookup σ)) :=
  omap (List.map eraseLookup) (fstO x)

/-- **bridging lemma**: erasing panic sites and costs from the checked model of `readLookupList`
(with the verification hook's subtable reader over any leaf reader) gives the value-level model
`Otl.LL.readLLWith` of C08 (Model/OtlLookupList.lean) on EVERY input -/
theorem readLookupList_erase {σ : Type} (leaf : Nat → Nat → Outcome σ) (b : Bytes) (ext : Nat) :
    erase (readLookupList (hookReader (withCost leaf) b ext) b 0) = Otl.LL.readLLWith leaf b ext := by
  unfold readLookupList Otl.LL.readLLWith erase
  cases h0 : Otl.LL.rdAt b 0 with
  | ok n =>
    have hr : rd16 "parser.go:145#ReadUint16" b 0 = .ok n := by rw [rd16_eq, h0]
    have hn := (rd16_ok hr).1
    rw [hr, ok_bind, mkSlice_lt _ _ _ (by omega), ok_bind, Nat.zero_add]
    dsimp only
    cases h2 : Otl.LL.rdAtN b 2 n with
    | ok lps =>
      have hu : readU16s "parser.go:151#ReadUint16" b n 2 = .ok (lps, ⟨n, 0⟩) := by
        rw [readU16s_eq, h2]
        rfl
      obtain ⟨hl, _, _, _⟩ := readU16s_ok _ _ _ _ _ _ hu
      rw [hu, ok_bind]
      dsimp only
      rw [mkSlice_lt _ _ _ (by omega), ok_bind,
        ← readLookups_eq leaf b ext lps.length lps 0 0 0 [] (by omega)]
      cases readLookups (hookReader (withCost leaf) b ext) b 0 lps.length lps 0 0 0 [] with
      | ok rc => rfl
      | err _ => rfl
      | panic _ => rfl
    | err e =>
      rw [readU16s_eq, h2]
      rfl
    | panic s =>
      rw [readU16s_eq, h2]
      rfl
  | err e =>
    rw [rd16_eq, h0]
    rfl
  | panic s =>
    rw [rd16_eq, h0]
    rfl

/-- the tied instance: the hook's own leaf (`VerifRef{pos, type}`) against `Otl.LL.readLL`
(leaf = the position), i.e. the V stream `otl.ll.read` of C08 and `tmlookuplist.list` at pos 0 agree -/
theorem readLookupList_erase_hook (b : Bytes) (ext : Nat) :
    erase (readLookupList (hookReader (withCost fun _ p => .ok p) b ext) b 0) = Otl.LL.readLL b ext :=
  readLookupList_erase _ b ext

end SfntV.Total.LookupList
