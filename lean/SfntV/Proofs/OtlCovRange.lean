/-
The post-condition of the subtable readers that the shaping engine relies on: in every subtable a
reader returns, every coverage index is an index of the array it indexes (the readers prune the
coverage table or cut the array when the count in the bytes disagrees with the coverage table).
-/
import SfntV.Model.OtlGsub
import SfntV.Model.OtlGposMark
import SfntV.Model.OtlContext

namespace SfntV.Otl
open SfntV

/-- every coverage index of `cov` is below `n` -/
def InRange (cov : List (Nat × Nat)) (n : Nat) : Prop := ∀ p ∈ cov, p.2 < n

namespace Cov

theorem read1_idx : ∀ (n : Nat) (rest : List Nat) (i : Nat) (prev : Int) (r : List (Nat × Nat)),
    read1 n rest i prev = .ok r → r.map (·.2) = List.range' i r.length
  | 0, _, _, _, r, h => by simp only [read1, Outcome.ok.injEq] at h; subst h; rfl
  | n + 1, [], _, _, _, h => by simp [read1] at h
  | n + 1, g :: rest, i, prev, r, h => by
    simp only [read1] at h
    split at h
    · simp at h
    · cases h2 : read1 n rest (i + 1) g with
      | ok r' =>
        rw [h2] at h
        simp only [Outcome.ok.injEq] at h
        subst h
        simp [read1_idx n rest (i + 1) g r' h2, List.range'_succ]
      | err e => rw [h2] at h; simp at h
      | panic s => rw [h2] at h; simp at h

theorem zipIdx_snd (l : List Nat) (k : Nat) : (l.zipIdx k).map (·.2) = List.range' k l.length := by
  induction l generalizing k with
  | nil => rfl
  | cons x l ih => simp [List.zipIdx_cons, ih, List.range'_succ]

theorem read2_idx : ∀ (n : Nat) (rest : List Nat) (pos : Nat) (prev : Int) (r : List (Nat × Nat)),
    read2 n rest pos prev = .ok r → r.map (·.2) = List.range' pos r.length
  | 0, _, _, _, r, h => by simp only [read2, Outcome.ok.injEq] at h; subst h; rfl
  | n + 1, s :: e :: sci :: rest, pos, prev, r, h => by
    simp only [read2] at h
    split at h
    · simp at h
    · cases h2 : read2 n rest (pos + (e + 1 - s)) e with
      | ok r' =>
        rw [h2] at h
        simp only [Outcome.ok.injEq] at h
        subst h
        have ih := read2_idx n rest _ e r' h2
        rw [List.map_append, zipIdx_snd, ih, List.length_append, List.length_zipIdx, List.length_range']
        rw [← List.range'_append_1]
      | err e' => rw [h2] at h; simp at h
      | panic s' => rw [h2] at h; simp at h
  | n + 1, [], _, _, _, h => by simp [read2] at h
  | n + 1, [_], _, _, _, h => by simp [read2] at h
  | n + 1, [_, _], _, _, _, h => by simp [read2] at h

/-- **`coverage.Read` returns the indices 0 .. n-1** -/
theorem read_idx (b : Bytes) (es : List (Nat × Nat)) (h : read b = .ok es) : InRange es es.length := by
  have hmap : es.map (·.2) = List.range' 0 es.length := by
    unfold read at h
    generalize bytesToWords b = ws at h
    match ws, h with
    | 1 :: n :: rest, h => exact read1_idx n rest 0 (-1) es h
    | 2 :: n :: rest, h => exact read2_idx n rest 0 (-1) es h
    | [1], h => simp [readW] at h
    | [2], h => simp [readW] at h
    | [], h => simp [readW] at h
    | 0 :: _, h => simp [readW] at h
    | (_ + 3) :: _, h => simp [readW] at h
  intro p hp
  have : p.2 ∈ es.map (·.2) := List.mem_map_of_mem hp
  rw [hmap, List.mem_range'_1] at this
  omega

end Cov

/-! ### the pruning steps -/

theorem Gsub.prune_inRange {α} (cov : List (Nat × Nat)) (xs : List α) (h : InRange cov cov.length) :
    InRange (Gsub.prune cov xs).1 (Gsub.prune cov xs).2.length := by
  unfold Gsub.prune
  split
  · intro p hp
    simp only [List.mem_filter, decide_eq_true_eq] at hp
    exact hp.2
  · rename_i hle
    intro p hp
    simp only [List.length_take]
    have := h p hp
    omega

theorem Gpos.prune_inRange {α} (cov : List (Nat × Nat)) (xs : List α) (h : InRange cov cov.length) :
    InRange (Gpos.prune cov xs).1 (Gpos.prune cov xs).2.length := by
  unfold Gpos.prune
  split
  · intro p hp
    simp only [List.length_take]
    have := h p hp
    omega
  · split
    · intro p hp
      simp only [List.mem_filter, decide_eq_true_eq] at hp
      exact hp.2
    · intro p hp
      have := h p hp
      simp only
      omega

theorem GposMark.pruneA_inRange {α} (cov : List (Nat × Nat)) (xs : List α) (h : InRange cov cov.length) :
    InRange (GposMark.pruneA cov xs).1 (GposMark.pruneA cov xs).2.length := by
  unfold GposMark.pruneA
  split
  · intro p hp
    simp only [List.mem_filter, decide_eq_true_eq] at hp
    exact hp.2
  · intro p hp
    simp only [List.length_take]
    have := h p hp
    omega

theorem Ctx.pruneC_inRange {α} (cov : List (Nat × Nat)) (xs : List α) (h : InRange cov cov.length) :
    InRange (Ctx.pruneC cov xs).1 (Ctx.pruneC cov xs).2.length := by
  unfold Ctx.pruneC
  split
  · intro p hp
    simp only [List.mem_filter, decide_eq_true_eq] at hp
    exact hp.2
  · intro p hp
    simp only [List.length_take]
    have := h p hp
    omega

/-! ### the readers -/

namespace Gsub

/-- GSUB 1.2 -/
theorem read12_inRange (b : Bytes) (cov : List (Nat × Nat)) (subs : List Nat)
    (h : read12 b = .ok (cov, subs)) : InRange cov subs.length := by
  unfold read12 at h
  split at h
  · split at h
    · simp at h
    · cases hc : Cov.read (b.drop _) with
      | ok c =>
        rw [hc] at h
        simp only [Outcome.ok.injEq] at h
        have hp := fun (xs : List Nat) => prune_inRange c xs (Cov.read_idx _ c hc)
        rename_i n rest _ _
        have := hp (List.take n rest)
        rw [h] at this
        exact this
      | err e => rw [hc] at h; simp at h
      | panic s => rw [hc] at h; simp at h
  · simp at h

theorem readSeqs_length (b : Bytes) : ∀ (offs : List Nat) (r : List (List Nat)),
    readSeqs b offs = .ok r → r.length = offs.length
  | [], r, h => by simp only [readSeqs, Outcome.ok.injEq] at h; subst h; rfl
  | o :: os, r, h => by
    simp only [readSeqs] at h
    cases h1 : readCounted b o with
    | ok x =>
      rw [h1] at h
      cases h2 : readSeqs b os with
      | ok rs => rw [h2] at h; simp only [Outcome.ok.injEq] at h; subst h; simp [readSeqs_length b os rs h2]
      | err e => rw [h2] at h; simp at h
      | panic s => rw [h2] at h; simp at h
    | err e => rw [h1] at h; simp at h
    | panic s => rw [h1] at h; simp at h

/-- GSUB 2.1 / 3.1 -/
theorem readSeq_inRange (b : Bytes) (cov : List (Nat × Nat)) (seqs : List (List Nat))
    (h : readSeq b = .ok (cov, seqs)) : InRange cov seqs.length := by
  unfold readSeq at h
  split at h
  · split at h
    · simp at h
    · cases hc : Cov.read (b.drop _) with
      | ok c =>
        rw [hc] at h
        simp only at h
        have hp := fun (xs : List Nat) => prune_inRange c xs (Cov.read_idx _ c hc)
        cases h2 : readSeqs b (prune c (List.take _ _)).2 with
        | ok ss =>
          rw [h2] at h
          simp only [Outcome.ok.injEq, Prod.mk.injEq] at h
          obtain ⟨rfl, rfl⟩ := h
          rw [readSeqs_length b _ _ h2]
          exact hp _
        | err e => rw [h2] at h; simp at h
        | panic s => rw [h2] at h; simp at h
      | err e => rw [hc] at h; simp at h
      | panic s => rw [hc] at h; simp at h
  · simp at h

theorem readLigSets_length (b : Bytes) : ∀ (offs : List Nat) (r : List (List Lig)),
    readLigSets b offs = .ok r → r.length = offs.length
  | [], r, h => by simp only [readLigSets, Outcome.ok.injEq] at h; subst h; rfl
  | o :: os, r, h => by
    simp only [readLigSets] at h
    split at h
    · split at h
      · simp at h
      · cases h1 : readLigs b o _ with
        | ok x =>
          rw [h1] at h
          cases h2 : readLigSets b os with
          | ok rs => rw [h2] at h; simp only [Outcome.ok.injEq] at h; subst h; simp [readLigSets_length b os rs h2]
          | err e => rw [h2] at h; simp at h
          | panic s => rw [h2] at h; simp at h
        | err e => rw [h1] at h; simp at h
        | panic s => rw [h1] at h; simp at h
    · simp at h

/-- GSUB 4.1 -/
theorem read41_inRange (b : Bytes) (cov : List (Nat × Nat)) (repl : List (List Lig))
    (h : read41 b = .ok (cov, repl)) : InRange cov repl.length := by
  unfold read41 at h
  split at h
  · split at h
    · simp at h
    · cases hc : Cov.read (b.drop _) with
      | ok c =>
        rw [hc] at h
        simp only at h
        have hp := fun (xs : List Nat) => prune_inRange c xs (Cov.read_idx _ c hc)
        cases h2 : readLigSets b (prune c (List.take _ _)).2 with
        | ok ss =>
          rw [h2] at h
          simp only at h
          split at h
          · simp at h
          · simp only [Outcome.ok.injEq, Prod.mk.injEq] at h
            obtain ⟨rfl, rfl⟩ := h
            rw [readLigSets_length b _ _ h2]
            exact hp _
        | err e => rw [h2] at h; simp at h
        | panic s => rw [h2] at h; simp at h
      | err e => rw [hc] at h; simp at h
      | panic s => rw [hc] at h; simp at h
  · simp at h

end Gsub

/-- GPOS 1.2 -/
theorem Gpos.read12_inRange (b : Bytes) (cov : List (Nat × Nat)) (vrs : List Gpos.VR)
    (h : Gpos.read12 b = .ok (cov, vrs)) : InRange cov vrs.length := by
  unfold Gpos.read12 at h
  split at h
  · cases h1 : Gpos.vrReadN _ _ _ with
    | ok x =>
      obtain ⟨v, r⟩ := x
      rw [h1] at h
      simp only at h
      cases hc : Cov.read (b.drop _) with
      | ok c =>
        rw [hc] at h
        simp only [Outcome.ok.injEq] at h
        have := Gpos.prune_inRange c v (Cov.read_idx _ c hc)
        rw [h] at this
        exact this
      | err e => rw [hc] at h; simp at h
      | panic s => rw [hc] at h; simp at h
    | err e => rw [h1] at h; simp at h
    | panic s => rw [h1] at h; simp at h
  · simp at h

namespace GposMark

/-- GPOS 3.1 -/
theorem read31_inRange (b : Bytes) (cov : List (Nat × Nat)) (recs : List EntryExit)
    (h : read31 b = .ok (cov, recs)) : InRange cov recs.length := by
  unfold read31 at h
  split at h
  · split at h
    · simp at h
    · cases h1 : readEE b _ with
      | ok rs =>
        rw [h1] at h
        simp only at h
        cases hc : Cov.read (b.drop _) with
        | ok c =>
          rw [hc] at h
          simp only [Outcome.ok.injEq] at h
          have := Gpos.prune_inRange c rs (Cov.read_idx _ c hc)
          rw [h] at this
          exact this
        | err e => rw [hc] at h; simp at h
        | panic s => rw [hc] at h; simp at h
      | err e => rw [h1] at h; simp at h
      | panic s => rw [h1] at h; simp at h
  · simp at h

theorem readRows_length (b : Bytes) (pos cc : Nat) : ∀ (n : Nat) (offs : List Nat) (r : List (List Anchor)),
    readRows b pos cc n offs = .ok r → r.length = n
  | 0, _, r, h => by simp only [readRows, Outcome.ok.injEq] at h; subst h; rfl
  | n + 1, offs, r, h => by
    simp only [readRows] at h
    cases h1 : readRow b pos (offs.take cc) with
    | ok row =>
      rw [h1] at h
      cases h2 : readRows b pos cc n (offs.drop cc) with
      | ok rs => rw [h2] at h; simp only [Outcome.ok.injEq] at h; subst h; simp [readRows_length b pos cc n _ rs h2]
      | err e => rw [h2] at h; simp at h
      | panic s => rw [h2] at h; simp at h
    | err e => rw [h1] at h; simp at h
    | panic s => rw [h1] at h; simp at h

/-- GPOS 4.1 / 6.1: the mark coverage against the mark array, the base (mark2) coverage against the
base (mark2) array -/
theorem read41_inRange (b : Bytes) (r : MarkBase) (h : read41 b = .ok r) :
    InRange r.mcov r.marks.length ∧ InRange r.bcov r.bases.length := by
  unfold read41 at h
  split at h
  · cases hc1 : Cov.read (b.drop _) with
    | ok mc =>
      rw [hc1] at h
      simp only at h
      cases hc2 : Cov.read (b.drop _) with
      | ok bc =>
        rw [hc2] at h
        simp only at h
        cases hm : readMarkArray b _ mc.length with
        | ok marks =>
          rw [hm] at h
          simp only at h
          split at h
          · rename_i cnt ws hw
            have hb := Cov.read_idx _ bc hc2
            have hmk := pruneA_inRange mc marks (Cov.read_idx _ mc hc1)
            by_cases hgt : cnt > bc.length
            · simp only [hgt, if_true] at h
              split at h
              · simp at h
              · split at h
                · simp at h
                · cases hr : readRows b _ _ bc.length _ with
                  | ok rows =>
                    rw [hr] at h
                    simp only [Outcome.ok.injEq] at h
                    subst h
                    refine ⟨hmk, ?_⟩
                    simp only
                    rw [readRows_length b _ _ _ _ rows hr]
                    exact hb
                  | err e => rw [hr] at h; simp at h
                  | panic s => rw [hr] at h; simp at h
            · simp only [hgt, if_false] at h
              split at h
              · simp at h
              · split at h
                · simp at h
                · cases hr : readRows b _ _ cnt _ with
                  | ok rows =>
                    rw [hr] at h
                    simp only [Outcome.ok.injEq] at h
                    subst h
                    refine ⟨hmk, ?_⟩
                    simp only
                    rw [readRows_length b _ _ _ _ rows hr]
                    intro p hp
                    simp only [List.mem_filter, decide_eq_true_eq] at hp
                    exact hp.2
                  | err e => rw [hr] at h; simp at h
                  | panic s => rw [hr] at h; simp at h
          · simp at h
        | err e => rw [hm] at h; simp at h
        | panic s => rw [hm] at h; simp at h
      | err e => rw [hc2] at h; simp at h
      | panic s => rw [hc2] at h; simp at h
    | err e => rw [hc1] at h; simp at h
    | panic s => rw [hc1] at h; simp at h
  · simp at h

end GposMark

/-- GSUB 8.1: the input coverage against the substitutes -/
theorem Gsub.read81_inRange (b : Bytes) (r : Gsub.Rev81) (h : Gsub.read81 b = .ok r) :
    InRange r.input r.subs.length := by
  unfold Gsub.read81 at h
  split at h
  · split at h
    · simp at h
    · split at h
      · split at h
        · simp at h
        · split at h
          · split at h
            · simp at h
            · cases hc : Cov.read (b.drop _) with
              | ok c =>
                rw [hc] at h
                simp only at h
                have hp := fun (xs : List Nat) => Gsub.prune_inRange c xs (Cov.read_idx _ c hc)
                cases h1 : Gsub.readCovs b _ with
                | ok bk =>
                  rw [h1] at h
                  simp only at h
                  cases h2 : Gsub.readCovs b _ with
                  | ok lk =>
                    rw [h2] at h
                    simp only [Outcome.ok.injEq] at h
                    subst h
                    exact hp _
                  | err e => rw [h2] at h; simp at h
                  | panic s => rw [h2] at h; simp at h
                | err e => rw [h1] at h; simp at h
                | panic s => rw [h1] at h; simp at h
              | err e => rw [hc] at h; simp at h
              | panic s => rw [hc] at h; simp at h
          · simp at h
      · simp at h
  · simp at h

namespace Ctx

theorem readSets_length (rd : Bytes → Nat → Outcome Rule) (b : Bytes) : ∀ (offs : List Nat)
    (r : List (Option (List Rule))), readSets rd b offs = .ok r → r.length = offs.length
  | [], r, h => by simp only [readSets, Outcome.ok.injEq] at h; subst h; rfl
  | o :: os, r, h => by
    simp only [readSets] at h
    split at h
    · cases h2 : readSets rd b os with
      | ok rs => rw [h2] at h; simp only [Outcome.ok.injEq] at h; subst h; simp [readSets_length rd b os rs h2]
      | err e => rw [h2] at h; simp at h
      | panic s => rw [h2] at h; simp at h
    · simp at h
    · simp at h

theorem readSetsC1_length (b : Bytes) : ∀ (offs : List Nat) (total : Nat)
    (r : List (Option (List Rule))), readSetsC1 b offs total = .ok r → r.length = offs.length
  | [], _, r, h => by simp only [readSetsC1, Outcome.ok.injEq] at h; subst h; rfl
  | o :: os, total, r, h => by
    simp only [readSetsC1] at h
    split at h
    · cases h2 : readSetsC1 b os total with
      | ok rs => rw [h2] at h; simp only [Outcome.ok.injEq] at h; subst h; simp [readSetsC1_length b os total rs h2]
      | err e => rw [h2] at h; simp at h
      | panic s => rw [h2] at h; simp at h
    · split at h
      · split at h
        · simp at h
        · split at h
          · rename_i rules size _
            cases h2 : readSetsC1 b os (total + size) with
            | ok rs => rw [h2] at h; simp only [Outcome.ok.injEq] at h; subst h; simp [readSetsC1_length b os _ rs h2]
            | err e => rw [h2] at h; simp at h
            | panic s => rw [h2] at h; simp at h
          · simp at h
          · simp at h
      · simp at h
      · simp at h

/-- SeqContext1 -/
theorem read1_inRange (b : Bytes) (ch : Bool) (cov : List (Nat × Nat)) (sets : List (Option (List Rule)))
    (h : read1 b = .ok (.c1 ch cov sets)) : InRange cov sets.length := by
  unfold read1 at h
  split at h
  · split at h
    · rename_i offs _ _
      cases hc : Cov.read (b.drop _) with
      | ok c =>
        rw [hc] at h
        simp only at h
        have hp := fun (xs : List Nat) => pruneC_inRange c xs (Cov.read_idx _ c hc)
        cases h2 : readSets readRule b (pruneC c offs).2 with
        | ok ss =>
          rw [h2] at h
          simp only [Outcome.ok.injEq, Sub.c1.injEq] at h
          obtain ⟨_, rfl, rfl⟩ := h
          rw [readSets_length _ b _ _ h2]
          exact hp _
        | err e => rw [h2] at h; simp at h
        | panic s => rw [h2] at h; simp at h
      | err e => rw [hc] at h; simp at h
      | panic s => rw [hc] at h; simp at h
    · simp at h
    · simp at h
  · simp at h

/-- ChainedSeqContext1 -/
theorem readC1_inRange (b : Bytes) (ch : Bool) (cov : List (Nat × Nat)) (sets : List (Option (List Rule)))
    (h : readC1 b = .ok (.c1 ch cov sets)) : InRange cov sets.length := by
  unfold readC1 at h
  split at h
  · split at h
    · rename_i offs _ _
      cases hc : Cov.read (b.drop _) with
      | ok c =>
        rw [hc] at h
        simp only at h
        have hp := fun (xs : List Nat) => pruneC_inRange c xs (Cov.read_idx _ c hc)
        cases h2 : readSetsC1 b (pruneC c offs).2 _ with
        | ok ss =>
          rw [h2] at h
          simp only [Outcome.ok.injEq, Sub.c1.injEq] at h
          obtain ⟨_, rfl, rfl⟩ := h
          rw [readSetsC1_length b _ _ _ h2]
          exact hp _
        | err e => rw [h2] at h; simp at h
        | panic s => rw [h2] at h; simp at h
      | err e => rw [hc] at h; simp at h
      | panic s => rw [hc] at h; simp at h
    · simp at h
    · simp at h
  · simp at h

end Ctx

end SfntV.Otl
