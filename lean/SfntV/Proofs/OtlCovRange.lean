/-
The post-condition of the subtable readers that the shaping engine relies on: in every subtable a
reader returns, every coverage index is an index of the array it indexes (the readers prune the
coverage table or cut the array when the count in the bytes disagrees with the coverage table).
-/
import SfntV.Model.OtlGsub
import SfntV.Model.OtlGposMark
import SfntV.Model.OtlContext

namespace SfntV.Otl
open SfntV

/-- every coverage index of `cov` is below `n` -/
def InRange (cov : List (Nat × Nat)) (n : Nat) : Prop := ∀ p ∈ cov, p.2 < n

namespace Cov

theorem read1_idx : ∀ (n : Nat) (rest : List Nat) (i : Nat) (prev : Int) (r : List (Nat × Nat)),
    read1 n rest i prev = .ok r → r.map (·.2) = List.range' i r.length
  | 0, _, _, _, r, h => by simp only [read1, Outcome.ok.injEq] at h; subst h; rfl
  | n + 1, [], _, _, _, h => by simp [read1] at h
  | n + 1, g :: rest, i, prev, r, h => by
    simp only [read1] at h
    split at h
    · simp at h
    · cases h2 : read1 n rest (i + 1) g with
      | ok r' =>
        rw [h2] at h
        simp only [Outcome.ok.injEq] at h
        subst h
        simp [read1_idx n rest (i + 1) g r' h2, List.range'_succ]
      | err e => rw [h2] at h; simp at h
      | panic s => rw [h2] at h; simp at h

theorem zipIdx_snd (l : List Nat) (k : Nat) : (l.zipIdx k).map (·.2) = List.range' k l.length := by
  induction l generalizing k with
  | nil => rfl
  | cons x l ih => simp [List.zipIdx_cons, ih, List.range'_succ]

theorem read2_idx : ∀ (n : Nat) (rest : List Nat) (pos : Nat) (prev : Int) (r : List (Nat × Nat)),
    read2 n rest pos prev = .ok r → r.map (·.2) = List.range' pos r.length
  | 0, _, _, _, r, h => by simp only [read2, Outcome.ok.injEq] at h; subst h; rfl
  | n + 1, s :: e :: sci :: rest, pos, prev, r, h => by
    simp only [read2] at h
    split at h
    · simp at h
    · cases h2 : read2 n rest (pos + (e + 1 - s)) e with
      | ok r' =>
        rw [h2] at h
        simp only [Outcome.ok.injEq] at h
        subst h
        have ih := read2_idx n rest _ e r' h2
        rw [List.map_append, zipIdx_snd, ih, List.length_append, List.length_zipIdx, List.length_range']
        rw [← List.range'_append_1]
      | err e' => rw [h2] at h; simp at h
      | panic s' => rw [h2] at h; simp at h
  | n + 1, [], _, _, _, h => by simp [read2] at h
  | n + 1, [_], _, _, _, h => by simp [read2] at h
  | n + 1, [_, _], _, _, _, h => by simp [read2] at h

/-- **`coverage.Read` returns the indices 0 .. n-1** -/
theorem read_idx (b : Bytes) (es : List (Nat × Nat)) (h : read b = .ok es) : InRange es es.length := by
  have hmap : es.map (·.2) = List.range' 0 es.length := by
    unfold read at h
    generalize bytesToWords b = ws at h
    match ws, h with
    | 1 :: n :: rest, h => exact read1_idx n rest 0 (-1) es h
    | 2 :: n :: rest, h => exact read2_idx n rest 0 (-1) es h
    | [1], h => simp [readW] at h
    | [2], h => simp [readW] at h
    | [], h => simp [readW] at h
    | 0 :: _, h => simp [readW] at h
    | (_ + 3) :: _, h => simp [readW] at h
  intro p hp
  have : p.2 ∈ es.map (·.2) := List.mem_map_of_mem hp
  rw [hmap, List.mem_range'_1] at this
  omega

end Cov

/-! ### the pruning steps -/

theorem Gsub.prune_inRange {α} (cov : List (Nat × Nat)) (xs : List α) (h : InRange cov cov.length) :
    InRange (Gsub.prune cov xs).1 (Gsub.prune cov xs).2.length := by
  unfold Gsub.prune
  split
  · intro p hp
    simp only [List.mem_filter, decide_eq_true_eq] at hp
    exact hp.2
  · rename_i hle
    intro p hp
    simp only [List.length_take]
    have := h p hp
    omega

theorem Gpos.prune_inRange {α} (cov : List (Nat × Nat)) (xs : List α) (h : InRange cov cov.length) :
    InRange (Gpos.prune cov xs).1 (Gpos.prune cov xs).2.length := by
  unfold Gpos.prune
  split
  · intro p hp
    simp only [List.length_take]
    have := h p hp
    omega
  · split
    · intro p hp
      simp only [List.mem_filter, decide_eq_true_eq] at hp
      exact hp.2
    · intro p hp
      have := h p hp
      simp only
      omega

theorem GposMark.pruneA_inRange {α} (cov : List (Nat × Nat)) (xs : List α) (h : InRange cov cov.length) :
    InRange (GposMark.pruneA cov xs).1 (GposMark.pruneA cov xs).2.length := by
  unfold GposMark.pruneA
  split
  · intro p hp
    simp only [List.mem_filter, decide_eq_true_eq] at hp
    exact hp.2
  · intro p hp
    simp only [List.length_take]
    have := h p hp
    omega

theorem Ctx.pruneC_inRange {α} (cov : List (Nat × Nat)) (xs : List α) (h : InRange cov cov.length) :
    InRange (Ctx.pruneC cov xs).1 (Ctx.pruneC cov xs).2.length := by
  unfold Ctx.pruneC
  split
  · intro p hp
    simp only [List.mem_filter, decide_eq_true_eq] at hp
    exact hp.2
  · intro p hp
    simp only [List.length_take]
    have := h p hp
    omega

end SfntV.Otl
