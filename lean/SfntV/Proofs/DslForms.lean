/-
C19 — lookup forms: coverage/association-list lemmas, the GSUB 2 subtable fragment, the
generic lookup body, the whole-text parse lemma and the generic round-trip theorem
`roundtrip_gsub_generic` that every GSUB form instantiates.
-/
import SfntV.Proofs.DslTop
set_option linter.unusedSimpArgs false
set_option linter.unusedVariables false
namespace SfntV.Dsl

/-! ### coverage lists and association lists -/

def Asc (l : List Nat) : Prop := l.Pairwise (· < ·)

theorem insertAsc_lt (x : Nat) (l : List Nat) (h : ∀ y ∈ l, x < y) : insertAsc x l = x :: l := by
  cases l with
  | nil => rfl
  | cons y ys => simp [insertAsc, h y (by simp)]

theorem sortUnique_asc (l : List Nat) (h : Asc l) : sortUnique l = l := by
  induction l with
  | nil => rfl
  | cons x l ih =>
    have h' := List.pairwise_cons.mp h
    show insertAsc x (sortUnique l) = x :: l
    rw [ih h'.2]
    exact insertAsc_lt x l h'.1

theorem aget_zip {β : Type} (d : β) : ∀ (cov : List Nat) (vals : List β), Asc cov → cov.length = vals.length →
    cov.map (fun g => (aget (cov.zip vals) g).getD d) = vals := by
  intro cov
  induction cov with
  | nil => intro vals _ h; cases vals <;> simp_all
  | cons g cov ih =>
    intro vals hasc hlen
    cases vals with
    | nil => simp at hlen
    | cons v vals =>
      have h' := List.pairwise_cons.mp hasc
      simp only [List.zip_cons_cons, List.map_cons]
      congr 1
      · simp [aget]
      · have e : ∀ x ∈ cov, (aget ((g, v) :: cov.zip vals) x).getD d = (aget (cov.zip vals) x).getD d := by
          intro x hx
          have : g ≠ x := by have := h'.1 x hx; omega
          simp [aget, List.find?_cons, this]
        rw [List.map_congr_left e]
        exact ih vals h'.2 (by simpa using hlen)

theorem keys_zip {β : Type} (cov : List Nat) (vals : List β) (hasc : Asc cov) (hlen : cov.length = vals.length) :
    keysAsc (cov.zip vals) = cov := by
  unfold keysAsc
  rw [List.map_fst_zip (by omega)]
  exact sortUnique_asc cov hasc

theorem aget_none_of_asc {β : Type} (pre post : List (Nat × β)) (i : Nat × β)
    (h : Asc ((pre ++ i :: post).map (·.1))) : aget pre i.1 = none := by
  unfold aget
  cases hf : pre.find? (·.1 == i.1) with
  | none => rfl
  | some p =>
    exfalso
    have hm := List.mem_of_find?_eq_some hf
    have he := List.find?_some hf
    simp at he
    simp only [Asc, List.map_append, List.map_cons, List.pairwise_append] at h
    have := h.2.2 p.1 (List.mem_map.mpr ⟨p, hm, rfl⟩) i.1 (by simp)
    omega

theorem foldl_snoc {β : Type} (l : List β) : ∀ acc : List β, l.foldl (fun m p => m ++ [p]) acc = acc ++ l := by
  induction l with
  | nil => intro acc; simp
  | cons x l ih => intro acc; simp [ih]

/-! ### fuel: pieces of a part have no more items than the whole -/

theorem tokCount_flatMap_mem {ι : Type} (g : ι → List Piece) (l : List ι) (x : ι) (h : x ∈ l) :
    tokCount (g x) ≤ tokCount (l.flatMap g) := by
  induction l with
  | nil => cases h
  | cons y l ih =>
    simp only [List.flatMap_cons, tokCount_append]
    simp at h
    rcases h with rfl | h
    · omega
    · have := ih h; omega

theorem length_le_tokCount_flatMap {ι : Type} (g : ι → List Piece) (l : List ι)
    (h : ∀ x ∈ l, 1 ≤ tokCount (g x)) : l.length ≤ tokCount (l.flatMap g) := by
  induction l with
  | nil => simp
  | cons y l ih =>
    simp only [List.flatMap_cons, tokCount_append, List.length_cons]
    have := h y (by simp)
    have := ih (fun x hx => h x (by simp [hx]))
    omega

/-! ### GSUB 2 -/

def SubStop (t : Tok) : Prop := t.typ = tOr ∨ t.typ = tEOL ∨ t.typ = tEOF

theorem subStop_noGlyph (f : Font) (t : Tok) (h : SubStop t) : glyphItem f t = false := by
  rcases h with h | h | h <;> simp [glyphItem, h, tOr, tEOL, tEOF, tIdentifier, tString, tInteger, tHyphen]

theorem comma_noGlyph (f : Font) (t : Tok) (h : t.typ = tComma) : glyphItem f t = false := by
  simp [glyphItem, h, tComma, tIdentifier, tString, tInteger, tHyphen]

theorem arrow_noGlyph (f : Font) (t : Tok) (h : t.typ = tArrow) : glyphItem f t = false := by
  simp [glyphItem, h, tArrow, tIdentifier, tString, tInteger, tHyphen]

theorem safe_comma : Safe (some 44) := safe_ascii 44 (by decide) (by decide) (by decide)

structure Gsub2Ok (f : Font) (cov : List Nat) (repl : List (List Nat)) : Prop where
  ne : cov ≠ []
  asc : Asc cov
  len : cov.length = repl.length
  covIn : ∀ g ∈ cov, g < f.numGlyphs
  replOk : ∀ r ∈ repl, r ≠ [] ∧ ∀ g ∈ r, g < f.numGlyphs

theorem writeGlyph_head (f : Font) (hf : FontOk f) (g : Nat) (hg : g < f.numGlyphs) (rest : List Piece) (line : Nat) :
    ∃ t, (mkToks line ((newExplainer f).writeGlyph g :: rest)).head? = some t ∧ [tEOL].contains t.typ = false ∧
      1 ≤ tokCount ((newExplainer f).writeGlyph g :: rest) := by
  obtain ⟨⟨typ, val, hp, htok, _⟩, _⟩ := writeGlyph_piece f hf g hg
  rw [hp]
  refine ⟨{ typ := typ, val := val, line := line }, by simp [mkToks], ?_, by simp [tokCount]⟩
  have := glyphTok_not_eol f _ _ (htok line)
  simpa using this

theorem writeGlyph_isTok (e : Explainer) (g : Nat) :
    ∃ typ val, e.writeGlyph g = .tok typ val ∧ typ ≠ tEOL := by
  have hn : ∃ typ val, e.nameP g = .tok typ val ∧ typ ≠ tEOL := by
    unfold Explainer.nameP
    split
    · exact ⟨_, _, rfl, by decide⟩
    · exact ⟨_, _, rfl, by decide⟩
  unfold Explainer.writeGlyph
  split
  · split
    · exact hn
    · exact ⟨_, _, rfl, by decide⟩
  · exact hn

theorem frag_gsub2 (f : Font) (hf : FontOk f) (first : Bool) (cov : List Nat) (repl : List (List Nat))
    (h : Gsub2Ok f cov repl) (fuel : Nat)
    (hfuel : tokCount ((newExplainer f).subtable first (.gsub2_1 cov repl)) < fuel) :
    Frag (gsub2Sub f fuel) ((newExplainer f).subtable first (.gsub2_1 cov repl)) (.gsub2_1 cov repl)
      SubStop Safe := by
  obtain ⟨hne, hasc, hlen, hcov, hrepl⟩ := h
  let pc : Nat × List Nat → List Piece := fun p =>
    [(newExplainer f).writeGlyph p.1] ++ arrow ++ (newExplainer f).writeGlyphList p.2
  cases hz : cov.zip repl with
  | nil =>
    cases cov with
    | nil => exact absurd rfl hne
    | cons g cov' => cases repl with
      | nil => simp at hlen
      | cons r repl' => simp at hz
  | cons p0 rest =>
    have hmem : ∀ p ∈ p0 :: rest, p.1 < f.numGlyphs ∧ p.2 ≠ [] ∧ ∀ g ∈ p.2, g < f.numGlyphs := by
      intro p hp
      rw [← hz] at hp
      have := List.of_mem_zip hp
      exact ⟨hcov _ this.1, hrepl _ this.2⟩
    have hpieces : (newExplainer f).subtable first (.gsub2_1 cov repl) =
        .ws [a1 32] :: (pc p0 ++ rest.flatMap (fun y => [commaP, sp] ++ pc y)) := by
      simp only [Explainer.subtable, hz, List.map_cons, entries, List.flatMap_map]
      rfl
    rw [hpieces] at hfuel ⊢
    have hfuel' : tokCount (pc p0 ++ rest.flatMap (fun y => [commaP, sp] ++ pc y)) < fuel := by
      simpa [tokCount] using hfuel
    have hpc_le : ∀ p ∈ p0 :: rest, tokCount (pc p) < fuel := by
      intro p hp
      simp only [List.mem_cons] at hp
      rw [tokCount_append] at hfuel'
      rcases hp with rfl | hp
      · omega
      · have := tokCount_flatMap_mem (fun y => [commaP, sp] ++ pc y) rest p hp
        simp only [tokCount_append] at this
        omega
    apply frag_ws [a1 32] ws_sp
    unfold gsub2Sub
    have hlenr : rest.length < fuel := by
      have := length_le_tokCount_flatMap (fun y => [commaP, sp] ++ pc y) rest (by
        intro x _; simp [tokCount_append, commaP, tk, tokCount])
      rw [tokCount_append] at hfuel'
      omega
    have hres : (p0 :: rest).foldl (fun (m : List (Nat × List Nat)) (p : Nat × List Nat) => m ++ [(p.1, p.2)]) [] = cov.zip repl := by
      rw [hz]
      have := foldl_snoc (p0 :: rest) ([] : List (Nat × List Nat))
      simpa using this
    have hp : pc p0 ++ rest.flatMap (fun y => [commaP, sp] ++ pc y) =
        (pc p0 ++ rest.flatMap (fun y => [commaP, sp] ++ pc y)) ++ [] := by simp
    rw [hp]
    refine frag_bind (frag_pairsLoop _ pc (fun (m : List (Nat × List Nat)) (p : Nat × List Nat) => m ++ [(p.1, p.2)])
      SubStop (fun t => glyphItem f t = false) Safe Safe
      (fun t ht => ⟨by rcases ht with h | h | h <;> simp [h, tOr, tEOL, tEOF, tComma], subStop_noGlyph f t ht⟩)
      (fun t ht => comma_noGlyph f t ht) (fun _ h => h) safe_comma
      rest [] p0 fuel hlenr (fun i _ line => ?_) ?_) ?_ (fun nx h => by simpa [nextRune, render] using h)
        (fun line t ht => by simpa [mkToks] using ht)
    · -- first item of an entry is a glyph
      obtain ⟨typ, val, hw, hty⟩ := writeGlyph_isTok (newExplainer f) i.1
      refine ⟨{ typ := typ, val := val, line := line }, by simp [pc, hw, mkToks], by simpa using hty⟩
    · -- one entry
      intro pre i post e
      have hi : i ∈ p0 :: rest := by rw [e]; simp
      obtain ⟨hi1, hi2, hi3⟩ := hmem i hi
      have hpre : pre.foldl (fun (m : List (Nat × List Nat)) (p : Nat × List Nat) => m ++ [(p.1, p.2)]) [] = pre := by
        have := foldl_snoc pre ([] : List (Nat × List Nat)); simpa using this
      have hpre' : (pre ++ [i]).foldl (fun (m : List (Nat × List Nat)) (p : Nat × List Nat) => m ++ [(p.1, p.2)]) [] = pre ++ [i] := by
        have := foldl_snoc (pre ++ [i]) ([] : List (Nat × List Nat)); simpa using this
      rw [hpre, hpre']
      have hnone : aget pre i.1 = none := by
        apply aget_none_of_asc pre post i
        rw [← e, ← hz, List.map_fst_zip (by omega)]
        exact hasc
      have hfi := hpc_le i hi
      simp only [pc, tokCount_append, arrow, sp, tk, tokCount] at hfi
      have hg := frag_glyph f hf i.1 hi1 fuel (by omega)
      have hl := frag_glyphList f hf i.2 hi3 fuel (by omega)
      have hpcs : pc i = [(newExplainer f).writeGlyph i.1] ++ (arrow ++ ((newExplainer f).writeGlyphList i.2 ++ [])) := by
        simp [pc]
      rw [hpcs]
      refine frag_bind hg ?_ (fun nx _ => by
          have : nextRune (arrow ++ ((newExplainer f).writeGlyphList i.2 ++ [])) nx = some 32 := by
            simp [nextRune, render, arrow, sp, Piece.rbs, a1]
          rw [this]; exact safe_space)
        (fun line t _ => by apply arrow_noGlyph; simp [mkToks, arrow, sp, tk])
      simp only [List.length_singleton, bne_self_eq_false, Bool.false_eq_true, if_false]
      apply frag_arrow_then
      refine frag_bind hl ?_ (fun nx h => by simpa [nextRune, render] using h)
        (fun line t ht => by simpa [mkToks] using ht)
      have hemp : i.2.isEmpty = false := by
        cases hh : i.2 with
        | nil => exact absurd hh hi2
        | cons _ _ => rfl
      simp only [hemp, Bool.false_eq_true, if_false, List.headD_cons, hnone, Option.isSome_none]
      exact frag_weaken (frag_pure _ _) (fun _ h => h) (fun _ _ => trivial)
    · rw [hres]
      have hne' : (cov.zip repl).isEmpty = false := by rw [hz]; rfl
      simp only [hne', Bool.false_eq_true, if_false]
      rw [keys_zip cov repl hasc hlen, aget_zip [] cov repl hasc hlen]
      exact frag_weaken (frag_pure _ SubStop) (fun _ h => h) (fun _ _ => trivial)

/-! ### a whole lookup after its keyword -/

def LookStop (t : Tok) : Prop := t.typ = tEOL ∨ t.typ = tEOF

/-- `":" flags subtable {" ||" subtable}` read by `header`, `subtablesLoop one` and the final
`pure`; every `readGsubN`/`readGposN` is of this shape -/
theorem frag_lookupBody (one : PM Subtable) (typ flags : Nat) (hfl : flags < 16) (fuel : Nat)
    (p0 : List Piece) (r0 : Subtable) (items : List (List Piece × Subtable))
    (h0 : Frag one p0 r0 SubStop Safe) (hitems : ∀ q ∈ items, Frag one q.1 q.2 SubStop Safe)
    (hstart : ∃ ps, p0 = .ws [a1 32] :: ps)
    (hhead : ∀ line, ∃ t, (mkToks line p0).head? = some t ∧ [tHyphen].contains t.typ = false ∧
      [tEOL].contains t.typ = false)
    (hfuel : Gen.dslExplainFlagsC.length < fuel ∧ items.length < fuel) :
    Frag (header fuel >>= fun flags => subtablesLoop one fuel [] >>= fun subs =>
        pure ({ typ := typ, flags := flags, subtables := subs } : Lookup))
      (([tk tColon [58]] ++ explainFlags flags) ++ ((p0 ++ items.flatMap (fun q => orSep ++ q.1)) ++ []))
      { typ := typ, flags := flags, subtables := r0 :: items.map (·.2) } LookStop Safe := by
  obtain ⟨ps, rfl⟩ := hstart
  refine frag_bind (frag_header flags hfl fuel hfuel.1) ?_ ?_ ?_
  · refine frag_bind (frag_subtablesLoop one LookStop SubStop Safe Safe
      (fun t ht => ⟨by rcases ht with h | h <;> simp [h, tEOL, tEOF, tOr], by
        rcases ht with h | h
        · right; left; exact h
        · right; right; exact h⟩)
      (fun t ht => Or.inl ht) (fun _ h => h) safe_space items _ r0 fuel [] hfuel.2 h0 hitems) ?_
      (fun nx h => by simpa [nextRune, render] using h) (fun line t ht => by simpa [mkToks] using ht)
    simp only [List.nil_append]
    exact frag_weaken (frag_pure _ LookStop) (fun _ h => h) (fun _ _ => trivial)
  · intro nx _
    have : nextRune ((Piece.ws [a1 32] :: ps ++ items.flatMap (fun q => orSep ++ q.1)) ++ []) nx = some 32 := by
      simp [nextRune, render, Piece.rbs, a1]
    rw [this]; exact safe_space
  · intro line t _
    obtain ⟨th, h1, h2, h3⟩ := hhead line
    have : (mkToks line ((Piece.ws [a1 32] :: ps ++ items.flatMap (fun q => orSep ++ q.1)) ++ [])).head? = some th := by
      rw [List.append_nil, mkToks_append]
      cases hm : mkToks line (Piece.ws [a1 32] :: ps) with
      | nil => rw [hm] at h1; cases h1
      | cons a as => rw [hm] at h1; simpa using h1
    rw [this]
    exact ⟨h2, h3⟩

/-! ### the whole text -/

theorem parseLoop_eol (f : Font) (fuel n : Nat) (acc : List Lookup) (s s1 : PS) (t : Tok)
    (h : readItem s = .ok (t, s1)) (ht : t.typ = tEOL) :
    parseLoop f fuel (n + 1) acc s = parseLoop f fuel n acc s1 := by
  conv => lhs; unfold parseLoop
  rw [bind_run, h]
  simp [ht, tEOL, tEOF, tError, tSemicolon]

theorem parseLoop_eof (f : Font) (fuel n : Nat) (acc : List Lookup) (s s1 : PS) (t : Tok)
    (h : readItem s = .ok (t, s1)) (ht : t.typ = tEOF) :
    parseLoop f fuel (n + 1) acc s = .ok (acc, s1) := by
  unfold parseLoop
  rw [bind_run, h]
  simp [ht, pure_run]

/-- the items of a description made of lookups `keyword body EOL`, parsed by `parseLoop` -/
theorem parse_text_facts (f : Font) (kwb : List Nat) (fuel : Nat) (rd : PM Lookup)
    (hkw : TokOk tIdentifier (ascii kwb) (some 58) ∧ ∀ rb ∈ ascii kwb, Canon rb)
    (hdisp : ∀ (t : Tok) (n : Nat) (acc : List Lookup) (s s1 : PS), readItem s = .ok (t, s1) →
      t.typ = tIdentifier → t.bytes = kwb →
      parseLoop f fuel (n + 1) acc s = (rd >>= fun l => parseLoop f fuel n (acc ++ [l])) s1) :
    ∀ (items : List (List Piece × Lookup)),
      (∀ q ∈ items, (∃ ps, q.1 = tk tColon [58] :: ps) ∧ Frag rd q.1 q.2 LookStop Safe) →
      ChainOk (items.flatMap fun q => tk tIdentifier kwb :: (q.1 ++ [eolP])) none ∧
      (∀ rb ∈ render (items.flatMap fun q => tk tIdentifier kwb :: (q.1 ++ [eolP])), Canon rb) ∧
      (∀ (line n : Nat) (acc : List Lookup) (s : PS) (e : Tok) (rest : List Tok), 2 * items.length < n →
        s.stream = mkToks line (items.flatMap fun q => tk tIdentifier kwb :: (q.1 ++ [eolP])) ++ e :: rest →
        e.typ = tEOF → ∃ s', parseLoop f fuel n acc s = .ok (acc ++ items.map (·.2), s')) := by
  intro items
  induction items with
  | nil =>
    intro _
    refine ⟨trivial, by simp [render], ?_⟩
    intro line n acc s e rest hn hs he
    cases n with
    | zero => omega
    | succ m =>
      obtain ⟨s1, e1, _⟩ := readItem_stream s e rest (by simpa [mkToks] using hs)
      exact ⟨s1, by rw [parseLoop_eof f fuel m acc s s1 e e1 he]; simp⟩
  | cons q items ih =>
    intro hall
    obtain ⟨⟨ps, hq⟩, hfrag⟩ := hall q (by simp)
    obtain ⟨ih1, ih2, ih3⟩ := ih (fun x hx => hall x (by simp [hx]))
    have htext : ((q :: items).flatMap fun q => tk tIdentifier kwb :: (q.1 ++ [eolP])) =
        [tk tIdentifier kwb] ++ (q.1 ++ ([eolP] ++ items.flatMap fun q => tk tIdentifier kwb :: (q.1 ++ [eolP]))) := by
      simp
    rw [htext]
    refine ⟨?_, ?_, ?_⟩
    · have hnx : nextRune (q.1 ++ ([eolP] ++ items.flatMap fun q => tk tIdentifier kwb :: (q.1 ++ [eolP]))) none = some 58 := by
        rw [hq]; simp [nextRune, render, tk, ascii, Piece.rbs]
      show ChainOk (Piece.tok tIdentifier (ascii kwb) :: (q.1 ++ ([eolP] ++ items.flatMap fun q => tk tIdentifier kwb :: (q.1 ++ [eolP])))) none
      refine ⟨by rw [hnx]; exact hkw.1, ?_⟩
      apply chain_append
      · have : nextRune ([eolP] ++ items.flatMap fun q => tk tIdentifier kwb :: (q.1 ++ [eolP])) none = some 10 := by
          simp [nextRune, render, eolP, tk, ascii, Piece.rbs]
        rw [this]
        exact hfrag.chain _ safe_eol
      · exact ⟨eol_tokOk _, ih1⟩
    · intro rb hrb
      simp only [render_append, List.mem_append] at hrb
      rcases hrb with hrb | hrb | hrb | hrb
      · apply hkw.2; simpa [render, tk, Piece.rbs] using hrb
      · exact hfrag.canon rb hrb
      · simp [render, eolP, tk, ascii, Piece.rbs] at hrb; subst hrb; exact canon_ascii 10 (by decide)
      · exact ih2 rb hrb
    · intro line n acc s e rest hn hs he
      cases n with
      | zero => simp at hn
      | succ m =>
        cases m with
        | zero => simp at hn
        | succ m' =>
          simp only [mkToks_append, List.append_assoc] at hs
          -- keyword
          have hk : mkToks line [tk tIdentifier kwb] = [{ typ := tIdentifier, val := ascii kwb, line := line }] := by
            simp [mkToks, tk]
          rw [hk] at hs
          obtain ⟨s1, e1, hs1⟩ := readItem_stream s _ _ (by simpa using hs)
          rw [hdisp _ (m' + 1) acc s s1 e1 rfl (by simp [Tok.bytes, ascii_bytes])]
          -- body
          have hl : endLine line [tk tIdentifier kwb] = line := by simp [endLine, tk, nextLine, tIdentifier, tEOL]
          rw [hl] at hs1
          have hm : mkToks (endLine line q.1) [eolP] = [{ typ := tEOL, val := [a1 10], line := endLine line q.1 }] := by
            simp [mkToks, eolP, tk, ascii, a1]
          rw [hm] at hs1
          obtain ⟨s2, e2, hs2⟩ := hfrag.runs line s1 _ _ (by simpa using hs1) (Or.inl rfl)
          rw [bind_run, e2]
          simp only []
          -- line break
          obtain ⟨s3, e3, hs3⟩ := readItem_stream s2 _ _ hs2
          rw [parseLoop_eol f fuel m' _ s2 s3 _ e3 rfl]
          obtain ⟨s4, e4⟩ := ih3 _ m' (acc ++ [q.2]) s3 e rest (by simp at hn; omega) (by simpa using hs3) he
          exact ⟨s4, by rw [e4]; simp⟩

/-- what a lookup form has to provide for the generic round-trip theorem -/
structure SubForm (f : Font) (one : Nat → PM Subtable) (Ok : Subtable → Prop) : Prop where
  frag : ∀ st, Ok st → ∀ (first : Bool) (fuel : Nat), tokCount ((newExplainer f).subtable first st) < fuel →
    Frag (one fuel) ((newExplainer f).subtable first st) (normSub st) SubStop Safe
  start : ∀ st, Ok st → ∀ first, ∃ ps, (newExplainer f).subtable first st = .ws [a1 32] :: ps
  head : ∀ st, Ok st → ∀ first line, ∃ t, (mkToks line ((newExplainer f).subtable first st)).head? = some t ∧
    [tHyphen].contains t.typ = false ∧ [tEOL].contains t.typ = false

/-- the body of a lookup after its keyword, as `lookupBody` writes it -/
def bodyP (f : Font) (l : Lookup) : List Piece :=
  match l.subtables with
  | [] => []
  | st :: more =>
    ([tk tColon [58]] ++ explainFlags l.flags) ++
      (((newExplainer f).subtable true st ++
        (more.map fun st' => ((newExplainer f).subtable false st', normSub st')).flatMap (fun q => orSep ++ q.1)) ++ [])

theorem lookupBody_eq (f : Font) (kw : List Nat) (l : Lookup) (h : l.subtables ≠ []) :
    (newExplainer f).lookupBody kw l = tk tIdentifier (kw ++ decimal l.typ) :: bodyP f l := by
  unfold Explainer.lookupBody bodyP
  cases hs : l.subtables with
  | nil => exact absurd hs h
  | cons st more => simp [List.flatMap_map]

theorem flatMap_congr' {α β : Type} (l : List α) (g1 g2 : α → List β) (h : ∀ x ∈ l, g1 x = g2 x) :
    l.flatMap g1 = l.flatMap g2 := by
  induction l with
  | nil => rfl
  | cons x l ih => simp [h x (by simp), ih (fun y hy => h y (by simp [hy]))]

theorem roundtrip_gsub_generic (f : Font) (k : Nat) (rd : Nat → PM Lookup) (one : Nat → PM Subtable)
    (Ok : Subtable → Prop) (hform : SubForm f one Ok)
    (hrd : ∀ fuel, rd fuel = (header fuel >>= fun flags => subtablesLoop (one fuel) fuel [] >>= fun subs =>
      pure ({ typ := k, flags := flags, subtables := subs } : Lookup)))
    (hkw : TokOk tIdentifier (ascii ([71, 83, 85, 66] ++ decimal k)) (some 58) ∧
      ∀ rb ∈ ascii ([71, 83, 85, 66] ++ decimal k), Canon rb)
    (hdisp : ∀ (fuel : Nat) (t : Tok) (n : Nat) (acc : List Lookup) (s s1 : PS), readItem s = .ok (t, s1) →
      t.typ = tIdentifier → t.bytes = [71, 83, 85, 66] ++ decimal k →
      parseLoop f fuel (n + 1) acc s = (rd fuel >>= fun l => parseLoop f fuel n (acc ++ [l])) s1)
    (ls : List Lookup)
    (hls : ∀ l ∈ ls, l.typ = k ∧ l.flags < 16 ∧ l.subtables ≠ [] ∧ ∀ st ∈ l.subtables, Ok st) :
    parseBytes f (explainGsub f ls) = .ok (normalize ls) := by
  let kwb := [71, 83, 85, 66] ++ decimal k
  let items : List (List Piece × Lookup) := ls.map fun l => (bodyP f l, { l with subtables := l.subtables.map normSub })
  have htext : explainGsubP f ls = items.flatMap fun q => tk tIdentifier kwb :: (q.1 ++ [eolP]) := by
    unfold explainGsubP
    simp only [items, List.flatMap_map]
    apply flatMap_congr'
    intro l hl
    obtain ⟨h1, _, h3, _⟩ := hls l hl
    rw [lookupBody_eq f _ l h3, h1]
    simp [kwb]
  let F0 := tokCount (explainGsubP f ls) + 3
  have hitems : ∀ q ∈ items, (∃ ps, q.1 = tk tColon [58] :: ps) ∧ Frag (rd F0) q.1 q.2 LookStop Safe := by
    intro q hq
    simp only [items, List.mem_map] at hq
    obtain ⟨l, hl, rfl⟩ := hq
    obtain ⟨h1, h2, h3, h4⟩ := hls l hl
    have hle : tokCount (bodyP f l) + 2 ≤ tokCount (explainGsubP f ls) := by
      have := tokCount_flatMap_mem (fun l => (newExplainer f).lookupBody [71, 83, 85, 66] l ++ [eolP]) ls l hl
      rw [lookupBody_eq f _ l h3] at this
      simp only [explainGsubP]
      simp [tokCount_append, tokCount, tk, eolP] at this ⊢
      omega
    cases hs : l.subtables with
    | nil => exact absurd hs h3
    | cons st more =>
      have hb : bodyP f l = ([tk tColon [58]] ++ explainFlags l.flags) ++
          (((newExplainer f).subtable true st ++
            (more.map fun st' => ((newExplainer f).subtable false st', normSub st')).flatMap (fun q => orSep ++ q.1)) ++ []) := by
        simp [bodyP, hs]
      refine ⟨⟨_, by rw [hb]; rfl⟩, ?_⟩
      rw [hb] at hle ⊢
      rw [hrd]
      have hst : Ok st := h4 st (by rw [hs]; simp)
      have hmore : ∀ st' ∈ more, Ok st' := fun st' h' => h4 st' (by rw [hs]; simp [h'])
      simp only [tokCount_append, tokCount, tk] at hle
      have hflat : ∀ st' ∈ more, tokCount ((newExplainer f).subtable false st') ≤
          tokCount ((more.map fun st' => ((newExplainer f).subtable false st', normSub st')).flatMap (fun q => orSep ++ q.1)) := by
        intro st' h'
        have := tokCount_flatMap_mem (fun q : List Piece × Subtable => orSep ++ q.1)
          (more.map fun st' => ((newExplainer f).subtable false st', normSub st')) ((newExplainer f).subtable false st', normSub st')
          (List.mem_map.mpr ⟨st', h', rfl⟩)
        simp only [tokCount_append] at this
        omega
      have hlenm : more.length ≤ tokCount ((more.map fun st' => ((newExplainer f).subtable false st', normSub st')).flatMap (fun q => orSep ++ q.1)) := by
        have := length_le_tokCount_flatMap (fun q : List Piece × Subtable => orSep ++ q.1)
          (more.map fun st' => ((newExplainer f).subtable false st', normSub st')) (by
            intro x _; simp [tokCount_append, orSep, sp, tab, eolP, tk, tokCount])
        simpa using this
      have := frag_lookupBody (one F0) k l.flags h2 F0 ((newExplainer f).subtable true st) (normSub st)
        (more.map fun st' => ((newExplainer f).subtable false st', normSub st'))
        (hform.frag st hst true F0 (by omega))
        (by
          intro q hq
          simp only [List.mem_map] at hq
          obtain ⟨st', h', rfl⟩ := hq
          exact hform.frag st' (hmore st' h') false F0 (by have := hflat st' h'; omega))
        (hform.start st hst true) (hform.head st hst true)
        ⟨by simp only [F0]; have : Gen.dslExplainFlagsC.length = 4 := by decide
            omega, by simp; omega⟩
      simpa [List.map_map, Function.comp_def, h1] using this
  obtain ⟨hchain, hcanon, hparse⟩ := parse_text_facts f kwb F0 (rd F0) hkw (hdisp F0) items hitems
  rw [← htext] at hchain hcanon hparse
  obtain ⟨e, he, hlex⟩ := lex_render _ hchain hcanon
  unfold parseBytes parseRunes parseToks explainGsub
  have hlex' : lexRunes (decodeUtf8 (renderBytes (explainGsubP f ls))) = mkToks 1 (explainGsubP f ls) ++ [e] := hlex
  rw [hlex']
  have hlen : (mkToks 1 (explainGsubP f ls) ++ [e]).length + 2 = F0 := by
    simp [mkToks_length, F0]
  simp only [hlen]
  have h2len : 2 * items.length < F0 := by
    have := length_le_tokCount_flatMap (fun q : List Piece × Lookup => tk tIdentifier kwb :: (q.1 ++ [eolP])) items (by
      intro x _; simp [tokCount, tk])
    have h2 : ∀ (l : List (List Piece × Lookup)), 2 * l.length ≤ tokCount (l.flatMap fun q => tk tIdentifier kwb :: (q.1 ++ [eolP])) := by
      intro l
      induction l with
      | nil => simp [tokCount]
      | cons x l ih => simp [tokCount, tk, tokCount_append, eolP] at ih ⊢; omega
    have := h2 items
    rw [← htext] at this
    simp only [F0]; omega
  obtain ⟨s', hs'⟩ := hparse 1 F0 [] { toks := mkToks 1 (explainGsubP f ls) ++ [e], backlog := [], last := zeroTok } e []
    h2len (by simp [PS.stream]) he
  simp only [StateT.run]
  rw [hs']
  simp [items, normalize]

end SfntV.Dsl
