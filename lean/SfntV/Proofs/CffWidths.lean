/-
Helper lemmas about the width selection model (cff/write.go selectWidths, repaired).
-/
import SfntV.Model.CffWidths
import SfntV.Model.T2Encode

namespace SfntV.Cff
open SfntV

theorem fxIntegral_mul (k : Int) : fxIntegral (k * fxOne) = true := by
  simp [fxIntegral, fxOne, Int.mul_emod_left]

theorem mostFrequent_integral (ws : List Int) : ∀ (hist : List (Int × Nat)) (best : Int) (cnt : Nat),
    fxIntegral best = true → fxIntegral (mostFrequent ws hist best cnt) = true := by
  induction ws with
  | nil => intro _ _ _ h; exact h
  | cons w ws ih =>
    intro hist best cnt hb
    simp only [mostFrequent]
    split
    · exact ih _ _ _ hb
    · rename_i hw
      have hwi : fxIntegral w = true := by
        cases h : fxIntegral w with
        | true => rfl
        | false => exact absurd (Or.inr (by simp [h])) hw
      split
      · exact ih _ _ _ hwi
      · exact ih _ _ _ hb

/-- Both values chosen by the (repaired) `selectWidths` are integers. -/
theorem selectWidths_integral (ws : List Int) :
    fxIntegral (selectWidths ws).1 = true ∧ ∀ v, (selectWidths ws).2 = some v → fxIntegral v = true := by
  unfold selectWidths
  split
  · exact ⟨by decide, by intro v h; cases h; decide⟩
  · rename_i w
    cases hw : fxIntegral w with
    | false =>
      simp only [Bool.not_false, if_true]
      exact ⟨by decide, by intro v h; cases h; exact fxIntegral_mul _⟩
    | true =>
      simp only [Bool.not_true, Bool.false_eq_true, if_false]
      exact ⟨hw, by intro v h; cases h; exact hw⟩
  · have hd := mostFrequent_integral ws [] 0 0 (by decide)
    simp only
    split
    · exact ⟨hd, by intro v h; cases h; decide⟩
    · exact ⟨hd, by intro v h; cases h; exact fxIntegral_mul _⟩

/-- `int32(x)` of an integral width (inside the int32 range) is the width itself. -/
theorem truncFx_exact (w : Int) (h : fxIntegral w = true) : truncFx w * fxOne = w := by
  have h' : w % 65536 = 0 := by
    have := h; simp only [fxIntegral, fxOne] at this; exact of_decide_eq_true this
  unfold truncFx fxOne
  split <;> omega


/-! ### every width is within reach of the nominal width -/

theorem foldl_min_le (l : List Int) : ∀ (a : Int), l.foldl min a ≤ a ∧ ∀ x ∈ l, l.foldl min a ≤ x := by
  induction l with
  | nil => intro a; exact ⟨Int.le_refl _, fun x hx => by simp at hx⟩
  | cons y ys ih =>
    intro a
    obtain ⟨h1, h2⟩ := ih (min a y)
    simp only [List.foldl_cons]
    refine ⟨by omega, ?_⟩
    intro x hx
    rcases List.mem_cons.mp hx with rfl | hx
    · omega
    · exact h2 x hx

theorem foldl_max_ge (l : List Int) : ∀ (a : Int), a ≤ l.foldl max a ∧ ∀ x ∈ l, x ≤ l.foldl max a := by
  induction l with
  | nil => intro a; exact ⟨Int.le_refl _, fun x hx => by simp at hx⟩
  | cons y ys ih =>
    intro a
    obtain ⟨h1, h2⟩ := ih (max a y)
    simp only [List.foldl_cons]
    refine ⟨by omega, ?_⟩
    intro x hx
    rcases List.mem_cons.mp hx with rfl | hx
    · omega
    · exact h2 x hx

theorem roundHA_near (a : Int) : 2 * (roundHA a 65536 * 65536 - a).natAbs ≤ 65536 := by
  unfold roundHA
  split <;> omega

/-- After the repair of the nominal-width range: whatever the widths are (|w| ≤ 32767), the
nominal width exists and every glyph that does not use the default width is less than 32768
away from it, so that the difference is a Type 2 charstring number. -/
theorem selectWidths_reach (ws : List Int) (hw : ∀ w ∈ ws, w.natAbs ≤ 32767 * 65536) :
    ∃ nom, (selectWidths ws).2 = some nom ∧
      ∀ w ∈ ws, w ≠ (selectWidths ws).1 → (w - nom).natAbs < 32768 * 65536 := by
  unfold selectWidths
  split
  · exact ⟨0, rfl, fun w hw' => by simp at hw'⟩
  · rename_i w
    cases hi : fxIntegral w with
    | true =>
      simp only [Bool.not_true, Bool.false_eq_true, if_false]
      exact ⟨w, rfl, fun x hx hne => by simp at hx; exact absurd hx hne⟩
    | false =>
      simp only [Bool.not_false, if_true]
      refine ⟨_, rfl, ?_⟩
      intro x hx _
      simp only [List.mem_singleton] at hx
      subst hx
      have := roundHA_near x
      simp only [fxOne]
      omega
  · simp only
    generalize mostFrequent ws [] 0 0 = d
    cases hoth : ws.filter (fun x => decide (x ≠ d)) with
    | nil =>
      refine ⟨0, rfl, ?_⟩
      intro w hw' hne
      have : w ∈ ws.filter (fun x => decide (x ≠ d)) := List.mem_filter.mpr ⟨hw', by simpa using hne⟩
      rw [hoth] at this; simp at this
    | cons o os =>
      simp only
      refine ⟨_, rfl, ?_⟩
      intro w hw' hne
      have hmem : w ∈ o :: os := by
        rw [← hoth]; exact List.mem_filter.mpr ⟨hw', by simpa using hne⟩
      have hsub : ∀ x ∈ o :: os, x.natAbs ≤ 32767 * 65536 := by
        intro x hx
        have : x ∈ ws.filter (fun x => decide (x ≠ d)) := by rw [hoth]; exact hx
        exact hw x (List.mem_filter.mp this).1
      obtain ⟨mn1, mn2⟩ := foldl_min_le os o
      obtain ⟨mx1, mx2⟩ := foldl_max_ge os o
      have hmn : os.foldl min o ≤ w := by
        rcases List.mem_cons.mp hmem with rfl | h
        · exact mn1
        · exact mn2 w h
      have hmx : w ≤ os.foldl max o := by
        rcases List.mem_cons.mp hmem with rfl | h
        · exact mx1
        · exact mx2 w h
      -- the extreme values are widths themselves, hence within ±32767
      have hmnb : -(32767 * 65536 : Int) ≤ os.foldl min o := by
        have key : ∀ (l : List Int) (a : Int), -(32767 * 65536 : Int) ≤ a → (∀ x ∈ l, -(32767 * 65536 : Int) ≤ x) →
            -(32767 * 65536 : Int) ≤ l.foldl min a := by
          intro l
          induction l with
          | nil => intro a ha _; exact ha
          | cons y ys ih =>
            intro a ha hl
            simp only [List.foldl_cons]
            apply ih
            · have := hl y (List.mem_cons_self ..); omega
            · exact fun x hx => hl x (List.mem_cons_of_mem _ hx)
        apply key
        · have := hsub o (List.mem_cons_self ..); omega
        · intro x hx; have := hsub x (List.mem_cons_of_mem _ hx); omega
      have hmxb : os.foldl max o ≤ (32767 * 65536 : Int) := by
        have key : ∀ (l : List Int) (a : Int), a ≤ (32767 * 65536 : Int) → (∀ x ∈ l, x ≤ (32767 * 65536 : Int)) →
            l.foldl max a ≤ (32767 * 65536 : Int) := by
          intro l
          induction l with
          | nil => intro a ha _; exact ha
          | cons y ys ih =>
            intro a ha hl
            simp only [List.foldl_cons]
            apply ih
            · have := hl y (List.mem_cons_self ..); omega
            · exact fun x hx => hl x (List.mem_cons_of_mem _ hx)
        apply key
        · have := hsub o (List.mem_cons_self ..); omega
        · intro x hx; have := hsub x (List.mem_cons_of_mem _ hx); omega
      generalize os.foldl min o = mn at *
      generalize os.foldl max o = mx at *
      generalize roundHA ((o :: os).foldl (· + ·) 0) (fxOne * ↑ws.length) * fxOne = nom0
      have hrange : mx - 32767 * 65536 ≤ nomClamp nom0 mn mx ∧ nomClamp nom0 mn mx ≤ mn + 32767 * 65536 := by
        unfold nomClamp
        simp only
        split
        · omega
        · split <;> omega
      generalize nomClamp nom0 mn mx = nom2 at *
      have hr := roundHA_near nom2
      simp only [fxOne]
      omega

/-- the Type 2 number encoder is exact on 16.16 values below 32768 in absolute value -/
theorem encodeNumber_exact (m : Int) (h : m.natAbs < 32768 * 65536) : (T2Enc.encodeNumber m 16).1 = m := by
  unfold T2Enc.encodeNumber
  simp only
  have hd : (2 : Nat) ^ 16 = 65536 := by decide
  rw [hd]
  split
  · rename_i hc
    -- |x16·65536 − m| ≤ 1/2, both integers
    have : (T2Enc.wrap16 (Int.tdiv m ((65536 : Nat) : Int)) * ((65536 : Nat) : Int) - m).natAbs = 0 := by omega
    have h0 : T2Enc.wrap16 (Int.tdiv m ((65536 : Nat) : Int)) * ((65536 : Nat) : Int) - m = 0 := by omega
    simp only at h0 ⊢
    omega
  · have hr : T2Enc.roundDiv (m * 65536) 65536 = m := by
      unfold T2Enc.roundDiv
      have : (m * 65536).natAbs = m.natAbs * 65536 := by rw [Int.natAbs_mul]; rfl
      have e : (2 * (m.natAbs * 65536) + 65536) / (2 * 65536) = m.natAbs := by omega
      simp only [this, e]
      split <;> omega
    rw [hr]
    unfold T2Enc.wrap32
    rw [if_pos (by omega)]

end SfntV.Cff
