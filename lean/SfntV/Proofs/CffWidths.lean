/-
Helper lemmas about the width selection model (cff/write.go selectWidths, repaired).
-/
import SfntV.Model.CffWidths

namespace SfntV.Cff
open SfntV

theorem fxIntegral_mul (k : Int) : fxIntegral (k * fxOne) = true := by
  simp [fxIntegral, fxOne, Int.mul_emod_left]

theorem mostFrequent_integral (ws : List Int) : ∀ (hist : List (Int × Nat)) (best : Int) (cnt : Nat),
    fxIntegral best = true → fxIntegral (mostFrequent ws hist best cnt) = true := by
  induction ws with
  | nil => intro _ _ _ h; exact h
  | cons w ws ih =>
    intro hist best cnt hb
    simp only [mostFrequent]
    split
    · exact ih _ _ _ hb
    · rename_i hw
      have hwi : fxIntegral w = true := by
        cases h : fxIntegral w with
        | true => rfl
        | false => exact absurd (Or.inr (by simp [h])) hw
      split
      · exact ih _ _ _ hwi
      · exact ih _ _ _ hb

/-- Both values chosen by the (repaired) `selectWidths` are integers. -/
theorem selectWidths_integral (ws : List Int) :
    fxIntegral (selectWidths ws).1 = true ∧ ∀ v, (selectWidths ws).2 = some v → fxIntegral v = true := by
  unfold selectWidths
  split
  · exact ⟨by decide, by intro v h; cases h; decide⟩
  · rename_i w
    cases hw : fxIntegral w with
    | false =>
      simp only [Bool.not_false, if_true]
      exact ⟨by decide, by intro v h; cases h; exact fxIntegral_mul _⟩
    | true =>
      simp only [Bool.not_true, Bool.false_eq_true, if_false]
      exact ⟨hw, by intro v h; cases h; exact hw⟩
  · have hd := mostFrequent_integral ws [] 0 0 (by decide)
    simp only
    split
    · exact ⟨hd, by intro v h; cases h; decide⟩
    · exact ⟨hd, by intro v h; cases h; exact fxIntegral_mul _⟩

/-- `int32(x)` of an integral width (inside the int32 range) is the width itself. -/
theorem truncFx_exact (w : Int) (h : fxIntegral w = true) : truncFx w * fxOne = w := by
  have h' : w % 65536 = 0 := by
    have := h; simp only [fxIntegral, fxOne] at this; exact of_decide_eq_true this
  unfold truncFx fxOne
  split <;> omega

end SfntV.Cff
