/-
C19 — lexing what the printer writes.  Facts about the Unicode tables, single steps of the
lexer machine, one lemma per item kind ("a well-formed lexeme followed by a rune that ends it is
lexed as that item"), and the theorem for sequences of pieces: `lex_pieces`.
-/
import SfntV.Proofs.DslUtf8
import SfntV.Proofs.DslLexer
set_option linter.unusedSimpArgs false
set_option linter.unusedVariables false
namespace SfntV.Dsl

def isIdentStart (r : Nat) : Bool := isLetter r || r == 46 || r == 95
def isIdentChar (r : Nat) : Bool := isLetter r || r == 46 || r == 95 || isDigit r
def wsChar (c : RB) : Bool := c.1 != 10 && isSpace c.1

theorem inRanges_elim (tbl : Array (Nat × Nat × Nat)) (r : Nat) (h : inRanges tbl r = true) :
    ∃ t ∈ tbl.toList, t.1 ≤ r ∧ r ≤ t.2.1 ∧ (r - t.1) % t.2.2 = 0 := by
  unfold inRanges at h
  rw [Array.any_eq_true] at h
  obtain ⟨i, hi, ht⟩ := h
  refine ⟨tbl[i], by simp, ?_⟩
  simp at ht
  exact ⟨ht.1.1, ht.1.2, ht.2⟩

def inRangesL (tbl : List (Nat × Nat × Nat)) (r : Nat) : Bool :=
  tbl.any fun t => t.1 ≤ r && r ≤ t.2.1 && (r - t.1) % t.2.2 == 0

theorem inRanges_list (tbl : Array (Nat × Nat × Nat)) (r : Nat) : inRanges tbl r = inRangesL tbl.toList r := by
  unfold inRanges inRangesL
  rw [Array.any_toList]

theorem space_not_letter : ∀ b ∈ Gen.dslSpaceRanges.toList, ∀ i ∈ List.range ((b.2.1 - b.1) / b.2.2 + 1),
    inRangesL Gen.dslLetterRanges.toList (b.1 + i * b.2.2) = false := by decide +kernel

theorem letter_not_space (r : Nat) (h : isLetter r = true) : isSpace r = false := by
  unfold isLetter at h
  unfold isSpace
  by_cases c : r < 128
  · simp only [c, if_true] at h ⊢
    simp [inR] at h ⊢
    omega
  · simp only [c, if_false] at h ⊢
    cases hs : inRanges Gen.dslSpaceRanges r with
    | false => rfl
    | true =>
      obtain ⟨b, hb, hb1, hb2, hb3⟩ := inRanges_elim _ _ hs
      have hi : (r - b.1) / b.2.2 ∈ List.range ((b.2.1 - b.1) / b.2.2 + 1) := by
        rw [List.mem_range]
        have := Nat.div_le_div_right (c := b.2.2) (show r - b.1 ≤ b.2.1 - b.1 by omega)
        omega
      have := space_not_letter b hb _ hi
      have e : b.1 + (r - b.1) / b.2.2 * b.2.2 = r := by
        have := Nat.div_add_mod (r - b.1) b.2.2
        rw [Nat.mul_comm] at this
        omega
      rw [e] at this
      rw [inRanges_list, this] at h
      cases h

theorem print_ranges_valid : ∀ t ∈ Gen.dslPrintRanges.toList,
    t.2.1 ≤ 0x10FFFF ∧ (t.2.1 < 0xD800 ∨ 0xE000 ≤ t.1) := by decide +kernel

theorem print_valid (r : Nat) (h : isPrint r = true) : validRune r ∧ r ≠ 10 ∧ r ≠ 0 := by
  unfold isPrint at h
  by_cases c : r < 128
  · simp only [c, if_true] at h
    simp [inR] at h
    exact ⟨⟨by omega, by omega⟩, by omega, by omega⟩
  · simp only [c, if_false] at h
    obtain ⟨t, ht, h1, h2, _⟩ := inRanges_elim _ _ h
    have := print_ranges_valid t ht
    exact ⟨⟨by omega, by omega⟩, by omega, by omega⟩

/-! ### one step of the machine -/

theorem lexFrom_cons (st : LState) (line : Nat) (c : RB) (rest : List RB) :
    lexFrom st line (c :: rest) =
      match step st line c with
      | (ts, none) => ts
      | (ts, some (st', line')) => ts ++ lexFrom st' line' rest := rfl

/-- a step that stays inside the machine without emitting -/
theorem lex_move (st st' : LState) (line : Nat) (c : RB) (rest : List RB)
    (h : step st line c = ([], some (st', line))) : lexFrom st line (c :: rest) = lexFrom st' line rest := by
  rw [lexFrom_cons, h]; rfl

/-- a step that emits one item and returns to `lexStart` -/
theorem lex_emit (st : LState) (line line' : Nat) (c : RB) (rest : List RB) (t : Tok)
    (h : step st line c = ([t], some (.start [], line'))) :
    lexFrom st line (c :: rest) = t :: lexFrom (.start []) line' rest := by
  rw [lexFrom_cons, h]; rfl

/-- "emit the pending item, then look at the rune as `lexStart` does" -/
theorem lex_restart (st : LState) (line : Nat) (c : RB) (rest : List RB) (t : Tok)
    (h : step st line c = (t :: (startStep [] line c).1, (startStep [] line c).2)) :
    lexFrom st line (c :: rest) = t :: lexFrom (.start []) line (c :: rest) := by
  rw [lexFrom_cons, lexFrom_cons, h]
  simp only [step]
  rcases startStep [] line c with ⟨ts, n⟩
  cases n with
  | none => rfl
  | some p => obtain ⟨a, b⟩ := p; rfl

/-- the blanks skipped before an item do not matter -/
theorem start_irrel (ws : List RB) (line : Nat) (c : RB) (rest : List RB) (h : wsChar c = false) :
    lexFrom (.start ws) line (c :: rest) = lexFrom (.start []) line (c :: rest) := by
  have : startStep ws line c = startStep [] line c := by
    unfold startStep
    unfold wsChar at h
    simp only [h, Bool.false_eq_true, if_false]
  rw [lexFrom_cons, lexFrom_cons]
  simp only [step, this]

theorem start_skip (ws : List RB) (line : Nat) (c : RB) (rest : List RB) (h : wsChar c = true) :
    lexFrom (.start ws) line (c :: rest) = lexFrom (.start (ws ++ [c])) line rest := by
  apply lex_move
  unfold wsChar at h
  simp only [step, startStep, h, if_true]

theorem start_skip_all (w : List RB) : ∀ (ws : List RB) (line : Nat) (rest : List RB),
    (∀ c ∈ w, wsChar c = true) → lexFrom (.start ws) line (w ++ rest) = lexFrom (.start (ws ++ w)) line rest := by
  induction w with
  | nil => intro ws line rest _; simp
  | cons c w ih =>
    intro ws line rest h
    rw [List.cons_append, start_skip ws line c _ (h c (by simp)), ih _ _ _ (fun x hx => h x (by simp [hx]))]
    simp

/-! ### identifiers -/

theorem identStart_start (ws : List RB) (line : Nat) (c : RB) (h : isIdentStart c.1 = true) :
    step (.start ws) line c = ([], some (.ident [c], line)) := by
  have hs : isSpace c.1 = false := by
    unfold isIdentStart at h
    simp only [Bool.or_eq_true, beq_iff_eq] at h
    rcases h with (h | h) | h
    · exact letter_not_space _ h
    · rw [h]; decide
    · rw [h]; decide
  have h10 : (c.1 == 10) = false := by
    cases e : c.1 == 10 with
    | false => rfl
    | true =>
      have : c.1 = 10 := by simpa using e
      rw [this] at h
      revert h
      decide
  unfold isIdentStart at h
  simp only [step, startStep, hs, h10, h, Bool.and_false, Bool.false_eq_true, if_false, if_true]

theorem ident_loop (line : Nat) (cs : List RB) : ∀ (acc rest : List RB),
    (∀ x ∈ cs, isIdentChar x.1 = true) →
    lexFrom (.ident acc) line (cs ++ rest) = lexFrom (.ident (acc ++ cs)) line rest := by
  induction cs with
  | nil => intro acc rest _; simp
  | cons c cs ih =>
    intro acc rest h
    have hc := h c (by simp)
    unfold isIdentChar at hc
    rw [List.cons_append, lex_move (.ident acc) (.ident (acc ++ [c])) line c _ (by simp only [step, hc, if_true]),
      ih _ _ (fun x hx => h x (by simp [hx]))]
    simp

theorem pair_eta {α β : Type} (p : α × β) (a : α) (f : α → α) :
    (match p with | (ts, n) => (f ts, n)) = (f p.1, p.2) := by cases p; rfl

theorem ident_end (line : Nat) (acc rest : List RB)
    (h : ∀ r, rest.head?.map (·.1) = some r → isIdentChar r = false) :
    lexFrom (.ident acc) line rest =
      { typ := tIdentifier, val := acc, line := line } :: lexFrom (.start []) line rest := by
  cases rest with
  | nil => rfl
  | cons d r' =>
    have hd := h d.1 (by simp)
    unfold isIdentChar at hd
    apply lex_restart
    simp only [step, hd, Bool.false_eq_true, if_false]

theorem lex_ident (ws : List RB) (line : Nat) (c : RB) (cs rest : List RB)
    (h1 : isIdentStart c.1 = true) (h2 : ∀ x ∈ cs, isIdentChar x.1 = true)
    (h3 : ∀ r, rest.head?.map (·.1) = some r → isIdentChar r = false) :
    lexFrom (.start ws) line (c :: cs ++ rest) =
      { typ := tIdentifier, val := c :: cs, line := line } :: lexFrom (.start []) line rest := by
  rw [List.cons_append, lex_move _ _ line c _ (identStart_start ws line c h1), ident_loop line cs _ _ h2,
    ident_end line _ rest h3]
  simp

/-! ### integers -/

theorem int_loop (line : Nat) (cs : List RB) : ∀ (acc rest : List RB),
    (∀ x ∈ cs, inR 48 57 x.1 = true) →
    lexFrom (.int acc) line (cs ++ rest) = lexFrom (.int (acc ++ cs)) line rest := by
  induction cs with
  | nil => intro acc rest _; simp
  | cons c cs ih =>
    intro acc rest h
    have hc := h c (by simp)
    rw [List.cons_append, lex_move (.int acc) (.int (acc ++ [c])) line c _ (by simp only [step, hc, if_true]),
      ih _ _ (fun x hx => h x (by simp [hx]))]
    simp

theorem int_end (line : Nat) (acc rest : List RB)
    (h : ∀ r, rest.head?.map (·.1) = some r → inR 48 57 r = false) :
    lexFrom (.int acc) line rest =
      { typ := tInteger, val := acc, line := line } :: lexFrom (.start []) line rest := by
  cases rest with
  | nil => rfl
  | cons d r' =>
    have hd := h d.1 (by simp)
    apply lex_restart
    simp only [step, hd, Bool.false_eq_true, if_false]

theorem digit_start (ws : List RB) (line : Nat) (c : RB) (h : inR 48 57 c.1 = true) :
    step (.start ws) line c = ([], some (.int [c], line)) := by
  have hb : 48 ≤ c.1 ∧ c.1 ≤ 57 := by simpa [inR] using h
  have lt : c.1 < 128 := by omega
  have h1 : isSpace c.1 = false := by simp [isSpace, inR, lt]; omega
  have h2 : (c.1 == 10) = false := by simp; omega
  have h3 : isLetter c.1 = false := by simp [isLetter, inR, lt]; omega
  have h4 : (c.1 == 46) = false := by simp; omega
  have h5 : (c.1 == 95) = false := by simp; omega
  have h6 : (c.1 == 34) = false := by simp; omega
  simp only [step, startStep, h1, h2, h3, h4, h5, h6, h, Bool.and_false, Bool.or_false, Bool.false_eq_true,
    if_false, Bool.true_or, if_true]

/-- the three shapes of an integer item: digits, `+` digits, `-` digit digits -/
def IntShape (val : List RB) : Prop :=
  ∃ ds : List RB, (∀ d ∈ ds, inR 48 57 d.1 = true) ∧
    ((∃ d, val = d :: ds ∧ inR 48 57 d.1 = true) ∨ val = a1 43 :: ds ∨
      (∃ d, val = a1 45 :: d :: ds ∧ inR 48 57 d.1 = true))

theorem lex_int (ws : List RB) (line : Nat) (val rest : List RB) (hv : IntShape val)
    (h3 : ∀ r, rest.head?.map (·.1) = some r → inR 48 57 r = false) :
    lexFrom (.start ws) line (val ++ rest) =
      { typ := tInteger, val := val, line := line } :: lexFrom (.start []) line rest := by
  obtain ⟨ds, hds, hv⟩ := hv
  rcases hv with ⟨d, rfl, hd⟩ | rfl | ⟨d, rfl, hd⟩
  · rw [List.cons_append, lex_move _ _ line d _ (digit_start ws line d hd), int_loop line ds _ _ hds,
      int_end line _ rest h3]
    simp
  · have : step (.start ws) line (a1 43) = ([], some (.int [a1 43], line)) := by
      simp [step, startStep, a1, isSpace, isLetter, inR]
    rw [List.cons_append, lex_move _ _ line _ _ this, int_loop line ds _ _ hds, int_end line _ rest h3]
    simp
  · have s1 : step (.start ws) line (a1 45) = ([], some (.hyphen (a1 45), line)) := by
      simp [step, startStep, a1, isSpace, isLetter, inR, singleChar, Gen.dslSingleCharTokens]
    have hb : 48 ≤ d.1 ∧ d.1 ≤ 57 := by simpa [inR] using hd
    have s2 : step (.hyphen (a1 45)) line d = ([], some (.int [a1 45, d], line)) := by
      have : (d.1 == 62) = false := by simp; omega
      simp only [step, this, hd, Bool.false_eq_true, if_false, if_true]
    rw [List.cons_append, List.cons_append, lex_move _ _ line _ _ s1, lex_move _ _ line _ _ s2,
      int_loop line ds _ _ hds, int_end line _ rest h3]
    simp

/-! ### strings -/

theorem str_body (line : Nat) (rs : List Nat) : ∀ (acc X : List RB), (∀ r ∈ rs, r ≠ 10 ∧ r ≠ 0) →
    lexFrom (.str acc false) line (rs.flatMap escRB ++ X) =
      lexFrom (.str (acc ++ rs.flatMap escRB) false) line X := by
  induction rs with
  | nil => intro acc X _; simp
  | cons r rs ih =>
    intro acc X h
    have hr := h r (by simp)
    have ih' := fun a => ih a X (fun x hx => h x (by simp [hx]))
    simp only [List.flatMap_cons, List.append_assoc]
    by_cases c1 : r = 34
    · subst c1
      have e : escRB 34 = [a1 92, a1 34] := by simp [escRB]
      have s1 : step (.str acc false) line (a1 92) = ([], some (.str (acc ++ [a1 92]) true, line)) := by
        simp [step, a1]
      have s2 : step (.str (acc ++ [a1 92]) true) line (a1 34) =
          ([], some (.str (acc ++ [a1 92] ++ [a1 34]) false, line)) := by simp [step, a1]
      rw [e]
      simp only [List.cons_append, List.nil_append]
      rw [lex_move _ _ line _ _ s1, lex_move _ _ line _ _ s2, ih']
      simp
    · by_cases c2 : r = 92
      · subst c2
        have e : escRB 92 = [a1 92, a1 92] := by simp [escRB]
        have s1 : step (.str acc false) line (a1 92) = ([], some (.str (acc ++ [a1 92]) true, line)) := by
          simp [step, a1]
        have s2 : step (.str (acc ++ [a1 92]) true) line (a1 92) =
            ([], some (.str (acc ++ [a1 92] ++ [a1 92]) false, line)) := by simp [step, a1]
        rw [e]
        simp only [List.cons_append, List.nil_append]
        rw [lex_move _ _ line _ _ s1, lex_move _ _ line _ _ s2, ih']
        simp
      · have e1 : (r == 34) = false := by simp [c1]
        have e2 : (r == 92) = false := by simp [c2]
        have e3 : (r == 0) = false := by simp [hr.2]
        have e4 : (r == 10) = false := by simp [hr.1]
        have e : escRB r = [(r, utf8Encode r)] := by simp [escRB, e1, e2]
        have s1 : step (.str acc false) line (r, utf8Encode r) =
            ([], some (.str (acc ++ [(r, utf8Encode r)]) false, line)) := by
          simp only [step, e1, e2, e3, e4, Bool.or_false, Bool.false_eq_true, if_false]
        rw [e]
        simp only [List.cons_append, List.nil_append]
        rw [lex_move _ _ line _ _ s1, ih']
        simp

theorem lex_string (ws : List RB) (line : Nat) (rs : List Nat) (rest : List RB)
    (h : ∀ r ∈ rs, r ≠ 10 ∧ r ≠ 0) :
    lexFrom (.start ws) line ((a1 34 :: (rs.flatMap escRB ++ [a1 34])) ++ rest) =
      { typ := tString, val := a1 34 :: (rs.flatMap escRB ++ [a1 34]), line := line } ::
        lexFrom (.start []) line rest := by
  have s1 : step (.start ws) line (a1 34) = ([], some (.str [a1 34] false, line)) := by
    simp [step, startStep, a1, isSpace, isLetter, inR]
  have s2 : ∀ acc, step (.str acc false) line (a1 34) =
      ([{ typ := tString, val := acc ++ [a1 34], line := line }], some (.start [], line)) := by
    intro acc; simp [step, a1]
  simp only [List.cons_append, List.append_assoc]
  rw [lex_move _ _ line _ _ s1, str_body line rs _ _ h, List.cons_append, List.nil_append,
    lex_emit _ line line _ _ _ (s2 _)]
  simp

/-! ### items that end by themselves, hyphen and bar -/

theorem single_mem (c typ : Nat) (h : singleChar c = some typ) : (c, typ) ∈ Gen.dslSingleCharTokens := by
  unfold singleChar at h
  cases hf : Gen.dslSingleCharTokens.find? (·.1 == c) with
  | none => rw [hf] at h; simp at h
  | some e =>
    rw [hf] at h
    simp at h
    have h1 := List.mem_of_find?_eq_some hf
    have h2 := List.find?_some hf
    simp at h2
    have : e = (c, typ) := by cases e; simp_all
    rw [← this]; exact h1

theorem lex_single (ws : List RB) (line c typ : Nat) (rest : List RB) (h : singleChar c = some typ) :
    lexFrom (.start ws) line (a1 c :: rest) =
      { typ := typ, val := [a1 c], line := line } :: lexFrom (.start []) line rest := by
  have hm := single_mem c typ h
  apply lex_emit
  simp [Gen.dslSingleCharTokens] at hm
  rcases hm with ⟨rfl, rfl⟩ | ⟨rfl, rfl⟩ | ⟨rfl, rfl⟩ | ⟨rfl, rfl⟩ | ⟨rfl, rfl⟩ | ⟨rfl, rfl⟩ | ⟨rfl, rfl⟩ |
    ⟨rfl, rfl⟩ | ⟨rfl, rfl⟩ <;>
    simp [step, startStep, a1, isSpace, isLetter, inR, singleChar, Gen.dslSingleCharTokens]

theorem lex_arrow (ws : List RB) (line : Nat) (rest : List RB) :
    lexFrom (.start ws) line (a1 45 :: a1 62 :: rest) =
      { typ := tArrow, val := [a1 45, a1 62], line := line } :: lexFrom (.start []) line rest := by
  have s1 : step (.start ws) line (a1 45) = ([], some (.hyphen (a1 45), line)) := by
    simp [step, startStep, a1, isSpace, isLetter, inR, singleChar, Gen.dslSingleCharTokens]
  rw [lex_move _ _ line _ _ s1]
  apply lex_emit
  simp [step, a1]

theorem lex_or (ws : List RB) (line : Nat) (rest : List RB) :
    lexFrom (.start ws) line (a1 124 :: a1 124 :: rest) =
      { typ := tOr, val := [a1 124, a1 124], line := line } :: lexFrom (.start []) line rest := by
  have s1 : step (.start ws) line (a1 124) = ([], some (.bar (a1 124), line)) := by
    simp [step, startStep, a1, isSpace, isLetter, inR, singleChar, Gen.dslSingleCharTokens]
  rw [lex_move _ _ line _ _ s1]
  apply lex_emit
  simp [step, a1]

theorem lex_eol (ws : List RB) (line : Nat) (rest : List RB) :
    lexFrom (.start ws) line (a1 10 :: rest) =
      { typ := tEOL, val := [a1 10], line := line } :: lexFrom (.start []) (line + 1) rest := by
  apply lex_emit
  simp [step, startStep, a1]

theorem lex_hyphen (ws : List RB) (line : Nat) (rest : List RB)
    (h : ∀ r, rest.head?.map (·.1) = some r → r ≠ 62 ∧ inR 48 57 r = false) :
    lexFrom (.start ws) line (a1 45 :: rest) =
      { typ := tHyphen, val := [a1 45], line := line } :: lexFrom (.start []) line rest := by
  have s1 : step (.start ws) line (a1 45) = ([], some (.hyphen (a1 45), line)) := by
    simp [step, startStep, a1, isSpace, isLetter, inR, singleChar, Gen.dslSingleCharTokens]
  rw [lex_move _ _ line _ _ s1]
  cases rest with
  | nil => rfl
  | cons d r' =>
    have hd := h d.1 (by simp)
    apply lex_restart
    have e : (d.1 == 62) = false := by simp [hd.1]
    simp only [step, e, hd.2, Bool.false_eq_true, if_false]

theorem lex_bar (ws : List RB) (line : Nat) (rest : List RB)
    (h : ∀ r, rest.head?.map (·.1) = some r → r ≠ 124) :
    lexFrom (.start ws) line (a1 124 :: rest) =
      { typ := tBar, val := [a1 124], line := line } :: lexFrom (.start []) line rest := by
  have s1 : step (.start ws) line (a1 124) = ([], some (.bar (a1 124), line)) := by
    simp [step, startStep, a1, isSpace, isLetter, inR, singleChar, Gen.dslSingleCharTokens]
  rw [lex_move _ _ line _ _ s1]
  cases rest with
  | nil => rfl
  | cons d r' =>
    have hd := h d.1 (by simp)
    apply lex_restart
    have e : (d.1 == 124) = false := by simp [hd]
    simp only [step, e, Bool.false_eq_true, if_false]

/-! ### pieces -/

/-- the lexeme `val` is a well-formed item of kind `typ`, and the rune that follows it (if any)
does not continue it -/
def TokOk (typ : Nat) (val : List RB) (nx : Option Nat) : Prop :=
  (typ = tIdentifier ∧ ∃ c cs, val = c :: cs ∧ isIdentStart c.1 = true ∧
      (∀ x ∈ cs, isIdentChar x.1 = true) ∧ ∀ r, nx = some r → isIdentChar r = false) ∨
  (typ = tInteger ∧ IntShape val ∧ ∀ r, nx = some r → inR 48 57 r = false) ∨
  (typ = tString ∧ ∃ rs : List Nat, val = a1 34 :: (rs.flatMap escRB ++ [a1 34]) ∧ ∀ r ∈ rs, r ≠ 10 ∧ r ≠ 0) ∨
  (∃ c, val = [a1 c] ∧ singleChar c = some typ) ∨
  (typ = tArrow ∧ val = [a1 45, a1 62]) ∨
  (typ = tOr ∧ val = [a1 124, a1 124]) ∨
  (typ = tEOL ∧ val = [a1 10]) ∨
  (typ = tHyphen ∧ val = [a1 45] ∧ ∀ r, nx = some r → r ≠ 62 ∧ inR 48 57 r = false) ∨
  (typ = tBar ∧ val = [a1 124] ∧ ∀ r, nx = some r → r ≠ 124)

def nextLine (typ line : Nat) : Nat := if typ = tEOL then line + 1 else line

theorem single_not_eol (c typ : Nat) (h : singleChar c = some typ) : typ ≠ tEOL := by
  have hm := single_mem c typ h
  simp [Gen.dslSingleCharTokens] at hm
  rcases hm with ⟨_, rfl⟩ | ⟨_, rfl⟩ | ⟨_, rfl⟩ | ⟨_, rfl⟩ | ⟨_, rfl⟩ | ⟨_, rfl⟩ | ⟨_, rfl⟩ | ⟨_, rfl⟩ | ⟨_, rfl⟩ <;>
    decide

theorem lex_tok (ws : List RB) (line typ : Nat) (val rest : List RB)
    (h : TokOk typ val (rest.head?.map (·.1))) :
    lexFrom (.start ws) line (val ++ rest) =
      { typ := typ, val := val, line := line } :: lexFrom (.start []) (nextLine typ line) rest := by
  rcases h with ⟨rfl, c, cs, rfl, h1, h2, h3⟩ | ⟨rfl, hv, h3⟩ | ⟨rfl, rs, rfl, hr⟩ | ⟨c, rfl, hc⟩ |
    ⟨rfl, rfl⟩ | ⟨rfl, rfl⟩ | ⟨rfl, rfl⟩ | ⟨rfl, rfl, h3⟩ | ⟨rfl, rfl, h3⟩
  · exact lex_ident ws line c cs rest h1 h2 h3
  · exact lex_int ws line val rest hv h3
  · exact lex_string ws line rs rest hr
  · have := single_not_eol c typ hc
    simp only [nextLine, this, if_false]
    exact lex_single ws line c typ rest hc
  · exact lex_arrow ws line rest
  · exact lex_or ws line rest
  · exact lex_eol ws line rest
  · exact lex_hyphen ws line rest h3
  · exact lex_bar ws line rest h3

/-- the rune following the pieces `ps` in the text, `nx` being what follows the whole text -/
def nextRune (ps : List Piece) (nx : Option Nat) : Option Nat :=
  match (render ps).head? with
  | some c => some c.1
  | none => nx

def ChainOk : List Piece → Option Nat → Prop
  | [], _ => True
  | .ws w :: ps, nx => (∀ c ∈ w, wsChar c = true) ∧ ChainOk ps nx
  | .tok typ val :: ps, nx => TokOk typ val (nextRune ps nx) ∧ ChainOk ps nx

/-- the items the lexer is to find in the pieces, with their line numbers -/
def mkToks : Nat → List Piece → List Tok
  | _, [] => []
  | line, .ws _ :: ps => mkToks line ps
  | line, .tok typ val :: ps => { typ := typ, val := val, line := line } :: mkToks (nextLine typ line) ps

def endLine : Nat → List Piece → Nat
  | line, [] => line
  | line, .ws _ :: ps => endLine line ps
  | line, .tok typ _ :: ps => endLine (nextLine typ line) ps

theorem head_render_append (ps : List Piece) (rest : List RB) :
    (render ps ++ rest).head?.map (·.1) = nextRune ps (rest.head?.map (·.1)) := by
  unfold nextRune
  cases h : render ps with
  | nil => simp
  | cons c cs => simp

theorem render_cons (p : Piece) (ps : List Piece) : render (p :: ps) = p.rbs ++ render ps := by
  simp [render]

/-- Lexing rendered pieces: the lexer finds exactly the lexemes, in order, and continues after
them in `lexStart` (possibly having skipped some blanks `w`). -/
theorem lex_pieces (ps : List Piece) : ∀ (ws : List RB) (line : Nat) (rest : List RB),
    ChainOk ps (rest.head?.map (·.1)) →
    ∃ w, lexFrom (.start ws) line (render ps ++ rest) =
      mkToks line ps ++ lexFrom (.start w) (endLine line ps) rest := by
  induction ps with
  | nil => intro ws line rest _; exact ⟨ws, by simp [render, mkToks, endLine]⟩
  | cons p ps ih =>
    intro ws line rest h
    cases p with
    | ws w =>
      obtain ⟨hw, hc⟩ := h
      obtain ⟨w', e⟩ := ih (ws ++ w) line rest hc
      refine ⟨w', ?_⟩
      rw [render_cons, List.append_assoc]
      simp only [Piece.rbs, mkToks, endLine]
      rw [start_skip_all w ws line _ hw, e]
    | tok typ val =>
      obtain ⟨ht, hc⟩ := h
      obtain ⟨w', e⟩ := ih [] (nextLine typ line) rest hc
      refine ⟨w', ?_⟩
      rw [render_cons, List.append_assoc]
      simp only [Piece.rbs, mkToks, endLine]
      rw [lex_tok ws line typ val _ (by rw [head_render_append]; exact ht), e]
      simp

theorem chain_append (a b : List Piece) (nx : Option Nat) (ha : ChainOk a (nextRune b nx)) (hb : ChainOk b nx) :
    ChainOk (a ++ b) nx := by
  induction a with
  | nil => simpa using hb
  | cons p a ih =>
    cases p with
    | ws w => exact ⟨ha.1, ih ha.2⟩
    | tok typ val =>
      refine ⟨?_, ih ha.2⟩
      have : nextRune (a ++ b) nx = nextRune a (nextRune b nx) := by
        unfold nextRune
        simp only [render, List.flatMap_append]
        cases h : List.flatMap Piece.rbs a with
        | nil => simp
        | cons c cs => simp
      show TokOk typ val (nextRune (a ++ b) nx)
      rw [this]
      exact ha.1

end SfntV.Dsl
