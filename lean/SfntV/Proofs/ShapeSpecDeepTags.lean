/-
C06, contextual lookups nested to any depth: the bookkeeping of ShapeSpecInsSpec / ShapeSpecMergeSpec
for the tags of an arbitrary depth `d` (`FormD`, `OutD`, `flagsD`); the tags of the other depths
are payload, the position operated on need not be an input position.
-/
import SfntV.Proofs.ShapeSpecDeepBase
import SfntV.Proofs.ShapeSpecMergeSpec
namespace SfntV.C06
open SfntV
open SfntV.Spec.Shape (TG gl CtxMatch tagWindow inputPositions windowEnd)

/-! ## tools -/

theorem SameTags.hasInp {c c' : TG} (h : SameTags c c') (d : Nat) : c'.hasInp d = c.hasInp d := by
  simp only [TG.hasInp, h.1]

theorem SameTags.hasWin {c c' : TG} (h : SameTags c c') (d : Nat) : c'.hasWin d = c.hasWin d := by
  simp only [TG.hasWin, h.2]

theorem SameTags.outD {c c' : TG} (h : SameTags c c') {e : Nat} (ho : OutD e c) : OutD e c' :=
  ⟨by rw [h.hasWin]; exact ho.1, by rw [h.hasInp]; exact ho.2⟩

@[simp] theorem flagsD_nil (d : Nat) : flagsD d [] = [] := rfl
@[simp] theorem flagsD_cons (d : Nat) (t : TG) (ts : List TG) :
    flagsD d (t :: ts) = (t.hasInp d, t.hasWin d) :: flagsD d ts := rfl
@[simp] theorem flagsD_append (d : Nat) (a b : List TG) : flagsD d (a ++ b) = flagsD d a ++ flagsD d b := by
  simp [flagsD]
@[simp] theorem flagsD_length (d : Nat) (a : List TG) : (flagsD d a).length = a.length := by simp [flagsD]
theorem flagsD_reverse (d : Nat) (a : List TG) : flagsD d a.reverse = (flagsD d a).reverse := by simp [flagsD]
theorem flagsD_take (d : Nat) (a : List TG) (n : Nat) : flagsD d (a.take n) = (flagsD d a).take n := by
  simp [flagsD]
theorem flagsD_drop (d : Nat) (a : List TG) (n : Nat) : flagsD d (a.drop n) = (flagsD d a).drop n := by
  simp [flagsD]

theorem length_eq_of_flagsD {d : Nat} {ts ts' : List TG} (h : flagsD d ts = flagsD d ts') :
    ts.length = ts'.length := by
  have := congrArg List.length h
  simpa using this

theorem forall_flags_congr {d : Nat} (Q : Bool × Bool → Prop) {l l' : List TG} (h : flagsD d l = flagsD d l')
    (hp : ∀ x ∈ l', Q (x.hasInp d, x.hasWin d)) : ∀ x ∈ l, Q (x.hasInp d, x.hasWin d) := by
  intro x hx
  have hm : (x.hasInp d, x.hasWin d) ∈ flagsD d l := List.mem_map.mpr ⟨x, hx, rfl⟩
  rw [h] at hm
  obtain ⟨y, hy, hxy⟩ := List.mem_map.mp hm
  rw [← hxy]
  exact hp y hy

theorem ipk_none (d : Nat) : ∀ (l : List TG) (k : Nat), (∀ x ∈ l, x.hasInp d = false) → ipk d l k = [] := by
  intro l
  induction l with
  | nil => intro k _; rfl
  | cons t l ih =>
    intro k h
    rw [ipk_cons, h t List.mem_cons_self, ih (k + 1) (fun x hx => h x (List.mem_cons_of_mem _ hx))]
    rfl

theorem ipk_out (d : Nat) (l : List TG) (k : Nat) (h : ∀ x ∈ l, OutD d x) : ipk d l k = [] :=
  ipk_none d l k (fun x hx => (h x hx).2)

theorem ipk_flags (d : Nat) : ∀ (ts ts' : List TG) (k : Nat), flagsD d ts = flagsD d ts' →
    ipk d ts k = ipk d ts' k := by
  intro ts
  induction ts with
  | nil =>
    intro ts' k h
    cases ts' with
    | nil => rfl
    | cons t' ts' => simp at h
  | cons t ts ih =>
    intro ts' k h
    cases ts' with
    | nil => simp at h
    | cons t' ts' =>
      simp only [flagsD_cons, List.cons.injEq, Prod.mk.injEq] at h
      obtain ⟨⟨h1, _⟩, h2⟩ := h
      rw [ipk_cons, ipk_cons, h1, ih ts' (k + 1) h2]

theorem takeWhile_notWin_flags (d : Nat) : ∀ (ts ts' : List TG), flagsD d ts = flagsD d ts' →
    (ts.takeWhile fun t => !t.hasWin d).length = (ts'.takeWhile fun t => !t.hasWin d).length := by
  intro ts
  induction ts with
  | nil =>
    intro ts' h
    cases ts' with
    | nil => rfl
    | cons t' ts' => simp at h
  | cons t ts ih =>
    intro ts' h
    cases ts' with
    | nil => simp at h
    | cons t' ts' =>
      simp only [flagsD_cons, List.cons.injEq, Prod.mk.injEq] at h
      obtain ⟨⟨_, h1⟩, h2⟩ := h
      simp only [List.takeWhile_cons, h1]
      split
      · simp only [List.length_cons, ih ts' h2]
      · rfl

/-! ## (D1) (D2) -/

theorem formD_inputPositions {d a : Nat} {P A D ts : List TG} (h : FormD d a P A D ts) :
    inputPositions d ts = (inputPositions d A).map (· + a) := by
  rw [inputPositions_eq_ipk, inputPositions_eq_ipk, h.eq, ipk_append, ipk_append,
    ipk_out d P 0 h.outP, ipk_out d D _ h.outD, List.nil_append, List.append_nil, h.len, ipk_shift]

theorem formD_windowEnd {d a : Nat} {P A D ts : List TG} (h : FormD d a P A D ts) (hne : A ≠ []) :
    windowEnd d ts = a + A.length := by
  unfold windowEnd
  rw [h.eq, List.reverse_append, List.reverse_append]
  have hdr : ∀ t ∈ D.reverse, (!t.hasWin d) = true := by
    intro t ht
    rw [(h.outD t (List.mem_reverse.mp ht)).1]; rfl
  rw [List.takeWhile_append_of_pos hdr]
  have hstop : ((A.reverse ++ P.reverse).takeWhile fun t => !t.hasWin d) = [] := by
    have hT : ∀ x ∈ A.reverse, x.hasWin d = true := fun x hx => h.inA x (List.mem_reverse.mp hx)
    have hne' : A.reverse ≠ [] := by simpa using hne
    cases hr : A.reverse with
    | nil => exact absurd hr hne'
    | cons x r =>
      rw [hr] at hT
      rw [List.cons_append, List.takeWhile_cons_of_neg]
      rw [hT x List.mem_cons_self]; decide
  rw [hstop, List.append_nil, List.length_reverse]
  simp only [List.length_append, h.len]
  omega

theorem formD_length {d a : Nat} {P A D ts : List TG} (h : FormD d a P A D ts) : a + A.length ≤ ts.length := by
  rw [h.eq]
  simp only [List.length_append, h.len]
  omega

/-! ## (D3) -/

theorem flagsD_congr {d : Nat} {ts ts' : List TG} (h : flagsD d ts = flagsD d ts') :
    inputPositions d ts = inputPositions d ts' ∧ windowEnd d ts = windowEnd d ts' := by
  refine ⟨ipk_flags d ts ts' 0 h, ?_⟩
  unfold windowEnd
  rw [length_eq_of_flagsD h]
  have h' : flagsD d ts.reverse = flagsD d ts'.reverse := by rw [flagsD_reverse, flagsD_reverse, h]
  rw [takeWhile_notWin_flags d _ _ h']

/-! ## (D4) -/

theorem formD_replace {d a : Nat} {P A D ts : List TG} (h : FormD d a P A D ts) (j : Nat) (cur : TG)
    (dn : List TG) (hj : ts[j]? = some cur) (ha : a ≤ j) (hlt : j < a + A.length)
    (hdn : ∀ x ∈ dn, SameTags cur x) :
    FormD d a P (A.take (j - a) ++ dn ++ A.drop (j - a + 1)) D (ts.take j ++ dn ++ ts.drop (j + 1))
    ∧ A[j - a]? = some cur := by
  have hlen := h.len
  have hA : A[j - a]? = some cur := by
    rw [h.eq, List.append_assoc, List.getElem?_append_right (by omega), hlen,
      List.getElem?_append_left (by omega)] at hj
    exact hj
  have hcur := h.inA cur (List.mem_of_getElem? hA)
  have hje : j = P.length + (j - a) := by omega
  refine ⟨⟨?_, hlen, h.outP, ?_, h.outD⟩, hA⟩
  · rw [h.eq]
    conv => lhs; rw [hje]
    exact replace_mid P A D dn (j - a) (by omega)
  · intro x hx
    simp only [List.mem_append] at hx
    rcases hx with (hx | hx) | hx
    · exact h.inA x (List.mem_of_mem_take hx)
    · rw [(hdn x hx).hasWin]; exact hcur
    · exact h.inA x (List.mem_of_mem_drop hx)

/-! ## (D5) -/

theorem expand_append (l1 l2 : List Nat) (j k : Nat) : expand (l1 ++ l2) j k = expand l1 j k ++ expand l2 j k := by
  simp only [expand, List.flatMap_append]

theorem expand_low (l : List Nat) (j k : Nat) (h : ∀ p ∈ l, p < j) : expand l j k = l := by
  unfold expand
  rw [flatMap_eq_map (g := id)]
  · simp
  · intro p hp
    rw [if_pos (h p hp)]; rfl

theorem expand_high (l : List Nat) (j k : Nat) (h : ∀ p ∈ l, j < p) : expand l j k = l.map (· + (k - 1)) := by
  unfold expand
  rw [flatMap_eq_map (g := (· + (k - 1)))]
  intro p hp
  have := h p hp
  rw [if_neg (by omega), if_neg (by omega)]

theorem expand_self (j k : Nat) : expand [j] j k = List.range' j k := by
  simp [expand]

theorem ipD_replace {d : Nat} (A : List TG) (i : Nat) (cur : TG) (dn : List TG) (hi : A[i]? = some cur)
    (hne : dn ≠ []) (hdn : ∀ x ∈ dn, SameTags cur x) :
    inputPositions d (A.take i ++ dn ++ A.drop (i + 1)) = expand (inputPositions d A) i dn.length := by
  have hk : 1 ≤ dn.length := by
    cases dn with
    | nil => exact absurd rfl hne
    | cons x l => simp
  have hiA : i < A.length := (List.getElem?_eq_some_iff.mp hi).1
  have hlt : (A.take i).length = i := by simp only [List.length_take]; omega
  have hsplit := split_at A i cur hi
  have h1 : expand (ipk d (A.take i) 0) i dn.length = ipk d (A.take i) 0 := by
    apply expand_low
    intro p hp
    have := ((ipk_bounds d (A.take i) 0).2 p hp).2
    rw [hlt] at this; omega
  have h3 : expand (ipk d (A.drop (i + 1)) (i + 1)) i dn.length = ipk d (A.drop (i + 1)) (i + dn.length) := by
    rw [expand_high]
    · rw [← ipk_shift]; congr 1; omega
    · intro p hp
      have := ((ipk_bounds d (A.drop (i + 1)) (i + 1)).2 p hp).1
      omega
  rw [inputPositions_eq_ipk, inputPositions_eq_ipk]
  conv => rhs; rw [hsplit]
  rw [ipk_append, ipk_append, ipk_append, ipk_append, ipk_cons, expand_append, expand_append]
  simp only [ipk_nil, List.length_append, hlt, List.length_cons, List.length_nil, Nat.zero_add]
  rw [h1, h3]
  cases hc : cur.hasInp d with
  | true =>
    have hall : ∀ x ∈ dn, x.hasInp d = true := fun x hx => by rw [(hdn x hx).hasInp]; exact hc
    simp only [if_true]
    rw [ipk_all d dn _ hall, expand_self]
  | false =>
    have hall : ∀ x ∈ dn, x.hasInp d = false := fun x hx => by rw [(hdn x hx).hasInp]; exact hc
    rw [ipk_none d dn _ hall]
    rfl

/-! ## buffers with the same flags have the same form -/

theorem formD_parts {d a : Nat} {P A D ts : List TG} (h : FormD d a P A D ts) :
    ts.take a = P ∧ (ts.drop a).take A.length = A ∧ (ts.drop a).drop A.length = D := by
  have hd : ts.drop a = A ++ D := by
    rw [h.eq, List.append_assoc]; exact List.drop_left' h.len
  refine ⟨?_, ?_, ?_⟩
  · rw [h.eq, List.append_assoc]; exact List.take_left' h.len
  · rw [hd]; exact List.take_left' rfl
  · rw [hd]; exact List.drop_left' rfl

theorem formD_congr {d a : Nat} {P A D ts ts' : List TG} (hf : flagsD d ts' = flagsD d ts)
    (h : FormD d a P A D ts) : ∃ P' A' D', FormD d a P' A' D' ts' ∧ A'.length = A.length := by
  obtain ⟨p1, p2, p3⟩ := formD_parts h
  have hl := length_eq_of_flagsD hf
  have hlen := formD_length h
  have f1 : flagsD d (ts'.take a) = flagsD d P := by rw [flagsD_take, hf, ← flagsD_take, p1]
  have f2 : flagsD d ((ts'.drop a).take A.length) = flagsD d A := by
    rw [flagsD_take, flagsD_drop, hf, ← flagsD_drop, ← flagsD_take, p2]
  have f3 : flagsD d ((ts'.drop a).drop A.length) = flagsD d D := by
    rw [flagsD_drop, flagsD_drop, hf, ← flagsD_drop, ← flagsD_drop, p3]
  refine ⟨ts'.take a, (ts'.drop a).take A.length, (ts'.drop a).drop A.length, ⟨?_, ?_, ?_, ?_, ?_⟩, ?_⟩
  · rw [List.append_assoc, List.take_append_drop, List.take_append_drop]
  · simp only [List.length_take]; omega
  · exact forall_flags_congr (fun p => p.2 = false ∧ p.1 = false) f1 h.outP
  · exact forall_flags_congr (fun p => p.2 = true) f2 h.inA
  · exact forall_flags_congr (fun p => p.2 = false ∧ p.1 = false) f3 h.outD
  · simp only [List.length_take, List.length_drop]; omega

/-! ## (D8) tagging a new window of depth `d` -/

theorem contains_cons_ne {d d' : Nat} (hd : d' ≠ d) (l : List Nat) : (d :: l).contains d' = l.contains d' := by
  have : (d' == d) = false := by simp only [beq_eq_false_iff_ne, ne_eq]; exact hd
  simp only [List.contains_cons, this, Bool.false_or]

theorem contains_cons_self (d : Nat) (l : List Nat) : (d :: l).contains d = true := by
  simp only [List.contains_cons, BEq.rfl, Bool.true_or]

theorem tagRest_hasWin (d : Nat) (m : CtxMatch) (l : List TG) (j : Nat) :
    ∀ x ∈ (l.zipIdx j).map (tagRest d m), x.hasWin d = true := by
  intro x hx
  obtain ⟨p, _, hpx⟩ := List.mem_map.mp hx
  obtain ⟨t, i⟩ := p
  rw [← hpx, tagRest_mk]
  exact contains_cons_self d t.win

theorem tagRest_flags {d d' : Nat} (hd : d' ≠ d) (m : CtxMatch) : ∀ (l : List TG) (j : Nat),
    flagsD d' ((l.zipIdx j).map (tagRest d m)) = flagsD d' l := by
  intro l
  induction l with
  | nil => intro j; rfl
  | cons t l ih =>
    intro j
    simp only [List.zipIdx_cons, List.map_cons, flagsD_cons, ih (j + 1), tagRest_mk, TG.hasInp, TG.hasWin,
      contains_cons_ne hd]
    cases m.offs.contains j <;> simp only [if_true, Bool.false_eq_true, if_false, contains_cons_ne hd]

theorem ip_tagRestD (d : Nat) (m : CtxMatch) (c : Nat) : ∀ (l : List TG) (j : Nat),
    (∀ x ∈ l, x.hasInp d = false) →
    ipk d ((l.zipIdx j).map (tagRest d m)) (j + c) =
      ((List.range' j l.length).filter (fun i => m.offs.contains i)).map (· + c) := by
  intro l
  induction l with
  | nil => intro j _; rfl
  | cons t l ih =>
    intro j hc
    have ht := hc t List.mem_cons_self
    have hrest := ih (j + 1) (fun y hy => hc y (List.mem_cons_of_mem _ hy))
    have hjc : j + c + 1 = j + 1 + c := by omega
    have hin : (tagRest d m (t, j)).hasInp d = m.offs.contains j := by
      rw [tagRest_mk]
      simp only [TG.hasInp] at ht ⊢
      cases m.offs.contains j with
      | true => simp only [if_true]; exact contains_cons_self d t.inp
      | false => simp only [Bool.false_eq_true, if_false]; exact ht
    simp only [List.zipIdx_cons, List.map_cons, List.length_cons, List.range'_succ]
    rw [ipk_cons, hin, hjc, hrest]
    cases hcj : m.offs.contains j with
    | true => simp only [List.filter_cons, hcj, ↓reduceIte, List.map_cons]
    | false => simp only [List.filter_cons, hcj, ↓reduceIte, Bool.false_eq_true]

section tagD
variable (d : Nat) (pre post : List TG) (cur : TG) (m : CtxMatch)

theorem tagD_form (hout : ∀ t ∈ pre.reverse ++ cur :: post, OutD d t) (hw : m.wlen ≤ post.length) :
    FormD d pre.length pre.reverse (tagWindow d m cur post) (post.drop m.wlen)
      (pre.reverse ++ tagWindow d m cur post ++ post.drop m.wlen)
    ∧ tagWindow d m cur post ≠ [] ∧ (tagWindow d m cur post).length = 1 + m.wlen := by
  refine ⟨⟨rfl, List.length_reverse, ?_, ?_, ?_⟩, ?_, ?_⟩
  · exact fun t ht => hout t (List.mem_append_left _ ht)
  · rw [tagWindow_eq]
    intro x hx
    rcases List.mem_cons.mp hx with hx | hx
    · subst hx; exact contains_cons_self d cur.win
    · exact tagRest_hasWin d m _ 0 x hx
  · exact fun t ht => hout t (List.mem_append_right _ (List.mem_cons_of_mem _ (List.mem_of_mem_drop ht)))
  · rw [tagWindow_eq]; exact List.cons_ne_nil _ _
  · rw [tagWindow_eq]
    simp only [List.length_cons, tagRest_length, List.length_take]
    omega

theorem tagD_inputPositions (hout : ∀ t ∈ pre.reverse ++ cur :: post, OutD d t) (hw : m.wlen ≤ post.length)
    (hs : m.offs.Pairwise (· < ·)) (hb : ∀ o ∈ m.offs, o < m.wlen) :
    inputPositions d (pre.reverse ++ tagWindow d m cur post ++ post.drop m.wlen) =
      pre.length :: m.offs.map (· + (pre.length + 1)) := by
  have hpr : ∀ t ∈ pre.reverse, OutD d t := fun t ht => hout t (List.mem_append_left _ ht)
  have hpost : ∀ t ∈ post, OutD d t :=
    fun t ht => hout t (List.mem_append_right _ (List.mem_cons_of_mem _ ht))
  have htk : ∀ t ∈ post.take m.wlen, t.hasInp d = false := fun t ht => (hpost t (List.mem_of_mem_take ht)).2
  have hdr : ∀ t ∈ post.drop m.wlen, OutD d t := fun t ht => hpost t (List.mem_of_mem_drop ht)
  have hlen : (post.take m.wlen).length = m.wlen := by simp only [List.length_take]; omega
  have hcur : TG.hasInp d { cur with inp := d :: cur.inp, win := d :: cur.win } = true :=
    contains_cons_self d cur.inp
  have hwin := ip_tagRestD d m (pre.length + 1) (post.take m.wlen) 0 htk
  rw [hlen, filter_range'_contains m.wlen 0 m.offs hs (fun o ho => ⟨Nat.zero_le _, by have := hb o ho; omega⟩),
    Nat.zero_add] at hwin
  rw [inputPositions_eq_ipk, tagWindow_eq, ipk_append, ipk_append, ipk_out d _ _ hpr, ipk_out d _ _ hdr,
    ipk_cons, hcur, List.length_reverse, Nat.zero_add, hwin]
  simp only [if_true, List.nil_append, List.append_nil]

theorem tagD_gl :
    gl (pre.reverse ++ tagWindow d m cur post ++ post.drop m.wlen) = gl (pre.reverse ++ cur :: post) := by
  rw [tagWindow_eq]
  simp only [Spec.Shape.gl_append, Spec.Shape.gl_cons, tagRest_gl, List.append_assoc, List.cons_append]
  rw [← Spec.Shape.gl_append, List.take_append_drop]

theorem tagD_length :
    (pre.reverse ++ tagWindow d m cur post ++ post.drop m.wlen).length = (pre.reverse ++ cur :: post).length := by
  have := congrArg List.length (tagD_gl d pre post cur m)
  simpa only [Spec.Shape.gl_length] using this

theorem tagD_other (d' : Nat) (hd : d' ≠ d) :
    flagsD d' (pre.reverse ++ tagWindow d m cur post ++ post.drop m.wlen) = flagsD d' (pre.reverse ++ cur :: post) := by
  rw [tagWindow_eq]
  simp only [flagsD_append, flagsD_cons, tagRest_flags hd, TG.hasInp, TG.hasWin, contains_cons_ne hd,
    List.append_assoc, List.cons_append]
  rw [← flagsD_append, List.take_append_drop]

theorem tagD_formOther (d' : Nat) (hd : d' ≠ d) {a : Nat} {P A D : List TG}
    (h : FormD d' a P A D (pre.reverse ++ cur :: post)) :
    ∃ P' A' D', FormD d' a P' A' D' (pre.reverse ++ tagWindow d m cur post ++ post.drop m.wlen) ∧
      A'.length = A.length :=
  formD_congr (tagD_other d pre post cur m d' hd) h

end tagD

/-! ## (D9) the match of depth `d` is finished -/

theorem filter_ne_contains_self (d : Nat) (l : List Nat) : (l.filter (· != d)).contains d = false := by
  cases hc : (l.filter (· != d)).contains d with
  | false => rfl
  | true =>
    have hm : d ∈ l.filter (· != d) := List.contains_iff_mem.mp hc
    have := (List.mem_filter.mp hm).2
    simp at this

theorem filter_ne_contains_ne {d d' : Nat} (hd : d' ≠ d) (l : List Nat) :
    (l.filter (· != d)).contains d' = l.contains d' := by
  induction l with
  | nil => rfl
  | cons x l ih =>
    by_cases hx : x = d
    · subst hx
      have : (x != x) = false := by simp
      rw [List.filter_cons, this, contains_cons_ne hd]
      simpa using ih
    · have : (x != d) = true := by simp [hx]
      rw [List.filter_cons, this]
      simp only [if_true, List.contains_cons, ih]

theorem untag_outD (d : Nat) (t : TG) : OutD d (t.untag d) :=
  ⟨filter_ne_contains_self d t.win, filter_ne_contains_self d t.inp⟩

theorem untag_flags {d d' : Nat} (hd : d' ≠ d) (t : TG) :
    ((t.untag d).hasInp d', (t.untag d).hasWin d') = (t.hasInp d', t.hasWin d') := by
  simp only [TG.untag, TG.hasInp, TG.hasWin, filter_ne_contains_ne hd]

theorem untag_flagsD {d d' : Nat} (hd : d' ≠ d) (l : List TG) : flagsD d' (l.map (TG.untag d)) = flagsD d' l := by
  induction l with
  | nil => rfl
  | cons t l ih => rw [List.map_cons, flagsD_cons, flagsD_cons, ih, ← untag_flags hd t]

theorem untag_gl (d : Nat) (l : List TG) : gl (l.map (TG.untag d)) = gl l := by
  induction l with
  | nil => rfl
  | cons t l ih => rw [List.map_cons, Spec.Shape.gl_cons, Spec.Shape.gl_cons, ih]; rfl

theorem untagD_split {d a : Nat} {P A D ts2 : List TG} (h : FormD d a P A D ts2) :
    (ts2.drop a).takeWhile (TG.hasWin d) = A ∧ (ts2.drop a).dropWhile (TG.hasWin d) = D ∧ ts2.take a = P := by
  have hd : ts2.drop a = A ++ D := by
    rw [h.eq, List.append_assoc]; exact List.drop_left' h.len
  have hD1 : D.takeWhile (TG.hasWin d) = [] := by
    cases hD : D with
    | nil => rfl
    | cons t l =>
      rw [List.takeWhile_cons_of_neg]
      rw [(h.outD t (by rw [hD]; exact List.mem_cons_self)).1]; exact Bool.false_ne_true
  have hD2 : D.dropWhile (TG.hasWin d) = D := by
    cases hD : D with
    | nil => rfl
    | cons t l =>
      rw [List.dropWhile_cons_of_neg]
      rw [(h.outD t (by rw [hD]; exact List.mem_cons_self)).1]; exact Bool.false_ne_true
  refine ⟨?_, ?_, (formD_parts h).1⟩
  · rw [hd, List.takeWhile_append_of_pos h.inA, hD1, List.append_nil]
  · rw [hd, List.dropWhile_append_of_pos h.inA, hD2]

theorem untagD_gl {d a : Nat} {P A D ts2 : List TG} (h : FormD d a P A D ts2) :
    gl (P ++ A.map (TG.untag d) ++ D) = gl ts2 := by
  rw [h.eq]
  simp only [Spec.Shape.gl_append, untag_gl]

theorem untagD_out {d a : Nat} {P A D ts2 : List TG} (h : FormD d a P A D ts2) :
    ∀ t ∈ P ++ A.map (TG.untag d) ++ D, OutD d t := by
  intro t ht
  simp only [List.mem_append, List.mem_map] at ht
  rcases ht with (ht | ⟨x, _, hx⟩) | ht
  · exact h.outP t ht
  · rw [← hx]; exact untag_outD d x
  · exact h.outD t ht

theorem untagD_other {d a : Nat} {P A D ts2 : List TG} (h : FormD d a P A D ts2) (d' : Nat) (hd : d' ≠ d) :
    flagsD d' (P ++ A.map (TG.untag d) ++ D) = flagsD d' ts2 := by
  rw [h.eq]
  simp only [flagsD_append, untag_flagsD hd]

theorem untagD_formOther {d a : Nat} {P A D ts2 : List TG} (h : FormD d a P A D ts2) (d' : Nat) (hd : d' ≠ d)
    {a' : Nat} {P' A' D' : List TG} (h' : FormD d' a' P' A' D' ts2) :
    ∃ P'' A'' D'', FormD d' a' P'' A'' D'' (P ++ A.map (TG.untag d) ++ D) ∧ A''.length = A'.length :=
  formD_congr (untagD_other h d' hd) h'

/-! ## (D6) a ligature inside the window -/

theorem formD_merge {d a : Nat} {P A D ts : List TG} (h : FormD d a P A D ts) (kp : Nat → Bool) (j used : Nat)
    (cur lig : TG) (hj : ts[j]? = some cur) (ha : a ≤ j) (hu : j + 1 + used ≤ a + A.length)
    (hl : SameTags cur lig) :
    FormD d a P (A.take (j - a) ++ (lig :: ((A.drop (j - a + 1)).take used).filter (fun t => !kp t.g.gid)) ++
        A.drop (j - a + 1 + used)) D
      (ts.take j ++ (lig :: ((ts.drop (j + 1)).take used).filter (fun t => !kp t.g.gid)) ++ ts.drop (j + 1 + used))
    ∧ A[j - a]? = some cur ∧ (ts.drop (j + 1)).take used = (A.drop (j - a + 1)).take used := by
  have hlen := h.len
  have hA : A[j - a]? = some cur := by
    rw [h.eq, List.append_assoc, List.getElem?_append_right (by omega), hlen,
      List.getElem?_append_left (by omega)] at hj
    exact hj
  have hcur := h.inA cur (List.mem_of_getElem? hA)
  have e0 : j = P.length + (j - a) := by omega
  have e1 : j + 1 = P.length + (j - a + 1) := by omega
  have e2 : j + 1 + used = P.length + (j - a + 1 + used) := by omega
  have htake : ts.take j = P ++ A.take (j - a) := by
    conv => lhs; rw [h.eq, List.append_assoc, e0, List.take_length_add_append]
    rw [List.take_append_of_le_length (by omega)]
  have hdrop1 : ts.drop (j + 1) = A.drop (j - a + 1) ++ D := by
    rw [h.eq, List.append_assoc, e1, List.drop_length_add_append, List.drop_append_of_le_length (by omega)]
  have hdrop2 : ts.drop (j + 1 + used) = A.drop (j - a + 1 + used) ++ D := by
    rw [h.eq, List.append_assoc, e2, List.drop_length_add_append, List.drop_append_of_le_length (by omega)]
  have hreg : (ts.drop (j + 1)).take used = (A.drop (j - a + 1)).take used := by
    rw [hdrop1, List.take_append_of_le_length (by simp only [List.length_drop]; omega)]
  refine ⟨⟨?_, hlen, h.outP, ?_, h.outD⟩, hA, hreg⟩
  · rw [hreg, htake, hdrop2]
    simp only [List.append_assoc, List.cons_append]
  · intro x hx
    simp only [List.mem_append, List.mem_cons] at hx
    rcases hx with (hx | hx | hx) | hx
    · exact h.inA x (List.mem_of_mem_take hx)
    · subst hx
      rw [hl.hasWin]; exact hcur
    · exact h.inA x (List.mem_of_mem_drop (List.mem_of_mem_take (List.mem_filter.mp hx).1))
    · exact h.inA x (List.mem_of_mem_drop hx)

/-- the matched region: a glyph at absolute position `k + r` is deleted exactly when `k + r ∈ cs` -/
theorem merge_midD (d : Nat) (kp : Nat → Bool) (cs : List Nat) (hcs : cs.Pairwise (· < ·)) : ∀ (R : List TG) (k n : Nat),
    (∀ r t, R[r]? = some t → (kp t.g.gid = true ↔ k + r ∈ cs)) → (cs.filter (· < k)).length = n → n ≤ k →
    mergePos (ipk d R k) cs = ipk d (R.filter fun t => !kp t.g.gid) (k - n) ∧
    (R.filter fun t => !kp t.g.gid).length + (cs.filter (· < k + R.length)).length = R.length + n := by
  intro R
  induction R with
  | nil =>
    intro k n _ hn _
    refine ⟨rfl, ?_⟩
    simp only [List.filter_nil, List.length_nil, Nat.add_zero, Nat.zero_add, hn]
  | cons t R ih =>
    intro k n hk hn hnk
    have hk0 := hk 0 t (by simp)
    have hk' : ∀ r t', R[r]? = some t' → (kp t'.g.gid = true ↔ k + 1 + r ∈ cs) := by
      intro r t' hr
      have := hk (r + 1) t' (by rw [List.getElem?_cons_succ]; exact hr)
      have e : k + 1 + r = k + (r + 1) := by omega
      rw [e]; exact this
    have hcnt := count_lt_succ cs hcs k
    have elen : k + (t :: R).length = k + 1 + R.length := by simp only [List.length_cons]; omega
    rw [elen]
    cases hkt : kp t.g.gid with
    | true =>
      have hmem : k ∈ cs := by simpa using hk0.mp hkt
      have hc : cs.contains k = true := by simpa using hmem
      rw [hc, hn] at hcnt
      simp only [if_true] at hcnt
      obtain ⟨i1, i2⟩ := ih (k + 1) (n + 1) hk' hcnt (by omega)
      have hf : ((t :: R).filter fun t => !kp t.g.gid) = R.filter fun t => !kp t.g.gid := by
        simp only [List.filter_cons, hkt, Bool.not_true, Bool.false_eq_true, if_false]
      have e : k + 1 - (n + 1) = k - n := by omega
      rw [hf, ← e, ← i1]
      refine ⟨?_, ?_⟩
      · rw [ipk_cons]
        cases t.hasInp d with
        | false => rfl
        | true => simp only [if_true]; exact mergePos_cons_pos k _ cs hc
      · rw [i2]; simp only [List.length_cons]; omega
    | false =>
      have hnm : ¬ k ∈ cs := by
        intro hm
        have := hk0.mpr (by simpa using hm)
        rw [hkt] at this; cases this
      have hc : cs.contains k = false := by
        cases hc : cs.contains k with
        | false => rfl
        | true => exact absurd (by simpa using hc) hnm
      rw [hc, hn] at hcnt
      simp only [Bool.false_eq_true, if_false, Nat.add_zero] at hcnt
      obtain ⟨i1, i2⟩ := ih (k + 1) n hk' hcnt (by omega)
      have hf : ((t :: R).filter fun t => !kp t.g.gid) = t :: R.filter fun t => !kp t.g.gid := by
        simp only [List.filter_cons, hkt, Bool.not_false, if_true]
      have e : k + 1 - n = k - n + 1 := by omega
      rw [hf]
      refine ⟨?_, ?_⟩
      · rw [ipk_cons, ipk_cons, ← e, ← i1]
        cases t.hasInp d with
        | false => rfl
        | true =>
          simp only [if_true]
          rw [mergePos_cons_neg k _ cs hc, hn]
      · simp only [List.length_cons]; omega

/-- the surviving input positions after a ligature; nothing is assumed about which of the glyphs are
input glyphs of depth `d` -/
theorem ipD_merge' {d : Nat} (A : List TG) (kp : Nat → Bool) (i used : Nat) (cur lig : TG) (offs : List Nat)
    (hi : A[i]? = some cur) (hl : SameTags cur lig)
    (hu : i + 1 + used ≤ A.length) (hoffs : offs.Pairwise (· < ·)) (hob : ∀ o ∈ offs, o < used)
    (hk : ∀ r, r < used → ∀ t, (A.drop (i + 1))[r]? = some t → (kp t.g.gid = true ↔ r ∈ offs)) :
    inputPositions d (A.take i ++ (lig :: ((A.drop (i + 1)).take used).filter (fun t => !kp t.g.gid)) ++
        A.drop (i + 1 + used))
      = mergePos (inputPositions d A) (offs.map (· + (i + 1)))
    ∧ (A.take i ++ (lig :: ((A.drop (i + 1)).take used).filter (fun t => !kp t.g.gid)) ++
        A.drop (i + 1 + used)).length + offs.length = A.length := by
  generalize hcs : offs.map (· + (i + 1)) = cs
  generalize hR : (A.drop (i + 1)).take used = R
  generalize hT : A.drop (i + 1 + used) = T
  have hcsm : ∀ c, c ∈ cs ↔ ∃ o ∈ offs, o + (i + 1) = c := by
    intro c; rw [← hcs]; exact List.mem_map
  have hcsp : cs.Pairwise (· < ·) := by
    rw [← hcs]
    exact List.Pairwise.map _ (fun x y hxy => by omega) hoffs
  have hlt : (A.take i).length = i := by simp only [List.length_take]; omega
  have hRl : R.length = used := by rw [← hR]; simp only [List.length_take, List.length_drop]; omega
  have hTl : T.length = A.length - (i + 1 + used) := by rw [← hT]; simp only [List.length_drop]
  have hligi : lig.hasInp d = cur.hasInp d := hl.hasInp d
  have hA : A = A.take i ++ [cur] ++ R ++ T := by
    conv => lhs; rw [split_at A i cur hi]
    have e : A.drop (i + 1 + used) = (A.drop (i + 1)).drop used := by rw [List.drop_drop]
    rw [← hR, ← hT, e, List.append_assoc _ (List.take used _), List.take_append_drop]
  have hcsb : ∀ c ∈ cs, i + 1 ≤ c ∧ c < i + 1 + used := by
    intro c hc
    obtain ⟨o, ho, hoc⟩ := (hcsm c).mp hc
    have := hob o ho
    omega
  have hnot : ∀ p, (p < i + 1 ∨ i + 1 + used ≤ p) → cs.contains p = false := by
    intro p hp
    cases hc : cs.contains p with
    | false => rfl
    | true =>
      have := hcsb p (List.contains_iff_mem.mp hc)
      omega
  have hlow : ∀ p, p ≤ i + 1 → (cs.filter (· < p)).length = 0 := by
    intro p hp
    rw [List.length_eq_zero_iff, List.filter_eq_nil_iff]
    intro c hc
    have := hcsb c hc
    simp only [decide_eq_true_eq]; omega
  have hhigh : ∀ p, i + 1 + used ≤ p → (cs.filter (· < p)).length = offs.length := by
    intro p hp
    have : cs.filter (· < p) = cs := by
      rw [List.filter_eq_self]
      intro c hc
      have := hcsb c hc
      simp only [decide_eq_true_eq]; omega
    rw [this, ← hcs, List.length_map]
  have hkR : ∀ r t, R[r]? = some t → (kp t.g.gid = true ↔ i + 1 + r ∈ cs) := by
    intro r t hr
    rw [← hR, List.getElem?_take] at hr
    split at hr
    · rename_i hru
      rw [hk r hru t hr, hcsm]
      constructor
      · intro ho; exact ⟨r, ho, by omega⟩
      · rintro ⟨o, ho, hoe⟩
        have : o = r := by omega
        rw [← this]; exact ho
    · cases hr
  obtain ⟨m1, m2⟩ := merge_midD d kp cs hcsp R (i + 1) 0 hkR (hlow (i + 1) (Nat.le_refl _)) (Nat.zero_le _)
  rw [hRl, hhigh (i + 1 + used) (Nat.le_refl _), Nat.add_zero] at m2
  rw [Nat.sub_zero] at m1
  generalize hF : (R.filter fun t => !kp t.g.gid) = F at m1 m2
  refine ⟨?_, ?_⟩
  · generalize hX : (if cur.hasInp d = true then [i] else []) = X
    have hold : ipk d A 0 = ipk d (A.take i) 0 ++ X ++ ipk d R (i + 1) ++ ipk d T (i + 1 + used) := by
      conv => lhs; rw [hA]
      rw [ipk_append, ipk_append, ipk_append, ipk_cons, ← hX]
      simp only [ipk_nil, List.length_append, hlt, hRl, List.length_cons, List.length_nil, Nat.zero_add]
    have hnew : ipk d (A.take i ++ (lig :: F) ++ T) 0 =
        ipk d (A.take i) 0 ++ X ++ ipk d F (i + 1) ++ ipk d T (i + 1 + F.length) := by
      have e : 0 + ((A.take i).length + (lig :: F).length) = i + 1 + F.length := by
        simp only [hlt, List.length_cons]; omega
      rw [ipk_append, ipk_append, ipk_cons, hligi, ← hX, List.length_append, e, hlt, Nat.zero_add]
      cases cur.hasInp d <;> simp
    rw [inputPositions_eq_ipk, inputPositions_eq_ipk, hnew, hold, mergePos_append, mergePos_append,
      mergePos_append, m1]
    have p1 : mergePos (ipk d (A.take i) 0) cs = ipk d (A.take i) 0 := by
      rw [mergePos_eq_map _ cs 0]
      · simp
      · intro p hp
        have := ((ipk_bounds d (A.take i) 0).2 p hp).2
        rw [hlt] at this
        exact ⟨hnot p (by omega), hlow p (by omega)⟩
    have p2 : mergePos X cs = X := by
      rw [← hX]
      cases cur.hasInp d with
      | false => rfl
      | true =>
        simp only [if_true]
        rw [mergePos_cons_neg i [] cs (hnot i (by omega)), hlow i (by omega)]
        rfl
    have p3 : mergePos (ipk d T (i + 1 + used)) cs = ipk d T (i + 1 + F.length) := by
      rw [mergePos_eq_map _ cs offs.length]
      · have e : i + 1 + used = i + 1 + F.length + offs.length := by omega
        rw [e, ipk_shift, List.map_map]
        refine (List.map_congr_left (fun x _ => ?_)).trans (List.map_id _)
        show x + offs.length - offs.length = id x
        simp only [id]; omega
      · intro p hp
        have := ((ipk_bounds d T (i + 1 + used)).2 p hp).1
        exact ⟨hnot p (by omega), hhigh p (by omega)⟩
    rw [p1, p2, p3]
  · simp only [List.length_append, List.length_cons, hlt, hTl]
    omega

/-- the statement with the (unused) hypothesis that either the first component is an input glyph
of depth `d` or no deleted component is -/
theorem ipD_merge {d : Nat} (A : List TG) (kp : Nat → Bool) (i used : Nat) (cur lig : TG) (offs : List Nat)
    (hi : A[i]? = some cur) (hl : SameTags cur lig)
    (hu : i + 1 + used ≤ A.length) (hoffs : offs.Pairwise (· < ·)) (hob : ∀ o ∈ offs, o < used)
    (hk : ∀ r, r < used → ∀ t, (A.drop (i + 1))[r]? = some t → (kp t.g.gid = true ↔ r ∈ offs))
    (_hcomp : cur.hasInp d = true ∨ ∀ r ∈ offs, ∀ t, (A.drop (i + 1))[r]? = some t → t.hasInp d = false) :
    inputPositions d (A.take i ++ (lig :: ((A.drop (i + 1)).take used).filter (fun t => !kp t.g.gid)) ++
        A.drop (i + 1 + used))
      = mergePos (inputPositions d A) (offs.map (· + (i + 1)))
    ∧ (A.take i ++ (lig :: ((A.drop (i + 1)).take used).filter (fun t => !kp t.g.gid)) ++
        A.drop (i + 1 + used)).length + offs.length = A.length :=
  ipD_merge' A kp i used cur lig offs hi hl hu hoffs hob hk

/-! ## (D7) one or two glyphs replaced by glyphs with the same tags -/

theorem single_same {cur c' : TG} (hc : SameTags cur c') : ∀ x ∈ [c'], SameTags cur x := by
  intro x hx
  simp only [List.mem_cons, List.not_mem_nil, or_false] at hx
  subst hx; exact hc

theorem formD_replace1 {d a : Nat} {P A D ts : List TG} (h : FormD d a P A D ts) (j jj : Nat) (cur c' : TG)
    (hj : ts[j]? = some cur) (ha : a ≤ j) (hlt : j < a + A.length) (hc : SameTags cur c') :
    ∃ A', FormD d a P A' D (ts.take j ++ (c' :: (ts.drop (j + 1)).take jj) ++ ts.drop (j + 1 + jj)) ∧
      A'.length = A.length ∧
      inputPositions d (ts.take j ++ (c' :: (ts.drop (j + 1)).take jj) ++ ts.drop (j + 1 + jj)) =
        inputPositions d ts := by
  rw [replace1_eq]
  have hf := (formD_replace h j cur [c'] hj ha hlt (single_same hc)).1
  refine ⟨_, hf, ?_, ?_⟩
  · simp only [List.length_append, List.length_take, List.length_drop, List.length_cons, List.length_nil]
    omega
  · exact inputPositions_congr d _ _ (tagsOf_replace ts j cur c' hj hc.1 hc.2)

theorem formD_replace2 {d a : Nat} {P A D ts : List TG} (h : FormD d a P A D ts) (j jj : Nat)
    (cur second c' s' : TG) (hj : ts[j]? = some cur) (ha : a ≤ j) (hjj : ts[j + 1 + jj]? = some second)
    (hlt : j + 1 + jj < a + A.length) (hc : SameTags cur c') (hs : SameTags second s') :
    ∃ A', FormD d a P A' D (ts.take j ++ (c' :: (ts.drop (j + 1)).take jj ++ [s']) ++ ts.drop (j + 1 + jj + 1)) ∧
      A'.length = A.length ∧
      inputPositions d (ts.take j ++ (c' :: (ts.drop (j + 1)).take jj ++ [s']) ++ ts.drop (j + 1 + jj + 1)) =
        inputPositions d ts := by
  have hjl : j < ts.length := (List.getElem?_eq_some_iff.mp hj).1
  rw [replace2_eq ts j jj c' s' hjl]
  have hf1 := (formD_replace h j cur [c'] hj ha (by omega) (single_same hc)).1
  have hl1 : (A.take (j - a) ++ [c'] ++ A.drop (j - a + 1)).length = A.length := by
    simp only [List.length_append, List.length_take, List.length_drop, List.length_cons, List.length_nil]
    omega
  have hl : (ts.take j ++ [c']).length = j + 1 := by
    simp only [List.length_append, List.length_take, List.length_cons, List.length_nil]; omega
  have hjj1 : (ts.take j ++ [c'] ++ ts.drop (j + 1))[j + 1 + jj]? = some second := by
    rw [List.getElem?_append_right (by rw [hl]; omega), hl, List.getElem?_drop, ← hjj]
    congr 1; omega
  have hf2 := (formD_replace hf1 (j + 1 + jj) second [s'] hjj1 (by omega) (by rw [hl1]; exact hlt)
    (single_same hs)).1
  refine ⟨_, hf2, ?_, ?_⟩
  · rw [← hl1]
    generalize (A.take (j - a) ++ [c'] ++ A.drop (j - a + 1)) = A1 at hl1
    simp only [List.length_append, List.length_take, List.length_drop, List.length_cons, List.length_nil]
    omega
  · rw [inputPositions_congr d _ _ (tagsOf_replace _ (j + 1 + jj) second s' hjj1 hs.1 hs.2)]
    exact inputPositions_congr d _ _ (tagsOf_replace ts j cur c' hj hc.1 hc.2)

/-! ## (D10) no operation creates a tag of an unused depth -/

theorem outD_replace {e : Nat} {ts : List TG} (hout : ∀ t ∈ ts, OutD e t) (j : Nat) (cur : TG) (dn : List TG)
    (hj : ts[j]? = some cur) (hdn : ∀ x ∈ dn, SameTags cur x) :
    ∀ t ∈ ts.take j ++ dn ++ ts.drop (j + 1), OutD e t := by
  intro t ht
  simp only [List.mem_append] at ht
  rcases ht with (ht | ht) | ht
  · exact hout t (List.mem_of_mem_take ht)
  · exact (hdn t ht).outD (hout cur (List.mem_of_getElem? hj))
  · exact hout t (List.mem_of_mem_drop ht)

theorem outD_merge {e : Nat} {ts : List TG} (hout : ∀ t ∈ ts, OutD e t) (kp : Nat → Bool) (j used : Nat)
    (cur lig : TG) (hj : ts[j]? = some cur) (hl : SameTags cur lig) :
    ∀ t ∈ ts.take j ++ (lig :: ((ts.drop (j + 1)).take used).filter (fun t => !kp t.g.gid)) ++
      ts.drop (j + 1 + used), OutD e t := by
  intro t ht
  simp only [List.mem_append, List.mem_cons] at ht
  rcases ht with (ht | ht | ht) | ht
  · exact hout t (List.mem_of_mem_take ht)
  · subst ht; exact hl.outD (hout cur (List.mem_of_getElem? hj))
  · exact hout t (List.mem_of_mem_drop (List.mem_of_mem_take (List.mem_filter.mp ht).1))
  · exact hout t (List.mem_of_mem_drop ht)

theorem outD_replace1 {e : Nat} {ts : List TG} (hout : ∀ t ∈ ts, OutD e t) (j jj : Nat) (cur c' : TG)
    (hj : ts[j]? = some cur) (hc : SameTags cur c') :
    ∀ t ∈ ts.take j ++ (c' :: (ts.drop (j + 1)).take jj) ++ ts.drop (j + 1 + jj), OutD e t := by
  intro t ht
  simp only [List.mem_append, List.mem_cons] at ht
  rcases ht with (ht | ht | ht) | ht
  · exact hout t (List.mem_of_mem_take ht)
  · subst ht; exact hc.outD (hout cur (List.mem_of_getElem? hj))
  · exact hout t (List.mem_of_mem_drop (List.mem_of_mem_take ht))
  · exact hout t (List.mem_of_mem_drop ht)

theorem outD_replace2 {e : Nat} {ts : List TG} (hout : ∀ t ∈ ts, OutD e t) (j jj : Nat) (cur second c' s' : TG)
    (hj : ts[j]? = some cur) (hjj : ts[j + 1 + jj]? = some second) (hc : SameTags cur c')
    (hs : SameTags second s') :
    ∀ t ∈ ts.take j ++ (c' :: (ts.drop (j + 1)).take jj ++ [s']) ++ ts.drop (j + 1 + jj + 1), OutD e t := by
  intro t ht
  simp only [List.mem_append, List.mem_cons, List.cons_append, List.not_mem_nil, or_false] at ht
  rcases ht with (ht | ht | ht | ht) | ht
  · exact hout t (List.mem_of_mem_take ht)
  · subst ht; exact hc.outD (hout cur (List.mem_of_getElem? hj))
  · exact hout t (List.mem_of_mem_drop (List.mem_of_mem_take ht))
  · subst ht; exact hs.outD (hout second (List.mem_of_getElem? hjj))
  · exact hout t (List.mem_of_mem_drop ht)

end SfntV.C06
