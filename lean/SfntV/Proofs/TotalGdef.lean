/-
C02 (decoders are total): proofs about the checked-index model of `gdef.Read`
(`SfntV.Total.Gdef.read`, the REPAIRED code that decodes every distinct coverage offset once): no
panic for any input and any non-panicking sub-readers, an explicit cost bound, and the finding
(DESIGN §9 #37) in three parts: (a) the pre-repair code `readOld` decoded one aliased coverage
table once per offset entry (`readOld_adv_alloc`); (b) the repaired code decodes it once
(`adv_alloc_cached`); (c) the allocation is STILL not proportional to the input size: distinct
offsets (4 bytes each) are each a full sub-read (`advDistinct_alloc`,
`read_alloc_not_proportional`).
-/
import SfntV.Model.TotalGdef

namespace SfntV.Total.Gdef
open SfntV SfntV.Total

/-! ## generic facts about `Outcome`, `idx`, `readBytes`, `w16`, `w32`, `mkSlice` -/

theorem idx_ok (site : String) (xs : List α) (i : Nat) (h : i < xs.length) :
    idx site xs i = .ok xs[i] := by
  unfold idx
  rw [List.getElem?_eq_getElem h]

theorem ok_bind (a : α) (f : α → Outcome β) : (Outcome.ok a >>= f) = f a := rfl

theorem bind_noPanic {x : Outcome α} {f : α → Outcome β} (hx : x.noPanic)
    (hf : ∀ a, x = .ok a → (f a).noPanic) : (x >>= f).noPanic := by
  cases x with
  | ok a => exact hf a rfl
  | err e => exact True.intro
  | panic s => exact hx

theorem bind_eq_ok {x : Outcome α} {f : α → Outcome β} {r : β} (h : (x >>= f) = .ok r) :
    ∃ a, x = .ok a ∧ f a = .ok r := by
  cases x with
  | ok a => exact ⟨a, rfl, h⟩
  | err e => cases h
  | panic s => cases h

theorem readBytes_noPanic (site : String) (b : Bytes) (pos n : Nat) (hn : n ≤ 1024) :
    (readBytes site b pos n).noPanic := by
  unfold readBytes
  rw [if_neg (by omega)]
  split <;> exact True.intro

theorem readBytes_ok_length {site : String} {b : Bytes} {pos n : Nat} {w : Bytes}
    (h : readBytes site b pos n = .ok w) : w.length = n ∧ pos + n ≤ b.length := by
  unfold readBytes at h
  split at h
  · cases h
  · split at h
    · rename_i hle
      cases h
      refine ⟨?_, hle⟩
      simp only [List.length_take, List.length_drop]
      omega
    · cases h

theorem w16_ok (site : String) (buf : Bytes) (i : Nat) (h : i + 1 < buf.length) :
    ∃ v, w16 site buf i = .ok v ∧ v < 65536 := by
  unfold w16
  rw [idx_ok site buf i (by omega), idx_ok site buf (i + 1) h]
  refine ⟨_, rfl, ?_⟩
  unfold be
  have h1 := buf[i].toNat_lt
  have h2 := buf[i + 1].toNat_lt
  omega

/-- a successful 16-bit read is below 65536 -/
theorem w16_lt {site : String} {buf : Bytes} {i v : Nat} (h : w16 site buf i = .ok v) :
    v < 65536 := by
  unfold w16 at h
  obtain ⟨hi, _, h⟩ := bind_eq_ok h
  obtain ⟨lo, _, h⟩ := bind_eq_ok h
  cases h
  unfold be
  have h1 := hi.toNat_lt
  have h2 := lo.toNat_lt
  omega

theorem w32_ok (site : String) (buf : Bytes) (i : Nat) (h : i + 3 < buf.length) :
    ∃ v, w32 site buf i = .ok v := by
  unfold w32
  rw [idx_ok site buf i (by omega), idx_ok site buf (i + 1) (by omega),
    idx_ok site buf (i + 2) (by omega), idx_ok site buf (i + 3) h]
  exact ⟨_, rfl⟩

theorem mkSlice_ok (site : String) (n : Nat) (c : Cost) (h : n < 65536) :
    mkSlice site n c = .ok (c.mem n) := by
  unfold mkSlice
  rw [if_neg (by omega)]

/-! ## the two loops -/

theorem readOffsets_noPanic (b : Bytes) : ∀ (n pos : Nat) (acc : List Nat) (c : Cost),
    (readOffsets b n pos acc c).noPanic
  | 0, _, _, _ => True.intro
  | n+1, pos, acc, c => by
    unfold readOffsets
    refine bind_noPanic (readBytes_noPanic _ _ _ _ (by omega)) (fun w hw => ?_)
    obtain ⟨hl, _⟩ := readBytes_ok_length hw
    obtain ⟨v, hv⟩ := w32_ok "gdef.go:121#ReadUint32" w 0 (by omega)
    rw [hv]
    exact readOffsets_noPanic b n (pos + 4) (v :: acc) c.tick

theorem readOffsets_ok (b : Bytes) : ∀ (n pos : Nat) (acc : List Nat) (c : Cost)
    (offs : List Nat) (c' : Cost), readOffsets b n pos acc c = .ok (offs, c') →
    offs.length = acc.length + n ∧ c'.steps = c.steps + n ∧ c'.alloc = c.alloc ∧
      (n = 0 ∨ pos + 4 * n ≤ b.length)
  | 0, _, acc, c, offs, c', h => by
    unfold readOffsets at h
    cases h
    simp
  | n+1, pos, acc, c, offs, c', h => by
    unfold readOffsets at h
    obtain ⟨w, hw, h⟩ := bind_eq_ok h
    obtain ⟨v, _, h⟩ := bind_eq_ok h
    obtain ⟨_, hle⟩ := readBytes_ok_length hw
    have ih := readOffsets_ok b n (pos + 4) (v :: acc) c.tick offs c' h
    simp only [List.length_cons, Cost.tick] at ih
    omega

theorem readSets_noPanic (cov : Sub) (hcov : ∀ p, (cov p).noPanic) (base : Nat) (offs : List Nat) :
    ∀ (n i : Nat) (sets : List (Nat × Nat)) (acc : List Nat) (c : Cost), i + n ≤ offs.length →
      (readSets cov base offs n i sets acc c).noPanic
  | 0, _, _, _, _, _ => True.intro
  | n+1, i, sets, acc, c, h => by
    unfold readSets
    rw [idx_ok _ offs i (by omega), ok_bind]
    split
    · exact readSets_noPanic cov hcov base offs n (i + 1) _ _ _ (by omega)
    · refine bind_noPanic (hcov _) (fun r _ => ?_)
      exact readSets_noPanic cov hcov base offs n (i + 1) _ _ _ (by omega)

/-- cost of the repaired loop: at most one sub-read and one map entry per iteration -/
theorem readSets_cost (cov : Sub) (C : Nat)
    (hcov : ∀ p sz d, cov p = .ok (sz, d) → d.steps ≤ C ∧ d.alloc ≤ C)
    (base : Nat) (offs : List Nat) :
    ∀ (n i : Nat) (sets : List (Nat × Nat)) (acc : List Nat) (c : Cost) (r : List Nat) (c' : Cost),
      readSets cov base offs n i sets acc c = .ok (r, c') →
      c'.steps ≤ c.steps + n + n * C ∧ c'.alloc ≤ c.alloc + n + n * C
  | 0, _, _, _, c, r, c', h => by
    unfold readSets at h
    cases h
    simp
  | n+1, i, sets, acc, c, r, c', h => by
    unfold readSets at h
    obtain ⟨o, _, h⟩ := bind_eq_ok h
    rw [Nat.succ_mul]
    split at h
    · have ih := readSets_cost cov C hcov base offs n (i + 1) _ _ _ r c' h
      simp only [Cost.tick] at ih
      omega
    · obtain ⟨⟨sz, d⟩, hd, h⟩ := bind_eq_ok h
      have ih := readSets_cost cov C hcov base offs n (i + 1) _ _ _ r c' h
      have hb := hcov _ _ _ hd
      simp only [addCost, Cost.tick, Cost.mem] at ih
      omega

/-! ## `gdef.Read` never panics -/

theorem read_noPanic (cls cov : Sub) (b : Bytes) (hcls : ∀ p, (cls p).noPanic)
    (hcov : ∀ p, (cov p).noPanic) : (read cls cov b).noPanic := by
  unfold read
  refine bind_noPanic (readBytes_noPanic _ _ _ _ (by omega)) (fun buf hbuf => ?_)
  obtain ⟨hl, _⟩ := readBytes_ok_length hbuf
  obtain ⟨major, hmajor, _⟩ := w16_ok "gdef.go:55#buf[0],buf[1]" buf 0 (by omega)
  obtain ⟨minor, hminor, _⟩ := w16_ok "gdef.go:56#buf[2],buf[3]" buf 2 (by omega)
  obtain ⟨o1, ho1, _⟩ := w16_ok "gdef.go:63#buf[4],buf[5]" buf 4 (by omega)
  obtain ⟨o2, ho2, _⟩ := w16_ok "gdef.go:64#buf[6],buf[7]" buf 6 (by omega)
  obtain ⟨o3, ho3, _⟩ := w16_ok "gdef.go:65#buf[8],buf[9]" buf 8 (by omega)
  obtain ⟨o4, ho4, _⟩ := w16_ok "gdef.go:66#buf[10],buf[11]" buf 10 (by omega)
  rw [hmajor, ok_bind, hminor, ok_bind]
  split
  · exact True.intro
  rw [ho1, ok_bind, ho2, ok_bind, ho3, ok_bind, ho4, ok_bind]
  refine bind_noPanic ?_ (fun ⟨mgs, c1⟩ _ => ?_)
  · split
    · refine bind_noPanic (readBytes_noPanic _ _ _ _ (by omega)) (fun w hw => ?_)
      obtain ⟨hwl, _⟩ := readBytes_ok_length hw
      obtain ⟨v, hv, _⟩ := w16_ok "gdef.go:69#ReadUint16" w 0 (by omega)
      rw [hv]
      exact True.intro
    · exact True.intro
  refine bind_noPanic ?_ (fun c2 _ => ?_)
  · split
    · exact bind_noPanic (readBytes_noPanic _ _ _ _ (by omega)) (fun _ _ => True.intro)
    · exact True.intro
  refine bind_noPanic ?_ (fun ⟨gc, c3⟩ _ => ?_)
  · split
    · exact bind_noPanic (hcls _) (fun _ _ => True.intro)
    · exact True.intro
  refine bind_noPanic ?_ (fun ⟨mac, c4⟩ _ => ?_)
  · split
    · exact bind_noPanic (hcls _) (fun _ _ => True.intro)
    · exact True.intro
  dsimp only
  split
  · exact True.intro
  refine bind_noPanic (readBytes_noPanic _ _ _ _ (by omega)) (fun hb hhb => ?_)
  obtain ⟨hhl, _⟩ := readBytes_ok_length hhb
  obtain ⟨fmt, hfmt, _⟩ := w16_ok "gdef.go:111#buf[0],buf[1]" hb 0 (by omega)
  obtain ⟨count, hcount, hclt⟩ := w16_ok "gdef.go:118#buf[2],buf[3]" hb 2 (by omega)
  rw [hfmt, ok_bind]
  split
  · exact True.intro
  rw [hcount, ok_bind, mkSlice_ok _ _ _ hclt, ok_bind]
  refine bind_noPanic (readOffsets_noPanic _ _ _ _ _) (fun ⟨offs, c5⟩ hoffs => ?_)
  dsimp only
  rw [mkSlice_ok _ 1 _ (by omega), ok_bind, mkSlice_ok _ _ _ hclt, ok_bind]
  obtain ⟨hol, _⟩ := readOffsets_ok _ _ _ _ _ _ _ hoffs
  refine bind_noPanic (readSets_noPanic cov hcov _ offs _ _ _ _ _ ?_) (fun _ _ => True.intro)
  simp only [List.length_nil] at hol
  omega

/-! ## cost bound -/

theorem read_cost (cls cov : Sub) (b : Bytes) (C : Nat)
    (hcls : ∀ p sz d, cls p = .ok (sz, d) → d.steps ≤ C ∧ d.alloc ≤ C)
    (hcov : ∀ p sz d, cov p = .ok (sz, d) → d.steps ≤ C ∧ d.alloc ≤ C)
    (t : Table) (c : Cost) (h : read cls cov b = .ok (t, c)) :
    c.steps ≤ (b.length / 4 + 3) * (C + 2) + 4 ∧ c.alloc ≤ (b.length / 4 + 3) * (C + 3) + 1 := by
  have hexp : (b.length / 4 + 3) * (C + 2) = b.length / 4 * C + 2 * (b.length / 4) + 3 * C + 6 := by
    rw [Nat.add_mul, Nat.mul_add]; omega
  have hexp3 : (b.length / 4 + 3) * (C + 3) = b.length / 4 * C + 3 * (b.length / 4) + 3 * C + 9 := by
    rw [Nat.add_mul, Nat.mul_add]; omega
  rw [hexp, hexp3]
  unfold read at h
  obtain ⟨buf, _, h⟩ := bind_eq_ok h
  obtain ⟨major, _, h⟩ := bind_eq_ok h
  obtain ⟨minor, _, h⟩ := bind_eq_ok h
  split at h
  · cases h
  obtain ⟨o1, _, h⟩ := bind_eq_ok h
  obtain ⟨o2, _, h⟩ := bind_eq_ok h
  obtain ⟨o3, _, h⟩ := bind_eq_ok h
  obtain ⟨o4, _, h⟩ := bind_eq_ok h
  obtain ⟨⟨mgs, c1⟩, h1, h⟩ := bind_eq_ok h
  have k1 : c1.steps ≤ 2 ∧ c1.alloc = 0 := by
    split at h1
    · obtain ⟨w, _, h1⟩ := bind_eq_ok h1
      obtain ⟨v, _, h1⟩ := bind_eq_ok h1
      cases h1
      simp [Cost.tick, Cost.zero]
    · cases h1
      simp [Cost.tick, Cost.zero]
  obtain ⟨c2, h2, h⟩ := bind_eq_ok h
  have k2 : c2.steps ≤ 3 ∧ c2.alloc = 0 := by
    split at h2
    · obtain ⟨w, _, h2⟩ := bind_eq_ok h2
      cases h2
      simp only [Cost.tick]
      omega
    · cases h2
      omega
  obtain ⟨⟨gc, c3⟩, h3, h⟩ := bind_eq_ok h
  have k3 : c3.steps ≤ 3 + C ∧ c3.alloc ≤ 1 + C := by
    dsimp only at h3
    split at h3
    · obtain ⟨⟨sz, d⟩, hd, h3⟩ := bind_eq_ok h3
      have := hcls _ _ _ hd
      cases h3
      simp only [addCost, Cost.mem]
      omega
    · cases h3
      simp only [Cost.mem]
      omega
  obtain ⟨⟨mac, c4⟩, h4, h⟩ := bind_eq_ok h
  have k4 : c4.steps ≤ 3 + 2 * C ∧ c4.alloc ≤ 1 + 2 * C := by
    dsimp only at h4
    split at h4
    · obtain ⟨⟨sz, d⟩, hd, h4⟩ := bind_eq_ok h4
      have := hcls _ _ _ hd
      cases h4
      simp only [addCost]
      omega
    · cases h4
      omega
  dsimp only at h
  split at h
  · cases h
    omega
  obtain ⟨hb, _, h⟩ := bind_eq_ok h
  obtain ⟨fmt, _, h⟩ := bind_eq_ok h
  split at h
  · cases h
  obtain ⟨count, _, h⟩ := bind_eq_ok h
  obtain ⟨c5, h5, h⟩ := bind_eq_ok h
  have k5 : c5 = (c4.tick).mem count := by
    unfold mkSlice at h5
    split at h5
    · cases h5
    · cases h5; rfl
  obtain ⟨⟨offs, c6⟩, h6, h⟩ := bind_eq_ok h
  obtain ⟨_, k6s, k6a, k6l⟩ := readOffsets_ok _ _ _ _ _ _ _ h6
  dsimp only at h
  obtain ⟨cm, hm7, h⟩ := bind_eq_ok h
  have km : cm = c6.mem 1 := by
    unfold mkSlice at hm7
    split at hm7
    · cases hm7
    · cases hm7; rfl
  obtain ⟨c7, h7, h⟩ := bind_eq_ok h
  have k7 : c7 = cm.mem count := by
    unfold mkSlice at h7
    split at h7
    · cases h7
    · cases h7; rfl
  obtain ⟨⟨sets, c8⟩, h8, h⟩ := bind_eq_ok h
  obtain ⟨k8s, k8a⟩ := readSets_cost cov C hcov _ _ _ _ _ _ _ _ _ h8
  dsimp only at h
  cases h
  subst k5 km k7
  simp only [Cost.tick, Cost.mem] at k6s k6a k8s k8a
  have hq : count ≤ b.length / 4 := by omega
  have hm : count * C ≤ b.length / 4 * C := Nat.mul_le_mul_right C hq
  omega

/-! ## the finding: allocation is not proportional to the input size

(a) PRE-REPAIR code (`readOld`): all `markGlyphSetCount` coverage offsets may point at the SAME
coverage table; the old `gdef.Read` decoded (and allocated) it once per offset.  `adv n` is such a
table of `18 + 4·n` bytes; with a coverage sub-reader that allocates `K` elements per call the old
allocation is `1 + 2·n + n·K` (`readOld_adv_alloc`).
(b) REPAIRED code (`read`): on the same input the table is decoded once: `3 + 2·n + K`
(`adv_alloc_cached`).
(c) REMAINING weakness: `advDistinct n` (same size, `n` pairwise distinct offsets): every offset
is still a full sub-read: `2 + 3·n + n·K` (`advDistinct_alloc`), so no bound proportional to the
input length holds (`read_alloc_not_proportional`). -/

/-- GDEF 1.2 header, MarkGlyphSetsDef at 14 with the coverage offsets `vs` -/
def advOf (vs : List Nat) : Bytes :=
  [0,1,0,2, 0,0, 0,0, 0,0, 0,0, 0,14] ++ [0,1] ++ be16 vs.length ++ (vs.map be32).flatten
/-- GDEF 1.2 header, MarkGlyphSetsDef at 14 with `n` offsets all equal to `4 + 4·n` -/
def adv (n : Nat) : Bytes :=
  [0,1,0,2, 0,0, 0,0, 0,0, 0,0, 0,14] ++ [0,1] ++ be16 n ++ (List.replicate n (be32 (4 + 4*n))).flatten
/-- the same with `n` pairwise DISTINCT offsets `4 + 4·n + i`, `i = 0 … n-1` -/
def advDistinct (n : Nat) : Bytes := advOf ((List.range n).map (fun i => 4 + 4*n + i))
/-- coverage sub-reader: every call decodes a table of `K` glyphs: `K + 1` steps, `K` allocations -/
def covK (K : Nat) : Sub := fun _ => .ok (K, ⟨K + 1, K⟩)

theorem pure_bind' (a : α) (f : α → Outcome β) : ((pure a : Outcome α) >>= f) = f a := rfl

theorem w32_be32 (site : String) (v : Nat) (hv : v < 4294967296) : w32 site (be32 v) 0 = .ok v := by
  simp only [w32, be32, idx, List.getElem?_cons_zero, List.getElem?_cons_succ, ok_bind,
    UInt8.toNat_ofNat', Nat.zero_add]
  congr 1
  omega

theorem flat_length (k : Nat) (v : Nat) : (List.replicate k (be32 v)).flatten.length = 4 * k := by
  induction k with
  | zero => rfl
  | succ k ih =>
    rw [List.replicate_succ, List.flatten_cons, List.length_append, ih]
    simp only [be32, List.length_cons, List.length_nil]
    omega

theorem flatMap_length : ∀ (vs : List Nat), ((vs.map be32).flatten).length = 4 * vs.length
  | [] => rfl
  | v :: vs => by
    rw [List.map_cons, List.flatten_cons, List.length_append, flatMap_length vs]
    simp only [be32, List.length_cons, List.length_nil]
    omega

theorem adv_eq (n : Nat) : adv n = advOf (List.replicate n (4 + 4 * n)) := by
  simp only [adv, advOf, List.map_replicate, List.length_replicate]

theorem readOffsets_list (b : Bytes) :
    ∀ (vs : List Nat) (pos : Nat) (acc : List Nat) (c : Cost), (∀ v ∈ vs, v < 4294967296) →
      b.drop pos = (vs.map be32).flatten →
      readOffsets b vs.length pos acc c = .ok (acc.reverse ++ vs, ⟨c.steps + vs.length, c.alloc⟩)
  | [], _, acc, c, _, _ => by
    simp [readOffsets]
  | v :: vs, pos, acc, c, hv, h => by
    have hlen : (b.drop pos).length = 4 * (vs.length + 1) := by
      rw [h, flatMap_length, List.length_cons]
    rw [List.length_drop] at hlen
    have hrb : readBytes "gdef.go:121#ReadUint32" b pos 4 = .ok (be32 v) := by
      unfold readBytes
      rw [if_neg (by omega), if_pos (by omega), h, List.map_cons, List.flatten_cons]
      rfl
    have hnext : b.drop (pos + 4) = (vs.map be32).flatten := by
      rw [← List.drop_drop, h, List.map_cons, List.flatten_cons]
      rfl
    rw [List.length_cons]
    unfold readOffsets
    rw [hrb, ok_bind, w32_be32 _ _ (hv v (List.mem_cons_self ..)), ok_bind,
      readOffsets_list b vs (pos + 4) (v :: acc) c.tick
        (fun w hw => hv w (List.mem_cons_of_mem _ hw)) hnext]
    simp only [List.reverse_cons, List.append_assoc, List.singleton_append, Cost.tick]
    congr 3
    omega

theorem readOffsets_rep (b : Bytes) (v : Nat) (hv : v < 4294967296) :
    ∀ (k pos : Nat) (acc : List Nat) (c : Cost),
      b.drop pos = (List.replicate k (be32 v)).flatten →
      readOffsets b k pos acc c = .ok (acc.reverse ++ List.replicate k v, ⟨c.steps + k, c.alloc⟩) := by
  intro k pos acc c h
  have := readOffsets_list b (List.replicate k v) pos acc c
    (fun w hw => by rw [List.eq_of_mem_replicate hw]; exact hv)
    (by rw [List.map_replicate]; exact h)
  rw [List.length_replicate] at this
  exact this

theorem readBytes_prefix (site : String) (P T : Bytes) (pos n : Nat) (hn : n ≤ 1024)
    (h : pos + n ≤ P.length) : readBytes site (P ++ T) pos n = .ok ((P.drop pos).take n) := by
  unfold readBytes
  rw [if_neg (by omega), if_pos (by rw [List.length_append]; omega),
    List.drop_append_of_le_length (by omega),
    List.take_append_of_le_length (by rw [List.length_drop]; omega)]

theorem advOf_length (vs : List Nat) : (advOf vs).length = 18 + 4 * vs.length := by
  unfold advOf
  rw [List.length_append, flatMap_length]
  rfl

theorem adv_length (n : Nat) : (adv n).length = 18 + 4 * n := by
  unfold adv
  rw [List.length_append, flat_length]
  rfl

theorem advDistinct_length (n : Nat) : (advDistinct n).length = 18 + 4 * n := by
  unfold advDistinct
  rw [advOf_length, List.length_map, List.length_range]

/-- the header part of `read` on `advOf vs`: everything up to the mark-glyph-set loop succeeds
with cost `⟨3 + n, 2 + 2·n⟩`, whatever the sub-readers are -/
theorem read_advOf (cls cov : Sub) (vs : List Nat) (hn : vs.length < 65536)
    (hv : ∀ v ∈ vs, v < 4294967296) (r : List Nat) (c' : Cost)
    (hr : readSets cov 14 vs vs.length 0 [] [] ⟨3 + vs.length, 1 + vs.length + 1 + vs.length⟩ = .ok (r, c')) :
    read cls cov (advOf vs) = .ok (⟨none, none, some r⟩, c') := by
  have hb0 : readBytes "gdef.go:51#ReadBytes(12)" (advOf vs) 0 12 = .ok [0,1,0,2, 0,0, 0,0, 0,0, 0,0] :=
    readBytes_prefix _ _ _ 0 12 (by omega) (by simp [be16])
  have hb12 : readBytes "gdef.go:69#ReadUint16" (advOf vs) 12 2 = .ok [0,14] :=
    readBytes_prefix _ _ _ 12 2 (by omega) (by simp [be16])
  have hb14 : readBytes "gdef.go:107#ReadBytes(4)" (advOf vs) 14 4 = .ok (0 :: 1 :: be16 vs.length) :=
    readBytes_prefix _ _ _ 14 4 (by omega) (by simp [be16])
  have hdrop : (advOf vs).drop (14 + 4) = (vs.map be32).flatten := by
    unfold advOf
    rw [List.drop_append_of_le_length (by simp [be16])]
    rfl
  have hbe : (UInt8.ofNat (vs.length / 256 % 256)).toNat * 256 + (UInt8.ofNat (vs.length % 256)).toNat
      = vs.length := by
    simp only [UInt8.toNat_ofNat']; omega
  unfold read
  simp only [hb0, hb12, ok_bind, pure_bind', w16, idx, be, List.getElem?_cons_succ,
    List.getElem?_cons_zero]
  have h0 : UInt8.toNat 0 = 0 := rfl
  have h1 : UInt8.toNat 1 = 1 := rfl
  have h2 : UInt8.toNat 2 = 2 := rfl
  have h14 : UInt8.toNat 14 = 14 := rfl
  simp only [h0, h1, h2, h14, Nat.reduceMul, Nat.reduceAdd, ne_eq, Nat.reduceEqDiff, not_true_eq_false,
    false_or, and_false, if_false, ge_iff_le, Nat.reduceLeDiff, Nat.le_refl, if_true, pure_bind', ok_bind,
    not_false_eq_true, and_true, hb14, List.getElem?_cons_succ,
    List.getElem?_cons_zero, be16, hbe, Cost.zero, Cost.tick, Cost.mem, mkSlice_ok _ _ _ hn,
    mkSlice_ok _ 1 _ (by omega : 1 < 65536),
    readOffsets_list _ _ _ _ _ hv hdrop, List.reverse_nil, List.nil_append, hr]

/-! ### (a) the pre-repair code: one sub-read per offset ENTRY -/

theorem readSetsOld_rep (K base m v : Nat) :
    ∀ (k i : Nat) (acc : List Nat) (c : Cost), i + k ≤ m →
      ∃ r c', readSetsOld (covK K) base (List.replicate m v) k i acc c = .ok (r, c') ∧
        c'.alloc = c.alloc + k * K
  | 0, _, acc, c, _ => ⟨_, _, rfl, by simp⟩
  | k+1, i, acc, c, h => by
    unfold readSetsOld
    rw [idx_ok _ _ i (by rw [List.length_replicate]; omega), ok_bind]
    obtain ⟨r, c', hr, hc⟩ := readSetsOld_rep K base m v k (i + 1) (K :: acc) (addCost c.tick ⟨K + 1, K⟩) (by omega)
    refine ⟨r, c', hr, ?_⟩
    rw [hc, Nat.succ_mul]
    simp only [addCost, Cost.tick]
    omega

/-- PRE-REPAIR `gdef.Read` on the aliasing input: `n` sub-reads of the one coverage table -/
theorem readOld_adv_alloc (n K : Nat) (hn : n < 65536) (cls : Sub) :
    ∃ t c, readOld cls (covK K) (adv n) = .ok (t, c) ∧ c.alloc = 1 + 2 * n + n * K ∧
      (adv n).length = 18 + 4 * n := by
  have hv : 4 + 4 * n < 4294967296 := by omega
  have hb0 : readBytes "gdef.go:51#ReadBytes(12)" (adv n) 0 12 = .ok [0,1,0,2, 0,0, 0,0, 0,0, 0,0] :=
    readBytes_prefix _ _ _ 0 12 (by omega) (by simp [be16])
  have hb12 : readBytes "gdef.go:69#ReadUint16" (adv n) 12 2 = .ok [0,14] :=
    readBytes_prefix _ _ _ 12 2 (by omega) (by simp [be16])
  have hb14 : readBytes "gdef.go:107#ReadBytes(4)" (adv n) 14 4 = .ok (0 :: 1 :: be16 n) :=
    readBytes_prefix _ _ _ 14 4 (by omega) (by simp [be16])
  have hdrop : (adv n).drop (14 + 4) = (List.replicate n (be32 (4 + 4 * n))).flatten := by
    unfold adv
    rw [List.drop_append_of_le_length (by simp [be16])]
    rfl
  obtain ⟨r, c', hr, hc⟩ := readSetsOld_rep K 14 n (4 + 4 * n) n 0 []
    ⟨3 + n, 1 + n + n⟩ (by omega)
  refine ⟨⟨none, none, some r⟩, c', ?_, ?_, adv_length n⟩
  · have hbe : (UInt8.ofNat (n / 256 % 256)).toNat * 256 + (UInt8.ofNat (n % 256)).toNat = n := by
      simp only [UInt8.toNat_ofNat']; omega
    unfold readOld
    simp only [hb0, hb12, ok_bind, pure_bind', w16, idx, be, List.getElem?_cons_succ,
      List.getElem?_cons_zero]
    have h0 : UInt8.toNat 0 = 0 := rfl
    have h1 : UInt8.toNat 1 = 1 := rfl
    have h2 : UInt8.toNat 2 = 2 := rfl
    have h14 : UInt8.toNat 14 = 14 := rfl
    simp only [h0, h1, h2, h14, Nat.reduceMul, Nat.reduceAdd, ne_eq, Nat.reduceEqDiff, not_true_eq_false,
      false_or, and_false, if_false, ge_iff_le, Nat.reduceLeDiff, Nat.le_refl, if_true, pure_bind', ok_bind,
      not_false_eq_true, and_true, hb14, List.getElem?_cons_succ,
      List.getElem?_cons_zero, be16, hbe, Cost.zero, Cost.tick, Cost.mem, mkSlice_ok _ _ _ hn,
      readOffsets_rep _ _ hv _ _ _ _ hdrop, List.reverse_nil, List.nil_append, hr]
  · dsimp only at hc; omega

/-- the pre-repair code violated the allocation clause already on the aliasing input
(`adv 1000`, 4018 bytes, 65 538 001 elements) -/
theorem readOld_alloc_not_proportional (cls : Sub) :
    ¬ ∀ b t c, readOld cls (covK 65536) b = .ok (t, c) → c.alloc ≤ 4096 * b.length + 16777216 := by
  intro h
  obtain ⟨t, c, hr, ha, hl⟩ := readOld_adv_alloc 1000 65536 (by omega) cls
  have := h _ t c hr
  rw [ha, hl] at this
  omega

/-! ### (b) the repaired code on the aliasing input: ONE sub-read -/

/-- once the offset `v` is in the map, the remaining iterations cost one step each and allocate
nothing -/
theorem readSets_rep_hit (K base m v s : Nat) (sets : List (Nat × Nat)) (hs : sets.lookup v = some s) :
    ∀ (k i : Nat) (acc : List Nat) (c : Cost), i + k ≤ m →
      ∃ r, readSets (covK K) base (List.replicate m v) k i sets acc c = .ok (r, ⟨c.steps + k, c.alloc⟩)
  | 0, _, acc, c, _ => ⟨_, rfl⟩
  | k+1, i, acc, c, h => by
    unfold readSets
    rw [idx_ok _ _ i (by rw [List.length_replicate]; omega), ok_bind]
    simp only [List.getElem_replicate, hs]
    obtain ⟨r, hr⟩ := readSets_rep_hit K base m v s sets hs k (i + 1) (s :: acc) c.tick (by omega)
    refine ⟨r, ?_⟩
    rw [hr]
    simp only [Cost.tick]
    congr 3
    omega

/-- REPAIRED `gdef.Read` on the aliasing input `adv n` (`n ≥ 1`): exactly one sub-read -/
theorem adv_alloc_cached_eq (n K : Nat) (hn : n < 65536) (hpos : 0 < n) (cls : Sub) :
    ∃ t c, read cls (covK K) (adv n) = .ok (t, c) ∧ c.alloc = 3 + 2 * n + K ∧
      c.steps = 4 + 2 * n + K ∧ (adv n).length = 18 + 4 * n := by
  obtain ⟨m, rfl⟩ : ∃ m, n = m + 1 := ⟨n - 1, by omega⟩
  have hstep : ∃ r, readSets (covK K) 14 (List.replicate (m + 1) (4 + 4 * (m + 1))) (m + 1) 0 [] []
      ⟨3 + (m + 1), 1 + (m + 1) + 1 + (m + 1)⟩ =
      .ok (r, ⟨3 + (m + 1) + 1 + (K + 1) + m, 1 + (m + 1) + 1 + (m + 1) + K + 1⟩) := by
    unfold readSets
    rw [idx_ok _ _ 0 (by rw [List.length_replicate]; omega), ok_bind]
    simp only [List.getElem_replicate, List.lookup_nil, covK, ok_bind]
    obtain ⟨r, hr⟩ := readSets_rep_hit K 14 (m + 1) (4 + 4 * (m + 1)) K [(4 + 4 * (m + 1), K)] (by simp)
      m (0 + 1) [K] ((addCost (Cost.tick ⟨3 + (m + 1), 1 + (m + 1) + 1 + (m + 1)⟩) ⟨K + 1, K⟩).mem 1) (by omega)
    exact ⟨r, hr⟩
  obtain ⟨r, hr⟩ := hstep
  refine ⟨⟨none, none, some r⟩,
    ⟨3 + (m + 1) + 1 + (K + 1) + m, 1 + (m + 1) + 1 + (m + 1) + K + 1⟩, ?_, ?_, ?_, adv_length _⟩
  · rw [adv_eq]
    refine read_advOf cls (covK K) _ (by rw [List.length_replicate]; exact hn)
      (fun w hw => by rw [List.eq_of_mem_replicate hw]; omega) r _ ?_
    rw [List.length_replicate]
    exact hr
  · dsimp only; omega
  · dsimp only; omega

/-- REPAIRED `gdef.Read` on the aliasing input: the allocation no longer grows with `n·K` -/
theorem adv_alloc_cached (n K : Nat) (hn : n < 65536) (cls : Sub) :
    ∃ t c, read cls (covK K) (adv n) = .ok (t, c) ∧ c.alloc ≤ 3 + 2 * n + K ∧
      (adv n).length = 18 + 4 * n := by
  cases n with
  | zero =>
    refine ⟨⟨none, none, some []⟩, ⟨3, 2⟩, ?_, by dsimp only; omega, adv_length 0⟩
    rw [adv_eq]
    exact read_advOf cls (covK K) [] (by decide) (fun _ h => nomatch h) [] _ rfl
  | succ m =>
    obtain ⟨t, c, h, ha, _, hl⟩ := adv_alloc_cached_eq (m + 1) K hn (by omega) cls
    exact ⟨t, c, h, by omega, hl⟩

/-! ### (c) the remaining weakness: distinct offsets are each a full sub-read -/

theorem lookup_none_of_lt (x : Nat) :
    ∀ (sets : List (Nat × Nat)), (∀ p ∈ sets, p.1 < x) → sets.lookup x = none
  | [], _ => rfl
  | (k, s) :: es, h => by
    have hk : k < x := h (k, s) (List.mem_cons_self ..)
    have hne : (x == k) = false := by simp; omega
    rw [List.lookup_cons, hne]
    exact lookup_none_of_lt x es (fun p hp => h p (List.mem_cons_of_mem _ hp))

theorem readSets_distinct (K base a n : Nat) :
    ∀ (k i : Nat) (sets : List (Nat × Nat)) (acc : List Nat) (c : Cost), i + k ≤ n →
      (∀ p ∈ sets, p.1 < a + i) →
      ∃ r c', readSets (covK K) base ((List.range n).map (fun j => a + j)) k i sets acc c = .ok (r, c') ∧
        c'.alloc = c.alloc + k * (K + 1) ∧ c'.steps = c.steps + k * (K + 2)
  | 0, _, _, acc, c, _, _ => ⟨_, _, rfl, by simp, by simp⟩
  | k+1, i, sets, acc, c, h, hs => by
    unfold readSets
    rw [idx_ok _ _ i (by rw [List.length_map, List.length_range]; omega), ok_bind]
    simp only [List.getElem_map, List.getElem_range, lookup_none_of_lt (a + i) sets hs, covK, ok_bind]
    obtain ⟨r, c', hr, hc, hst⟩ := readSets_distinct K base a n k (i + 1) ((a + i, K) :: sets) (K :: acc)
      ((addCost c.tick ⟨K + 1, K⟩).mem 1) (by omega) (by
        intro p hp
        rcases List.mem_cons.mp hp with rfl | hp
        · dsimp only; omega
        · have := hs p hp; omega)
    refine ⟨r, c', hr, ?_, ?_⟩
    · rw [hc, Nat.succ_mul]
      simp only [addCost, Cost.tick, Cost.mem]
      omega
    · rw [hst, Nat.succ_mul]
      simp only [addCost, Cost.tick, Cost.mem]
      omega

/-- REPAIRED `gdef.Read` on `n` DISTINCT offsets (`18 + 4·n` bytes): `n` full sub-reads -/
theorem advDistinct_alloc (n K : Nat) (hn : n < 65536) (cls : Sub) :
    ∃ t c, read cls (covK K) (advDistinct n) = .ok (t, c) ∧ c.alloc = 2 + 3 * n + n * K ∧
      (advDistinct n).length = 18 + 4 * n := by
  obtain ⟨r, c', hr, hc, _⟩ := readSets_distinct K 14 (4 + 4 * n) n n 0 [] []
    ⟨3 + n, 1 + n + 1 + n⟩ (by omega) (fun _ h => nomatch h)
  refine ⟨⟨none, none, some r⟩, c', ?_, ?_, advDistinct_length n⟩
  · unfold advDistinct
    refine read_advOf cls (covK K) _ (by rw [List.length_map, List.length_range]; exact hn) ?_ r c' ?_
    · intro w hw
      obtain ⟨j, hj, rfl⟩ := List.mem_map.mp hw
      have := List.mem_range.mp hj
      omega
    · rw [List.length_map, List.length_range]
      exact hr
  · rw [hc, Nat.mul_add]
    dsimp only
    omega

/-- no bound of the form `alloc ≤ 4096·(input length) + 2^24` holds for the REPAIRED `gdef.Read`
either, even with a coverage reader whose own allocation is at most 65536 elements per call
(witness `advDistinct 1000`, 4018 bytes, 65 539 002 elements: 1000 distinct offsets, each a full
sub-read) -/
theorem read_alloc_not_proportional (cls : Sub) :
    ¬ ∀ b t c, read cls (covK 65536) b = .ok (t, c) → c.alloc ≤ 4096 * b.length + 16777216 := by
  intro h
  obtain ⟨t, c, hr, ha, hl⟩ := advDistinct_alloc 1000 65536 (by omega) cls
  have := h _ t c hr
  rw [ha, hl] at this
  omega

/-! ## non-vacuity -/

set_option maxRecDepth 8192 in
/-- the bare 12-byte GDEF 1.0 header is accepted, whatever the sub-readers are -/
example (cls cov : Sub) :
    read cls cov [0,1,0,0, 0,0,0,0,0,0,0,0] = .ok (⟨none, none, none⟩, ⟨1, 1⟩) := by rfl

/-- pre-repair code on the aliasing input: 8 offsets, 50 bytes, `8·2^24` elements -/
example : ∃ t c, readOld (fun _ => .err "x") (covK 16777216) (adv 8) = .ok (t, c) ∧
    c.alloc = 17 + 8 * 16777216 ∧ (adv 8).length = 50 := by
  obtain ⟨t, c, h, ha, hl⟩ := readOld_adv_alloc 8 16777216 (by omega) (fun _ => .err "x")
  exact ⟨t, c, h, by omega, by omega⟩

/-- repaired code on the same input: one sub-read, `19 + 2^24` elements -/
example : ∃ t c, read (fun _ => .err "x") (covK 16777216) (adv 8) = .ok (t, c) ∧
    c.alloc = 19 + 16777216 ∧ (adv 8).length = 50 := by
  obtain ⟨t, c, h, ha, _, hl⟩ := adv_alloc_cached_eq 8 16777216 (by omega) (by omega) (fun _ => .err "x")
  exact ⟨t, c, h, by omega, by omega⟩

/-- repaired code on 8 distinct offsets (also 50 bytes): eight sub-reads again -/
example : ∃ t c, read (fun _ => .err "x") (covK 16777216) (advDistinct 8) = .ok (t, c) ∧
    c.alloc = 26 + 8 * 16777216 ∧ (advDistinct 8).length = 50 := by
  obtain ⟨t, c, h, ha, hl⟩ := advDistinct_alloc 8 16777216 (by omega) (fun _ => .err "x")
  exact ⟨t, c, h, by omega, by omega⟩

set_option maxRecDepth 8192 in
/-- a concrete run of the cache: offsets 12, 12, 16 → two sub-reads (sizes 5 and 7), sets 5,5,7 -/
example : read (fun _ => .err "x") (fun p => if p = 26 then .ok (5, ⟨6, 5⟩) else .ok (7, ⟨8, 7⟩))
      (advOf [12, 12, 16]) = .ok (⟨none, none, some [5, 5, 7]⟩, ⟨23, 22⟩) := by rfl

end SfntV.Total.Gdef
