/-
C02 (decoders are total): proofs about the checked-index model of `gdef.Read`
(`SfntV.Total.Gdef.read`): no panic for any input and any non-panicking sub-readers, an explicit
cost bound, and the finding that the allocation is NOT proportional to the input size (all
mark-glyph-set offsets may alias one coverage table, DESIGN §9 #37).
-/
import SfntV.Model.TotalGdef

namespace SfntV.Total.Gdef
open SfntV SfntV.Total

/-! ## generic facts about `Outcome`, `idx`, `readBytes`, `w16`, `w32`, `mkSlice` -/

theorem idx_ok (site : String) (xs : List α) (i : Nat) (h : i < xs.length) :
    idx site xs i = .ok xs[i] := by
  unfold idx
  rw [List.getElem?_eq_getElem h]

theorem ok_bind (a : α) (f : α → Outcome β) : (Outcome.ok a >>= f) = f a := rfl

theorem bind_noPanic {x : Outcome α} {f : α → Outcome β} (hx : x.noPanic)
    (hf : ∀ a, x = .ok a → (f a).noPanic) : (x >>= f).noPanic := by
  cases x with
  | ok a => exact hf a rfl
  | err e => exact True.intro
  | panic s => exact hx

theorem bind_eq_ok {x : Outcome α} {f : α → Outcome β} {r : β} (h : (x >>= f) = .ok r) :
    ∃ a, x = .ok a ∧ f a = .ok r := by
  cases x with
  | ok a => exact ⟨a, rfl, h⟩
  | err e => cases h
  | panic s => cases h

theorem readBytes_noPanic (site : String) (b : Bytes) (pos n : Nat) (hn : n ≤ 1024) :
    (readBytes site b pos n).noPanic := by
  unfold readBytes
  rw [if_neg (by omega)]
  split <;> exact True.intro

theorem readBytes_ok_length {site : String} {b : Bytes} {pos n : Nat} {w : Bytes}
    (h : readBytes site b pos n = .ok w) : w.length = n ∧ pos + n ≤ b.length := by
  unfold readBytes at h
  split at h
  · cases h
  · split at h
    · rename_i hle
      cases h
      refine ⟨?_, hle⟩
      simp only [List.length_take, List.length_drop]
      omega
    · cases h

theorem w16_ok (site : String) (buf : Bytes) (i : Nat) (h : i + 1 < buf.length) :
    ∃ v, w16 site buf i = .ok v ∧ v < 65536 := by
  unfold w16
  rw [idx_ok site buf i (by omega), idx_ok site buf (i + 1) h]
  refine ⟨_, rfl, ?_⟩
  unfold be
  have h1 := buf[i].toNat_lt
  have h2 := buf[i + 1].toNat_lt
  omega

/-- a successful 16-bit read is below 65536 -/
theorem w16_lt {site : String} {buf : Bytes} {i v : Nat} (h : w16 site buf i = .ok v) :
    v < 65536 := by
  unfold w16 at h
  obtain ⟨hi, _, h⟩ := bind_eq_ok h
  obtain ⟨lo, _, h⟩ := bind_eq_ok h
  cases h
  unfold be
  have h1 := hi.toNat_lt
  have h2 := lo.toNat_lt
  omega

theorem w32_ok (site : String) (buf : Bytes) (i : Nat) (h : i + 3 < buf.length) :
    ∃ v, w32 site buf i = .ok v := by
  unfold w32
  rw [idx_ok site buf i (by omega), idx_ok site buf (i + 1) (by omega),
    idx_ok site buf (i + 2) (by omega), idx_ok site buf (i + 3) h]
  exact ⟨_, rfl⟩

theorem mkSlice_ok (site : String) (n : Nat) (c : Cost) (h : n < 65536) :
    mkSlice site n c = .ok (c.mem n) := by
  unfold mkSlice
  rw [if_neg (by omega)]

/-! ## the two loops -/

theorem readOffsets_noPanic (b : Bytes) : ∀ (n pos : Nat) (acc : List Nat) (c : Cost),
    (readOffsets b n pos acc c).noPanic
  | 0, _, _, _ => True.intro
  | n+1, pos, acc, c => by
    unfold readOffsets
    refine bind_noPanic (readBytes_noPanic _ _ _ _ (by omega)) (fun w hw => ?_)
    obtain ⟨hl, _⟩ := readBytes_ok_length hw
    obtain ⟨v, hv⟩ := w32_ok "gdef.go:121#ReadUint32" w 0 (by omega)
    rw [hv]
    exact readOffsets_noPanic b n (pos + 4) (v :: acc) c.tick

theorem readOffsets_ok (b : Bytes) : ∀ (n pos : Nat) (acc : List Nat) (c : Cost)
    (offs : List Nat) (c' : Cost), readOffsets b n pos acc c = .ok (offs, c') →
    offs.length = acc.length + n ∧ c'.steps = c.steps + n ∧ c'.alloc = c.alloc ∧
      (n = 0 ∨ pos + 4 * n ≤ b.length)
  | 0, _, acc, c, offs, c', h => by
    unfold readOffsets at h
    cases h
    simp
  | n+1, pos, acc, c, offs, c', h => by
    unfold readOffsets at h
    obtain ⟨w, hw, h⟩ := bind_eq_ok h
    obtain ⟨v, _, h⟩ := bind_eq_ok h
    obtain ⟨_, hle⟩ := readBytes_ok_length hw
    have ih := readOffsets_ok b n (pos + 4) (v :: acc) c.tick offs c' h
    simp only [List.length_cons, Cost.tick] at ih
    omega

theorem readSets_noPanic (cov : Sub) (hcov : ∀ p, (cov p).noPanic) (base : Nat) (offs : List Nat) :
    ∀ (n i : Nat) (acc : List Nat) (c : Cost), i + n ≤ offs.length →
      (readSets cov base offs n i acc c).noPanic
  | 0, _, _, _, _ => True.intro
  | n+1, i, acc, c, h => by
    unfold readSets
    rw [idx_ok _ offs i (by omega), ok_bind]
    refine bind_noPanic (hcov _) (fun r _ => ?_)
    exact readSets_noPanic cov hcov base offs n (i + 1) _ _ (by omega)

theorem readSets_cost (cov : Sub) (C : Nat)
    (hcov : ∀ p sz d, cov p = .ok (sz, d) → d.steps ≤ C ∧ d.alloc ≤ C)
    (base : Nat) (offs : List Nat) :
    ∀ (n i : Nat) (acc : List Nat) (c : Cost) (r : List Nat) (c' : Cost),
      readSets cov base offs n i acc c = .ok (r, c') →
      c'.steps ≤ c.steps + n + n * C ∧ c'.alloc ≤ c.alloc + n * C
  | 0, _, _, c, r, c', h => by
    unfold readSets at h
    cases h
    simp
  | n+1, i, acc, c, r, c', h => by
    unfold readSets at h
    obtain ⟨o, _, h⟩ := bind_eq_ok h
    obtain ⟨⟨sz, d⟩, hd, h⟩ := bind_eq_ok h
    have ih := readSets_cost cov C hcov base offs n (i + 1) _ _ r c' h
    have hb := hcov _ _ _ hd
    simp only [addCost, Cost.tick] at ih
    rw [Nat.succ_mul]
    omega

/-! ## `gdef.Read` never panics -/

theorem read_noPanic (cls cov : Sub) (b : Bytes) (hcls : ∀ p, (cls p).noPanic)
    (hcov : ∀ p, (cov p).noPanic) : (read cls cov b).noPanic := by
  unfold read
  refine bind_noPanic (readBytes_noPanic _ _ _ _ (by omega)) (fun buf hbuf => ?_)
  obtain ⟨hl, _⟩ := readBytes_ok_length hbuf
  obtain ⟨major, hmajor, _⟩ := w16_ok "gdef.go:55#buf[0],buf[1]" buf 0 (by omega)
  obtain ⟨minor, hminor, _⟩ := w16_ok "gdef.go:56#buf[2],buf[3]" buf 2 (by omega)
  obtain ⟨o1, ho1, _⟩ := w16_ok "gdef.go:63#buf[4],buf[5]" buf 4 (by omega)
  obtain ⟨o2, ho2, _⟩ := w16_ok "gdef.go:64#buf[6],buf[7]" buf 6 (by omega)
  obtain ⟨o3, ho3, _⟩ := w16_ok "gdef.go:65#buf[8],buf[9]" buf 8 (by omega)
  obtain ⟨o4, ho4, _⟩ := w16_ok "gdef.go:66#buf[10],buf[11]" buf 10 (by omega)
  rw [hmajor, ok_bind, hminor, ok_bind]
  split
  · exact True.intro
  rw [ho1, ok_bind, ho2, ok_bind, ho3, ok_bind, ho4, ok_bind]
  refine bind_noPanic ?_ (fun ⟨mgs, c1⟩ _ => ?_)
  · split
    · refine bind_noPanic (readBytes_noPanic _ _ _ _ (by omega)) (fun w hw => ?_)
      obtain ⟨hwl, _⟩ := readBytes_ok_length hw
      obtain ⟨v, hv, _⟩ := w16_ok "gdef.go:69#ReadUint16" w 0 (by omega)
      rw [hv]
      exact True.intro
    · exact True.intro
  refine bind_noPanic ?_ (fun c2 _ => ?_)
  · split
    · exact bind_noPanic (readBytes_noPanic _ _ _ _ (by omega)) (fun _ _ => True.intro)
    · exact True.intro
  refine bind_noPanic ?_ (fun ⟨gc, c3⟩ _ => ?_)
  · split
    · exact bind_noPanic (hcls _) (fun _ _ => True.intro)
    · exact True.intro
  refine bind_noPanic ?_ (fun ⟨mac, c4⟩ _ => ?_)
  · split
    · exact bind_noPanic (hcls _) (fun _ _ => True.intro)
    · exact True.intro
  dsimp only
  split
  · exact True.intro
  refine bind_noPanic (readBytes_noPanic _ _ _ _ (by omega)) (fun hb hhb => ?_)
  obtain ⟨hhl, _⟩ := readBytes_ok_length hhb
  obtain ⟨fmt, hfmt, _⟩ := w16_ok "gdef.go:111#buf[0],buf[1]" hb 0 (by omega)
  obtain ⟨count, hcount, hclt⟩ := w16_ok "gdef.go:118#buf[2],buf[3]" hb 2 (by omega)
  rw [hfmt, ok_bind]
  split
  · exact True.intro
  rw [hcount, ok_bind, mkSlice_ok _ _ _ hclt, ok_bind]
  refine bind_noPanic (readOffsets_noPanic _ _ _ _ _) (fun ⟨offs, c5⟩ hoffs => ?_)
  dsimp only
  rw [mkSlice_ok _ _ _ hclt, ok_bind]
  obtain ⟨hol, _⟩ := readOffsets_ok _ _ _ _ _ _ _ hoffs
  refine bind_noPanic (readSets_noPanic cov hcov _ offs _ _ _ _ ?_) (fun _ _ => True.intro)
  simp only [List.length_nil] at hol
  omega

/-! ## cost bound -/

theorem read_cost (cls cov : Sub) (b : Bytes) (C : Nat)
    (hcls : ∀ p sz d, cls p = .ok (sz, d) → d.steps ≤ C ∧ d.alloc ≤ C)
    (hcov : ∀ p sz d, cov p = .ok (sz, d) → d.steps ≤ C ∧ d.alloc ≤ C)
    (t : Table) (c : Cost) (h : read cls cov b = .ok (t, c)) :
    c.steps ≤ (b.length / 4 + 3) * (C + 2) + 4 ∧ c.alloc ≤ (b.length / 4 + 3) * (C + 2) + 1 := by
  have hexp : (b.length / 4 + 3) * (C + 2) = b.length / 4 * C + 2 * (b.length / 4) + 3 * C + 6 := by
    rw [Nat.add_mul, Nat.mul_add]; omega
  rw [hexp]
  unfold read at h
  obtain ⟨buf, _, h⟩ := bind_eq_ok h
  obtain ⟨major, _, h⟩ := bind_eq_ok h
  obtain ⟨minor, _, h⟩ := bind_eq_ok h
  split at h
  · cases h
  obtain ⟨o1, _, h⟩ := bind_eq_ok h
  obtain ⟨o2, _, h⟩ := bind_eq_ok h
  obtain ⟨o3, _, h⟩ := bind_eq_ok h
  obtain ⟨o4, _, h⟩ := bind_eq_ok h
  obtain ⟨⟨mgs, c1⟩, h1, h⟩ := bind_eq_ok h
  have k1 : c1.steps ≤ 2 ∧ c1.alloc = 0 := by
    split at h1
    · obtain ⟨w, _, h1⟩ := bind_eq_ok h1
      obtain ⟨v, _, h1⟩ := bind_eq_ok h1
      cases h1
      simp [Cost.tick, Cost.zero]
    · cases h1
      simp [Cost.tick, Cost.zero]
  obtain ⟨c2, h2, h⟩ := bind_eq_ok h
  have k2 : c2.steps ≤ 3 ∧ c2.alloc = 0 := by
    split at h2
    · obtain ⟨w, _, h2⟩ := bind_eq_ok h2
      cases h2
      simp only [Cost.tick]
      omega
    · cases h2
      omega
  obtain ⟨⟨gc, c3⟩, h3, h⟩ := bind_eq_ok h
  have k3 : c3.steps ≤ 3 + C ∧ c3.alloc ≤ 1 + C := by
    dsimp only at h3
    split at h3
    · obtain ⟨⟨sz, d⟩, hd, h3⟩ := bind_eq_ok h3
      have := hcls _ _ _ hd
      cases h3
      simp only [addCost, Cost.mem]
      omega
    · cases h3
      simp only [Cost.mem]
      omega
  obtain ⟨⟨mac, c4⟩, h4, h⟩ := bind_eq_ok h
  have k4 : c4.steps ≤ 3 + 2 * C ∧ c4.alloc ≤ 1 + 2 * C := by
    dsimp only at h4
    split at h4
    · obtain ⟨⟨sz, d⟩, hd, h4⟩ := bind_eq_ok h4
      have := hcls _ _ _ hd
      cases h4
      simp only [addCost]
      omega
    · cases h4
      omega
  dsimp only at h
  split at h
  · cases h
    omega
  obtain ⟨hb, _, h⟩ := bind_eq_ok h
  obtain ⟨fmt, _, h⟩ := bind_eq_ok h
  split at h
  · cases h
  obtain ⟨count, _, h⟩ := bind_eq_ok h
  obtain ⟨c5, h5, h⟩ := bind_eq_ok h
  have k5 : c5 = (c4.tick).mem count := by
    unfold mkSlice at h5
    split at h5
    · cases h5
    · cases h5; rfl
  obtain ⟨⟨offs, c6⟩, h6, h⟩ := bind_eq_ok h
  obtain ⟨_, k6s, k6a, k6l⟩ := readOffsets_ok _ _ _ _ _ _ _ h6
  dsimp only at h
  obtain ⟨c7, h7, h⟩ := bind_eq_ok h
  have k7 : c7 = c6.mem count := by
    unfold mkSlice at h7
    split at h7
    · cases h7
    · cases h7; rfl
  obtain ⟨⟨sets, c8⟩, h8, h⟩ := bind_eq_ok h
  obtain ⟨k8s, k8a⟩ := readSets_cost cov C hcov _ _ _ _ _ _ _ _ h8
  dsimp only at h
  cases h
  subst k5 k7
  simp only [Cost.tick, Cost.mem] at k6s k6a k8s k8a
  have hq : count ≤ b.length / 4 := by omega
  have hm : count * C ≤ b.length / 4 * C := Nat.mul_le_mul_right C hq
  omega

/-! ## the finding: allocation is not proportional to the input size

All `markGlyphSetCount` coverage offsets may point at the SAME coverage table; `gdef.Read` decodes
(and allocates) it once per offset.  `adv n` is such a table of `18 + 4·n` bytes; with a coverage
sub-reader that allocates `K` elements per call the allocation is `1 + 2·n + n·K`. -/

/-- GDEF 1.2 header, MarkGlyphSetsDef at 14 with `n` offsets all equal to `4 + 4·n` -/
def adv (n : Nat) : Bytes :=
  [0,1,0,2, 0,0, 0,0, 0,0, 0,0, 0,14] ++ [0,1] ++ be16 n ++ (List.replicate n (be32 (4 + 4*n))).flatten
/-- coverage sub-reader: every call decodes a table of `K` glyphs: `K + 1` steps, `K` allocations -/
def covK (K : Nat) : Sub := fun _ => .ok (K, ⟨K + 1, K⟩)

theorem pure_bind' (a : α) (f : α → Outcome β) : ((pure a : Outcome α) >>= f) = f a := rfl

theorem w32_be32 (site : String) (v : Nat) (hv : v < 4294967296) : w32 site (be32 v) 0 = .ok v := by
  simp only [w32, be32, idx, List.getElem?_cons_zero, List.getElem?_cons_succ, ok_bind,
    UInt8.toNat_ofNat', Nat.zero_add]
  congr 1
  omega

theorem flat_length (k : Nat) (v : Nat) : (List.replicate k (be32 v)).flatten.length = 4 * k := by
  induction k with
  | zero => rfl
  | succ k ih =>
    rw [List.replicate_succ, List.flatten_cons, List.length_append, ih]
    simp only [be32, List.length_cons, List.length_nil]
    omega

theorem readOffsets_rep (b : Bytes) (v : Nat) (hv : v < 4294967296) :
    ∀ (k pos : Nat) (acc : List Nat) (c : Cost),
      b.drop pos = (List.replicate k (be32 v)).flatten →
      readOffsets b k pos acc c = .ok (acc.reverse ++ List.replicate k v, ⟨c.steps + k, c.alloc⟩)
  | 0, _, acc, c, _ => by
    simp [readOffsets]
  | k+1, pos, acc, c, h => by
    have hlen : (b.drop pos).length = 4 * (k + 1) := by rw [h, flat_length]
    rw [List.length_drop] at hlen
    have hrb : readBytes "gdef.go:121#ReadUint32" b pos 4 = .ok (be32 v) := by
      unfold readBytes
      rw [if_neg (by omega), if_pos (by omega), h, List.replicate_succ, List.flatten_cons]
      rfl
    have hnext : b.drop (pos + 4) = (List.replicate k (be32 v)).flatten := by
      rw [← List.drop_drop, h, List.replicate_succ, List.flatten_cons]
      rfl
    unfold readOffsets
    rw [hrb, ok_bind, w32_be32 _ _ hv, ok_bind, readOffsets_rep b v hv k (pos + 4) (v :: acc) c.tick hnext]
    simp only [List.reverse_cons, List.append_assoc, List.singleton_append, List.replicate_succ, Cost.tick]
    congr 3
    omega

theorem readSets_rep (K base m v : Nat) :
    ∀ (k i : Nat) (acc : List Nat) (c : Cost), i + k ≤ m →
      ∃ r c', readSets (covK K) base (List.replicate m v) k i acc c = .ok (r, c') ∧
        c'.alloc = c.alloc + k * K
  | 0, _, acc, c, _ => ⟨_, _, rfl, by simp⟩
  | k+1, i, acc, c, h => by
    unfold readSets
    rw [idx_ok _ _ i (by rw [List.length_replicate]; omega), ok_bind]
    obtain ⟨r, c', hr, hc⟩ := readSets_rep K base m v k (i + 1) (K :: acc) (addCost c.tick ⟨K + 1, K⟩) (by omega)
    refine ⟨r, c', hr, ?_⟩
    rw [hc, Nat.succ_mul]
    simp only [addCost, Cost.tick]
    omega

theorem readBytes_prefix (site : String) (P T : Bytes) (pos n : Nat) (hn : n ≤ 1024)
    (h : pos + n ≤ P.length) : readBytes site (P ++ T) pos n = .ok ((P.drop pos).take n) := by
  unfold readBytes
  rw [if_neg (by omega), if_pos (by rw [List.length_append]; omega),
    List.drop_append_of_le_length (by omega),
    List.take_append_of_le_length (by rw [List.length_drop]; omega)]

theorem adv_length (n : Nat) : (adv n).length = 18 + 4 * n := by
  unfold adv
  rw [List.length_append, flat_length]
  rfl

theorem adv_alloc (n K : Nat) (hn : n < 65536) (cls : Sub) :
    ∃ t c, read cls (covK K) (adv n) = .ok (t, c) ∧ c.alloc = 1 + 2 * n + n * K ∧
      (adv n).length = 18 + 4 * n := by
  have hv : 4 + 4 * n < 4294967296 := by omega
  have hb0 : readBytes "gdef.go:51#ReadBytes(12)" (adv n) 0 12 = .ok [0,1,0,2, 0,0, 0,0, 0,0, 0,0] :=
    readBytes_prefix _ _ _ 0 12 (by omega) (by simp [be16])
  have hb12 : readBytes "gdef.go:69#ReadUint16" (adv n) 12 2 = .ok [0,14] :=
    readBytes_prefix _ _ _ 12 2 (by omega) (by simp [be16])
  have hb14 : readBytes "gdef.go:107#ReadBytes(4)" (adv n) 14 4 = .ok (0 :: 1 :: be16 n) :=
    readBytes_prefix _ _ _ 14 4 (by omega) (by simp [be16])
  have hdrop : (adv n).drop (14 + 4) = (List.replicate n (be32 (4 + 4 * n))).flatten := by
    unfold adv
    rw [List.drop_append_of_le_length (by simp [be16])]
    rfl
  obtain ⟨r, c', hr, hc⟩ := readSets_rep K 14 n (4 + 4 * n) n 0 []
    ⟨3 + n, 1 + n + n⟩ (by omega)
  refine ⟨⟨none, none, some r⟩, c', ?_, ?_, adv_length n⟩
  · have hbe : (UInt8.ofNat (n / 256 % 256)).toNat * 256 + (UInt8.ofNat (n % 256)).toNat = n := by
      simp only [UInt8.toNat_ofNat']; omega
    unfold read
    simp only [hb0, hb12, ok_bind, pure_bind', w16, idx, be, List.getElem?_cons_succ,
      List.getElem?_cons_zero]
    have h0 : UInt8.toNat 0 = 0 := rfl
    have h1 : UInt8.toNat 1 = 1 := rfl
    have h2 : UInt8.toNat 2 = 2 := rfl
    have h14 : UInt8.toNat 14 = 14 := rfl
    simp only [h0, h1, h2, h14, Nat.reduceMul, Nat.reduceAdd, ne_eq, Nat.reduceEqDiff, not_true_eq_false,
      false_or, and_false, if_false, ge_iff_le, Nat.reduceLeDiff, Nat.le_refl, if_true, pure_bind', ok_bind,
      not_false_eq_true, and_true, hb14, List.getElem?_cons_succ,
      List.getElem?_cons_zero, be16, hbe, Cost.zero, Cost.tick, Cost.mem, mkSlice_ok _ _ _ hn,
      readOffsets_rep _ _ hv _ _ _ _ hdrop, List.reverse_nil, List.nil_append, hr]
  · dsimp only at hc; omega

/-- no bound of the form `alloc ≤ 4096·(input length) + 2^24` holds for `gdef.Read`, even with a
coverage reader whose own allocation is at most 65536 elements per call (witness `adv 1000`,
4018 bytes, 65 538 001 elements) -/
theorem read_alloc_not_proportional (cls : Sub) :
    ¬ ∀ b t c, read cls (covK 65536) b = .ok (t, c) → c.alloc ≤ 4096 * b.length + 16777216 := by
  intro h
  obtain ⟨t, c, hr, ha, hl⟩ := adv_alloc 1000 65536 (by omega) cls
  have := h _ t c hr
  rw [ha, hl] at this
  omega

/-! ## non-vacuity -/

set_option maxRecDepth 8192 in
/-- the bare 12-byte GDEF 1.0 header is accepted, whatever the sub-readers are -/
example (cls cov : Sub) :
    read cls cov [0,1,0,0, 0,0,0,0,0,0,0,0] = .ok (⟨none, none, none⟩, ⟨1, 1⟩) := by rfl

/-- concrete instance of the aliasing input: 8 offsets, 50 bytes, `8·2^24` elements -/
example : ∃ t c, read (fun _ => .err "x") (covK 16777216) (adv 8) = .ok (t, c) ∧
    c.alloc = 17 + 8 * 16777216 ∧ (adv 8).length = 50 := by
  obtain ⟨t, c, h, ha, hl⟩ := adv_alloc 8 16777216 (by omega) (fun _ => .err "x")
  exact ⟨t, c, h, by omega, by omega⟩

end SfntV.Total.Gdef
