import SfntV.Proofs.GNames

/-! C20 — helper lemmas, part 2: the duplicate filter, the placeholder pass, provenance of
cmap-derived names, sorted coverage, installing names. -/
namespace SfntV.GNames

/-! ### the duplicate / validity filter -/

theorem dedup_eq_cffKeep : ∀ (l used : List Name), dedup l used = cffKeep (fun _ => true) l used := by
  intro l
  induction l with
  | nil => intro used; rfl
  | cons nm rest ih =>
    intro used
    unfold dedup cffKeep
    by_cases h : nm ∈ used
    · simp [h, ih]
    · simp [h, ih]

theorem cffKeep_spec (v : Name → Bool) : ∀ (l used : List Name),
    (cffKeep v l used).1.length = l.length ∧
    (∀ x, x ∈ used → x ∈ (cffKeep v l used).2) ∧
    (∀ i, (cffKeep v l used).1.getD i [] ≠ [] →
      (cffKeep v l used).1.getD i [] ∈ (cffKeep v l used).2 ∧
      (cffKeep v l used).1.getD i [] ∉ used ∧
      (cffKeep v l used).1.getD i [] = l.getD i []) ∧
    (∀ i j, (cffKeep v l used).1.getD i [] ≠ [] →
      (cffKeep v l used).1.getD i [] = (cffKeep v l used).1.getD j [] → i = j) ∧
    (∀ i, i < l.length → v (l.getD i []) = true → l.getD i [] ∉ used →
      (∀ j, j < i → l.getD j [] ≠ l.getD i []) → (cffKeep v l used).1.getD i [] = l.getD i []) := by
  intro l
  induction l with
  | nil =>
    intro used
    simp [cffKeep]
  | cons nm rest ih =>
    intro used
    unfold cffKeep
    by_cases hb : (!v nm) = true ∨ nm ∈ used
    · rw [if_pos hb]
      obtain ⟨h1, h2, h3, h4, h5⟩ := ih used
      refine ⟨by simp [h1], h2, ?_, ?_, ?_⟩
      · intro i hi
        rcases i with _ | i
        · simp only [List.getD_cons_zero] at hi; exact absurd rfl hi
        · simp only [List.getD_cons_succ] at hi ⊢
          exact h3 i hi
      · intro i j hi he
        rcases i with _ | i
        · simp only [List.getD_cons_zero] at hi; exact absurd rfl hi
        · rcases j with _ | j
          · simp only [List.getD_cons_succ, List.getD_cons_zero] at hi he; exact absurd he hi
          · simp only [List.getD_cons_succ] at hi he; have := h4 i j hi he; omega
      · intro i hi hv hu hj
        rcases i with _ | i
        · simp only [List.getD_cons_zero] at hv hu
          rcases hb with hb | hb
          · simp [hv] at hb
          · exact absurd hb hu
        · simp only [List.getD_cons_succ, List.length_cons] at hi hv hu ⊢
          apply h5 i (by omega) hv hu
          intro j hjl
          have := hj (j + 1) (by omega)
          simpa only [List.getD_cons_succ] using this
    · rw [if_neg hb]
      have hnu : nm ∉ used := fun h => hb (Or.inr h)
      obtain ⟨h1, h2, h3, h4, h5⟩ := ih (nm :: used)
      refine ⟨by simp [h1], fun x hx => h2 x (by simp [hx]), ?_, ?_, ?_⟩
      · intro i hi
        rcases i with _ | i
        · simp only [List.getD_cons_zero]
          exact ⟨h2 nm (by simp), hnu, trivial⟩
        · simp only [List.getD_cons_succ] at hi ⊢
          obtain ⟨a, b, c⟩ := h3 i hi
          exact ⟨a, fun h => b (List.mem_cons_of_mem _ h), c⟩
      · intro i j hi he
        rcases i with _ | i <;> rcases j with _ | j
        · rfl
        · simp only [List.getD_cons_succ, List.getD_cons_zero] at hi he
          have := (h3 j (he ▸ hi)).2.1
          rw [← he] at this
          exact absurd (List.mem_cons_self) this
        · simp only [List.getD_cons_succ, List.getD_cons_zero] at hi he
          have := (h3 i hi).2.1
          rw [he] at this
          exact absurd (List.mem_cons_self) this
        · simp only [List.getD_cons_succ] at hi he; have := h4 i j hi he; omega
      · intro i hi hvi hu hj
        rcases i with _ | i
        · simp only [List.getD_cons_zero]
        · simp only [List.getD_cons_succ, List.length_cons] at hi hvi hu ⊢
          apply h5 i (by omega) hvi
          · intro hm
            rcases List.mem_cons.1 hm with e | e
            · have := hj 0 (by omega)
              simp only [List.getD_cons_succ, List.getD_cons_zero] at this
              exact this e.symm
            · exact hu e
          · intro j hjl
            have := hj (j + 1) (by omega)
            simpa only [List.getD_cons_succ] using this

theorem dedup_spec (l used : List Name) :
    (dedup l used).1.length = l.length ∧
    (∀ x, x ∈ used → x ∈ (dedup l used).2) ∧
    (∀ i, (dedup l used).1.getD i [] ≠ [] →
      (dedup l used).1.getD i [] ∈ (dedup l used).2 ∧
      (dedup l used).1.getD i [] ∉ used ∧
      (dedup l used).1.getD i [] = l.getD i []) ∧
    (∀ i j, (dedup l used).1.getD i [] ≠ [] →
      (dedup l used).1.getD i [] = (dedup l used).1.getD j [] → i = j) ∧
    (∀ i, i < l.length → l.getD i [] ∉ used →
      (∀ j, j < i → l.getD j [] ≠ l.getD i []) → (dedup l used).1.getD i [] = l.getD i []) := by
  rw [dedup_eq_cffKeep]
  obtain ⟨h1, h2, h3, h4, h5⟩ := cffKeep_spec (fun _ => true) l used
  exact ⟨h1, h2, h3, h4, fun i hi => h5 i hi rfl⟩

theorem initNames_length (o : Outl) : o.initNames.length = o.numGlyphs := by
  cases o with
  | cff ns => rfl
  | glyf n ns =>
    simp only [Outl.initNames, Outl.numGlyphs]
    split
    · assumption
    · simp

theorem getD_set_notdef (l : List Name) (i : Nat) :
    (l.set 0 notdef).getD i [] = if i = 0 ∧ 0 < l.length then notdef else l.getD i [] := by
  simp only [List.getD_eq_getElem?_getD, List.getElem?_set]
  by_cases h : 0 = i
  · subst h
    by_cases h2 : 0 < l.length
    · simp [h2]
    · simp [h2]
  · have : ¬ i = 0 := fun e => h e.symm
    simp [h, this]

theorem stage0_n (o : Outl) : (stage0 o).n = o.numGlyphs := by
  simp [stage0, St.n, (dedup_spec _ _).1, initNames_length]

theorem stage0_inv (o : Outl) : Inv (stage0 o) := by
  obtain ⟨_, _, h3, h4, _⟩ := dedup_spec (o.initNames.set 0 notdef) []
  exact ⟨fun i hi => (h3 i hi).1, h4⟩

theorem notdef_ne_nil : notdef ≠ [] := by simp [notdef]

theorem stage0_zero (o : Outl) (hn : 0 < o.numGlyphs) : (stage0 o).nameAt 0 = notdef := by
  obtain ⟨_, _, _, _, h5⟩ := dedup_spec (o.initNames.set 0 notdef) []
  have := h5 0 (by simp [initNames_length, hn]) (by simp) (fun j hj => by omega)
  simp only [stage0, St.nameAt]
  rw [this, getD_set_notdef]
  simp [initNames_length, hn]

/-- a name that the font already has for glyph `i > 0`, which is not empty, not `.notdef`, and not
the name of an earlier glyph, survives the filter -/
theorem stage0_kept (o : Outl) (i : Nat) (hi : 0 < i) (hlt : i < o.numGlyphs)
    (hnd : o.initNames.getD i [] ≠ notdef)
    (hfirst : ∀ j, 0 < j → j < i → o.initNames.getD j [] ≠ o.initNames.getD i []) :
    (stage0 o).nameAt i = o.initNames.getD i [] := by
  obtain ⟨_, _, _, _, h5⟩ := dedup_spec (o.initNames.set 0 notdef) []
  have hne : ¬ (i = 0 ∧ 0 < o.initNames.length) := by omega
  have := h5 i (by simp [initNames_length, hlt]) (by simp) (by
    intro j hj
    rw [getD_set_notdef, getD_set_notdef, if_neg hne]
    by_cases h0 : j = 0
    · subst h0
      rw [if_pos ⟨rfl, by rw [initNames_length]; omega⟩]
      exact fun e => hnd e.symm
    · rw [if_neg (by omega)]
      exact hfirst j (by omega) hj)
  simp only [stage0, St.nameAt]
  rw [this, getD_set_notdef, if_neg hne]

/-! ### the placeholder pass fills every slot -/

theorem nameAt_fill' (st : St) (g : Nat) (nm : Name) (i : Nat) :
    (st.fill g nm).nameAt i = if i = g ∧ g < st.n then nm else st.nameAt i := by
  by_cases hg : g < st.n
  · rw [nameAt_fill hg]
    by_cases h : i = g <;> simp [h, hg]
  · simp only [hg, and_false, if_false]
    simp only [St.nameAt, St.fill]
    rw [List.set_eq_of_length_le (by unfold St.n at hg; omega)]

theorem ornStep_filled (s : St × Nat) (i : Nat) (hi : i < s.1.n) : (ornStep s i).1.nameAt i ≠ [] := by
  unfold ornStep
  split
  · assumption
  · simp only
    rw [nameAt_fill hi]
    simp [ornName_ne_nil]

theorem ornFold_filled (l : List Nat) : ∀ (s : St × Nat) (i : Nat), i ∈ l → i < s.1.n →
    (l.foldl ornStep s).1.nameAt i ≠ [] := by
  induction l with
  | nil => intro s i h; simp at h
  | cons a l ih =>
    intro s i hm hi
    simp only [List.foldl_cons]
    rcases List.mem_cons.1 hm with e | e
    · subst e
      have h1 := ornStep_filled s i hi
      have := (step_ornFold l (ornStep s i)).1.2.1 i h1
      rw [this]; exact h1
    · exact ih _ i e (by rw [(step_ornStep s a).1.1]; exact hi)

theorem ornPass_filled (st : St) (i : Nat) (hi : i < st.n) : (ornPass st).nameAt i ≠ [] :=
  ornFold_filled _ (st, 1) i (List.mem_range.2 hi) hi

theorem ornFold_prov (st0 : St) (l : List Nat) : ∀ (s : St × Nat),
    (1 ≤ s.2 ∧ ∀ i, st0.nameAt i = [] → s.1.nameAt i = [] ∨ ∃ k, 1 ≤ k ∧ s.1.nameAt i = ornName k) →
    (∀ i, st0.nameAt i = [] → (l.foldl ornStep s).1.nameAt i = [] ∨
      ∃ k, 1 ≤ k ∧ (l.foldl ornStep s).1.nameAt i = ornName k) := by
  induction l with
  | nil => intro s h; exact h.2
  | cons a l ih =>
    intro s ⟨hk, h⟩
    simp only [List.foldl_cons]
    apply ih
    unfold ornStep
    split
    · exact ⟨hk, h⟩
    · have hj := (firstFresh_spec ornName (fun _ _ => ornName_inj) s.1.used s.2).2.1
      refine ⟨by simp only; omega, ?_⟩
      intro i hi
      simp only
      rw [nameAt_fill']
      split
      · right; exact ⟨_, by omega, rfl⟩
      · exact h i hi

theorem ornPass_prov (st : St) (i : Nat) (he : st.nameAt i = []) (hi : i < st.n) :
    ∃ k, 1 ≤ k ∧ (ornPass st).nameAt i = ornName k := by
  have := ornFold_prov st (List.range st.n) (st, 1) ⟨Nat.le_refl _, fun j hj => Or.inl hj⟩ i he
  rcases this with h | h
  · exact absurd h (ornPass_filled st i hi)
  · exact h

/-! ### names given by the cmap pass come from the cmap -/

theorem foldl_inv {α : Type} (P : St → Prop) (f : St → α → St) (l : List α)
    (h : ∀ st a, a ∈ l → P st → P (f st a)) : ∀ st, P st → P (l.foldl f st) := by
  induction l with
  | nil => intro st hp; exact hp
  | cons a l ih =>
    intro st hp
    simp only [List.foldl_cons]
    exact ih (fun st b hb => h st b (by simp [hb])) _ (h st a (by simp) hp)

theorem cmapPass_prov (fromU : Nat → Name) (cm : Option CMap) (st0 : St) (i : Nat)
    (he : st0.nameAt i = []) (hne : (cmapPass fromU cm st0).nameAt i ≠ []) :
    ∃ c r, cm = some c ∧ c.lo ≤ r ∧ r ≤ c.hi ∧ c.lookup r = i ∧
      (cmapPass fromU cm st0).nameAt i = fromU r := by
  cases cm with
  | none => exact absurd he hne
  | some c =>
    have := foldl_inv
      (fun st => ∀ i, st0.nameAt i = [] → st.nameAt i = [] ∨
        ∃ r, c.lo ≤ r ∧ r ≤ c.hi ∧ c.lookup r = i ∧ st.nameAt i = fromU r)
      (cmapStep fromU c) (List.range' c.lo (c.hi + 1 - c.lo))
      (by
        intro st a ha hp i hi
        have hr := List.mem_range'_1.1 ha
        unfold cmapStep
        simp only
        split
        · split
          · exact hp i hi
          · rw [nameAt_fill']
            split
            · rename_i h
              right; exact ⟨a, hr.1, by omega, h.1.symm, rfl⟩
            · exact hp i hi
        · exact hp i hi)
      st0 (fun i hi => Or.inl hi) i he
    rcases this with h | ⟨r, h⟩
    · exact absurd h hne
    · exact ⟨c, r, rfl, h⟩

/-! ### sorted coverage does not depend on the order of the map range -/

theorem insSorted_perm (le : α → α → Bool) (a : α) (l : List α) : (insSorted le a l).Perm (a :: l) := by
  induction l with
  | nil => exact List.Perm.refl _
  | cons b l ih =>
    unfold insSorted
    split
    · exact List.Perm.refl _
    · exact (List.Perm.cons b ih).trans (List.Perm.swap a b l)

theorem isort_perm (le : α → α → Bool) (l : List α) : (isort le l).Perm l := by
  induction l with
  | nil => exact List.Perm.refl _
  | cons a l ih => exact (insSorted_perm le a _).trans (List.Perm.cons a ih)

theorem insSorted_pairwise (le : α → α → Bool) (trans : ∀ a b c, le a b → le b c → le a c)
    (total : ∀ a b, le a b || le b a) (a : α) (l : List α) (h : l.Pairwise (fun x y => le x y)) :
    (insSorted le a l).Pairwise (fun x y => le x y) := by
  induction l with
  | nil => simp [insSorted]
  | cons b l ih =>
    rw [List.pairwise_cons] at h
    unfold insSorted
    split
    · rename_i hab
      rw [List.pairwise_cons]
      refine ⟨?_, List.pairwise_cons.2 h⟩
      intro x hx
      rcases List.mem_cons.1 hx with e | e
      · rw [e]; exact hab
      · exact trans a b x hab (h.1 x e)
    · rename_i hab
      have hba : le b a = true := by
        have := total a b
        cases h1 : le a b
        · simpa [h1] using this
        · exact absurd h1 hab
      rw [List.pairwise_cons]
      refine ⟨?_, ih h.2⟩
      intro x hx
      rcases List.mem_cons.1 ((insSorted_perm le a l).subset hx) with e | e
      · rw [e]; exact hba
      · exact h.1 x e

theorem isort_pairwise (le : α → α → Bool) (trans : ∀ a b c, le a b → le b c → le a c)
    (total : ∀ a b, le a b || le b a) (l : List α) : (isort le l).Pairwise (fun x y => le x y) := by
  induction l with
  | nil => simp [isort]
  | cons a l ih => exact insSorted_pairwise le trans total a _ ih

theorem sortKeys_perm {l l' : List Nat} (h : l.Perm l') : sortKeys l = sortKeys l' := by
  unfold sortKeys
  apply List.Perm.eq_of_pairwise (le := fun a b => decide (a ≤ b) = true)
  · intro a b _ _ h1 h2
    simp at h1 h2; omega
  · exact isort_pairwise _ (by intro a b c; simp; omega) (by intro a b; simp; omega) l
  · exact isort_pairwise _ (by intro a b c; simp; omega) (by intro a b; simp; omega) l'
  · exact (isort_perm _ l).trans (h.trans (isort_perm _ l').symm)

theorem fst_inj_of_nodup : ∀ (l : List (Nat × Nat)), (l.map Prod.fst).Nodup →
    ∀ a b, a ∈ l → b ∈ l → a.1 = b.1 → a = b := by
  intro l
  induction l with
  | nil => intro _ a b h; simp at h
  | cons c l ih =>
    intro hn a b ha hb he
    simp only [List.map_cons, List.nodup_cons] at hn
    rcases List.mem_cons.1 ha with ea | ea <;> rcases List.mem_cons.1 hb with eb | eb
    · rw [ea, eb]
    · exfalso; apply hn.1; rw [← ea, he]; exact List.mem_map_of_mem eb
    · exfalso; apply hn.1; rw [← eb, ← he]; exact List.mem_map_of_mem ea
    · exact ih hn.2 a b ea eb he

theorem sortCov_perm {l l' : List (Nat × Nat)} (h : l.Perm l') (hn : (l.map Prod.fst).Nodup) :
    sortCov l = sortCov l' := by
  unfold sortCov
  apply List.Perm.eq_of_pairwise (le := fun a b => decide (a.1 ≤ b.1) = true)
  · intro a b ha hb h1 h2
    have ha' : a ∈ l := (isort_perm _ l).subset ha
    have hb' : b ∈ l := h.symm.subset ((isort_perm _ l').subset hb)
    simp at h1 h2
    exact fst_inj_of_nodup l hn a b ha' hb' (by omega)
  · exact isort_pairwise _ (by intro a b c; simp; omega) (by intro a b; simp; omega) l
  · exact isort_pairwise _ (by intro a b c; simp; omega) (by intro a b; simp; omega) l'
  · exact (isort_perm _ l).trans (h.trans (isort_perm _ l').symm)

/-- two descriptions of the same subtable: the coverage map listed in two different orders -/
inductive SubEquiv : Sub → Sub → Prop
  | single1 {c c' : List Nat} (d : Nat) : c.Perm c' → SubEquiv (.single1 c d) (.single1 c' d)
  | single2 {c c' : List (Nat × Nat)} (s : List Nat) : c.Perm c' → (c.map Prod.fst).Nodup →
      SubEquiv (.single2 c s) (.single2 c' s)
  | alt {c c' : List (Nat × Nat)} (a : List (List Nat)) : c.Perm c' → (c.map Prod.fst).Nodup →
      SubEquiv (.alt c a) (.alt c' a)
  | lig {c c' : List (Nat × Nat)} (r : List (List (List Nat × Nat))) : c.Perm c' →
      (c.map Prod.fst).Nodup → SubEquiv (.lig c r) (.lig c' r)
  | other : SubEquiv .other .other

theorem SubEquiv.norm_eq {a b : Sub} (h : SubEquiv a b) : a.norm = b.norm := by
  cases h with
  | single1 d h => simp [Sub.norm, sortKeys_perm h]
  | single2 s h hn => simp [Sub.norm, sortCov_perm h hn]
  | alt s h hn => simp [Sub.norm, sortCov_perm h hn]
  | lig s h hn => simp [Sub.norm, sortCov_perm h hn]
  | other => rfl

/-- two descriptions of the same lookup list -/
inductive SubsEquiv : List Sub → List Sub → Prop
  | nil : SubsEquiv [] []
  | cons {a b : Sub} {l l' : List Sub} : SubEquiv a b → SubsEquiv l l' → SubsEquiv (a :: l) (b :: l')

theorem map_norm_eq {l l' : List Sub} (h : SubsEquiv l l') :
    l.map Sub.norm = l'.map Sub.norm := by
  induction h with
  | nil => rfl
  | cons h _ ih => simp [h.norm_eq, ih]

/-! ### installing and asking again -/

theorem install_initNames (o : Outl) (r : List Name) (h : r.length = o.numGlyphs) :
    (o.install r).initNames = r ∧ (o.install r).numGlyphs = o.numGlyphs := by
  cases o with
  | cff ns => exact ⟨rfl, h⟩
  | glyf n ns =>
    simp only [Outl.numGlyphs] at h
    simp [Outl.install, Outl.initNames, Outl.numGlyphs, h]

theorem ext_getD {l l' : List Name} (hl : l.length = l'.length)
    (h : ∀ i, i < l.length → l.getD i [] = l'.getD i []) : l = l' := by
  apply List.ext_getElem hl
  intro i h1 h2
  have := h i h1
  simpa [List.getD_eq_getElem?_getD, List.getElem?_eq_getElem h1, List.getElem?_eq_getElem h2] using this

theorem complete_iff (l : List Name) : complete l = true ↔ ∀ i, i < l.length → l.getD i [] ≠ [] := by
  unfold complete
  rw [List.all_eq_true]
  constructor
  · intro h i hi
    have := h (l[i]) (List.getElem_mem hi)
    simpa [List.getD_eq_getElem?_getD, List.getElem?_eq_getElem hi] using this
  · intro h x hx
    obtain ⟨i, hi, e⟩ := List.getElem_of_mem hx
    have := h i hi
    simp [List.getD_eq_getElem?_getD, List.getElem?_eq_getElem hi, e] at this
    simpa using this

/-- a complete duplicate-free list that starts with `.notdef` passes the filter unchanged -/
theorem dedup_fixed (r : List Name) (h0 : r.getD 0 [] = notdef)
    (hinj : ∀ i j, i < r.length → j < r.length → r.getD i [] = r.getD j [] → i = j) :
    (dedup (r.set 0 notdef) []).1 = r := by
  have hset : r.set 0 notdef = r := by
    apply ext_getD (by simp)
    intro i hi
    rw [getD_set_notdef]
    split
    · rename_i h; rw [h.1, h0]
    · rfl
  rw [hset]
  obtain ⟨h1, _, _, _, h5⟩ := dedup_spec r []
  apply ext_getD h1
  intro i hi
  rw [h1] at hi
  apply h5 i hi (by simp)
  intro j hj e
  have := hinj j i (by omega) hi e
  omega

/-! ### cff makeNames: the text pass -/

theorem altSearch_fresh (v : Name → Bool) (base : Name) (used : List Name) :
    ∀ fuel t k, altSearch v base used fuel t = some k → altName base k ∉ used := by
  intro fuel
  induction fuel with
  | zero => intro t k h; simp [altSearch] at h
  | succ fuel ih =>
    intro t k h
    unfold altSearch at h
    split at h
    · cases h
    · split at h
      · exact ih _ _ h
      · rename_i hu
        cases h
        exact hu

theorem step_textStep (v : Name → Bool) (tb : Nat → Option Name) (st : St) (g : Nat) :
    Step st (textStep v tb st g) := by
  unfold textStep
  split
  · exact Step.refl st
  · rename_i hne
    have he : st.nameAt g = [] := by
      by_cases e : st.nameAt g = []
      · exact e
      · exact absurd e hne
    split
    · exact Step.refl st
    · rename_i base _
      split
      · exact Step.refl st
      · rename_i t ht
        by_cases hg : g < st.n
        · exact step_fill hg he (altSearch_fresh v base st.used _ _ _ ht)
        · -- cannot happen for g drawn from `range n`; the slice is unchanged anyway
          refine ⟨⟨by simp [St.n, St.fill], fun i _ => by rw [nameAt_fill']; simp [hg],
            fun x hx => by simp [St.fill, hx]⟩, ?_⟩
          intro ⟨hu, hd⟩
          refine ⟨fun j hj => ?_, fun j k hj hk => ?_⟩
          · rw [nameAt_fill'] at hj ⊢
            simp only [hg, and_false, if_false] at hj ⊢
            simp [St.fill, hu j hj]
          · rw [nameAt_fill'] at hj hk
            rw [nameAt_fill'] at hk
            simp only [hg, and_false, if_false] at hj hk
            exact hd j k hj hk

end SfntV.GNames
