/-
Helper lemmas about the model of `(*Font).Write`: the exit state of the offset loop.
-/
import SfntV.Model.CffWrite

namespace SfntV.Cff
open SfntV

theorem writeLoop_exit (mk : List Int → List Bytes) (n : Nat) :
    ∀ (fuel : Nat) (offs : List Int) (k : Nat) (blobs : List Bytes) (offs' : List Int) (k' : Nat),
      writeLoop mk n fuel offs k = some (blobs, offs', k') →
      blobs = mk offs' ∧ sameOffs n (cumsum blobs) offs' = true := by
  intro fuel
  induction fuel with
  | zero => intro offs k blobs offs' k' h; simp [writeLoop] at h
  | succ fuel ih =>
    intro offs k blobs offs' k' h
    simp only [writeLoop] at h
    split at h
    · rename_i hs
      injection h with h
      injection h with h1 h2
      injection h2 with h2 h3
      subst h1 h2
      exact ⟨rfl, hs⟩
    · exact ih _ _ _ _ _ h

theorem cumsum_go_getD (blobs : List Bytes) : ∀ (acc : Int) (i : Nat), i ≤ blobs.length →
    (cumsum.go blobs acc).getD i 0 = acc + ((blobs.take i).flatten.length : Int) := by
  induction blobs with
  | nil =>
    intro acc i hi
    have : i = 0 := by simpa using hi
    subst this
    simp [cumsum.go]
  | cons b bs ih =>
    intro acc i hi
    cases i with
    | zero => simp [cumsum.go]
    | succ i =>
      simp only [cumsum.go, List.getD_cons_succ, List.take_succ_cons, List.flatten_cons, List.length_append]
      rw [ih (acc + b.length) i (by simpa using hi)]
      omega

/-- entry `i` of `cumsum` is the position of section `i` in the concatenation -/
theorem cumsum_getD (blobs : List Bytes) (i : Nat) (hi : i ≤ blobs.length) :
    (cumsum blobs).getD i 0 = ((blobs.take i).flatten.length : Int) := by
  have := cumsum_go_getD blobs 0 i hi
  simpa [cumsum] using this

theorem getD_of_take_eq (a b : List Int) (n i : Nat) (h : a.take n = b.take n) (hi : i < n) :
    a.getD i 0 = b.getD i 0 := by
  have h1 : (a.take n)[i]? = (b.take n)[i]? := by rw [h]
  rw [List.getElem?_take_of_lt hi, List.getElem?_take_of_lt hi] at h1
  simp [List.getD_eq_getElem?_getD, h1]

end SfntV.Cff
