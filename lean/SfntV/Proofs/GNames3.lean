import SfntV.Proofs.GNames2

/-! C20 — the shape of names given by the GSUB pass: a variant `base`, `base.1`, `base.2`, … whose
base is the name of a glyph (single/alternate substitution) or the names of the ligature's
components joined by `_`. -/
namespace SfntV.GNames

/-- `base` is the name of a named glyph, or the `_`-joined names of a named first glyph and named
further components -/
@[reducible] def Src (st : St) (base : Name) : Prop :=
  (∃ o, st.nameAt o ≠ [] ∧ base = st.nameAt o) ∨
  (∃ (o : Nat) (ins : List Nat), st.nameAt o ≠ [] ∧ (∀ g, g ∈ ins → st.nameAt g ≠ []) ∧
    base = joinU (st.nameAt o :: ins.map st.nameAt))

/-- `nm` is `base` or `base.N` (N ≥ 1) for such a base -/
def Shape (st : St) (nm : Name) : Prop := ∃ base t, Src st base ∧ nm = variantName base t

theorem Src.mono {a b : St} (h : Ext a b) {base : Name} (hs : Src a base) : Src b base := by
  rcases hs with ⟨o, ho, e⟩ | ⟨o, ins, ho, hall, e⟩
  · left
    have := h.2.1 o ho
    exact ⟨o, by rw [this]; exact ho, by rw [this]; exact e⟩
  · right
    have h1 := h.2.1 o ho
    have h2 : ins.map b.nameAt = ins.map a.nameAt :=
      List.map_congr_left (fun g hg => h.2.1 g (hall g hg))
    refine ⟨o, ins, by rw [h1]; exact ho, fun g hg => by rw [h.2.1 g (hall g hg)]; exact hall g hg, ?_⟩
    rw [h1, h2]; exact e

theorem Shape.mono {a b : St} (h : Ext a b) {nm : Name} : Shape a nm → Shape b nm :=
  fun ⟨base, t, hs, e⟩ => ⟨base, t, hs.mono h, e⟩

/-- every slot that was empty in `s1` is still empty or holds a name of the GSUB shape -/
def GP (s1 st : St) : Prop := ∀ i, s1.nameAt i = [] → st.nameAt i = [] ∨ Shape st (st.nameAt i)

theorem gp_fillVariant {s1 st : St} {nw : Nat} {base : Name} (hp : GP s1 st) (hg : nw < st.n)
    (he : st.nameAt nw = []) (hs : Src st base) : GP s1 (st.fillVariant nw base) := by
  have hstep := (step_fillVariant base hg he).1
  intro i hi
  by_cases e : i = nw
  · right
    subst e
    have hn : (st.fillVariant i base).nameAt i =
        variantName base (firstFresh (variantName base) st.used (st.used.length + 1) 0) := by
      unfold St.fillVariant
      rw [nameAt_fill hg, if_pos rfl]
    rw [hn]
    exact ⟨base, _, hs.mono hstep, rfl⟩
  · have hsame : (st.fillVariant nw base).nameAt i = st.nameAt i := by
      unfold St.fillVariant
      rw [nameAt_fill hg, if_neg e]
    rw [hsame]
    rcases hp i hi with h | h
    · exact Or.inl h
    · exact Or.inr (h.mono hstep)

theorem gp_singleStep {s1 st : St} (o nw : Nat) (hp : GP s1 st) : GP s1 (singleStep st o nw) := by
  unfold singleStep
  split
  · rename_i h
    split
    · exact hp
    · rename_i h2
      have h2' : st.nameAt o ≠ [] ∧ st.nameAt nw = [] := by
        constructor
        · exact fun e => h2 (Or.inl e)
        · by_cases e : st.nameAt nw = []
          · exact e
          · exact absurd (Or.inr e) h2
      exact gp_fillVariant hp h.2 h2'.2 (Or.inl ⟨o, h2'.1, rfl⟩)
  · exact hp

theorem gp_altStep {s1 st : St} (o nw : Nat) (ho : st.nameAt o ≠ []) (hp : GP s1 st) :
    GP s1 (altStep o st nw) := by
  unfold altStep
  split
  · rename_i h; exact gp_fillVariant hp h.1 h.2 (Or.inl ⟨o, ho, rfl⟩)
  · exact hp

theorem gp_ligStep {s1 st : St} (o : Nat) (name : Name) (l : List Nat × Nat) (hn : name ≠ [])
    (ho : st.nameAt o = name) (hp : GP s1 st) : GP s1 (ligStep name st l) := by
  unfold ligStep
  split
  · rename_i h
    split
    · rename_i hall
      refine gp_fillVariant hp h.1 h.2 (Or.inr ⟨o, l.1, by rw [ho]; exact hn, ?_, by rw [ho]⟩)
      intro g hg
      have := List.all_eq_true.1 hall g hg
      simp only [Bool.and_eq_true, decide_eq_true_eq] at this
      exact this.2
    · exact hp
  · exact hp

theorem gp_subStepSorted {s1 : St} (st : St) (s : Sub) (hp : GP s1 st) : GP s1 (subStepSorted st s) := by
  cases s with
  | single1 cov delta =>
    exact foldl_inv (GP s1) _ _ (fun st o _ h => gp_singleStep o _ h) st hp
  | single2 cov subst =>
    refine foldl_inv (GP s1) _ _ (fun st p _ h => ?_) st hp
    split
    · exact gp_singleStep _ _ h
    · exact h
  | alt cov alts =>
    refine foldl_inv (GP s1) _ _ (fun st p _ h => ?_) st hp
    split
    · split
      · rename_i as _ hc
        have := foldl_inv (fun s => GP s1 s ∧ s.nameAt p.1 ≠ []) (altStep p.1) as
          (fun s a _ hs => ⟨gp_altStep p.1 a hs.2 hs.1, by
            rw [(step_altStep p.1 s a).1.2.1 p.1 hs.2]; exact hs.2⟩) st ⟨h, hc.2⟩
        exact this.1
      · exact h
    · exact h
  | lig cov repl =>
    refine foldl_inv (GP s1) _ _ (fun st p _ h => ?_) st hp
    split
    · split
      · rename_i ls _ hc
        have := foldl_inv (fun s => GP s1 s ∧ s.nameAt p.1 = st.nameAt p.1) (ligStep (st.nameAt p.1)) ls
          (fun s a _ hs => ⟨gp_ligStep p.1 _ a hc.2 hs.2 hs.1, by
            rw [(step_ligStep (st.nameAt p.1) s a).1.2.1 p.1 (by rw [hs.2]; exact hc.2)]; exact hs.2⟩)
          st ⟨h, rfl⟩
        exact this.1
      · exact h
    · exact h
  | other => exact hp

theorem gp_gsubPass (subs : List Sub) (s1 : St) : GP s1 (gsubPass subs s1) := by
  unfold gsubPass
  exact foldl_inv (GP s1) _ _ (fun st s _ h => gp_subStepSorted st s h) s1 (fun _ h => Or.inl h)

end SfntV.GNames
