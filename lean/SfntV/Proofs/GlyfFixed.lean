/-
Proofs for C11, part 6: everything `Decode` returns is well-formed (so that re-encoding it is a
fixed point of the codec).
-/
import SfntV.Proofs.GlyfRoundtrip

namespace SfntV.Glyf
open SfntV

theorem rd16_lt (b : Bytes) (k : Nat) : rd16 b k < 65536 := by
  unfold rd16
  have := (b[k]?.getD 0).toNat_lt
  have := (b[k+1]?.getD 0).toNat_lt
  omega

theorem rd16_take (b : Bytes) (k m : Nat) (h : k + 1 < m) : rd16 (b.take m) k = rd16 b k := by
  unfold rd16
  rw [List.getElem?_take, List.getElem?_take]
  simp [h, show k < m by omega]

/-! ### `removePadding` returns an exact description -/

theorem rpWalk_take (b : Bytes) (np : Nat) :
    ∀ fuel pos coord i p' c' i', rpWalk b np fuel pos coord i = some (p', c', i') →
      pos ≤ p' ∧ ∀ m, p' ≤ m → rpWalk (b.take m) np fuel pos coord i = some (p', c', i') := by
  intro fuel
  induction fuel with
  | zero =>
    intro pos coord i p' c' i' h
    simp only [rpWalk, Option.some.injEq, Prod.mk.injEq] at h
    obtain ⟨h1, h2, h3⟩ := h
    subst h1 h2 h3
    exact ⟨Nat.le_refl _, fun m _ => rfl⟩
  | succ fuel ih =>
    intro pos coord i p' c' i' h
    unfold rpWalk at h
    by_cases hi : i < np
    · simp only [hi, if_true] at h
      cases hb : b[pos]? with
      | none => simp [hb] at h
      | some fl =>
        simp only [hb] at h
        by_cases hr : bit fl.toNat flagRepeat = true
        · simp only [hr, if_true] at h
          cases hc : b[pos + 1]? with
          | none => simp [hc] at h
          | some c =>
            simp only [hc] at h
            obtain ⟨hle, hm⟩ := ih _ _ _ _ _ _ h
            refine ⟨by omega, fun m hmp => ?_⟩
            unfold rpWalk
            simp only [hi, if_true]
            rw [List.getElem?_take, List.getElem?_take]
            simp only [show pos < m by omega, show pos + 1 < m by omega, if_true, hb, hc, hr]
            exact hm m hmp
        · simp only [hr, if_false, Bool.false_eq_true] at h
          obtain ⟨hle, hm⟩ := ih _ _ _ _ _ _ h
          refine ⟨by omega, fun m hmp => ?_⟩
          unfold rpWalk
          simp only [hi, if_true]
          rw [List.getElem?_take]
          simp only [show pos < m by omega, if_true, hb, hr, Bool.false_eq_true, if_false]
          exact hm m hmp
    · simp only [hi, if_false, Option.some.injEq, Prod.mk.injEq] at h
      obtain ⟨h1, h2, h3⟩ := h
      subst h1 h2 h3
      refine ⟨Nat.le_refl _, fun m _ => ?_⟩
      unfold rpWalk
      simp [hi]

theorem simpleLen_take (nc : Nat) (b : Bytes) (p : Nat) (h : simpleLen nc b = some p) :
    simpleLen nc (b.take p) = some (b.take p).length := by
  have hple := simpleLen_le nc b p h
  have hlen : (b.take p).length = p := by simp [List.length_take]; omega
  rw [hlen]
  unfold simpleLen at h ⊢
  by_cases hl : b.length < 2 * nc + 2
  · simp [hl] at h
  · simp only [hl, if_false] at h
    unfold simpleLenAux at h
    cases hw : rpWalk b (if nc > 0 then rd16 b (2 * nc - 2) + 1 else 0)
        (if nc > 0 then rd16 b (2 * nc - 2) + 1 else 0) (2 * nc + 2 + rd16 b (2 * nc)) 0 0 with
    | none => simp [hw] at h
    | some r =>
      obtain ⟨p', coord, i⟩ := r
      simp only [hw] at h
      by_cases hc : (i ≠ (if nc > 0 then rd16 b (2 * nc - 2) + 1 else 0) ∨ p' + coord > b.length)
      · simp [hc] at h
      · simp only [hc, if_false, Option.some.injEq] at h
        obtain ⟨hge, hm⟩ := rpWalk_take b _ _ _ _ _ _ _ _ hw
        have hp2 : 2 * nc + 2 ≤ p := by omega
        have hl' : ¬ (b.take p).length < 2 * nc + 2 := by omega
        simp only [hl', if_false]
        have e1 : rd16 (b.take p) (2 * nc) = rd16 b (2 * nc) := rd16_take b _ _ (by omega)
        have e2 : (if nc > 0 then rd16 (b.take p) (2 * nc - 2) + 1 else 0) =
            (if nc > 0 then rd16 b (2 * nc - 2) + 1 else 0) := by
          split
          · rw [rd16_take b _ _ (by omega)]
          · rfl
        rw [e1, e2]
        unfold simpleLenAux
        rw [hm p (by omega)]
        simp only [h]
        have hc' : ¬ (i ≠ (if nc > 0 then rd16 b (2 * nc - 2) + 1 else 0) ∨
            p > (b.take p).length) := by omega
        simp only [hc', if_false]

/-! ### the component loop returns well-formed records -/

theorem wfComps_ne_nil (cs : List Component) (h : wfComps cs = true) : cs ≠ [] := by
  cases cs with
  | nil => simp [wfComps] at h
  | cons _ _ => simp

theorem wfComps_cons_more (c : Component) (cs : List Component) (hc : wfComp c = true)
    (hm : bit c.flags FlagMoreComponents = true) (h : wfComps cs = true) :
    wfComps (c :: cs) = true := by
  cases cs with
  | nil => simp [wfComps] at h
  | cons c' cs' => simp [wfComps, hc, hm, h]

theorem compLoop_wf :
    ∀ (fuel : Nat) (data : Bytes) (cs : List Component) (rest : Bytes),
      compLoop fuel data = some (cs, rest) → wfComps cs = true := by
  intro fuel
  induction fuel with
  | zero => intro data cs rest h; simp [compLoop] at h
  | succ fuel ih =>
    intro data cs rest h
    unfold compLoop at h
    by_cases h4 : data.length < 4
    · simp [h4] at h
    · simp only [h4, if_false] at h
      by_cases hs : (data.drop 4).length < compSkip (rd16 data 0)
      · rw [if_pos hs] at h; cases h
      · rw [if_neg hs] at h
        have hwf : wfComp ⟨rd16 data 0, rd16 data 2, (data.drop 4).take (compSkip (rd16 data 0))⟩ = true := by
          simp only [wfComp, Bool.and_eq_true, decide_eq_true_eq, List.length_take]
          exact ⟨⟨rd16_lt _ _, rd16_lt _ _⟩, by omega⟩
        by_cases hm : bit (rd16 data 0) FlagMoreComponents = true
        · simp only [hm, if_true] at h
          cases hr : compLoop fuel ((data.drop 4).drop (compSkip (rd16 data 0))) with
          | none => rw [hr] at h; cases h
          | some r =>
            obtain ⟨cs', rest'⟩ := r
            rw [hr] at h
            simp only [Option.some.injEq, Prod.mk.injEq] at h
            obtain ⟨h1, _⟩ := h
            subst h1
            exact wfComps_cons_more _ _ hwf hm (ih _ _ _ hr)
        · simp only [hm, if_false, Bool.false_eq_true, Option.some.injEq, Prod.mk.injEq] at h
          obtain ⟨h1, _⟩ := h
          subst h1
          simp only [wfComps, hwf, Bool.true_and, Bool.not_eq_true']
          simpa using hm

theorem decodeComposite_wf (data : Bytes) (cs : List Component) (ins : Option Bytes)
    (h : decodeComposite data = some (cs, ins)) : wfData (.composite cs ins) = true := by
  unfold decodeComposite at h
  cases hl : compLoop (data.length + 1) data with
  | none => simp [hl] at h
  | some r =>
    obtain ⟨cs', rest⟩ := r
    simp only [hl] at h
    have hwf := compLoop_wf _ _ _ _ hl
    by_cases hc : (cs'.any (fun c => bit c.flags FlagWeHaveInstructions) && decide (rest.length ≥ 2)) = true
    · simp only [hc, if_true, Option.some.injEq, Prod.mk.injEq] at h
      obtain ⟨h1, h2⟩ := h
      subst h1 h2
      simp only [Bool.and_eq_true] at hc
      simp only [wfData, hwf, Bool.true_and, Bool.and_eq_true, decide_eq_true_eq, List.length_take]
      exact ⟨by have := rd16_lt rest 0; omega, hc.1⟩
    · simp only [hc, if_false, Bool.false_eq_true, Option.some.injEq, Prod.mk.injEq] at h
      obtain ⟨h1, h2⟩ := h
      subst h1 h2
      simp [wfData, hwf]

/-! ### glyphs and tables -/

theorem decodeGlyph_wf (data : Bytes) (g : Option Glyph) (h : decodeGlyph data = .ok g) :
    wfGlyph g = true := by
  unfold decodeGlyph at h
  by_cases h0 : data.length = 0
  · simp only [h0, if_true, Outcome.ok.injEq] at h
    subst h; rfl
  · simp only [h0, if_false] at h
    by_cases h10 : data.length < 10
    · simp [h10] at h
    · simp only [h10, if_false] at h
      by_cases hnc : rd16 data 0 < 32768
      · simp only [hnc, if_true] at h
        cases hr : removePadding (rd16 data 0) (data.drop 10) with
        | none => simp [hr] at h
        | some e =>
          simp only [hr, Outcome.ok.injEq] at h
          subst h
          unfold removePadding at hr
          cases hs : simpleLen (rd16 data 0) (data.drop 10) with
          | none => simp [hs] at hr
          | some p =>
            simp only [hs, Option.map_some, Option.some.injEq] at hr
            subst hr
            simp only [wfGlyph, wfData, Bool.and_eq_true, decide_eq_true_eq]
            exact ⟨⟨⟨⟨rd16_lt _ _, rd16_lt _ _⟩, rd16_lt _ _⟩, rd16_lt _ _⟩, hnc,
              simpleLen_take _ _ _ hs⟩
      · simp only [hnc, if_false] at h
        cases hr : decodeComposite (data.drop 10) with
        | none => simp [hr] at h
        | some r =>
          obtain ⟨cs, ins⟩ := r
          simp only [hr, Outcome.ok.injEq] at h
          subst h
          simp only [wfGlyph, Bool.and_eq_true, decide_eq_true_eq]
          exact ⟨⟨⟨⟨rd16_lt _ _, rd16_lt _ _⟩, rd16_lt _ _⟩, rd16_lt _ _⟩, decodeComposite_wf _ _ _ hr⟩

theorem decodeAll_wf (g : Bytes) :
    ∀ (offs : List Nat) (gs : Glyphs), decodeAll g offs = .ok gs →
      (∀ x ∈ gs, wfGlyph x = true) ∧ gs.length + 1 = max offs.length 1 := by
  intro offs
  induction offs with
  | nil => intro gs h; simp [decodeAll] at h; subst h; simp
  | cons a rest ih =>
    intro gs h
    cases rest with
    | nil => simp [decodeAll] at h; subst h; simp
    | cons b rest' =>
      unfold decodeAll at h
      cases hg : decodeGlyph ((g.drop a).take (b - a)) with
      | err e => simp [hg] at h
      | panic s => simp [hg] at h
      | ok x =>
        simp only [hg] at h
        cases hr : decodeAll g (b :: rest') with
        | err e => simp [hr] at h
        | panic s => simp [hr] at h
        | ok xs =>
          simp only [hr, Outcome.ok.injEq] at h
          subst h
          obtain ⟨h1, h2⟩ := ih xs hr
          refine ⟨?_, ?_⟩
          · intro y hy
            simp only [List.mem_cons] at hy
            rcases hy with hy | hy
            · subst hy; exact decodeGlyph_wf _ _ hg
            · exact h1 y hy
          · simp only [List.length_cons] at h2 ⊢; omega

theorem words16_length (b : Bytes) : (words16 b).length = b.length / 2 := by
  induction b using words16.induct with
  | case1 a b rest ih => simp only [words16, List.length_cons, ih]; omega
  | case2 l h =>
    rw [words16]
    · cases l with
      | nil => rfl
      | cons a l' =>
        cases l' with
        | nil => simp
        | cons b r => exact absurd rfl (h a b r)
    · exact h

theorem words32_length (b : Bytes) : (words32 b).length = b.length / 4 := by
  induction b using words32.induct with
  | case1 a b c d rest ih => simp only [words32, List.length_cons, ih]; omega
  | case2 l h =>
    rw [words32]
    · match l, h with
      | [], _ => rfl
      | [_], _ => simp
      | [_, _], _ => simp
      | [_, _, _], _ => simp
      | a :: b :: c :: d :: r, h => exact absurd rfl (h a b c d r)
    · exact h

theorem decodeLoca_length (fmt : Int) (loca : Bytes) (L : Nat) (offs : List Nat)
    (h : decodeLoca fmt loca L = .ok offs) : 2 ≤ offs.length := by
  unfold decodeLoca at h
  by_cases h0 : fmt = 0
  · simp only [h0, if_true] at h
    by_cases hl : (loca.length < 4 ∨ loca.length % 2 ≠ 0)
    · rw [if_pos hl] at h; cases h
    · rw [if_neg hl] at h
      split at h
      · injection h with h
        subst h
        simp only [List.length_map, words16_length]; omega
      · cases h
  · simp only [h0, if_false] at h
    by_cases h1 : fmt = 1
    · simp only [h1, if_true] at h
      by_cases hl : (loca.length < 8 ∨ loca.length % 4 ≠ 0)
      · rw [if_pos hl] at h; cases h
      · rw [if_neg hl] at h
        split at h
        · injection h with h
          subst h
          simp only [words32_length]; omega
        · cases h
    · simp [h1] at h

/-- whatever `Decode` accepts is a non-empty list of well-formed glyphs -/
theorem decode_wf (fmt : Int) (loca glyf : Bytes) (gs : Glyphs) (h : decode fmt loca glyf = .ok gs) :
    gs ≠ [] ∧ ∀ x ∈ gs, wfGlyph x = true := by
  unfold decode at h
  cases hl : decodeLoca fmt loca glyf.length with
  | err e => simp [hl] at h
  | panic s => simp [hl] at h
  | ok offs =>
    simp only [hl] at h
    have h2 := decodeLoca_length _ _ _ _ hl
    obtain ⟨h3, h4⟩ := decodeAll_wf glyf offs gs h
    refine ⟨?_, h3⟩
    intro hnil
    subst hnil
    simp at h4; omega

end SfntV.Glyf
