/-
C10 — SubsetGsub step 3: once the glyph set respects every rule, rebuilding the subtables does not
append glyphs, and the rule list of every rebuilt lookup is the original rule list restricted to the
rules whose input glyphs are all retained, translated to the new glyph ids, in the same order.
-/
import SfntV.Proofs.SubsetGsub

namespace SfntV.Subset

/-- new id of a retained glyph (0 if missing, as a Go map read) -/
def look (s : St) (g : Gid) : Nat := (s.newGid.lookup g).getD 0

/-- a rule in the new numbering, if all its input glyphs are retained -/
def transRule (s : St) (r : Rule) : Option Rule :=
  if r.ins.all s.has then some ⟨r.ins.map (look s), r.outs.map (look s)⟩ else none

/-- the rules a rebuilt subtable stands for, in table order -/
def outRules : GsubOut → List Rule
  | .multi m => m.map fun e => ⟨[e.1], [e.2]⟩
  | .ligs es => es.flatMap fun e => e.2.map fun lig => ⟨e.1 :: lig.1, [lig.2]⟩

theorem getNewGid_has {s : St} {g : Gid} (h : s.has g = true) : s.getNewGid g = (s, look s g) := by
  unfold St.has at h
  unfold St.getNewGid look
  cases hx : s.newGid.lookup g with
  | none => rw [hx] at h; simp at h
  | some n => rfl

theorem getMany_has : ∀ (gs : List Gid) (s : St), (∀ g ∈ gs, s.has g = true) →
    getMany s gs = (s, gs.map (look s)) := by
  intro gs
  induction gs with
  | nil => intro s _; rfl
  | cons g gs ih =>
    intro s h
    simp only [getMany, getNewGid_has (h g List.mem_cons_self),
      ih s (fun x hx => h x (List.mem_cons_of_mem _ hx)), List.map_cons]

theorem has_of_lookup {s : St} {g n : Gid} (h : s.newGid.lookup g = some n) :
    s.has g = true ∧ look s g = n := by
  unfold St.has look; rw [h]; exact ⟨rfl, rfl⟩

theorem not_has_of_lookup {s : St} {g : Gid} (h : s.newGid.lookup g = none) : s.has g = false := by
  unfold St.has; rw [h]; rfl

theorem subSingle_closed (s : St) (d : Nat) : ∀ (cov : List Gid),
    (∀ r ∈ rulesOfSub (.single cov d), Fires s r) →
    (subSingle s d cov).1 = s ∧
    (subSingle s d cov).2.map (fun e => (⟨[e.1], [e.2]⟩ : Rule)) =
      (rulesOfSub (.single cov d)).filterMap (transRule s) := by
  intro cov
  induction cov with
  | nil => intro _; exact ⟨rfl, rfl⟩
  | cons g gs ih =>
    intro hf
    have hf' : ∀ r ∈ rulesOfSub (.single gs d), Fires s r := by
      intro r hr; apply hf; simp only [rulesOfSub, List.map_cons] at hr ⊢
      exact List.mem_cons_of_mem _ hr
    have hi := ih hf'
    simp only [rulesOfSub] at hi
    simp only [subSingle, rulesOfSub, List.map_cons, List.filterMap_cons]
    cases hl : s.newGid.lookup g with
    | none =>
      have hn := not_has_of_lookup hl
      simp only [transRule, List.all_cons, hn, Bool.false_and, Bool.false_eq_true, if_false]
      exact hi
    | some nf =>
      have hh := has_of_lookup hl
      have hout : s.has ((g + d) % 65536) = true := by
        have := hf ⟨[g], [(g + d) % 65536]⟩ (by simp [rulesOfSub])
        exact this (by simpa using hh.1) _ (by simp)
      simp only [getNewGid_has hout, transRule, List.all_cons, hh.1, List.all_nil, Bool.and_self,
        if_true, List.map_cons, List.map_nil, hh.2]
      exact ⟨hi.1, by rw [hi.2]⟩

/-- rules of one 4.1 entry -/
def entryRules (first : Gid) (ligs : List Lig) : List Rule :=
  ligs.map fun lig => ⟨first :: lig.1, [lig.2]⟩

theorem subLigs_closed (s : St) (first nf : Gid) (hfirst : s.has first = true)
    (hnf : look s first = nf) : ∀ (ligs : List Lig),
    (∀ r ∈ entryRules first ligs, Fires s r) →
    (subLigs s ligs).1 = s ∧
    entryRules nf (subLigs s ligs).2 = (entryRules first ligs).filterMap (transRule s) := by
  intro ligs
  induction ligs with
  | nil => intro _; exact ⟨rfl, rfl⟩
  | cons lig rest ih =>
    intro hf
    have hf' : ∀ r ∈ entryRules first rest, Fires s r := by
      intro r hr; apply hf; simp only [entryRules, List.map_cons] at hr ⊢
      exact List.mem_cons_of_mem _ hr
    have hi := ih hf'
    simp only [subLigs, entryRules, List.map_cons, List.filterMap_cons] at hi ⊢
    cases hall : lig.1.all s.has with
    | false =>
      simp only [Bool.false_eq_true, if_false, transRule, List.all_cons, hfirst, hall,
        Bool.and_false]
      exact hi
    | true =>
      have hins : ∀ g ∈ lig.1, s.has g = true := by simpa using hall
      have hout : s.has lig.2 = true := by
        have := hf ⟨first :: lig.1, [lig.2]⟩ (by simp [entryRules])
        exact this (by
          intro g hg
          rcases List.mem_cons.1 hg with rfl | hg
          · exact hfirst
          · exact hins g hg) _ (by simp)
      simp only [if_true, getNewGid_has hout, getMany_has lig.1 s hins, transRule, List.all_cons,
        hfirst, hall, Bool.and_self, List.map_cons, List.map_nil, hnf]
      exact ⟨hi.1, by rw [hi.1] at hi; rw [hi.2]⟩

theorem entryRules_none (s : St) (first : Gid) (h : s.has first = false) (ligs : List Lig) :
    (entryRules first ligs).filterMap (transRule s) = [] := by
  induction ligs with
  | nil => rfl
  | cons lig rest ih =>
    simp only [entryRules, List.map_cons, List.filterMap_cons, transRule, List.all_cons, h,
      Bool.false_and, Bool.false_eq_true, if_false] at ih ⊢
    exact ih

def entriesRules (es : List (Gid × List Lig)) : List Rule := es.flatMap fun e => entryRules e.1 e.2

theorem rulesOfSub_ligs (es : List (Gid × List Lig)) : rulesOfSub (.ligs es) = entriesRules es := rfl
theorem outRules_ligs (es : List (Gid × List Lig)) : outRules (.ligs es) = entriesRules es := rfl

theorem subEntries_closed (s : St) : ∀ (es : List (Gid × List Lig)),
    (∀ r ∈ entriesRules es, Fires s r) →
    (subEntries s es).1 = s ∧
    entriesRules (subEntries s es).2 = (entriesRules es).filterMap (transRule s) := by
  intro es
  induction es with
  | nil => intro _; exact ⟨rfl, rfl⟩
  | cons e rest ih =>
    intro hf
    have hf1 : ∀ r ∈ entryRules e.1 e.2, Fires s r := by
      intro r hr; apply hf; simp only [entriesRules, List.flatMap_cons]
      exact List.mem_append_left _ hr
    have hf2 : ∀ r ∈ entriesRules rest, Fires s r := by
      intro r hr; apply hf; simp only [entriesRules, List.flatMap_cons]
      exact List.mem_append_right _ hr
    have hi := ih hf2
    simp only [subEntries]
    simp only [entriesRules, List.flatMap_cons, List.filterMap_append] at hi ⊢
    cases hl : s.newGid.lookup e.1 with
    | none =>
      simp only
      rw [entryRules_none s e.1 (not_has_of_lookup hl) e.2, List.nil_append]
      exact hi
    | some nf =>
      have hh := has_of_lookup hl
      have hlg := subLigs_closed s e.1 nf hh.1 hh.2 e.2 hf1
      simp only
      rw [hlg.1]
      split
      · rename_i hemp
        have : (subLigs s e.2).2 = [] := by simpa using hemp
        rw [this] at hlg
        rw [← hlg.2]
        simp only [entryRules, List.map_nil, List.nil_append]
        exact hi
      · simp only [List.flatMap_cons]
        rw [hlg.2, hi.2]
        exact ⟨hi.1, rfl⟩

/-- rules of an optional rebuilt subtable -/
def optRules : Option GsubOut → List Rule
  | none => []
  | some t => outRules t

theorem subGsubSub_closed (s : St) (t : GsubSub) (hf : ∀ r ∈ rulesOfSub t, Fires s r) :
    (subGsubSub s t).1 = s ∧ optRules (subGsubSub s t).2 = (rulesOfSub t).filterMap (transRule s) := by
  cases t with
  | single cov d =>
    have h := subSingle_closed s d cov hf
    simp only [subGsubSub]
    refine ⟨h.1, ?_⟩
    split
    · rename_i hemp
      have : (subSingle s d cov).2 = [] := by simpa using hemp
      rw [← h.2, this]; rfl
    · simp only [optRules, outRules]; exact h.2
  | ligs es =>
    have h := subEntries_closed s es hf
    simp only [subGsubSub]
    refine ⟨h.1, ?_⟩
    split
    · rename_i hemp
      have : (subEntries s es).2 = [] := by simpa using hemp
      rw [rulesOfSub_ligs, ← h.2, this]; rfl
    · simp only [optRules, outRules_ligs, rulesOfSub_ligs]; exact h.2

theorem subSubtables_closed (s : St) : ∀ (ts : List GsubSub),
    (∀ r ∈ ts.flatMap rulesOfSub, Fires s r) →
    (subSubtables s ts).1 = s ∧
    (subSubtables s ts).2.flatMap outRules = (ts.flatMap rulesOfSub).filterMap (transRule s) := by
  intro ts
  induction ts with
  | nil => intro _; exact ⟨rfl, rfl⟩
  | cons t rest ih =>
    intro hf
    have h1 := subGsubSub_closed s t (fun r hr => hf r (by
      simp only [List.flatMap_cons]; exact List.mem_append_left _ hr))
    have h2 := ih (fun r hr => hf r (by
      simp only [List.flatMap_cons]; exact List.mem_append_right _ hr))
    simp only [subSubtables, List.flatMap_cons, List.filterMap_append]
    rw [h1.1]
    refine ⟨h2.1, ?_⟩
    rw [← h1.2, ← h2.2]
    cases (subGsubSub s t).2 with
    | none => simp [optRules]
    | some x => simp [optRules]

theorem subLookups_closed (s : St) : ∀ (ls : List (List GsubSub)),
    (∀ r ∈ ls.flatMap (fun subs => subs.flatMap rulesOfSub), Fires s r) →
    (subLookups s ls).1 = s ∧
    (subLookups s ls).2.map (fun subs => subs.flatMap outRules) =
      ls.map fun subs => (subs.flatMap rulesOfSub).filterMap (transRule s) := by
  intro ls
  induction ls with
  | nil => intro _; exact ⟨rfl, rfl⟩
  | cons l rest ih =>
    intro hf
    have h1 := subSubtables_closed s l (fun r hr => hf r (by
      simp only [List.flatMap_cons]; exact List.mem_append_left _ hr))
    have h2 := ih (fun r hr => hf r (by
      simp only [List.flatMap_cons]; exact List.mem_append_right _ hr))
    simp only [subLookups, List.map_cons]
    rw [h1.1]
    exact ⟨h2.1, by rw [h1.2, h2.2]⟩

end SfntV.Subset
