/-
C02, group `gpossub`: `readGpos5_1` (opentype/gtab/gpos5.go, repaired in /repo 33f30d8) — no
panic on any bytes at any position, the TRUE cost bound, and the finding about the code before the
repair (`read51Old` panics at `gpos5.go:109#offsets[j]` when markClassCount > ligCount).
-/
import SfntV.Proofs.TotalGposSubCost

namespace SfntV.Total.GposSub
open SfntV SfntV.Total SfntV.Total.Gdef SfntV.Total.Otl

/-! ## no panic -/

theorem rowLoop51_noPanic (b : Bytes) (lap : Nat) (ao : List Nat) : ∀ (fuel k : Nat)
    (acc : List Anchor) (c : Cost), k + fuel ≤ ao.length → (rowLoop51 b lap ao fuel k acc c).noPanic
  | 0, _, _, _, _ => True.intro
  | fuel+1, k, acc, c, h => by
    unfold rowLoop51
    rw [idx_ok _ ao k (by omega), ok_bind]
    refine bind_noPanic (anchorOpt_noPanic _ _ _ _) (fun a _ => ?_)
    exact rowLoop51_noPanic b lap ao fuel (k + 1) _ _ (by omega)

theorem slice_length {site : String} {xs ys : List α} {a b : Nat}
    (h : slice site xs a b = .ok ys) : ys.length = b - a ∧ a ≤ b ∧ b ≤ xs.length := by
  unfold slice at h
  split at h
  · rename_i hab
    cases h
    simp only [List.length_take, List.length_drop]
    omega
  · cases h

theorem compLoop_noPanic (b : Bytes) (lap mcc : Nat) (hm : mcc < 2 ^ 47) : ∀ (fuel : Nat)
    (ao : List Nat) (acc : List (List Anchor)) (c : Cost), fuel * mcc ≤ ao.length →
    (compLoop b lap mcc fuel ao acc c).noPanic
  | 0, _, _, _, _ => True.intro
  | fuel+1, ao, acc, c, h => by
    unfold compLoop
    rw [Nat.succ_mul] at h
    rw [mkSlice_ok' _ _ _ hm, ok_bind]
    refine bind_noPanic (rowLoop51_noPanic _ _ _ _ _ _ _ (by omega)) (fun row _ => ?_)
    rw [slice_ok _ _ _ _ ⟨by omega, Nat.le_refl _⟩, ok_bind]
    refine compLoop_noPanic b lap mcc hm fuel _ _ _ ?_
    simp only [List.length_take, List.length_drop]
    omega

theorem ligLoop_noPanic (b : Bytes) (lap0 mcc : Nat) (hm : mcc < 2 ^ 47) (offsets : List Nat) :
    ∀ (fuel i : Nat) (acc : List (List (List Anchor))) (c : Cost), i + fuel ≤ offsets.length →
    (ligLoop b lap0 mcc offsets fuel i acc c).noPanic
  | 0, _, _, _, _ => True.intro
  | fuel+1, i, acc, c, h => by
    unfold ligLoop
    rw [idx_ok _ offsets i (by omega), ok_bind]
    refine bind_noPanic (readU16_noPanic _ _ _) (fun cc hcc => ?_)
    obtain ⟨_, hcclt, _⟩ := readU16_ok hcc
    split
    · exact True.intro
    rename_i hcap
    rw [mkSlice_ok _ _ _ (by omega), ok_bind]
    refine bind_noPanic (readWords_noPanic _ _ _ _ _ _) (fun ao hao => ?_)
    obtain ⟨hal, _⟩ := readWords_ok _ _ _ _ _ _ _ _ hao
    simp only [List.length_nil, Nat.zero_add] at hal
    rw [mkSlice_ok _ _ _ hcclt, ok_bind]
    refine bind_noPanic (compLoop_noPanic _ _ _ hm _ _ _ _ (by rw [hal]; exact Nat.le_refl _))
      (fun la _ => ?_)
    exact ligLoop_noPanic b lap0 mcc hm offsets fuel (i + 1) _ _ (by omega)

/-- the clamped ligature count -/
theorem ligCount_lt (lc0 n : Nat) (h : lc0 < 65536) :
    (if lc0 > n then n % 65536 else lc0) < 65536 := by
  split <;> omega

theorem top51_noPanic (b : Bytes) (pos : Nat) : (top51 b pos).noPanic := by
  unfold top51
  refine bind_noPanic (readBytes_noPanic _ _ _ _ (by omega)) (fun buf hbuf => ?_)
  obtain ⟨mco, h1, _⟩ := buf_w16 hbuf "gpos5.go:41#buf[0],buf[1]" 0 (by omega)
  obtain ⟨lco, h2, _⟩ := buf_w16 hbuf "gpos5.go:42#buf[2],buf[3]" 2 (by omega)
  obtain ⟨mcc, h3, _⟩ := buf_w16 hbuf "gpos5.go:43#buf[4],buf[5]" 4 (by omega)
  obtain ⟨mao, h4, _⟩ := buf_w16 hbuf "gpos5.go:44#buf[6],buf[7]" 6 (by omega)
  obtain ⟨lao, h5, _⟩ := buf_w16 hbuf "gpos5.go:45#buf[8],buf[9]" 8 (by omega)
  rw [h1, ok_bind, h2, ok_bind, h3, ok_bind, h4, ok_bind, h5, ok_bind]
  refine bind_noPanic (coverageRead_noPanic _ _) (fun mcv _ => ?_)
  refine bind_noPanic (coverageRead_noPanic _ _) (fun lcv _ => ?_)
  refine bind_noPanic (markarrayRead_noPanic _ _ _) (fun ma _ => ?_)
  dsimp only
  refine bind_noPanic ?_ (fun pm _ => ?_)
  · split
    · exact True.intro
    · rw [slice_ok _ _ _ _ (by omega), ok_bind]
      exact pure_noPanic _
  refine bind_noPanic (readU16_noPanic _ _ _) (fun lc0 hlc0 => ?_)
  obtain ⟨_, hlt, _⟩ := readU16_ok hlc0
  have hlc := ligCount_lt lc0 lcv.1.length hlt
  rw [mkSlice_ok _ _ _ hlc, ok_bind]
  refine bind_noPanic (readWords_noPanic _ _ _ _ _ _) (fun o _ => ?_)
  rw [mkSlice_ok _ _ _ hlc, ok_bind]
  exact pure_noPanic _

/-- what the ligature loop of `readGpos5_1` can rely on, and what the part before it costs -/
theorem top51_ok (b : Bytes) (pos : Nat) (t : Top51) (h : top51 b pos = .ok t) :
    t.mcc < 65536 ∧ t.offsets.length < 65536 ∧ 2 * t.offsets.length ≤ b.length ∧
    t.cost.steps ≤ t.offsets.length + 2 * (b.length / 2) + 5 * (b.length / 4) + 262151 ∧
    t.cost.alloc ≤ 2 * t.offsets.length + 2 * (b.length / 4) + 131074 := by
  unfold top51 at h
  obtain ⟨buf, _, h⟩ := bind_eq_ok h
  obtain ⟨mco, _, h⟩ := bind_eq_ok h
  obtain ⟨lco, _, h⟩ := bind_eq_ok h
  obtain ⟨mcc, hmcc, h⟩ := bind_eq_ok h
  obtain ⟨mao, _, h⟩ := bind_eq_ok h
  obtain ⟨lao, _, h⟩ := bind_eq_ok h
  obtain ⟨mcv, hmcv, h⟩ := bind_eq_ok h
  obtain ⟨mcvl, mcvc⟩ := mcv
  obtain ⟨lcv, hlcv, h⟩ := bind_eq_ok h
  obtain ⟨lcvl, lcvc⟩ := lcv
  obtain ⟨ma, hma, h⟩ := bind_eq_ok h
  obtain ⟨mal, mac⟩ := ma
  dsimp only at h
  obtain ⟨pm, hpm, h⟩ := bind_eq_ok h
  obtain ⟨pmv, pmc⟩ := pm
  obtain ⟨lc0, hlc0, h⟩ := bind_eq_ok h
  obtain ⟨_, hlt, _⟩ := readU16_ok hlc0
  have c1 := coverageRead_cost _ _ _ _ hmcv
  have l1 := (coverageRead_len _ _ 0 _ _ hmcv).1
  have c2 := coverageRead_cost _ _ _ _ hlcv
  have l2 := (coverageRead_len _ _ 0 _ _ hlcv).1
  have c3 := markarrayRead_cost _ _ _ _ _ hma
  have hpmc : pmc.steps ≤ 1 + mcvc.steps + lcvc.steps + mac.steps + mcvl.length ∧
      pmc.alloc = mcvc.alloc + lcvc.alloc + mac.alloc := by
    split at hpm
    · cases hpm
      simp only [Cost.tick, Cost.zero, cadd]
      omega
    · obtain ⟨m, _, hpm⟩ := bind_eq_ok hpm
      cases hpm
      simp only [Cost.tick, Cost.zero, cadd]
      omega
  dsimp only at h
  by_cases hgt : lc0 > lcvl.length
  · simp only [if_pos hgt] at h
    rw [mkSlice_ok _ _ _ (by omega), ok_bind] at h
    obtain ⟨o, ho, h⟩ := bind_eq_ok h
    obtain ⟨ol, oc⟩ := o
    obtain ⟨hol, hos, hoa, hoq⟩ := readWords_ok _ _ _ _ _ _ _ _ ho
    simp only [List.length_nil, Nat.zero_add, Cost.tick, Cost.mem] at hol hos hoa
    rw [mkSlice_ok _ _ _ (by omega), ok_bind] at h
    cases h
    simp only [Cost.mem]
    exact ⟨w16_lt hmcc, by omega, by omega, by omega, by omega⟩
  · simp only [if_neg hgt] at h
    rw [mkSlice_ok _ _ _ hlt, ok_bind] at h
    obtain ⟨o, ho, h⟩ := bind_eq_ok h
    obtain ⟨ol, oc⟩ := o
    obtain ⟨hol, hos, hoa, hoq⟩ := readWords_ok _ _ _ _ _ _ _ _ ho
    simp only [List.length_nil, Nat.zero_add, Cost.tick, Cost.mem] at hol hos hoa
    rw [mkSlice_ok _ _ _ hlt, ok_bind] at h
    cases h
    simp only [Cost.mem]
    exact ⟨w16_lt hmcc, by omega, by omega, by omega, by omega⟩

/-- `readGpos5_1` (repaired) never panics: all bytes, all positions -/
theorem read51_noPanic (b : Bytes) (pos : Nat) : (read51 b pos).noPanic := by
  unfold read51
  refine bind_noPanic (top51_noPanic _ _) (fun t ht => ?_)
  obtain ⟨hm, _⟩ := top51_ok b pos t ht
  refine bind_noPanic (ligLoop_noPanic _ _ _ (by omega) _ _ _ _ _ (by omega)) (fun la _ => ?_)
  exact pure_noPanic _


/-! ## cost -/

theorem rowLoop51_cost (b : Bytes) (lap : Nat) (ao : List Nat) : ∀ (fuel k : Nat)
    (acc : List Anchor) (c : Cost) (r : List Anchor) (c' : Cost),
    rowLoop51 b lap ao fuel k acc c = .ok (r, c') →
    c'.steps ≤ c.steps + 2 * fuel ∧ c'.alloc = c.alloc
  | 0, _, _, _, _, _, h => by
    unfold rowLoop51 at h
    cases h
    exact ⟨Nat.le_refl _, rfl⟩
  | fuel+1, k, acc, c, r, c', h => by
    unfold rowLoop51 at h
    obtain ⟨o, _, h⟩ := bind_eq_ok h
    obtain ⟨a, ha, h⟩ := bind_eq_ok h
    obtain ⟨a1, a2⟩ := a
    have h1 := anchorOpt_cost ha
    have ih := rowLoop51_cost b lap ao fuel _ _ _ _ _ h
    simp only [Cost.tick] at h1 ih
    omega

theorem compLoop_cost (b : Bytes) (lap mcc : Nat) (hm : mcc < 2 ^ 47) : ∀ (fuel : Nat)
    (ao : List Nat) (acc : List (List Anchor)) (c : Cost) (r : List (List Anchor)) (c' : Cost),
    compLoop b lap mcc fuel ao acc c = .ok (r, c') →
    c'.steps ≤ c.steps + fuel + 2 * (fuel * mcc) ∧ c'.alloc ≤ c.alloc + fuel * mcc
  | 0, _, _, _, _, _, h => by
    unfold compLoop at h
    cases h
    simp
  | fuel+1, ao, acc, c, r, c', h => by
    unfold compLoop at h
    rw [mkSlice_ok' _ _ _ hm, ok_bind] at h
    obtain ⟨row, hrow, h⟩ := bind_eq_ok h
    obtain ⟨rw1, rw2⟩ := row
    obtain ⟨ao1, _, h⟩ := bind_eq_ok h
    have h1 := rowLoop51_cost _ _ _ _ _ _ _ _ _ hrow
    have ih := compLoop_cost b lap mcc hm fuel _ _ _ _ _ h
    have e : (fuel + 1) * mcc = fuel * mcc + mcc := Nat.succ_mul _ _
    simp only [Cost.tick, Cost.mem] at h1 ih
    generalize (fuel + 1) * mcc = Y at e ⊢
    generalize fuel * mcc = X at e ih ⊢
    omega

/-- every LigatureAttach table visited costs at most 163829 steps and 131063 elements
(`componentCount·markClassCount ≤ 32764`, `componentCount ≤ 65535`); an offset that occurs `k`
times is charged `k` times -/
theorem ligLoop_cost (b : Bytes) (lap0 mcc : Nat) (hm : mcc < 2 ^ 47) (offsets : List Nat) :
    ∀ (fuel i : Nat) (acc : List (List (List Anchor))) (c : Cost)
    (r : List (List (List Anchor))) (c' : Cost),
    ligLoop b lap0 mcc offsets fuel i acc c = .ok (r, c') →
    c'.steps ≤ c.steps + fuel * 163829 ∧ c'.alloc ≤ c.alloc + fuel * 131063
  | 0, _, _, _, _, _, h => by
    unfold ligLoop at h
    cases h
    simp
  | fuel+1, i, acc, c, r, c', h => by
    unfold ligLoop at h
    obtain ⟨off, _, h⟩ := bind_eq_ok h
    obtain ⟨cc, hcc, h⟩ := bind_eq_ok h
    obtain ⟨_, hcclt, _⟩ := readU16_ok hcc
    split at h
    · cases h
    rename_i hcap
    rw [mkSlice_ok _ _ _ (by omega), ok_bind] at h
    obtain ⟨ao, hao, h⟩ := bind_eq_ok h
    obtain ⟨aol, aoc⟩ := ao
    obtain ⟨_, hs, ha, _⟩ := readWords_ok _ _ _ _ _ _ _ _ hao
    rw [mkSlice_ok _ _ _ hcclt, ok_bind] at h
    obtain ⟨la, hla, h⟩ := bind_eq_ok h
    obtain ⟨la1, la2⟩ := la
    have h1 := compLoop_cost _ _ _ hm _ _ _ _ _ _ hla
    have ih := ligLoop_cost b lap0 mcc hm offsets fuel _ _ _ _ _ h
    simp only [Cost.tick, Cost.mem] at hs ha h1 ih
    generalize cc * mcc = X at *
    omega

/-- `readGpos5_1` (repaired), with `L = ligCount` exposed (`L < 65536`, `2·L ≤ |b|`): every one of
the `L` LigatureAttach offsets is followed — they may all point at ONE table — and a table costs
up to 163829 steps (the cap `componentCount·markClassCount ≤ 32764`, and up to 65535 components
when `markClassCount = 0`): `steps ≤ L·163830 + 2·(|b|/2) + 5·(|b|/4) + 262151`,
`alloc ≤ L·131065 + 2·(|b|/4) + 131075`.  NOT linear: a per-table linear bound fails twice — the
offsets alias, and with `markClassCount = 0` a 2-byte table (`componentCount = 65535`) costs 65537
steps and 65535 rows. -/
theorem read51_cost_n (b : Bytes) (pos : Nat)
    (r : List (Nat × Nat) × List (Nat × Nat) × List (Nat × Anchor) × List (List (List Anchor)))
    (c : Cost) (h : read51 b pos = .ok (r, c)) :
    ∃ L, L < 65536 ∧ 2 * L ≤ b.length ∧
      c.steps ≤ L * 163830 + 2 * (b.length / 2) + 5 * (b.length / 4) + 262151 ∧
      c.alloc ≤ L * 131065 + 2 * (b.length / 4) + 131075 := by
  unfold read51 at h
  obtain ⟨t, ht, h⟩ := bind_eq_ok h
  obtain ⟨hm, hL, h2L, hs, ha⟩ := top51_ok b pos t ht
  obtain ⟨la, hla, h⟩ := bind_eq_ok h
  obtain ⟨la1, la2⟩ := la
  obtain ⟨h1, h2⟩ := ligLoop_cost _ _ _ (by omega) _ _ _ _ _ _ _ hla
  cases h
  simp only [Cost.mem]
  exact ⟨t.offsets.length, hL, h2L, by omega, by omega⟩

/-! ## readGposSubtable -/

theorem dispatchKey_noPanic (b : Bytes) (pos key : Nat) : (dispatchKey b pos key).noPanic := by
  unfold dispatchKey
  split
  · exact bind_noPanic (read11_noPanic _ _) (fun r _ => pure_noPanic _)
  split
  · exact bind_noPanic (read12_noPanic _ _) (fun r _ => pure_noPanic _)
  split
  · exact bind_noPanic (read21_noPanic _ _) (fun r _ => pure_noPanic _)
  split
  · exact bind_noPanic (read22_noPanic _ _) (fun r _ => pure_noPanic _)
  split
  · exact bind_noPanic (read31_noPanic _ _) (fun r _ => pure_noPanic _)
  split
  · exact bind_noPanic (read51_noPanic _ _) (fun r _ => pure_noPanic _)
  split <;> exact True.intro

/-- `readGposSubtable` (repaired; readers of lookup types 1–3 and 5; a key of another reader is
`err "other"`) never panics: all bytes, all positions, every lookup type -/
theorem readSubtable_noPanic (b : Bytes) (pos tp : Nat) : (readSubtable b pos tp).noPanic := by
  unfold readSubtable
  refine bind_noPanic (readU16_noPanic _ _ _) (fun format _ => ?_)
  dsimp only
  split
  · exact True.intro
  · exact dispatchKey_noPanic _ _ _

/-- the dispatcher before the repair did not panic either -/
theorem readSubtableOld_noPanic (b : Bytes) (pos tp : Nat) : (readSubtableOld b pos tp).noPanic := by
  unfold readSubtableOld
  exact bind_noPanic (readU16_noPanic _ _ _) (fun format _ => dispatchKey_noPanic _ _ _)

/-! ## readGposSubtable -/

/-- `readGposSubtable` (lookup types 1–3 and 5), all formats together: with `N` the number of
aliasable offsets followed (`pairSetCount` of a format 2.1 subtable, `ligCount` of a format 5.1
subtable, `N = 0` for the other formats)
`steps ≤ N·(19·(|b|/2) + 163830) + 5·(|b|/2) + 1441781`,
`alloc ≤ N·(5·(|b|/2) + 131065) + 3·(|b|/4) + 589822` -/
theorem readSubtable_cost (b : Bytes) (pos tp : Nat) (r : Sub) (c : Cost)
    (h : readSubtable b pos tp = .ok (r, c)) :
    ∃ N, N < 65536 ∧ 2 * N ≤ b.length ∧
      c.steps ≤ N * (19 * (b.length / 2) + 163830) + 5 * (b.length / 2) + 1441781 ∧
      c.alloc ≤ N * (5 * (b.length / 2) + 131065) + 3 * (b.length / 4) + 589822 := by
  unfold readSubtable at h
  obtain ⟨format, _, h⟩ := bind_eq_ok h
  dsimp only at h
  split at h
  · cases h
  unfold dispatchKey at h
  split at h
  · obtain ⟨x, hx, h⟩ := bind_eq_ok h
    obtain ⟨x1, x2⟩ := x
    have := read11_cost _ _ _ _ hx
    cases h
    exact ⟨0, by omega, by omega, by simp only [Cost.tick]; omega, by simp only [Cost.tick]; omega⟩
  split at h
  · obtain ⟨x, hx, h⟩ := bind_eq_ok h
    obtain ⟨x1, x2⟩ := x
    have := read12_cost _ _ _ _ hx
    cases h
    exact ⟨0, by omega, by omega, by simp only [Cost.tick]; omega, by simp only [Cost.tick]; omega⟩
  split at h
  · obtain ⟨x, hx, h⟩ := bind_eq_ok h
    obtain ⟨x1, x2⟩ := x
    obtain ⟨N, h1, h2, h3, h4⟩ := read21_cost_n _ _ _ _ hx
    cases h
    refine ⟨N, h1, h2, ?_, ?_⟩
    · simp only [Cost.tick]
      have m : N * (19 * (b.length / 2) + 4) ≤ N * (19 * (b.length / 2) + 163830) :=
        Nat.mul_le_mul_left N (by omega)
      omega
    · simp only [Cost.tick]
      have m : N * (5 * (b.length / 2) + 2) ≤ N * (5 * (b.length / 2) + 131065) :=
        Nat.mul_le_mul_left N (by omega)
      omega
  split at h
  · obtain ⟨x, hx, h⟩ := bind_eq_ok h
    obtain ⟨x1, x2⟩ := x
    have := read22_cost _ _ _ _ hx
    cases h
    exact ⟨0, by omega, by omega, by simp only [Cost.tick]; omega, by simp only [Cost.tick]; omega⟩
  split at h
  · obtain ⟨x, hx, h⟩ := bind_eq_ok h
    obtain ⟨x1, x2⟩ := x
    have := read31_cost _ _ _ _ hx
    cases h
    exact ⟨0, by omega, by omega, by simp only [Cost.tick]; omega, by simp only [Cost.tick]; omega⟩
  split at h
  · obtain ⟨x, hx, h⟩ := bind_eq_ok h
    obtain ⟨x1, x2⟩ := x
    obtain ⟨L, h1, h2, h3, h4⟩ := read51_cost_n _ _ _ _ hx
    cases h
    refine ⟨L, h1, h2, ?_, ?_⟩
    · simp only [Cost.tick]
      have m : L * 163830 ≤ L * (19 * (b.length / 2) + 163830) :=
        Nat.mul_le_mul_left L (by omega)
      omega
    · simp only [Cost.tick]
      have m : L * 131065 ≤ L * (5 * (b.length / 2) + 131065) :=
        Nat.mul_le_mul_left L (Nat.le_add_left _ _)
      have m' : L * 131065 + 2 * (b.length / 4) + 131075 ≤
          L * (5 * (b.length / 2) + 131065) + 3 * (b.length / 4) + 589822 :=
        Nat.add_le_add (Nat.add_le_add m (Nat.mul_le_mul_right _ (by decide))) (by decide)
      exact Nat.le_trans h4 m'
  split at h <;> cases h


end SfntV.Total.GposSub
