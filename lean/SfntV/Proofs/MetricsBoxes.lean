/-
C12 — the box queries equal their geometric definitions (Spec/MetricsQueries.lean): cff `Extent` is
the smallest integer box enclosing the outline points; `GlyphBBoxPDF` is the bounding box of the
images of all points under the font matrix (any matrix), and both enclose what they should.
-/
import Mathlib.Tactic.Ring
import Mathlib.Tactic.Linarith
import Mathlib.Algebra.Order.Field.Rat
import SfntV.Model.MetricsQueries
import SfntV.Spec.MetricsQueries

namespace SfntV.Metrics
open SfntV SfntV.Metrics.Spec

theorem ite_lt_min (x l : Rat) : (if x < l then x else l) = min l x := by
  rw [min_def]; split_ifs <;> first | rfl | (apply le_antisymm <;> linarith) | (exfalso; linarith)

theorem ite_gt_max (x r : Rat) : (if x > r then x else r) = max r x := by
  rw [max_def]; split_ifs <;> first | rfl | (apply le_antisymm <;> linarith) | (exfalso; linarith)

theorem foldl_min_le (l : List Rat) (c : Rat) : l.foldl min c ≤ c ∧ ∀ x ∈ l, l.foldl min c ≤ x := by
  induction l generalizing c with
  | nil => simp
  | cons a as ih =>
    obtain ⟨h1, h2⟩ := ih (min c a)
    simp only [List.foldl_cons, List.mem_cons, forall_eq_or_imp]
    exact ⟨le_trans h1 (min_le_left _ _), le_trans h1 (min_le_right _ _), h2⟩

theorem le_foldl_max (l : List Rat) (c : Rat) : c ≤ l.foldl max c ∧ ∀ x ∈ l, x ≤ l.foldl max c := by
  induction l generalizing c with
  | nil => simp
  | cons a as ih =>
    obtain ⟨h1, h2⟩ := ih (max c a)
    simp only [List.foldl_cons, List.mem_cons, forall_eq_or_imp]
    exact ⟨le_trans (le_max_left _ _) h1, le_trans (le_max_right _ _) h1, h2⟩

theorem minQ_le (l : List Rat) : ∀ x ∈ l, minQ l ≤ x := by
  cases l with
  | nil => simp
  | cons a as =>
    intro x hx
    rcases List.mem_cons.1 hx with rfl | h
    · exact (foldl_min_le as _).1
    · exact (foldl_min_le as a).2 x h

theorem le_maxQ (l : List Rat) : ∀ x ∈ l, x ≤ maxQ l := by
  cases l with
  | nil => simp
  | cons a as =>
    intro x hx
    rcases List.mem_cons.1 hx with rfl | h
    · exact (le_foldl_max as _).1
    · exact (le_foldl_max as a).2 x h

/-! ## cff Extent -/

theorem extentLoop_false : ∀ (ps : List (Rat × Rat)) (l r t b : Rat),
    extentLoop ps false (l, r, t, b) =
      ((ps.map (·.1)).foldl min l, (ps.map (·.1)).foldl max r, (ps.map (·.2)).foldl max t,
       (ps.map (·.2)).foldl min b) := by
  intro ps
  induction ps with
  | nil => intro l r t b; rfl
  | cons p ps ih =>
    intro l r t b
    simp only [extentLoop, Bool.false_or, decide_eq_true_eq, List.map_cons, List.foldl_cons,
      ite_lt_min, ite_gt_max, ih]

/-- `cff.Glyph.Extent` = the smallest integer box enclosing the outline points -/
theorem extent_eq_enclosingBox (pts : List (Rat × Rat)) : extentQ pts = enclosingBox pts := by
  cases pts with
  | nil => simp [extentQ, extentLoop, enclosingBox, Rat.floor, Rat.ceil]
  | cons p ps =>
    simp only [extentQ, extentLoop, Bool.true_or, if_true, extentLoop_false, enclosingBox,
      List.map_cons, minQ, maxQ]

/-- … and it does enclose every point -/
theorem enclosingBox_encloses (pts : List (Rat × Rat)) (p : Rat × Rat) (hp : p ∈ pts) :
    ((enclosingBox pts).llx : Rat) ≤ p.1 ∧ p.1 ≤ ((enclosingBox pts).urx : Rat) ∧
    ((enclosingBox pts).lly : Rat) ≤ p.2 ∧ p.2 ≤ ((enclosingBox pts).ury : Rat) := by
  cases pts with
  | nil => cases hp
  | cons q qs =>
    have hx : p.1 ∈ (q :: qs).map (·.1) := List.mem_map_of_mem hp
    have hy : p.2 ∈ (q :: qs).map (·.2) := List.mem_map_of_mem hp
    simp only [enclosingBox]
    refine ⟨le_trans (Rat.floor_le _) (minQ_le _ _ hx), le_trans (le_maxQ _ _ hx) Rat.le_ceil,
      le_trans (Rat.floor_le _) (minQ_le _ _ hy), le_trans (le_maxQ _ _ hy) Rat.le_ceil⟩

/-! ## GlyphBBoxPDF, any matrix -/

theorem apply_pdf (fm : Mat) (p : Rat × Rat) :
    (fm.mul (Mat.scale 1000)).apply p.1 p.2 = image (pdfMatrix fm) p := by
  simp only [Mat.mul, Mat.scale, Mat.apply, image, pdfMatrix]
  refine Prod.ext ?_ ?_ <;> simp only <;> ring

theorem ptsBBox_false (M : Mat) : ∀ (ps : List (Rat × Rat)) (b : RectQ),
    ptsBBox M ps false b =
      ⟨(ps.map fun p => (M.apply p.1 p.2).1).foldl min b.llx,
       (ps.map fun p => (M.apply p.1 p.2).2).foldl min b.lly,
       (ps.map fun p => (M.apply p.1 p.2).1).foldl max b.urx,
       (ps.map fun p => (M.apply p.1 p.2).2).foldl max b.ury⟩ := by
  intro ps
  induction ps with
  | nil => intro b; rfl
  | cons p ps ih =>
    intro b
    simp only [ptsBBox, Bool.false_or, decide_eq_true_eq, List.map_cons, List.foldl_cons,
      ite_lt_min, ite_gt_max, ih]

/-- `GlyphBBoxPDF` (glyf: four corners; cff: path points) = bounding box of the images of ALL the
points under the font matrix scaled by 1000 — for every matrix -/
theorem glyphBBoxPDF_eq_imageBox (fm : Mat) (pts : List (Rat × Rat)) :
    glyphBBoxPDF fm (some pts) = (match pts with | [] => RectQ.zero | _ => imageBox (pdfMatrix fm) pts) := by
  cases pts with
  | nil => rfl
  | cons p ps =>
    simp only [glyphBBoxPDF, ptsBBox, Bool.true_or, if_true, ptsBBox_false, imageBox, List.map_cons,
      List.map_map, minQ, maxQ, apply_pdf]
    rfl

theorem imageBox_encloses (m : Mat) (pts : List (Rat × Rat)) (p : Rat × Rat) (hp : p ∈ pts) :
    (imageBox m pts).llx ≤ (image m p).1 ∧ (image m p).1 ≤ (imageBox m pts).urx ∧
    (imageBox m pts).lly ≤ (image m p).2 ∧ (image m p).2 ≤ (imageBox m pts).ury := by
  cases pts with
  | nil => cases hp
  | cons q qs =>
    have hq : image m p ∈ (q :: qs).map (image m) := List.mem_map_of_mem hp
    have hx : (image m p).1 ∈ ((q :: qs).map (image m)).map (·.1) := List.mem_map_of_mem hq
    have hy : (image m p).2 ∈ ((q :: qs).map (image m)).map (·.2) := List.mem_map_of_mem hq
    simp only [imageBox]
    exact ⟨minQ_le _ _ hx, le_maxQ _ _ hx, minQ_le _ _ hy, le_maxQ _ _ hy⟩

/-! ## CID-keyed fonts: the composed map -/

theorem image_compose (fd fm : Mat) (p : Rat × Rat) :
    image (pdfMatrix (fd.mul fm)) p = cidImage fd fm p := by
  simp only [Mat.mul, image, pdfMatrix, cidImage]
  refine Prod.ext ?_ ?_ <;> simp only <;> ring

theorem imageBox_eq_imageBoxF (m : Mat) (pts : List (Rat × Rat)) :
    imageBox m pts = imageBoxF (image m) pts := by
  cases pts <;> rfl

/-- `GlyphBBoxPDF` of a glyph of a CID-keyed font (`M = FD.Mul(fm).Mul(Scale 1000)`) is the bounding
box of the outline points mapped through the FD matrix first, the font matrix second, ×1000 -/
theorem glyphBBoxPDF_cid (fd fm : Mat) (p0 : Rat × Rat) (ps : List (Rat × Rat)) :
    glyphBBoxPDF (fd.mul fm) (some (p0 :: ps)) = imageBoxF (cidImage fd fm) (p0 :: ps) := by
  have h := glyphBBoxPDF_eq_imageBox (fd.mul fm) (p0 :: ps)
  simp only at h
  rw [h, imageBox_eq_imageBoxF]
  have : image (pdfMatrix (fd.mul fm)) = cidImage fd fm := funext (image_compose fd fm)
  rw [this]

theorem imageBoxF_encloses (f : Rat × Rat → Rat × Rat) (pts : List (Rat × Rat)) (p : Rat × Rat)
    (hp : p ∈ pts) :
    (imageBoxF f pts).llx ≤ (f p).1 ∧ (f p).1 ≤ (imageBoxF f pts).urx ∧
    (imageBoxF f pts).lly ≤ (f p).2 ∧ (f p).2 ≤ (imageBoxF f pts).ury := by
  cases pts with
  | nil => cases hp
  | cons q qs =>
    have hq : f p ∈ (q :: qs).map f := List.mem_map_of_mem hp
    have hx : (f p).1 ∈ ((q :: qs).map f).map (·.1) := List.mem_map_of_mem hq
    have hy : (f p).2 ∈ ((q :: qs).map f).map (·.2) := List.mem_map_of_mem hq
    simp only [imageBoxF]
    exact ⟨minQ_le _ _ hx, le_maxQ _ _ hx, minQ_le _ _ hy, le_maxQ _ _ hy⟩

/-- `GlyphWidthPDF` of a CID-keyed font uses the same composed matrix `FD.Mul(fm)` -/
theorem glyphWidthPDF_cid (fd fm : Mat) (w : Rat) :
    glyphWidthPDFcff w (fd.mul fm) = cidWidthPDF fd fm w := by
  rfl

end SfntV.Metrics
